/-
Model driver for C08. Line protocol (see harness/overlay/sdk/go/arvados/zz_verif_c08_test.go, which
documents the case and result format; this driver must print the identical line):

  fs <maxBlockSize> <manifest|-> <op;op;...|->

The concrete model (`concImpl`, segments + pointers + Keep store with md5 locators) is run and
after each op the touched file's segment shape and the handle's pointer are printed.
-/
import ArvVerif.Base.MD5
import ArvVerif.Base.Loop
import ArvVerif.Model.C08_FS
import ArvVerif.Model.C08_Ext
open ArvVerif ArvVerif.C08

def md5Loc (b : Bytes) : Loc :=
  (MD5.hex (ByteArray.mk b.toArray) ++ "+" ++ toString b.length).toUTF8.toList

abbrev CFS := FS FileNode Ptr Store

def errName : Err → String
  | Err.ok => "ok" | Err.eof => "eof" | Err.noent => "noent" | Err.exist => "exist"
  | Err.inval => "inval" | Err.invalop => "invalop" | Err.notempty => "notempty"
  | Err.isdir => "isdir" | Err.notdir => "notdir" | Err.rofile => "rofile" | Err.wronly => "wronly"
  | Err.negoff => "negoff" | Err.syncflag => "syncflag" | Err.badflag => "badflag"
  | Err.io => "other" | Err.panic => "panic" | Err.hang => "hang"

def segShape : Seg → String
  | Seg.mem buf fl => "m" ++ toString buf.length ++ (if fl = Flush.none then "" else "!")
  | Seg.stored loc size off l =>
    "s" ++ toString l ++ "." ++ toString off ++ "." ++ toString size ++ "." ++ String.ofList ((loc.take 8).map (fun b => Char.ofNat b.toNat))

def fileShape (fn : FileNode) : String :=
  "R" ++ toString fn.repacked ++ ":Z" ++ toString fn.size ++ ":" ++ "+".intercalate (fn.segs.map segShape)

def ptrShape (p : Ptr) : String :=
  ":P" ++ toString p.off ++ "." ++ toString p.segIdx ++ "." ++ toString p.segOff ++ "." ++ toString p.repacked

def sortStrings (l : List String) : List String := (l.toArray.qsort (· < ·)).toList

/-- all files reachable from directory `d`, depth first in name order (fuel = number of dirs) -/
def allShapesFrom (s : CFS) : Nat → Nat → String → List String
  | 0, _, _ => []
  | fuel + 1, d, path =>
    let names := sortStrings ((entriesOf s.ents d).map (·.1))
    names.flatMap (fun name =>
      match child s.ents d name with
      | some (Node.file f) =>
        (match s.files[f]? with
         | some (_, fn) => [path ++ "/" ++ name ++ "=" ++ fileShape fn]
         | none => [])
      | some (Node.dir c) => allShapesFrom s fuel c (path ++ "/" ++ name)
      | none => [])

def allShapes (s : CFS) : String := "|".intercalate (allShapesFrom s (s.dirs.length + 1) 0 ".")

def handleShape (s : CFS) (h : Nat) : String :=
  match getHandle s h with
  | some hd =>
    (match hd.node with
     | Node.file f =>
       (match s.files[f]? with
        | some (_, fn) => "#" ++ fileShape fn ++ ptrShape hd.ptr
        | none => "")
     | Node.dir _ => "")
  | none => ""

def infoStr (name : String) (isDir : Bool) (size : Nat) : String :=
  name ++ ":" ++ (if isDir then "d" else "f") ++ ":" ++ toString size

def resStr : Res → String
  | Res.err e => errName e
  | Res.wrote n e => toString n ++ "," ++ errName e
  | Res.data d e => hexOfBytes d ++ "," ++ errName e
  | Res.pos p e => toString p ++ "," ++ errName e
  | Res.info n d sz => infoStr n d sz
  | Res.listing l =>
    if l.isEmpty then "-" else "+".intercalate (sortStrings (l.map (fun e => infoStr e.1 e.2.1 e.2.2)))
  | Res.badOp => "nohandle"

def pathOf (s : String) : String := if s == "@" then "" else s

def parseFlags (s : String) : Option (Nat × Bool × Bool × Bool × Bool × Bool × Bool) :=
  match s.toList with
  | [] => none
  | c :: rest =>
    let acc : Option Nat :=
      if c == 'R' then some 0 else if c == 'W' then some 1 else if c == 'B' then some 2
      else if c == 'N' then some 3 else none
    match acc with
    | none => none
    | some a =>
      if rest.all (fun c => "acxtsd".toList.contains c) then
        some (a, rest.contains 'a', rest.contains 'c', rest.contains 'x', rest.contains 't',
              rest.contains 's', rest.contains 'd')
      else none

def parseHex (s : String) : Option Bytes := (bytesOfHex? s).map (·.toList)

def parseOp (s : String) : Option Op :=
  match s.splitOn "," with
  | ["open", h, path, flags] =>
    match h.toNat?, parseFlags flags with
    | some h, some (a, ap, c, x, t, sy, d) => some (Op.openF h (pathOf path) a ap c x t sy d)
    | _, _ => none
  | ["create", h, path] => h.toNat?.map (fun h => Op.create h (pathOf path))
  | ["write", h, hex] =>
    match h.toNat?, parseHex hex with
    | some h, some d => some (Op.write h d)
    | _, _ => none
  | ["read", h, n] =>
    match h.toNat?, n.toNat? with
    | some h, some n => some (Op.read h n)
    | _, _ => none
  | ["readn", h, n] =>
    match h.toNat?, n.toNat? with
    | some h, some n => some (Op.readn h n)
    | _, _ => none
  | ["seek", h, off, wh] =>
    match h.toNat?, off.toInt?, wh.toNat? with
    | some h, some o, some w => some (Op.seek h o w)
    | _, _, _ => none
  | ["trunc", h, n] =>
    match h.toNat?, n.toNat? with
    | some h, some n => some (Op.trunc h n)
    | _, _ => none
  | ["close", h] => h.toNat?.map Op.close
  | ["hstat", h] => h.toNat?.map Op.hstat
  | ["hreaddir", h] => h.toNat?.map Op.hreaddir
  | ["hsync", h] => h.toNat?.map Op.hsync
  | ["mkdir", p] => some (Op.mkdir (pathOf p))
  | ["rename", a, b] => some (Op.rename (pathOf a) (pathOf b))
  | ["remove", p] => some (Op.remove (pathOf p))
  | ["removeall", p] => some (Op.removeAll (pathOf p))
  | ["stat", p] => some (Op.stat (pathOf p))
  | ["readdir", p] => some (Op.readdir (pathOf p))
  | ["flush", p, b] => some (Op.flush (pathOf p) (b == "1"))
  | ["sync"] => some Op.sync
  | _ => none

/-- which shapes the Go driver appends after an op -/
def shapeAfter (s : CFS) (op : Op) (r : Res) : String :=
  match op with
  | Op.openF h .. | Op.create h _ =>
    (match r with
     | Res.err Err.ok => handleShape s h
     | _ => "")
  | Op.write h _ | Op.read h _ | Op.readn h _ | Op.seek h _ _ | Op.trunc h _ | Op.hstat h => handleShape s h
  | Op.hsync _ | Op.flush _ _ | Op.sync => "#" ++ allShapes s
  | _ => ""

def parseStream (s : String) : Option (String × List Bytes × List (Nat × Nat × String)) :=
  match s.splitOn "~" with
  | [dir, blocks, toks] =>
    let bs := (blocks.splitOn ",").mapM (fun b => if b == "_" then some [] else parseHex b)
    let ts := (toks.splitOn ",").mapM (fun t =>
      match t.splitOn ":" with
      | [o, l, name] =>
        (match o.toNat?, l.toNat? with
         | some o, some l => some (o, l, name)
         | _, _ => none)
      | _ => none)
    match bs, ts with
    | some bs, some ts => some (dir, bs, ts)
    | _, _ => none
  | _ => none

/-- `hold`/`release` (delay / complete the Keep writes of background flushes) are not operations of
the filesystem: by `C08_flush_invisible*` the time at which a flush lands changes no result. In a
case that contains `hold` the Go driver prints no segment shapes (they depend on when the flushes
land) and this driver does the same; the abstract results must still be identical. -/
inductive DOp
  | op (o : XOp)
  | noop

/-- the ops of the extension layer (`Model/C08_Ext.lean`): `hreaddirn,<h>,<count>` (paged Readdir),
`fssize` (collectionFileSystem.Size), `memsize` (MemorySize) -/
def parseXOp (s : String) : Option XOp :=
  match s.splitOn "," with
  | ["hreaddirn", h, n] =>
    match h.toNat?, n.toNat? with
    | some h, some n => some (XOp.hreaddirN h n)
    | _, _ => none
  | ["fssize"] => some XOp.fsSize
  | ["memsize"] => some XOp.memSize
  | _ => (parseOp s).map XOp.base

def parseDOp (s : String) : Option DOp :=
  if s == "hold" || s == "release" then some DOp.noop else (parseXOp s).map DOp.op

abbrev CXFS := XFS FileNode Ptr Store

def entriesStr (l : List Entry) : String :=
  if l.isEmpty then "-" else "+".intercalate (sortStrings (l.map (fun e => infoStr e.1 e.2.1 e.2.2)))

/-- A page is printed as `<number of entries>,<err>`; the entries themselves come in Go map order, so
only when a call hands out the last entries of the snapshot the whole snapshot is printed (sorted),
which the Go driver assembles from the pages it received. -/
def xresStr (x' : CXFS) (op : XOp) (async : Bool) : XRes → String
  | XRes.base r => resStr r
  | XRes.size n =>
    (match op with
     | XOp.memSize => if async then "-" else toString n
     | _ => toString n)
  | XRes.page p e =>
    toString p.length ++ "," ++ errName e ++
      (match op with
       | XOp.hreaddirN h _ =>
         (match getUnread x'.unread h with
          | some u => if e = Err.ok ∧ u.pos ≥ u.snap.length then "=" ++ entriesStr u.snap else ""
          | none => "")
       | _ => "")

def runOps (impl : FileImpl FileNode Ptr Store) (shapes : Bool) : CXFS → List DOp → List String → List String
  | _, [], acc => acc.reverse
  | x, DOp.noop :: ops, acc => runOps impl shapes x ops ("ok" :: acc)
  | x, DOp.op op :: ops, acc =>
    let (x', r) := stepX impl memOf x op
    let sh := match op, r with
      | XOp.base o, XRes.base r => if shapes then shapeAfter x'.fs o r else ""
      | _, _ => ""
    runOps impl shapes x' ops ((xresStr x' op (!shapes) r ++ sh) :: acc)

def stepLine (line : String) : String :=
  match fields line with
  | ["fs", max, man, ops] =>
    match max.toNat? with
    | none => "bad-op"
    | some 0 => "bad-op"
    | some max =>
      let streams := if man == "-" then some [] else (man.splitOn "|").mapM parseStream
      let async := ops != "-" && (ops.splitOn ";").contains "hold"
      let ops := if ops == "-" then some [] else (ops.splitOn ";").mapM parseDOp
      match streams, ops with
      | some streams, some ops =>
        (match loadManifest md5Loc streams with
         | none => "load=err"
         | some s0 =>
           let outs := runOps (concImpl md5Loc max) (!async) ⟨s0, []⟩ ops []
           ";".intercalate ((if async then "load=ok" else "load=ok#" ++ allShapes s0) :: outs))
      | _, _ => "bad-op"
  | _ => "bad-op"

def main : IO Unit := lineLoop stepLine
