/-
Executable MD5 (RFC 1321) over ByteArray. Used only by the model *drivers* so that model and
implementation can be compared on real digests. No property theorem depends on this file:
theorems are stated for an arbitrary `hash`.
-/
import ArvVerif.Base.Bytes
namespace ArvVerif.MD5

def sTab : Array UInt32 := #[
  7,12,17,22,7,12,17,22,7,12,17,22,7,12,17,22,
  5,9,14,20,5,9,14,20,5,9,14,20,5,9,14,20,
  4,11,16,23,4,11,16,23,4,11,16,23,4,11,16,23,
  6,10,15,21,6,10,15,21,6,10,15,21,6,10,15,21]

def kTab : Array UInt32 := #[
  0xd76aa478,0xe8c7b756,0x242070db,0xc1bdceee,0xf57c0faf,0x4787c62a,0xa8304613,0xfd469501,
  0x698098d8,0x8b44f7af,0xffff5bb1,0x895cd7be,0x6b901122,0xfd987193,0xa679438e,0x49b40821,
  0xf61e2562,0xc040b340,0x265e5a51,0xe9b6c7aa,0xd62f105d,0x02441453,0xd8a1e681,0xe7d3fbc8,
  0x21e1cde6,0xc33707d6,0xf4d50d87,0x455a14ed,0xa9e3e905,0xfcefa3f8,0x676f02d9,0x8d2a4c8a,
  0xfffa3942,0x8771f681,0x6d9d6122,0xfde5380c,0xa4beea44,0x4bdecfa9,0xf6bb4b60,0xbebfbc70,
  0x289b7ec6,0xeaa127fa,0xd4ef3085,0x04881d05,0xd9d4d039,0xe6db99e5,0x1fa27cf8,0xc4ac5665,
  0xf4292244,0x432aff97,0xab9423a7,0xfc93a039,0x655b59c3,0x8f0ccc92,0xffeff47d,0x85845dd1,
  0x6fa87e4f,0xfe2ce6e0,0xa3014314,0x4e0811a1,0xf7537e82,0xbd3af235,0x2ad7d2bb,0xeb86d391]

@[inline] def rotl (x : UInt32) (n : UInt32) : UInt32 := (x <<< n) ||| (x >>> (32 - n))

@[inline] def word (buf : ByteArray) (off : Nat) : UInt32 :=
  (buf.get! off).toUInt32 ||| ((buf.get! (off+1)).toUInt32 <<< 8) |||
  ((buf.get! (off+2)).toUInt32 <<< 16) ||| ((buf.get! (off+3)).toUInt32 <<< 24)

structure St where
  a : UInt32
  b : UInt32
  c : UInt32
  d : UInt32

def block (buf : ByteArray) (off : Nat) (s : St) : St := Id.run do
  let mut a := s.a
  let mut b := s.b
  let mut c := s.c
  let mut d := s.d
  for i in [0:64] do
    let (f, g) :=
      if i < 16 then ((b &&& c) ||| ((~~~b) &&& d), i)
      else if i < 32 then ((d &&& b) ||| ((~~~d) &&& c), (5*i+1) % 16)
      else if i < 48 then (b ^^^ c ^^^ d, (3*i+5) % 16)
      else (c ^^^ (b ||| (~~~d)), (7*i) % 16)
    let f2 := f + a + kTab[i]! + word buf (off + 4*g)
    a := d
    d := c
    c := b
    b := b + rotl f2 sTab[i]!
  return { a := s.a + a, b := s.b + b, c := s.c + c, d := s.d + d }

def pad (msg : ByteArray) : ByteArray := Id.run do
  let len := msg.size
  let mut m := msg.push 0x80
  while m.size % 64 != 56 do
    m := m.push 0
  let bits := len * 8
  for i in [0:8] do
    m := m.push (UInt8.ofNat ((bits >>> (8*i)) % 256))
  return m

def le32 (x : UInt32) : List UInt8 :=
  [x.toUInt8, (x >>> 8).toUInt8, (x >>> 16).toUInt8, (x >>> 24).toUInt8]

def sum (msg : ByteArray) : ByteArray := Id.run do
  let m := pad msg
  let mut s : St := { a := 0x67452301, b := 0xefcdab89, c := 0x98badcfe, d := 0x10325476 }
  for i in [0:m.size/64] do
    s := block m (i*64) s
  return ByteArray.mk (le32 s.a ++ le32 s.b ++ le32 s.c ++ le32 s.d).toArray

def hex (msg : ByteArray) : String := hexOfByteArray (sum msg)

def hexStr (s : String) : String := hex s.toUTF8

end ArvVerif.MD5
