/-
Byte / hex / decimal helpers shared by the executable drivers. Core Lean only.
Nothing here is a proof obligation of a property; property theorems are stated over
abstract `hash`/`mac` parameters.
-/
namespace ArvVerif

abbrev Bytes := List UInt8

def hexDigit (n : Nat) : Char :=
  if n < 10 then Char.ofNat (48 + n) else Char.ofNat (87 + n)

def hexOfByte (b : UInt8) : List Char :=
  [hexDigit (b.toNat / 16), hexDigit (b.toNat % 16)]

def hexOfBytes (bs : Bytes) : String :=
  String.ofList (bs.flatMap hexOfByte)

def hexOfByteArray (bs : ByteArray) : String :=
  hexOfBytes bs.toList

def hexVal? (c : Char) : Option Nat :=
  if '0' ≤ c ∧ c ≤ '9' then some (c.toNat - 48)
  else if 'a' ≤ c ∧ c ≤ 'f' then some (c.toNat - 87)
  else if 'A' ≤ c ∧ c ≤ 'F' then some (c.toNat - 55)
  else none

/-- Decode a hex string (even length) to bytes; `none` if malformed. -/
def bytesOfHex? (s : String) : Option ByteArray :=
  let rec go : List Char → ByteArray → Option ByteArray
    | [], acc => some acc
    | [_], _ => none
    | a :: b :: rest, acc =>
      match hexVal? a, hexVal? b with
      | some x, some y => go rest (acc.push (UInt8.ofNat (x * 16 + y)))
      | _, _ => none
  go s.toList ByteArray.empty

/-- Lowercase hex of a natural number, no padding ("0" for 0). -/
def natToHex (n : Nat) : String :=
  String.ofList (Nat.toDigits 16 n)

/-- Lowercase hex of a natural number left-padded with zeros to `w` digits (Go's `%0wx`). -/
def natToHexPad (w n : Nat) : String :=
  let ds := Nat.toDigits 16 n
  String.ofList (List.replicate (w - ds.length) '0' ++ ds)

def hexToNat? (s : String) : Option Nat :=
  if s.isEmpty then none else
  s.toList.foldl (fun acc c => match acc, hexVal? c with
    | some a, some v => some (a * 16 + v)
    | _, _ => none) (some 0)

end ArvVerif
