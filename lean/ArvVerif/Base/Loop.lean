/-
Line protocol loop shared by all model drivers: one case per input line, one canonical result
line per case. Lines are self-contained (a stateful history is encoded inside one line).
-/
namespace ArvVerif

partial def lineLoop (step : String → String) : IO Unit := do
  let stdin ← IO.getStdin
  let stdout ← IO.getStdout
  let rec loop : IO Unit := do
    let line ← stdin.getLine
    if line.isEmpty then return ()
    let l := if line.endsWith "\n" then (line.dropEnd 1).toString else line
    stdout.putStrLn (step l)
    loop
  loop
  stdout.flush

/-- Split on single spaces (no collapsing); the generators never emit double spaces. -/
def fields (s : String) : List String := s.splitOn " "

end ArvVerif
