/-
Executable SHA-1 (RFC 3174) and HMAC-SHA1 (RFC 2104) over ByteArray; driver use only.
-/
import ArvVerif.Base.Bytes
namespace ArvVerif.SHA1

@[inline] def rotl (x : UInt32) (n : UInt32) : UInt32 := (x <<< n) ||| (x >>> (32 - n))

@[inline] def wordBE (buf : ByteArray) (off : Nat) : UInt32 :=
  ((buf.get! off).toUInt32 <<< 24) ||| ((buf.get! (off+1)).toUInt32 <<< 16) |||
  ((buf.get! (off+2)).toUInt32 <<< 8) ||| (buf.get! (off+3)).toUInt32

def pad (msg : ByteArray) : ByteArray := Id.run do
  let len := msg.size
  let mut m := msg.push 0x80
  while m.size % 64 != 56 do
    m := m.push 0
  let bits := len * 8
  for i in [0:8] do
    m := m.push (UInt8.ofNat ((bits >>> (8*(7-i))) % 256))
  return m

def be32 (x : UInt32) : List UInt8 :=
  [(x >>> 24).toUInt8, (x >>> 16).toUInt8, (x >>> 8).toUInt8, x.toUInt8]

def sum (msg : ByteArray) : ByteArray := Id.run do
  let m := pad msg
  let mut h0 : UInt32 := 0x67452301
  let mut h1 : UInt32 := 0xEFCDAB89
  let mut h2 : UInt32 := 0x98BADCFE
  let mut h3 : UInt32 := 0x10325476
  let mut h4 : UInt32 := 0xC3D2E1F0
  for blk in [0:m.size/64] do
    let mut w : Array UInt32 := Array.mkEmpty 80
    for i in [0:16] do
      w := w.push (wordBE m (blk*64 + 4*i))
    for i in [16:80] do
      w := w.push (rotl (w[i-3]! ^^^ w[i-8]! ^^^ w[i-14]! ^^^ w[i-16]!) 1)
    let mut a := h0
    let mut b := h1
    let mut c := h2
    let mut d := h3
    let mut e := h4
    for i in [0:80] do
      let (f, k) : UInt32 × UInt32 :=
        if i < 20 then ((b &&& c) ||| ((~~~b) &&& d), 0x5A827999)
        else if i < 40 then (b ^^^ c ^^^ d, 0x6ED9EBA1)
        else if i < 60 then ((b &&& c) ||| (b &&& d) ||| (c &&& d), 0x8F1BBCDC)
        else (b ^^^ c ^^^ d, 0xCA62C1D6)
      let t := rotl a 5 + f + e + k + w[i]!
      e := d
      d := c
      c := rotl b 30
      b := a
      a := t
    h0 := h0 + a
    h1 := h1 + b
    h2 := h2 + c
    h3 := h3 + d
    h4 := h4 + e
  return ByteArray.mk (be32 h0 ++ be32 h1 ++ be32 h2 ++ be32 h3 ++ be32 h4).toArray

def hex (msg : ByteArray) : String := hexOfByteArray (sum msg)

def hmac (key msg : ByteArray) : ByteArray :=
  let key := if key.size > 64 then sum key else key
  let key := Id.run do
    let mut k := key
    while k.size < 64 do k := k.push 0
    return k
  let ipad := ByteArray.mk (key.toList.map (· ^^^ 0x36)).toArray
  let opad := ByteArray.mk (key.toList.map (· ^^^ 0x5c)).toArray
  sum (opad ++ sum (ipad ++ msg))

def hmacHex (key msg : String) : String := hexOfByteArray (hmac key.toUTF8 msg.toUTF8)

end ArvVerif.SHA1
