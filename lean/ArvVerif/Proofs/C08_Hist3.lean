/-
C08 helper lemmas, part 12: per-operation refinement — open/create, truncate, seek, write and the
read-only handle operations.
-/
import ArvVerif.Proofs.C08_Hist2
namespace ArvVerif.C08

variable {max : Nat} {hash : Bytes → Loc}

theorem Inv.ptr0 {s : CFS} (hinv : Inv max hash s) {f : Nat} {nf : String × FileNode}
    (h : s.files[f]? = some nf) : PtrOK nf.2 Ptr.zero :=
  let ⟨hwf, hrep⟩ := hinv.files nf (List.mem_of_getElem? h)
  ptr0_ok nf.2 hwf hrep

theorem Inv.addNode {s : CFS} (hinv : Inv max hash s) (d : Nat) (name : String) (isDir : Bool) :
    Inv max hash (addNode (concImpl hash max) s d name isDir).1 := by
  cases isDir with
  | true => exact hinv.same_contents rfl rfl rfl (hinv.ents.set d name _ (fun f h => by cases h))
  | false =>
    simp only [ArvVerif.C08.addNode, Bool.false_eq_true, if_false]
    refine ⟨hinv.ok, ?_, ?_, ?_⟩
    rotate_right
    · show EntsOK (setEnt s.ents d name (Node.file s.files.length)) (s.files ++ [(name, FileNode.empty)]).length
      refine (hinv.ents.mono (by simp)).set d name _ ?_
      intro f hf; cases hf; simp
    · intro nf hnf
      rcases List.mem_append.mp hnf with h | h
      · exact hinv.files nf h
      · simp only [List.mem_cons, List.not_mem_nil, or_false] at h
        rw [h]
        exact ⟨⟨rfl, fun s hs => by cases hs⟩, Int.le_refl _⟩
    · intro e he f hnode
      obtain ⟨nf, hnf, hp⟩ := hinv.handles e he f hnode
      have hlt : f < s.files.length := by
        apply Classical.byContradiction; intro hn
        rw [List.getElem?_eq_none (by omega)] at hnf; cases hnf
      exact ⟨nf, by rw [List.getElem?_append_left hlt]; exact hnf, hp⟩

/-- the new node of `addNode ... false` is the file with the next id, present and empty -/
theorem addNode_file (s : CFS) (d : Nat) (name : String) :
    (addNode (concImpl hash max) s d name false).2 = Node.file s.files.length ∧
    (addNode (concImpl hash max) s d name false).1.files[s.files.length]? = some (name, FileNode.empty) := by
  simp [addNode, concImpl]

theorem addNode_dir (s : CFS) (d : Nat) (name : String) :
    (addNode (concImpl hash max) s d name true).2 = Node.dir s.dirs.length := rfl

theorem TruncOK.ptrs {st : Store} {fn fn' : FileNode} {n : Nat} (h : TruncOK max hash st fn n fn') :
    ∀ q, PtrOK fn q → PtrOK fn' q := by
  intro q hq
  by_cases hn : n = fn.size
  · rw [h.same hn]; exact hq
  · have := h.bump hn
    exact ⟨by have := hq.1; omega, fun h' => by have := hq.1; omega⟩

theorem TruncOK.rep {st : Store} {fn fn' : FileNode} {n : Nat} (h : TruncOK max hash st fn n fn')
    (hrep : 0 ≤ fn.repacked) : 0 ≤ fn'.repacked := by
  by_cases hn : n = fn.size
  · rw [h.same hn]; exact hrep
  · rw [h.bump hn]; omega

theorem conc_trunc (hmax : 1 ≤ max) {s : CFS} (hinv : Inv max hash s) {f : Nat} {nf : String × FileNode}
    (hf : s.files[f]? = some nf) (n : Nat) :
    ∃ c', (concImpl hash max).trunc nf.2 n = Except.ok c' ∧ TruncOK max hash s.world nf.2 n c' := by
  obtain ⟨hwf, hrep⟩ := hinv.files nf (List.mem_of_getElem? hf)
  obtain ⟨c', h1, h2⟩ := truncate_spec (hash := hash) (st := s.world) hmax hwf hrep n
  refine ⟨c', ?_, h2⟩
  show (match truncate max nf.2 n with | some fn' => pure fn' | none => throw Err.panic) = _
  rw [h1]; rfl

/-- truncating file `f` to `n` through the state -/
theorem setFile_trunc_ref (hmax : 1 ≤ max) {s : CFS} (hinv : Inv max hash s) {f : Nat} {nf : String × FileNode}
    (hf : s.files[f]? = some nf) {n : Nat} {c' : FileNode} (h : TruncOK max hash s.world nf.2 n c') :
    absFS (setFile s f c') = setFile (absFS s) f (specTruncate (abs s.world nf.2) n) ∧
    Inv max hash (setFile s f c') := by
  obtain ⟨hwf, hrep⟩ := hinv.files nf (List.mem_of_getElem? hf)
  refine ⟨by rw [setFile_abs, h.abs_eq], ?_⟩
  apply hinv.setFile f c' h.wf (h.rep hrep)
  intro nf' hnf' q hq
  rw [hf] at hnf'; cases hnf'
  exact h.ptrs q hq

theorem absH_node (hd : Handle Ptr) : (absH hd).node = hd.node := rfl

/-! ### open -/

/-- relation between the two `openFile` outcomes -/
def OpenRef (max : Nat) (hash : Bytes → Loc) (a : CFS × Except Err (Handle Ptr)) (b : SFS × Except Err (Handle Nat)) : Prop :=
  absFS a.1 = b.1 ∧ Inv max hash a.1 ∧
  ((∃ e, a.2 = Except.error e ∧ b.2 = Except.error e) ∨
   (∃ hd, a.2 = Except.ok hd ∧ b.2 = Except.ok (absH hd) ∧ hd.ptr = Ptr.zero ∧
      ∀ f, hd.node = Node.file f → ∃ nf, a.1.files[f]? = some nf))

theorem OpenRef.err {s : CFS} (hinv : Inv max hash s) (e : Err) :
    OpenRef max hash (s, Except.error e) (absFS s, Except.error e) :=
  ⟨rfl, hinv, Or.inl ⟨e, rfl, rfl⟩⟩

theorem OpenRef.ite {c : Prop} [Decidable c] {a a' : CFS × Except Err (Handle Ptr)} {b b' : SFS × Except Err (Handle Nat)}
    (h1 : OpenRef max hash a b) (h2 : OpenRef max hash a' b') :
    OpenRef max hash (if c then a else a') (if c then b else b') := by
  split
  · exact h1
  · exact h2

theorem openFile_ref (hmax : 1 ≤ max) {s : CFS} (hinv : Inv max hash s) (path : String) (acc : Nat)
    (app cre excl trunc sync dirPerm : Bool) :
    OpenRef max hash (openFile (concImpl hash max) s path acc app cre excl trunc sync dirPerm)
      (openFile specImpl (absFS s) path acc app cre excl trunc sync dirPerm) := by
  unfold openFile
  generalize splitDirBase path = sp
  obtain ⟨dcomps, name⟩ := sp
  simp only [lookupDir_abs, absFS_ents, absFS_dirs]
  refine OpenRef.ite (OpenRef.err hinv _) ?_
  cases lookupDir s dcomps with
  | error e => exact OpenRef.err hinv _
  | ok d =>
    simp only []
    refine OpenRef.ite (OpenRef.err hinv _) ?_
    refine OpenRef.ite ⟨rfl, hinv, Or.inr ⟨_, rfl, rfl, rfl, fun f h => by cases h⟩⟩ ?_
    refine OpenRef.ite ⟨rfl, hinv, Or.inr ⟨_, rfl, rfl, rfl, fun f h => by cases h⟩⟩ ?_
    refine OpenRef.ite (OpenRef.err hinv _) ?_
    cases hc : child s.ents d name with
    | none =>
      simp only []
      refine OpenRef.ite (OpenRef.err hinv _) ?_
      obtain ⟨a1, a2⟩ := addNode_abs (max := max) (hash := hash) s d name dirPerm
      refine ⟨a1, hinv.addNode d name dirPerm, Or.inr ⟨_, rfl, ?_, rfl, ?_⟩⟩
      · show _ = Except.ok (absH ⟨_, Ptr.zero, app, _, _⟩)
        simp only [absH, ← a2]; rfl
      · intro f hf
        cases dirPerm with
        | true => rw [addNode_dir] at hf; cases hf
        | false =>
          obtain ⟨b1, b2⟩ := addNode_file (max := max) (hash := hash) s d name
          rw [b1] at hf; cases hf
          exact ⟨_, b2⟩
    | some n =>
      simp only []
      refine OpenRef.ite (OpenRef.err hinv _) ?_
      -- the plain "open existing" outcome
      have plain : OpenRef max hash
          (s, Except.ok ⟨n, (concImpl hash max).ptr0, app, acc == 0 || acc == 2, acc == 1 || acc == 2⟩)
          (absFS s, Except.ok ⟨n, specImpl.ptr0, app, acc == 0 || acc == 2, acc == 1 || acc == 2⟩) := by
        refine ⟨rfl, hinv, Or.inr ⟨_, rfl, rfl, rfl, ?_⟩⟩
        intro f hf
        -- an entry pointing at a file id without a file: the concrete model would report panic on
        -- use; `OpenRef` only needs existence for the PtrOK obligation, so we get it from the table
        obtain ⟨e, he1, he2⟩ := child_mem hc
        have hlt : f < s.files.length := hinv.ents e he1 f (by rw [he2]; exact hf)
        exact ⟨s.files[f], by simp [hlt]⟩
      refine OpenRef.ite ?_ plain
      refine OpenRef.ite (OpenRef.err hinv _) ?_
      cases n with
      | dir k => exact OpenRef.err hinv _
      | file f =>
        simp only [absFS_files, absFiles_get]
        cases hf : s.files[f]? with
        | none => exact OpenRef.err hinv _
        | some nf =>
          obtain ⟨c', t1, t2⟩ := conc_trunc hmax hinv hf 0
          obtain ⟨r1, r2⟩ := setFile_trunc_ref hmax hinv hf t2
          simp only [Option.map_some, t1]
          refine ⟨r1, r2, Or.inr ⟨_, rfl, rfl, rfl, ?_⟩⟩
          intro f' hf'
          cases hf'
          unfold setFile
          rw [hf]
          have hlt : f < s.files.length := by
            apply Classical.byContradiction; intro hn
            rw [List.getElem?_eq_none (by omega)] at hf; cases hf
          exact ⟨_, List.getElem?_set_self hlt⟩

end ArvVerif.C08
