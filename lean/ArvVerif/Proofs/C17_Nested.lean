/-
C17 — nested mounts (finding F17d). The items `fragOf cfg D y` are the extract of the collection that
`y` lies in, *whole*: when another mount point lies inside that collection's directory tree, the
container sees the inner mount there, yet the outer collection's items for those paths are part
of the extract. `Unshadowed`: an item's source path lies in no mount deeper than the one it was
extracted from. True when no mount point lies strictly below a collection mount point
(`fragOf_unshadowed`); false in general (Props/C17.lean, `C17_mounted_view_full_fails`).
-/
import ArvVerif.Proofs.C17_Sites
set_option linter.unusedSimpArgs false
namespace ArvVerif.C17

/-- the container path an item of `fragOf cfg D y` was taken from (`y` itself, or the path below
`y` that corresponds to the item's path below `D`) -/
def fragSrc (D y : Path) (f : Frag) : Path := y ++ f.1.drop D.length

/-- what the container sees at the item's source path is the collection the item comes from: no
mount deeper than the innermost mount of `y` contains that path -/
def Unshadowed (cfg : Cfg) (D y : Path) (f : Frag) : Prop :=
  ∀ e ∈ cfg.mounts, e.1.isPrefixOf (fragSrc D y f) = true → e.1.length ≤ rootLen (srcMount cfg y)

/-- no mount point lies strictly below the mount point of a collection -/
def NoNestedMounts (cfg : Cfg) : Prop :=
  ∀ e ∈ cfg.mounts, ∀ e' ∈ cfg.mounts, e.2.kind = "collection" → ¬ ProperPrefix e.1 e'.1

/-- a non-empty `fragOf` comes from a collection mount: the innermost mount of `y` -/
theorem fragOf_mount (cfg : Cfg) (D y : Path) (f : Frag) (hf : f ∈ fragOf cfg D y) :
    ∃ root m, srcMount cfg y = some (root, m) ∧ m.kind = "collection" := by
  unfold fragOf at hf
  split at hf
  · cases hf
  · split at hf
    · cases hf
    · rename_i root m hsm
      split at hf
      · cases hf
      · split at hf
        · cases hf
        · split at hf
          · cases hf
          · rename_i hk
            exact ⟨root, m, hsm, by simpa using hk⟩

theorem fragOf_unshadowed (cfg : Cfg) (hn : NoNestedMounts cfg) (D y : Path) (f : Frag) (hf : f ∈ fragOf cfg D y) :
    Unshadowed cfg D y f := by
  obtain ⟨root, m, hsm, hk⟩ := fragOf_mount cfg D y f hf
  obtain ⟨hmem, hpre, _⟩ := srcMount_mem cfg y _ hsm
  intro e he hp
  have hy : y.isPrefixOf (fragSrc D y f) = true := isPrefixOf_append y _
  by_cases hl : e.1.length ≤ y.length
  · exact srcMount_max cfg y e he (prefix_total e.1 y _ hp hy hl)
  · exfalso
    have hye : y.isPrefixOf e.1 = true := prefix_total y e.1 _ hy hp (by omega)
    exact hn (root, m) hmem e he hk
      ⟨prefix_trans' _ _ _ hpre hye, Nat.lt_of_le_of_lt (prefix_length_le _ _ hpre) (by omega)⟩

end ArvVerif.C17
