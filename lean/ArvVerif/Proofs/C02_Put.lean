/-
C02 helper lemmas, part 5: PutBlock's attempts and handlePUT — crash atomicity on the level of
the request, and what an acknowledgement implies.
-/
import ArvVerif.Proofs.C02_Write
namespace ArvVerif.C02

def FS.data (fs : FS) (p : Path) : Option Bytes := (fs.get p).map (·.data)

/-- A `WriteBlock` call that returned nil has renamed the complete temp file onto the block path. -/
theorem wb_success (fs : FS) (w : WBIn) (h : (writeBlockEvs w).2 = true) :
    w.rend = .eof ∧ w.fail = .none ∧
    (run fs (writeBlockEvs w).1).get (blockPath w.h) = some ⟨w.chunks.flatten, w.now⟩ := by
  rcases wb_shape w with ⟨h2, _⟩ | ⟨_, hr, hf, he⟩
  · rw [h] at h2; cases h2
  · refine ⟨hr, hf, ?_⟩
    rw [he, run_append]
    have ht := get_tmp_after_body fs w
    simp only [run_cons, run_nil, Step.apply, ht]
    exact get_set_eq _ _ _

theorem wb_fail_keeps (fs : FS) (w : WBIn) (h : (writeBlockEvs w).2 = false) (k : Nat) :
    (run fs ((writeBlockEvs w).1.take k)).get (blockPath w.h) = fs.get (blockPath w.h) := by
  rcases wb_crash_atomic fs w k with h1 | ⟨_, _, _, h2, _⟩
  · exact h1
  · rw [h] at h2; cases h2

theorem attempts_crash_atomic (h : Name) (ws : List WBIn) (hws : ∀ w ∈ ws, w.h = h) :
    ∀ (fs : FS) (k : Nat),
    (run fs ((attemptsEvs ws).1.take k)).get (blockPath h) = fs.get (blockPath h) ∨
    ∃ w ∈ ws, (run fs ((attemptsEvs ws).1.take k)).get (blockPath h) = some ⟨w.chunks.flatten, w.now⟩ ∧
      w.rend = .eof ∧ (attemptsEvs ws).2 = true ∧ (attemptsEvs ws).1.length ≤ k := by
  induction ws with
  | nil => intro fs k; left; simp [attemptsEvs]
  | cons w rest ih =>
    intro fs k
    have hw : w.h = h := hws w List.mem_cons_self
    have ih' := ih (fun w' hw' => hws w' (List.mem_cons_of_mem _ hw'))
    simp only [attemptsEvs]
    split
    · rename_i hok
      rcases wb_crash_atomic fs w k with h1 | ⟨h1, h2, _, _, h5⟩
      · left; rw [← hw]; exact h1
      · right; exact ⟨w, List.mem_cons_self, hw ▸ h1, h2, rfl, h5⟩
    · rename_i hok
      have hfail : (writeBlockEvs w).2 = false := by simpa using hok
      simp only
      rw [List.take_append, run_append]
      by_cases hk : k ≤ (writeBlockEvs w).1.length
      · left
        have : k - (writeBlockEvs w).1.length = 0 := by omega
        rw [this, List.take_zero, run_nil, ← hw]
        exact wb_fail_keeps fs w hfail k
      · have hfull : (writeBlockEvs w).1.take k = (writeBlockEvs w).1 := List.take_of_length_le (by omega)
        rw [hfull]
        have hkeep : (run fs (writeBlockEvs w).1).get (blockPath h) = fs.get (blockPath h) := by
          have := wb_fail_keeps fs w hfail (writeBlockEvs w).1.length
          rw [List.take_length, hw] at this
          exact this
        rcases ih' (run fs (writeBlockEvs w).1) (k - (writeBlockEvs w).1.length) with h1 | ⟨w', hw', h1, h2, h3, h4⟩
        · left; rw [h1, hkeep]
        · right
          refine ⟨w', List.mem_cons_of_mem _ hw', h1, h2, h3, ?_⟩
          simp only [List.length_append]
          omega

theorem attempts_success (h : Name) (ws : List WBIn) (hws : ∀ w ∈ ws, w.h = h) :
    ∀ (fs : FS), (attemptsEvs ws).2 = true →
    ∃ w ∈ ws, (run fs (attemptsEvs ws).1).get (blockPath h) = some ⟨w.chunks.flatten, w.now⟩ ∧ w.rend = .eof := by
  induction ws with
  | nil => intro fs hs; simp [attemptsEvs] at hs
  | cons w rest ih =>
    intro fs hs
    have hw : w.h = h := hws w List.mem_cons_self
    simp only [attemptsEvs] at hs ⊢
    split at hs
    · rename_i hok
      simp only [hok, if_true]
      obtain ⟨h1, _, h3⟩ := wb_success fs w hok
      exact ⟨w, List.mem_cons_self, hw ▸ h3, h1⟩
    · rename_i hok
      simp only [hok]
      obtain ⟨w', hw', h1, h2⟩ := ih (fun w' hw' => hws w' (List.mem_cons_of_mem _ hw')) (run fs (writeBlockEvs w).1) hs
      refine ⟨w', List.mem_cons_of_mem _ hw', ?_, h2⟩
      simpa [run_append] using h1

/-! ### Touch keeps the data -/

theorem touch_data (fs : FS) (h : Name) (now : Nat) (fail : Option Nat) (p : Path) (k : Nat) :
    (run fs ((touchEvs fs h now fail).1.take k)).data p = fs.data p := by
  have key : ∀ (evs : List Ev), (∀ e ∈ evs, e.eff = .nop ∨ ∃ q t, e.eff = .chtimes q t) →
      ∀ fs : FS, (run fs evs).data p = fs.data p := by
    intro evs
    induction evs with
    | nil => intro _ fs; rfl
    | cons e es ih =>
      intro hall fs
      rw [run_cons, ih (fun e' he' => hall e' (List.mem_cons_of_mem _ he'))]
      rcases hall e List.mem_cons_self with h0 | ⟨q, t, h0⟩
      · rw [h0]; rfl
      · rw [h0]
        simp only [Step.apply]
        split
        · rename_i f hf
          by_cases hq : p = q
          · subst hq; simp [FS.data, hf]
          · simp [FS.data, get_set_ne _ _ hq]
        · rfl
  apply key
  intro e he
  have he := List.mem_of_mem_take he
  unfold touchEvs at he
  split at he
  · simp at he; subst he; exact Or.inl rfl
  · split at he <;> simp at he
    · subst he; exact Or.inl rfl
    · rcases he with rfl | rfl <;> exact Or.inl rfl
    · rcases he with rfl | rfl | rfl | rfl <;> exact Or.inl rfl
    · rcases he with rfl | rfl | rfl | rfl
      · exact Or.inl rfl
      · exact Or.inl rfl
      · exact Or.inl rfl
      · exact Or.inr ⟨_, _, rfl⟩

end ArvVerif.C02

namespace ArvVerif.C02

theorem data_of_get_eq {fs fs' : FS} {p : Path} (h : fs'.get p = fs.get p) : fs'.data p = fs.data p := by
  simp [FS.data, h]

/-- the write path of handlePUT after some events `pre` that kept the data -/
theorem eff_valid (p : PutIn)
    (hv : ∀ w ∈ p.attempts, w.h = p.h ∧ (w.rend = .eof → w.chunks.flatten = p.body)) :
    ∀ w ∈ p.effAttempts, w.h = p.h ∧ (w.rend = .eof → w.chunks.flatten = p.body) := by
  intro w hw
  unfold PutIn.effAttempts at hw
  split at hw
  · simp at hw
  · exact hv w hw

theorem write_path_atomic (p : PutIn)
    (hv0 : ∀ w ∈ p.attempts, w.h = p.h ∧ (w.rend = .eof → w.chunks.flatten = p.body))
    (fs : FS) (k : Nat) :
    (run fs ((attemptsEvs p.effAttempts).1.take k)).data (blockPath p.h) = fs.data (blockPath p.h) ∨
    (run fs ((attemptsEvs p.effAttempts).1.take k)).data (blockPath p.h) = some p.body := by
  have hv := eff_valid p hv0
  rcases attempts_crash_atomic p.h p.effAttempts (fun w hw => (hv w hw).1) fs k with h1 | ⟨w, hw, h1, h2, _, _⟩
  · exact Or.inl (data_of_get_eq h1)
  · right
    simp [FS.data, h1, (hv w hw).2 h2]

theorem putCore_crash_atomic (hash : Bytes → Name) (fs : FS) (p : PutIn)
    (hv : ∀ w ∈ p.attempts, w.h = p.h ∧ (w.rend = .eof → w.chunks.flatten = p.body)) (k : Nat) :
    (run fs ((putCore hash fs p).1.take k)).data (blockPath p.h) = fs.data (blockPath p.h) ∨
    (run fs ((putCore hash fs p).1.take k)).data (blockPath p.h) = some p.body := by
  unfold putCore
  simp only
  split
  · simpa using write_path_atomic p hv fs k
  · split
    · split
      · left; exact touch_data fs p.h p.now p.touchFail _ k
      · -- Touch failed, then the write path
        rw [List.take_append, run_append]
        have ht := touch_data fs p.h p.now p.touchFail (blockPath p.h) k
        rcases write_path_atomic p hv (run fs ((touchEvs fs p.h p.now p.touchFail).1.take k))
          (k - (touchEvs fs p.h p.now p.touchFail).1.length) with h1 | h1
        · left; rw [h1, ht]
        · right; exact h1
    · split
      · left; simp
      · simpa using write_path_atomic p hv fs k

theorem compare_nops' (fs : FS) (h : Name) : ∀ e ∈ compareEvs fs h, e.eff = .nop := by
  intro e he
  unfold compareEvs at he
  split at he <;> simp at he
  · subst he; rfl
  · rcases he with rfl | rfl | rfl <;> rfl

theorem run_nops {fs : FS} {evs : List Ev} (h : ∀ e ∈ evs, e.eff = .nop) : run fs evs = fs := by
  induction evs generalizing fs with
  | nil => rfl
  | cons e es ih =>
    rw [run_cons, h e List.mem_cons_self]
    exact ih (fun e' he' => h e' (List.mem_cons_of_mem _ he'))

/-- a prefix of no-effect events only shifts the crash position -/
theorem run_take_nops_append {N X : List Ev} (hN : ∀ e ∈ N, e.eff = .nop) (fs : FS) (k : Nat) :
    run fs ((N ++ X).take k) = run fs (X.take (k - N.length)) := by
  rw [List.take_append, run_append, run_nops (fun e he => hN e (List.mem_of_mem_take he))]

theorem put_crash_atomic (hash : Bytes → Name) (fs : FS) (p : PutIn)
    (hv : ∀ w ∈ p.attempts, w.h = p.h ∧ (w.rend = .eof → w.chunks.flatten = p.body)) (k : Nat) :
    (run fs ((handlePut hash fs p).1.take k)).data (blockPath p.h) = fs.data (blockPath p.h) ∨
    (run fs ((handlePut hash fs p).1.take k)).data (blockPath p.h) = some p.body := by
  unfold handlePut
  split
  · left; simp
  · split
    · left; simp
    · split
      · left
        simp only
        rw [run_nops (fun e he => compare_nops' fs p.h e (List.mem_of_mem_take he))]
      · simp only
        rw [run_take_nops_append (compare_nops' fs p.h)]
        exact putCore_crash_atomic hash fs p hv _

/-- 200 is only answered after `PutBlock` returned nil: then every event has been performed and the
block path holds the complete body. -/
theorem putCore_ack (hash : Bytes → Name) (fs : FS) (p : PutIn)
    (hv : ∀ w ∈ p.attempts, w.h = p.h ∧ (w.rend = .eof → w.chunks.flatten = p.body))
    (h : (putCore hash fs p).2 = .ok200) :
    (run fs (putCore hash fs p).1).data (blockPath p.h) = some p.body := by
  have hv' := eff_valid p hv
  have wr : ∀ (pre : List Ev), (if p.cancelled = true then Resp.disconnect
        else if (attemptsEvs p.effAttempts).2 = true then Resp.ok200
        else if p.volumeFull = true then Resp.full else Resp.fail) = Resp.ok200 →
      (run fs (pre ++ (attemptsEvs p.effAttempts).1)).data (blockPath p.h) = some p.body := by
    intro pre hr
    have hs : (attemptsEvs p.effAttempts).2 = true := by
      by_cases hc : p.cancelled = true
      · simp [hc] at hr
      · by_cases hs : (attemptsEvs p.effAttempts).2 = true
        · exact hs
        · by_cases hf : p.volumeFull = true <;> simp [hc, hs, hf] at hr
    obtain ⟨w, hw, h1, h2⟩ := attempts_success p.h p.effAttempts (fun w hw => (hv' w hw).1) (run fs pre) hs
    rw [run_append]
    simp [FS.data, h1, (hv' w hw).2 h2]
  generalize hr : putCore hash fs p = r at h ⊢
  unfold putCore at hr
  simp only at hr
  split at hr
  · subst hr; simpa using wr [] h
  · rename_i f hf
    split at hr
    · rename_i hd
      split at hr
      · -- Touch succeeded: the stored data is the body
        subst hr
        have := touch_data fs p.h p.now p.touchFail (blockPath p.h) (touchEvs fs p.h p.now p.touchFail).1.length
        rw [List.take_length] at this
        simp only
        rw [this]
        simp [FS.data, hf, hd]
      · subst hr; exact wr _ h
    · split at hr
      · subst hr; simp at h
      · subst hr; simpa using wr [] h

theorem ack_complete (hash : Bytes → Name) (fs : FS) (p : PutIn)
    (hv : ∀ w ∈ p.attempts, w.h = p.h ∧ (w.rend = .eof → w.chunks.flatten = p.body))
    (h : (handlePut hash fs p).2 = .ok200) :
    hash p.body = p.h ∧ (run fs (handlePut hash fs p).1).data (blockPath p.h) = some p.body := by
  generalize hr : handlePut hash fs p = r at h ⊢
  unfold handlePut at hr
  split at hr
  · subst hr; simp at h
  · split at hr
    · subst hr; simp at h
    · rename_i hh
      have hh' : hash p.body = p.h := by simpa using hh
      refine ⟨hh', ?_⟩
      split at hr
      · subst hr; simp at h
      · subst hr
        simp only at h ⊢
        rw [run_append, run_nops (compare_nops' fs p.h)]
        exact putCore_ack hash fs p hv h

end ArvVerif.C02
