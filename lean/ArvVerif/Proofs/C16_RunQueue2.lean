/-
C16 part B, extension: pools with monotone Create failures (no StartContainer on a type after a
failed Create on it), and what lockContainer's goroutines may lock.
-/
import ArvVerif.Proofs.C16_RunQueue
namespace ArvVerif.C16.RQ
variable {σ : Type}

/-- no worker can appear for type `t` any more in this pass: Create keeps failing and runQueue's
local count of unallocated workers of the type is exhausted -/
def NoWorker (Dead : σ → Prop) (t : Nat) (s : RQ σ) : Prop := Dead s.pool ∧ s.unalloc t ≤ 0

theorem dec_le (f : Nat → Int) (t x : Nat) : dec f t x ≤ f x := by
  unfold dec; split <;> omega

/-! ### tryStart / steps under a monotone pool -/

theorem tryStart_dead {P : Pool σ} {Dead : σ → Prop} (hm : CreateMonotone P Dead) (e : Ent) (s : RQ σ)
    (hd : Dead s.pool) : Dead (tryStart P e s).1.pool := by
  unfold tryStart
  by_cases h1 : s.dont e.ty = true
  · rw [if_pos h1]; exact hd
  · rw [if_neg h1]
    by_cases hk : (P.kill true e.uuid s.pool).1 = true
    · rw [if_pos hk]; exact hm.keepK _ _ _ hd
    · rw [if_neg hk]
      by_cases hr : (P.start e.ty e.uuid (P.kill true e.uuid s.pool).2).1 = true
      · rw [if_pos hr]; exact hm.keepS _ _ _ (hm.keepK _ _ _ hd)
      · rw [if_neg hr]; exact hm.keepS _ _ _ (hm.keepK _ _ _ hd)

theorem tryStart_unalloc (P : Pool σ) (e : Ent) (s : RQ σ) : (tryStart P e s).1.unalloc = s.unalloc :=
  (tryStart_spec P e s).2.2.2

/-- One step from a state where type `t` has no worker left: the state stays so and no
StartContainer on `t` is made. Also: a failed Create for the entry puts its type in that state and
the step then makes no StartContainer at all. -/
theorem stepEnt_noWorker {P : Pool σ} {Dead : σ → Prop} (hm : CreateMonotone P Dead) (e : Ent) (s : RQ σ) :
    (∀ t, NoWorker Dead t s → NoWorker Dead t (stepEnt P e s).1 ∧
        ∀ ev ∈ (stepEnt P e s).2.1, ¬ IsStartOn t ev) ∧
    (∀ u t, Ev.create u t false ∈ (stepEnt P e s).2.1 →
        NoWorker Dead t (stepEnt P e s).1 ∧ NoStart (stepEnt P e s).2.1) := by
  unfold stepEnt
  by_cases hskip : e.running = true ∨ e.prio < 1
  · rw [if_pos hskip]
    exact ⟨fun t h => ⟨h, by simp⟩, by simp⟩
  · rw [if_neg hskip]
    cases hst : e.st with
    | other => exact ⟨fun t h => ⟨h, by simp⟩, by simp⟩
    | queued =>
      dsimp only
      obtain ⟨_, _, hns, _⟩ := stepQueued_spec P e s
      refine ⟨?_, ?_⟩
      · intro t ⟨hd, hu⟩
        refine ⟨?_, fun ev hev ⟨u, r, h⟩ => hns ev hev t u r h⟩
        unfold stepQueued
        generalize hqd : (if s.unalloc e.ty < 1 then P.atQuota s.pool else (false, s.pool)) = q
        have hdq : Dead q.2 := by
          by_cases h : s.unalloc e.ty < 1
          · rw [if_pos h] at hqd; rw [← hqd]; exact hm.keepQ _ hd
          · rw [if_neg h] at hqd; rw [← hqd]; exact hd
        by_cases hq : q.1 = true
        · rw [if_pos hq]; exact ⟨hdq, hu⟩
        · rw [if_neg hq]
          by_cases hk : (P.kill false e.uuid q.2).1 = true
          · rw [if_pos hk]; exact ⟨hm.keepK _ _ _ hdq, hu⟩
          · rw [if_neg hk]
            exact ⟨hm.keepK _ _ _ hdq, Int.le_trans (dec_le _ _ _) hu⟩
      · intro u t hm'
        exfalso
        unfold stepQueued at hm'
        generalize (if s.unalloc e.ty < 1 then P.atQuota s.pool else (false, s.pool)) = q at hm'
        by_cases hq : q.1 = true
        · rw [if_pos hq] at hm'; simp at hm'
        · rw [if_neg hq] at hm'
          by_cases hk : (P.kill false e.uuid q.2).1 = true
          · rw [if_pos hk] at hm'; simp at hm'
          · rw [if_neg hk] at hm'; simp at hm'
    | locked =>
      dsimp only
      unfold stepLocked
      by_cases hu : s.unalloc e.ty > 0
      · rw [if_pos hu]
        dsimp only
        obtain ⟨hs, _, _, hun⟩ := tryStart_spec P e { s with unalloc := dec s.unalloc e.ty }
        refine ⟨?_, ?_⟩
        · intro t ⟨hd, hut⟩
          have hne : e.ty ≠ t := by intro h; subst h; omega
          refine ⟨⟨tryStart_dead hm e _ hd, ?_⟩, ?_⟩
          · rw [hun]; exact Int.le_trans (dec_le _ _ _) hut
          · intro ev hev ⟨u, r, h⟩
            subst h
            exact hne (hs.own _ hev).2.symm
        · intro u t hm'
          exfalso
          obtain ⟨init, hns, hsh⟩ := hs.shape
          -- tryStart only emits kill / start events
          have : ∀ ev ∈ (tryStart P e { s with unalloc := dec s.unalloc e.ty }).2, ∀ u t, ev ≠ Ev.create u t false := by
            intro ev hev u t h
            subst h
            unfold tryStart at hev
            by_cases h1 : s.dont e.ty = true
            · rw [if_pos h1] at hev; simp at hev
            · rw [if_neg h1] at hev
              by_cases hk : (P.kill true e.uuid s.pool).1 = true
              · rw [if_pos hk] at hev; simp at hev
              · rw [if_neg hk] at hev
                by_cases hr : (P.start e.ty e.uuid (P.kill true e.uuid s.pool).2).1 = true
                · rw [if_pos hr] at hev; simp at hev
                · rw [if_neg hr] at hev; simp at hev
          exact this _ hm' u t rfl
      · rw [if_neg hu]
        by_cases hq : (P.atQuota s.pool).1 = true
        · rw [if_pos hq]
          refine ⟨fun t ⟨hd, hut⟩ => ⟨⟨hm.keepQ _ hd, hut⟩, ?_⟩, ?_⟩
          · intro ev hev ⟨u, r, h⟩; subst h; simp at hev
          · intro u t hm'; simp at hm'
        · rw [if_neg hq]
          by_cases hc : (P.create e.ty (P.atQuota s.pool).2).1 = true
          · rw [if_pos hc]
            dsimp only
            refine ⟨?_, ?_⟩
            · intro t ⟨hd, hut⟩
              -- Create cannot succeed in a Dead state
              have := hm.fail e.ty _ (hm.keepQ _ hd)
              rw [this] at hc; cases hc
            · intro u t hm'
              exfalso
              rcases List.mem_cons.mp hm' with h | h
              · cases h
              · have hev := h
                unfold tryStart at hev
                by_cases h1 : s.dont e.ty = true
                · rw [if_pos h1] at hev; simp at hev
                · rw [if_neg h1] at hev
                  by_cases hk : (P.kill true e.uuid (P.create e.ty (P.atQuota s.pool).2).2).1 = true
                  · rw [if_pos hk] at hev; simp at hev
                  · rw [if_neg hk] at hev
                    by_cases hr : (P.start e.ty e.uuid (P.kill true e.uuid (P.create e.ty (P.atQuota s.pool).2).2).2).1 = true
                    · rw [if_pos hr] at hev; simp at hev
                    · rw [if_neg hr] at hev; simp at hev
          · rw [if_neg hc]
            have hcf : (P.create e.ty (P.atQuota s.pool).2).1 = false := by
              cases h : (P.create e.ty (P.atQuota s.pool).2).1 with
              | false => rfl
              | true => exact (hc h).elim
            refine ⟨?_, ?_⟩
            · intro t ⟨hd, hut⟩
              refine ⟨⟨hm.keepC _ _ (hm.keepQ _ hd), hut⟩, ?_⟩
              intro ev hev ⟨u, r, h⟩; subst h; simp at hev
            · intro u t hm'
              simp only [List.mem_singleton] at hm'
              injection hm' with _ h2 _
              subst h2
              refine ⟨⟨hm.enter _ _ hcf, by dsimp only; omega⟩, ?_⟩
              intro ev hev t' u' r' h; subst h; simp at hev

/-- from a state where `t` has no worker left the loop makes no StartContainer on `t` -/
theorem loop_noWorker {P : Pool σ} {Dead : σ → Prop} (hm : CreateMonotone P Dead) (es : List Ent)
    (s : RQ σ) (t : Nat) (h : NoWorker Dead t s) :
    ∀ ev ∈ (loop P es s).2.1, ¬ IsStartOn t ev := by
  induction es generalizing s with
  | nil => simp [loop]
  | cons e rest ih =>
    obtain ⟨h1, h2⟩ := (stepEnt_noWorker hm e s).1 t h
    cases hb : (stepEnt P e s).2.2 with
    | true => rw [loop_cons_brk P e rest s hb]; exact h2
    | false =>
      rw [loop_cons_cont P e rest s hb]
      intro ev hev
      rcases List.mem_append.mp hev with hh | hh
      · exact h2 ev hh
      · exact ih _ h1 ev hh

/-- **After a failed Create on type `t`, no StartContainer on `t` in the rest of the loop.** -/
theorem loop_createFail {P : Pool σ} {Dead : σ → Prop} (hm : CreateMonotone P Dead) (es : List Ent)
    (s : RQ σ) (pre post : List Ev) (t u ub : Nat) (r : Bool)
    (h : (loop P es s).2.1 = pre ++ Ev.start t ub r :: post)
    (hc : Ev.create u t false ∈ pre) : False := by
  induction es generalizing s pre with
  | nil => simp [loop] at h
  | cons e rest ih =>
    obtain ⟨_, hcf⟩ := stepEnt_noWorker hm e s
    have headCase : ∀ pre' post', (stepEnt P e s).2.1 = pre' ++ Ev.start t ub r :: post' →
        Ev.create u t false ∈ pre' → False := by
      intro pre' post' h1 hc'
      have hmem : Ev.create u t false ∈ (stepEnt P e s).2.1 := by rw [h1]; exact List.mem_append_left _ hc'
      exact (hcf u t hmem).2 (Ev.start t ub r) (by rw [h1]; simp) t ub r rfl
    cases hb : (stepEnt P e s).2.2 with
    | true =>
      rw [loop_cons_brk P e rest s hb] at h
      exact headCase pre post h hc
    | false =>
      rw [loop_cons_cont P e rest s hb] at h
      rcases append_split h with ⟨post', h1, _⟩ | ⟨pre', hp, h2⟩
      · exact headCase pre post' h1 hc
      · rw [hp] at hc
        rcases List.mem_append.mp hc with hh | hh
        · have hnw := (hcf u t hh).1
          exact loop_noWorker hm rest _ t hnw (Ev.start t ub r) (by rw [h2]; simp) ⟨ub, r, rfl⟩
        · exact ih _ pre' h2 hh

/-! ### lockgo events -/

/-- a lockContainer goroutine is spawned only for a live Queued entry whose
KillContainer("about to lock") returned false -/
theorem loop_lockgo (P : Pool σ) (es : List Ent) (s : RQ σ) (u : Nat)
    (h : Ev.lockgo u ∈ (loop P es s).2.1) :
    ∃ e ∈ es, e.uuid = u ∧ e.st = .queued ∧ e.running = false ∧ 1 ≤ e.prio ∧
      Ev.kill false u false ∈ (loop P es s).2.1 := by
  induction es generalizing s with
  | nil => simp [loop] at h
  | cons e rest ih =>
    have hstep : Ev.lockgo u ∈ (stepEnt P e s).2.1 →
        e.uuid = u ∧ e.st = .queued ∧ e.running = false ∧ 1 ≤ e.prio ∧
          Ev.kill false u false ∈ (stepEnt P e s).2.1 := by
      intro hm
      obtain ⟨hs, hlive, _, _, _, _⟩ := stepEnt_spec P e s
      have hu : u = e.uuid := hs.own _ hm
      subst hu
      refine ⟨rfl, ?_, (hlive _ hm).1, (hlive _ hm).2, ?_⟩
      · -- only the Queued branch spawns the goroutine
        unfold stepEnt at hm
        by_cases hskip : e.running = true ∨ e.prio < 1
        · rw [if_pos hskip] at hm; simp at hm
        · rw [if_neg hskip] at hm
          cases hst : e.st with
          | queued => rfl
          | other => rw [hst] at hm; simp at hm
          | locked =>
            exfalso
            rw [hst] at hm
            dsimp only at hm
            obtain ⟨hs', _, _, _⟩ := stepLocked_spec P e s
            unfold stepLocked at hm
            by_cases hu : s.unalloc e.ty > 0
            · rw [if_pos hu] at hm
              dsimp only at hm
              unfold tryStart at hm
              by_cases h1 : s.dont e.ty = true
              · rw [if_pos h1] at hm; simp at hm
              · rw [if_neg h1] at hm
                by_cases hk : (P.kill true e.uuid s.pool).1 = true
                · rw [if_pos hk] at hm; simp at hm
                · rw [if_neg hk] at hm
                  by_cases hr : (P.start e.ty e.uuid (P.kill true e.uuid s.pool).2).1 = true
                  · rw [if_pos hr] at hm; simp at hm
                  · rw [if_neg hr] at hm; simp at hm
            · rw [if_neg hu] at hm
              by_cases hq : (P.atQuota s.pool).1 = true
              · rw [if_pos hq] at hm; simp at hm
              · rw [if_neg hq] at hm
                by_cases hc : (P.create e.ty (P.atQuota s.pool).2).1 = true
                · rw [if_pos hc] at hm
                  dsimp only at hm
                  unfold tryStart at hm
                  by_cases h1 : s.dont e.ty = true
                  · rw [if_pos h1] at hm; simp at hm
                  · rw [if_neg h1] at hm
                    by_cases hk : (P.kill true e.uuid (P.create e.ty (P.atQuota s.pool).2).2).1 = true
                    · rw [if_pos hk] at hm; simp at hm
                    · rw [if_neg hk] at hm
                      by_cases hr : (P.start e.ty e.uuid (P.kill true e.uuid (P.create e.ty (P.atQuota s.pool).2).2).2).1 = true
                      · rw [if_pos hr] at hm; simp at hm
                      · rw [if_neg hr] at hm; simp at hm
                · rw [if_neg hc] at hm; simp at hm
      · unfold stepEnt at hm ⊢
        by_cases hskip : e.running = true ∨ e.prio < 1
        · rw [if_pos hskip] at hm; simp at hm
        · rw [if_neg hskip] at hm ⊢
          cases hst : e.st with
          | other => rw [hst] at hm; simp at hm
          | locked =>
            -- excluded above; redo cheaply via ownership shape: lockgo never in Locked branch
            exfalso
            rw [hst] at hm
            dsimp only at hm
            obtain ⟨_, hul, _, _⟩ := stepLocked_spec P e s
            unfold stepLocked at hm
            by_cases hu : s.unalloc e.ty > 0
            · rw [if_pos hu] at hm
              dsimp only at hm
              unfold tryStart at hm
              by_cases h1 : s.dont e.ty = true
              · rw [if_pos h1] at hm; simp at hm
              · rw [if_neg h1] at hm
                by_cases hk : (P.kill true e.uuid s.pool).1 = true
                · rw [if_pos hk] at hm; simp at hm
                · rw [if_neg hk] at hm
                  by_cases hr : (P.start e.ty e.uuid (P.kill true e.uuid s.pool).2).1 = true
                  · rw [if_pos hr] at hm; simp at hm
                  · rw [if_neg hr] at hm; simp at hm
            · rw [if_neg hu] at hm
              by_cases hq : (P.atQuota s.pool).1 = true
              · rw [if_pos hq] at hm; simp at hm
              · rw [if_neg hq] at hm
                by_cases hc : (P.create e.ty (P.atQuota s.pool).2).1 = true
                · rw [if_pos hc] at hm
                  dsimp only at hm
                  unfold tryStart at hm
                  by_cases h1 : s.dont e.ty = true
                  · rw [if_pos h1] at hm; simp at hm
                  · rw [if_neg h1] at hm
                    by_cases hk : (P.kill true e.uuid (P.create e.ty (P.atQuota s.pool).2).2).1 = true
                    · rw [if_pos hk] at hm; simp at hm
                    · rw [if_neg hk] at hm
                      by_cases hr : (P.start e.ty e.uuid (P.kill true e.uuid (P.create e.ty (P.atQuota s.pool).2).2).2).1 = true
                      · rw [if_pos hr] at hm; simp at hm
                      · rw [if_neg hr] at hm; simp at hm
                · rw [if_neg hc] at hm; simp at hm
          | queued =>
            rw [hst] at hm
            dsimp only at hm ⊢
            unfold stepQueued at hm ⊢
            generalize (if s.unalloc e.ty < 1 then P.atQuota s.pool else (false, s.pool)) = q at hm ⊢
            by_cases hq : q.1 = true
            · rw [if_pos hq] at hm; simp at hm
            · rw [if_neg hq] at hm ⊢
              by_cases hk : (P.kill false e.uuid q.2).1 = true
              · rw [if_pos hk] at hm; simp at hm
              · rw [if_neg hk]; simp
    cases hb : (stepEnt P e s).2.2 with
    | true =>
      rw [loop_cons_brk P e rest s hb] at h ⊢
      obtain ⟨a, b, c, d, f⟩ := hstep h
      exact ⟨e, List.mem_cons_self, a, b, c, d, f⟩
    | false =>
      rw [loop_cons_cont P e rest s hb] at h ⊢
      rcases List.mem_append.mp h with hh | hh
      · obtain ⟨a, b, c, d, f⟩ := hstep hh
        exact ⟨e, List.mem_cons_self, a, b, c, d, List.mem_append_left _ f⟩
      · obtain ⟨e', he', hrest⟩ := ih _ hh
        exact ⟨e', List.mem_cons_of_mem _ he', hrest.1, hrest.2.1, hrest.2.2.1, hrest.2.2.2.1,
          List.mem_append_right _ hrest.2.2.2.2⟩

/-! ### the stub pool (= the real Pool's bookkeeping at frozen time) has monotone Create -/

theorem stubPool_createMonotone : CreateMonotone stubPool (fun p => p.canCreate ≤ p.created) := by
  refine ⟨?_, ?_, ?_, ?_, ?_, ?_⟩
  · intro t s h
    simp only [stubPool] at h ⊢
    by_cases hc : s.created < s.canCreate
    · rw [if_pos hc] at h; cases h
    · rw [if_neg hc]; dsimp only; omega
  · intro t s h
    simp only [stubPool]
    rw [if_neg (by omega)]
  · intro s h; exact h
  · intro t s h
    simp only [stubPool]
    rw [if_neg (by omega)]; exact h
  · intro b u s h; exact h
  · intro t u s h
    simp only [stubPool]
    split
    · exact h
    · exact h
    · exact h
    · split <;> exact h

end ArvVerif.C16.RQ
