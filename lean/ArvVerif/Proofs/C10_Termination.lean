/-
C10 — termination of the two binary searches on *every* input (sorted or not, wrapped offsets,
either version of the move-right test): the fuel the model passes is never exhausted, i.e. the Go
/ Python loop always exits.
-/
import ArvVerif.Model.C10_Py
namespace ArvVerif.C10

theorem fbLoop_fuel (g : Nat → Nat → Nat → Bool) (offs : List Nat) (start : Nat) :
    ∀ fuel lo hi, lo < hi → hi - lo ≤ fuel → fbLoop g offs start fuel lo hi ((hi + lo) / 2) ≠ .outOfFuel := by
  intro fuel
  induction fuel with
  | zero => intro lo hi h1 h2; omega
  | succ fuel ih =>
    intro lo hi hlt hfuel
    unfold fbLoop
    cases offs[(hi + lo) / 2]? with
    | none => simp
    | some bs =>
      cases offs[(hi + lo) / 2 + 1]? with
      | none => simp
      | some be =>
        simp only []
        split
        · simp
        · split
          · simp
          · split
            · exact ih _ _ (by omega) (by omega)
            · exact ih _ _ (by omega) (by omega)

/-- **`firstBlock` always terminates** (any offsets array, any start, old or new test) -/
theorem firstBlockWith_terminates (g : Nat → Nat → Nat → Bool) (offs : List Nat) (start : Nat) :
    firstBlockWith g offs start ≠ .outOfFuel := by
  unfold firstBlockWith
  split
  · simp
  · by_cases h : 0 < offs.length - 1
    · have := fbLoop_fuel g offs start (offs.length + 1) 0 (offs.length - 1) h (by omega)
      simpa using this
    · have h0 : offs.length - 1 = 0 := by omega
      rw [h0]
      unfold fbLoop
      have : offs[0 / 2 + 1]? = none := by
        apply List.getElem?_eq_none_iff.mpr; simp; omega
      simp only [Nat.zero_div] at this ⊢
      rw [this]
      cases offs[0]? <;> simp

theorem pyFbLoop_fuel (g : Nat → Nat → Nat → Bool) (rs : List PyRange) (start : Nat) :
    ∀ fuel lo hi, lo < hi → hi - lo ≤ fuel → pyFbLoop g rs start fuel lo hi ((hi + lo) / 2) ≠ .outOfFuel := by
  intro fuel
  induction fuel with
  | zero => intro lo hi h1 h2; omega
  | succ fuel ih =>
    intro lo hi hlt hfuel
    unfold pyFbLoop
    cases rs[(hi + lo) / 2]? with
    | none => simp
    | some r =>
      simp only []
      split
      · simp
      · split
        · simp
        · split
          · exact ih _ _ (by omega) (by omega)
          · exact ih _ _ (by omega) (by omega)

/-- **Python `first_block` always terminates** -/
theorem pyFirstBlockWith_terminates (g : Nat → Nat → Nat → Bool) (rs : List PyRange) (start : Nat) :
    pyFirstBlockWith g rs start ≠ .outOfFuel := by
  unfold pyFirstBlockWith
  by_cases h : 0 < rs.length
  · have := pyFbLoop_fuel g rs start (rs.length + 1) 0 rs.length h (by omega)
    simpa using this
  · have h0 : rs.length = 0 := by omega
    have hnil : rs = [] := List.length_eq_zero_iff.mp h0
    subst hnil
    simp [pyFbLoop]

end ArvVerif.C10
