/-
C10 — one rendered line parses back: `parseManifestStream(normalizedText(name, files))` is the
structured stream `normStream name files` (blocks of pass 1, spans of pass 2 as file tokens).
-/
import ArvVerif.Proofs.C10_Reparse1
namespace ArvVerif.C10

/-- the file tokens of one file, structured -/
def normFileFToks (tbl : List (Bytes × Nat)) (fn : Bytes) (segs : List Seg) : List FTok :=
  ((normSpansS tbl segs none).map fun p => (⟨p.1, p.2, fn⟩ : FTok)) ++
    (if segs.isEmpty then [⟨0, 0, fn⟩] else [])

/-- the stream `normalizedText name files` denotes -/
def normStream (name : Bytes) (files : List (Bytes × List Seg)) : Stream :=
  let sorted := sortBytes (files.map (·.1))
  let segsOf := fun fn => match files.find? (·.1 = fn) with | some e => e.2 | none => []
  let r := normBlocks (sorted.flatMap segsOf) [] [] 0
  let btoks := if r.2.1 = [] then [emptyBlockLocator] else r.2.1
  ⟨name, btoks.map (fun t => ⟨t, locSize t⟩), sorted.flatMap fun fn => normFileFToks r.1 fn (segsOf fn)⟩

/-! ## tokens hold no delimiter -/

theorem mem_joinWith (sep c : UInt8) : ∀ ps : List Bytes, c ∈ joinWith sep ps → c = sep ∨ ∃ p ∈ ps, c ∈ p
  | [], h => by simp [joinWith] at h
  | [p], h => Or.inr ⟨p, by simp, by simpa [joinWith] using h⟩
  | p :: q :: rest, h => by
    rw [joinWith_cons_cons] at h
    simp only [List.mem_append, List.mem_cons] at h
    rcases h with h | h | h
    · exact Or.inr ⟨p, by simp, h⟩
    · exact Or.inl h
    · rcases mem_joinWith sep c (q :: rest) h with h' | ⟨x, hx, hc⟩
      · exact Or.inl h'
      · exact Or.inr ⟨x, List.mem_cons_of_mem _ hx, hc⟩

theorem fileTokText_bytes (a l : Nat) (e : Bytes) :
    ∀ c ∈ fileTokText (a : Int) (l : Int) e, isDigit c = true ∨ c = bColon ∨ c ∈ e := by
  intro c hc
  unfold fileTokText at hc
  simp only [show ¬ ((a : Int) < 0) from by omega, show ¬ ((l : Int) < 0) from by omega, if_false,
    Int.toNat_natCast, List.mem_append, List.mem_cons] at hc
  rcases hc with (h | h | h) | h | h
  · exact Or.inl (List.all_eq_true.mp (natToDec_spec a).2.1 c h)
  · exact Or.inr (Or.inl h)
  · exact Or.inl (List.all_eq_true.mp (natToDec_spec l).2.1 c h)
  · exact Or.inr (Or.inl h)
  · exact Or.inr (Or.inr h)

theorem pkgEscape_gt (s : Bytes) : ∀ x ∈ pkgEscape s, 32 < x :=
  escapeWith_no_delim _ (by intro c hc; simp [pkgEscapePred, hc]) s

theorem gt32_no_delim {t : Bytes} (h : ∀ x ∈ t, (32 : UInt8) < x) : bSpace ∉ t ∧ bNL ∉ t :=
  ⟨fun hm => absurd (h _ hm) (by decide), fun hm => absurd (h _ hm) (by decide)⟩

theorem fileTok_no_delim (a l : Nat) (fn : Bytes) :
    bSpace ∉ fileTokText (a : Int) (l : Int) (pkgEscape fn) ∧ bNL ∉ fileTokText (a : Int) (l : Int) (pkgEscape fn) := by
  apply gt32_no_delim
  intro x hx
  rcases fileTokText_bytes a l _ x hx with h | h | h
  · simp only [isDigit, Bool.and_eq_true, decide_eq_true_eq] at h
    exact UInt8.lt_of_lt_of_le (by decide) h.1
  · rw [h]; decide
  · exact pkgEscape_gt fn x h

theorem fileTok_has_colon (a l : Nat) (e : Bytes) : bColon ∈ fileTokText (a : Int) (l : Int) e := by
  unfold fileTokText
  simp

/-! ## the file-token loop on rendered tokens -/

theorem pkgFileToks_append (name : Bytes) (total : Nat) : ∀ (A B : List Bytes) (FA : List FTok),
    pkgFileToks name total A = (FA, false) →
    pkgFileToks name total (A ++ B) = (FA ++ (pkgFileToks name total B).1, (pkgFileToks name total B).2)
  | [], B, FA, h => by simp [pkgFileToks] at h; subst h; simp
  | t :: A, B, FA, h => by
    unfold pkgFileToks at h
    simp only [List.cons_append]
    conv => lhs; unfold pkgFileToks
    cases ht : pkgFileTok t with
    | none => rw [ht] at h; simp at h
    | some f =>
      rw [ht] at h
      simp only [] at h ⊢
      by_cases h1 : f.pos > total ∨ f.len > total - f.pos
      · rw [if_pos h1] at h; simp at h
      · rw [if_neg h1] at h ⊢
        by_cases h2 : ¬ (f.len = 0 ∧ f.name = [bDot]) ∧ fixStreamName (name ++ bSlash :: f.name) ≠ name ++ bSlash :: f.name
        · rw [if_pos h2] at h; simp at h
        · rw [if_neg h2] at h ⊢
          cases hr : pkgFileToks name total A with
          | mk fs e =>
            rw [hr] at h
            simp only [Prod.mk.injEq] at h
            obtain ⟨rfl, rfl⟩ := h
            rw [pkgFileToks_append name total A B fs hr]
            simp

theorem pkgFileToks_one (name : Bytes) (total a l : Nat) (fn : Bytes) (htot : total < two64)
    (hin : a + l ≤ total) (hclean : fixStreamName (pathOf name fn) = pathOf name fn) :
    pkgFileToks name total [fileTokText (a : Int) (l : Int) (pkgEscape fn)] = ([⟨a, l, fn⟩], false) := by
  unfold pkgFileToks
  rw [pkgFileTok_rendered a l fn (by omega) (by omega)]
  simp only []
  rw [if_neg (by omega), if_neg (by intro ⟨_, h⟩; exact h hclean)]
  simp [pkgFileToks]

theorem pkgFileToks_spans (name : Bytes) (total : Nat) (fn : Bytes) (htot : total < two64)
    (hclean : fixStreamName (pathOf name fn) = pathOf name fn) : ∀ (spans : List (Nat × Nat)),
    (∀ p ∈ spans, p.1 + p.2 ≤ total) →
    pkgFileToks name total (spans.map (spanTok (pkgEscape fn))) = (spans.map fun p => (⟨p.1, p.2, fn⟩ : FTok), false)
  | [], _ => rfl
  | p :: rest, h => by
    have h1 := pkgFileToks_one name total p.1 p.2 fn htot (h p (by simp)) hclean
    have := pkgFileToks_append name total [spanTok (pkgEscape fn) p] (rest.map (spanTok (pkgEscape fn))) _ h1
    simp only [List.map_cons, List.singleton_append] at this ⊢
    rw [this, pkgFileToks_spans name total fn htot hclean rest (fun x hx => h x (List.mem_cons_of_mem _ hx))]

/-- all tokens of one file -/
theorem pkgFileToks_file (name : Bytes) (total : Nat) (tbl : List (Bytes × Nat)) (fn : Bytes) (segs : List Seg)
    (htot : total < two64) (hclean : fixStreamName (pathOf name fn) = pathOf name fn)
    (hin : ∀ p ∈ normSpansS tbl segs none, p.1 + p.2 ≤ total) :
    pkgFileToks name total (normFileToks tbl fn segs) = (normFileFToks tbl fn segs, false) := by
  unfold normFileToks normFileFToks
  have h1 := pkgFileToks_spans name total fn htot hclean _ hin
  rw [pkgFileToks_append name total _ _ _ h1]
  by_cases he : segs.isEmpty = true
  · simp only [he, if_true]
    have := pkgFileToks_one name total 0 0 fn htot (by omega) hclean
    simp only [Int.natCast_zero] at this
    have e0 : fileTokText (0 : Int) (0 : Int) (pkgEscape fn) = fileTokText 0 0 (pkgEscape fn) := rfl
    rw [this]
  · simp only [he, Bool.false_eq_true, if_false]
    simp [pkgFileToks]

/-- all files of the stream, in sorted order -/
theorem pkgFileToks_files (name : Bytes) (total : Nat) (tbl : List (Bytes × Nat)) (segsOf : Bytes → List Seg)
    (htot : total < two64) : ∀ (fns : List Bytes),
    (∀ fn ∈ fns, fixStreamName (pathOf name fn) = pathOf name fn) →
    (∀ fn ∈ fns, ∀ p ∈ normSpansS tbl (segsOf fn) none, p.1 + p.2 ≤ total) →
    pkgFileToks name total (fns.flatMap fun fn => normFileToks tbl fn (segsOf fn)) =
      (fns.flatMap fun fn => normFileFToks tbl fn (segsOf fn), false)
  | [], _, _ => rfl
  | fn :: rest, hc, hi => by
    have h1 := pkgFileToks_file name total tbl fn (segsOf fn) htot (hc fn (by simp)) (hi fn (by simp))
    rw [List.flatMap_cons, List.flatMap_cons, pkgFileToks_append name total _ _ _ h1,
      pkgFileToks_files name total tbl segsOf htot rest (fun x hx => hc x (List.mem_cons_of_mem _ hx))
        (fun x hx => hi x (List.mem_cons_of_mem _ hx))]

end ArvVerif.C10
