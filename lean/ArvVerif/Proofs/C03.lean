/-
C03 helper lemmas: HashCheckingReader loops, getOrHead provenance, fetch soundness.
-/
import ArvVerif.Model.C03
namespace ArvVerif.C03

section Reader
variable {D : Type} [DecidableEq D] (hash : Bytes → D) (check : D)

/-- Read-to-EOF through HashCheckingReader.Read delivers the whole content and ends with the
verdict of the comparison, whatever the chunking. -/
theorem readAll_eq (fin : Fin) (tog : Bool) (chunks : List Bytes) (acc : Bytes) :
    readAll hash check fin tog chunks acc
      = (chunks.flatten, endErr hash check fin (acc ++ chunks.flatten)) := by
  induction chunks generalizing acc with
  | nil => simp [readAll]
  | cons c rest ih =>
    unfold readAll
    split
    · rename_i h
      have hr : rest = [] := by
        cases rest with
        | nil => rfl
        | cons _ _ => simp at h
      subst hr
      simp
    · simp [ih, List.append_assoc]

/-- `readAll` is the iteration of `hcrRead` (with a buffer that holds the next chunk). -/
theorem readAll_unfold (fin : Fin) (tog : Bool) (c : Bytes) (rest : List Bytes) (acc : Bytes) (max : Nat)
    (hmax : c.length ≤ max) :
    readAll hash check fin tog (c :: rest) acc =
      (match hcrRead hash check fin tog max (c :: rest) acc with
       | (d, some e, _, _) => (d, e)
       | (d, none, rest', acc') =>
         let r := readAll hash check fin tog rest' acc'
         (d ++ r.1, r.2)) := by
  conv => lhs; unfold readAll
  unfold hcrRead
  simp only [hmax, if_true]
  split <;> simp

/-- Facts about the ReadAtLeast loop. -/
theorem readLoop_spec (fin : Fin) (tog : Bool) (chunks : List Bytes) (need : Nat) (acc : Bytes) :
    let r := readLoop hash check fin tog chunks need acc
    r.1 ++ r.2.2.1.flatten = chunks.flatten ∧
    r.2.2.2 = acc ++ r.1 ∧
    (r.2.1 = none → r.1.length = need) ∧
    (∀ e, r.2.1 = some e → r.1.length < need ∧ r.2.2.1 = [] ∧ e = endErr hash check fin r.2.2.2) := by
  induction chunks generalizing need acc with
  | nil =>
    unfold readLoop
    by_cases h : need = 0
    · simp [h]
    · simp [h]; omega
  | cons c rest ih =>
    unfold readLoop
    by_cases h0 : need = 0
    · simp [h0]
    · simp only [h0, if_false]
      by_cases h1 : need < c.length
      · simp only [h1, if_true]
        refine ⟨by simp [← List.append_assoc], by simp, ?_, by simp⟩
        intro _; simp; omega
      · simp only [h1, if_false]
        by_cases h2 : (rest.isEmpty && tog) = true
        · simp only [h2, if_true]
          have hr : rest = [] := by
            cases rest with
            | nil => rfl
            | cons _ _ => simp at h2
          subst hr
          refine ⟨by simp, by simp, ?_, ?_⟩
          · intro hn
            by_cases h3 : c.length = need
            · exact h3
            · simp [h3] at hn
          · intro e he
            by_cases h3 : c.length = need
            · simp [h3] at he
            · simp [h3] at he
              subst he
              simp
              omega
        · simp only [h2]
          have := ih (need - c.length) (acc ++ c)
          obtain ⟨a1, a2, a3, a4⟩ := this
          refine ⟨?_, ?_, ?_, ?_⟩
          · simp [List.append_assoc, a1]
          · simp [a2, List.append_assoc]
          · intro hn
            have := a3 hn
            simp; omega
          · intro e he
            obtain ⟨b1, b2, b3⟩ := a4 e he
            refine ⟨by simp; omega, b2, b3⟩

/-- If ReadFull+Close report no error, the bytes read are the first `need` bytes of a body that
ended cleanly, closed cleanly, and whose **whole** content hashes to `check`. -/
theorem readFullClose_ok (b : Body) (need : Nat) (d : Bytes)
    (h : readFullClose hash check b need = (d, none)) :
    b.fin = .eof ∧ b.closeErr = false ∧ hash b.content = check ∧
    d = b.content.take need ∧ need ≤ b.content.length := by
  unfold readFullClose at h
  have spec := readLoop_spec hash check b.fin b.together b.chunks need []
  generalize readLoop hash check b.fin b.together b.chunks need [] = r at h spec
  obtain ⟨s1, s2, s3, s4⟩ := spec
  simp only [Prod.mk.injEq] at h
  obtain ⟨hd, he⟩ := h
  -- the ReadFull error must be none
  have hfull : fullErr r.1.length need r.2.1 = none := by
    cases hf : fullErr r.1.length need r.2.1 with
    | none => rfl
    | some e => rw [hf] at he; simp at he
  rw [hfull] at he
  have hlen : r.1.length = need := by
    cases hr : r.2.1 with
    | none => exact s3 hr
    | some e =>
      have := (s4 e hr).1
      unfold fullErr at hfull
      have hn : ¬ need ≤ r.1.length := by omega
      simp only [hn, if_false, hr] at hfull
      cases e <;> simp at hfull
      · split at hfull <;> simp at hfull
  -- Close
  unfold closeR at he
  cases hfin : b.fin with
  | ueof => rw [hfin] at he; simp at he
  | eof =>
    rw [hfin] at he
    simp only at he
    by_cases hc : b.closeErr = true
    · simp [hc] at he
    · simp only [hc] at he
      by_cases hh : hash (r.2.2.2 ++ r.2.2.1.flatten) = check
      · have hcont : r.2.2.2 ++ r.2.2.1.flatten = b.content := by
          rw [s2]; simp [Body.content, s1]
        rw [hcont] at hh
        refine ⟨rfl, by simpa using hc, hh, ?_, ?_⟩
        · rw [← hd, Body.content, ← s1, ← hlen]; simp
        · rw [Body.content, ← s1, ← hlen]; simp
      · simp [hh] at he

/-- Conversely an honest answer is accepted: a body that ends cleanly, closes cleanly, hashes to
`check` and is at least `need` long yields exactly its first `need` bytes. -/
theorem readFullClose_good (b : Body) (need : Nat)
    (hfin : b.fin = .eof) (hc : b.closeErr = false) (hh : hash b.content = check)
    (hlen : need ≤ b.content.length) :
    readFullClose hash check b need = (b.content.take need, none) := by
  unfold readFullClose
  have spec := readLoop_spec hash check b.fin b.together b.chunks need []
  generalize readLoop hash check b.fin b.together b.chunks need [] = r at spec
  obtain ⟨s1, s2, s3, s4⟩ := spec
  have hlen' : r.1.length = need := by
    cases hr : r.2.1 with
    | none => exact s3 hr
    | some e =>
      obtain ⟨b1, b2, _⟩ := s4 e hr
      rw [b2] at s1
      have : r.1.length = b.content.length := by rw [Body.content, ← s1]; simp
      omega
  have hd : r.1 = b.content.take need := by
    rw [Body.content, ← s1, ← hlen']; simp
  have hcont : r.2.2.2 ++ r.2.2.1.flatten = b.content := by
    rw [s2]; simp [Body.content, s1]
  simp only [Prod.mk.injEq]
  refine ⟨hd, ?_⟩
  have : fullErr r.1.length need r.2.1 = none := by simp [fullErr, hlen']
  rw [this]
  simp [closeR, hfin, hc, hcont, hh]

end Reader

/-! ## getOrHead: a reader only ever wraps a body that some service offered with status 200 and
an acceptable length -/

/-- `r` occurs in the script of some service. -/
def Offered (sc : List (List Resp)) (r : Resp) : Prop := ∃ l ∈ sc, r ∈ l

theorem popResp_fst (sc : List (List Resp)) (i : Nat) :
    (popResp sc i).1 = .connErr ∨ Offered sc (popResp sc i).1 := by
  induction sc generalizing i with
  | nil => left; rfl
  | cons s rest ih =>
    cases i with
    | zero =>
      cases s with
      | nil => left; rfl
      | cons r rs => right; exact ⟨r :: rs, by simp, by simp [popResp]⟩
    | succ i =>
      rcases ih i with h | ⟨l, hl, hm⟩
      · left; simpa [popResp] using h
      · right; exact ⟨l, List.mem_cons_of_mem _ hl, by simpa [popResp] using hm⟩

theorem popResp_snd (sc : List (List Resp)) (i : Nat) (r : Resp)
    (h : Offered (popResp sc i).2 r) : Offered sc r := by
  induction sc generalizing i with
  | nil => simpa [popResp] using h
  | cons s rest ih =>
    cases i with
    | zero =>
      cases s with
      | nil => simpa [popResp] using h
      | cons r0 rs =>
        obtain ⟨l, hl, hm⟩ := h
        simp only [popResp, List.mem_cons] at hl
        rcases hl with rfl | hl
        · exact ⟨r0 :: l, by simp, List.mem_cons_of_mem _ hm⟩
        · exact ⟨l, List.mem_cons_of_mem _ hl, hm⟩
    | succ i =>
      obtain ⟨l, hl, hm⟩ := h
      simp only [popResp, List.mem_cons] at hl
      rcases hl with rfl | hl
      · exact ⟨l, by simp, hm⟩
      · obtain ⟨l', hl', hm'⟩ := ih i ⟨l, hl, hm⟩
        exact ⟨l', List.mem_cons_of_mem _ hl', hm'⟩

/-- Provenance of a `found` outcome of one pass. -/
theorem tryServers_found (hint : Option Nat) (servers : List Nat) (g : G) (retry : List Nat)
    (body : Body) (expect : Nat) (g' : G)
    (h : tryServers hint servers g retry = (.found body expect, g')) :
    ∃ clen, Offered g.scripts (.ok clen body) ∧ accept200 hint clen = some expect := by
  induction servers generalizing g retry with
  | nil => simp [tryServers] at h
  | cons s rest ih =>
    unfold tryServers at h
    have hfst := popResp_fst g.scripts s
    have hsnd := popResp_snd g.scripts s
    generalize popResp g.scripts s = p at h hfst hsnd
    obtain ⟨r, sc'⟩ := p
    simp only at h hfst hsnd
    cases r with
    | connErr =>
      simp only at h
      obtain ⟨clen, ho, ha⟩ := ih _ _ h
      exact ⟨clen, hsnd _ ho, ha⟩
    | status code =>
      simp only at h
      split at h
      · obtain ⟨clen, ho, ha⟩ := ih _ _ h
        exact ⟨clen, hsnd _ ho, ha⟩
      · split at h
        · obtain ⟨clen, ho, ha⟩ := ih _ _ h
          exact ⟨clen, hsnd _ ho, ha⟩
        · obtain ⟨clen, ho, ha⟩ := ih _ _ h
          exact ⟨clen, hsnd _ ho, ha⟩
    | ok clen b =>
      simp only at h
      cases ha : accept200 hint clen with
      | none => rw [ha] at h; simp at h
      | some e =>
        rw [ha] at h
        simp only [Prod.mk.injEq, TryRes.found.injEq] at h
        obtain ⟨⟨rfl, rfl⟩, _⟩ := h
        rcases hfst with hc | ho
        · cases hc
        · exact ⟨clen, ho, ha⟩

/-- scripts only shrink during a pass -/
theorem tryServers_scripts (hint : Option Nat) (servers : List Nat) (g : G) (retry : List Nat) (r : Resp)
    (h : Offered (tryServers hint servers g retry).2.scripts r) : Offered g.scripts r := by
  induction servers generalizing g retry with
  | nil => simpa [tryServers] using h
  | cons s rest ih =>
    unfold tryServers at h
    have hsnd := popResp_snd g.scripts s
    generalize popResp g.scripts s = p at h hsnd
    obtain ⟨r0, sc'⟩ := p
    simp only at h hsnd
    cases r0 with
    | connErr => exact hsnd _ (ih _ _ h)
    | status code =>
      simp only at h
      split at h
      · exact hsnd _ (ih _ _ h)
      · split at h
        · exact hsnd _ (ih _ _ h)
        · exact hsnd _ (ih _ _ h)
    | ok clen b =>
      simp only at h
      split at h <;> exact hsnd _ h

theorem rounds_found (hint : Option Nat) (tries : Nat) (servers : List Nat) (g : G)
    (body : Body) (expect : Nat) (g' : G)
    (h : rounds hint tries servers g = (.found body expect, g')) :
    ∃ clen, Offered g.scripts (.ok clen body) ∧ accept200 hint clen = some expect := by
  induction tries generalizing servers g with
  | zero => simp [rounds] at h
  | succ t ih =>
    unfold rounds at h
    have hs := tryServers_scripts hint servers g []
    have hf := tryServers_found hint servers g []
    generalize tryServers hint servers g [] = q at h hs hf
    obtain ⟨res, g1⟩ := q
    cases res with
    | found b e =>
      simp only [Prod.mk.injEq, TryRes.found.injEq] at h
      obtain ⟨⟨rfl, rfl⟩, rfl⟩ := h
      exact hf _ _ _ rfl
    | proto => simp at h
    | exhausted retry =>
      simp only at h
      obtain ⟨clen, ho, ha⟩ := ih _ _ h
      exact ⟨clen, hs _ ho, ha⟩

/-- getOrHead hands out a reader only for a body that a service offered with status 200 and a
Content-Length the size rule accepts. -/
theorem getOrHead_rdr (loc : List Char) (tries : Nat) (order : List Nat) (g : G)
    (body : Body) (expect : Nat) (g' : G)
    (h : getOrHead loc tries order g = (.rdr body expect, g')) :
    ∃ clen, Offered g.scripts (.ok clen body) ∧ accept200 (hint64 loc) clen = some expect := by
  unfold getOrHead at h
  split at h
  · simp at h
  · dsimp only at h
    split at h
    · rename_i b e g1 heq
      simp only [Prod.mk.injEq, GetRes.rdr.injEq] at h
      obtain ⟨⟨rfl, rfl⟩, _⟩ := h
      exact rounds_found _ _ _ { g with n404 := 0 } _ _ _ heq
    · simp at h
    · simp at h

theorem accept200_hint (h : Nat) (clen : Option Nat) (e : Nat)
    (ha : accept200 (some h) clen = some e) : e = h ∧ ∀ c, clen = some c → c = h := by
  cases clen with
  | none => simp [accept200] at ha; exact ⟨ha.symm, by simp⟩
  | some c =>
    simp only [accept200] at ha
    split at ha
    · rename_i hc
      simp at ha
      exact ⟨ha.symm, by intro c' hc'; cases hc'; exact hc.symm⟩
    · simp at ha

theorem accept200_nohint (clen : Option Nat) (e : Nat)
    (ha : accept200 none clen = some e) : clen = some e := by
  cases clen with
  | none => simp [accept200] at ha
  | some c => simpa [accept200] using ha

end ArvVerif.C03
