/-
Helper lemmas for C19 (core Lean only): splitting on '/', hex strings, SaltToken inversion, the
"must be salted" predicate, infix-of-segments.
-/
import ArvVerif.Model.C19
namespace ArvVerif.C19

/-! ### splitSlash -/

theorem splitSlash_ne_nil (s : Str) : splitSlash s ≠ [] := by
  cases s with
  | nil => simp [splitSlash]
  | cons c cs =>
    simp only [splitSlash]
    split
    · simp
    · split <;> simp

theorem splitSlash_noslash (a : Str) (ha : '/' ∉ a) : splitSlash a = [a] := by
  induction a with
  | nil => rfl
  | cons c cs ih =>
    have hc : c ≠ '/' := fun h => ha (by simp [h])
    have hcs : '/' ∉ cs := fun h => ha (List.mem_cons_of_mem _ h)
    simp [splitSlash, ih hcs, hc]

theorem splitSlash_append_slash (a b : Str) (ha : '/' ∉ a) :
    splitSlash (a ++ '/' :: b) = a :: splitSlash b := by
  induction a with
  | nil =>
    simp only [List.nil_append, splitSlash]
    split
    · next h => exact absurd h (splitSlash_ne_nil b)
    · next p ps h => simp [h]
  | cons c cs ih =>
    have hc : c ≠ '/' := fun h => ha (by simp [h])
    have hcs : '/' ∉ cs := fun h => ha (List.mem_cons_of_mem _ h)
    simp [splitSlash, ih hcs, hc]

/-- every part produced by the split is free of '/' -/
theorem mem_splitSlash_noslash (s : Str) : ∀ p ∈ splitSlash s, '/' ∉ p := by
  induction s with
  | nil => intro p hp; simp [splitSlash] at hp; simp [hp]
  | cons c cs ih =>
    intro p hp
    simp only [splitSlash] at hp
    split at hp
    · next h => exact absurd h (splitSlash_ne_nil cs)
    · next q qs h =>
      rw [h] at ih
      by_cases hc : c = '/'
      · simp only [hc, if_true, List.mem_cons] at hp
        rcases hp with rfl | rfl | hp
        · simp
        · exact ih _ (by simp)
        · exact ih _ (by simp [hp])
      · simp only [hc, if_false, List.mem_cons] at hp
        rcases hp with rfl | hp
        · intro hm
          rcases List.mem_cons.mp hm with h' | h'
          · exact hc h'.symm
          · exact ih q (by simp) h'
        · exact ih _ (by simp [hp])

/-- the split is inverted by joining with '/' -/
def joinSlash : List Str → Str
  | [] => []
  | [p] => p
  | p :: q :: r => p ++ '/' :: joinSlash (q :: r)

theorem joinSlash_splitSlash (s : Str) : joinSlash (splitSlash s) = s := by
  induction s with
  | nil => rfl
  | cons c cs ih =>
    simp only [splitSlash]
    split
    · next h => exact absurd h (splitSlash_ne_nil cs)
    · next q qs h =>
      rw [h] at ih
      by_cases hc : c = '/'
      · simp [hc, joinSlash, ih]
      · simp only [hc, if_false]
        cases qs with
        | nil => simp [joinSlash] at ih ⊢; exact ih
        | cons q' qs' => simp [joinSlash] at ih ⊢; exact ih

/-- what follows the secret: nothing, or '/' and further segments -/
def tailJoin : List Str → Str
  | [] => []
  | r :: rs => '/' :: joinSlash (r :: rs)

/-- a token that splits into at least three parts is `p0/uuid/secret` possibly followed by `/more` -/
theorem splitSlash_three (t p0 u s : Str) (rest : List Str) (h : splitSlash t = p0 :: u :: s :: rest) :
    t = p0 ++ '/' :: (u ++ '/' :: (s ++ tailJoin rest)) := by
  have h2 := joinSlash_splitSlash t
  rw [h] at h2
  rw [← h2]
  cases rest with
  | nil => simp [joinSlash, tailJoin]
  | cons r rs => simp [joinSlash, tailJoin]

/-! ### hex strings -/

theorem hexDigit_ne_slash (n : Nat) (h : n < 16) : hexDigit n ≠ '/' := by
  have : ∀ m : Fin 16, hexDigit m.val ≠ '/' := by decide
  exact this ⟨n, h⟩

theorem slash_not_mem_hexStr (bs : List UInt8) : '/' ∉ hexStr bs := by
  induction bs with
  | nil => simp [hexStr]
  | cons b bs ih =>
    have hb : b.toNat < 256 := b.toNat_lt
    simp only [hexStr, List.flatMap_cons, List.mem_append, hexOfByte, List.mem_cons,
      List.not_mem_nil, or_false, not_or] at ih ⊢
    refine ⟨⟨fun h => ?_, fun h => ?_⟩, ih⟩
    · exact hexDigit_ne_slash _ (by omega) h.symm
    · exact hexDigit_ne_slash _ (by omega) h.symm

theorem length_hexStr (bs : List UInt8) : (hexStr bs).length = 2 * bs.length := by
  induction bs with
  | nil => rfl
  | cons b bs ih =>
    simp only [hexStr, List.flatMap_cons, List.length_append, hexOfByte, List.length_cons,
      List.length_nil] at ih ⊢
    omega

/-! ### SaltToken -/

theorem slash_not_mem_sV2 : '/' ∉ sV2 := by decide

/-- the split of a well-formed v2 token -/
theorem splitSlash_v2 (u s : Str) (rest : Str) (hu : '/' ∉ u) (hs : '/' ∉ s)
    (hrest : rest = [] ∨ ∃ r, rest = '/' :: r) :
    ∃ more, splitSlash (sV2Slash ++ u ++ sSlash ++ s ++ rest) = sV2 :: u :: s :: more := by
  have e1 : sV2Slash ++ u ++ sSlash ++ s ++ rest = sV2 ++ '/' :: (u ++ '/' :: (s ++ rest)) := by
    simp [sV2Slash, sV2, sSlash]
  rw [e1, splitSlash_append_slash _ _ slash_not_mem_sV2, splitSlash_append_slash _ _ hu]
  rcases hrest with rfl | ⟨r, rfl⟩
  · exact ⟨[], by simp [splitSlash_noslash s hs]⟩
  · exact ⟨splitSlash r, by rw [splitSlash_append_slash _ _ hs]⟩

/-- the split of a salted token: exactly three parts -/
theorem splitSlash_saltedForm (mac : Str → Str → List UInt8) (u s R : Str) (hu : '/' ∉ u) :
    splitSlash (saltedForm mac u s R) = [sV2, u, hexStr (mac s R)] := by
  have e1 : saltedForm mac u s R = sV2 ++ '/' :: (u ++ '/' :: hexStr (mac s R)) := by
    simp [saltedForm, sV2Slash, sV2, sSlash]
  rw [e1, splitSlash_append_slash _ _ slash_not_mem_sV2, splitSlash_append_slash _ _ hu,
    splitSlash_noslash _ (slash_not_mem_hexStr _)]

/-- `saltToken` on a token whose split is known -/
theorem saltToken_of_split (mac : Str → Str → List UInt8) (t R u s : Str) (more : List Str)
    (h : splitSlash t = sV2 :: u :: s :: more) :
    saltToken mac t R =
      if s.length ≠ saltLen then .ok (saltedForm mac u s R)
      else if R.isPrefixOf u then .ok t else .error .salted := by
  simp [saltToken, h]

/-- inversion: every success of `saltToken` is one of the two documented outcomes -/
theorem saltToken_ok_inv (mac : Str → Str → List UInt8) (t R x : Str)
    (h : saltToken mac t R = .ok x) :
    ∃ u s more, splitSlash t = sV2 :: u :: s :: more ∧
      ((s.length ≠ saltLen ∧ x = saltedForm mac u s R) ∨
       (s.length = saltLen ∧ R.isPrefixOf u = true ∧ x = t)) := by
  unfold saltToken at h
  split at h
  · next p0 u s more hsp =>
    by_cases hp : p0 = sV2
    · subst hp
      refine ⟨u, s, more, hsp, ?_⟩
      simp only [ne_eq, not_true_eq_false, if_false] at h
      by_cases hl : s.length = saltLen
      · simp only [hl, not_true_eq_false, if_false] at h
        by_cases hpre : R.isPrefixOf u = true
        · simp only [hpre, if_true] at h
          exact Or.inr ⟨hl, hpre, by cases h; rfl⟩
        · simp [hpre] at h
      · simp only [hl, not_false_eq_true, if_true] at h
        exact Or.inl ⟨hl, by cases h; rfl⟩
    · simp only [ne_eq, hp, not_false_eq_true, if_true, notV2] at h
      split at h <;> cases h
  · simp only [notV2] at h
    split at h <;> cases h

/-- errors of `saltToken` on input that is not of the v2 shape -/
theorem saltToken_not_v2 (mac : Str → Str → List UInt8) (t R : Str)
    (h : ∀ u s more, splitSlash t ≠ sV2 :: u :: s :: more) :
    saltToken mac t R = if isObsolete t then .error .obsolete else .error .format := by
  unfold saltToken
  split
  · next p0 u s more hsp =>
    by_cases hp : p0 = sV2
    · subst hp; exact absurd hsp (h u s more)
    · simp [hp, notV2]
  · simp [notV2]

theorem isObsolete_iff (t : Str) :
    isObsolete t = true ↔ 41 ≤ t.length ∧ ∀ c ∈ t, (('0' ≤ c ∧ c ≤ '9') ∨ ('a' ≤ c ∧ c ≤ 'z')) := by
  simp [isObsolete, isLowerAlnum, List.all_eq_true]

/-! ### tokens that must be salted -/

/-- A user's unsalted Arvados v2 token: `v2/uuid/secret[/…]` whose secret does not have the length
of a salt. (F9: the code, and therefore this predicate, takes ANY 40-character secret for a salt;
there is no test that it is hexadecimal.) -/
def MustSalt (t : Str) : Prop :=
  ∃ u s more, splitSlash t = sV2 :: u :: s :: more ∧ s.length ≠ saltLen

theorem mustSalt_saltToken (mac : Str → Str → List UInt8) (t R : Str) (h : MustSalt t) :
    ∃ u s more, splitSlash t = sV2 :: u :: s :: more ∧ s.length ≠ saltLen ∧
      saltToken mac t R = .ok (saltedForm mac u s R) := by
  obtain ⟨u, s, more, hsp, hl⟩ := h
  exact ⟨u, s, more, hsp, hl, by rw [saltToken_of_split mac t R u s more hsp]; simp [hl]⟩

/-- with a 20-byte MAC the salted form is not itself something to salt -/
theorem not_mustSalt_saltedForm (mac : Str → Str → List UInt8)
    (hmac : ∀ k m, (mac k m).length = 20) (u s R : Str) (hu : '/' ∉ u) :
    ¬ MustSalt (saltedForm mac u s R) := by
  rintro ⟨u', s', more, hsp, hl⟩
  rw [splitSlash_saltedForm mac u s R hu] at hsp
  simp only [List.cons.injEq] at hsp
  obtain ⟨_, _, rfl, _⟩ := hsp
  exact hl (by rw [length_hexStr, hmac]; rfl)

/-- whatever `saltToken` returns successfully never needs salting again -/
theorem not_mustSalt_of_saltToken_ok (mac : Str → Str → List UInt8)
    (hmac : ∀ k m, (mac k m).length = 20) (t R x : Str) (h : saltToken mac t R = .ok x) :
    ¬ MustSalt x := by
  obtain ⟨u, s, more, hsp, hx⟩ := saltToken_ok_inv mac t R x h
  have hu : '/' ∉ u := mem_splitSlash_noslash t u (by rw [hsp]; simp)
  rcases hx with ⟨_, rfl⟩ | ⟨hl, _, rfl⟩
  · exact not_mustSalt_saltedForm mac hmac u s R hu
  · rintro ⟨u', s', more', hsp', hl'⟩
    rw [hsp] at hsp'
    simp only [List.cons.injEq] at hsp'
    obtain ⟨_, _, rfl, _⟩ := hsp'
    exact hl' hl

/-- a token on which `saltToken` fails is not an unsalted v2 token -/
theorem not_mustSalt_of_saltToken_error (mac : Str → Str → List UInt8) (t R : Str) (e : SaltErr)
    (h : saltToken mac t R = .error e) : ¬ MustSalt t := by
  intro hm
  obtain ⟨u, s, more, _, _, hok⟩ := mustSalt_saltToken mac t R hm
  rw [hok] at h; cases h

/-! ### where a '/'-free string can occur inside a '/'-joined one -/

theorem prefix_of_append_slash (s a b : Str) (hs : '/' ∉ s) (h : s <+: a ++ '/' :: b) : s <+: a := by
  induction a generalizing s with
  | nil =>
    cases s with
    | nil => exact List.nil_prefix
    | cons c cs =>
      simp only [List.nil_append, List.cons_prefix_cons] at h
      exact absurd (by simp [h.1]) hs
  | cons x a ih =>
    cases s with
    | nil => exact List.nil_prefix
    | cons c cs =>
      simp only [List.cons_append, List.cons_prefix_cons] at h ⊢
      exact ⟨h.1, ih cs (fun hm => hs (List.mem_cons_of_mem _ hm)) h.2⟩

theorem infix_of_append_slash (s a b : Str) (hs : '/' ∉ s) (h : s <:+: a ++ '/' :: b) :
    s <:+: a ∨ s <:+: b := by
  induction a with
  | nil =>
    simp only [List.nil_append] at h
    rcases List.infix_cons_iff.mp h with h | h
    · have := prefix_of_append_slash s [] b hs (by simpa using h)
      exact Or.inl this.isInfix
    · exact Or.inr h
  | cons x a ih =>
    simp only [List.cons_append] at h
    rcases List.infix_cons_iff.mp h with h | h
    · have := prefix_of_append_slash s (x :: a) b hs (by simpa using h)
      exact Or.inl this.isInfix
    · rcases ih h with h | h
      · exact Or.inl (List.infix_cons_iff.mpr (Or.inr h))
      · exact Or.inr h

/-- a '/'-free string occurs in a salted token only inside "v2", inside the uuid, or inside the
hex digest -/
theorem infix_saltedForm (mac : Str → Str → List UInt8) (x u s R : Str) (hx : '/' ∉ x)
    (h : x <:+: saltedForm mac u s R) : x <:+: sV2 ∨ x <:+: u ∨ x <:+: hexStr (mac s R) := by
  have e1 : saltedForm mac u s R = sV2 ++ '/' :: (u ++ '/' :: hexStr (mac s R)) := by
    simp [saltedForm, sV2Slash, sV2, sSlash]
  rw [e1] at h
  rcases infix_of_append_slash _ _ _ hx h with h | h
  · exact Or.inl h
  · exact Or.inr (infix_of_append_slash _ _ _ hx h)

end ArvVerif.C19
