/-
C10 — the range loop of `dirnode.loadManifest` (with its carried `(segIdx, pos)` cursor) agrees
with the reference interpreter `resolveTok`, keeps the cursor consistent, and reports "invalid
segment" exactly when the token reaches past the end of the stream.
-/
import ArvVerif.Proofs.C10_Resolve
namespace ArvVerif.C10

/-- One run of the loop over `rest = segments[segIdx:]`, whose first block starts at stream
offset `p`, for a token `o:l` (no int64 overflow: the caller passes `ol = o + l`):
* the stored segments appended are the reference pieces of the token in `rest`;
* the cursor moves by whole blocks (`k` of them) and stays consistent with the offsets;
* the "ran off the end" test is true exactly when the token exceeds the stream. -/
theorem fsLoop_spec (o l : Nat) :
    ∀ (rest : List Loc) (idx p : Nat) (acc : List Seg),
      (fsLoop (o : Int) ((o + l : Nat) : Int) rest idx (p : Int) acc).2.2 = acc ++ resolveTok rest p o l ∧
      (∃ k, k ≤ rest.length ∧ (k < rest.length → o + l ≤ p + streamLen rest) ∧
        (fsLoop (o : Int) ((o + l : Nat) : Int) rest idx (p : Int) acc).1 = idx + k ∧
        (fsLoop (o : Int) ((o + l : Nat) : Int) rest idx (p : Int) acc).2.1 = ((p + streamLen (rest.take k) : Nat) : Int)) := by
  intro rest
  induction rest with
  | nil =>
    intro idx p acc
    refine ⟨by simp [fsLoop, resolveTok], 0, Nat.le_refl _, by simp, by simp [fsLoop], by simp [fsLoop]⟩
  | cons b rest ih =>
    intro idx p acc
    have hnext : (p : Int) + (b.size : Int) = ((p + b.size : Nat) : Int) := by omega
    unfold fsLoop
    simp only [hnext]
    conv => enter [1, 2]; unfold resolveTok
    simp only []
    by_cases hskip : ((p + b.size : Nat) : Int) ≤ (o : Int) ∨ b.size = 0
    · rw [if_pos hskip]
      obtain ⟨h1, k, hk, hkt, h2, h3⟩ := ih (idx + 1) (p + b.size) acc
      refine ⟨?_, k + 1, by simpa using hk, ?_, by rw [h2]; omega, ?_⟩
      · rw [h1, if_neg (by omega)]
      · intro hlt; simp only [streamLen_cons]
        have := hkt (by simpa using hlt); omega
      · rw [h3]; simp only [List.take_succ_cons, streamLen_cons]; congr 1; omega
    · rw [if_neg hskip]
      by_cases hbrk : (p : Int) ≥ ((o + l : Nat) : Int)
      · rw [if_pos hbrk]
        refine ⟨?_, 0, by simp, ?_, by simp, by simp⟩
        · simp only []
          rw [if_neg (by omega), resolveTok_nil_of_ge _ _ _ _ (by omega)]
          simp
        · intro _; simp only [streamLen_cons]; omega
      · rw [if_neg hbrk]
        obtain ⟨hs1, hs2⟩ := not_or.mp hskip
        have hs3 : o < p + b.size := by omega
        have hs4 : p < o + l := by omega
        by_cases hpo : (p : Int) < (o : Int)
        · -- the token starts inside this block
          simp only [if_pos hpo]
          by_cases hcut : (p : Int) + ((o : Int) - (p : Int) + ((b.size : Int) - ((o : Int) - (p : Int)))) > ((o + l : Nat) : Int)
          · simp only [if_pos hcut]
            have hnx : ((p + b.size : Nat) : Int) > ((o + l : Nat) : Int) := by omega
            rw [if_pos hnx]
            by_cases hl : l = 0
            · have hpos : ¬ (((o + l : Nat) : Int) - (p : Int) - ((o : Int) - (p : Int)) > 0) := by omega
              simp only [if_neg hpos]
              refine ⟨?_, 0, by simp, ?_, by simp, by simp⟩
              · rw [if_neg (by omega), resolveTok_nil_of_ge _ _ _ _ (by omega)]
                simp
              · intro _; simp only [streamLen_cons]; omega
            · have hpos : ((o + l : Nat) : Int) - (p : Int) - ((o : Int) - (p : Int)) > 0 := by omega
              simp only [if_pos hpos]
              refine ⟨?_, 0, by simp, ?_, by simp, by simp⟩
              · rw [if_pos (by omega), resolveTok_nil_of_ge _ _ _ _ (by omega)]
                simp only [List.append_cancel_left_eq, List.cons.injEq, and_true]
                congr 1 <;> omega
              · intro _; simp only [streamLen_cons]; omega
          · simp only [if_neg hcut]
            have hpos : (b.size : Int) - ((o : Int) - (p : Int)) > 0 := by omega
            simp only [if_pos hpos]
            have hnx : ¬ (((p + b.size : Nat) : Int) > ((o + l : Nat) : Int)) := by omega
            rw [if_neg hnx]
            obtain ⟨h1, k, hk, hkt, h2, h3⟩ := ih (idx + 1) (p + b.size)
              (acc ++ [⟨b.text, ((o : Int) - (p : Int)).toNat, ((b.size : Int) - ((o : Int) - (p : Int))).toNat⟩])
            refine ⟨?_, k + 1, by simpa using hk, ?_, by rw [h2]; omega, ?_⟩
            · rw [h1, if_pos (by omega)]
              simp only [List.append_assoc, List.cons_append, List.nil_append, List.append_cancel_left_eq,
                List.cons.injEq, and_true]
              congr 1 <;> omega
            · intro hlt; simp only [streamLen_cons]
              have := hkt (by simpa using hlt); omega
            · rw [h3]; simp only [List.take_succ_cons, streamLen_cons]; congr 1; omega
        · -- the token started in an earlier block
          simp only [if_neg hpo]
          by_cases hcut : (p : Int) + ((0 : Int) + ((b.size : Int) - 0)) > ((o + l : Nat) : Int)
          · simp only [if_pos hcut]
            have hpos : ((o + l : Nat) : Int) - (p : Int) - 0 > 0 := by omega
            simp only [if_pos hpos]
            have hnx : ((p + b.size : Nat) : Int) > ((o + l : Nat) : Int) := by omega
            rw [if_pos hnx]
            refine ⟨?_, 0, by simp, ?_, by simp, by simp⟩
            · simp only []
              rw [if_pos (by omega), resolveTok_nil_of_ge _ _ _ _ (by omega)]
              simp only [List.append_cancel_left_eq, List.cons.injEq, and_true]
              congr 1 <;> omega
            · intro _; simp only [streamLen_cons]; omega
          · simp only [if_neg hcut]
            have hpos : (b.size : Int) - 0 > 0 := by omega
            simp only [if_pos hpos]
            have hnx : ¬ (((p + b.size : Nat) : Int) > ((o + l : Nat) : Int)) := by omega
            rw [if_neg hnx]
            obtain ⟨h1, k, hk, hkt, h2, h3⟩ := ih (idx + 1) (p + b.size)
              (acc ++ [⟨b.text, (0 : Int).toNat, ((b.size : Int) - 0).toNat⟩])
            refine ⟨?_, k + 1, by simpa using hk, ?_, by rw [h2]; omega, ?_⟩
            · rw [h1, if_pos (by omega)]
              simp only [List.append_assoc, List.cons_append, List.nil_append, List.append_cancel_left_eq,
                List.cons.injEq, and_true]
              congr 1 <;> omega
            · intro hlt; simp only [streamLen_cons]
              have := hkt (by simpa using hlt); omega
            · rw [h3]; simp only [List.take_succ_cons, streamLen_cons]; congr 1; omega

end ArvVerif.C10
