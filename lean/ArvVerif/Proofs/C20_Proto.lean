/-
C20 helper lemmas, part 5 (third extension pass): invariants of the goroutine / channel / collector
transition system of Model/C20_Proto.lean.
-/
import ArvVerif.Proofs.C20_Ext
import ArvVerif.Model.C20_Proto
namespace ArvVerif.C20

/-! ### the sequential loop, one unfolding at its natural fuel -/

theorem loop_unfold (B : Backend) (ropts : Opts) (todo : List Uuid) (idx : Nat) (hne : todo ≠ []) :
    clusterLoop B ropts todo.length todo idx =
      match B (batchReq ropts todo) idx with
      | .error s => ⟨[], [((batchReq ropts todo), .error s)], .failed 502⟩
      | .page items =>
        if items = [] then ⟨[[]], [((batchReq ropts todo), .page [])], .done⟩
        else if accepts todo (pageUuids items) = false then
          ⟨[items], [((batchReq ropts todo), .page items)], .failed 502⟩
        else if (remaining todo items).length = todo.length then
          ⟨[items], [((batchReq ropts todo), .page items)], .failed 502⟩
        else (clusterLoop B ropts (remaining todo items).length (remaining todo items) (idx + 1)).push
          (batchReq ropts todo) (.page items) items := by
  have hpos := List.length_pos_iff.mpr hne
  obtain ⟨n, hn⟩ : ∃ n, todo.length = n + 1 := ⟨todo.length - 1, by omega⟩
  have hstep := loop_step B ropts n todo idx hne
  rw [← hn] at hstep
  rw [hstep]
  cases hB : B (batchReq ropts todo) idx with
  | error s => rfl
  | page items =>
    simp only
    by_cases hi : items = []
    · simp [hi]
    · simp only [hi, if_false]
      by_cases ha : accepts todo (pageUuids items) = false
      · simp [ha]
      · simp only [if_neg ha]
        by_cases hp : (remaining todo items).length = todo.length
        · simp [hp]
        · simp only [hp, if_false]
          have hle := remaining_length_le todo items
          rw [loop_fuel_indep B ropts n (remaining todo items) (idx + 1) (by omega)]

theorem loop_log_pos (B : Backend) (ropts : Opts) (todo : List Uuid) (idx : Nat) (hne : todo ≠ []) :
    0 < (clusterLoop B ropts todo.length todo idx).log.length := by
  rw [loop_unfold B ropts todo idx hne]
  cases B (batchReq ropts todo) idx with
  | error s => simp
  | page items =>
    simp only
    split
    · simp
    · split
      · simp
      · split
        · simp
        · simp

/-! ### the local invariant of one goroutine -/

def prependAcc (a : Acc) (r : CRes) : CRes := ⟨a.pages ++ r.pages, a.log ++ r.log, r.stop⟩

/-- The goroutine's whole run as the sequential model computes it, its calls from index `cut` on
failing because of the cancelled context (`runClusterCut`, stated with the forwarded options). -/
def full (cfg : Cfg) (ropts : Opts) (c : ClusterId) (todo0 : List Uuid) (cut : Option Nat) : CRes :=
  match backendFor cfg c with
  | none => ⟨[], [], .failed 404⟩
  | some B => clusterLoop (cutBackend B cut) ropts todo0.length todo0 0

/-- what is still to come, seen from the head of the loop -/
def Ahead (cfg : Cfg) (ropts : Opts) (g : GState) (B : Backend) (todo : List Uuid) (idx : Nat) : Prop :=
  ∀ cut : Option Nat, (∀ k, cut = some k → idx ≤ k) →
    full cfg ropts g.c g.todo0 cut = prependAcc g.acc (clusterLoop (cutBackend B cut) ropts todo.length todo idx)

def LInv (cfg : Cfg) (ropts : Opts) (vars : ClusterId → Opts) (g : GState) : Prop :=
  match g.phase with
  | .loop todo idx =>
      g.sawCancel = none ∧ g.acc.log.length = idx ∧
      (backendFor cfg g.c = none → g.acc = ⟨[], []⟩) ∧
      ∀ B, backendFor cfg g.c = some B → Ahead cfg ropts g B todo idx
  | .prepared todo idx =>
      g.sawCancel = none ∧ g.acc.log.length = idx ∧ todo ≠ [] ∧ vars g.slot = batchReq ropts todo ∧
      ∃ B, backendFor cfg g.c = some B ∧ Ahead cfg ropts g B todo idx
  | .finished st =>
      match g.sawCancel with
      | none => full cfg ropts g.c g.todo0 none = ⟨g.acc.pages, g.acc.log, st⟩
      | some k => full cfg ropts g.c g.todo0 (some k) = ⟨g.acc.pages, g.acc.log, st⟩ ∧ st = .failed 502 ∧
          k < (full cfg ropts g.c g.todo0 none).log.length

theorem cutBackend_lt (B : Backend) (cut : Option Nat) (idx : Nat) (req : Opts)
    (h : ∀ k, cut = some k → idx + 1 ≤ k) : cutBackend B cut req idx = B req idx := by
  cases cut with
  | none => rfl
  | some k =>
    have := h k rfl
    simp only [cutBackend]
    rw [if_neg (by omega)]

/-- the value a goroutine sends = the status of its stop -/
def sentOf (st : Stop) : Sent := st.status?

/-- Everything one goroutine step does, in one statement. -/
theorem gstep_facts (cfg : Cfg) (ropts : Opts) (vars vars' : ClusterId → Opts) (cn : Bool)
    (g g' : GState) (sent : Option Sent) (h : GStep cfg ropts vars cn g g' vars' sent)
    (hinv : LInv cfg ropts vars g) :
    g'.c = g.c ∧ g'.todo0 = g.todo0 ∧ g'.slot = g.slot ∧ g.isFinished = false ∧
    (vars' = vars ∨ ∃ v, vars' = setVar vars g.slot v) ∧
    (sent = none → g'.isFinished = false) ∧
    (∀ v, sent = some v → ∃ st, g'.phase = .finished st ∧ v = sentOf st ∧ st ≠ .starved) ∧
    (g'.sawCancel = g.sawCancel ∨ cn = true) ∧ g'.measure < g.measure ∧
    LInv cfg ropts vars' g' := by
  cases h with
  | noBackend todo idx hp hb =>
    refine ⟨rfl, rfl, rfl, by simp [GState.isFinished, hp], Or.inl rfl, (by intro h; cases h), (by intro v h; cases h; exact ⟨_, rfl, rfl, by simp⟩), Or.inl rfl,
      by simp [GState.measure, hp], ?_⟩
    simp only [LInv, hp] at hinv
    obtain ⟨hs, _, hacc, _⟩ := hinv
    simp only [LInv, hs]
    unfold full
    simp only [hb]
    rw [hacc hb]
  | exit idx B hp hb =>
    refine ⟨rfl, rfl, rfl, by simp [GState.isFinished, hp], Or.inl rfl, (by intro h; cases h), (by intro v h; cases h; exact ⟨_, rfl, rfl, by simp⟩), Or.inl rfl,
      by simp [GState.measure, hp], ?_⟩
    simp only [LInv, hp] at hinv
    obtain ⟨hs, _, _, hah⟩ := hinv
    simp only [LInv, hs]
    have := hah B hb none (by intro k hk; cases hk)
    rw [this]
    simp [prependAcc, clusterLoop]
  | prepare todo idx B hp hne hb =>
    refine ⟨rfl, rfl, rfl, by simp [GState.isFinished, hp], Or.inr ⟨_, rfl⟩, (by intro _; simp [GState.isFinished]), (by intro v h; cases h), Or.inl rfl,
      by simp [GState.measure, hp], ?_⟩
    simp only [LInv, hp] at hinv
    obtain ⟨hs, hl, _, hah⟩ := hinv
    simp only [LInv]
    refine ⟨hs, hl, hne, by simp [setVar], B, hb, ?_⟩
    intro cut hcut
    exact hah B hb cut hcut
  | callCancelled todo idx hp hcn =>
    refine ⟨rfl, rfl, rfl, by simp [GState.isFinished, hp], Or.inl rfl, (by intro h; cases h), (by intro v h; cases h; exact ⟨_, rfl, rfl, by simp⟩), Or.inr hcn,
      by simp [GState.measure, hp], ?_⟩
    simp only [LInv, hp] at hinv
    obtain ⟨_, hl, hne, hv, B, hb, hah⟩ := hinv
    simp only [LInv]
    refine ⟨?_, trivial, ?_⟩
    · rw [hah (some idx) (by intro k hk; cases hk; exact Nat.le_refl _),
        loop_unfold _ ropts todo idx hne]
      have : cutBackend B (some idx) (batchReq ropts todo) idx = .error 0 := by simp [cutBackend]
      rw [this, hv]
      simp [prependAcc, Acc.add]
    · rw [hah none (by intro k hk; cases hk)]
      have := loop_log_pos (cutBackend B none) ropts todo idx hne
      simp only [prependAcc, List.length_append]
      omega
  | call todo idx B hp hb =>
    simp only [LInv, hp] at hinv
    obtain ⟨hs, hl, hne, hv, B', hb', hah⟩ := hinv
    have hBB : B' = B := by rw [hb] at hb'; cases hb'; rfl
    subst hBB
    rw [hv]
    have hfin : g.isFinished = false := by simp [GState.isFinished, hp]
    have hm : g.measure = 2 * todo.length + 1 := by simp [GState.measure, hp]
    -- the undisturbed continuation, unfolded once
    have hnone := hah none (by intro k hk; cases hk)
    rw [loop_unfold _ ropts todo idx hne] at hnone
    have hcb : cutBackend B' none (batchReq ropts todo) idx = B' (batchReq ropts todo) idx := rfl
    rw [hcb] at hnone
    cases hB : B' (batchReq ropts todo) idx with
    | error s =>
      rw [hB] at hnone
      refine ⟨by simp [afterCall], by simp [afterCall], by simp [afterCall], hfin, Or.inl rfl, by simp [afterCall],
          by simp [afterCall, sentOf, Stop.status?], Or.inl (by simp [afterCall]),
          by simp [afterCall, GState.measure, hp], ?_⟩
      simp only [afterCall, LInv, hs]
      rw [hnone]
      simp [prependAcc, Acc.add]
    | page items =>
      rw [hB] at hnone
      simp only at hnone
      by_cases hi : items = []
      · simp only [hi, if_true] at hnone
        refine ⟨by simp [afterCall, hi], by simp [afterCall, hi], by simp [afterCall, hi], hfin, Or.inl rfl, by simp [afterCall, hi],
          by simp [afterCall, hi, sentOf, Stop.status?], Or.inl (by simp [afterCall, hi]),
          by simp [afterCall, hi, GState.measure, hp], ?_⟩
        simp only [afterCall, hi, if_true, LInv, hs]
        rw [hnone]
        simp [prependAcc, Acc.add]
      · simp only [hi, if_false] at hnone
        by_cases ha : accepts todo (pageUuids items) = false
        · simp only [ha, if_true] at hnone
          refine ⟨by simp [afterCall, hi, ha], by simp [afterCall, hi, ha], by simp [afterCall, hi, ha], hfin, Or.inl rfl, by simp [afterCall, hi, ha],
          by simp [afterCall, hi, ha, sentOf, Stop.status?], Or.inl (by simp [afterCall, hi, ha]),
          by simp [afterCall, hi, ha, GState.measure, hp], ?_⟩
          simp only [afterCall, hi, ha, if_true, if_false, LInv, hs]
          rw [hnone]
          simp [prependAcc, Acc.add]
        · simp only [if_neg ha] at hnone
          by_cases hpr : (remaining todo items).length = todo.length
          · simp only [hpr, if_true] at hnone
            refine ⟨by simp [afterCall, hi, ha, hpr], by simp [afterCall, hi, ha, hpr], by simp [afterCall, hi, ha, hpr], hfin, Or.inl rfl, by simp [afterCall, hi, ha, hpr],
          by simp [afterCall, hi, ha, hpr, sentOf, Stop.status?], Or.inl (by simp [afterCall, hi, ha, hpr]),
          by simp [afterCall, hi, ha, hpr, GState.measure, hp], ?_⟩
            simp only [afterCall, hi, if_neg ha, hpr, if_true, if_false, LInv, hs]
            rw [hnone]
            simp [prependAcc, Acc.add]
          · have hle := remaining_length_le todo items
            refine ⟨by simp [afterCall, hi, ha, hpr], by simp [afterCall, hi, ha, hpr],
              by simp [afterCall, hi, ha, hpr], hfin, Or.inl rfl,
              by simp [afterCall, hi, ha, hpr, GState.isFinished], by simp [afterCall, hi, ha, hpr],
              Or.inl (by simp [afterCall, hi, ha, hpr]), ?_, ?_⟩
            · rw [hm]
              simp only [afterCall, hi, if_neg ha, hpr, if_false, GState.measure]
              omega
            · simp only [afterCall, hi, if_neg ha, hpr, if_false, LInv]
              refine ⟨hs, by simp [Acc.add, hl], ?_, ?_⟩
              · intro hnb; rw [hb] at hnb; cases hnb
              · intro B2 hb2 cut hcut
                have hBB : B2 = B' := by rw [hb] at hb2; cases hb2; rfl
                subst hBB
                show full cfg ropts g.c g.todo0 cut = _
                rw [hah cut (by intro k hk; have := hcut k hk; omega), loop_unfold _ ropts todo idx hne,
                  cutBackend_lt B2 cut idx _ hcut, hB]
                simp only [hi, if_neg ha, hpr, if_false]
                simp [prependAcc, Acc.add, CRes.push]

/-- a write to another goroutine's variable does not disturb this one -/
theorem linv_setVar (cfg : Cfg) (ropts : Opts) (vars : ClusterId → Opts) (g : GState) (s : ClusterId) (v : Opts)
    (hne : g.slot ≠ s) (h : LInv cfg ropts vars g) : LInv cfg ropts (setVar vars s v) g := by
  unfold LInv at h ⊢
  cases hp : g.phase with
  | loop todo idx => rw [hp] at h; exact h
  | prepared todo idx =>
    rw [hp] at h
    obtain ⟨h1, h2, h3, h4, h5⟩ := h
    exact ⟨h1, h2, h3, by simp [setVar, hne, h4], h5⟩
  | finished st => rw [hp] at h; exact h

end ArvVerif.C20
