/-
C09 helper lemmas, part 4: the stream builder of `marshalManifest` (`emitSeg` / `emitFiles`):
re-using the last block when the next segment has the same locator and merging a file part into its
predecessor never change what the file tokens stand for. For every file of the directory, the bytes
the tokens of its name select from the concatenated blocks are exactly the file's content.
-/
import ArvVerif.Proofs.C09_Groups
import ArvVerif.Proofs.C10_Normalize
namespace ArvVerif.C09

open ArvVerif.C08 (Seg FileNode Ptr Flush Store Ref SegWF)

variable {max : Nat} {hash : Bytes → C08.Loc}

/-- block contents as the manifest semantics of C10 wants them: locator text ↦ bytes -/
def blkOf (st : Store) (loc : Bytes) : Bytes := (st loc).getD []

/-- the logical concatenation of the blocks emitted so far -/
def streamOf (st : Store) (e : Emit) : Bytes := C10.streamBytes (blkOf st) e.blocksRev.reverse

def partBytes (S : Bytes) (p : Part) : Bytes := C10.slice S p.off p.len

/-- what the parts named `n` (given newest first) select from stream `S`, oldest first -/
def contentRev (S : Bytes) (n : Bytes) : List Part → Bytes
  | [] => []
  | p :: ps => contentRev S n ps ++ (if p.name = n then partBytes S p else [])

structure EInv (st : Store) (e : Emit) : Prop where
  len : e.len = C10.streamLen e.blocksRev.reverse
  blk : ∀ b ∈ e.blocksRev, ∃ x, st b.text = some x ∧ x.length = b.size
  parts : ∀ p ∈ e.partsRev, p.off + p.len ≤ e.len

theorem EInv.stream_length {st : Store} {e : Emit} (h : EInv st e) : (streamOf st e).length = e.len := by
  unfold streamOf
  rw [C10.streamBytes_length, h.len]
  intro b hb
  obtain ⟨x, hx, hl⟩ := h.blk b (List.mem_reverse.mp hb)
  simp [blkOf, hx, hl]

theorem contentRev_prefix (S X : Bytes) (n : Bytes) : ∀ (ps : List Part), (∀ p ∈ ps, p.off + p.len ≤ S.length) →
    contentRev (S ++ X) n ps = contentRev S n ps
  | [], _ => rfl
  | p :: ps, h => by
    unfold contentRev
    rw [contentRev_prefix S X n ps (fun q hq => h q (List.mem_cons_of_mem _ hq))]
    unfold partBytes
    rw [C10.slice_of_prefix S X p.off p.len (h p (by simp))]

theorem streamLen_reverse_cons (b : C10.Loc) (bs : List C10.Loc) :
    C10.streamLen (b :: bs).reverse = C10.streamLen bs.reverse + b.size := by
  simp [C10.streamLen]

theorem streamBytes_append (blk : Bytes → Bytes) (a b : List C10.Loc) :
    C10.streamBytes blk (a ++ b) = C10.streamBytes blk a ++ C10.streamBytes blk b := by
  simp [C10.streamBytes]

/-- the block bookkeeping of one stored segment whose block `x` is in Keep -/
theorem emitBlocks_spec {st : Store} {e : Emit} {loc : Bytes} {size : Nat} {x : Bytes} (hinv : EInv st e)
    (hx : st loc = some x) (hxl : x.length = size) :
    (∃ S0, C10.streamBytes (blkOf st) (emitBlocks e loc size).reverse = S0 ++ x ∧ S0.length = emitBase e loc size) ∧
    (∃ X, C10.streamBytes (blkOf st) (emitBlocks e loc size).reverse = streamOf st e ++ X) ∧
    emitBase e loc size + size = C10.streamLen (emitBlocks e loc size).reverse ∧
    (∀ b ∈ emitBlocks e loc size, ∃ y, st b.text = some y ∧ y.length = b.size) ∧
    (∀ b ∈ emitBlocks e loc size, b ∈ e.blocksRev ∨ (b.text = loc ∧ b.size = size)) ∧
    emitBase e loc size ≤ e.len ∧ e.len ≤ emitBase e loc size + size := by
  have hSlen := hinv.stream_length
  unfold emitBlocks emitBase sameLast
  cases hb : e.blocksRev with
  | nil =>
    simp only [Bool.false_eq_true, if_false]
    have h0 : e.len = 0 := by rw [hinv.len, hb]; rfl
    refine ⟨⟨[], ?_, by simp [h0]⟩, ⟨x, ?_⟩, ?_, ?_, ?_, Nat.le_refl _, by omega⟩
    · simp [C10.streamBytes, blkOf, hx]
    · simp [streamOf, hb, C10.streamBytes, blkOf, hx]
    · rw [hinv.len, hb]; simp [C10.streamLen]
    · intro b hb'; simp at hb'; subst hb'; exact ⟨x, hx, hxl⟩
    · intro b hb'; simp at hb'; subst hb'; exact Or.inr ⟨rfl, rfl⟩
  | cons b0 rest =>
    simp only []
    by_cases hsame : (b0.text == loc) = true
    · simp only [hsame, if_true]
      have hloc : b0.text = loc := by simpa using hsame
      obtain ⟨y, hy, hyl⟩ := hinv.blk b0 (by rw [hb]; simp)
      have hxy : y = x := by rw [hloc, hx] at hy; cases hy; rfl
      have hsz : b0.size = size := by rw [← hyl, hxy, hxl]
      have hlen := hinv.len
      rw [hb, streamLen_reverse_cons, hsz] at hlen
      refine ⟨⟨C10.streamBytes (blkOf st) rest.reverse, ?_, ?_⟩, ⟨[], ?_⟩, ?_, ?_, ?_, by omega, by omega⟩
      · rw [List.reverse_cons, streamBytes_append]
        simp [C10.streamBytes, blkOf, hloc, hx]
      · rw [C10.streamBytes_length]
        · omega
        · intro b hb'
          obtain ⟨z, hz, hzl⟩ := hinv.blk b (by rw [hb]; simp [List.mem_reverse.mp hb'])
          simp [blkOf, hz, hzl]
      · simp [streamOf, hb]
      · rw [streamLen_reverse_cons, hsz]; omega
      · intro b hb'; exact hinv.blk b (by rw [hb]; exact hb')
      · intro b hb'; exact Or.inl hb'
    · simp only [hsame, if_false, Bool.false_eq_true]
      refine ⟨⟨streamOf st e, ?_, hSlen⟩, ⟨x, ?_⟩, ?_, ?_, ?_, Nat.le_refl _, by omega⟩
      · rw [List.reverse_cons, streamBytes_append]
        simp [streamOf, hb, C10.streamBytes, blkOf, hx]
      · rw [List.reverse_cons, streamBytes_append]
        simp [streamOf, hb, C10.streamBytes, blkOf, hx]
      · rw [streamLen_reverse_cons, hinv.len, hb]
      · intro b hb'
        rcases List.mem_cons.mp hb' with rfl | hb'
        · exact ⟨x, hx, hxl⟩
        · exact hinv.blk b (by rw [hb]; exact hb')
      · intro b hb'
        rcases List.mem_cons.mp hb' with rfl | hb'
        · exact Or.inr ⟨rfl, rfl⟩
        · exact Or.inl hb'

/-- adding a file part (merged into its predecessor or not) appends exactly its bytes to the content
of its name -/
theorem addPart_spec (S : Bytes) (parts : List Part) (next : Part) :
    (∀ n, contentRev S n (addPart parts next) =
      contentRev S n parts ++ (if next.name = n then partBytes S next else [])) ∧
    (∀ q ∈ addPart parts next, q.name = next.name ∨ q ∈ parts) ∧
    (∀ (L : Nat), (∀ q ∈ parts, q.off + q.len ≤ L) → next.off + next.len ≤ L →
      ∀ q ∈ addPart parts next, q.off + q.len ≤ L) := by
  unfold addPart
  cases parts with
  | nil =>
    refine ⟨fun n => by simp [contentRev], ?_, ?_⟩
    · intro q hq; simp at hq; subst hq; exact Or.inl rfl
    · intro L _ hn q hq; simp at hq; subst hq; exact hn
  | cons p ps =>
    simp only []
    by_cases hmerge : (p.name == next.name && p.off + p.len == next.off) = true
    · rw [if_pos hmerge]
      simp only [Bool.and_eq_true, beq_iff_eq] at hmerge
      obtain ⟨hpn, hpo⟩ := hmerge
      refine ⟨?_, ?_, ?_⟩
      · intro n
        simp only [contentRev]
        by_cases hn : next.name = n
        · subst hn
          simp only [hpn, if_true]
          rw [List.append_assoc]
          congr 1
          unfold partBytes
          simp only []
          have := C10.slice_append_slice S p.off (p.off + p.len) next.len (by omega)
          rw [show p.off + p.len - p.off = p.len by omega, show p.off + p.len + next.len - p.off = p.len + next.len by omega] at this
          rw [← hpo]; exact this.symm
        · have hpn' : ¬ p.name = n := by rw [hpn]; exact hn
          simp [hpn', hn]
      · intro q hq
        rcases List.mem_cons.mp hq with rfl | hq
        · exact Or.inl hpn
        · exact Or.inr (by simp [hq])
      · intro L hL hn q hq
        rcases List.mem_cons.mp hq with rfl | hq
        · simp only []; omega
        · exact hL q (by simp [hq])
    · rw [if_neg hmerge]
      refine ⟨fun n => by simp [contentRev], ?_, ?_⟩
      · intro q hq
        rcases List.mem_cons.mp hq with rfl | hq
        · exact Or.inl rfl
        · exact Or.inr hq
      · intro L hL hn q hq
        rcases List.mem_cons.mp hq with rfl | hq
        · exact hn
        · exact hL q hq

theorem addPart_keeps (parts : List Part) (next : Part) (n : Bytes)
    (h : (∃ p ∈ parts, p.name = n) ∨ next.name = n) : ∃ p ∈ addPart parts next, p.name = n := by
  unfold addPart
  cases parts with
  | nil =>
    rcases h with ⟨p, hp, _⟩ | h
    · cases hp
    · exact ⟨next, by simp, h⟩
  | cons p ps =>
    simp only []
    by_cases hmerge : (p.name == next.name && p.off + p.len == next.off) = true
    · rw [if_pos hmerge]
      simp only [Bool.and_eq_true, beq_iff_eq] at hmerge
      rcases h with ⟨q, hq, hn⟩ | h
      · rcases List.mem_cons.mp hq with rfl | hq
        · exact ⟨_, List.mem_cons_self, hn⟩
        · exact ⟨q, List.mem_cons_of_mem _ hq, hn⟩
      · exact ⟨_, List.mem_cons_self, by simp only []; rw [hmerge.1]; exact h⟩
    · rw [if_neg hmerge]
      rcases h with ⟨q, hq, hn⟩ | h
      · exact ⟨q, List.mem_cons_of_mem _ hq, hn⟩
      · exact ⟨next, by simp, h⟩

theorem emitSeg_keeps {name : Bytes} {e e' : Emit} {s : Seg} (n : Bytes) (hemit : emitSeg name e s = some e')
    (h : (∃ p ∈ e.partsRev, p.name = n) ∨ name = n) : ∃ p ∈ e'.partsRev, p.name = n := by
  cases s with
  | mem => simp [emitSeg] at hemit
  | stored loc size off len =>
    simp only [emitSeg, Option.some.injEq] at hemit
    subst hemit
    exact addPart_keeps _ _ n h

theorem emitSegs_keeps {name : Bytes} (n : Bytes) : ∀ (segs : List Seg) (e e' : Emit), emitSegs name e segs = some e' →
    ((∃ p ∈ e.partsRev, p.name = n) ∨ (name = n ∧ segs ≠ [])) → ∃ p ∈ e'.partsRev, p.name = n
  | [], e, e', h, hp => by
    simp only [emitSegs, Option.some.injEq] at h
    subst h
    rcases hp with hp | ⟨_, hne⟩
    · exact hp
    · exact absurd rfl hne
  | s :: rest, e, e', h, hp => by
    unfold emitSegs at h
    cases h1 : emitSeg name e s with
    | none => rw [h1] at h; cases h
    | some e1 =>
      rw [h1] at h
      simp only [] at h
      apply emitSegs_keeps n rest e1 e' h
      left
      apply emitSeg_keeps n h1
      rcases hp with hp | ⟨hn, _⟩
      · exact Or.inl hp
      · exact Or.inr hn

theorem emitFile_keeps {f : Bytes × FileNode} {e e' : Emit} (n : Bytes) (h : emitFile e f = some e')
    (hp : (∃ p ∈ e.partsRev, p.name = n) ∨ f.1 = n) : ∃ p ∈ e'.partsRev, p.name = n := by
  unfold emitFile at h
  by_cases hempty : f.2.segs.isEmpty = true
  · rw [if_pos hempty] at h
    simp only [Option.some.injEq] at h
    subst h
    rcases hp with ⟨p, hp, hn⟩ | hn
    · exact ⟨p, List.mem_cons_of_mem _ hp, hn⟩
    · exact ⟨⟨f.1, 0, 0⟩, List.mem_cons_self, hn⟩
  · rw [if_neg hempty] at h
    apply emitSegs_keeps n _ e e' h
    rcases hp with hp | hn
    · exact Or.inl hp
    · exact Or.inr ⟨hn, fun hnil => hempty (by rw [hnil]; rfl)⟩

theorem emitFiles_keeps (n : Bytes) : ∀ (files : List (Bytes × FileNode)) (e e' : Emit), emitFiles e files = some e' →
    ((∃ p ∈ e.partsRev, p.name = n) ∨ ∃ f ∈ files, f.1 = n) → ∃ p ∈ e'.partsRev, p.name = n
  | [], e, e', h, hp => by
    simp only [emitFiles, Option.some.injEq] at h
    subst h
    rcases hp with hp | ⟨f, hf, _⟩
    · exact hp
    · cases hf
  | f :: rest, e, e', h, hp => by
    unfold emitFiles at h
    cases h1 : emitFile e f with
    | none => rw [h1] at h; cases h
    | some e1 =>
      rw [h1] at h
      simp only [] at h
      apply emitFiles_keeps n rest e1 e' h
      rcases hp with hp | ⟨g, hg, hn⟩
      · exact Or.inl (emitFile_keeps n h1 (Or.inl hp))
      · rcases List.mem_cons.mp hg with rfl | hg
        · exact Or.inl (emitFile_keeps n h1 (Or.inr hn))
        · exact Or.inr ⟨g, hg, hn⟩

/-- **one stored segment**: the invariant is kept, the content of the segment's file grows by the
segment's bytes, every other name's content is unchanged, and the only block that can have been
added is the segment's. -/
theorem emitSeg_spec {st : Store} {name : Bytes} {e e' : Emit} {s : Seg} (hinv : EInv st e)
    (hs : SegWF max hash st s) (hemit : emitSeg name e s = some e') :
    EInv st e' ∧
    (∀ n, contentRev (streamOf st e') n e'.partsRev =
      contentRev (streamOf st e) n e.partsRev ++ (if name = n then s.bytes st else [])) ∧
    (∀ b ∈ e'.blocksRev, b ∈ e.blocksRev ∨ ∃ off len, s = Seg.stored b.text b.size off len) ∧
    (∀ p ∈ e'.partsRev, p.name = name ∨ p ∈ e.partsRev) := by
  cases s with
  | mem buf fl => simp [emitSeg] at hemit
  | stored loc size off len =>
    obtain ⟨_, hroom, x, hx, hxl⟩ := hs
    have hSlen := hinv.stream_length
    obtain ⟨⟨S0, hS0, hS0len⟩, ⟨X, hX⟩, hlen', hblk', hnew, hble, hlble⟩ := emitBlocks_spec hinv hx hxl
    simp only [emitSeg, Option.some.injEq] at hemit
    subst hemit
    obtain ⟨a1, a2, a3⟩ := addPart_spec (C10.streamBytes (blkOf st) (emitBlocks e loc size).reverse) e.partsRev
      ⟨name, emitBase e loc size + off, len⟩
    have hrange : C10.slice (C10.streamBytes (blkOf st) (emitBlocks e loc size).reverse) (emitBase e loc size + off) len =
        (x.drop off).take len := by
      rw [hS0]
      unfold C10.slice
      rw [List.drop_append, List.drop_of_length_le (by omega), List.nil_append]
      congr 2; omega
    have hsbytes : (Seg.stored loc size off len).bytes st = (x.drop off).take len := C08.Seg.bytes_stored hx
    refine ⟨⟨hlen', hblk', ?_⟩, ?_, ?_, ?_⟩
    · exact a3 (emitBase e loc size + size) (fun q hq => by have := hinv.parts q hq; omega) (by simp only []; omega)
    · intro n
      simp only [streamOf]
      rw [a1 n]
      congr 1
      · rw [hX]
        exact contentRev_prefix _ _ n _ (fun p hp => by rw [hSlen]; exact hinv.parts p hp)
      · simp only [partBytes, hrange, hsbytes]
    · intro b hb'
      rcases hnew b hb' with h | ⟨h1, h2⟩
      · exact Or.inl h
      · exact Or.inr ⟨off, len, by rw [h1, h2]⟩
    · intro p hp
      exact a2 p hp

/-! ### a file, a directory -/

theorem emitSegs_spec {st : Store} {name : Bytes} : ∀ (segs : List Seg) (e e' : Emit), EInv st e →
    (∀ s ∈ segs, SegWF max hash st s) → emitSegs name e segs = some e' →
    EInv st e' ∧
    (∀ n, contentRev (streamOf st e') n e'.partsRev =
      contentRev (streamOf st e) n e.partsRev ++ (if name = n then C08.absSegs st segs else [])) ∧
    (∀ b ∈ e'.blocksRev, b ∈ e.blocksRev ∨ ∃ off len, Seg.stored b.text b.size off len ∈ segs) ∧
    (∀ p ∈ e'.partsRev, p.name = name ∨ p ∈ e.partsRev)
  | [], e, e', hinv, _, h => by
    simp only [emitSegs, Option.some.injEq] at h
    subst h
    exact ⟨hinv, fun n => by simp, fun b hb => Or.inl hb, fun p hp => Or.inr hp⟩
  | s :: rest, e, e', hinv, hs, h => by
    unfold emitSegs at h
    cases h1 : emitSeg name e s with
    | none => rw [h1] at h; cases h
    | some e1 =>
      rw [h1] at h
      simp only [] at h
      obtain ⟨a1, a2, a3, a4⟩ := emitSeg_spec (max := max) (hash := hash) hinv (hs s (by simp)) h1
      obtain ⟨b1, b2, b3, b4⟩ := emitSegs_spec rest e1 e' a1 (fun x hx => hs x (List.mem_cons_of_mem _ hx)) h
      refine ⟨b1, ?_, ?_, ?_⟩
      · intro n
        rw [b2 n, a2 n, List.append_assoc]
        congr 1
        by_cases hn : name = n <;> simp [hn]
      · intro b hb
        rcases b3 b hb with h' | ⟨o, l, h'⟩
        · rcases a3 b h' with h'' | ⟨o, l, h''⟩
          · exact Or.inl h''
          · exact Or.inr ⟨o, l, by rw [h'']; simp⟩
        · exact Or.inr ⟨o, l, by simp [h']⟩
      · intro p hp
        rcases b4 p hp with h' | h'
        · exact Or.inl h'
        · exact a4 p h'

theorem emitFile_spec {st : Store} {f : Bytes × FileNode} {e e' : Emit} (hinv : EInv st e)
    (hs : ∀ s ∈ f.2.segs, SegWF max hash st s) (h : emitFile e f = some e') :
    EInv st e' ∧
    (∀ n, contentRev (streamOf st e') n e'.partsRev =
      contentRev (streamOf st e) n e.partsRev ++ (if f.1 = n then C08.abs st f.2 else [])) ∧
    (∀ b ∈ e'.blocksRev, b ∈ e.blocksRev ∨ ∃ off len, Seg.stored b.text b.size off len ∈ f.2.segs) ∧
    (∀ p ∈ e'.partsRev, p.name = f.1 ∨ p ∈ e.partsRev) := by
  unfold emitFile at h
  by_cases hempty : f.2.segs.isEmpty = true
  · rw [if_pos hempty] at h
    simp only [Option.some.injEq] at h
    subst h
    have hnil : f.2.segs = [] := List.isEmpty_iff.mp hempty
    refine ⟨⟨hinv.len, hinv.blk, ?_⟩, ?_, fun b hb => Or.inl hb, ?_⟩
    · intro p hp
      rcases List.mem_cons.mp hp with rfl | hp
      · exact Nat.zero_le _
      · exact hinv.parts p hp
    · intro n
      simp only [streamOf, contentRev, partBytes, C10.slice, List.take_zero, C08.abs, hnil, C08.absSegs_nil]
    · intro p hp
      rcases List.mem_cons.mp hp with rfl | hp
      · exact Or.inl rfl
      · exact Or.inr hp
  · rw [if_neg hempty] at h
    exact emitSegs_spec (max := max) (hash := hash) f.2.segs e e' hinv hs h

theorem emitFiles_spec {st : Store} : ∀ (files : List (Bytes × FileNode)) (e e' : Emit), EInv st e →
    (∀ f ∈ files, ∀ s ∈ f.2.segs, SegWF max hash st s) → emitFiles e files = some e' →
    EInv st e' ∧
    (∀ n, contentRev (streamOf st e') n e'.partsRev =
      contentRev (streamOf st e) n e.partsRev ++ (files.flatMap fun f => if f.1 = n then C08.abs st f.2 else [])) ∧
    (∀ b ∈ e'.blocksRev, b ∈ e.blocksRev ∨ ∃ f ∈ files, ∃ off len, Seg.stored b.text b.size off len ∈ f.2.segs) ∧
    (∀ p ∈ e'.partsRev, (∃ f ∈ files, p.name = f.1) ∨ p ∈ e.partsRev)
  | [], e, e', hinv, _, h => by
    simp only [emitFiles, Option.some.injEq] at h
    subst h
    exact ⟨hinv, fun n => by simp, fun b hb => Or.inl hb, fun p hp => Or.inr hp⟩
  | f :: rest, e, e', hinv, hs, h => by
    unfold emitFiles at h
    cases h1 : emitFile e f with
    | none => rw [h1] at h; cases h
    | some e1 =>
      rw [h1] at h
      simp only [] at h
      obtain ⟨a1, a2, a3, a4⟩ := emitFile_spec (max := max) (hash := hash) hinv (hs f (by simp)) h1
      obtain ⟨b1, b2, b3, b4⟩ := emitFiles_spec rest e1 e' a1 (fun x hx => hs x (List.mem_cons_of_mem _ hx)) h
      refine ⟨b1, ?_, ?_, ?_⟩
      · intro n
        rw [b2 n, a2 n, List.append_assoc]
        simp only [List.flatMap_cons]
      · intro b hb
        rcases b3 b hb with h' | ⟨g, hg, o, l, h'⟩
        · rcases a3 b h' with h'' | ⟨o, l, h''⟩
          · exact Or.inl h''
          · exact Or.inr ⟨f, by simp, o, l, h''⟩
        · exact Or.inr ⟨g, by simp [hg], o, l, h'⟩
      · intro p hp
        rcases b4 p hp with ⟨g, hg, h'⟩ | h'
        · exact Or.inl ⟨g, by simp [hg], h'⟩
        · rcases a4 p h' with h'' | h''
          · exact Or.inl ⟨f, by simp, h''⟩
          · exact Or.inr h''

end ArvVerif.C09
