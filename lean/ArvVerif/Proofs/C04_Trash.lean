/-
C04 sequential layer, proofs: when a trash request may act, what emptying the trash removes, and
for how long a trashed copy can be brought back.
-/
import ArvVerif.Proofs.C04_Hist
namespace ArvVerif.C04

/-! ### preconditions of trashing -/

theorem tiVol_acts (c : Cfg) (now : Time) (h : Hash) (req : Time) (mount : Option Nat) (v : Vol) (h' : Hash)
    (hne : (tiVol c now h req mount v).blocks h' ≠ v.blocks h') :
    h' = h ∧ v.ro = false ∧ c.blobTrash = true ∧ (mount = none ∨ mount = some v.id) ∧
    (tiVol c now h req mount v).blocks h = none ∧
    ∃ f, v.blocks h = some f ∧ f.mtime = req ∧ ¬ (now < f.mtime + c.ttl) := by
  by_cases hsel : tiSelected mount v = true
  · have hm : mount = none ∨ mount = some v.id := by
      simp only [tiSelected, Bool.and_eq_true, Bool.not_eq_true'] at hsel
      cases mount with
      | none => exact Or.inl rfl
      | some m => right; have := hsel.2; simp at this; rw [this]
    cases hf : v.blocks h with
    | none => exact absurd (by simp [tiVol, hsel, hf]) hne
    | some f =>
      by_cases hmt : f.mtime = req ∧ c.blobTrash = true
      · have heq : tiVol c now h req mount v = (Vol.trashBlock c now v h).2 := by
          simp [tiVol, hsel, hf, hmt]
        rw [heq] at hne ⊢
        cases trashBlock_blocks c now v h h' with
        | inl he => exact absurd he hne
        | inr hx =>
          obtain ⟨he, hro, hbt, hnone, f0, hf0, hold⟩ := hx
          rw [hf] at hf0; cases hf0
          exact ⟨he, hro, hbt, hm, hnone, f, rfl, hmt.1, hold⟩
      · exact absurd (by simp [tiVol, hsel, hf, hmt]) hne
  · exact absurd (by simp [tiVol, hsel]) hne

theorem delVol_acts (c : Cfg) (now : Time) (h : Hash) (v : Vol) (h' : Hash)
    (hne : (delVol c now h v).blocks h' ≠ v.blocks h') :
    h' = h ∧ v.ro = false ∧ c.blobTrash = true ∧ (delVol c now h v).blocks h = none ∧
    ∃ f, v.blocks h = some f ∧ ¬ (now < f.mtime + c.ttl) := by
  by_cases hro : v.ro = true
  · exact absurd (by simp [delVol, hro]) hne
  · have heq : delVol c now h v = (Vol.trashBlock c now v h).2 := by simp [delVol, hro]
    rw [heq] at hne ⊢
    cases trashBlock_blocks c now v h h' with
    | inl he => exact absurd he hne
    | inr hx => exact hx

/-- a trashed copy is moved, not destroyed, unless the trash lifetime is zero; its deadline is
`(now + lifetime)` in whole seconds -/
theorem trashBlock_moves (c : Cfg) (now : Time) (v : Vol) (h : Hash) (f : File)
    (hf : v.blocks h = some f) (hgone : (Vol.trashBlock c now v h).2.blocks h = none) (hlife : c.life ≠ 0) :
    { hash := h, deadline := (now + c.life) / c.res, file := f } ∈ (Vol.trashBlock c now v h).2.trash := by
  unfold Vol.trashBlock at hgone ⊢
  by_cases hd : (v.ro || !c.blobTrash) = true
  · rw [if_pos hd] at hgone; rw [hf] at hgone; cases hgone
  · rw [if_neg hd] at hgone ⊢
    simp only [hf] at hgone ⊢
    by_cases hy : young c now f.mtime = true
    · rw [if_pos hy] at hgone; rw [hf] at hgone; cases hgone
    · rw [if_neg hy, if_neg hlife]
      simp [trashInsert, deadlineOf]

/-! ### emptying the trash -/

theorem sweepVol_trash (c : Cfg) (now : Time) (v : Vol) (e : TrashEnt) :
    e ∈ (sweepVol c now v).trash ↔ e ∈ v.trash ∧ (v.ro = true ∨ c.conc < 1 ∨ now / c.res < e.deadline) := by
  unfold sweepVol Vol.emptyTrash
  by_cases hro : v.ro = true
  · simp [hro]
  · by_cases hc : c.conc < 1
    · simp [hro, hc]
    · simp [hro, hc]

/-! ### how long a trashed copy stays restorable -/

/-- writable volume `id` has a trash entry `<h>.trash.<D>` -/
def HasEntry (vs : List Vol) (id : Nat) (h : Hash) (D : Nat) : Prop :=
  ∃ v ∈ vs, v.id = id ∧ v.ro = false ∧ ∃ e ∈ v.trash, e.hash = h ∧ e.deadline = D

def VolHas (v : Vol) (h : Hash) (D : Nat) : Prop := ∃ e ∈ v.trash, e.hash = h ∧ e.deadline = D

/-- F keeps identity, writability and the entry (h, D) of every volume -/
def KeepsEntry (h : Hash) (D : Nat) (v v' : Vol) : Prop :=
  v'.id = v.id ∧ v'.ro = v.ro ∧ (VolHas v h D → VolHas v' h D)

theorem hasEntry_map {vs : List Vol} {F : Vol → Vol} {id : Nat} {h : Hash} {D : Nat}
    (hk : ∀ v ∈ vs, KeepsEntry h D v (F v)) (hh : HasEntry vs id h D) : HasEntry (vs.map F) id h D := by
  obtain ⟨v, hv, hid, hro, he⟩ := hh
  obtain ⟨h1, h2, h3⟩ := hk v hv
  exact ⟨F v, List.mem_map_of_mem hv, by rw [h1, hid], by rw [h2, hro], h3 he⟩

theorem keepsEntry_refl (h : Hash) (D : Nat) (v : Vol) : KeepsEntry h D v v := ⟨rfl, rfl, id⟩

theorem keepsEntry_if {h : Hash} {D : Nat} {v v' : Vol} {p : Prop} [Decidable p]
    (hk : KeepsEntry h D v v') : KeepsEntry h D v (if p then v' else v) := by
  split
  · exact hk
  · exact keepsEntry_refl h D v

theorem keepsEntry_touch (h h0 : Hash) (D : Nat) (now : Time) (v : Vol) :
    KeepsEntry h D v ((v.touch h0 now).getD v) := by
  unfold Vol.touch
  split
  · exact keepsEntry_refl _ _ _
  · split
    · exact keepsEntry_refl _ _ _
    · exact ⟨rfl, rfl, id⟩

theorem keepsEntry_write (h h0 : Hash) (D : Nat) (now : Time) (v : Vol) :
    KeepsEntry h D v (v.write h0 now) := ⟨rfl, rfl, id⟩

theorem volHas_trashInsert {es : List TrashEnt} {e : TrashEnt} {h : Hash} {D : Nat}
    (hh : ∃ x ∈ es, x.hash = h ∧ x.deadline = D) : ∃ x ∈ trashInsert es e, x.hash = h ∧ x.deadline = D := by
  obtain ⟨x, hx, h1, h2⟩ := hh
  by_cases hk : x.hash = e.hash ∧ x.deadline = e.deadline
  · exact ⟨e, by simp [trashInsert], by rw [← hk.1, h1], by rw [← hk.2, h2]⟩
  · refine ⟨x, ?_, h1, h2⟩
    simp only [trashInsert, List.mem_cons, List.mem_filter]
    right
    refine ⟨hx, ?_⟩
    simp only [Bool.not_eq_true', decide_eq_false_iff_not]
    exact hk

theorem keepsEntry_trashBlock (c : Cfg) (now : Time) (v : Vol) (h h0 : Hash) (D : Nat) :
    KeepsEntry h D v (Vol.trashBlock c now v h0).2 := by
  unfold Vol.trashBlock
  split
  · exact keepsEntry_refl _ _ _
  · split
    · exact keepsEntry_refl _ _ _
    · split
      · exact keepsEntry_refl _ _ _
      · split
        · exact ⟨rfl, rfl, id⟩
        · exact ⟨rfl, rfl, fun hh => volHas_trashInsert hh⟩

theorem keepsEntry_delVol (c : Cfg) (now : Time) (v : Vol) (h h0 : Hash) (D : Nat) :
    KeepsEntry h D v (delVol c now h0 v) := by
  unfold delVol
  split
  · exact keepsEntry_refl _ _ _
  · exact keepsEntry_trashBlock c now v h h0 D

theorem keepsEntry_tiVol (c : Cfg) (now : Time) (v : Vol) (h h0 : Hash) (req : Time) (mount : Option Nat) (D : Nat) :
    KeepsEntry h D v (tiVol c now h0 req mount v) := by
  unfold tiVol
  split
  · split
    · split
      · exact keepsEntry_trashBlock c now v h h0 D
      · exact keepsEntry_refl _ _ _
    · exact keepsEntry_refl _ _ _
  · exact keepsEntry_refl _ _ _

theorem keepsEntry_untrashVol (v : Vol) (h h0 : Hash) (D : Nat) (now : Time) (hne : h0 ≠ h) :
    KeepsEntry h D v (untrashVol h0 now v) := by
  unfold untrashVol
  split
  · exact keepsEntry_refl _ _ _
  · unfold Vol.untrash
    split
    · exact keepsEntry_refl _ _ _
    · refine ⟨rfl, rfl, ?_⟩
      intro ⟨x, hx, h1, h2⟩
      refine ⟨x, ?_, h1, h2⟩
      simp only [Option.getD_some, List.mem_filter]
      refine ⟨hx, ?_⟩
      have : x.hash ≠ h0 := by rw [h1]; exact fun e => hne e.symm
      simp [this]

theorem keepsEntry_sweep (c : Cfg) (now : Time) (v : Vol) (h : Hash) (D : Nat) (hD : now / c.res < D) :
    KeepsEntry h D v (sweepVol c now v) := by
  refine ⟨?_, ?_, ?_⟩
  · unfold sweepVol Vol.emptyTrash
    split
    · rfl
    · split <;> rfl
  · unfold sweepVol Vol.emptyTrash
    split
    · rfl
    · split <;> rfl
  · intro ⟨x, hx, h1, h2⟩
    exact ⟨x, (sweepVol_trash c now v x).mpr ⟨hx, Or.inr (Or.inr (by rw [h2]; exact hD))⟩, h1, h2⟩

def NoUntrashOf (h : Hash) : List Op → Prop
  | [] => True
  | .untrash h' :: ops => h' ≠ h ∧ NoUntrashOf h ops
  | _ :: ops => NoUntrashOf h ops

/-- one request other than `untrash h` keeps the entry, unless it is an empty-trash sweep at a time
when the deadline has passed -/
theorem hasEntry_step (c : Cfg) (s : St) (op : Op) (id : Nat) (h : Hash) (D : Nat)
    (hno : ∀ h', op = .untrash h' → h' ≠ h) (hD : s.now / c.res < D) (hh : HasEntry s.vols id h D) :
    HasEntry (step c s op).1.vols id h D := by
  cases op with
  | put h0 goodBody =>
    simp only [step]
    split
    · exact hh
    · split
      · exact hh
      · split
        · exact hasEntry_map (fun v _ => keepsEntry_if (keepsEntry_touch h h0 D s.now v)) hh
        · split
          · split
            · exact hasEntry_map (fun v _ => keepsEntry_if (keepsEntry_write h h0 D s.now v)) hh
            · exact hh
          · exact hh
  | touch h0 =>
    simp only [step]
    split
    · exact hasEntry_map (fun v _ => keepsEntry_if (keepsEntry_touch h h0 D s.now v)) hh
    · exact hh
  | get h0 => exact hh
  | delete h0 =>
    simp only [step]
    split
    · exact hh
    · split
      · exact hh
      · exact hasEntry_map (fun v _ => keepsEntry_delVol c s.now v h h0 D) hh
  | trashItem h0 req mount =>
    simp only [step]
    split
    · exact hh
    · exact hasEntry_map (fun v _ => keepsEntry_tiVol c s.now v h h0 req mount D) hh
  | untrash h0 =>
    simp only [step]
    split
    · exact hh
    · split
      · exact hh
      · exact hasEntry_map (fun v _ => keepsEntry_untrashVol v h h0 D _ (hno h0 rfl)) hh
  | emptyTrash =>
    simp only [step]
    exact hasEntry_map (fun v _ => keepsEntry_sweep c s.now v h D hD) hh
  | tick d => exact hh
  | unauth k => exact hh

theorem div_mono (a b r : Nat) (h : a ≤ b) : a / r ≤ b / r := Nat.div_le_div_right h

/-- over any history without `untrash h`, the entry is still there as long as its deadline (whole
seconds) has not been reached -/
theorem hasEntry_run (c : Cfg) (id : Nat) (h : Hash) (D : Nat) :
    ∀ (ops : List Op) (s : St), NoUntrashOf h ops → HasEntry s.vols id h D →
      (run c s ops).1.now / c.res < D → HasEntry (run c s ops).1.vols id h D := by
  intro ops
  induction ops with
  | nil => intro s _ hh _; exact hh
  | cons op ops ih =>
    intro s hno hh hD
    have hmono : ∀ s' : St, s'.now ≤ (run c s' ops).1.now := by
      intro s'
      clear ih hno hh hD
      induction ops generalizing s' with
      | nil => exact Nat.le_refl _
      | cons o os ih2 =>
        simp only [run]
        exact Nat.le_trans (step_now_ge c s' o) (ih2 _)
    simp only [run] at hD ⊢
    have h1 : s.now / c.res < D :=
      Nat.lt_of_le_of_lt (div_mono _ _ _ (Nat.le_trans (step_now_ge c s op) (hmono _))) hD
    have hno' : (∀ h', op = .untrash h' → h' ≠ h) ∧ NoUntrashOf h ops := by
      cases op <;> simp_all [NoUntrashOf]
    exact ih _ hno'.2 (hasEntry_step c s op id h D hno'.1 h1 hh) hD

theorem minEntry_isSome {h : Hash} {es : List TrashEnt} (hh : ∃ e ∈ es, e.hash = h) :
    (minEntry h es).isSome = true := by
  induction es with
  | nil => obtain ⟨e, he, _⟩ := hh; cases he
  | cons x xs ih =>
    unfold minEntry
    split
    · split
      · split <;> rfl
      · rfl
    · rename_i hx
      obtain ⟨e, he, heh⟩ := hh
      cases he with
      | head => exact absurd heh hx
      | tail _ he' => exact ih ⟨e, he', heh⟩

/-- `untrash h` succeeds and leaves a block file `h` on the volume that had the entry -/
theorem untrash_restores (c : Cfg) (s : St) (id : Nat) (h : Hash) (D : Nat) (hh : HasEntry s.vols id h D) :
    (step c s (.untrash h)).2 = .code 200 ∧
    ∃ v ∈ (step c s (.untrash h)).1.vols, v.id = id ∧ (v.blocks h).isSome = true := by
  obtain ⟨v, hv, hid, hro, e, he, heh, _⟩ := hh
  have hsome : (minEntry h v.trash).isSome = true := minEntry_isSome ⟨e, he, heh⟩
  have hhit : untrashHit h v = true := by
    simp [untrashHit, hro, hsome]
  have hw : (writables s.vols).isEmpty = false := by
    have : v ∈ writables s.vols := by simp [writables, hv, hro]
    cases hws : writables s.vols with
    | nil => rw [hws] at this; cases this
    | cons _ _ => rfl
  have hf : (s.vols.filter (untrashHit h)).isEmpty = false := by
    have : v ∈ s.vols.filter (untrashHit h) := by simp [hv, hhit]
    cases hfs : s.vols.filter (untrashHit h) with
    | nil => rw [hfs] at this; cases this
    | cons _ _ => rfl
  have hstep : step c s (.untrash h) =
      (({ vols := s.vols.map (fun v => untrashVol h (s.now + c.spread * v.id) v),
          now := s.now + c.spread * s.vols.length, rr := s.rr } : St), Res.code 200) := by
    simp [step, hw, hf]
  rw [hstep]
  refine ⟨rfl, untrashVol h (s.now + c.spread * v.id) v, List.mem_map_of_mem (f := fun v => untrashVol h (s.now + c.spread * v.id) v) hv, ?_, ?_⟩
  · obtain ⟨m, hm⟩ := Option.isSome_iff_exists.mp hsome
    simp [untrashVol, hro, Vol.untrash, hm, Vol.setBlock, hid]
  · obtain ⟨m, hm⟩ := Option.isSome_iff_exists.mp hsome
    simp [untrashVol, hro, Vol.untrash, hm, Vol.setBlock]

end ArvVerif.C04
