/-
Generator of `Proofs/C04_RaceTable.lean` (not imported by anything; run by hand after a change of
`Model/C04_Race.lean`):
  cd /verif/lean && lake env lean ArvVerif/Proofs/C04_RaceTableGen.lean
prints the `def row<i>` lines and `def table`.
-/
import ArvVerif.Proofs.C04_RaceCode
namespace ArvVerif.C04.Race

def succsC (n : Nat) : List Nat := let s := decode n; [code (stepP s), code (stepT s)]

def bfsC : Nat → List Nat → List Nat → List Nat
  | 0, _, vis => vis
  | _+1, [], vis => vis
  | k+1, n :: fr, vis => if vis.contains n then bfsC k fr vis else bfsC k (succsC n ++ fr) (n :: vis)

def reachC (c : Cfg) : List Nat := ((bfsC 100000 [code (init c)] []).toArray.qsort (· < ·)).toList

#eval do
  let rows := allCfgs.map reachC
  for (r, i) in rows.zipIdx do
    IO.println s!"def row{i} : List Nat := {r}"
  IO.println ("def table : List (List Nat) := [" ++ ", ".intercalate ((List.range rows.length).map fun i => s!"row{i}") ++ "]")

end ArvVerif.C04.Race
