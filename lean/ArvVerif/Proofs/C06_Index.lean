/-
C06(b) proofs: both index readers reject every proper prefix of a well-formed index response and
accept the complete response with exactly its entries; the producer's response is complete iff
every volume succeeded.
-/
import ArvVerif.Model.C06_Index
namespace ArvVerif.C06

instance {α : Type} [DecidableEq α] : DecidableEq (Except IdxErr α) := fun a b =>
  match a, b with
  | .ok x, .ok y => if h : x = y then isTrue (by rw [h]) else isFalse (by intro h'; cases h'; exact h rfl)
  | .error x, .error y => if h : x = y then isTrue (by rw [h]) else isFalse (by intro h'; cases h'; exact h rfl)
  | .ok _, .error _ => isFalse (by intro h; cases h)
  | .error _, .ok _ => isFalse (by intro h; cases h)

/-- What rejection of truncated responses needs from a line: not empty, no LF, does not start with CR. -/
structure LineOK (l : Line) : Prop where
  ne : l ≠ []
  noNL : 10 ∉ l
  noCRhead : l.head? ≠ some 13

/-! ### bufio.Scanner line splitting -/

theorem scanGo_line (l rest : List Byte) (hl : 10 ∉ l) : ∀ cur,
    scanGo (l ++ 10 :: rest) cur =
      if maxTok ≤ cur.length + l.length then [.tooLong]
      else .line (dropCR (cur.reverse ++ l)) :: scanGo rest [] := by
  induction l with
  | nil => intro cur; simp [scanGo]
  | cons b l ih =>
    intro cur
    have hb : b ≠ 10 := fun h => hl (by simp [h])
    have hl' : 10 ∉ l := fun h => hl (by simp [h])
    simp only [List.cons_append, scanGo, hb, if_false]
    rw [ih hl' (b :: cur)]
    simp only [List.length_cons, List.reverse_cons, List.append_assoc, List.singleton_append]
    have : cur.length + 1 + l.length = cur.length + (l.length + 1) := by omega
    rw [this]

theorem scanGo_tail (l : List Byte) (hl : 10 ∉ l) : ∀ cur,
    scanGo l cur =
      if cur.reverse ++ l = [] then []
      else if maxTok ≤ cur.length + l.length then [.tooLong]
      else [.line (dropCR (cur.reverse ++ l))] := by
  induction l with
  | nil => intro cur; simp [scanGo]
  | cons b l ih =>
    intro cur
    have hb : b ≠ 10 := fun h => hl (by simp [h])
    have hl' : 10 ∉ l := fun h => hl (by simp [h])
    simp only [scanGo, hb, if_false]
    rw [ih hl' (b :: cur)]
    simp only [List.length_cons, List.reverse_cons, List.append_assoc, List.singleton_append]
    have : cur.length + 1 + l.length = cur.length + (l.length + 1) := by omega
    rw [this]

theorem dropCR_ne_nil {l : Line} (hne : l ≠ []) (hh : l.head? ≠ some 13) : dropCR l ≠ [] := by
  unfold dropCR
  split
  · rename_i hlast
    intro hd
    cases l with
    | nil => exact hne rfl
    | cons a t =>
      cases t with
      | nil => simp at hlast; simp [hlast] at hh
      | cons b t' => simp [List.dropLast] at hd
  · exact hne

theorem render_cons (l : Line) (ls : List Line) : render (l :: ls) = l ++ 10 :: render ls := by
  simp [render, List.flatMap_cons, List.append_assoc]

theorem render_nil : render [] = [10] := rfl

/-- A proper prefix of a well-formed response never scans to a blank line. -/
theorem no_blank_in_prefix : ∀ (ls : List Line), (∀ l ∈ ls, LineOK l) →
    ∀ P, P <+: render ls → P ≠ render ls → Tok.line [] ∉ scanLines P := by
  intro ls
  induction ls with
  | nil =>
    intro _ P hp hne
    rw [render_nil] at hp hne
    obtain ⟨t, ht⟩ := hp
    cases P with
    | nil => simp [scanLines, scanGo]
    | cons a P' =>
      simp at ht
      exact absurd (by rw [ht.1, ht.2.1]) hne
  | cons l ls ih =>
    intro hok P hp hne
    have hl := hok l (by simp)
    have hls : ∀ l' ∈ ls, LineOK l' := fun l' h => hok l' (by simp [h])
    rw [render_cons] at hp hne
    obtain ⟨t, ht⟩ := hp
    -- P is a prefix of l, or l ++ "\n" ++ a prefix of the rest
    have hpre : ∀ P', P' <+: l → Tok.line [] ∉ scanLines P' := by
      intro P' ⟨a', ha'⟩
      have hP'nl : 10 ∉ P' := fun h => hl.noNL (by rw [← ha']; simp [h])
      unfold scanLines
      rw [scanGo_tail P' hP'nl []]
      simp only [List.reverse_nil, List.nil_append, List.length_nil, Nat.zero_add]
      split
      · simp
      · rename_i hP'
        split
        · simp
        · simp only [List.mem_singleton, Tok.line.injEq]
          intro h
          refine dropCR_ne_nil hP' ?_ h.symm
          cases P' with
          | nil => exact absurd rfl hP'
          | cons p P'' =>
            have := hl.noCRhead
            rw [← ha'] at this
            simpa using this
    rcases List.append_eq_append_iff.mp ht with ⟨a', ha', _⟩ | ⟨c', hc', hc2⟩
    · exact hpre P ⟨a', ha'.symm⟩
    · cases c' with
      | nil => simp at hc'; exact hpre P ⟨[], by simp [hc']⟩
      | cons x c'' =>
        simp only [List.cons_append, List.cons.injEq] at hc2
        obtain ⟨hx, hrest⟩ := hc2
        subst hx
        subst hc'
        unfold scanLines
        rw [scanGo_line l c'' hl.noNL []]
        simp only [List.length_nil, Nat.zero_add, List.reverse_nil, List.nil_append]
        split
        · simp
        · simp only [List.mem_cons, Tok.line.injEq, not_or]
          refine ⟨fun h => dropCR_ne_nil hl.ne hl.noCRhead h.symm, ?_⟩
          refine ih hls c'' ⟨t, hrest.symm⟩ ?_
          intro heq
          exact hne (by rw [heq])

/-! ### KeepService.index -/

theorem ksLoop_ok_blank : ∀ toks saw acc es, ksLoop toks saw acc = .ok es →
    saw = true ∨ Tok.line [] ∈ toks := by
  intro toks
  induction toks with
  | nil =>
    intro saw acc es h
    simp only [ksLoop] at h
    split at h
    · left; assumption
    · cases h
  | cons t rest ih =>
    intro saw acc es h
    cases t with
    | tooLong => simp [ksLoop] at h
    | line l =>
      simp only [ksLoop] at h
      split at h
      · cases h
      · split at h
        · rename_i hl; right; simp [hl]
        · split at h
          · rcases ih _ _ _ h with h' | h'
            · cases h'
            · right; simp [h']
          · cases h

/-- `KeepService.index` reports an error for every proper prefix of a well-formed response. -/
theorem ksIndex_rejects_prefix (ls : List Line) (hok : ∀ l ∈ ls, LineOK l) (P : List Byte)
    (hp : P <+: render ls) (hne : P ≠ render ls) : ∃ e, ksIndex P = .error e := by
  cases h : ksIndex P with
  | error e => exact ⟨e, rfl⟩
  | ok es =>
    unfold ksIndex at h
    rcases ksLoop_ok_blank _ _ _ _ h with h' | h'
    · cases h'
    · exact absurd h' (no_blank_in_prefix ls hok P hp hne)

/-- What acceptance of the complete response needs in addition: no trailing CR (it would be
dropped), shorter than the scanner's token limit, and `parseLine` yields the entry. -/
structure GoodLine (l : Line) (e : Entry) : Prop where
  ok : LineOK l
  noCRlast : l.getLast? ≠ some 13
  short : l.length < maxTok
  parses : parseLine l = .ok e

/-- pointwise `GoodLine` -/
inductive AllGood : List Line → List Entry → Prop
  | nil : AllGood [] []
  | cons {l e ls es} : GoodLine l e → AllGood ls es → AllGood (l :: ls) (e :: es)

theorem dropCR_id {l : Line} (h : l.getLast? ≠ some 13) : dropCR l = l := by
  unfold dropCR
  split
  · rename_i h'; exact absurd h' h
  · rfl

theorem scanLines_render : ∀ (ls : List Line) (es : List Entry), AllGood ls es →
    scanLines (render ls) = ls.map Tok.line ++ [Tok.line []] := by
  intro ls es h
  induction h with
  | nil => simp [render, scanLines, scanGo, maxTok, dropCR]
  | @cons l e ls es hg _ ih =>
    rw [render_cons]
    unfold scanLines at ih ⊢
    rw [scanGo_line l _ hg.ok.noNL []]
    have : ¬ maxTok ≤ ([] : Line).length + l.length := by have := hg.short; simp; omega
    simp only [this, if_false, List.reverse_nil, List.nil_append, dropCR_id hg.noCRlast, ih]
    simp

theorem ksLoop_accepts : ∀ (ls : List Line) (es : List Entry), AllGood ls es →
    ∀ acc, ksLoop (ls.map Tok.line ++ [Tok.line []]) false acc = .ok (acc.reverse ++ es) := by
  intro ls es h
  induction h with
  | nil => intro acc; simp [ksLoop]
  | @cons l e ls es hg _ ih =>
    intro acc
    simp only [List.map_cons, List.cons_append, ksLoop, Bool.false_eq_true, if_false, hg.ok.ne, hg.parses]
    rw [ih (e :: acc)]
    simp

/-- `KeepService.index` accepts the complete response with exactly its entries. -/
theorem ksIndex_accepts (ls : List Line) (es : List Entry) (h : AllGood ls es) :
    ksIndex (render ls) = .ok es := by
  unfold ksIndex
  rw [scanLines_render ls es h, ksLoop_accepts ls es h []]
  simp

/-! ### KeepClient.GetIndex -/

/-- In a well-formed response two consecutive LFs occur only at the very end. -/
theorem blank_only_at_end : ∀ (ls : List Line), (∀ l ∈ ls, LineOK l) →
    ∀ pre t, render ls = pre ++ 10 :: 10 :: t → t = [] := by
  intro ls
  induction ls with
  | nil =>
    intro _ pre t h
    rw [render_nil] at h
    have := congrArg List.length h
    simp at this
    omega
  | cons l ls ih =>
    intro hok pre t h
    have hl := hok l (by simp)
    have hls : ∀ l' ∈ ls, LineOK l' := fun l' h => hok l' (by simp [h])
    rw [render_cons] at h
    -- a response starting with LF is the empty response
    have hstart : ∀ t', render ls = 10 :: t' → t' = [] := by
      intro t' ht'
      cases ls with
      | nil => rw [render_nil] at ht'; simpa using ht'.symm
      | cons l2 ls2 =>
        rw [render_cons] at ht'
        have h2 := hok l2 (by simp)
        cases l2 with
        | nil => exact absurd rfl h2.ne
        | cons a l2' =>
          simp only [List.cons_append, List.cons.injEq] at ht'
          exact absurd (by simp [ht'.1]) h2.noNL
    rcases List.append_eq_append_iff.mp h with ⟨a', ha', ha2⟩ | ⟨c', hc', hc2⟩
    · -- pre = l ++ a', 10 :: render ls = a' ++ 10 :: 10 :: t
      cases a' with
      | nil =>
        simp only [List.nil_append, List.cons.injEq, true_and] at ha2
        exact hstart t ha2
      | cons x a'' =>
        simp only [List.cons_append, List.cons.injEq] at ha2
        exact ih hls a'' t ha2.2
    · -- l = pre ++ c', 10 :: 10 :: t = c' ++ 10 :: render ls
      cases c' with
      | nil =>
        simp only [List.nil_append, List.cons.injEq, true_and] at hc2
        exact hstart t hc2.symm
      | cons x c'' =>
        simp only [List.cons_append, List.cons.injEq] at hc2
        exact absurd (by rw [hc']; simp [← hc2.1]) hl.noNL

/-- `GetIndex` reports `ErrIncompleteIndex` for every proper prefix of a well-formed response. -/
theorem getIndex_rejects_prefix (ls : List Line) (hok : ∀ l ∈ ls, LineOK l) (P : List Byte)
    (hp : P <+: render ls) (hne : P ≠ render ls) : getIndex P = .error .incomplete := by
  obtain ⟨t, ht⟩ := hp
  have htne : t ≠ [] := by
    intro h; subst h; simp at ht; exact hne ht
  unfold getIndex
  have h1 : P ≠ [10] := by
    intro hP
    subst hP
    cases ls with
    | nil => rw [render_nil] at ht; simp at ht; exact htne ht
    | cons l ls =>
      rw [render_cons] at ht
      have hl := hok l (by simp)
      cases l with
      | nil => exact hl.ne rfl
      | cons a l' =>
        simp only [List.cons_append, List.cons.injEq] at ht
        exact hl.noNL (by simp [← ht.1])
  have h2 : endsWithBlank P ≠ true := by
    intro hb
    unfold endsWithBlank at hb
    obtain ⟨pre, hpre⟩ := List.isSuffixOf_iff_suffix.mp hb
    rw [← hpre] at ht
    simp only [List.append_assoc, List.cons_append, List.nil_append] at ht
    exact htne (blank_only_at_end ls hok pre t ht.symm)
  simp [h1, h2]

theorem flatMap_ends_nl : ∀ (l : Line) (ls : List Line),
    ∃ pre, (l :: ls).flatMap (fun l => l ++ [10]) = pre ++ [10] := by
  intro l ls
  induction ls generalizing l with
  | nil => exact ⟨l, by simp⟩
  | cons l2 ls2 ih2 =>
    obtain ⟨pre, hpre⟩ := ih2 l2
    exact ⟨l ++ [10] ++ pre, by rw [List.flatMap_cons, hpre]; simp⟩

/-- `GetIndex` accepts the complete response and returns it minus the final LF: the lines. -/
theorem getIndex_accepts (ls : List Line) :
    getIndex (render ls) = .ok (ls.flatMap (fun l => l ++ [10])) := by
  unfold getIndex
  have hd : (render ls).dropLast = ls.flatMap (fun l => l ++ [10]) := by
    unfold render; exact List.dropLast_concat
  cases ls with
  | nil => simp [render]
  | cons l ls =>
    have : endsWithBlank (render (l :: ls)) = true := by
      unfold endsWithBlank
      apply List.isSuffixOf_iff_suffix.mpr
      have := flatMap_ends_nl l ls
      obtain ⟨pre, hpre⟩ := this
      exact ⟨pre, by unfold render; rw [hpre]; simp⟩
    rw [hd]
    simp [this]

/-! ### Producer -/

theorem handleIndex_all_ok (vols : List VolOut) (h : ∀ v ∈ vols, v.ok = true) :
    handleIndex vols = vols.flatMap (·.written) ++ [10] := by
  induction vols with
  | nil => rfl
  | cons v rest ih =>
    have hv := h v (by simp)
    simp only [handleIndex, hv, if_true, List.flatMap_cons, List.append_assoc]
    rw [ih (fun v' hv' => h v' (by simp [hv']))]

/-- If some volume fails, the response is what the volumes up to and including the first failing
one wrote — no terminating LF is added. -/
theorem handleIndex_fail (vols : List VolOut) (h : ∃ v ∈ vols, v.ok = false) :
    ∃ (pre : List VolOut) (v : VolOut), v ∈ vols ∧ v.ok = false ∧ (∀ w ∈ pre, w ∈ vols ∧ w.ok = true) ∧
      handleIndex vols = pre.flatMap (·.written) ++ v.written := by
  induction vols with
  | nil => obtain ⟨v, hv, _⟩ := h; simp at hv
  | cons v rest ih =>
    by_cases hv : v.ok = true
    · have : ∃ v' ∈ rest, v'.ok = false := by
        obtain ⟨v', hv', hf⟩ := h
        rcases List.mem_cons.mp hv' with rfl | h'
        · rw [hv] at hf; cases hf
        · exact ⟨v', h', hf⟩
      obtain ⟨pre, w, hw, hwf, hpre, heq⟩ := ih this
      refine ⟨v :: pre, w, by simp [hw], hwf, ?_, ?_⟩
      · intro x hx
        rcases List.mem_cons.mp hx with rfl | hx'
        · exact ⟨by simp, hv⟩
        · exact ⟨by simp [(hpre x hx').1], (hpre x hx').2⟩
      · simp only [handleIndex, hv, if_true, heq, List.flatMap_cons, List.append_assoc]
    · refine ⟨[], v, by simp, by simpa using hv, by simp, ?_⟩
      simp [handleIndex, hv]

/-- A read error is always reported, whatever had arrived before it. -/
theorem ksLoopAbort_error : ∀ toks saw acc, ∃ e, ksLoopAbort toks saw acc = .error e := by
  intro toks
  induction toks with
  | nil => intro saw acc; exact ⟨_, rfl⟩
  | cons t rest ih =>
    intro saw acc
    cases t with
    | tooLong => exact ⟨_, rfl⟩
    | line l =>
      simp only [ksLoopAbort]
      split
      · exact ⟨_, rfl⟩
      · split
        · exact ih _ _
        · split
          · exact ih _ _
          · exact ⟨_, rfl⟩

/-! ### Producer with well-formed volumes -/

/-- One volume's `IndexTo`: complete lines, then (only when it fails) possibly part of a line. -/
structure VolRun where
  lines : List Line
  part : List Byte
  ok : Bool

def VolRun.out (v : VolRun) : VolOut := ⟨v.lines.flatMap (fun l => l ++ [10]) ++ v.part, v.ok⟩

/-- `IndexTo`'s contract (volume.go): only complete `locator+size mtime\n` lines; an incomplete
line can only be the last thing written before an error. -/
structure VolWF (v : VolRun) : Prop where
  lines : ∀ l ∈ v.lines, LineOK l
  partOk : v.ok = true → v.part = []
  partOf : ∃ full, LineOK full ∧ v.part <+: full

theorem render_append (a b : List Line) :
    render (a ++ b) = a.flatMap (fun l => l ++ [10]) ++ render b := by
  simp [render, List.flatMap_append, List.append_assoc]

theorem handleIndex_complete (vs : List VolRun) (hwf : ∀ v ∈ vs, VolWF v) (hok : ∀ v ∈ vs, v.ok = true) :
    handleIndex (vs.map VolRun.out) = render (vs.flatMap (·.lines)) := by
  induction vs with
  | nil => rfl
  | cons v rest ih =>
    have hv := hok v (by simp)
    have hp := (hwf v (by simp)).partOk hv
    simp only [List.map_cons, handleIndex, VolRun.out, hv, if_true, hp, List.append_nil,
      List.flatMap_cons, render_append]
    rw [← ih (fun w hw => hwf w (by simp [hw])) (fun w hw => hok w (by simp [hw]))]

/-- If a volume fails, the response is a proper prefix of some well-formed response. -/
theorem handleIndex_truncated (vs : List VolRun) (hwf : ∀ v ∈ vs, VolWF v) (hf : ∃ v ∈ vs, v.ok = false) :
    ∃ ls, (∀ l ∈ ls, LineOK l) ∧ handleIndex (vs.map VolRun.out) <+: render ls ∧
      handleIndex (vs.map VolRun.out) ≠ render ls := by
  induction vs with
  | nil => obtain ⟨v, hv, _⟩ := hf; simp at hv
  | cons v rest ih =>
    have hv := hwf v (by simp)
    by_cases hvok : v.ok = true
    · have hp := hv.partOk hvok
      have : ∃ w ∈ rest, w.ok = false := by
        obtain ⟨w, hw, hwf'⟩ := hf
        rcases List.mem_cons.mp hw with rfl | h'
        · rw [hvok] at hwf'; cases hwf'
        · exact ⟨w, h', hwf'⟩
      obtain ⟨ls, hls, hpre, hne⟩ := ih (fun w hw => hwf w (by simp [hw])) this
      refine ⟨v.lines ++ ls, ?_, ?_, ?_⟩
      · intro l hl
        rcases List.mem_append.mp hl with h | h
        · exact hv.lines l h
        · exact hls l h
      · simp only [List.map_cons, handleIndex, VolRun.out, hvok, if_true, hp, List.append_nil, render_append]
        exact (List.prefix_append_right_inj _).mpr hpre
      · simp only [List.map_cons, handleIndex, VolRun.out, hvok, if_true, hp, List.append_nil, render_append]
        intro heq
        exact hne (List.append_cancel_left heq)
    · obtain ⟨full, hfull, hpart⟩ := hv.partOf
      refine ⟨v.lines ++ [full], ?_, ?_, ?_⟩
      · intro l hl
        rcases List.mem_append.mp hl with h | h
        · exact hv.lines l h
        · simp at h; rw [h]; exact hfull
      · simp only [List.map_cons, handleIndex, VolRun.out, hvok, if_false, render_append, Bool.false_eq_true]
        apply (List.prefix_append_right_inj _).mpr
        rw [render_cons]
        obtain ⟨t, ht⟩ := hpart
        exact ⟨t ++ 10 :: render [], by rw [← List.append_assoc, ht]⟩
      · simp only [List.map_cons, handleIndex, VolRun.out, hvok, if_false, render_append, Bool.false_eq_true]
        intro heq
        have h2 := List.append_cancel_left heq
        rw [render_cons] at h2
        have := congrArg List.length h2
        have hle := hpart.length_le
        simp [render] at this
        omega

end ArvVerif.C06
