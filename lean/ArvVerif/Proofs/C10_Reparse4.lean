/-
C10 — the whole text `Extract` renders parses back: `StreamIter` over the concatenated lines yields
the rendered streams, and `segment()` of the output resolves every path over them.
-/
import ArvVerif.Proofs.C10_Reparse3
namespace ArvVerif.C10

theorem splitOn_lines (sep : UInt8) : ∀ (lines : List Bytes), (∀ l ∈ lines, sep ∉ l) →
    splitOn sep (lines.flatMap (· ++ [sep])) = lines ++ [[]]
  | [], _ => by simp [splitOn]
  | l :: rest, h => by
    rw [List.flatMap_cons, List.append_assoc, List.singleton_append,
      splitOn_append_sep sep l _ (h l (by simp)), splitOn_lines sep rest (fun x hx => h x (List.mem_cons_of_mem _ hx))]
    rfl

/-- the streams `Extract`'s output text is made of -/
abbrev OutStreams := List (Bytes × List (Bytes × List Seg))

def renderOuts (outs : OutStreams) : Bytes := outs.flatMap fun x => normalizedText x.1 x.2

/-- **the rendered text parses back, stream by stream** -/
theorem pkgStreams_rendered (blk : Bytes → Bytes) (outs : OutStreams)
    (hok : ∀ o ∈ outs, RenderOk blk o.1 o.2) :
    pkgStreams (renderOuts outs) = outs.map fun o => toPStream (normStream o.1 o.2) := by
  -- choose the lines
  have hl : ∀ o ∈ outs, ∃ line, normalizedText o.1 o.2 = line ++ [bNL] ∧ bNL ∉ line ∧ line ≠ [] ∧
      pkgParseStream line = toPStream (normStream o.1 o.2) := fun o ho => reparse_line blk o.1 o.2 (hok o ho)
  have key : ∀ (os : OutStreams), (∀ o ∈ os, o ∈ outs) →
      ∃ lines : List Bytes, renderOuts os = lines.flatMap (· ++ [bNL]) ∧ (∀ l ∈ lines, bNL ∉ l ∧ l ≠ []) ∧
        lines.map pkgParseStream = os.map fun o => toPStream (normStream o.1 o.2) := by
    intro os
    induction os with
    | nil => intro _; exact ⟨[], rfl, by simp, rfl⟩
    | cons o rest ih =>
      intro hm
      obtain ⟨line, h1, h2, h3, h4⟩ := hl o (hm o (by simp))
      obtain ⟨lines, g1, g2, g3⟩ := ih (fun x hx => hm x (List.mem_cons_of_mem _ hx))
      refine ⟨line :: lines, ?_, ?_, ?_⟩
      · unfold renderOuts at g1 ⊢
        rw [List.flatMap_cons, List.flatMap_cons, h1, g1]
      · intro l hl'
        rcases List.mem_cons.mp hl' with rfl | hl'
        · exact ⟨h2, h3⟩
        · exact g2 l hl'
      · simp [h4, g3]
  obtain ⟨lines, g1, g2, g3⟩ := key outs (fun _ h => h)
  unfold pkgStreams
  rw [g1, splitOn_lines bNL lines (fun l hl' => (g2 l hl').1), List.filter_append]
  have hf : lines.filter (fun x => decide (x ≠ [])) = lines := by
    rw [List.filter_eq_self]; intro x hx; simpa using (g2 x hx).2
  rw [hf]
  simp [g3]

end ArvVerif.C10
