/-
C13 helper lemmas, part 5: `collectionFileSystem.Flush` (commitBlock in async mode) as one atomic
step only sets `flushing` fields, extends Keep and the token table; the invariant and the abstract
state are preserved.
-/
import ArvVerif.Proofs.C13_Write
namespace ArvVerif.C13
open ArvVerif.C08

variable {max : Nat} {hash : Bytes → Loc}

/-- setting the `flushing` field of one mem segment -/
theorem setMark_spec {s : St} (hinv : Inv13 max hash s) (f i : Nat) (b : Bytes) (fl' : Flush)
    (hwf : ∀ fl0, SegWF max hash s.fs.world (Seg.mem b fl0) → SegWF max hash s.fs.world (Seg.mem b fl'))
    (hmark : MarkOK max hash s.fs.world s.toks (Seg.mem b fl')) :
    Inv13 max hash { s with fs := setMark s.fs f i b fl' } ∧ absFS (setMark s.fs f i b fl') = absFS s.fs := by
  unfold setMark
  cases hseg : segAt s.fs f i with
  | none => exact ⟨hinv, rfl⟩
  | some sg =>
    cases sg with
    | stored loc size off l => exact ⟨hinv, rfl⟩
    | mem b' fl0 =>
      simp only []
      split
      · next hb =>
        subst hb
        obtain ⟨nf, hf, hi⟩ := segAt_eq hseg
        have hwf0 := (hinv.base.files nf (List.mem_of_getElem? hf)).1.segs _ (List.mem_of_getElem? hi)
        exact hinv.setSeg hf hi rfl rfl (hwf fl0 hwf0) hmark
      · exact ⟨hinv, rfl⟩

theorem staleMarks_spec : ∀ (ms : List (Nat × Nat × Bytes)) {s : St}, Inv13 max hash s →
    Inv13 max hash { s with fs := staleMarks s.fs ms } ∧ absFS (staleMarks s.fs ms) = absFS s.fs := by
  intro ms
  induction ms with
  | nil => intro s hinv; exact ⟨hinv, rfl⟩
  | cons m rest ih =>
    intro s hinv
    obtain ⟨h1, h2⟩ := setMark_spec hinv m.1 m.2.1 m.2.2 Flush.stale (fun _ h => segWF_stale h) trivial
    obtain ⟨h3, h4⟩ := ih h1
    exact ⟨h3, by rw [← h2]; exact h4⟩

/-! ### the tokens of one block -/

/-- the token records `assign` produces, independent of the filesystem -/
def assignToks (block : Bytes) : List (Nat × Nat × Bytes) → Nat → List Tok
  | [], _ => []
  | m :: rest, off => ⟨block, off, none⟩ :: assignToks block rest (off + m.2.2.length)

theorem assign_toks (block : Bytes) : ∀ (ms : List (Nat × Nat × Bytes)) (fs : Conc) (n off : Nat),
    (assign max block fs ms n off).2.1 = assignToks block ms off := by
  intro ms
  induction ms with
  | nil => intro fs n off; rfl
  | cons m rest ih => intro fs n off; simp only [assign, assignToks, ih]

/-- every member's buffer is its piece of the block -/
def Pieces (block : Bytes) : Nat → List (Nat × Nat × Bytes) → Prop
  | _, [] => True
  | off, m :: rest => m.2.2 = (block.drop off).take m.2.2.length ∧ Pieces block (off + m.2.2.length) rest

theorem pieces_flatMap : ∀ (ms : List (Nat × Nat × Bytes)) (pre : Bytes),
    Pieces (pre ++ ms.flatMap (fun m => m.2.2)) pre.length ms := by
  intro ms
  induction ms with
  | nil => intro pre; trivial
  | cons m rest ih =>
    intro pre
    refine ⟨?_, ?_⟩
    · simp only [List.flatMap_cons]
      rw [List.drop_append_of_le_length (Nat.le_refl _), List.drop_length, List.nil_append,
        List.take_append_of_le_length (Nat.le_refl _), List.take_length]
    · have := ih (pre ++ m.2.2)
      simp only [List.flatMap_cons, List.length_append, List.append_assoc] at this ⊢
      exact this

theorem setMark_world (fs : Conc) (f i : Nat) (b : Bytes) (fl : Flush) : (setMark fs f i b fl).world = fs.world := by
  unfold setMark
  split
  · split
    · exact setSegAt_world ..
    · rfl
  · rfl

theorem assign_world (block : Bytes) : ∀ (ms : List (Nat × Nat × Bytes)) (fs : Conc) (n off : Nat),
    (assign max block fs ms n off).1.world = fs.world := by
  intro ms
  induction ms with
  | nil => intro fs n off; rfl
  | cons m rest ih => intro fs n off; simp only [assign]; rw [ih, setMark_world]

/-- `assign` on a state whose token table already holds the block's tokens at positions `n ..` and
whose Keep already holds the block. -/
theorem assign_spec (block : Bytes) : ∀ (ms : List (Nat × Nat × Bytes)) {s : St} (n off : Nat) (pre post : List Tok),
    Inv13 max hash s → s.toks = pre ++ assignToks block ms off ++ post → pre.length = n →
    Pieces block off ms → s.fs.world (hash block) = some block →
    Inv13 max hash { s with fs := (assign max block s.fs ms n off).1 } ∧
    absFS (assign max block s.fs ms n off).1 = absFS s.fs := by
  intro ms
  induction ms with
  | nil => intro s n off pre post hinv _ _ _ _; exact ⟨hinv, rfl⟩
  | cons m rest ih =>
    intro s n off pre post hinv htoks hn hp hw
    simp only [assign]
    have hmark : MarkOK max hash s.fs.world s.toks (Seg.mem m.2.2 (mark max n)) := by
      refine ⟨rfl, ⟨block, off, none⟩, ?_, hp.1, hw⟩
      rw [htoks]
      simp only [assignToks, List.append_assoc, List.cons_append]
      rw [List.getElem?_append_right (by omega)]
      simp [hn]
    obtain ⟨h1, h2⟩ := setMark_spec hinv m.1 m.2.1 m.2.2 (mark max n) (fun _ h => segWF_mark h n) hmark
    have := ih (s := { s with fs := setMark s.fs m.1 m.2.1 m.2.2 (mark max n) }) (n + 1) (off + m.2.2.length)
      (pre ++ [⟨block, off, none⟩]) post h1
      (by show s.toks = _; rw [htoks]; simp only [assignToks, List.append_assoc, List.cons_append, List.nil_append])
      (by simp [hn]) hp.2 (by show (setMark s.fs m.1 m.2.1 m.2.2 (mark max n)).world (hash block) = _; rw [setMark_world]; exact hw)
    exact ⟨this.1, by rw [← h2]; exact this.2⟩

/-- `assign` does not look at Keep -/
theorem setMark_with_world (fs : Conc) (W : Store) (f i : Nat) (b : Bytes) (fl : Flush) :
    setMark { fs with world := W } f i b fl = { setMark fs f i b fl with world := W } := by
  unfold setMark segAt setSegAt setFile
  simp only []
  cases hf : fs.files[f]? with
  | none => rfl
  | some nf =>
    simp only []
    cases hi : nf.2.segs[i]? with
    | none => rfl
    | some sg =>
      cases sg with
      | stored => rfl
      | mem b' fl0 =>
        simp only []
        split <;> rfl

theorem assign_with_world (block : Bytes) (W : Store) : ∀ (ms : List (Nat × Nat × Bytes)) (fs : Conc) (n off : Nat),
    (assign max block { fs with world := W } ms n off).1 = { (assign max block fs ms n off).1 with world := W } := by
  intro ms
  induction ms with
  | nil => intro fs n off; rfl
  | cons m rest ih =>
    intro fs n off
    simp only [assign]
    rw [setMark_with_world, ih]

theorem startGroup_spec (hinj : Function.Injective hash) {s : St} (hinv : Inv13 max hash s) (refs : List (Nat × Nat)) :
    Inv13 max hash (startGroup hash max s refs).1 ∧ absFS (startGroup hash max s refs).1.fs = absFS s.fs := by
  unfold startGroup
  simp only []
  split
  · exact ⟨hinv, rfl⟩
  · cases ha : abortIdx max s (members s.fs refs) 0 with
    | some k =>
      simp only []
      exact staleMarks_spec _ hinv
    | none =>
      simp only []
      obtain ⟨ms, hms⟩ : ∃ ms, ms = members s.fs refs := ⟨_, rfl⟩
      rw [← hms]
      obtain ⟨block, hblock⟩ : ∃ block : Bytes, block = ms.flatMap (fun m => m.2.2) := ⟨_, rfl⟩
      rw [← hblock]
      -- first extend Keep and the token table, then set the marks
      have he : StoreExt s.fs.world (s.fs.world.put hash block) := Store.put_ext hinj hinv.base.ok block
      have hok : StoreOK hash (s.fs.world.put hash block) := Store.put_ok hinv.base.ok block
      have h1 := hinv.ext he hok (assignToks block ms 0)
      have hp : Pieces block 0 ms := by
        have := pieces_flatMap ms []
        simp only [List.nil_append, List.length_nil] at this
        rw [hblock]; exact this
      obtain ⟨s1, hs1⟩ : ∃ s1 : St, s1 = ⟨{ s.fs with world := s.fs.world.put hash block },
        s.toks ++ assignToks block ms 0, s.groups⟩ := ⟨_, rfl⟩
      have h1' : Inv13 max hash s1 := by rw [hs1]; exact h1
      obtain ⟨h2, h3⟩ := assign_spec (max := max) (hash := hash) block ms (s := s1) s.toks.length 0 s.toks [] h1'
        (by rw [hs1]; simp) rfl hp (by rw [hs1]; exact Store.put_get hash _ block)
      rw [hs1] at h2 h3
      simp only [] at h2 h3
      rw [assign_with_world] at h2 h3
      rw [assign_toks, assign_world]
      refine ⟨⟨h2.base, h2.marks⟩, ?_⟩
      show absFS { (assign max block s.fs ms s.toks.length 0).1 with world := Store.put hash s.fs.world block } = _
      rw [h3]
      exact absFS_ext_world hinv.base he

theorem foldl_inv13 {α : Type} (stepf : St × List Group → α → St × List Group)
    (hstep : ∀ acc x, Inv13 max hash acc.1 →
      Inv13 max hash (stepf acc x).1 ∧ absFS (stepf acc x).1.fs = absFS acc.1.fs) :
    ∀ (l : List α) (acc : St × List Group), Inv13 max hash acc.1 →
      Inv13 max hash (l.foldl stepf acc).1 ∧ absFS (l.foldl stepf acc).1.fs = absFS acc.1.fs := by
  intro l
  induction l with
  | nil => intro acc h; exact ⟨h, rfl⟩
  | cons x rest ih =>
    intro acc h
    simp only [List.foldl_cons]
    obtain ⟨h1, h2⟩ := hstep acc x h
    obtain ⟨h3, h4⟩ := ih _ h1
    exact ⟨h3, by rw [h4, h2]⟩

theorem flushDirAsync_spec (hinj : Function.Injective hash) (short : Bool) (acc : St × List Group) (d : Nat)
    (hinv : Inv13 max hash acc.1) :
    Inv13 max hash (flushDirAsync hash max short acc d).1 ∧
    absFS (flushDirAsync hash max short acc d).1.fs = absFS acc.1.fs := by
  unfold flushDirAsync
  simp only []
  apply foldl_inv13
  · intro a g ha
    obtain ⟨h1, h2⟩ := startGroup_spec hinj ha (g.filterMap (fun r =>
      ((List.filterMap (fun e => Option.map (fun nf => (e.2, nf.2)) acc.1.fs.files[e.2]?) (sortedFiles acc.1.fs d))[r.1]?).map
        (fun p => (p.1, r.2))))
    split <;> exact ⟨h1, h2⟩
  · exact hinv

theorem doFlushAsync_spec (hinj : Function.Injective hash) {s : St} (hinv : Inv13 max hash s) (path : String) (short : Bool) :
    Inv13 max hash (doFlushAsync hash max s path short).1 ∧
    absFS (doFlushAsync hash max s path short).1.fs = absFS s.fs ∧
    (doFlushAsync hash max s path short).2.1 = flushRes (absFS s.fs) path := by
  unfold doFlushAsync
  simp only []
  obtain ⟨h1, h2⟩ := foldl_inv13 (flushDirAsync hash max short) (flushDirAsync_spec hinj short)
    (flushDirs s.fs path) (s, []) hinv
  exact ⟨⟨h1.base, h1.marks⟩, h2, rfl⟩

end ArvVerif.C13
