/-
C04 sequential layer, proofs: the protection invariant over arbitrary request histories, the
preconditions of trashing, and the trash-lifetime guarantees.
-/
import ArvVerif.Model.C04
namespace ArvVerif.C04

/-! ### ghost state: when was each hash last acknowledged -/

/-- last acknowledgement of a hash: its time, and whether it was a PUT (which vouches for the
content) or a TOUCH (which does not look at the content) -/
abbrev Ghost := Hash → Option (Time × Bool)

/-- the hash a request acknowledges (PUT with the right body / TOUCH answered 200) -/
def ackOf : Op → Res → Option (Hash × Bool)
  | .put h true, .code 200 => some (h, true)
  | .touch h, .code 200 => some (h, false)
  | _, _ => none

def ghostStep (g : Ghost) (now : Time) (op : Op) (r : Res) : Ghost :=
  match ackOf op r with
  | some (h, p) => fun h' => if h' = h then some (now, p) else g h'
  | none => g

def runG (c : Cfg) : St → Ghost → List Op → St × Ghost
  | s, g, [] => (s, g)
  | s, g, op :: ops => runG c (step c s op).1 (ghostStep g s.now op (step c s op).2) ops

/-- some volume holds a copy of `h` stamped at or after `t` (an intact one if `p`) -/
def HoldsL (vs : List Vol) (h : Hash) (t : Time) (p : Bool) : Prop :=
  ∃ v ∈ vs, ∃ f, v.blocks h = some f ∧ t ≤ f.mtime ∧ (p = true → f.good = true)

/-- THE invariant: every acknowledged hash whose TTL has not run out is still on the server, with a
timestamp not older than the acknowledgement (and, after a PUT, with intact content) -/
def Prot (c : Cfg) (s : St) (g : Ghost) : Prop :=
  ∀ h t p, g h = some (t, p) → t ≤ s.now ∧ (s.now < t + c.ttl → HoldsL s.vols h t p)

/-- the history never lets `untrash` rename a trashed copy over an existing block file -/
def SafeOp (s : St) : Op → Prop
  | .untrash h => ∀ v ∈ s.vols, v.ro = false → v.blocks h = none ∨ minEntry h v.trash = none
  | _ => True

def SafeOps (c : Cfg) : St → List Op → Prop
  | _, [] => True
  | s, op :: ops => SafeOp s op ∧ SafeOps c (step c s op).1 ops

def Keeps (h : Hash) (t : Time) (v v' : Vol) : Prop :=
  ∀ f, v.blocks h = some f → t ≤ f.mtime → ∃ f', v'.blocks h = some f' ∧ t ≤ f'.mtime ∧ (f.good = true → f'.good = true)

theorem keeps_refl (h : Hash) (t : Time) (v : Vol) : Keeps h t v v := fun f hf ht => ⟨f, hf, ht, id⟩

theorem holds_map {vs : List Vol} {F : Vol → Vol} {h : Hash} {t : Time} {p : Bool}
    (hk : ∀ v ∈ vs, Keeps h t v (F v)) (hh : HoldsL vs h t p) : HoldsL (vs.map F) h t p := by
  obtain ⟨v, hv, f, hf, ht, hg⟩ := hh
  obtain ⟨f', hf', ht', hg'⟩ := hk v hv f hf ht
  exact ⟨F v, List.mem_map_of_mem hv, f', hf', ht', fun hp => hg' (hg hp)⟩

theorem prot_map {c : Cfg} {s : St} {g : Ghost} (hp : Prot c s g) (F : Vol → Vol) (rr' : Nat)
    (hk : ∀ h t p, g h = some (t, p) → s.now < t + c.ttl → ∀ v ∈ s.vols, Keeps h t v (F v)) :
    Prot c { vols := s.vols.map F, now := s.now, rr := rr' } g := by
  intro h t p hg
  obtain ⟨h1, h2⟩ := hp h t p hg
  exact ⟨h1, fun hlt => holds_map (hk h t p hg hlt) (h2 hlt)⟩

/-- acknowledging `h` now: allowed when a copy stamped `now` exists (intact, for a PUT) -/
theorem prot_ack {c : Cfg} {s : St} {g : Ghost} (hp : Prot c s g) (h : Hash) (p : Bool)
    (hh : HoldsL s.vols h s.now p) :
    Prot c s (fun h' => if h' = h then some (s.now, p) else g h') := by
  intro h' t p' hg
  by_cases he : h' = h
  · subst he
    simp only [if_true, Option.some.injEq, Prod.mk.injEq] at hg
    obtain ⟨h1, h2⟩ := hg
    subst h1; subst h2
    exact ⟨Nat.le_refl _, fun _ => hh⟩
  · simp only [he, if_false] at hg
    exact hp h' t p' hg

/-! ### per-volume lemmas -/

theorem setBlock_same (v : Vol) (h : Hash) (x : Option File) : (v.setBlock h x).blocks h = x := by
  simp [Vol.setBlock]

theorem setBlock_other (v : Vol) {h h' : Hash} (x : Option File) (hne : h' ≠ h) :
    (v.setBlock h x).blocks h' = v.blocks h' := by
  simp [Vol.setBlock, hne]

theorem keeps_touch (h h' : Hash) (t now : Time) (v : Vol) (ht : t ≤ now) :
    Keeps h' t v ((v.touch h now).getD v) := by
  intro f hf hft
  unfold Vol.touch
  split
  · exact ⟨f, hf, hft, id⟩
  · split
    · exact ⟨f, hf, hft, id⟩
    · rename_i f0 hf0
      by_cases he : h' = h
      · subst he
        rw [hf] at hf0
        cases hf0
        exact ⟨{ f with mtime := now }, by simp [Vol.setBlock], ht, id⟩
      · exact ⟨f, by simpa [Vol.setBlock, he] using hf, hft, id⟩

theorem keeps_write (h h' : Hash) (t now : Time) (v : Vol) (ht : t ≤ now) :
    Keeps h' t v (v.write h now) := by
  intro f hf hft
  by_cases he : h' = h
  · subst he
    exact ⟨{ good := true, mtime := now }, by simp [Vol.write, Vol.setBlock], ht, fun _ => rfl⟩
  · exact ⟨f, by simpa [Vol.write, Vol.setBlock, he] using hf, hft, id⟩

theorem keeps_if {h : Hash} {t : Time} {v : Vol} {p : Prop} [Decidable p] {v' : Vol}
    (hk : Keeps h t v v') : Keeps h t v (if p then v' else v) := by
  split
  · exact hk
  · exact keeps_refl h t v

/-- what Trash may change: only the copy of `h`, and only when it is at least TTL old -/
theorem trashBlock_blocks (c : Cfg) (now : Time) (v : Vol) (h h' : Hash) :
    ((Vol.trashBlock c now v h).2.blocks h' = v.blocks h') ∨
    (h' = h ∧ v.ro = false ∧ c.blobTrash = true ∧ (Vol.trashBlock c now v h).2.blocks h = none ∧
      ∃ f, v.blocks h = some f ∧ ¬ (now < f.mtime + c.ttl)) := by
  unfold Vol.trashBlock
  split
  · exact Or.inl rfl
  · rename_i hro
    simp only [Bool.or_eq_true, Bool.not_eq_true', not_or, Bool.not_eq_true, Bool.not_eq_false] at hro
    split
    · exact Or.inl rfl
    · rename_i f hf
      split
      · exact Or.inl rfl
      · rename_i hy
        simp only [young, decide_eq_true_eq] at hy
        by_cases he : h' = h
        · subst he
          refine Or.inr ⟨rfl, hro.1, hro.2, ?_, f, hf, hy⟩
          split <;> simp [Vol.setBlock]
        · refine Or.inl ?_
          split <;> simp [Vol.setBlock, he]

theorem keeps_trashBlock (c : Cfg) (now : Time) (v : Vol) (h h' : Hash) (t : Time)
    (hlt : now < t + c.ttl) : Keeps h' t v (Vol.trashBlock c now v h).2 := by
  intro f hf hft
  cases trashBlock_blocks c now v h h' with
  | inl heq => exact ⟨f, by rw [heq]; exact hf, hft, id⟩
  | inr hx =>
    obtain ⟨he, _, _, _, f0, hf0, hold⟩ := hx
    subst he
    rw [hf] at hf0
    cases hf0
    exact absurd (Nat.lt_of_lt_of_le hlt (Nat.add_le_add_right hft _)) hold

theorem keeps_delVol (c : Cfg) (now : Time) (v : Vol) (h h' : Hash) (t : Time)
    (hlt : now < t + c.ttl) : Keeps h' t v (delVol c now h v) := by
  unfold delVol
  split
  · exact keeps_refl _ _ _
  · exact keeps_trashBlock c now v h h' t hlt

theorem keeps_tiVol (c : Cfg) (now : Time) (v : Vol) (h h' : Hash) (req : Time) (mount : Option Nat)
    (t : Time) (hlt : now < t + c.ttl) : Keeps h' t v (tiVol c now h req mount v) := by
  unfold tiVol
  split
  · split
    · split
      · exact keeps_trashBlock c now v h h' t hlt
      · exact keeps_refl _ _ _
    · exact keeps_refl _ _ _
  · exact keeps_refl _ _ _

theorem emptyTrash_blocks (c : Cfg) (now : Time) (v : Vol) : (v.emptyTrash c now).blocks = v.blocks := by
  unfold Vol.emptyTrash
  split <;> rfl

theorem sweepVol_blocks (c : Cfg) (now : Time) (v : Vol) : (sweepVol c now v).blocks = v.blocks := by
  unfold sweepVol
  split
  · rfl
  · exact emptyTrash_blocks c now v

theorem keeps_sweep (c : Cfg) (now : Time) (v : Vol) (h : Hash) (t : Time) : Keeps h t v (sweepVol c now v) := by
  intro f hf hft
  exact ⟨f, by rw [sweepVol_blocks]; exact hf, hft, id⟩

theorem keeps_untrashVol (v : Vol) (h h' : Hash) (t : Time)
    (hsafe : v.ro = false → v.blocks h = none ∨ minEntry h v.trash = none) :
    Keeps h' t v (untrashVol h v) := by
  intro f hf hft
  unfold untrashVol
  split
  · exact ⟨f, hf, hft, id⟩
  · rename_i hro
    have hro' : v.ro = false := by simpa using hro
    unfold Vol.untrash
    cases hsafe hro' with
    | inr hnone => simp only [hnone, Option.getD_none]; exact ⟨f, hf, hft, id⟩
    | inl hb =>
      split
      · exact ⟨f, hf, hft, id⟩
      · simp only [Option.getD_some]
        have hne : h' ≠ h := by
          intro he; subst he; rw [hb] at hf; cases hf
        exact ⟨f, by simpa [Vol.setBlock, hne] using hf, hft, id⟩

/-! ### server-level lemmas -/

theorem mem_writables {vs : List Vol} {v : Vol} (h : v ∈ writables vs) : v ∈ vs ∧ v.ro = false := by
  simp only [writables, List.mem_filter, Bool.not_eq_true'] at h
  exact h

theorem compareAndTouch_some {now : Time} {h : Hash} {ws : List Vol} {id : Nat}
    (hc : compareAndTouch now h ws = some id) :
    ∃ v ∈ ws, v.id = id ∧ ∃ f, v.blocks h = some f ∧ f.good = true := by
  induction ws with
  | nil => simp [compareAndTouch] at hc
  | cons w ws ih =>
    unfold compareAndTouch at hc
    split at hc
    · rename_i f hf
      split at hc
      · rename_i hg
        simp only [Option.some.injEq] at hc
        exact ⟨w, List.mem_cons_self, hc, f, hf, hg⟩
      · obtain ⟨v, hv, hx⟩ := ih hc
        exact ⟨v, List.mem_cons_of_mem _ hv, hx⟩
    · obtain ⟨v, hv, hx⟩ := ih hc
      exact ⟨v, List.mem_cons_of_mem _ hv, hx⟩

theorem firstHolding_some {h : Hash} {ws : List Vol} {id : Nat} (hc : firstHolding h ws = some id) :
    ∃ v ∈ ws, v.id = id ∧ ∃ f, v.blocks h = some f := by
  induction ws with
  | nil => simp [firstHolding] at hc
  | cons w ws ih =>
    unfold firstHolding at hc
    split at hc
    · rename_i hs
      simp only [Option.some.injEq] at hc
      obtain ⟨f, hf⟩ := Option.isSome_iff_exists.mp hs
      exact ⟨w, List.mem_cons_self, hc, f, hf⟩
    · obtain ⟨v, hv, hx⟩ := ih hc
      exact ⟨v, List.mem_cons_of_mem _ hv, hx⟩

/-- after touching the volumes with id `id`, a copy of `h` stamped `now` exists -/
theorem holds_after_touch {vs : List Vol} {v : Vol} {h : Hash} {now : Time} {f : File} {p : Bool}
    (hv : v ∈ vs) (hro : v.ro = false) (hf : v.blocks h = some f) (hg : p = true → f.good = true) :
    HoldsL (updVol vs v.id (fun w => (w.touch h now).getD w)) h now p := by
  refine ⟨(v.touch h now).getD v, ?_, { f with mtime := now }, ?_, Nat.le_refl _, hg⟩
  · unfold updVol
    have := List.mem_map_of_mem (f := fun w => if w.id = v.id then (w.touch h now).getD w else w) hv
    simpa using this
  · simp [Vol.touch, hro, hf, Vol.setBlock]

theorem holds_after_write {vs : List Vol} {v : Vol} {h : Hash} {now : Time} {p : Bool} (hv : v ∈ vs) :
    HoldsL (updVol vs v.id (fun w => w.write h now)) h now p := by
  refine ⟨v.write h now, ?_, { good := true, mtime := now }, ?_, Nat.le_refl _, fun _ => rfl⟩
  · unfold updVol
    have := List.mem_map_of_mem (f := fun w => if w.id = v.id then w.write h now else w) hv
    simpa using this
  · simp [Vol.write, Vol.setBlock]

/-! ### one request preserves the invariant -/

theorem step_now_ge (c : Cfg) (s : St) (op : Op) : s.now ≤ (step c s op).1.now := by
  cases op <;> simp only [step] <;> (repeat' split) <;> simp

theorem prot_step {c : Cfg} {s : St} {g : Ghost} (hp : Prot c s g) (op : Op) (hsafe : SafeOp s op) :
    Prot c (step c s op).1 (ghostStep g s.now op (step c s op).2) := by
  have hle : ∀ h t p, g h = some (t, p) → t ≤ s.now := fun h t p hg => (hp h t p hg).1
  cases op with
  | put h goodBody =>
    simp only [step]
    split
    · simpa [ghostStep, ackOf] using hp
    · split
      · simpa [ghostStep, ackOf] using hp
      · rename_i hgb
        have hgb' : goodBody = true := by simpa using hgb
        subst hgb'
        split
        · -- compare-and-touch
          rename_i id hcat
          obtain ⟨v, hvw, hid, f, hf, hgood⟩ := compareAndTouch_some hcat
          obtain ⟨hv, hro⟩ := mem_writables hvw
          subst hid
          have h1 : Prot c { vols := s.vols.map (fun w => if w.id = v.id then (w.touch h s.now).getD w else w),
                             now := s.now, rr := s.rr } g :=
            prot_map hp _ _ (fun h' t p hg _ w _ => keeps_if (keeps_touch h h' t s.now w (hle h' t p hg)))
          simp only [ghostStep, ackOf]
          exact prot_ack (s := { vols := _, now := s.now, rr := s.rr }) h1 h true
            (holds_after_touch hv hro hf (fun _ => hgood))
        · split
          · rename_i w hw
            have hwm : w ∈ writables s.vols := List.mem_of_getElem? hw
            obtain ⟨hv, _⟩ := mem_writables hwm
            have h1 : Prot c { vols := s.vols.map (fun x => if x.id = w.id then x.write h s.now else x),
                               now := s.now, rr := s.rr + 1 } g :=
              prot_map hp _ _ (fun h' t p hg _ x _ => keeps_if (keeps_write h h' t s.now x (hle h' t p hg)))
            simp only [ghostStep, ackOf]
            exact prot_ack (s := { vols := _, now := s.now, rr := s.rr + 1 }) h1 h true (holds_after_write hv)
          · simpa [ghostStep, ackOf] using hp
  | touch h =>
    simp only [step]
    split
    · rename_i id hfh
      obtain ⟨v, hvw, hid, f, hf⟩ := firstHolding_some hfh
      obtain ⟨hv, hro⟩ := mem_writables hvw
      subst hid
      have h1 : Prot c { vols := s.vols.map (fun w => if w.id = v.id then (w.touch h s.now).getD w else w),
                         now := s.now, rr := s.rr } g :=
        prot_map hp _ _ (fun h' t p hg _ w _ => keeps_if (keeps_touch h h' t s.now w (hle h' t p hg)))
      simp only [ghostStep, ackOf]
      exact prot_ack (s := { vols := _, now := s.now, rr := s.rr }) h1 h false
        (holds_after_touch hv hro hf (fun hc => by cases hc))
    · simpa [ghostStep, ackOf] using hp
  | get h => simpa [step, ghostStep, ackOf] using hp
  | delete h =>
    simp only [step]
    split
    · simpa [ghostStep, ackOf] using hp
    · split
      · simpa [ghostStep, ackOf] using hp
      · simp only [ghostStep, ackOf]
        exact prot_map hp _ _ (fun h' t _ _ hlt v _ => keeps_delVol c s.now v h h' t hlt)
  | trashItem h req mount =>
    simp only [step]
    split
    · simpa [ghostStep, ackOf] using hp
    · simp only [ghostStep, ackOf]
      exact prot_map hp _ _ (fun h' t _ _ hlt v _ => keeps_tiVol c s.now v h h' req mount t hlt)
  | untrash h =>
    simp only [step]
    split
    · simpa [ghostStep, ackOf] using hp
    · split
      · simpa [ghostStep, ackOf] using hp
      · simp only [ghostStep, ackOf]
        exact prot_map hp _ _ (fun h' t _ _ _ v hv => keeps_untrashVol v h h' t (hsafe v hv))
  | emptyTrash =>
    simp only [step, ghostStep, ackOf]
    exact prot_map hp _ _ (fun h' t _ _ _ v _ => keeps_sweep c s.now v h' t)
  | tick d =>
    simp only [step, ghostStep, ackOf]
    intro h t p hg
    obtain ⟨h1, h2⟩ := hp h t p hg
    exact ⟨Nat.le_trans h1 (Nat.le_add_right _ _), fun hlt => h2 (Nat.lt_of_le_of_lt (Nat.le_add_right _ _) hlt)⟩
  | unauth k => simpa [step, ghostStep, ackOf] using hp

theorem prot_run {c : Cfg} : ∀ (ops : List Op) (s : St) (g : Ghost), Prot c s g → SafeOps c s ops →
    Prot c (runG c s g ops).1 (runG c s g ops).2 := by
  intro ops
  induction ops with
  | nil => intro s g hp _; exact hp
  | cons op ops ih =>
    intro s g hp hs
    exact ih _ _ (prot_step hp op hs.1) hs.2

/-- GetBlock answers 200 as soon as some volume holds an intact copy -/
theorem getStatus_200 {h : Hash} : ∀ (vs : List Vol) (acc : Nat),
    (∃ v ∈ vs, ∃ f, v.blocks h = some f ∧ f.good = true) → getStatus h vs acc = 200 := by
  intro vs
  induction vs with
  | nil => intro _ ⟨v, hv, _⟩; cases hv
  | cons w ws ih =>
    intro acc ⟨v, hv, f, hf, hg⟩
    unfold getStatus
    cases hw : w.blocks h with
    | some fw =>
      by_cases hgw : fw.good = true
      · simp [hgw]
      · simp only [hgw, Bool.false_eq_true, if_false]
        cases hv with
        | head => rw [hw] at hf; cases hf; exact absurd hg hgw
        | tail _ hv' => exact ih _ ⟨v, hv', f, hf, hg⟩
    | none =>
      simp only
      cases hv with
      | head => rw [hw] at hf; cases hf
      | tail _ hv' => exact ih _ ⟨v, hv', f, hf, hg⟩

end ArvVerif.C04
