/-
C04 sequential layer, proofs: the protection invariant over arbitrary request histories, the
preconditions of trashing, and the trash-lifetime guarantees.
-/
import ArvVerif.Model.C04
namespace ArvVerif.C04

/-! ### ghost state: when was each hash last acknowledged -/

abbrev Ghost := Hash → Option Time

/-- the hash a request acknowledges (PUT with the right body / TOUCH answered 200) -/
def ackOf : Op → Res → Option Hash
  | .put h true, .code 200 => some h
  | .touch h, .code 200 => some h
  | _, _ => none

def ghostStep (g : Ghost) (now : Time) (op : Op) (r : Res) : Ghost :=
  match ackOf op r with
  | some h => fun h' => if h' = h then some now else g h'
  | none => g

def runG (c : Cfg) : St → Ghost → List Op → St × Ghost
  | s, g, [] => (s, g)
  | s, g, op :: ops => runG c (step c s op).1 (ghostStep g s.now op (step c s op).2) ops

/-- some volume holds a copy of `h` stamped at or after `t` -/
def HoldsL (vs : List Vol) (h : Hash) (t : Time) : Prop :=
  ∃ v ∈ vs, ∃ f, v.blocks h = some f ∧ t ≤ f.mtime

/-- THE invariant: every acknowledged hash whose TTL has not run out is still on the server, with a
timestamp not older than the acknowledgement -/
def Prot (c : Cfg) (s : St) (g : Ghost) : Prop :=
  ∀ h t, g h = some t → t ≤ s.now ∧ (s.now < t + c.ttl → HoldsL s.vols h t)

def Keeps (h : Hash) (t : Time) (v v' : Vol) : Prop :=
  ∀ f, v.blocks h = some f → t ≤ f.mtime → ∃ f', v'.blocks h = some f' ∧ t ≤ f'.mtime

theorem keeps_refl (h : Hash) (t : Time) (v : Vol) : Keeps h t v v := fun f hf ht => ⟨f, hf, ht⟩

theorem holds_map {vs : List Vol} {F : Vol → Vol} {h : Hash} {t : Time}
    (hk : ∀ v ∈ vs, Keeps h t v (F v)) (hh : HoldsL vs h t) : HoldsL (vs.map F) h t := by
  obtain ⟨v, hv, f, hf, ht⟩ := hh
  obtain ⟨f', hf', ht'⟩ := hk v hv f hf ht
  exact ⟨F v, List.mem_map_of_mem hv, f', hf', ht'⟩

theorem prot_map' {c : Cfg} {s : St} {g : Ghost} (hp : Prot c s g) (F : Vol → Vol) (rr' now' : Nat)
    (hnow : s.now ≤ now')
    (hk : ∀ h t, g h = some t → s.now < t + c.ttl → ∀ v ∈ s.vols, Keeps h t v (F v)) :
    Prot c { vols := s.vols.map F, now := now', rr := rr' } g := by
  intro h t hg
  obtain ⟨h1, h2⟩ := hp h t hg
  exact ⟨Nat.le_trans h1 hnow, fun hlt => holds_map (hk h t hg (Nat.lt_of_le_of_lt hnow hlt)) (h2 (Nat.lt_of_le_of_lt hnow hlt))⟩

theorem prot_map {c : Cfg} {s : St} {g : Ghost} (hp : Prot c s g) (F : Vol → Vol) (rr' : Nat)
    (hk : ∀ h t, g h = some t → s.now < t + c.ttl → ∀ v ∈ s.vols, Keeps h t v (F v)) :
    Prot c { vols := s.vols.map F, now := s.now, rr := rr' } g :=
  prot_map' hp F rr' s.now (Nat.le_refl _) hk

/-- acknowledging `h` now: allowed when a copy stamped `now` exists -/
theorem prot_ack {c : Cfg} {s : St} {g : Ghost} (hp : Prot c s g) (h : Hash) (hh : HoldsL s.vols h s.now) :
    Prot c s (fun h' => if h' = h then some s.now else g h') := by
  intro h' t hg
  by_cases he : h' = h
  · subst he
    simp only [if_true, Option.some.injEq] at hg
    subst hg
    exact ⟨Nat.le_refl _, fun _ => hh⟩
  · simp only [he, if_false] at hg
    exact hp h' t hg

/-! ### per-volume lemmas -/

theorem setBlock_same (v : Vol) (h : Hash) (x : Option File) : (v.setBlock h x).blocks h = x := by
  simp [Vol.setBlock]

theorem setBlock_other (v : Vol) {h h' : Hash} (x : Option File) (hne : h' ≠ h) :
    (v.setBlock h x).blocks h' = v.blocks h' := by
  simp [Vol.setBlock, hne]

theorem keeps_touch (h h' : Hash) (t now : Time) (v : Vol) (ht : t ≤ now) :
    Keeps h' t v ((v.touch h now).getD v) := by
  intro f hf hft
  unfold Vol.touch
  split
  · exact ⟨f, hf, hft⟩
  · split
    · exact ⟨f, hf, hft⟩
    · rename_i f0 hf0
      by_cases he : h' = h
      · subst he
        exact ⟨{ f0 with mtime := now }, by simp [Vol.setBlock], ht⟩
      · exact ⟨f, by simpa [Vol.setBlock, he] using hf, hft⟩

theorem keeps_write (h h' : Hash) (t now : Time) (v : Vol) (ht : t ≤ now) :
    Keeps h' t v (v.write h now) := by
  intro f hf hft
  by_cases he : h' = h
  · subst he
    exact ⟨{ good := true, mtime := now }, by simp [Vol.write, Vol.setBlock], ht⟩
  · exact ⟨f, by simpa [Vol.write, Vol.setBlock, he] using hf, hft⟩

theorem keeps_if {h : Hash} {t : Time} {v : Vol} {p : Prop} [Decidable p] {v' : Vol}
    (hk : Keeps h t v v') : Keeps h t v (if p then v' else v) := by
  split
  · exact hk
  · exact keeps_refl h t v

/-- what Trash may change: only the copy of `h`, and only when it is at least TTL old -/
theorem trashBlock_blocks (c : Cfg) (now : Time) (v : Vol) (h h' : Hash) :
    ((Vol.trashBlock c now v h).2.blocks h' = v.blocks h') ∨
    (h' = h ∧ v.ro = false ∧ c.blobTrash = true ∧ (Vol.trashBlock c now v h).2.blocks h = none ∧
      ∃ f, v.blocks h = some f ∧ ¬ (now < f.mtime + c.ttl)) := by
  unfold Vol.trashBlock
  split
  · exact Or.inl rfl
  · rename_i hro
    simp only [Bool.or_eq_true, Bool.not_eq_true', not_or, Bool.not_eq_true, Bool.not_eq_false] at hro
    split
    · exact Or.inl rfl
    · rename_i f hf
      split
      · exact Or.inl rfl
      · rename_i hy
        simp only [young, decide_eq_true_eq] at hy
        by_cases he : h' = h
        · subst he
          refine Or.inr ⟨rfl, hro.1, hro.2, ?_, f, hf, hy⟩
          split <;> simp [Vol.setBlock]
        · refine Or.inl ?_
          split <;> simp [Vol.setBlock, he]

theorem keeps_trashBlock (c : Cfg) (now : Time) (v : Vol) (h h' : Hash) (t : Time)
    (hlt : now < t + c.ttl) : Keeps h' t v (Vol.trashBlock c now v h).2 := by
  intro f hf hft
  cases trashBlock_blocks c now v h h' with
  | inl heq => exact ⟨f, by rw [heq]; exact hf, hft⟩
  | inr hx =>
    obtain ⟨he, _, _, _, f0, hf0, hold⟩ := hx
    subst he
    rw [hf] at hf0
    cases hf0
    exact absurd (Nat.lt_of_lt_of_le hlt (Nat.add_le_add_right hft _)) hold

theorem keeps_delVol (c : Cfg) (now : Time) (v : Vol) (h h' : Hash) (t : Time)
    (hlt : now < t + c.ttl) : Keeps h' t v (delVol c now h v) := by
  unfold delVol
  split
  · exact keeps_refl _ _ _
  · exact keeps_trashBlock c now v h h' t hlt

theorem keeps_tiVol (c : Cfg) (now : Time) (v : Vol) (h h' : Hash) (req : Time) (mount : Option Nat)
    (t : Time) (hlt : now < t + c.ttl) : Keeps h' t v (tiVol c now h req mount v) := by
  unfold tiVol
  split
  · split
    · split
      · exact keeps_trashBlock c now v h h' t hlt
      · exact keeps_refl _ _ _
    · exact keeps_refl _ _ _
  · exact keeps_refl _ _ _

theorem emptyTrash_blocks (c : Cfg) (now : Time) (v : Vol) : (v.emptyTrash c now).blocks = v.blocks := by
  unfold Vol.emptyTrash
  split <;> rfl

theorem sweepVol_blocks (c : Cfg) (now : Time) (v : Vol) : (sweepVol c now v).blocks = v.blocks := by
  unfold sweepVol
  split
  · rfl
  · exact emptyTrash_blocks c now v

theorem keeps_sweep (c : Cfg) (now : Time) (v : Vol) (h : Hash) (t : Time) : Keeps h t v (sweepVol c now v) := by
  intro f hf hft
  exact ⟨f, by rw [sweepVol_blocks]; exact hf, hft⟩

/-- Untrash replaces whatever is at the block path by a copy stamped `now` (fix f7a86a4) -/
theorem keeps_untrashVol (v : Vol) (h h' : Hash) (t now : Time) (ht : t ≤ now) :
    Keeps h' t v (untrashVol h now v) := by
  intro f hf hft
  unfold untrashVol
  split
  · exact ⟨f, hf, hft⟩
  · unfold Vol.untrash
    split
    · exact ⟨f, hf, hft⟩
    · rename_i e _
      simp only [Option.getD_some]
      by_cases he : h' = h
      · subst he
        exact ⟨{ e.file with mtime := now }, by simp [Vol.setBlock], ht⟩
      · exact ⟨f, by simpa [Vol.setBlock, he] using hf, hft⟩

/-! ### server-level lemmas -/

theorem mem_writables {vs : List Vol} {v : Vol} (h : v ∈ writables vs) : v ∈ vs ∧ v.ro = false := by
  simp only [writables, List.mem_filter, Bool.not_eq_true'] at h
  exact h

theorem compareAndTouch_some {now : Time} {h : Hash} {ws : List Vol} {id : Nat}
    (hc : compareAndTouch now h ws = some id) :
    ∃ v ∈ ws, v.id = id ∧ ∃ f, v.blocks h = some f ∧ f.good = true := by
  induction ws with
  | nil => simp [compareAndTouch] at hc
  | cons w ws ih =>
    unfold compareAndTouch at hc
    split at hc
    · rename_i f hf
      split at hc
      · rename_i hg
        simp only [Option.some.injEq] at hc
        exact ⟨w, List.mem_cons_self, hc, f, hf, hg⟩
      · obtain ⟨v, hv, hx⟩ := ih hc
        exact ⟨v, List.mem_cons_of_mem _ hv, hx⟩
    · obtain ⟨v, hv, hx⟩ := ih hc
      exact ⟨v, List.mem_cons_of_mem _ hv, hx⟩

theorem firstHolding_some {h : Hash} {ws : List Vol} {id : Nat} (hc : firstHolding h ws = some id) :
    ∃ v ∈ ws, v.id = id ∧ ∃ f, v.blocks h = some f := by
  induction ws with
  | nil => simp [firstHolding] at hc
  | cons w ws ih =>
    unfold firstHolding at hc
    split at hc
    · rename_i hs
      simp only [Option.some.injEq] at hc
      obtain ⟨f, hf⟩ := Option.isSome_iff_exists.mp hs
      exact ⟨w, List.mem_cons_self, hc, f, hf⟩
    · obtain ⟨v, hv, hx⟩ := ih hc
      exact ⟨v, List.mem_cons_of_mem _ hv, hx⟩

/-- after touching the volumes with id `id`, a copy of `h` stamped `now` exists -/
theorem holds_after_touch {vs : List Vol} {v : Vol} {h : Hash} {now : Time} {f : File}
    (hv : v ∈ vs) (hro : v.ro = false) (hf : v.blocks h = some f) :
    HoldsL (updVol vs v.id (fun w => (w.touch h now).getD w)) h now := by
  refine ⟨(v.touch h now).getD v, ?_, { f with mtime := now }, ?_, Nat.le_refl _⟩
  · unfold updVol
    have := List.mem_map_of_mem (f := fun w => if w.id = v.id then (w.touch h now).getD w else w) hv
    simpa using this
  · simp [Vol.touch, hro, hf, Vol.setBlock]

theorem holds_after_write {vs : List Vol} {v : Vol} {h : Hash} {now : Time} (hv : v ∈ vs) :
    HoldsL (updVol vs v.id (fun w => w.write h now)) h now := by
  refine ⟨v.write h now, ?_, { good := true, mtime := now }, ?_, Nat.le_refl _⟩
  · unfold updVol
    have := List.mem_map_of_mem (f := fun w => if w.id = v.id then w.write h now else w) hv
    simpa using this
  · simp [Vol.write, Vol.setBlock]

theorem pickTarget_mem {ws : List Vol} {w w' : Vol} (hw : w ∈ ws) (h : pickTarget ws w = some w') : w' ∈ ws := by
  unfold pickTarget at h
  split at h
  · exact List.mem_of_find?_eq_some h
  · cases h; exact hw

/-! ### one request preserves the invariant -/

theorem step_now_ge (c : Cfg) (s : St) (op : Op) : s.now ≤ (step c s op).1.now := by
  cases op <;> simp only [step] <;> (repeat' split) <;> simp

theorem prot_step {c : Cfg} {s : St} {g : Ghost} (hp : Prot c s g) (op : Op) :
    Prot c (step c s op).1 (ghostStep g s.now op (step c s op).2) := by
  have hle : ∀ h t, g h = some t → t ≤ s.now := fun h t hg => (hp h t hg).1
  cases op with
  | put h goodBody =>
    simp only [step]
    split
    · simpa [ghostStep, ackOf] using hp
    · split
      · simpa [ghostStep, ackOf] using hp
      · rename_i hgb
        have hgb' : goodBody = true := by simpa using hgb
        subst hgb'
        split
        · -- compare-and-touch
          rename_i id hcat
          obtain ⟨v, hvw, hid, f, hf, _⟩ := compareAndTouch_some hcat
          obtain ⟨hv, hro⟩ := mem_writables hvw
          subst hid
          have h1 : Prot c { vols := s.vols.map (fun w => if w.id = v.id then (w.touch h s.now).getD w else w),
                             now := s.now, rr := s.rr } g :=
            prot_map hp _ _ (fun h' t hg _ w _ => keeps_if (keeps_touch h h' t s.now w (hle h' t hg)))
          simp only [ghostStep, ackOf]
          exact prot_ack (s := { vols := _, now := s.now, rr := s.rr }) h1 h (holds_after_touch hv hro hf)
        · split
          · rename_i w0 hw0
            split
            · rename_i w hw
              have hwm : w ∈ writables s.vols := pickTarget_mem (List.mem_of_getElem? hw0) hw
              obtain ⟨hv, _⟩ := mem_writables hwm
              have h1 : Prot c { vols := s.vols.map (fun x => if x.id = w.id then x.write h s.now else x),
                                 now := s.now, rr := s.rr + 1 } g :=
                prot_map hp _ _ (fun h' t hg _ x _ => keeps_if (keeps_write h h' t s.now x (hle h' t hg)))
              simp only [ghostStep, ackOf]
              exact prot_ack (s := { vols := _, now := s.now, rr := s.rr + 1 }) h1 h (holds_after_write hv)
            · simp only [ghostStep, ackOf]
              exact hp
          · simpa [ghostStep, ackOf] using hp
  | touch h =>
    simp only [step]
    split
    · rename_i id hfh
      obtain ⟨v, hvw, hid, f, hf⟩ := firstHolding_some hfh
      obtain ⟨hv, hro⟩ := mem_writables hvw
      subst hid
      have h1 : Prot c { vols := s.vols.map (fun w => if w.id = v.id then (w.touch h s.now).getD w else w),
                         now := s.now, rr := s.rr } g :=
        prot_map hp _ _ (fun h' t hg _ w _ => keeps_if (keeps_touch h h' t s.now w (hle h' t hg)))
      simp only [ghostStep, ackOf]
      exact prot_ack (s := { vols := _, now := s.now, rr := s.rr }) h1 h (holds_after_touch hv hro hf)
    · simpa [ghostStep, ackOf] using hp
  | get h => simpa [step, ghostStep, ackOf] using hp
  | delete h =>
    simp only [step]
    split
    · simpa [ghostStep, ackOf] using hp
    · split
      · simpa [ghostStep, ackOf] using hp
      · simp only [ghostStep, ackOf]
        exact prot_map hp _ _ (fun h' t _ hlt v _ => keeps_delVol c s.now v h h' t hlt)
  | trashItem h req mount =>
    simp only [step]
    split
    · simpa [ghostStep, ackOf] using hp
    · simp only [ghostStep, ackOf]
      exact prot_map hp _ _ (fun h' t _ hlt v _ => keeps_tiVol c s.now v h h' req mount t hlt)
  | untrash h =>
    simp only [step]
    split
    · simpa [ghostStep, ackOf] using hp
    · split
      · simpa [ghostStep, ackOf] using hp
      · simp only [ghostStep, ackOf]
        exact prot_map' hp _ _ _ (Nat.le_add_right _ _)
          (fun h' t hg _ v _ => keeps_untrashVol v h h' t _ (Nat.le_trans (hle h' t hg) (Nat.le_add_right _ _)))
  | emptyTrash =>
    simp only [step, ghostStep, ackOf]
    exact prot_map hp _ _ (fun h' t _ _ v _ => keeps_sweep c s.now v h' t)
  | tick d =>
    simp only [step, ghostStep, ackOf]
    intro h t hg
    obtain ⟨h1, h2⟩ := hp h t hg
    exact ⟨Nat.le_trans h1 (Nat.le_add_right _ _), fun hlt => h2 (Nat.lt_of_le_of_lt (Nat.le_add_right _ _) hlt)⟩
  | unauth k => simpa [step, ghostStep, ackOf] using hp

theorem prot_run {c : Cfg} : ∀ (ops : List Op) (s : St) (g : Ghost), Prot c s g →
    Prot c (runG c s g ops).1 (runG c s g ops).2 := by
  intro ops
  induction ops with
  | nil => intro s g hp; exact hp
  | cons op ops ih =>
    intro s g hp
    exact ih _ _ (prot_step hp op)

/-! ### content: if no copy on the server is corrupt, none ever becomes corrupt -/

def VolGood (v : Vol) : Prop :=
  (∀ h f, v.blocks h = some f → f.good = true) ∧ (∀ e ∈ v.trash, e.file.good = true)

def AllGood (s : St) : Prop := ∀ v ∈ s.vols, VolGood v

theorem volGood_setBlock {v : Vol} (hv : VolGood v) (h : Hash) (x : Option File)
    (hx : ∀ f, x = some f → f.good = true) : VolGood (v.setBlock h x) := by
  refine ⟨fun h' f hf => ?_, hv.2⟩
  by_cases he : h' = h
  · subst he; simp only [Vol.setBlock, if_true] at hf; exact hx f hf
  · simp only [Vol.setBlock, he, if_false] at hf; exact hv.1 h' f hf

theorem volGood_touch {v : Vol} (hv : VolGood v) (h : Hash) (now : Time) : VolGood ((v.touch h now).getD v) := by
  unfold Vol.touch
  split
  · exact hv
  · split
    · exact hv
    · rename_i f hf
      exact volGood_setBlock hv h _ (fun f' hf' => by cases hf'; exact hv.1 h f hf)

theorem volGood_write {v : Vol} (hv : VolGood v) (h : Hash) (now : Time) : VolGood (v.write h now) :=
  volGood_setBlock hv h _ (fun f' hf' => by cases hf'; rfl)

theorem volGood_trashBlock {v : Vol} (hv : VolGood v) (c : Cfg) (now : Time) (h : Hash) :
    VolGood (Vol.trashBlock c now v h).2 := by
  unfold Vol.trashBlock
  split
  · exact hv
  · split
    · exact hv
    · rename_i f hf
      split
      · exact hv
      · split
        · exact volGood_setBlock hv h none (fun f' hf' => by cases hf')
        · have h1 := volGood_setBlock hv h none (fun f' hf' => by cases hf')
          refine ⟨h1.1, fun e he => ?_⟩
          simp only [trashInsert, List.mem_cons, List.mem_filter] at he
          cases he with
          | inl he => subst he; exact hv.1 h f hf
          | inr he => exact hv.2 e he.1

theorem minEntry_mem {h : Hash} {es : List TrashEnt} {m : TrashEnt} (hm : minEntry h es = some m) : m ∈ es := by
  induction es generalizing m with
  | nil => simp [minEntry] at hm
  | cons x xs ih =>
    unfold minEntry at hm
    split at hm
    · split at hm
      · rename_i m' hm'
        split at hm
        · cases hm; exact List.mem_cons_of_mem _ (ih hm')
        · cases hm; exact List.mem_cons_self
      · cases hm; exact List.mem_cons_self
    · exact List.mem_cons_of_mem _ (ih hm)

theorem volGood_untrashVol {v : Vol} (hv : VolGood v) (h : Hash) (now : Time) : VolGood (untrashVol h now v) := by
  unfold untrashVol
  split
  · exact hv
  · unfold Vol.untrash
    split
    · exact hv
    · rename_i e he
      simp only [Option.getD_some]
      have h1 := volGood_setBlock hv h (some { e.file with mtime := now })
        (fun f' hf' => by cases hf'; exact hv.2 e (minEntry_mem he))
      exact ⟨h1.1, fun x hx => hv.2 x (List.mem_filter.mp hx).1⟩

theorem volGood_sweep {v : Vol} (hv : VolGood v) (c : Cfg) (now : Time) : VolGood (sweepVol c now v) := by
  unfold sweepVol Vol.emptyTrash
  split
  · exact hv
  · split
    · exact hv
    · exact ⟨hv.1, fun x hx => hv.2 x (List.mem_filter.mp hx).1⟩

theorem allGood_map {vs : List Vol} {F : Vol → Vol} (hk : ∀ v, VolGood v → VolGood (F v))
    (hg : ∀ v ∈ vs, VolGood v) : ∀ v ∈ vs.map F, VolGood v := by
  intro v hv
  obtain ⟨w, hw, rfl⟩ := List.mem_map.mp hv
  exact hk w (hg w hw)

theorem volGood_if {v v' : Vol} {p : Prop} [Decidable p] (hv : VolGood v) (hv' : VolGood v') :
    VolGood (if p then v' else v) := by
  split
  · exact hv'
  · exact hv

theorem allGood_step {c : Cfg} {s : St} (hg : AllGood s) (op : Op) : AllGood (step c s op).1 := by
  cases op with
  | put h goodBody =>
    simp only [step]
    split
    · exact hg
    · split
      · exact hg
      · split
        · exact allGood_map (fun v hv => volGood_if hv (volGood_touch hv h s.now)) hg
        · split
          · split
            · exact allGood_map (fun v hv => volGood_if hv (volGood_write hv h s.now)) hg
            · exact hg
          · exact hg
  | touch h =>
    simp only [step]
    split
    · exact allGood_map (fun v hv => volGood_if hv (volGood_touch hv h s.now)) hg
    · exact hg
  | get h => exact hg
  | delete h =>
    simp only [step]
    split
    · exact hg
    · split
      · exact hg
      · refine allGood_map (fun v hv => ?_) hg
        unfold delVol
        split
        · exact hv
        · exact volGood_trashBlock hv c s.now h
  | trashItem h req mount =>
    simp only [step]
    split
    · exact hg
    · refine allGood_map (fun v hv => ?_) hg
      unfold tiVol
      split
      · split
        · split
          · exact volGood_trashBlock hv c s.now h
          · exact hv
        · exact hv
      · exact hv
  | untrash h =>
    simp only [step]
    split
    · exact hg
    · split
      · exact hg
      · exact allGood_map (fun v hv => volGood_untrashVol hv h _) hg
  | emptyTrash =>
    simp only [step]
    exact allGood_map (fun v hv => volGood_sweep hv c s.now) hg
  | tick d => exact hg
  | unauth k => exact hg

theorem allGood_runG {c : Cfg} : ∀ (ops : List Op) (s : St) (g : Ghost), AllGood s → AllGood (runG c s g ops).1 := by
  intro ops
  induction ops with
  | nil => intro s g hg; exact hg
  | cons op ops ih => intro s g hg; exact ih _ _ (allGood_step hg op)

/-- GetBlock answers 200 as soon as some volume holds an intact copy -/
theorem getStatus_200 {h : Hash} : ∀ (vs : List Vol) (acc : Nat),
    (∃ v ∈ vs, ∃ f, v.blocks h = some f ∧ f.good = true) → getStatus h vs acc = 200 := by
  intro vs
  induction vs with
  | nil => intro _ ⟨v, hv, _⟩; cases hv
  | cons w ws ih =>
    intro acc ⟨v, hv, f, hf, hg⟩
    unfold getStatus
    cases hw : w.blocks h with
    | some fw =>
      by_cases hgw : fw.good = true
      · simp [hgw]
      · simp only [hgw, Bool.false_eq_true, if_false]
        cases hv with
        | head => rw [hw] at hf; cases hf; exact absurd hg hgw
        | tail _ hv' => exact ih _ ⟨v, hv', f, hf, hg⟩
    | none =>
      simp only
      cases hv with
      | head => rw [hw] at hf; cases hf
      | tail _ hv' => exact ih _ ⟨v, hv', f, hf, hg⟩

end ArvVerif.C04
