/-
C02 helper lemmas, part 8: PutBlock over several volumes. A cross-volume event list is handled
volume by volume (`projEvs`); a per-volume list is `Safe` when every prefix, from every starting
state, leaves the block path with its old bytes or the complete body. `Safe` is closed under append,
so the shape of `handlePutMV`'s list (compare / touch / WriteBlock runs, in any number and order)
gives crash atomicity on every volume at once.
-/
import ArvVerif.Model.C02_MV
import ArvVerif.Proofs.C02_Put
namespace ArvVerif.C02

/-! ### projection -/

theorem projEvs_nil (i : Nat) : projEvs i [] = [] := rfl

theorem projEvs_append (i : Nat) (a b : List MEv) : projEvs i (a ++ b) = projEvs i a ++ projEvs i b := by
  simp [projEvs]

theorem projEvs_tag_self (i : Nat) (l : List Ev) : projEvs i (tagEvs i l) = l := by
  induction l with
  | nil => rfl
  | cons e es ih =>
    simp only [projEvs, tagEvs, List.map_cons] at ih ⊢
    simp [ih]

theorem projEvs_tag_ne {i j : Nat} (h : i ≠ j) (l : List Ev) : projEvs i (tagEvs j l) = [] := by
  induction l with
  | nil => rfl
  | cons e es ih =>
    simp only [projEvs, tagEvs, List.map_cons] at ih ⊢
    have : (j == i) = false := by simp; exact fun h' => h h'.symm
    simp [this]
    simpa using ih

theorem projEvs_tag (i j : Nat) (l : List Ev) : projEvs i (tagEvs j l) = if i = j then l else [] := by
  by_cases h : i = j
  · subst h; simp [projEvs_tag_self]
  · simp [h, projEvs_tag_ne h]

/-- the part of a crash prefix that lies on volume `i` is a prefix of volume `i`'s events -/
theorem projEvs_take (i : Nat) (evs : List MEv) (k : Nat) :
    ∃ k', projEvs i (evs.take k) = (projEvs i evs).take k' ∧
      (evs.length ≤ k → (projEvs i evs).length ≤ k') := by
  induction evs generalizing k with
  | nil => exact ⟨0, by simp [projEvs], by simp [projEvs]⟩
  | cons e es ih =>
    cases k with
    | zero => exact ⟨0, by simp [projEvs], by simp⟩
    | succ k =>
      obtain ⟨k', hk', hl⟩ := ih k
      by_cases he : e.1 == i
      · refine ⟨k' + 1, ?_, ?_⟩
        · simp only [projEvs, List.take_succ_cons, List.filter_cons, he, if_true, List.map_cons] at hk' ⊢
          simp [hk']
        · intro hlen
          have := hl (by simpa using hlen)
          simp only [projEvs, List.filter_cons, he, if_true, List.map_cons, List.length_cons] at this ⊢
          omega
      · refine ⟨k', ?_, ?_⟩
        · simp only [projEvs, List.take_succ_cons, List.filter_cons, he] at hk' ⊢
          simpa using hk'
        · intro hlen
          have := hl (by simpa using hlen)
          simp only [projEvs, List.filter_cons, he] at this ⊢
          simpa using this

/-! ### per-volume safety -/

def Safe (h : Name) (body : Bytes) (evs : List Ev) : Prop :=
  ∀ (fs : FS) (k : Nat), (run fs (evs.take k)).data (blockPath h) = fs.data (blockPath h) ∨
    (run fs (evs.take k)).data (blockPath h) = some body

theorem safe_nil (h : Name) (body : Bytes) : Safe h body [] := by
  intro fs k; left; simp

theorem safe_append {h : Name} {body : Bytes} {a b : List Ev} (ha : Safe h body a) (hb : Safe h body b) :
    Safe h body (a ++ b) := by
  intro fs k
  rw [List.take_append, run_append]
  rcases hb (run fs (a.take k)) (k - a.length) with h1 | h1
  · rcases ha fs k with h2 | h2
    · left; rw [h1, h2]
    · right; rw [h1, h2]
  · exact Or.inr h1

/-- events that only look or change a timestamp keep every file's bytes -/
theorem data_run_keeping (p : Path) (evs : List Ev)
    (hall : ∀ e ∈ evs, e.eff = .nop ∨ ∃ q t, e.eff = .chtimes q t) (fs : FS) :
    (run fs evs).data p = fs.data p := by
  induction evs generalizing fs with
  | nil => rfl
  | cons e es ih =>
    rw [run_cons, ih (fun e' he' => hall e' (List.mem_cons_of_mem _ he'))]
    rcases hall e List.mem_cons_self with h0 | ⟨q, t, h0⟩
    · rw [h0]; rfl
    · rw [h0]
      simp only [Step.apply]
      split
      · rename_i f hf
        by_cases hq : p = q
        · subst hq; simp [FS.data, hf]
        · simp [FS.data, get_set_ne _ _ hq]
      · rfl

theorem safe_keeping (h : Name) (body : Bytes) {evs : List Ev}
    (hall : ∀ e ∈ evs, e.eff = .nop ∨ ∃ q t, e.eff = .chtimes q t) : Safe h body evs := by
  intro fs k
  left
  exact data_run_keeping _ _ (fun e he => hall e (List.mem_of_mem_take he)) fs

theorem touch_keeping (fs : FS) (h : Name) (now : Nat) (fail : Option Nat) :
    ∀ e ∈ (touchEvs fs h now fail).1, e.eff = .nop ∨ ∃ q t, e.eff = .chtimes q t := by
  intro e he
  unfold touchEvs at he
  split at he
  · simp at he; subst he; exact Or.inl rfl
  · split at he <;> simp at he
    · subst he; exact Or.inl rfl
    · rcases he with rfl | rfl <;> exact Or.inl rfl
    · rcases he with rfl | rfl | rfl | rfl <;> exact Or.inl rfl
    · rcases he with rfl | rfl | rfl | rfl
      · exact Or.inl rfl
      · exact Or.inl rfl
      · exact Or.inl rfl
      · exact Or.inr ⟨_, _, rfl⟩

theorem compare_keeping (fs : FS) (h : Name) :
    ∀ e ∈ compareEvs fs h, e.eff = .nop ∨ ∃ q t, e.eff = .chtimes q t :=
  fun e he => Or.inl (compare_nops' fs h e he)

theorem safe_wb {h : Name} {body : Bytes} (w : WBIn) (hw : w.h = h)
    (hv : w.rend = .eof → w.chunks.flatten = body) : Safe h body (writeBlockEvs w).1 := by
  intro fs k
  rcases wb_crash_atomic fs w k with h1 | ⟨h1, h2, _⟩
  · left; rw [← hw]; exact data_of_get_eq h1
  · right; rw [← hw]; simp [FS.data, h1, hv h2]

/-- a cross-volume list all of whose per-volume parts are safe -/
def SafeMV (h : Name) (body : Bytes) (evs : List MEv) : Prop := ∀ i, Safe h body (projEvs i evs)

theorem safeMV_nil (h : Name) (body : Bytes) : SafeMV h body [] := fun _ => safe_nil h body

theorem safeMV_append {h : Name} {body : Bytes} {a b : List MEv} (ha : SafeMV h body a) (hb : SafeMV h body b) :
    SafeMV h body (a ++ b) := by
  intro i
  rw [projEvs_append]
  exact safe_append (ha i) (hb i)

theorem safeMV_tag {h : Name} {body : Bytes} (j : Nat) {l : List Ev} (hl : Safe h body l) :
    SafeMV h body (tagEvs j l) := by
  intro i
  rw [projEvs_tag]
  split
  · exact hl
  · exact safe_nil h body

/-! ### the parts of PutBlock -/

theorem safe_compareAndTouch (hash : Bytes → Name) (vs : Nat → FS) (p : MPutIn) (ws : List Nat) (pos : Nat) :
    SafeMV p.h p.body (compareAndTouchMV hash vs p ws pos).1 := by
  induction ws generalizing pos with
  | nil => exact safeMV_nil _ _
  | cons i rest ih =>
    have hc : SafeMV p.h p.body (tagEvs i (compareEvs (vs i) p.h)) :=
      safeMV_tag i (safe_keeping _ _ (compare_keeping _ _))
    have ht : SafeMV p.h p.body (tagEvs i (touchEvs (vs i) p.h p.now (p.touchFail i)).1) :=
      safeMV_tag i (safe_keeping _ _ (touch_keeping _ _ _ _))
    simp only [compareAndTouchMV]
    split
    · exact hc
    · split
      · exact safeMV_append hc (ih _)
      · split
        · split
          · exact safeMV_append hc ht
          · exact safeMV_append (safeMV_append hc ht) (ih _)
        · split
          · exact hc
          · exact safeMV_append hc (ih _)

theorem safe_putOn (c : MVCfg) (i : Nat) {h : Name} {body : Bytes} (w : WBIn) (hw : w.h = h)
    (hv : w.rend = .eof → w.chunks.flatten = body) : SafeMV h body (putOn c i w).1 := by
  unfold putOn
  split
  · exact safeMV_nil _ _
  · exact safeMV_tag i (safe_wb w hw hv)

theorem safe_loopPuts (c : MVCfg) (p : MPutIn) (hp : p.valid) (allFull : Bool) (ws : List Nat) (call : Nat) :
    SafeMV p.h p.body (loopPuts c p allFull ws call).1 := by
  induction ws generalizing allFull call with
  | nil => exact safeMV_nil _ _
  | cons i rest ih =>
    have h1 := safe_putOn c i (p.loop i) (hp.2 i).1 (hp.2 i).2
    simp only [loopPuts]
    split
    · exact h1
    · split
      · exact h1
      · exact safeMV_append h1 (ih _ _)

theorem safe_putBlockMV (hash : Bytes → Name) (c : MVCfg) (vs : Nat → FS) (p : MPutIn) (hp : p.valid) :
    SafeMV p.h p.body (putBlockMV hash c vs p).1 := by
  have hct := safe_compareAndTouch hash vs p c.writables 0
  unfold putBlockMV
  simp only
  split
  · exact hct
  · exact hct
  · exact hct
  · split
    · exact hct
    · rename_i i0 _
      have h0 := safe_putOn c i0 p.first hp.1.1 hp.1.2
      split
      · exact safeMV_append hct h0
      · split
        · exact safeMV_append hct h0
        · exact safeMV_append (safeMV_append hct h0) (safe_loopPuts c p hp _ _ _)

theorem safe_handlePutMV (hash : Bytes → Name) (c : MVCfg) (vs : Nat → FS) (p : MPutIn) (hp : p.valid) :
    SafeMV p.h p.body (handlePutMV hash c vs p).1 := by
  unfold handlePutMV
  split
  · exact safeMV_nil _ _
  · split
    · exact safeMV_nil _ _
    · exact safe_putBlockMV hash c vs p hp

end ArvVerif.C02
