/-
C09 helper lemmas, part 18: `loadManifest` on a whole text of the C09 grammar (streams of the
published grammar mixed with empty-directory markers): the result is the result on the text without
the marker lines, plus the marker directories and their ancestors.
-/
import ArvVerif.Proofs.C09_Sim
import ArvVerif.Proofs.C09_Reload
namespace ArvVerif.C09

open ArvVerif.C10 (bSpace bNL bSlash bColon bDot splitOn joinWith FsTree fsLine fsLines mapOpt)

/-- the line is a stream of the published grammar (not a marker) -/
def keepLine (l : Bytes) : Bool := (C10.specLine l).isSome

/-- component path of a stream name "./a/b" -/
def compsOfName (n : Bytes) : List Bytes := (splitOn bSlash n).tail

/-- a directory and its ancestors below the root -/
def dirPrefixes : List Bytes → List (List Bytes)
  | [] => []
  | x :: rest => [x] :: (dirPrefixes rest).map (x :: ·)

theorem mem_dirPrefixes : ∀ {m pre : List Bytes}, pre ∈ dirPrefixes m ↔ pre ≠ [] ∧ pre <+: m
  | [], pre => by
    simp only [dirPrefixes, List.not_mem_nil, false_iff, not_and]
    intro hne hp
    exact hne (List.prefix_nil.mp hp)
  | x :: rest, pre => by
    simp only [dirPrefixes, List.mem_cons, List.mem_map]
    cases pre with
    | nil => simp
    | cons a q =>
      rw [List.cons_prefix_cons]
      constructor
      · rintro (h | ⟨q', hq', h⟩)
        · simp only [List.cons.injEq] at h
          obtain ⟨rfl, rfl⟩ := h
          exact ⟨by simp, rfl, List.nil_prefix⟩
        · simp only [List.cons.injEq] at h
          obtain ⟨rfl, rfl⟩ := h
          exact ⟨by simp, rfl, (mem_dirPrefixes.mp hq').2⟩
      · rintro ⟨_, rfl, hp⟩
        by_cases hq : q = []
        · left; rw [hq]
        · right; exact ⟨q, mem_dirPrefixes.mpr ⟨hq, hp⟩, rfl⟩

/-- all directories the markers of a parsed text make -/
def markerDirs : List Line9 → List (List Bytes)
  | [] => []
  | Line9.stream _ :: rest => markerDirs rest
  | Line9.marker n :: rest => dirPrefixes (compsOfName n) ++ markerDirs rest

theorem mapOpt_filter_streams : ∀ (ls : List Bytes) (L : List Line9), mapOpt specLine9 ls = some L →
    mapOpt C10.specLine (ls.filter keepLine) = some (streamsOf L)
  | [], L, h => by simp [mapOpt] at h; subst h; rfl
  | l :: ls, L, h => by
    obtain ⟨x, xs, h1, h2, rfl⟩ := C10.mapOpt_cons_some specLine9 l ls L h
    have ih := mapOpt_filter_streams ls xs h2
    unfold specLine9 at h1
    cases hs : C10.specLine l with
    | none =>
      rw [hs] at h1
      simp only [Option.map_eq_some_iff] at h1
      obtain ⟨n, _, rfl⟩ := h1
      have : keepLine l = false := by unfold keepLine; rw [hs]; rfl
      simp only [List.filter_cons, this, streamsOf]
      exact ih
    | some s =>
      rw [hs] at h1
      simp only [Option.some.injEq] at h1
      subst h1
      have : keepLine l = true := by unfold keepLine; rw [hs]; rfl
      simp only [List.filter_cons, this, if_true, streamsOf]
      unfold mapOpt
      rw [hs, ih]

/-- keys only grow along `fsLines` -/
theorem fsLines_keys_mono : ∀ (ls : List Bytes) (t t' : FsTree), fsLines ls t = some t' → ∀ k ∈ keysOf t, k ∈ keysOf t'
  | [], t, t', h, k, hk => by simp only [fsLines, Option.some.injEq] at h; rw [← h]; exact hk
  | l :: ls, t, t', h, k, hk => by
    unfold fsLines at h
    cases h1 : fsLine l t with
    | none => rw [h1] at h; cases h
    | some ta =>
      rw [h1] at h
      simp only [] at h
      obtain ⟨_, _, _, e⟩ := fsLine_sim [] l t t ta (Sim.refl t) h1 (fun k _ hk => by cases hk)
      exact fsLines_keys_mono ls ta t' h k (e k hk)

/-- what a marker line (any spelling of the stream name the grammar allows) is, for the loader -/
theorem marker_shape (l n : Bytes) (h : markerLine? l = some n) :
    ∃ nm, splitOn bSpace l = [nm, emptyLoc, markerTok] ∧ C10.fsUnescape nm = prefixOf (compsOfName n) ∧
      C10.componentsOk (compsOfName n) = true ∧ (∀ c ∈ compsOfName n, bSlash ∉ c) := by
  unfold markerLine? at h
  split at h
  · next nm b tk hsplit =>
    split at h
    · next hc =>
      obtain ⟨rfl, rfl, _⟩ := hc
      cases hu : C10.specUnescape nm with
      | none => rw [hu] at h; cases h
      | some u =>
        rw [hu] at h
        simp only [] at h
        split at h
        · next hok =>
          simp only [Option.some.injEq] at h
          subst h
          have hfu : C10.fsUnescape nm = u :=
            C10.goUnescape_of_spec C10.isOctDigit (fun _ h => h) nm.length nm u (Nat.le_refl _) hu
          obtain ⟨cs, hcs, hn, hns⟩ := C10.streamName_shape u hok.1
          have hsp : splitOn bSlash u = [bDot] :: cs := by
            rw [hn]
            apply C10.splitOn_joinWith bSlash _ (by simp)
            intro p hp
            rcases List.mem_cons.mp hp with rfl | hp
            · decide
            · exact hns p hp
          have hcomps : compsOfName u = cs := by unfold compsOfName; rw [hsp]; rfl
          refine ⟨nm, hsplit, ?_, by rw [hcomps]; exact hcs, by rw [hcomps]; exact hns⟩
          rw [hfu, hcomps]
          exact hn
        · cases h
    · cases h
  · cases h

/-- **the mixed fold** -/
theorem fsLines_mixed : ∀ (ls : List Bytes) (L : List Line9) (X : List (List Bytes)) (t1 t2 t1F : FsTree),
    mapOpt specLine9 ls = some L → Sim X t1 t2 → fsLines (ls.filter keepLine) t1 = some t1F →
    (∀ k ∈ keysOf t1F, k ∉ X ++ markerDirs L) →
    ∃ t2F, fsLines ls t2 = some t2F ∧ Sim (X ++ markerDirs L) t1F t2F
  | [], L, X, t1, t2, t1F, hL, hs, h, _ => by
    simp [mapOpt] at hL; subst hL
    simp only [List.filter_nil, fsLines, Option.some.injEq] at h
    subst h
    exact ⟨t2, rfl, by simpa [markerDirs] using hs⟩
  | l :: ls, L, X, t1, t2, t1F, hL, hs, h, hX => by
    obtain ⟨x, xs, h1, h2, rfl⟩ := C10.mapOpt_cons_some specLine9 l ls L hL
    unfold specLine9 at h1
    cases hsl : C10.specLine l with
    | some s =>
      rw [hsl] at h1
      simp only [Option.some.injEq] at h1
      subst h1
      have hk : keepLine l = true := by unfold keepLine; rw [hsl]; rfl
      simp only [List.filter_cons, hk, if_true] at h
      unfold fsLines at h ⊢
      cases hf : fsLine l t1 with
      | none => rw [hf] at h; cases h
      | some ta =>
        rw [hf] at h
        simp only [] at h
        have hmono := fsLines_keys_mono _ ta t1F h
        simp only [markerDirs] at hX ⊢
        obtain ⟨tb, e1, e2, _⟩ := fsLine_sim X l t1 t2 ta hs hf
          (fun k hk hx => hX k (hmono k hk) (List.mem_append_left _ hx))
        rw [e1]
        exact fsLines_mixed ls xs X ta tb t1F h2 e2 h hX
    | none =>
      rw [hsl] at h1
      simp only [Option.map_eq_some_iff] at h1
      obtain ⟨n, hm, rfl⟩ := h1
      have hk : keepLine l = false := by unfold keepLine; rw [hsl]; rfl
      simp only [List.filter_cons, hk] at h
      simp only [markerDirs] at hX ⊢
      obtain ⟨nm, hsplit, hun, hok, hns⟩ := marker_shape l n hm
      have hmono := fsLines_keys_mono _ t1 t1F h
      have hnofile : ∀ pre, pre ≠ [] → pre <+: compsOfName n → t2.files.any (·.1 = pre) = false := by
        intro pre hp1 hp2
        rw [hs.1, C10.any_key_false_iff]
        intro e he heq
        have hkey : pre ∈ keysOf t1 := by rw [← heq]; exact List.mem_map.mpr ⟨e, he, rfl⟩
        exact hX pre (hmono pre hkey)
          (List.mem_append_right _ (List.mem_append_left _ (mem_dirPrefixes.mpr ⟨hp1, hp2⟩)))
      obtain ⟨t2', m1, m2, m3, m4, m5⟩ := fsLine_marker_core l nm (compsOfName n) t2 hsplit hun hok hns hnofile
      have hs' : Sim (X ++ dirPrefixes (compsOfName n)) t1 t2' := by
        refine ⟨by rw [m2]; exact hs.1, fun d => ?_⟩
        simp only [List.mem_append]
        constructor
        · intro hd
          rcases m3 d hd with h' | ⟨pre, p1, p2, rfl⟩
          · rcases (hs.2 d).mp h' with h'' | h''
            · exact Or.inl h''
            · exact Or.inr (Or.inl h'')
          · exact Or.inr (Or.inr (mem_dirPrefixes.mpr ⟨p1, p2⟩))
        · rintro (h' | h' | h')
          · exact m4 d ((hs.2 d).mpr (Or.inl h'))
          · exact m4 d ((hs.2 d).mpr (Or.inr h'))
          · obtain ⟨p1, p2⟩ := mem_dirPrefixes.mp h'
            exact m5 d p1 p2
      unfold fsLines
      rw [m1]
      simp only []
      have := fsLines_mixed ls xs (X ++ dirPrefixes (compsOfName n)) t1 t2' t1F h2 hs' h
        (by intro k hk; simpa [List.append_assoc] using hX k hk)
      simpa [List.append_assoc] using this

end ArvVerif.C09
