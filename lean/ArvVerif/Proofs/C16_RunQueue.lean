/-
C16 part B: lemmas about one runQueue pass (Model/C16_RunQueue.lean), for an arbitrary pool.
-/
import ArvVerif.Model.C16_RunQueue
namespace ArvVerif.C16.RQ
variable {σ : Type}

/-! ### list helpers -/

theorem append_split {α : Type} {l1 l2 pre post : List α} {x : α}
    (h : l1 ++ l2 = pre ++ x :: post) :
    (∃ post', l1 = pre ++ x :: post' ∧ post = post' ++ l2) ∨
    (∃ pre', pre = l1 ++ pre' ∧ l2 = pre' ++ x :: post) := by
  rcases List.append_eq_append_iff.mp h with ⟨as, h1, h2⟩ | ⟨bs, h1, h2⟩
  · exact Or.inr ⟨as, h1, h2⟩
  · cases bs with
    | nil =>
      right; refine ⟨[], ?_, ?_⟩
      · simp only [List.append_nil] at h1 ⊢; exact h1.symm
      · simp only [List.nil_append] at h2 ⊢; exact h2.symm
    | cons b bs' =>
      simp only [List.cons_append, List.cons.injEq] at h2
      left; exact ⟨bs', by rw [h1, h2.1], h2.2⟩

/-- entries with pairwise distinct uuids are identified by their uuid -/
theorem eq_of_uuid_eq {l : List Ent} (hnd : l.Pairwise (fun a b => a.uuid ≠ b.uuid)) {x y : Ent}
    (hx : x ∈ l) (hy : y ∈ l) (h : x.uuid = y.uuid) : x = y := by
  induction l with
  | nil => cases hx
  | cons e rest ih =>
    obtain ⟨h1, h2⟩ := List.pairwise_cons.mp hnd
    rcases List.mem_cons.mp hx with rfl | hx'
    · rcases List.mem_cons.mp hy with rfl | hy'
      · rfl
      · exact (h1 y hy' h).elim
    · rcases List.mem_cons.mp hy with rfl | hy'
      · exact (h1 x hx' h.symm).elim
      · exact ih h2 hx' hy'

theorem uuid_ne_symm {x y : Ent} (h : x.uuid ≠ y.uuid) : y.uuid ≠ x.uuid := fun h' => h h'.symm

/-! ### vocabulary -/

/-- the event is a call made while handling entry `e` -/
def Own (e : Ent) : Ev → Prop
  | .kill _ u _ => u = e.uuid
  | .lockgo u => u = e.uuid
  | .unlock u => u = e.uuid
  | .create u t _ => u = e.uuid ∧ t = e.ty
  | .start t u _ => u = e.uuid ∧ t = e.ty
  | .shutdown _ => False

/-- a StartContainer call on instance type `t` -/
def IsStartOn (t : Nat) (ev : Ev) : Prop := ∃ u r, ev = .start t u r

def NoStart (l : List Ev) : Prop := ∀ ev ∈ l, ∀ t u r, ev ≠ Ev.start t u r

def NoUnlock (l : List Ev) : Prop := ∀ ev ∈ l, ∀ u, ev ≠ Ev.unlock u

/-- the events of one step: calls that are not StartContainer, then at most one StartContainer -/
def Shape (e : Ent) (evs : List Ev) : Prop :=
  ∃ init, NoStart init ∧ (evs = init ∨ ∃ b, evs = init ++ [Ev.start e.ty e.uuid b])

theorem shape_startLast {e : Ent} {evs pre post : List Ev} {t u : Nat} {r : Bool}
    (hs : Shape e evs) (h : evs = pre ++ Ev.start t u r :: post) : post = [] := by
  obtain ⟨init, hns, hev | ⟨b, hev⟩⟩ := hs
  · exfalso
    have : Ev.start t u r ∈ init := by rw [← hev, h]; simp
    exact hns _ this t u r rfl
  · rw [hev] at h
    rcases append_split h with ⟨post', h1, _⟩ | ⟨pre', _, h2⟩
    · exfalso
      have : Ev.start t u r ∈ init := by rw [h1]; simp
      exact hns _ this t u r rfl
    · cases pre' with
      | nil => simp only [List.nil_append, List.cons.injEq] at h2; exact h2.2.symm
      | cons p ps => simp at h2

/-- a Locked, not-running entry with priority ≥ 1: one that runQueue tries to place -/
def Cand (e : Ent) : Prop := e.st = .locked ∧ e.running = false ∧ 1 ≤ e.prio

/-- summary of one step from `s` to `s'` emitting `evs` -/
structure StepSpec (e : Ent) (s s' : RQ σ) (evs : List Ev) : Prop where
  own : ∀ ev ∈ evs, Own e ev
  mono : ∀ t, s.dont t = true → s'.dont t = true
  latched : ∀ t, s.dont t = true → ∀ ev ∈ evs, ¬ IsStartOn t ev
  failLatch : ∀ t u, Ev.start t u false ∈ evs → s'.dont t = true
  shape : Shape e evs

/-! ### tryStart -/

theorem tryStart_spec (P : Pool σ) (e : Ent) (s : RQ σ) :
    StepSpec e s (tryStart P e s).1 (tryStart P e s).2 ∧
    NoUnlock (tryStart P e s).2 ∧
    (Ev.start e.ty e.uuid true ∈ (tryStart P e s).2 ∨ Ev.kill true e.uuid true ∈ (tryStart P e s).2 ∨
      (tryStart P e s).1.dont e.ty = true) ∧
    (tryStart P e s).1.unalloc = s.unalloc := by
  unfold tryStart
  by_cases hd : s.dont e.ty = true
  · rw [if_pos hd]
    refine ⟨⟨by simp, fun _ h => h, by simp, by simp, ⟨[], by simp [NoStart], Or.inl rfl⟩⟩, by simp [NoUnlock],
      Or.inr (Or.inr hd), rfl⟩
  · rw [if_neg hd]
    by_cases hk : (P.kill true e.uuid s.pool).1 = true
    · rw [if_pos hk]
      refine ⟨⟨?_, fun _ h => h, ?_, by simp, ⟨[Ev.kill true e.uuid true], by simp [NoStart], Or.inl rfl⟩⟩,
        by simp [NoUnlock], Or.inr (Or.inl (by simp)), rfl⟩
      · intro ev hev; simp only [List.mem_singleton] at hev; subst hev; simp [Own]
      · intro t _ ev hev; simp only [List.mem_singleton] at hev; subst hev
        rintro ⟨u, r, h⟩; cases h
    · rw [if_neg hk]
      by_cases hr : (P.start e.ty e.uuid (P.kill true e.uuid s.pool).2).1 = true
      · rw [if_pos hr]
        refine ⟨⟨?_, fun _ h => h, ?_, by simp, ⟨[Ev.kill true e.uuid false], by simp [NoStart], Or.inr ⟨true, rfl⟩⟩⟩,
          by simp [NoUnlock], Or.inl (by simp), rfl⟩
        · intro ev hev
          simp only [List.mem_cons, List.not_mem_nil, or_false] at hev
          rcases hev with rfl | rfl <;> simp [Own]
        · intro t ht ev hev
          simp only [List.mem_cons, List.not_mem_nil, or_false] at hev
          rcases hev with rfl | rfl
          · rintro ⟨u, r, h⟩; cases h
          · rintro ⟨u, r, h⟩
            injection h with h1 _ _
            subst h1; exact hd ht
      · rw [if_neg hr]
        refine ⟨⟨?_, ?_, ?_, ?_, ⟨[Ev.kill true e.uuid false], by simp [NoStart], Or.inr ⟨false, rfl⟩⟩⟩,
          by simp [NoUnlock], Or.inr (Or.inr (by simp [setTrue])), rfl⟩
        · intro ev hev
          simp only [List.mem_cons, List.not_mem_nil, or_false] at hev
          rcases hev with rfl | rfl <;> simp [Own]
        · intro t ht; simp only [setTrue]; split <;> simp [ht]
        · intro t ht ev hev
          simp only [List.mem_cons, List.not_mem_nil, or_false] at hev
          rcases hev with rfl | rfl
          · rintro ⟨u, r, h⟩; cases h
          · rintro ⟨u, r, h⟩
            injection h with h1 _ _
            subst h1; exact hd ht
        · intro t u hm
          simp only [List.mem_cons, List.not_mem_nil, or_false] at hm
          rcases hm with h | h
          · cases h
          · injection h with h1 _ _
            subst h1; simp [setTrue]

/-! ### composing step summaries -/

theorem stepSpec_of_dont_eq {e : Ent} {s0 s s' : RQ σ} {evs : List Ev}
    (hs : StepSpec e s s' evs) (h : s0.dont = s.dont) : StepSpec e s0 s' evs :=
  ⟨hs.own, fun t ht => hs.mono t (h ▸ ht), fun t ht => hs.latched t (h ▸ ht), hs.failLatch, hs.shape⟩

theorem stepSpec_cons {e : Ent} {s s' : RQ σ} {evs : List Ev} {ev0 : Ev} (hown : Own e ev0)
    (hns : ∀ t u r, ev0 ≠ Ev.start t u r) (hs : StepSpec e s s' evs) : StepSpec e s s' (ev0 :: evs) := by
  refine ⟨?_, hs.mono, ?_, ?_, ?_⟩
  · intro ev hev
    rcases List.mem_cons.mp hev with rfl | h
    · exact hown
    · exact hs.own ev h
  · intro t ht ev hev
    rcases List.mem_cons.mp hev with rfl | h
    · rintro ⟨u, r, h⟩; exact hns t u r h
    · exact hs.latched t ht ev h
  · intro t u hm
    rcases List.mem_cons.mp hm with h | h
    · exact (hns t u false h.symm).elim
    · exact hs.failLatch t u h
  · obtain ⟨init, hn, hsh⟩ := hs.shape
    refine ⟨ev0 :: init, ?_, ?_⟩
    · intro ev hev
      rcases List.mem_cons.mp hev with rfl | h
      · exact hns
      · exact hn ev h
    · rcases hsh with h | ⟨b, h⟩
      · exact Or.inl (by rw [h])
      · exact Or.inr ⟨b, by rw [h]; rfl⟩

/-- a step that makes only non-Start calls of its own and leaves the latch alone -/
theorem stepSpec_plain {e : Ent} {s s' : RQ σ} {evs : List Ev} (hd : s'.dont = s.dont)
    (hown : ∀ ev ∈ evs, Own e ev) (hns : NoStart evs) : StepSpec e s s' evs :=
  ⟨hown, fun t ht => by rw [hd]; exact ht,
   fun t _ ev hev => by rintro ⟨u, r, h⟩; exact hns ev hev t u r h,
   fun t u hm => (hns _ hm t u false rfl).elim,
   ⟨evs, hns, Or.inl rfl⟩⟩

/-! ### the Locked and Queued branches -/

/-- what the pass learns about a Locked entry it handled without stopping: it was started, or its
old process lingers, or no worker could be created for it, or the latch of its type is (now) set -/
def Placed (e : Ent) (s' : RQ σ) (evs : List Ev) : Prop :=
  Ev.start e.ty e.uuid true ∈ evs ∨ Ev.kill true e.uuid true ∈ evs ∨
  Ev.create e.uuid e.ty false ∈ evs ∨ s'.dont e.ty = true

theorem stepLocked_spec (P : Pool σ) (e : Ent) (s : RQ σ) :
    StepSpec e s (stepLocked P e s).1 (stepLocked P e s).2.1 ∧
    (∀ u, Ev.unlock u ∈ (stepLocked P e s).2.1 → (stepLocked P e s).2.2 = true ∧ u = e.uuid) ∧
    ((stepLocked P e s).2.2 = false → Placed e (stepLocked P e s).1 (stepLocked P e s).2.1) ∧
    ((stepLocked P e s).2.2 = true → ∃ p, (P.atQuota p).1 = true) := by
  unfold stepLocked
  by_cases hu : s.unalloc e.ty > 0
  · rw [if_pos hu]
    dsimp only
    obtain ⟨hs, hnu, hout, _⟩ := tryStart_spec P e { s with unalloc := dec s.unalloc e.ty }
    refine ⟨stepSpec_of_dont_eq hs rfl, ?_, ?_, by simp⟩
    · intro u hm; exact (hnu _ hm u rfl).elim
    · intro _
      rcases hout with h | h | h
      · exact Or.inl h
      · exact Or.inr (Or.inl h)
      · exact Or.inr (Or.inr (Or.inr h))
  · rw [if_neg hu]
    by_cases hq : (P.atQuota s.pool).1 = true
    · rw [if_pos hq]
      refine ⟨stepSpec_plain rfl ?_ ?_, ?_, by simp, fun _ => ⟨s.pool, hq⟩⟩
      · intro ev hev; simp only [List.mem_singleton] at hev; subst hev; simp [Own]
      · intro ev hev; simp only [List.mem_singleton] at hev; subst hev; intro t u r h; cases h
      · intro u hm
        simp only [List.mem_singleton] at hm
        injection hm with h1
        exact ⟨rfl, h1⟩
    · rw [if_neg hq]
      by_cases hc : (P.create e.ty (P.atQuota s.pool).2).1 = true
      · rw [if_pos hc]
        dsimp only
        obtain ⟨hs, hnu, hout, _⟩ := tryStart_spec P e { s with pool := (P.create e.ty (P.atQuota s.pool).2).2 }
        refine ⟨stepSpec_cons (by simp [Own]) (by intro t u r h; cases h) (stepSpec_of_dont_eq hs rfl), ?_, ?_, by simp⟩
        · intro u hm
          rcases List.mem_cons.mp hm with h | h
          · cases h
          · exact (hnu _ h u rfl).elim
        · intro _
          rcases hout with h | h | h
          · exact Or.inl (List.mem_cons_of_mem _ h)
          · exact Or.inr (Or.inl (List.mem_cons_of_mem _ h))
          · exact Or.inr (Or.inr (Or.inr h))
      · rw [if_neg hc]
        refine ⟨stepSpec_plain rfl ?_ ?_, ?_, ?_, by simp⟩
        · intro ev hev; simp only [List.mem_singleton] at hev; subst hev; simp [Own]
        · intro ev hev; simp only [List.mem_singleton] at hev; subst hev; intro t u r h; cases h
        · intro u hm; simp only [List.mem_singleton] at hm; cases hm
        · intro _; exact Or.inr (Or.inr (Or.inl (by simp)))

theorem stepQueued_spec (P : Pool σ) (e : Ent) (s : RQ σ) :
    StepSpec e s (stepQueued P e s).1 (stepQueued P e s).2.1 ∧
    NoUnlock (stepQueued P e s).2.1 ∧ NoStart (stepQueued P e s).2.1 ∧
    ((stepQueued P e s).2.2 = true → ∃ p, (P.atQuota p).1 = true) := by
  unfold stepQueued
  generalize hqd : (if s.unalloc e.ty < 1 then P.atQuota s.pool else (false, s.pool)) = q
  by_cases hq : q.1 = true
  · rw [if_pos hq]
    refine ⟨stepSpec_plain rfl (by simp) (by simp [NoStart]), by simp [NoUnlock], by simp [NoStart], ?_⟩
    intro _
    by_cases hu : s.unalloc e.ty < 1
    · rw [if_pos hu] at hqd; exact ⟨s.pool, by rw [hqd]; exact hq⟩
    · rw [if_neg hu] at hqd; rw [← hqd] at hq; cases hq
  · rw [if_neg hq]
    by_cases hk : (P.kill false e.uuid q.2).1 = true
    · rw [if_pos hk]
      have hns : NoStart [Ev.kill false e.uuid true] := by
        intro ev hev; simp only [List.mem_singleton] at hev; subst hev; intro t u r h; cases h
      refine ⟨stepSpec_plain rfl ?_ hns, ?_, hns, by simp⟩
      · intro ev hev; simp only [List.mem_singleton] at hev; subst hev; simp [Own]
      · intro ev hev; simp only [List.mem_singleton] at hev; subst hev; intro u h; cases h
    · rw [if_neg hk]
      have hns : NoStart [Ev.kill false e.uuid false, Ev.lockgo e.uuid] := by
        intro ev hev
        simp only [List.mem_cons, List.not_mem_nil, or_false] at hev
        rcases hev with rfl | rfl <;> (intro t u r h; cases h)
      refine ⟨stepSpec_plain rfl ?_ hns, ?_, hns, by simp⟩
      · intro ev hev
        simp only [List.mem_cons, List.not_mem_nil, or_false] at hev
        rcases hev with rfl | rfl <;> simp [Own]
      · intro ev hev
        simp only [List.mem_cons, List.not_mem_nil, or_false] at hev
        rcases hev with rfl | rfl <;> (intro u h; cases h)

/-! ### one entry -/

theorem stepEnt_spec (P : Pool σ) (e : Ent) (s : RQ σ) :
    StepSpec e s (stepEnt P e s).1 (stepEnt P e s).2.1 ∧
    (∀ ev ∈ (stepEnt P e s).2.1, e.running = false ∧ 1 ≤ e.prio) ∧
    (∀ u, Ev.unlock u ∈ (stepEnt P e s).2.1 → (stepEnt P e s).2.2 = true ∧ e.st = .locked ∧ u = e.uuid) ∧
    (∀ t u r, Ev.start t u r ∈ (stepEnt P e s).2.1 → e.st = .locked) ∧
    (Cand e → (stepEnt P e s).2.2 = false → Placed e (stepEnt P e s).1 (stepEnt P e s).2.1) ∧
    ((stepEnt P e s).2.2 = true → ∃ p, (P.atQuota p).1 = true) := by
  unfold stepEnt
  have hplain : StepSpec e s s [] := stepSpec_plain rfl (by simp) (by simp [NoStart])
  by_cases hskip : e.running = true ∨ e.prio < 1
  · rw [if_pos hskip]
    refine ⟨hplain, by simp, by simp, by simp, ?_, by simp⟩
    intro hc _
    rcases hskip with h | h
    · rw [hc.2.1] at h; cases h
    · have := hc.2.2; omega
  · rw [if_neg hskip]
    have hlive : e.running = false ∧ 1 ≤ e.prio := by
      constructor
      · cases hr : e.running with
        | false => rfl
        | true => exact (hskip (Or.inl hr)).elim
      · have : ¬ e.prio < 1 := fun h => hskip (Or.inr h)
        omega
    cases hst : e.st with
    | queued =>
      obtain ⟨hs, hnu, hns, hq⟩ := stepQueued_spec P e s
      refine ⟨hs, fun _ _ => hlive, ?_, ?_, ?_, hq⟩
      · intro u hm; exact (hnu _ hm u rfl).elim
      · intro t u r hm; exact (hns _ hm t u r rfl).elim
      · intro hc; have h1 := hc.1; rw [hst] at h1; cases h1
    | locked =>
      obtain ⟨hs, hul, hpl, hq⟩ := stepLocked_spec P e s
      refine ⟨hs, fun _ _ => hlive, ?_, fun _ _ _ _ => rfl, fun _ => hpl, hq⟩
      intro u hm
      exact ⟨(hul u hm).1, rfl, (hul u hm).2⟩
    | other =>
      refine ⟨hplain, by simp, by simp, by simp, ?_, by simp⟩
      intro hc; have h1 := hc.1; rw [hst] at h1; cases h1

/-! ### the loop -/

theorem loop_cons_brk (P : Pool σ) (e : Ent) (rest : List Ent) (s : RQ σ)
    (h : (stepEnt P e s).2.2 = true) :
    loop P (e :: rest) s = ((stepEnt P e s).1, (stepEnt P e s).2.1, e :: rest) := by
  simp only [loop, h, if_true]

theorem loop_cons_cont (P : Pool σ) (e : Ent) (rest : List Ent) (s : RQ σ)
    (h : (stepEnt P e s).2.2 = false) :
    loop P (e :: rest) s =
      ((loop P rest (stepEnt P e s).1).1,
       (stepEnt P e s).2.1 ++ (loop P rest (stepEnt P e s).1).2.1,
       (loop P rest (stepEnt P e s).1).2.2) := by
  simp only [loop, h, Bool.false_eq_true, if_false]

/-- every call of the loop belongs to a live entry of the list; a latched type sees no
StartContainer; `overquota` is a suffix of the list; an Unlock inside the loop is for the head of
`overquota`; the loop stops early only after the pool answered AtQuota() = true -/
theorem loop_basic (P : Pool σ) (es : List Ent) (s : RQ σ) :
    (∀ ev ∈ (loop P es s).2.1, ∃ e ∈ es, Own e ev ∧ e.running = false ∧ 1 ≤ e.prio ∧
        (∀ t u r, ev = Ev.start t u r → e.st = .locked)) ∧
    (∀ t, s.dont t = true → ∀ ev ∈ (loop P es s).2.1, ¬ IsStartOn t ev) ∧
    (∃ kept, es = kept ++ (loop P es s).2.2) ∧
    (∀ u, Ev.unlock u ∈ (loop P es s).2.1 →
        ∃ e rest', (loop P es s).2.2 = e :: rest' ∧ e.st = .locked ∧ e.uuid = u) ∧
    ((loop P es s).2.2 ≠ [] → ∃ p, (P.atQuota p).1 = true) := by
  induction es generalizing s with
  | nil =>
    refine ⟨by simp [loop], by simp [loop], ⟨[], by simp [loop]⟩, by simp [loop], by simp [loop]⟩
  | cons e rest ih =>
    obtain ⟨hs, hlive, hul, hst, _, hq⟩ := stepEnt_spec P e s
    cases hb : (stepEnt P e s).2.2 with
    | true =>
      rw [loop_cons_brk P e rest s hb]
      refine ⟨?_, ?_, ⟨[], rfl⟩, ?_, fun _ => hq hb⟩
      · intro ev hev
        exact ⟨e, List.mem_cons_self, hs.own ev hev, (hlive ev hev).1, (hlive ev hev).2,
          fun t u r h => hst t u r (h ▸ hev)⟩
      · intro t ht ev hev; exact hs.latched t ht ev hev
      · intro u hm; exact ⟨e, rest, rfl, (hul u hm).2.1, (hul u hm).2.2.symm⟩
    | false =>
      rw [loop_cons_cont P e rest s hb]
      obtain ⟨i1, i2, ⟨kept, i3⟩, i4, i5⟩ := ih (stepEnt P e s).1
      refine ⟨?_, ?_, ⟨e :: kept, ?_⟩, ?_, i5⟩
      · intro ev hev
        rcases List.mem_append.mp hev with h | h
        · exact ⟨e, List.mem_cons_self, hs.own ev h, (hlive ev h).1, (hlive ev h).2,
            fun t u r h' => hst t u r (h' ▸ h)⟩
        · obtain ⟨e', he', hrest⟩ := i1 ev h
          exact ⟨e', List.mem_cons_of_mem _ he', hrest⟩
      · intro t ht ev hev
        rcases List.mem_append.mp hev with h | h
        · exact hs.latched t ht ev h
        · exact i2 t (hs.mono t ht) ev h
      · simp only [List.cons_append]; exact congrArg _ i3
      · intro u hm
        rcases List.mem_append.mp hm with h | h
        · have := (hul u h).1; rw [hb] at this; cases this
        · exact i4 u h

/-- the `dontstart` latch: after a failed StartContainer on type `t` the loop makes no further
StartContainer call on `t` -/
theorem loop_failLatch (P : Pool σ) (es : List Ent) (s : RQ σ) (pre post : List Ev) (t u : Nat)
    (h : (loop P es s).2.1 = pre ++ Ev.start t u false :: post) :
    ∀ ev ∈ post, ¬ IsStartOn t ev := by
  induction es generalizing s pre with
  | nil => simp [loop] at h
  | cons e rest ih =>
    obtain ⟨hs, _, _, _, _, _⟩ := stepEnt_spec P e s
    cases hb : (stepEnt P e s).2.2 with
    | true =>
      rw [loop_cons_brk P e rest s hb] at h
      have := shape_startLast hs.shape h
      subst this; simp
    | false =>
      rw [loop_cons_cont P e rest s hb] at h
      rcases append_split h with ⟨post', h1, h2⟩ | ⟨pre', _, h2⟩
      · have hnil := shape_startLast hs.shape h1
        subst hnil
        have hd : (stepEnt P e s).1.dont t = true := hs.failLatch t u (by rw [h1]; simp)
        intro ev hev
        rw [h2, List.nil_append] at hev
        exact (loop_basic P rest (stepEnt P e s).1).2.1 t hd ev hev
      · exact ih (stepEnt P e s).1 pre' h2

/-- Priority order inside the loop. -/
theorem loop_priority (P : Pool σ) (es : List Ent) (s : RQ σ)
    (hsorted : es.Pairwise (fun a b => b.prio ≤ a.prio))
    (hnodup : es.Pairwise (fun a b => a.uuid ≠ b.uuid))
    (pre post : List Ev) (t ub : Nat)
    (h : (loop P es s).2.1 = pre ++ Ev.start t ub true :: post)
    (a b : Ent) (ha : a ∈ es) (hb : b ∈ es) (hbu : b.uuid = ub)
    (hal : a.st = .locked) (har : a.running = false) (hat : a.ty = t) (hpr : b.prio < a.prio) :
    Ev.start a.ty a.uuid true ∈ pre ∨ Ev.kill true a.uuid true ∈ pre ∨
      Ev.create a.uuid a.ty false ∈ pre := by
  induction es generalizing s pre with
  | nil => cases ha
  | cons e rest ih =>
    obtain ⟨hs, _, _, _, hplaced, _⟩ := stepEnt_spec P e s
    obtain ⟨hsort1, hsort2⟩ := List.pairwise_cons.mp hsorted
    obtain ⟨hnd1, hnd2⟩ := List.pairwise_cons.mp hnodup
    -- a StartContainer(b) among the calls of the head entry is impossible: then b is the head,
    -- and nothing in the list has a higher priority than the head
    have headCase : ∀ pre' post', (stepEnt P e s).2.1 = pre' ++ Ev.start t ub true :: post' → False := by
      intro pre' post' h1
      have hown := hs.own (Ev.start t ub true) (by rw [h1]; simp)
      have hue : ub = e.uuid := hown.1
      have hbe : b = e := by
        rcases List.mem_cons.mp hb with h | h
        · exact h
        · exact (hnd1 b h (by rw [hbu, hue])).elim
      subst hbe
      rcases List.mem_cons.mp ha with h | h
      · subst h; omega
      · have := hsort1 a h; omega
    cases hbk : (stepEnt P e s).2.2 with
    | true =>
      rw [loop_cons_brk P e rest s hbk] at h
      exact (headCase pre post h).elim
    | false =>
      rw [loop_cons_cont P e rest s hbk] at h
      rcases append_split h with ⟨post', h1, _⟩ | ⟨pre', hp, h2⟩
      · exact (headCase pre post' h1).elim
      · -- the StartContainer(b) happens while handling the rest of the list
        have hmem : Ev.start t ub true ∈ (loop P rest (stepEnt P e s).1).2.1 := by rw [h2]; simp
        obtain ⟨e', he', hown', _, hprio', _⟩ := (loop_basic P rest (stepEnt P e s).1).1 _ hmem
        have hue' : ub = e'.uuid := hown'.1
        have hbrest : b ∈ rest := by
          rcases List.mem_cons.mp hb with h | h
          · subst h; exact (hnd1 e' he' (by rw [← hue', hbu])).elim
          · exact h
        have hbe' : b = e' := eq_of_uuid_eq hnd2 hbrest he' (by rw [hbu, hue'])
        rcases List.mem_cons.mp ha with h | h
        · -- a is the head entry
          subst h
          have hcand : Cand a := ⟨hal, har, by rw [hbe'] at hpr; omega⟩
          rcases hplaced hcand hbk with hp1 | hp1 | hp1 | hp1
          · exact Or.inl (by rw [hp]; exact List.mem_append_left _ hp1)
          · exact Or.inr (Or.inl (by rw [hp]; exact List.mem_append_left _ hp1))
          · exact Or.inr (Or.inr (by rw [hp]; exact List.mem_append_left _ hp1))
          · -- the latch of type t is set: no StartContainer on t can follow
            exfalso
            rw [hat] at hp1
            exact (loop_basic P rest (stepEnt P a s).1).2.1 t hp1 _ hmem ⟨ub, true, rfl⟩
        · rcases ih (stepEnt P e s).1 hsort2 hnd2 pre' h2 h hbrest with r | r | r
          · exact Or.inl (by rw [hp]; exact List.mem_append_right _ r)
          · exact Or.inr (Or.inl (by rw [hp]; exact List.mem_append_right _ r))
          · exact Or.inr (Or.inr (by rw [hp]; exact List.mem_append_right _ r))

/-! ### after the loop -/

theorem mem_unlockTail (l : List Ent) (ev : Ev) :
    ev ∈ unlockTail l ↔ ∃ e ∈ l, e.st = .locked ∧ ev = Ev.unlock e.uuid := by
  induction l with
  | nil => simp [unlockTail]
  | cons x rest ih =>
    unfold unlockTail
    by_cases hx : x.st = .locked
    · rw [if_pos hx, List.mem_cons, ih]
      constructor
      · rintro (h | ⟨e, he, h⟩)
        · exact ⟨x, List.mem_cons_self, hx, h⟩
        · exact ⟨e, List.mem_cons_of_mem _ he, h⟩
      · rintro ⟨e, he, h1, h2⟩
        rcases List.mem_cons.mp he with rfl | he'
        · exact Or.inl h2
        · exact Or.inr ⟨e, he', h1, h2⟩
    · rw [if_neg hx, ih]
      constructor
      · rintro ⟨e, he, h⟩; exact ⟨e, List.mem_cons_of_mem _ he, h⟩
      · rintro ⟨e, he, h1, h2⟩
        rcases List.mem_cons.mp he with rfl | he'
        · exact (hx h1).elim
        · exact ⟨e, he', h1, h2⟩

theorem mem_shutdownIdle (un : Nat → Int) (ks : List Nat) (ev : Ev) :
    ev ∈ shutdownIdle un ks ↔ ∃ t ∈ ks, 1 ≤ un t ∧ ev = Ev.shutdown t := by
  induction ks with
  | nil => simp [shutdownIdle]
  | cons k rest ih =>
    unfold shutdownIdle
    by_cases hk : un k < 1
    · rw [if_pos hk, ih]
      constructor
      · rintro ⟨t, ht, h⟩; exact ⟨t, List.mem_cons_of_mem _ ht, h⟩
      · rintro ⟨t, ht, h1, h2⟩
        rcases List.mem_cons.mp ht with rfl | ht'
        · omega
        · exact ⟨t, ht', h1, h2⟩
    · rw [if_neg hk, List.mem_cons, ih]
      constructor
      · rintro (h | ⟨t, ht, h⟩)
        · exact ⟨k, List.mem_cons_self, by omega, h⟩
        · exact ⟨t, List.mem_cons_of_mem _ ht, h⟩
      · rintro ⟨t, ht, h1, h2⟩
        rcases List.mem_cons.mp ht with rfl | ht'
        · exact Or.inl h2
        · exact Or.inr ⟨t, ht', h1, h2⟩

theorem mem_finish (keys : List Nat) (un : Nat → Int) (tail : List Ent) (ev : Ev) :
    ev ∈ finish keys un tail ↔
      tail ≠ [] ∧ ((∃ e ∈ tail, e.st = .locked ∧ ev = Ev.unlock e.uuid) ∨
                   (∃ t ∈ keys, 1 ≤ un t ∧ ev = Ev.shutdown t)) := by
  unfold finish
  by_cases ht : tail = []
  · rw [if_pos ht]; simp [ht]
  · rw [if_neg ht, List.mem_append, mem_unlockTail, mem_shutdownIdle]
    simp [ht]

theorem finish_noStart (keys : List Nat) (un : Nat → Int) (tail : List Ent) :
    ∀ ev ∈ finish keys un tail, ∀ t u r, ev ≠ Ev.start t u r := by
  intro ev hev t u r h
  rcases (mem_finish keys un tail ev).mp hev with ⟨_, ⟨e, _, _, h'⟩ | ⟨t', _, _, h'⟩⟩
  · rw [h] at h'; cases h'
  · rw [h] at h'; cases h'

end ArvVerif.C16.RQ
