/-
C14 layer L3: the inductive invariant of the protocol model and its preservation by every step.
-/
import ArvVerif.Model.C14_Proto
import ArvVerif.Proofs.C14_L2
namespace ArvVerif.C14

/-- The inductive invariant. `m1` is mutual exclusion; the rest is what makes it inductive. -/
structure Inv (s : PState) : Prop where
  /-- stamps are in the past -/
  clkW : ∀ i w, s.wk i = some w → w.updated ≤ s.clock
  clkP : ∀ i st smp, s.probe i = some (st, smp) → st ≤ s.clock
  /-- an Idle worker tracks nothing -/
  idleEmpty : ∀ i w, s.wk i = some w → w.state = .idle → w.running = [] ∧ w.starting = []
  /-- Idle/Running workers have been probed since the restart -/
  activeProbed : ∀ i w, s.wk i = some w → (w.state = .idle ∨ w.state = .running) → s.probed i = true
  /-- no start command is outstanding on an unprobed instance -/
  outProbed : ∀ i, s.probed i = false → s.out i = none
  /-- a start command not yet executed is in its worker's `starting` -/
  outStarting : ∀ i c, s.out i = some (c, false) → ∃ w, s.wk i = some w ∧ c ∈ w.starting
  /-- instances that do not exist run nothing -/
  deadEmpty : ∀ i, s.live i = false → s.procs i = []
  /-- I1: on a probed instance every process is claimed by its worker -/
  tracked : ∀ i c, s.probed i = true → c ∈ s.procs i → s.claims i c
  /-- I4 (from A1): while scheduling, unprobed instances run nothing -/
  unprobedEmpty : s.phase = .scheduling → ∀ i, s.probed i = false → s.procs i = []
  /-- a fresh sampled probe: everything running now was sampled or is still starting -/
  pJ : ∀ i st seen w, s.probe i = some (st, some seen) → s.wk i = some w → st = w.updated →
        ∀ c ∈ s.procs i, c ∈ seen ∨ c ∈ w.starting
  /-- … everything it sampled is still claimed -/
  pJ3 : ∀ i st seen w, s.probe i = some (st, some seen) → s.wk i = some w → st = w.updated →
        s.probed i = true → ∀ c ∈ seen, c ∈ w.running ∨ c ∈ w.starting
  /-- … and is not about to be started again on this worker -/
  pJ2 : ∀ i st seen w, s.probe i = some (st, some seen) → s.wk i = some w → st = w.updated →
        ∀ c ∈ seen, s.out i ≠ some (c, false)
  /-- **mutual exclusion**: a container has processes on at most one instance -/
  m1 : ∀ c i j, c ∈ s.procs i → c ∈ s.procs j → i = j
  /-- a container with a process has no start pending anywhere -/
  m2 : ∀ c i j, c ∈ s.procs i → s.out j ≠ some (c, false)
  /-- at most one pending start per container -/
  m3 : ∀ c i j, s.out i = some (c, false) → s.out j = some (c, false) → i = j
  /-- after `KillContainer(c) = false` (and until the next scheduler call) `c` has no process and
  no pending start -/
  kf : ∀ c, s.lastKillFalse = some c → (∀ i, c ∉ s.procs i) ∧ (∀ i, s.out i ≠ some (c, false))

theorem Inv_init : Inv PState.init := by
  constructor <;> simp [PState.init, PState.claims]

theorem upd_eq {α : Type} (f : Nat → α) (i j : Nat) (v : α) :
    upd f i v j = if j = i then v else f j := rfl

theorem Inv_instCreate {s : PState} (h : Inv s) (i : Nat)
    (h1 : s.live i = false) (h2 : s.wk i = none) (h3 : s.out i = none) (h4 : s.probe i = none) :
    Inv { s with live := upd s.live i true, procs := upd s.procs i [], probed := upd s.probed i true } := by
  have hp := h.deadEmpty i h1
  constructor <;> simp only [upd_eq, PState.claims] <;> intros <;> grind [Inv, PState.claims]


macro "inv_auto" : tactic =>
  `(tactic| (constructor <;> simp only [upd_eq, PState.claims] <;> intros <;> grind [Inv, PState.claims]))

theorem Inv_instDestroy {s : PState} (h : Inv s) (i : Nat) :
    Inv { s with live := upd s.live i false, procs := upd s.procs i [] } := by
  inv_auto

theorem Inv_procExit {s : PState} (h : Inv s) (i : Nat) (c : Uuid) :
    Inv { s with procs := upd s.procs i (sRemove (s.procs i) c) } := by
  have hsub : ∀ v, v ∈ sRemove (s.procs i) c → v ∈ s.procs i := fun v hv => (mem_sRemove.mp hv).1
  have hempty : s.procs i = [] → sRemove (s.procs i) c = [] := by intro e; simp [e, sRemove]
  inv_auto

theorem Inv_poolAdd {s : PState} (h : Inv s) (i : Nat) (st : WState) (ib : IdleB) (it : IType)
    (h1 : s.wk i = none) (h2 : st = .unknown ∨ st = .booting) :
    Inv { s with
      wk := upd s.wk i (some { id := i, itype := it, state := st, idleB := ib, starting := [],
                               running := [], updated := s.clock + 1, busy := s.clock + 1,
                               probed := s.clock + 1 }),
      clock := s.clock + 1 } := by
  inv_auto

theorem Inv_poolTouch {s : PState} (h : Inv s) (i : Nat) (w : Worker) (h1 : s.wk i = some w) :
    Inv { s with wk := upd s.wk i (some { w with updated := s.clock + 1 }), clock := s.clock + 1 } := by
  inv_auto

theorem Inv_poolRemove {s : PState} (h : Inv s) (i : Nat) (h1 : s.live i = false) :
    Inv { s with wk := upd s.wk i none, out := upd s.out i none, probe := upd s.probe i none } := by
  have hp := h.deadEmpty i h1
  inv_auto

theorem Inv_probeBegin {s : PState} (h : Inv s) (i : Nat) (w : Worker)
    (h1 : s.wk i = some w) (h2 : s.probe i = none) (h3 : w.state ≠ .shutdown) :
    Inv { s with probe := upd s.probe i (some (w.updated, none)) } := by
  inv_auto

theorem Inv_probeSample {s : PState} (h : Inv s) (i : Nat) (st : Nat)
    (h1 : s.probe i = some (st, none)) (h2 : s.live i = true) :
    Inv { s with probe := upd s.probe i (some (st, some (s.procs i))) } := by
  inv_auto

theorem Inv_schedKillTrue {s : PState} (h : Inv s) (c : Uuid) :
    Inv { s with lastKillFalse := none } := by
  inv_auto

theorem Inv_schedKillFalse {s : PState} (h : Inv s) (c : Uuid) (h1 : s.phase = .scheduling)
    (h2 : ∀ i, ¬ s.claims i c) :
    Inv { s with lastKillFalse := some c } := by
  inv_auto

theorem Inv_restart {s : PState} (h : Inv s) :
    Inv { s with wk := fun _ => none, out := fun _ => none, probe := fun _ => none,
                 probed := fun _ => false, lastKillFalse := none, phase := .recovering } := by
  inv_auto

theorem Inv_recoveryDone {s : PState} (h : Inv s) (h1 : s.phase = .recovering) (hA1 : A1 s) :
    Inv { s with phase := .scheduling } := by
  unfold A1 at hA1
  inv_auto

theorem Inv_schedOther {s : PState} (h : Inv s) : Inv { s with lastKillFalse := none } := by
  inv_auto

theorem Inv_schedStart {s : PState} (h : Inv s) (i : Nat) (c : Uuid) (w : Worker)
    (h1 : s.phase = .scheduling) (h2 : s.lastKillFalse = some c) (h3 : s.wk i = some w)
    (h4 : w.state = .idle) (h5 : w.idleB = .run) :
    Inv { s with wk := upd s.wk i (some (w.accept c)), out := upd s.out i (some (c, false)),
                 lastKillFalse := none } := by
  have a1 := Worker.accept_starting w c
  have a2 := Worker.accept_running w c
  have a3 := Worker.accept_state w c
  have a4 := Worker.accept_updated w c
  have hk := h.kf c h2
  have he := h.idleEmpty i w h3 h4
  have hpr := h.activeProbed i w h3 (Or.inl h4)
  inv_auto

theorem Inv_startExec {s : PState} (h : Inv s) (i : Nat) (c : Uuid) (b : Bool)
    (h1 : s.out i = some (c, false)) :
    Inv { s with out := upd s.out i (some (c, true)),
                 procs := if s.live i && b then upd s.procs i (sInsert (s.procs i) c) else s.procs } := by
  have hm : ∀ v, v ∈ sInsert (s.procs i) c ↔ v ∈ s.procs i ∨ v = c := fun v => mem_sInsert
  obtain ⟨w, hw, hcs⟩ := h.outStarting i c h1
  by_cases hb : (s.live i && b) = true
  · simp only [hb, if_true]
    have hlive : s.live i = true := by simp at hb; exact hb.1
    inv_auto
  · simp only [hb]
    inv_auto

theorem Inv_startDone {s : PState} (h : Inv s) (i : Nat) (c : Uuid) (w : Worker)
    (h1 : s.out i = some (c, true)) (h2 : s.wk i = some w) :
    Inv { s with wk := upd s.wk i (some (w.startDone c (s.clock + 1))), out := upd s.out i none,
                 clock := s.clock + 1 } := by
  by_cases hc : c ∈ w.starting
  · have a1 := fun v => Worker.startDone_starting w c v (s.clock + 1)
    have a2 := fun v => Worker.startDone_running w c v (s.clock + 1)
    have a3 := Worker.startDone_state w c (s.clock + 1)
    have a4 : (w.startDone c (s.clock + 1)).updated = s.clock + 1 := by
      rw [Worker.startDone_updated]; simp [hc]
    have hni : w.state ≠ .idle := fun hi => by
      have := (h.idleEmpty i w h2 hi).2; rw [this] at hc; cases hc
    generalize (w.startDone c (s.clock + 1)) = r at a1 a2 a3 a4
    inv_auto
  · rw [Worker.startDone_of_not_mem _ hc]
    inv_auto

theorem Inv_killed {s : PState} (h : Inv s) (i : Nat) (c : Uuid) (w : Worker)
    (h1 : s.wk i = some w) (h2 : c ∉ s.procs i) :
    Inv { s with wk := upd s.wk i (some (w.closeRunner c (s.clock + 1)).1), clock := s.clock + 1 } := by
  obtain ⟨c1, c2, _, c4, c5, c6⟩ := Worker.closeRunner_spec w c (s.clock + 1)
  generalize (w.closeRunner c (s.clock + 1)).1 = r at c1 c2 c4 c5 c6
  by_cases hc : c ∈ w.running
  · have hu := c4 hc
    inv_auto
  · have hr := c5 hc
    subst hr
    inv_auto

theorem Inv_shutdown {s : PState} (h : Inv s) (i : Nat) (w : Worker) (h1 : s.wk i = some w) :
    Inv { s with wk := upd s.wk i (some (w.shutdown (s.clock + 1))), clock := s.clock + 1 } := by
  have a1 := Worker.shutdown_starting w (s.clock + 1)
  have a2 := Worker.shutdown_running w (s.clock + 1)
  have a3 := Worker.shutdown_state w (s.clock + 1)
  have a4 := Worker.shutdown_updated w (s.clock + 1)
  generalize (w.shutdown (s.clock + 1)) = r at a1 a2 a3 a4
  inv_auto

theorem Inv_setIdle {s : PState} (h : Inv s) (i : Nat) (w : Worker) (b : IdleB) (t g : Bool)
    (h1 : s.wk i = some w) :
    Inv { s with wk := upd s.wk i (some (w.setIdleBehavior b t g (s.clock + 1))), clock := s.clock + 1 } := by
  obtain ⟨a1, a2, _, a4⟩ := Worker.setIdleBehavior_spec w b t g (s.clock + 1)
  generalize (w.setIdleBehavior b t g (s.clock + 1)) = r at a1 a2 a4
  inv_auto

end ArvVerif.C14
