/-
C17 — which mounted collection is extracted where. `Jumps h cfg d x`: the positions at which
`walkMount(d, x, …, true)` is called (the output root, and the target of every link that `Shows`
reaches). `fragOf cfg d x` is what `walkMount` itself appends to `cp.manifest` there (the extract
of the read-only collection that contains `x`, relocated to `d`); `belowFrags cfg d x` what
`walkMountsBelow(d, x)` appends (every mount strictly below `x`, at `d` + its relative path).
`scan_frags_sound`: every item of the plan's manifest text comes from one of these.
-/
import ArvVerif.Proofs.C17_Run
set_option linter.unusedSimpArgs false
namespace ArvVerif.C17

inductive Jumps (h : Host) (cfg : Cfg) : Path → Path → Prop
  | root : Jumps h cfg [] cfg.ctrOut
  | link {d s : Path} {a : Bool} {t : Path} : Shows h cfg d s → nodeAt h cfg s = some (.link a t) →
      Jumps h cfg d (linkTarget s a t)

/-- manifest text `walkMount(dest, x, …)` appends by itself -/
def fragOf (cfg : Cfg) (dest x : Path) : List Frag :=
  if underSecret cfg x (rootLen (srcMount cfg x)) then [] else
  match srcMount cfg x with
  | none => []
  | some (root, m) =>
    if m.exclude then []
    else if m.kind = "tmp" then []
    else if m.kind ≠ "collection" then []
    else if ¬ m.writable then
      match m.coll with
      | none => []
      | some c => extract c (cleanRel (m.path ++ x.drop root.length)) dest
    else []

/-- manifest text `walkMountsBelow(dest, x)` appends -/
def belowFrags (cfg : Cfg) (dest x : Path) : List Frag :=
  cfg.mounts.flatMap fun e =>
    if x.isPrefixOf e.1 ∧ x.length < e.1.length ∧ ¬ copyRegular e.2 then fragOf cfg (dest ++ e.1.drop x.length) e.1
    else []

/-- `x` is not hidden by a secret mount -/
def notSecret (cfg : Cfg) (x : Path) : Prop := underSecret cfg x (rootLen (srcMount cfg x)) = false

def FragJust (h : Host) (cfg : Cfg) (st : Plan) : Prop :=
  ∀ f ∈ st.frags, ∃ d x, Jumps h cfg d x ∧ (f ∈ fragOf cfg d x ∨ (notSecret cfg x ∧ f ∈ belowFrags cfg d x))

theorem FragJust.addDir {h : Host} {cfg : Cfg} {st : Plan} (j : FragJust h cfg st) (d : Path) :
    FragJust h cfg (st.addDir d) := by
  unfold Plan.addDir; split <;> exact j

theorem FragJust.addKeep {h : Host} {cfg : Cfg} {st : Plan} (j : FragJust h cfg st) (d : Path) :
    FragJust h cfg (st.addKeep d) := by
  unfold Plan.addKeep; split <;> exact j

theorem FragJust.addFile {h : Host} {cfg : Cfg} {st : Plan} (j : FragJust h cfg st) (d p : Path) :
    FragJust h cfg (st.addFile d p) := j

/-- the mount `x` at destination `d` is one of the mounts below the jump position `(d0, x0)` -/
def BelowOf (cfg : Cfg) (d0 x0 d x : Path) : Prop :=
  ∃ m, (x, m) ∈ cfg.mounts ∧ x0.isPrefixOf x = true ∧ x0.length < x.length ∧ copyRegular m = false ∧
    d = d0 ++ x.drop x0.length

theorem mem_belowFrags (cfg : Cfg) (d0 x0 d x : Path) (hb : BelowOf cfg d0 x0 d x) (f : Frag)
    (hf : f ∈ fragOf cfg d x) : f ∈ belowFrags cfg d0 x0 := by
  obtain ⟨m, hm, h1, h2, h3, h4⟩ := hb
  unfold belowFrags
  rw [List.mem_flatMap]
  refine ⟨(x, m), hm, ?_⟩
  simp only [h1, h2, h3, Bool.false_eq_true, not_false_eq_true, and_self, if_true]
  rw [← h4]; exact hf

def FragPre (h : Host) (cfg : Cfg) : Call → Prop
  | .mount dest src _ below =>
    (InOut cfg src → Shows h cfg dest src ∧ Canon h cfg src) ∧
    (below = true → Jumps h cfg dest src) ∧
    (below = false → ∃ d0 x0, Jumps h cfg d0 x0 ∧ notSecret cfg x0 ∧ BelowOf cfg d0 x0 dest src)
  | .below dest src _ ms =>
    ¬ ProperPrefix src cfg.ctrOut ∧ (∀ e ∈ ms, e ∈ cfg.mounts) ∧ Jumps h cfg dest src ∧ notSecret cfg src
  | .host dest src _ inc =>
    Shows h cfg dest src ∧ Canon h cfg src ∧ (inc = true → Jumps h cfg dest src ∧ notSecret cfg src)
  | .children dest src _ names =>
    Shows h cfg dest src ∧ Canon h cfg src ∧ nodeAt h cfg src = some .dir ∧
    ∀ c ∈ names, CleanName c ∧ ∃ n, nodeAt h cfg (src ++ [c]) = some n

theorem scan_frags_walk (h : Host) (cfg : Cfg) (hwf : HostWF h) (wf : CfgWF h cfg)
    (hout : h.get cfg.hostOut = some .dir) (hs : supported cfg = true) (hdirect : Direct h cfg) :
    ∀ (fuel : Nat) (c : Call) (st st' : Plan), walk h cfg fuel c st = .ok st' →
      FragPre h cfg c → FragJust h cfg st → FragJust h cfg st' := by
  intro fuel
  induction fuel with
  | zero => intro c st st' hw; rw [walk] at hw; cases hw
  | succ fuel ih =>
    intro c st st' hw hcj hj
    cases c with
    | mount dest src n below =>
      obtain ⟨hcj1, hcj2, hcj3⟩ := hcj
      rw [walk] at hw
      simp only at hw
      split at hw
      · cases hw; exact hj
      · rename_i hsec
        have hns : notSecret cfg src := by simpa [notSecret] using hsec
        cases hsm : srcMount cfg src with
        | none => rw [hsm] at hw; cases hw
        | some b =>
          obtain ⟨root, m⟩ := b
          rw [hsm] at hw
          obtain ⟨hmem, hpre, hlen⟩ := srcMount_mem cfg src (root, m) hsm
          simp only at hw
          have hcont : ∀ s1 : Plan, FragJust h cfg s1 →
              (if below = true then walk h cfg fuel (.below dest src n cfg.mounts) s1 else .ok s1) = .ok st' →
              FragJust h cfg st' := by
            intro s1 hj1 hc
            split at hc
            · rename_i hb
              refine ih _ _ _ hc ⟨?_, fun e he => he, hcj2 hb, hns⟩ hj1
              intro hpp
              exact supported_above cfg hs (root, m) hmem
                ⟨prefix_trans' _ _ _ hpre hpp.1, Nat.lt_of_le_of_lt (prefix_length_le _ _ hpre) hpp.2⟩
            · cases hc; exact hj1
          split at hw
          · exact hcont _ hj hw
          · rename_i hex
            split at hw
            · rename_i hk
              split at hw
              · rename_i hr
                have hin : InOut cfg src := by
                  refine ⟨hns, m, ?_, hk, by simpa using hex⟩
                  rw [hsm, hr]
                obtain ⟨hsh, hcan⟩ := hcj1 hin
                exact ih _ _ _ hw ⟨hsh, hcan, fun hb => ⟨hcj2 hb, hns⟩⟩ hj
              · cases hw
            · rename_i hk
              split at hw
              · cases hw
              · rename_i hkc
                split at hw
                · rename_i hwr
                  cases hc : m.coll with
                  | none => rw [hc] at hw; cases hw
                  | some c =>
                    rw [hc] at hw
                    refine hcont _ ?_ hw
                    -- the appended text is `fragOf cfg dest src`
                    have hfo : fragOf cfg dest src = extract c (cleanRel (m.path ++ src.drop root.length)) dest := by
                      unfold fragOf
                      have hns' : underSecret cfg src (rootLen (srcMount cfg src)) = false := hns
                      rw [hsm] at hns'
                      simp only [hsm, hns', Bool.false_eq_true, if_false, hex, hk, hkc, hwr, hc,
                        not_false_eq_true, if_true]
                    intro f hf
                    simp only [Plan.addFrags, List.mem_append] at hf
                    rcases hf with hf | hf
                    · exact hj f hf
                    · rw [← hfo] at hf
                      cases hb : below with
                      | true => exact ⟨dest, src, hcj2 hb, Or.inl hf⟩
                      | false =>
                        obtain ⟨d0, x0, hj0, hns0, hbo⟩ := hcj3 hb
                        exact ⟨d0, x0, hj0, Or.inr ⟨hns0, mem_belowFrags cfg d0 x0 dest src hbo f hf⟩⟩
                · cases hw
    | below dest src n ms =>
      cases ms with
      | nil => rw [walk] at hw; cases hw; exact hj
      | cons e ms =>
        obtain ⟨mnt, m⟩ := e
        obtain ⟨hpp, hsub, hjump, hns⟩ := hcj
        rw [walk] at hw
        have hrest : FragPre h cfg (.below dest src n ms) :=
          ⟨hpp, fun e he => hsub e (List.mem_cons_of_mem _ he), hjump, hns⟩
        split at hw
        · rename_i hc
          obtain ⟨a, ha, hr⟩ := bind_eq_ok _ _ _ hw
          refine ih _ _ _ hr hrest (ih _ _ _ ha ⟨?_, by simp, fun _ => ?_⟩ hj)
          · intro hin
            exfalso
            obtain ⟨_, m', hsm', _, _⟩ := hin
            have hm : (mnt, m) ∈ cfg.mounts := hsub _ (List.mem_cons_self ..)
            obtain ⟨m'', hself⟩ := srcMount_self cfg (mnt, m) hm (by show 0 < mnt.length; have := hc.2.1; omega)
            have : mnt = cfg.ctrOut := by
              have h1 : srcMount cfg mnt = some (mnt, m'') := hself
              rw [h1] at hsm'
              simp at hsm'
              exact hsm'.1
            exact hpp ⟨by rw [← this]; exact hc.1, by rw [← this]; exact hc.2.1⟩
          · exact ⟨dest, src, hjump, hns, m, hsub _ (List.mem_cons_self ..), hc.1, hc.2.1,
              by simpa using hc.2.2, rfl⟩
        · exact ih _ _ _ hw hrest hj
    | host dest src n inc =>
      obtain ⟨hsh, hcan, hinc⟩ := hcj
      rw [walk] at hw
      obtain ⟨a, ha, hr⟩ := bind_eq_ok _ _ _ hw
      have hja : FragJust h cfg a := by
        split at ha
        · rename_i hi
          obtain ⟨hjump, hns⟩ := hinc hi
          exact ih _ _ _ ha ⟨not_properPrefix_of_prefix _ _ hcan.pre, fun e he => he, hjump, hns⟩ hj
        · cases ha; exact hj
      have hnm : namei h [] (cfg.hostOut ++ src.drop cfg.ctrOut.length) 0
          = namei h [] (hostPath cfg src) 0 := rfl
      rw [hnm] at hr
      cases hst : namei h [] (hostPath cfg src) 0 with
      | enoent => rw [hst] at hr; cases hr
      | enotdir => rw [hst] at hr; cases hr
      | eloop => rw [hst] at hr; cases hr
      | found p node =>
        rw [hst] at hr
        obtain ⟨hp, hnode⟩ := host_node h cfg wf hout src hcan p node hst
        cases node with
        | special => cases hr
        | file content =>
          simp only at hr
          cases hr
          exact hja.addFile _ _
        | link abs t =>
          simp only at hr
          split at hr
          · cases hr
          · refine ih _ _ _ hr ⟨?_, fun _ => Jumps.link hsh hnode, by simp⟩ hja
            intro hin
            refine ⟨Shows.link hsh hnode hin, ?_⟩
            have hpne : p ≠ [] := by
              intro hp0
              have : h.get p = some (.link abs t) := by rw [hp]; exact hnode
              rw [hp0] at this
              simp [Host.get] at this
            have hmem : (p, Node.link abs t) ∈ h := mem_of_get h p _ hpne (by rw [hp]; exact hnode)
            have hrel : cfg.ctrOut ++ src.drop cfg.ctrOut.length = src := prefix_append_drop _ _ hcan.pre
            have := hdirect (p, .link abs t) hmem abs t rfl (src.drop cfg.ctrOut.length) (by rw [hp]; rfl)
            rw [hrel] at this
            exact this (inOut_pre cfg _ hin)
        | dir =>
          simp only at hr
          split at hr
          · cases hr
            exact (hja.addDir dest).addKeep dest
          · refine ih _ _ _ hr ?_ (hja.addDir dest)
            refine ⟨hsh, hcan, hnode, ?_⟩
            intro c hc
            rw [mem_sortNames] at hc
            obtain ⟨nd, hmem⟩ := mem_children h p c hc
            refine ⟨hwf.clean _ hmem c (by simp), nd, ?_⟩
            unfold nodeAt
            rw [hostPath_child cfg src c hcan.pre, ← hp]
            exact get_of_mem h hwf _ _ hmem
    | children dest src n names =>
      cases names with
      | nil => rw [walk] at hw; cases hw; exact hj
      | cons name names =>
        obtain ⟨hsh, hcan, hdir, hall⟩ := hcj
        rw [walk] at hw
        have hrest : FragPre h cfg (.children dest src n names) :=
          ⟨hsh, hcan, hdir, fun c hc => hall c (List.mem_cons_of_mem _ hc)⟩
        split at hw
        · exact ih _ _ _ hw hrest hj
        · rename_i hsec
          split at hw
          · exact ih _ _ _ hw hrest hj
          · rename_i hskip
            obtain ⟨a, ha, hr⟩ := bind_eq_ok _ _ _ hw
            obtain ⟨hcl, hex⟩ := hall name (List.mem_cons_self ..)
            refine ih _ _ _ hr hrest (ih _ _ _ ha ?_ hj)
            exact ⟨Shows.child hsh hdir hex (by simpa using hsec) (by simpa using hskip),
                   hcan.child name hcl hdir, by simp⟩

/-- **mounted content, soundness**: every item of the manifest text a successful scan collects is
the extract of a read-only collection at a position the specification names — the collection
containing the target of a link that `Shows` reaches (or the output root), relocated to the link's
output path, or a collection mounted beneath such a position, at the corresponding path below it -/
theorem scan_frags_sound (h : Host) (cfg : Cfg) (hwf : HostWF h) (wf : CfgWF h cfg)
    (hout : h.get cfg.hostOut = some .dir) (hs : supported cfg = true) (hdirect : Direct h cfg)
    (fuel : Nat) (plan : Plan) (hscan : scan h cfg fuel = .ok plan) : FragJust h cfg plan := by
  unfold scan at hscan
  refine scan_frags_walk h cfg hwf wf hout hs hdirect fuel _ _ _ hscan ⟨?_, fun _ => Jumps.root, by simp⟩
    (fun f hf => by simp at hf)
  intro _
  exact ⟨Shows.root, canon_out h cfg wf⟩

/-! ### completeness -/

theorem mem_of_le_frags {a b : Plan} (hle : a.le b) (f : Frag) (hf : f ∈ a.frags) : f ∈ b.frags :=
  hle.frags.subset hf

/-- a successful `walkMount(dest, x, …)` has appended its own extract -/
theorem mount_call_frag (h : Host) (cfg : Cfg) (dest x : Path) (n fuel : Nat) (below : Bool) (st st' : Plan)
    (hw : walk h cfg fuel (.mount dest x n below) st = .ok st') :
    ∀ f ∈ fragOf cfg dest x, f ∈ st'.frags := by
  cases fuel with
  | zero => rw [walk] at hw; cases hw
  | succ fuel =>
    rw [walk] at hw
    simp only at hw
    unfold fragOf
    split at hw
    · rename_i hsec; simp [hsec]
    · rename_i hsec
      simp only [hsec, if_false]
      cases hsm : srcMount cfg x with
      | none => simp
      | some b =>
        obtain ⟨root, m⟩ := b
        rw [hsm] at hw
        simp only at hw ⊢
        split at hw
        · rename_i hex; simp [hex]
        · rename_i hex
          simp only [hex, if_false]
          split at hw
          · rename_i hk; simp [hk]
          · rename_i hk
            simp only [hk, if_false]
            split at hw
            · rename_i hkc; simp [hkc]
            · rename_i hkc
              simp only [hkc, if_false]
              split at hw
              · rename_i hwr
                simp only [hwr, not_false_eq_true, if_true]
                cases hc : m.coll with
                | none => simp
                | some c =>
                  rw [hc] at hw
                  simp only at hw ⊢
                  intro f hf
                  simp at hf
                  have hin : f ∈ (st.addFrags (extract c (cleanRel (m.path ++ x.drop root.length)) dest)).frags := by
                    simp [Plan.addFrags, hf]
                  split at hw
                  · exact mem_of_le_frags (walk_mono h cfg _ _ _ _ hw) f hin
                  · cases hw; exact hin
              · rename_i hwr; simp [hwr]

/-- a successful `walkMountsBelow` loop has appended the extract of every mount it does not skip -/
theorem below_loop_frags (h : Host) (cfg : Cfg) (dest x : Path) (n : Nat) :
    ∀ (ms : List (Path × Mount)) (fuel : Nat) (st st' : Plan),
      walk h cfg fuel (.below dest x n ms) st = .ok st' →
      ∀ e ∈ ms, x.isPrefixOf e.1 ∧ x.length < e.1.length ∧ ¬ copyRegular e.2 →
        ∀ f ∈ fragOf cfg (dest ++ e.1.drop x.length) e.1, f ∈ st'.frags := by
  intro ms
  induction ms with
  | nil => intro _ _ _ _ e he; cases he
  | cons y ys ih =>
    intro fuel st st' hw e he hcond f hf
    obtain ⟨mnt, m⟩ := y
    cases fuel with
    | zero => rw [walk] at hw; cases hw
    | succ fuel =>
      rw [walk] at hw
      split at hw
      · obtain ⟨a, ha, hr⟩ := bind_eq_ok _ _ _ hw
        rcases List.mem_cons.mp he with rfl | hm
        · exact mem_of_le_frags (walk_mono h cfg _ _ _ _ hr) f (mount_call_frag h cfg _ _ _ _ _ _ _ ha f hf)
        · exact ih fuel a st' hr e hm hcond f hf
      · rename_i hc
        rcases List.mem_cons.mp he with rfl | hm
        · exact absurd hcond hc
        · exact ih fuel st st' hw e hm hcond f hf

theorem below_call_frags (h : Host) (cfg : Cfg) (dest x : Path) (n fuel : Nat) (st st' : Plan)
    (hw : walk h cfg fuel (.below dest x n cfg.mounts) st = .ok st') :
    ∀ f ∈ belowFrags cfg dest x, f ∈ st'.frags := by
  intro f hf
  unfold belowFrags at hf
  rw [List.mem_flatMap] at hf
  obtain ⟨e, he, hfe⟩ := hf
  split at hfe
  · rename_i hc
    exact below_loop_frags h cfg dest x n cfg.mounts fuel st st' hw e he hc f hfe
  · cases hfe

/-- a successful `walkMount(dest, x, …, true)` on a position that no secret mount hides has also
appended everything mounted below it -/
theorem mount_call_below (h : Host) (cfg : Cfg) (hs : supported cfg = true) (dest x : Path) (n fuel : Nat)
    (st st' : Plan) (hw : walk h cfg fuel (.mount dest x n true) st = .ok st') (hns : notSecret cfg x) :
    ∀ f ∈ belowFrags cfg dest x, f ∈ st'.frags := by
  cases fuel with
  | zero => rw [walk] at hw; cases hw
  | succ fuel =>
    rw [walk] at hw
    simp only at hw
    have hns' : underSecret cfg x (rootLen (srcMount cfg x)) = false := hns
    simp only [hns', Bool.false_eq_true, if_false] at hw
    cases hsm : srcMount cfg x with
    | none => rw [hsm] at hw; cases hw
    | some b =>
      obtain ⟨root, m⟩ := b
      rw [hsm] at hw
      obtain ⟨hmem, _, _⟩ := srcMount_mem cfg x (root, m) hsm
      simp only [if_true] at hw
      split at hw
      · exact below_call_frags h cfg dest x _ fuel _ st' hw
      · split at hw
        · rename_i hk
          have hr : root = cfg.ctrOut := supported_tmp cfg hs (root, m) hmem hk
          simp only [hr, if_true] at hw
          -- the host walk starts with the mounts below
          cases fuel with
          | zero => rw [walk] at hw; cases hw
          | succ fuel =>
            rw [walk] at hw
            obtain ⟨a, ha, hrest⟩ := bind_eq_ok _ _ _ hw
            simp only [if_true] at ha
            intro f hf
            have hfa := below_call_frags h cfg dest x _ fuel _ a ha f hf
            -- the rest of the host walk only appends
            have hle : a.le st' := by
              have : walk h cfg (fuel + 1) (.host dest x n false) a = .ok st' := by
                rw [walk]
                simp only [Bool.false_eq_true, if_false, Res.bind]
                exact hrest
              exact walk_mono h cfg _ _ _ _ this
            exact mem_of_le_frags hle f hfa
        · split at hw
          · cases hw
          · split at hw
            · cases hc : m.coll with
              | none => rw [hc] at hw; cases hw
              | some c =>
                rw [hc] at hw
                exact below_call_frags h cfg dest x _ fuel _ st' hw
            · cases hw

/-- **mounted content, completeness**: a successful scan has collected the extract for every
position the specification names -/
theorem scan_frags_complete (h : Host) (cfg : Cfg) (hwf : HostWF h) (wf : CfgWF h cfg)
    (hout : h.get cfg.hostOut = some .dir) (hs : supported cfg = true) (hdirect : Direct h cfg)
    (hx : InOut cfg cfg.ctrOut) (fuel : Nat) (plan : Plan) (hscan : scan h cfg fuel = .ok plan)
    (d x : Path) (hj : Jumps h cfg d x) :
    (∀ f ∈ fragOf cfg d x, f ∈ plan.frags) ∧
    (notSecret cfg x → ∀ f ∈ belowFrags cfg d x, f ∈ plan.frags) := by
  cases hj with
  | root =>
    unfold scan at hscan
    exact ⟨mount_call_frag h cfg _ _ _ _ _ _ _ hscan, mount_call_below h cfg hs _ _ _ _ _ _ hscan⟩
  | link hsh hnode =>
    rename_i s a t
    obtain ⟨f', n, inc, st1, st2, hcall, hle⟩ :=
      scan_complete_call h cfg hwf wf hout hdirect hx fuel plan hscan d s hsh
    have hcan := shows_canon h cfg hwf wf hdirect _ _ hsh
    cases f' with
    | zero => rw [walk] at hcall; cases hcall
    | succ f' =>
      rw [walk] at hcall
      obtain ⟨b, _, hr⟩ := bind_eq_ok _ _ _ hcall
      have hnm : namei h [] (cfg.hostOut ++ s.drop cfg.ctrOut.length) 0
          = namei h [] (hostPath cfg s) 0 := rfl
      rw [hnm] at hr
      cases hst : namei h [] (hostPath cfg s) 0 with
      | enoent => rw [hst] at hr; cases hr
      | enotdir => rw [hst] at hr; cases hr
      | eloop => rw [hst] at hr; cases hr
      | found p node =>
        obtain ⟨_, hnode'⟩ := host_node h cfg wf hout s hcan p node hst
        rw [hnode] at hnode'
        cases hnode'
        rw [hst] at hr
        simp only at hr
        split at hr
        · cases hr
        · have hT : (if a = true then t else cleanAbs (s.dropLast ++ t)) = linkTarget s a t := rfl
          rw [hT] at hr
          exact ⟨fun f hf => mem_of_le_frags hle f (mount_call_frag h cfg _ _ _ _ _ _ _ hr f hf),
                 fun hns f hf => mem_of_le_frags hle f (mount_call_below h cfg hs _ _ _ _ _ _ hr hns f hf)⟩

end ArvVerif.C17
