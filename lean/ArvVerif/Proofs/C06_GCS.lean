/-
C06(c') proofs: for every interleaving of GetCurrentState's goroutines (every reachable state of
the small-step system), when all goroutines have ended the result is a non-nil error iff some
index fetch, some `addCollection` or the collection scan failed; a nil error value is never put
on the `errs` channel.
-/
import ArvVerif.Model.C06_GCS
namespace ArvVerif.C06.GCS

def WInv (sh : Sh) (l : Loc) : Prop :=
  (l.flag = true → l.pc = 4 ∨ l.pc = 5 ∨ l.pc = 6 ∨ l.pc = 7 ∨ l.pc = 0) ∧
  (l.pc = 5 ∨ l.pc = 6 ∨ l.pc = 7 → l.flag = true) ∧
  (l.flag = true → l.pc = 6 ∨ l.pc = 7 ∨ l.pc = 0 → sh.errs.isSome = true) ∧
  (l.pc = 9 → sh.errs.isSome = true) ∧
  (l.pc = 0 → l.flag = false → l.added = false → sh.errs.isSome = true) ∧
  (l.pc = 13 ∨ l.pc = 14 → l.added = true)

def PInv (sh : Sh) (l : Loc) : Prop :=
  (l.flag = true → l.pc = 4 ∨ l.pc = 5 ∨ l.pc = 6 ∨ l.pc = 7 ∨ l.pc = 8 ∨ l.pc = 0) ∧
  (l.pc = 5 → l.flag = true ∨ sh.errs.isSome = true) ∧
  (l.pc = 6 ∨ l.pc = 7 ∨ l.pc = 8 → sh.errs.isSome = true) ∧
  (l.flag = true → l.pc = 0 → sh.errs.isSome = true)

def SInv (sh : Sh) (l : Loc) : Prop :=
  (l.flag = true → l.pc = 8 ∨ l.pc = 9 ∨ l.pc = 10 ∨ l.pc = 11 ∨ l.pc = 0) ∧
  (l.pc = 5 → sh.errs.isSome = true) ∧
  (l.pc = 10 ∨ l.pc = 11 → l.flag = true) ∧
  (l.flag = true → l.pc = 11 ∨ l.pc = 0 → sh.errs.isSome = true)

structure Inv (g : G) : Prop where
  noNil : g.sh.errs ≠ some false
  ws : ∀ l ∈ g.ws, WInv g.sh l
  p : PInv g.sh g.p
  s : SInv g.sh g.s
  real : g.sh.errs = some true → Failed g

theorem trySend_isSome (sh : Sh) (e : Bool) : (trySend sh e).errs.isSome = true := by
  unfold trySend; split <;> simp_all

theorem trySend_mono (sh : Sh) (e : Bool) (h : sh.errs.isSome = true) : (trySend sh e).errs = sh.errs := by
  unfold trySend; split <;> simp_all

theorem trySend_true (sh : Sh) (h : sh.errs ≠ some false) : (trySend sh true).errs ≠ some false := by
  unfold trySend; split <;> simp_all

/-- What one local step guarantees about the shared state (used for the goroutines that do not move). -/
structure Eff (sh sh' : Sh) (l l' : Loc) : Prop where
  mono : sh.errs.isSome = true → sh'.errs.isSome = true
  noNil : sh.errs ≠ some false → sh'.errs ≠ some false
  real : sh'.errs = some true → sh.errs = some true ∨ l'.flag = true
  keep : l.flag = true → l'.flag = true

theorem WInv_mono {sh sh' : Sh} {l : Loc} (h : WInv sh l) (m : sh.errs.isSome = true → sh'.errs.isSome = true) :
    WInv sh' l := by
  obtain ⟨a, b, c, d, e, f⟩ := h
  exact ⟨a, b, fun x y => m (c x y), fun x => m (d x), fun x y z => m (e x y z), f⟩

theorem PInv_mono {sh sh' : Sh} {l : Loc} (h : PInv sh l) (m : sh.errs.isSome = true → sh'.errs.isSome = true) :
    PInv sh' l := by
  obtain ⟨a, b, c, d⟩ := h
  exact ⟨a, fun x => (b x).imp id m, fun x => m (c x), fun x y => m (d x y)⟩

theorem SInv_mono {sh sh' : Sh} {l : Loc} (h : SInv sh l) (m : sh.errs.isSome = true → sh'.errs.isSome = true) :
    SInv sh' l := by
  obtain ⟨a, b, c, d⟩ := h
  exact ⟨a, fun x => m (b x), c, fun x y => m (d x y)⟩

theorem wStep_ok {sh sh' : Sh} {l l' : Loc} (hi : WInv sh l) (h : (sh', l') ∈ wStep sh l) :
    WInv sh' l' ∧ Eff sh sh' l l' := by
  obtain ⟨a, b, c, d, e, f⟩ := hi
  unfold wStep at h
  split at h
  all_goals (try split at h)
  all_goals simp only [List.mem_cons, List.not_mem_nil, Prod.mk.injEq, or_false] at h
  all_goals (try rcases h with h | h)
  all_goals (try (obtain ⟨rfl, rfl⟩ := h))
  all_goals (try (exact absurd h id))
  all_goals refine ⟨⟨?_, ?_, ?_, ?_, ?_, ?_⟩, ⟨?_, ?_, ?_, ?_⟩⟩
  all_goals (try simp_all [trySend_isSome, trySend_true])
  all_goals (try omega)
  all_goals (try (intro hs; rw [trySend_mono _ (by simpa using hs)]; simpa using hs))
  all_goals (try (unfold trySend; split <;> simp_all))

theorem pStep_ok {sh sh' : Sh} {l l' : Loc} (hi : PInv sh l) (hn : sh.errs ≠ some false)
    (h : (sh', l') ∈ pStep sh l) : PInv sh' l' ∧ Eff sh sh' l l' := by
  obtain ⟨a, b, c, d⟩ := hi
  unfold pStep pRecv at h
  split at h
  all_goals (try split at h)
  all_goals (try split at h)
  all_goals simp only [List.mem_cons, List.not_mem_nil, Prod.mk.injEq, or_false] at h
  all_goals (try rcases h with h | h)
  all_goals (try (obtain ⟨rfl, rfl⟩ := h))
  all_goals (try (exact absurd h id))
  all_goals refine ⟨⟨?_, ?_, ?_, ?_⟩, ⟨?_, ?_, ?_, ?_⟩⟩
  all_goals (try simp_all [trySend_isSome])
  all_goals (try omega)
  all_goals (try (intro hs; rw [trySend_mono _ (by simpa using hs)]; simpa using hs))
  all_goals (try (unfold trySend; split <;> simp_all))

theorem sStep_ok {sh sh' : Sh} {l l' : Loc} (hi : SInv sh l) (h : (sh', l') ∈ sStep sh l) :
    SInv sh' l' ∧ Eff sh sh' l l' := by
  obtain ⟨a, b, c, d⟩ := hi
  unfold sStep sInside at h
  split at h
  all_goals (try split at h)
  all_goals simp only [List.mem_cons, List.not_mem_nil, Prod.mk.injEq, or_false] at h
  all_goals (try rcases h with h | h | h | h)
  all_goals (try rcases h with h | h)
  all_goals (try (obtain ⟨rfl, rfl⟩ := h))
  all_goals (try (exact absurd h id))
  all_goals refine ⟨⟨?_, ?_, ?_, ?_⟩, ⟨?_, ?_, ?_, ?_⟩⟩
  all_goals (try simp_all [trySend_isSome, trySend_true])
  all_goals (try omega)
  all_goals (try (intro hs; rw [trySend_mono _ (by simpa using hs)]; simpa using hs))
  all_goals (try (unfold trySend; split <;> simp_all))

/-! ### Scripted executions (for examples): each move picks a goroutine and one of its successors -/

inductive Move
  | w (i k : Nat)
  | p (k : Nat)
  | s (k : Nat)
deriving Repr

def move (g : G) : Move → Option G
  | .w i k =>
    match g.ws[i]? with
    | some l =>
      match (wStep g.sh l)[k]? with
      | some r => some { g with sh := r.1, ws := g.ws.set i r.2 }
      | none => none
    | none => none
  | .p k =>
    match (pStep g.sh g.p)[k]? with
    | some r => some { g with sh := r.1, p := r.2 }
    | none => none
  | .s k =>
    match (sStep g.sh g.s)[k]? with
    | some r => some { g with sh := r.1, s := r.2 }
    | none => none

def moves (g : G) : List Move → Option G
  | [] => some g
  | m :: rest => match move g m with
    | some g' => moves g' rest
    | none => none

theorem move_step {g g' : G} {m : Move} (h : move g m = some g') : Step g g' := by
  cases m with
  | w i k =>
    simp only [move] at h
    split at h
    · rename_i l hl
      split at h
      · rename_i r hr
        cases h
        obtain ⟨hi, hli⟩ := List.getElem?_eq_some_iff.mp hl
        have hset : g.ws.set i r.2 = g.ws.take i ++ r.2 :: g.ws.drop (i + 1) := by
          rw [List.set_eq_take_append_cons_drop]; simp [hi]
        have hdec : g.ws = g.ws.take i ++ l :: g.ws.drop (i + 1) := by
          rw [← hli, List.getElem_cons_drop hi, List.take_append_drop]
        rw [hset]
        exact Step.worker _ _ l r.1 r.2 hdec (List.mem_of_getElem? hr)
      · cases h
    · cases h
  | p k =>
    simp only [move] at h
    split at h
    · rename_i r hr; cases h; exact Step.proc r.1 r.2 (List.mem_of_getElem? hr)
    · cases h
  | s k =>
    simp only [move] at h
    split at h
    · rename_i r hr; cases h; exact Step.scan r.1 r.2 (List.mem_of_getElem? hr)
    · cases h

theorem moves_reach {n cap : Nat} : ∀ (ms : List Move) (g g' : G), Reach n cap g → moves g ms = some g' →
    Reach n cap g' := by
  intro ms
  induction ms with
  | nil => intro g g' r h; simp only [moves] at h; cases h; exact r
  | cons m rest ih =>
    intro g g' r h
    simp only [moves] at h
    split at h
    · rename_i g1 hm; exact ih g1 g' (.step r (move_step hm)) h
    · cases h

theorem inv_init (n cap : Nat) : Inv (init n cap) := by
  refine ⟨by simp [init, initSh], ?_, ?_, ?_, by simp [init, initSh]⟩
  · intro l hl
    simp only [init, List.mem_replicate] at hl
    rw [hl.2]
    simp [WInv, initLoc]
  · simp [init, PInv, initLoc]
  · simp [init, SInv, initLoc]

theorem step_inv {g g' : G} (hi : Inv g) (hs : Step g g') : Inv g' := by
  cases hs with
  | worker pre post l sh' l' hws hm =>
    have hl : l ∈ g.ws := by rw [hws]; simp
    obtain ⟨hw', e⟩ := wStep_ok (hi.ws l hl) hm
    refine ⟨e.noNil hi.noNil, ?_, PInv_mono hi.p e.mono, SInv_mono hi.s e.mono, ?_⟩
    · intro x hx
      simp only [List.mem_append, List.mem_cons] at hx
      rcases hx with hx | rfl | hx
      · exact WInv_mono (hi.ws x (by rw [hws]; simp [hx])) e.mono
      · exact hw'
      · exact WInv_mono (hi.ws x (by rw [hws]; simp [hx])) e.mono
    · intro ht
      rcases e.real ht with h0 | h0
      · rcases hi.real h0 with ⟨x, hx, hf⟩ | hf | hf
        · rw [hws] at hx
          simp only [List.mem_append, List.mem_cons] at hx
          rcases hx with hx | rfl | hx
          · exact Or.inl ⟨x, by simp [hx], hf⟩
          · exact Or.inl ⟨l', by simp, e.keep hf⟩
          · exact Or.inl ⟨x, by simp [hx], hf⟩
        · exact Or.inr (Or.inl hf)
        · exact Or.inr (Or.inr hf)
      · exact Or.inl ⟨l', by simp, h0⟩
  | proc sh' l' hm =>
    obtain ⟨hp', e⟩ := pStep_ok hi.p hi.noNil hm
    refine ⟨e.noNil hi.noNil, fun x hx => WInv_mono (hi.ws x hx) e.mono, hp', SInv_mono hi.s e.mono, ?_⟩
    intro ht
    rcases e.real ht with h0 | h0
    · rcases hi.real h0 with h1 | hf | hf
      · exact Or.inl h1
      · exact Or.inr (Or.inl (e.keep hf))
      · exact Or.inr (Or.inr hf)
    · exact Or.inr (Or.inl h0)
  | scan sh' l' hm =>
    obtain ⟨hs', e⟩ := sStep_ok hi.s hm
    refine ⟨e.noNil hi.noNil, fun x hx => WInv_mono (hi.ws x hx) e.mono, PInv_mono hi.p e.mono, hs', ?_⟩
    intro ht
    rcases e.real ht with h0 | h0
    · rcases hi.real h0 with h1 | hf | hf
      · exact Or.inl h1
      · exact Or.inr (Or.inl hf)
      · exact Or.inr (Or.inr (e.keep hf))
    · exact Or.inr (Or.inr h0)

theorem reach_inv {n cap : Nat} {g : G} (r : Reach n cap g) : Inv g := by
  induction r with
  | start => exact inv_init n cap
  | step _ hs ih => exact step_inv ih hs

/-- For every interleaving: once all goroutines have ended, GetCurrentState returns a non-nil error
iff some index fetch, some `addCollection` or the collection scan failed; `errs` never holds a nil. -/
theorem result_iff_failed {n cap : Nat} {g : G} (r : Reach n cap g) (ht : Terminal g) :
    (resultIsError g = true ↔ Failed g) ∧ g.sh.errs ≠ some false := by
  have hi := reach_inv r
  refine ⟨⟨?_, ?_⟩, hi.noNil⟩
  · intro h
    exact hi.real (by simpa [resultIsError] using h)
  · intro hf
    have hsome : g.sh.errs.isSome = true := by
      rcases hf with ⟨l, hl, hfl⟩ | hfl | hfl
      · exact (hi.ws l hl).2.2.1 hfl (Or.inr (Or.inr (ht.1 l hl)))
      · exact hi.p.2.2.2 hfl ht.2.1
      · exact hi.s.2.2.2 hfl (Or.inr ht.2.2)
    have hn := hi.noNil
    unfold resultIsError
    cases he : g.sh.errs with
    | none => rw [he] at hsome; cases hsome
    | some b =>
      cases b with
      | true => rfl
      | false => exact absurd he hn

/-- … and when it returns nil every index worker reached `AddReplicas`. -/
theorem nil_result_workers_added {n cap : Nat} {g : G} (r : Reach n cap g) (ht : Terminal g)
    (hnil : g.sh.errs = none) : ∀ l ∈ g.ws, l.flag = false ∧ l.added = true := by
  have hi := reach_inv r
  intro l hl
  have hw := hi.ws l hl
  have hpc := ht.1 l hl
  have hflag : l.flag = false := by
    cases hf : l.flag with
    | false => rfl
    | true =>
      have := hw.2.2.1 hf (Or.inr (Or.inr hpc))
      rw [hnil] at this; cases this
  refine ⟨hflag, ?_⟩
  cases ha : l.added with
  | true => rfl
  | false =>
    have := hw.2.2.2.2.1 hpc hflag ha
    rw [hnil] at this; cases this

end ArvVerif.C06.GCS
