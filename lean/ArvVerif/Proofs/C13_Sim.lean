/-
C13 helper lemmas, part 1: the invariant of the concurrent model (`Inv13` = C08's invariant + every
flushing token on a segment is backed by the bytes that were handed to PutB) and the basic move
"replace one mem segment by a segment with the same bytes" (a new `flushing` value, or a stored
segment), which preserves the invariant and the abstract state.
-/
import ArvVerif.Props.C08_History
import ArvVerif.Model.C13
namespace ArvVerif.C13
open ArvVerif.C08

variable {max : Nat} {hash : Bytes → Loc}

/-- Token `t` was handed out for a buffer of which `b` is what is left (a prefix): `b` is a prefix of
the token's piece of the block, and the block is in Keep (under its own locator). -/
def TokOK (hash : Bytes → Loc) (world : Store) (toks : List Tok) (t : Nat) (b : Bytes) : Prop :=
  ∃ tk, toks[t]? = some tk ∧ b = (tk.block.drop tk.off).take b.length ∧ world (hash tk.block) = some tk.block

/-- A `flushing` value in a reachable state is nil, a closed anonymous channel, or a token that is
backed by Keep. -/
def MarkOK (max : Nat) (hash : Bytes → Loc) (world : Store) (toks : List Tok) : Seg → Prop
  | Seg.mem b (Flush.pending t l) => l = max + 1 ∧ TokOK hash world toks t b
  | _ => True

/-- Invariant of the concurrent model. -/
structure Inv13 (max : Nat) (hash : Bytes → Loc) (s : St) : Prop where
  base : Inv max hash s.fs
  marks : ∀ nf ∈ s.fs.files, ∀ sg ∈ nf.2.segs, MarkOK max hash s.fs.world s.toks sg

theorem TokOK.mono {world world' : Store} {toks more : List Tok} {t : Nat} {b : Bytes}
    (he : StoreExt world world') (h : TokOK hash world toks t b) : TokOK hash world' (toks ++ more) t b := by
  obtain ⟨tk, h1, h2, h3⟩ := h
  refine ⟨tk, ?_, h2, he _ _ h3⟩
  have hlt : t < toks.length := by
    apply Classical.byContradiction; intro hn
    rw [List.getElem?_eq_none (by omega)] at h1; cases h1
  rw [List.getElem?_append_left hlt]; exact h1

theorem TokOK.take {world : Store} {toks : List Tok} {t : Nat} {b : Bytes} (n : Nat)
    (h : TokOK hash world toks t b) : TokOK hash world toks t (b.take n) := by
  obtain ⟨tk, h1, h2, h3⟩ := h
  refine ⟨tk, h1, ?_, h3⟩
  conv => lhs; rw [h2]
  rw [List.take_take, List.length_take]

theorem MarkOK.mono {world world' : Store} {toks more : List Tok} {sg : Seg}
    (he : StoreExt world world') (h : MarkOK max hash world toks sg) : MarkOK max hash world' (toks ++ more) sg := by
  cases sg with
  | stored => trivial
  | mem b fl =>
    cases fl with
    | none => trivial
    | stale => trivial
    | pending t l => exact ⟨h.1, h.2.mono he⟩

theorem Inv13.ext {s : St} (hinv : Inv13 max hash s) {world' : Store} (he : StoreExt s.fs.world world')
    (hok : StoreOK hash world') (more : List Tok) :
    Inv13 max hash { s with fs := { s.fs with world := world' }, toks := s.toks ++ more } :=
  ⟨hinv.base.ext_world he hok, fun nf hnf sg hsg => (hinv.marks nf hnf sg hsg).mono he⟩

/-! ### replacing one segment by one with the same bytes -/

theorem map_set_same {α β : Type} (g : α → β) {l : List α} {i : Nat} {a a' : α} (h : l[i]? = some a)
    (hg : g a' = g a) : (l.set i a').map g = l.map g := by
  rw [List.map_set, hg]
  exact set_eq_self (by simp [h])

theorem absSegs_set_same {st : Store} {segs : List Seg} {i : Nat} {sg sg' : Seg} (h : segs[i]? = some sg)
    (hb : sg'.bytes st = sg.bytes st) : absSegs st (segs.set i sg') = absSegs st segs := by
  unfold absSegs
  rw [List.flatMap_def, List.flatMap_def, map_set_same (Seg.bytes st) h hb]

theorem setFile_self {F P W : Type} (s : FS F P W) (f : Nat) {n : String} {c : F} (h : s.files[f]? = some (n, c)) :
    setFile s f c = s := by
  unfold setFile
  rw [h]
  simp only []
  rw [set_eq_self h]

/-- The basic move. -/
theorem setSeg_spec {fs : Conc} (hinv : Inv max hash fs) {f i : Nat} {nf : String × FileNode} {b : Bytes}
    {fl : Flush} {sg' : Seg} (hf : fs.files[f]? = some nf) (hi : nf.2.segs[i]? = some (Seg.mem b fl))
    (hlen : sg'.len = b.length) (hbytes : sg'.bytes fs.world = b) (hwf : SegWF max hash fs.world sg') :
    Inv max hash (setSegAt fs f i sg') ∧ absFS (setSegAt fs f i sg') = absFS fs := by
  obtain ⟨hwf0, hrep0⟩ := hinv.files nf (List.mem_of_getElem? hf)
  have hsame : SameLens (nf.2.segs.set i sg') nf.2.segs :=
    map_set_same Seg.len hi (by rw [hlen]; rfl)
  have hwfc : WF max hash fs.world { nf.2 with segs := nf.2.segs.set i sg' } := by
    refine ⟨?_, ?_⟩
    · show nf.2.size = sumLen (nf.2.segs.set i sg')
      rw [hsame.sumLen]; exact hwf0.size_eq
    · intro s hs
      rcases List.mem_or_eq_of_mem_set hs with h | h
      · exact hwf0.segs s h
      · rw [h]; exact hwf
  have habs : abs fs.world { nf.2 with segs := nf.2.segs.set i sg' } = abs fs.world nf.2 :=
    absSegs_set_same hi (by rw [hbytes]; rfl)
  have hset : setSegAt fs f i sg' = setFile fs f { nf.2 with segs := nf.2.segs.set i sg' } := by
    unfold setSegAt; rw [hf]
  rw [hset]
  refine ⟨?_, ?_⟩
  · apply hinv.setFile f _ hwfc hrep0
    intro nf' hnf' q hq
    rw [hf] at hnf'; cases hnf'
    exact hq.preserved (Int.le_refl _) (fun _ => ⟨hsame, rfl⟩)
  · rw [setFile_abs, habs]
    apply setFile_self (n := nf.1)
    rw [absFS_files, absFiles_get, hf]; rfl

/-- what the segments of the files look like after the move -/
theorem setSeg_segs {fs : Conc} {f i : Nat} {sg' : Seg} {P : Seg → Prop}
    (hall : ∀ nf ∈ fs.files, ∀ sg ∈ nf.2.segs, P sg) (hnew : P sg') :
    ∀ nf ∈ (setSegAt fs f i sg').files, ∀ sg ∈ nf.2.segs, P sg := by
  unfold setSegAt
  cases hf : fs.files[f]? with
  | none => exact hall
  | some nf0 =>
    simp only [setFile, hf]
    intro nf hnf sg hsg
    rcases List.mem_or_eq_of_mem_set hnf with h | h
    · exact hall nf h sg hsg
    · rw [h] at hsg
      rcases List.mem_or_eq_of_mem_set hsg with h2 | h2
      · exact hall nf0 (List.mem_of_getElem? hf) sg h2
      · rw [h2]; exact hnew

@[simp] theorem setSegAt_world (fs : Conc) (f i : Nat) (sg : Seg) : (setSegAt fs f i sg).world = fs.world := by
  unfold setSegAt
  cases hf : fs.files[f]? with
  | none => rfl
  | some nf => simp only [setFile, hf]

/-- The basic move on the whole state. -/
theorem Inv13.setSeg {s : St} (hinv : Inv13 max hash s) {f i : Nat} {nf : String × FileNode} {b : Bytes}
    {fl : Flush} {sg' : Seg} (hf : s.fs.files[f]? = some nf) (hi : nf.2.segs[i]? = some (Seg.mem b fl))
    (hlen : sg'.len = b.length) (hbytes : sg'.bytes s.fs.world = b) (hwf : SegWF max hash s.fs.world sg')
    (hmark : MarkOK max hash s.fs.world s.toks sg') :
    Inv13 max hash { s with fs := setSegAt s.fs f i sg' } ∧ absFS (setSegAt s.fs f i sg') = absFS s.fs := by
  obtain ⟨h1, h2⟩ := setSeg_spec hinv.base hf hi hlen hbytes hwf
  refine ⟨⟨h1, ?_⟩, h2⟩
  show ∀ nf ∈ (setSegAt s.fs f i sg').files, ∀ sg ∈ nf.2.segs, MarkOK max hash (setSegAt s.fs f i sg').world s.toks sg
  rw [setSegAt_world]
  exact setSeg_segs hinv.marks hmark

theorem segAt_eq {fs : Conc} {f i : Nat} {sg : Seg} (h : segAt fs f i = some sg) :
    ∃ nf, fs.files[f]? = some nf ∧ nf.2.segs[i]? = some sg := by
  unfold segAt at h
  cases hf : fs.files[f]? with
  | none => rw [hf] at h; cases h
  | some nf => rw [hf] at h; exact ⟨nf, rfl, h⟩

end ArvVerif.C13
