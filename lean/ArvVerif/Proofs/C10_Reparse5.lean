/-
C10 — bytes of the re-parsed `Extract` output: over the rendered streams every path resolves to the
concatenation of the bytes of the source files mapped to it.
-/
import ArvVerif.Proofs.C10_Reparse4
namespace ArvVerif.C10

theorem segBytes_flatMap {α : Type} (blk : Bytes → Bytes) (l : List α) (f : α → List Seg) :
    segBytes blk (l.flatMap f) = l.flatMap fun x => segBytes blk (f x) := by
  induction l with
  | nil => rfl
  | cons a r ih => rw [List.flatMap_cons, List.flatMap_cons, segBytes_append, ih]

theorem flatMap_congr_mem {α : Type} : ∀ (l : List α) (f g : α → Bytes), (∀ x ∈ l, f x = g x) →
    l.flatMap f = l.flatMap g
  | [], _, _, _ => rfl
  | a :: r, f, g, h => by
    rw [List.flatMap_cons, List.flatMap_cons, h a (by simp),
      flatMap_congr_mem r f g (fun x hx => h x (List.mem_cons_of_mem _ hx))]

theorem normBlocks_toks_prefix : ∀ (segs : List Seg) (tbl : List (Bytes × Nat)) (toks : List Bytes) (off : Nat),
    ∃ extra, (normBlocks segs tbl toks off).2.1 = toks ++ extra
  | [], _, toks, _ => ⟨[], by simp [normBlocks]⟩
  | s :: rest, tbl, toks, off => by
    unfold normBlocks
    split
    · exact normBlocks_toks_prefix rest tbl toks off
    · obtain ⟨e, he⟩ := normBlocks_toks_prefix rest (tbl ++ [(digestKey s.loc, off)]) (toks ++ [s.loc]) (off + locSize s.loc)
      exact ⟨s.loc :: e, by rw [he]; simp⟩

theorem normBlocks_toks_ne_nil (s : Seg) (rest : List Seg) : (normBlocks (s :: rest) [] [] 0).2.1 ≠ [] := by
  unfold normBlocks
  simp only [List.any_nil, Bool.false_eq_true, if_false, List.nil_append]
  obtain ⟨e, he⟩ := normBlocks_toks_prefix rest [(digestKey s.loc, 0)] [s.loc] (0 + locSize s.loc)
  rw [he]; simp

/-- **one rendered stream**: its bytes for path `p` are the bytes of the source files named so -/
theorem normStream_bytes (blk : Bytes → Bytes) (name : Bytes) (files : List (Bytes × List Seg))
    (hc : DigestConsistent blk (allSegs files)) (p : Bytes) :
    segBytes blk (resolveStream (normStream name files) p) =
      (sortBytes (files.map (·.1))).flatMap fun fn =>
        if pathOf name fn = p then segBytes blk (segsOfFiles files fn) else [] := by
  have hns : normStream name files =
      ⟨name,
        (if (normBlocks (allSegs files) [] [] 0).2.1 = [] then [emptyBlockLocator]
         else (normBlocks (allSegs files) [] [] 0).2.1).map (fun t => ⟨t, locSize t⟩),
        (sortBytes (files.map (·.1))).flatMap fun fn =>
          normFileFToks (normBlocks (allSegs files) [] [] 0).1 fn (segsOfFiles files fn)⟩ := rfl
  have hall : allSegs files = (sortBytes (files.map (·.1))).flatMap (segsOfFiles files) := rfl
  rw [hns]
  unfold resolveStream
  simp only []
  rw [List.flatMap_assoc, segBytes_flatMap]
  -- per file
  have hbytes := normalizedText_bytes blk files hc
  simp only [] at hbytes
  apply flatMap_congr_mem
  intro fn hfn
  by_cases hp : pathOf name fn = p
  · rw [if_pos hp]
    unfold normFileFToks
    rw [List.flatMap_append, segBytes_append]
    -- the 0:0 token contributes nothing
    have hz : segBytes blk ((if (segsOfFiles files fn).isEmpty = true then [(⟨0, 0, fn⟩ : FTok)] else []).flatMap fun f =>
        if pathOf name f.name = p then resolveTok
          ((if (normBlocks (allSegs files) [] [] 0).2.1 = [] then [emptyBlockLocator]
            else (normBlocks (allSegs files) [] [] 0).2.1).map (fun t => ⟨t, locSize t⟩)) 0 f.pos f.len else []) = [] := by
      by_cases he : (segsOfFiles files fn).isEmpty = true
      · rw [if_pos he]
        simp only [List.flatMap_cons, List.flatMap_nil, List.append_nil]
        rw [if_pos hp, resolveTok_len0]; rfl
      · rw [if_neg he]; rfl
    rw [hz, List.append_nil, List.flatMap_map, segBytes_flatMap]
    simp only [hp, if_true]
    by_cases hnil : allSegs files = []
    · -- no segment at all: nothing to show
      have hsf : segsOfFiles files fn = [] := by
        rw [hall] at hnil
        exact (List.flatMap_eq_nil_iff.mp hnil) fn hfn
      rw [hsf]; simp [normSpansS, segBytes]
    · obtain ⟨s0, rest0, hs0⟩ : ∃ s0 rest0, allSegs files = s0 :: rest0 := by
        cases h : allSegs files with
        | nil => exact absurd h hnil
        | cons a b => exact ⟨a, b, rfl⟩
      have hne : (normBlocks (allSegs files) [] [] 0).2.1 ≠ [] := by rw [hs0]; exact normBlocks_toks_ne_nil s0 rest0
      rw [if_neg hne]
      have hb : (normSpansS (normBlocks (allSegs files) [] [] 0).1 (segsOfFiles files fn) none).flatMap
          (spanSlice (streamBytes blk ((normBlocks (allSegs files) [] [] 0).2.1.map fun t => ⟨t, locSize t⟩))) =
          segBytes blk (segsOfFiles files fn) := hbytes fn hfn
      obtain ⟨_, r2, _⟩ := normBlocks_placed blk (allSegs files) hc (allSegs files) [] [] 0 (fun _ h => h) rfl
        (by simp) (by simp)
      have hlen : ∀ b ∈ (normBlocks (allSegs files) [] [] 0).2.1.map (fun t => (⟨t, locSize t⟩ : Loc)),
          (blk b.text).length = b.size := by
        intro b hb'
        obtain ⟨t, ht, rfl⟩ := List.mem_map.mp hb'
        obtain ⟨s, hs, rfl⟩ := r2 t ht
        exact hc.len s hs
      rw [← hb]
      apply flatMap_congr_mem
      intro q _
      rw [resolveTok_bytes_zero blk _ q.1 q.2 hlen]
      rfl
  · rw [if_neg hp]
    have : ∀ f ∈ normFileFToks (normBlocks (allSegs files) [] [] 0).1 fn (segsOfFiles files fn), f.name = fn := by
      intro f hf
      unfold normFileFToks at hf
      rcases List.mem_append.mp hf with h | h
      · obtain ⟨q, _, rfl⟩ := List.mem_map.mp h; rfl
      · split at h
        · simp only [List.mem_singleton] at h; rw [h]
        · simp at h
    have hnil : (normFileFToks (normBlocks (allSegs files) [] [] 0).1 fn (segsOfFiles files fn)).flatMap (fun f =>
        if pathOf name f.name = p then resolveTok
          ((if (normBlocks (allSegs files) [] [] 0).2.1 = [] then [emptyBlockLocator]
            else (normBlocks (allSegs files) [] [] 0).2.1).map (fun t => ⟨t, locSize t⟩)) 0 f.pos f.len else []) = [] := by
      rw [List.flatMap_eq_nil_iff]
      intro f hf
      rw [this f hf, if_neg hp]
    rw [hnil]; rfl

/-- **all rendered streams** -/
theorem outs_bytes (blk : Bytes → Bytes) (outs : OutStreams)
    (hc : ∀ o ∈ outs, DigestConsistent blk (allSegs o.2)) (p : Bytes) :
    segBytes blk (resolve (outs.map fun o => normStream o.1 o.2) p) =
      outs.flatMap fun o => (sortBytes (o.2.map (·.1))).flatMap fun fn =>
        if pathOf o.1 fn = p then segBytes blk (segsOfFiles o.2 fn) else [] := by
  unfold resolve
  induction outs with
  | nil => rfl
  | cons o rest ih =>
    rw [List.map_cons, List.flatMap_cons, List.flatMap_cons, segBytes_append,
      normStream_bytes blk o.1 o.2 (hc o (by simp)) p, ih (fun x hx => hc x (List.mem_cons_of_mem _ hx))]

end ArvVerif.C10
