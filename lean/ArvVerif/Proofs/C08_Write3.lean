/-
C08 helper lemmas, part 6: `restructure` (the case analysis of a loop iteration of filenode.Write)
satisfies `RestrOK` from every well-formed file and every `seek`-normal pointer.
-/
import ArvVerif.Proofs.C08_Write2
namespace ArvVerif.C08

variable {max : Nat} {hash : Bytes → Loc} {st : Store}

/-! ### prefixes of the data -/

theorem pfx_base (p : Bytes) (n : Nat) : p.take n = p.take (p.take n).length := by
  simp [List.length_take, List.take_eq_take_iff]

theorem pfx_take {p c : Bytes} (h : c = p.take c.length) (n : Nat) : c.take n = p.take (c.take n).length := by
  conv => lhs; rw [h]
  rw [List.take_take, List.length_take]

/-! ### the right part of a split stored segment -/

theorem stored_tail_wf {loc : Loc} {size off l n : Nat}
    (h : SegWF max hash st (Seg.stored loc size off l)) (hn : n < l) :
    SegWF max hash st ((Seg.stored loc size off l).slice n none) := by
  obtain ⟨_, hle, b, hb, hlen⟩ := h
  simp only [Seg.slice]
  exact ⟨by omega, by omega, b, hb, hlen⟩

theorem stored_tail_bytes {loc : Loc} {size off l n : Nat}
    (h : SegWF max hash st (Seg.stored loc size off l)) (hn : n ≤ l) :
    ((Seg.stored loc size off l).slice n none).bytes st = ((Seg.stored loc size off l).bytes st).drop n := by
  obtain ⟨_, hle, b, hb, hlen⟩ := h
  simp only [Seg.slice]
  rw [Seg.bytes_stored hb, Seg.bytes_stored hb, List.drop_take, List.drop_drop]

theorem stored_tail_len {loc : Loc} {size off l n : Nat} :
    ((Seg.stored loc size off l).slice n none).len = l - n := rfl

/-! ### prevApp -/

theorem prevApp_some {segs : List Seg} {cur : Nat} {pb : Bytes} {pfl : Flush}
    (h : prevApp max segs cur = some (pb, pfl)) :
    1 ≤ cur ∧ segs[cur - 1]? = some (Seg.mem pb pfl) ∧ pb.length < max := by
  unfold prevApp at h
  by_cases h0 : cur = 0
  · rw [if_pos h0] at h; cases h
  · rw [if_neg h0] at h
    cases hg : segs[cur - 1]? with
    | none => rw [hg] at h; cases h
    | some s =>
      rw [hg] at h
      cases s with
      | stored => cases h
      | mem buf fl =>
        simp only [] at h
        by_cases hlt : buf.length < max
        · rw [if_pos hlt] at h
          cases h
          exact ⟨by omega, rfl, hlt⟩
        · rw [if_neg hlt] at h; cases h

/-! ### case: cur is writable -/

theorem restr_writable {fn : FileNode} {ptr : Ptr} {p : Bytes} {buf : Bytes} {fl : Flush}
    (hmax : 1 ≤ max) (hp : p ≠ []) (hwf : WF max hash st fn)
    (hs : fn.segs[ptr.segIdx]? = some (Seg.mem buf fl)) (hso : ptr.segOff < buf.length)
    (hsum : sumLen (fn.segs.take ptr.segIdx) + ptr.segOff = ptr.off) :
    RestrOK max hash st fn ptr p
      ⟨fn.segs, fn.size, ptr.segIdx, ptr.segOff, (p.take max).take (buf.length - ptr.segOff), false⟩ := by
  have hplen : 0 < p.length := List.length_pos_iff.mpr hp
  obtain ⟨c, hc⟩ : ∃ c, c = (p.take max).take (buf.length - ptr.segOff) := ⟨_, rfl⟩
  rw [← hc]
  have hclen : c.length = min (buf.length - ptr.segOff) (min max p.length) := by
    rw [hc]; simp only [List.length_take]
  refine ⟨by show 0 < c.length; omega, ?_, hwf.segs, hwf.size_eq, fun _ => ⟨rfl, rfl⟩, ?_⟩
  · show c = p.take c.length
    rw [hc]; exact pfx_take (pfx_base p max) _
  · refine ⟨fn.segs.take ptr.segIdx, buf, fl, fn.segs.drop (ptr.segIdx + 1),
      (buf.drop ptr.segOff).take c.length, segs_split hs, ?_, ?_, ?_, Or.inl ?_, ?_⟩
    · show ptr.segIdx = _
      rw [List.length_take]
      have : ptr.segIdx < fn.segs.length := by
        apply Classical.byContradiction; intro hn
        rw [List.getElem?_eq_none (by omega)] at hs; cases hs
      omega
    · show ptr.segOff + c.length ≤ buf.length; omega
    · show abs st fn = _
      unfold abs
      rw [absSegs_split hs]
      simp only [Seg.bytes_mem, List.append_assoc]
      congr 1
      conv => lhs; rw [split3 buf ptr.segOff c.length]
      simp only [List.append_assoc]
    · simp only [List.length_take, List.length_drop]; omega
    · show (absSegs st (fn.segs.take ptr.segIdx)).length + ptr.segOff = ptr.off
      rw [absSegs_length (fun x hx => hwf.segs x (List.mem_of_mem_take hx))]; exact hsum

/-! ### case: split a stored segment -/

theorem restr_split {fn : FileNode} {ptr : Ptr} {p : Bytes} {loc : Loc} {size off l : Nat}
    (hmax : 1 ≤ max) (hp : p ≠ []) (hwf : WF max hash st fn)
    (hs : fn.segs[ptr.segIdx]? = some (Seg.stored loc size off l)) (hso0 : 0 < ptr.segOff) (hso : ptr.segOff < l)
    (hsum : sumLen (fn.segs.take ptr.segIdx) + ptr.segOff = ptr.off) :
    ∃ r, restrSplit fn ptr.segIdx ptr.segOff (Seg.stored loc size off l) (p.take max) = some r ∧
      RestrOK max hash st fn ptr p r := by
  have hplen : 0 < p.length := List.length_pos_iff.mpr hp
  have hswf := hwf.segs _ (mem_of_getElem? hs)
  have hblen : ((Seg.stored loc size off l).bytes st).length = l := hswf.bytes_length
  have hprewf : ∀ x ∈ fn.segs.take ptr.segIdx, SegWF max hash st x :=
    fun x hx => hwf.segs x (List.mem_of_mem_take hx)
  have hpostwf : ∀ x ∈ fn.segs.drop (ptr.segIdx + 1), SegWF max hash st x :=
    fun x hx => hwf.segs x (List.mem_of_mem_drop hx)
  have hidxlt : ptr.segIdx < fn.segs.length := by
    apply Classical.byContradiction; intro hn
    rw [List.getElem?_eq_none (by omega)] at hs; cases hs
  have hsz : fn.size = sumLen (fn.segs.take ptr.segIdx) + l + sumLen (fn.segs.drop (ptr.segIdx + 1)) := by
    rw [hwf.size_eq]; conv => lhs; rw [segs_split hs]
    simp; omega
  have hc0 : (p.take max).length = min max p.length := by simp
  have hleftwf := stored_slice_wf hswf hso0 (Nat.le_of_lt hso)
  have hleftb := stored_slice_bytes hswf (Nat.le_of_lt hso)
  have hleftl : ((Seg.stored loc size off l).slice 0 (some ptr.segOff)).len = ptr.segOff :=
    stored_slice_len (Nat.le_of_lt hso)
  have hpl : (absSegs st (fn.segs.take ptr.segIdx)).length = sumLen (fn.segs.take ptr.segIdx) :=
    absSegs_length hprewf
  have habs0 : abs st fn = absSegs st (fn.segs.take ptr.segIdx) ++ (Seg.stored loc size off l).bytes st
      ++ absSegs st (fn.segs.drop (ptr.segIdx + 1)) := absSegs_split hs
  have hl : (Seg.stored loc size off l).len = l := rfl
  unfold restrSplit
  rw [if_neg (by rw [hl]; omega)]
  by_cases hmx : (Seg.stored loc size off l).len - ptr.segOff ≤ (p.take max).length
  · -- two pieces: the rest of the stored segment is overwritten
    rw [if_pos hmx]
    obtain ⟨c, hc⟩ : ∃ c, c = (p.take max).take ((Seg.stored loc size off l).len - ptr.segOff) := ⟨_, rfl⟩
    rw [← hc]
    have hclen : c.length = l - ptr.segOff := by rw [hc, List.length_take]; omega
    refine ⟨_, rfl, ⟨by show 0 < c.length; omega, ?_, ?_, ?_, (fun h => by cases h), ?_⟩⟩
    · show c = p.take c.length; rw [hc]; exact pfx_take (pfx_base p max) _
    · intro x hx
      simp only [List.mem_append, List.mem_cons, List.not_mem_nil, or_false] at hx
      rcases hx with (h | h | h) | h
      · exact hprewf x h
      · rw [h]; exact hleftwf
      · rw [h]; exact memTruncate_wf_new (by omega) (by rw [hclen]; have := hc0; omega)
      · exact hpostwf x h
    · show fn.size = _
      simp only [sumLen_append, sumLen_cons, sumLen_nil, hleftl, memTruncate_len]; omega
    · refine ⟨fn.segs.take ptr.segIdx ++ [(Seg.stored loc size off l).slice 0 (some ptr.segOff)],
        zeros c.length, Flush.none, fn.segs.drop (ptr.segIdx + 1),
        ((Seg.stored loc size off l).bytes st).drop ptr.segOff, ?_, ?_, ?_, ?_, Or.inl ?_, ?_⟩
      · show _ ++ [_, memTruncate [] Flush.none c.length] ++ _ = _
        simp [memTruncate]
      · show ptr.segIdx + 1 = _; simp only [List.length_append, List.length_take, List.length_cons, List.length_nil]; omega
      · show 0 + c.length ≤ (zeros c.length).length; simp
      · rw [habs0]
        simp only [absSegs_append, absSegs_cons, absSegs_nil, hleftb, List.take_zero, List.append_nil,
          Nat.zero_add, List.append_assoc]
        have hz : List.drop c.length (zeros c.length) = [] := List.drop_of_length_le (by simp)
        simp only [hz, absSegs_nil, List.append_nil, List.nil_append]
        rw [← List.append_assoc (List.take _ _), List.take_append_drop]
      · rw [List.length_drop, hblen, hclen]
      · show (absSegs st (_ ++ [_])).length + 0 = ptr.off
        simp only [absSegs_append, absSegs_cons, absSegs_nil, List.append_nil, List.length_append, hleftb,
          List.length_take, hblen, hpl]
        omega
  · -- three pieces
    rw [if_neg hmx]
    obtain ⟨c, hc⟩ : ∃ c, c = p.take max := ⟨_, rfl⟩
    rw [← hc] at hmx ⊢
    have hclen : c.length = min max p.length := by rw [hc]; simp
    have hrightwf := stored_tail_wf (n := ptr.segOff + c.length) hswf (by omega)
    have hrightb := stored_tail_bytes (n := ptr.segOff + c.length) hswf (by omega)
    refine ⟨_, rfl, ⟨by show 0 < c.length; omega, ?_, ?_, ?_, (fun h => by cases h), ?_⟩⟩
    · show c = p.take c.length; rw [hc]; exact pfx_base p max
    · intro x hx
      simp only [List.mem_append, List.mem_cons, List.not_mem_nil, or_false] at hx
      rcases hx with (h | h | h | h) | h
      · exact hprewf x h
      · rw [h]; exact hleftwf
      · rw [h]; exact memTruncate_wf_new (by omega) (by omega)
      · rw [h]; exact hrightwf
      · exact hpostwf x h
    · show fn.size = _
      simp only [sumLen_append, sumLen_cons, sumLen_nil, hleftl, memTruncate_len, stored_tail_len]; omega
    · refine ⟨fn.segs.take ptr.segIdx ++ [(Seg.stored loc size off l).slice 0 (some ptr.segOff)],
        zeros c.length, Flush.none,
        (Seg.stored loc size off l).slice (ptr.segOff + c.length) none :: fn.segs.drop (ptr.segIdx + 1),
        (((Seg.stored loc size off l).bytes st).drop ptr.segOff).take c.length, ?_, ?_, ?_, ?_, Or.inl ?_, ?_⟩
      · show _ ++ [_, memTruncate [] Flush.none c.length, _] ++ _ = _
        simp [memTruncate]
      · show ptr.segIdx + 1 = _; simp only [List.length_append, List.length_take, List.length_cons, List.length_nil]; omega
      · show 0 + c.length ≤ (zeros c.length).length; simp
      · rw [habs0]
        simp only [absSegs_append, absSegs_cons, absSegs_nil, hleftb, hrightb, List.take_zero, List.append_nil,
          Nat.zero_add, List.append_assoc]
        have hz : List.drop c.length (zeros c.length) = [] := List.drop_of_length_le (by simp)
        simp only [hz, absSegs_nil, List.append_nil, List.nil_append]
        conv => lhs; rw [split3 ((Seg.stored loc size off l).bytes st) ptr.segOff c.length]
        simp only [List.append_assoc]
      · show (List.take c.length _).length = c.length
        rw [List.length_take, List.length_drop, hblen]; omega
      · show (absSegs st (_ ++ [_])).length + 0 = ptr.off
        simp only [absSegs_append, absSegs_cons, absSegs_nil, List.append_nil, List.length_append, hleftb,
          List.length_take, hblen, hpl]
        omega

end ArvVerif.C08
