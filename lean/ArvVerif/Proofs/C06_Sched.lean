/-
C06(a) proofs: a finite schedule of modify/add/delete operations (as the correspondence check
scripts them) yields an environment function that satisfies the hypotheses of the completeness
theorem, provided no operation deletes or re-adds a collection of `P` and modifications of
`P`-collections never move modified_at backwards.
-/
import ArvVerif.Proofs.C06_Paging
namespace ArvVerif.C06

def OpOK (P : List Nat) (db : List Coll) : Op → Prop
  | .modify u t => u ∈ P → ∀ c ∈ db, c.uuid = u → c.time ≤ t
  | .add u _ => u ∉ P
  | .del u => u ∉ P

def OpsOK (P : List Nat) : List Coll → List Op → Prop
  | _, [] => True
  | db, op :: rest => OpOK P db op ∧ OpsOK P (applyOp db op) rest

def SchedOK (P : List Nat) : List Coll → List (List Op) → Prop
  | _, [] => True
  | db, ops :: rest => OpsOK P db ops ∧ SchedOK P (applyOps db ops) rest

def Present (P : List Nat) (db : List Coll) : Prop := ∀ u ∈ P, ∃ c ∈ db, c.uuid = u

theorem env_refl {P db} (h : Present P db) : Env P db db :=
  ⟨h, fun c' hc' _ => ⟨c', hc', rfl, Nat.le_refl _⟩⟩

theorem env_trans {P a b c} (h1 : Env P a b) (h2 : Env P b c) : Env P a c := by
  refine ⟨h2.stay, ?_⟩
  intro c' hc' hP
  obtain ⟨b', hb', hu, ht⟩ := h2.mono c' hc' hP
  obtain ⟨a', ha', hu', ht'⟩ := h1.mono b' hb' (hu ▸ hP)
  exact ⟨a', ha', hu'.trans hu, Nat.le_trans ht' ht⟩

theorem applyOp_nodup {db : List Coll} (op : Op) (h : (db.map Coll.uuid).Nodup) :
    ((applyOp db op).map Coll.uuid).Nodup := by
  cases op with
  | modify u t =>
    simp only [applyOp, List.map_map]
    have : (Coll.uuid ∘ fun c => if c.uuid = u then { c with time := t } else c) = Coll.uuid := by
      funext c; simp only [Function.comp]; split <;> rfl
    rw [this]; exact h
  | add u t =>
    simp only [applyOp, List.map_append, List.map_cons, List.map_nil]
    have hsub : ((db.filter (fun c => decide (c.uuid ≠ u))).map Coll.uuid).Nodup :=
      h.sublist (List.filter_sublist.map _)
    refine List.nodup_append.mpr ⟨hsub, by simp, ?_⟩
    intro a ha b hb
    simp only [List.mem_map, List.mem_filter, decide_eq_true_eq] at ha
    simp only [List.mem_singleton] at hb
    obtain ⟨c, ⟨_, hne⟩, rfl⟩ := ha
    rw [hb]; exact hne
  | del u =>
    simp only [applyOp]
    exact h.sublist (List.filter_sublist.map _)

theorem applyOp_env {P : List Nat} {db : List Coll} (op : Op) (hP : Present P db) (hok : OpOK P db op) :
    Env P db (applyOp db op) := by
  cases op with
  | modify u t =>
    simp only [OpOK] at hok
    refine ⟨?_, ?_⟩
    · intro p hp
      obtain ⟨c, hc, hcu⟩ := hP p hp
      refine ⟨if c.uuid = u then { c with time := t } else c, ?_, ?_⟩
      · simp only [applyOp, List.mem_map]; exact ⟨c, hc, rfl⟩
      · split <;> exact hcu
    · intro c' hc' hcP
      simp only [applyOp, List.mem_map] at hc'
      obtain ⟨c, hc, rfl⟩ := hc'
      by_cases hcu : c.uuid = u
      · simp only [hcu, if_true] at hcP ⊢
        exact ⟨c, hc, hcu, hok hcP c hc hcu⟩
      · simp only [hcu, if_false] at hcP ⊢
        exact ⟨c, hc, rfl, Nat.le_refl _⟩
  | add u t =>
    simp only [OpOK] at hok
    refine ⟨?_, ?_⟩
    · intro p hp
      obtain ⟨c, hc, hcu⟩ := hP p hp
      refine ⟨c, ?_, hcu⟩
      simp only [applyOp, List.mem_append, List.mem_filter, decide_eq_true_eq]
      left; exact ⟨hc, by rw [hcu]; intro h; exact hok (h ▸ hp)⟩
    · intro c' hc' hcP
      simp only [applyOp, List.mem_append, List.mem_filter, decide_eq_true_eq, List.mem_singleton] at hc'
      rcases hc' with ⟨hc, _⟩ | rfl
      · exact ⟨c', hc, rfl, Nat.le_refl _⟩
      · exact absurd hcP hok
  | del u =>
    simp only [OpOK] at hok
    refine ⟨?_, ?_⟩
    · intro p hp
      obtain ⟨c, hc, hcu⟩ := hP p hp
      refine ⟨c, ?_, hcu⟩
      simp only [applyOp, List.mem_filter, decide_eq_true_eq]
      exact ⟨hc, by rw [hcu]; intro h; exact hok (h ▸ hp)⟩
    · intro c' hc' _
      simp only [applyOp, List.mem_filter] at hc'
      exact ⟨c', hc'.1, rfl, Nat.le_refl _⟩

theorem applyOps_nodup : ∀ (ops : List Op) (db : List Coll), (db.map Coll.uuid).Nodup →
    ((applyOps db ops).map Coll.uuid).Nodup := by
  intro ops
  induction ops with
  | nil => intro db h; exact h
  | cons op rest ih => intro db h; exact ih _ (applyOp_nodup op h)

theorem applyOps_env {P : List Nat} : ∀ (ops : List Op) (db : List Coll), Present P db → OpsOK P db ops →
    Env P db (applyOps db ops) := by
  intro ops
  induction ops with
  | nil => intro db hP _; exact env_refl hP
  | cons op rest ih =>
    intro db hP hok
    have e1 := applyOp_env op hP hok.1
    exact env_trans e1 (ih _ e1.stay hok.2)

/-- The environment function of a well-behaved schedule satisfies the hypotheses of
`C06_paging_complete`. -/
theorem envOf_ok {P : List Nat} : ∀ (sched : List (List Op)) (db : List Coll),
    (db.map Coll.uuid).Nodup → Present P db → SchedOK P db sched →
    (∀ k, ((envOf db sched k).map Coll.uuid).Nodup) ∧ Present P (envOf db sched 0) ∧
    (∀ k, Env P (envOf db sched k) (envOf db sched (k + 1))) := by
  intro sched
  induction sched with
  | nil =>
    intro db hnd hP _
    exact ⟨fun _ => hnd, hP, fun _ => env_refl hP⟩
  | cons ops rest ih =>
    intro db hnd hP hok
    have hnd' := applyOps_nodup ops db hnd
    have e1 := applyOps_env ops db hP hok.1
    obtain ⟨i1, i2, i3⟩ := ih (applyOps db ops) hnd' e1.stay hok.2
    refine ⟨?_, e1.stay, ?_⟩
    · intro k
      cases k with
      | zero => exact hnd'
      | succ k => exact i1 k
    · intro k
      cases k with
      | zero =>
        show Env P (applyOps db ops) (envOf (applyOps db ops) rest 0)
        cases rest with
        | nil => exact env_refl e1.stay
        | cons ops1 r => exact applyOps_env ops1 _ e1.stay hok.2.1
      | succ k => exact i3 k

/-- After the schedule the table no longer changes. -/
theorem envOf_const : ∀ (sched : List (List Op)) (db : List Coll) (j : Nat), sched.length ≤ j →
    envOf db sched j = envOf db sched sched.length := by
  intro sched
  induction sched with
  | nil => intro db j _; rfl
  | cons ops rest ih =>
    intro db j hj
    cases j with
    | zero => simp at hj
    | succ j' =>
      simp only [List.length_cons, envOf]
      exact ih _ j' (by simpa using hj)

end ArvVerif.C06
