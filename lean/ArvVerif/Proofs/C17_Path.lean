/-
C17 — lemmas about the host path resolution `namei` and about `sortNames`.
-/
import ArvVerif.Model.C17
namespace ArvVerif.C17

/-- a name that `namei` treats as an ordinary directory entry -/
def CleanName (c : Name) : Prop := c ≠ "" ∧ c ≠ "." ∧ c ≠ ".."

instance (c : Name) : Decidable (CleanName c) := by unfold CleanName; infer_instance

/-- every component of every path of the host tree is an ordinary name, and no path is listed twice -/
structure HostWF (h : Host) : Prop where
  clean : ∀ e ∈ h, ∀ c ∈ e.1, CleanName c
  nonempty : ∀ e ∈ h, e.1 ≠ []
  nodup : (h.map (·.1)).Nodup

theorem namei_nil (h : Host) (cur : Path) (cnt : Nat) : namei h cur [] cnt = .found cur .dir := by
  rw [namei]

/-- looking up one ordinary name in a directory does not follow anything -/
theorem namei_single (h : Host) (p : Path) (c : Name) (cnt : Nat) (n : Node)
    (hc : CleanName c) (hg : h.get (p ++ [c]) = some n) :
    namei h p [c] cnt = .found (p ++ [c]) n := by
  obtain ⟨h1, h2, h3⟩ := hc
  rw [namei]
  simp only [h1, h2, h3, or_self, if_false, hg]
  cases n <;> simp [namei_nil]

/-- if `cur/a` is a directory `p`, then `cur/a/b` is resolved as `p/b` (with some number of links
already followed) -/
theorem namei_append (h : Host) (a : List Name) (cur : Path) (cnt : Nat) (b : List Name) (p : Path) :
    namei h cur a cnt = .found p .dir → ∃ cnt', namei h cur (a ++ b) cnt = namei h p b cnt' := by
  fun_induction namei h cur a cnt with
  | case1 cur cnt =>
    intro hf; simp at hf; subst hf; exact ⟨cnt, by simp⟩
  | case2 cur cnt top rest htop ih =>
    intro hf
    obtain ⟨c', hc'⟩ := ih hf
    refine ⟨c', ?_⟩
    rw [List.cons_append, namei]; simp only [htop, if_true]; exact hc'
  | case3 cur cnt rest hne ih =>
    intro hf
    obtain ⟨c', hc'⟩ := ih hf
    refine ⟨c', ?_⟩
    rw [List.cons_append, namei]; simp only [hne, if_false, if_true]; exact hc'
  | case4 cur cnt top rest h1 h2 hg => intro hf; simp at hf
  | case5 cur cnt top rest h1 h2 hg ih =>
    intro hf
    obtain ⟨c', hc'⟩ := ih hf
    refine ⟨c', ?_⟩
    rw [List.cons_append, namei]; simp only [h1, h2, if_false, hg]; exact hc'
  | case6 cur cnt top h1 h2 abs t hg => intro hf; simp at hf
  | case7 cur cnt top rest h1 h2 abs t hg hr hl => intro hf; simp at hf
  | case8 cur cnt top rest h1 h2 t hr hl hg => intro hf; simp at hf
  | case9 cur cnt top rest h1 h2 abs t hg hr hl ha ih =>
    intro hf
    obtain ⟨c', hc'⟩ := ih hf
    refine ⟨c', ?_⟩
    rw [List.cons_append, namei]
    have : rest ++ b ≠ [] := by simp [hr]
    simp only [h1, h2, if_false, hg, this, hl, ha]
    rw [← List.append_assoc]; exact hc'
  | case10 cur cnt top h1 h2 n hn1 hn2 hg =>
    intro hf; simp at hf; exact absurd hf.2 hn1
  | case11 cur cnt top rest h1 h2 n hn1 hn2 hg hr => intro hf; simp at hf


/-! ## depth bound -/

theorem le_depthBound (h : Host) (e : Path × Node) (he : e ∈ h) : e.1.length ≤ depthBound h := by
  induction h with
  | nil => cases he
  | cons x xs ih =>
    simp only [depthBound, List.map_cons, List.foldr_cons]
    rcases List.mem_cons.mp he with rfl | hm
    · exact Nat.le_max_left _ _
    · exact Nat.le_trans (ih hm) (Nat.le_max_right _ _)

theorem get_len (h : Host) (p : Path) (n : Node) (hg : h.get p = some n) : p.length ≤ depthBound h := by
  unfold Host.get at hg
  by_cases hp : p = []
  · subst hp; simp
  · simp only [hp, if_false, Option.map_eq_some_iff] at hg
    obtain ⟨e, he, _⟩ := hg
    have hm := List.mem_of_find?_eq_some he
    have hp' : e.1 = p := by simpa using List.find?_some he
    rw [← hp']; exact le_depthBound h e hm

/-- whatever `namei` finds lies inside the tree's depth -/
theorem namei_len (h : Host) (cur : Path) (comps : List Name) (cnt : Nat) (p : Path) (n : Node) :
    namei h cur comps cnt = .found p n → cur.length ≤ depthBound h → p.length ≤ depthBound h := by
  fun_induction namei h cur comps cnt with
  | case1 cur cnt => intro hf hc; simp at hf; rw [← hf.1]; exact hc
  | case2 cur cnt top rest htop ih => exact ih
  | case3 cur cnt rest hne ih =>
    intro hf hc; exact ih hf (by simp; omega)
  | case4 cur cnt top rest h1 h2 hg => intro hf; simp at hf
  | case5 cur cnt top rest h1 h2 hg ih =>
    intro hf _; exact ih hf (get_len h _ _ hg)
  | case6 cur cnt top h1 h2 abs t hg =>
    intro hf _; simp at hf; rw [← hf.1]; exact get_len h _ _ hg
  | case7 cur cnt top rest h1 h2 abs t hg hr hl => intro hf; simp at hf
  | case8 cur cnt top rest h1 h2 t hr hl hg => intro hf; simp at hf
  | case9 cur cnt top rest h1 h2 abs t hg hr hl ha ih => exact ih
  | case10 cur cnt top h1 h2 n' hn1 hn2 hg =>
    intro hf _; simp at hf; rw [← hf.1]; exact get_len h _ _ hg
  | case11 cur cnt top rest h1 h2 n' hn1 hn2 hg hr => intro hf; simp at hf

/-! ## directory listing -/

theorem mem_insertName (x y : Name) (l : List Name) : y ∈ insertName x l ↔ y = x ∨ y ∈ l := by
  induction l with
  | nil => simp [insertName]
  | cons z zs ih =>
    simp only [insertName]
    split
    · simp
    · simp only [List.mem_cons, ih]
      constructor
      · rintro (h | h | h)
        · exact Or.inr (Or.inl h)
        · exact Or.inl h
        · exact Or.inr (Or.inr h)
      · rintro (h | h | h)
        · exact Or.inr (Or.inl h)
        · exact Or.inl h
        · exact Or.inr (Or.inr h)

theorem mem_sortNames (y : Name) (l : List Name) : y ∈ sortNames l ↔ y ∈ l := by
  induction l with
  | nil => simp [sortNames]
  | cons z zs ih =>
    have : sortNames (z :: zs) = insertName z (sortNames zs) := rfl
    rw [this, mem_insertName, ih]; simp

theorem length_insertName (x : Name) (l : List Name) : (insertName x l).length = l.length + 1 := by
  induction l with
  | nil => simp [insertName]
  | cons z zs ih => simp only [insertName]; split <;> simp [ih]

theorem length_sortNames (l : List Name) : (sortNames l).length = l.length := by
  induction l with
  | nil => simp [sortNames]
  | cons z zs ih =>
    have : sortNames (z :: zs) = insertName z (sortNames zs) := rfl
    rw [this, length_insertName, ih]; simp

theorem length_children (h : Host) (p : Path) : (h.children p).length ≤ h.length := by
  unfold Host.children; exact List.length_filterMap_le _ _

/-- a listed name is an entry of the directory -/
theorem mem_children (h : Host) (p : Path) (c : Name) (hc : c ∈ h.children p) :
    ∃ n, (p ++ [c], n) ∈ h := by
  unfold Host.children at hc
  simp only [List.mem_filterMap] at hc
  obtain ⟨e, he, hh⟩ := hc
  split at hh
  · rename_i hcond
    obtain ⟨hd, hne⟩ := hcond
    have hl : e.1 = e.1.dropLast ++ [c] := by
      obtain ⟨ys, hys⟩ := List.getLast?_eq_some_iff.mp hh
      rw [hys]; simp
    refine ⟨e.2, ?_⟩
    rw [← hd, ← hl]; exact he
  · cases hh

theorem get_of_mem (h : Host) (wf : HostWF h) (p : Path) (n : Node) (hm : (p, n) ∈ h) : h.get p = some n := by
  unfold Host.get
  have hp : p ≠ [] := wf.nonempty _ hm
  simp only [hp, if_false]
  have hnd := wf.nodup
  induction h with
  | nil => cases hm
  | cons x xs ih =>
    simp only [List.find?_cons]
    rcases List.mem_cons.mp hm with rfl | hm'
    · simp
    · have hx : x.1 ≠ p := by
        intro hx
        simp only [List.map_cons, List.nodup_cons] at hnd
        exact hnd.1 (by rw [hx]; exact List.mem_map.mpr ⟨(p, n), hm', rfl⟩)
      simp only [hx, decide_false]
      simp only [List.map_cons, List.nodup_cons] at hnd
      exact ih ⟨fun e he => wf.clean e (List.mem_cons_of_mem _ he),
                fun e he => wf.nonempty e (List.mem_cons_of_mem _ he), hnd.2⟩ hm' hnd.2

end ArvVerif.C17
