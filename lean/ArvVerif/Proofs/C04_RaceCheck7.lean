/- C04 interleaving layer: kernel evaluation of the table check for the 24 configurations with
patched (WriteBlock takes the flock, fixes/F4.patch) = true, Serialize = true, BlobTrashLifetime == 0 = true. -/
import ArvVerif.Proofs.C04_RaceTable
namespace ArvVerif.C04.Race

theorem checkGroup7 : ((cfgGroup true true true).all fun c => checkCfg c (tableOf c)) = true := by decide +kernel

end ArvVerif.C04.Race
