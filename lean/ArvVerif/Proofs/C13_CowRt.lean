/-
C13 helper lemmas, part 12: copy-on-write for the heap model with the runtime's capacity choice as a
parameter (Model/C13_CowRt.lean), and the aliasing rule the `cow` oracle checks: a segment that has
just been written or grown does not share its array with any buffer handed to a background writer.
-/
import ArvVerif.Model.C13_CowRt
import ArvVerif.Proofs.C13_Cow
namespace ArvVerif.C13.Cow

theorem stepRt_inv (acap : Nat → Nat) {st st' : State} (hinv : Inv st) (op : Op) (h : stepRt acap st op = some st') :
    Inv st' ∧ ∀ sh ∈ st.shared, sh ∈ st'.shared := by
  cases op with
  | writeAt i p off =>
    simp only [stepRt] at h
    cases hi : st.segs[i]? with
    | none => rw [hi] at h; cases h
    | some sg =>
      rw [hi] at h
      simp only [] at h
      split at h
      · cases h
        exact ⟨hinv.fresh hi _ _ _, fun sh hsh => hsh⟩
      · exact step_inv hinv _ h
  | truncate i n => simp only [stepRt] at h; exact step_inv hinv _ h
  | slice i off len => simp only [stepRt] at h; exact step_inv hinv _ h
  | handOff i tok => simp only [stepRt] at h; exact step_inv hinv _ h
  | drop i => simp only [stepRt] at h; exact step_inv hinv _ h

theorem runRt_inv (acap : Nat → Nat) : ∀ (ops : List Op) {st st' : State}, Inv st → runRt acap st ops = some st' →
    Inv st' ∧ ∀ sh ∈ st.shared, sh ∈ st'.shared := by
  intro ops
  induction ops with
  | nil => intro st st' hinv h; simp only [runRt] at h; cases h; exact ⟨hinv, fun _ h => h⟩
  | cons op rest ih =>
    intro st st' hinv h
    simp only [runRt] at h
    cases hs : stepRt acap st op with
    | none => rw [hs] at h; cases h
    | some st1 =>
      rw [hs] at h
      obtain ⟨h1, h2⟩ := stepRt_inv acap hinv op hs
      obtain ⟨h3, h4⟩ := ih h1 h
      exact ⟨h3, fun sh hsh => h4 sh (h2 sh hsh)⟩

theorem initRt_inv : Inv initRt := by
  refine ⟨?_, ?_, (fun _ h => by cases h), (fun _ h => by cases h), (fun _ h => by cases h)⟩
  · intro i j a b ha hb _
    have hi : i = 0 := by
      cases i with
      | zero => rfl
      | succ i => simp [initRt] at ha
    have hj : j = 0 := by
      cases j with
      | zero => rfl
      | succ j => simp [initRt] at hb
    omega
  · intro sg h
    simp only [initRt, List.mem_singleton] at h
    subst h; decide

/-- a segment with `flushing == nil` shares its array with no handed-off buffer -/
theorem Inv.unshared {st : State} (hinv : Inv st) {sg : MSeg} (hsg : sg ∈ st.segs) (hfl : sg.flushing = none) :
    ∀ sh ∈ st.shared, sh.ptr ≠ sg.ptr :=
  fun sh hsh hp => hinv.guard sh hsh sg hsg hp.symm hfl

/-- **After WriteAt** the written segment has `flushing == nil`, hence its own array. -/
theorem writeAt_unshared (acap : Nat → Nat) {st st' : State} (hinv : Inv st) {i off : Nat} {p : Bytes}
    (h : stepRt acap st (Op.writeAt i p off) = some st') :
    ∃ sg', st'.segs[i]? = some sg' ∧ sg'.flushing = none ∧ ∀ sh ∈ st'.shared, sh.ptr ≠ sg'.ptr := by
  have hinv' := (stepRt_inv acap hinv _ h).1
  suffices hs : ∃ sg', st'.segs[i]? = some sg' ∧ sg'.flushing = none by
    obtain ⟨sg', h1, h2⟩ := hs
    exact ⟨sg', h1, h2, hinv'.unshared (List.mem_of_getElem? h1) h2⟩
  simp only [stepRt] at h
  cases hi : st.segs[i]? with
  | none => rw [hi] at h; cases h
  | some sg =>
    have hlt : i < st.segs.length := by
      apply Classical.byContradiction; intro hn
      rw [List.getElem?_eq_none (by omega)] at hi; cases hi
    rw [hi] at h
    simp only [] at h
    split at h
    · cases h
      exact ⟨_, List.getElem?_set_self hlt, rfl⟩
    · simp only [step, hi] at h
      split at h
      · cases h
      · split at h
        · cases h
          exact ⟨_, List.getElem?_set_self hlt, rfl⟩
        · next hfl =>
          cases h
          exact ⟨sg, hi, Classical.byContradiction (fun hne => hfl hne)⟩

/-- **After a growing Truncate** likewise: either the segment was not being flushed (and then shares
with nobody), or it got a fresh array and `flushing == nil`. -/
theorem truncate_grow_unshared (acap : Nat → Nat) {st st' : State} (hinv : Inv st) {i n : Nat} {sg : MSeg}
    (hi : st.segs[i]? = some sg) (hgrow : sg.len < n) (h : stepRt acap st (Op.truncate i n) = some st') :
    ∃ sg', st'.segs[i]? = some sg' ∧ sg'.flushing = none ∧ sg'.len = n ∧ ∀ sh ∈ st'.shared, sh.ptr ≠ sg'.ptr := by
  have hinv' := (stepRt_inv acap hinv _ h).1
  suffices hs : ∃ sg', st'.segs[i]? = some sg' ∧ sg'.flushing = none ∧ sg'.len = n by
    obtain ⟨sg', h1, h2, h3⟩ := hs
    exact ⟨sg', h1, h2, h3, hinv'.unshared (List.mem_of_getElem? h1) h2⟩
  have hlt : i < st.segs.length := by
    apply Classical.byContradiction; intro hn
    rw [List.getElem?_eq_none (by omega)] at hi; cases hi
  simp only [stepRt, step, hi] at h
  split at h
  · cases h
    exact ⟨_, List.getElem?_set_self hlt, rfl, rfl⟩
  · next hc =>
    cases h
    refine ⟨_, List.getElem?_set_self hlt, ?_, rfl⟩
    simp only []
    apply Classical.byContradiction; intro hne
    exact hc (Or.inr ⟨hne, by omega⟩)

end ArvVerif.C13.Cow
