/-
C09 helper lemmas, part 20: the executable glue check decides the hypotheses of
`C09_load_marshal_preserves`.
-/
import ArvVerif.Model.C09_Glue
import ArvVerif.Proofs.C09_Load
import ArvVerif.Proofs.C09_Dirs
namespace ArvVerif.C09

open ArvVerif.C08 (Seg FileNode)
open ArvVerif.C10 (bSlash bDot)

theorem segsMatch_sound (size : Bytes → Nat) : ∀ (ss : List Seg) (cs : List C10.Seg), segsMatch size ss cs = true →
    ss = cs.map (segOf size)
  | [], [], _ => rfl
  | [], _ :: _, h => by simp [segsMatch] at h
  | _ :: _, [], h => by simp [segsMatch] at h
  | s :: ss, c :: cs, h => by
    simp only [segsMatch, Bool.and_eq_true] at h
    rw [List.map_cons, ← segsMatch_sound size ss cs h.2]
    cases s with
    | mem b f => simp [segMatch] at h
    | stored loc sz off len =>
      simp only [segMatch, Bool.and_eq_true, beq_iff_eq] at h
      obtain ⟨⟨⟨⟨h1, h2⟩, h3⟩, h4⟩, _⟩ := h
      simp only [segOf]
      rw [h1, h2, h3, h4]

theorem nameOKb_sound (n : Bytes) (h : nameOKb n = true) : NameOK n := by
  simp only [nameOKb, Bool.and_eq_true, bne_iff_ne, ne_eq, Bool.not_eq_true', List.contains_eq_mem,
    decide_eq_false_iff_not] at h
  exact ⟨h.1.1.1, h.1.1.2, h.1.2, h.2⟩

theorem glueOK_sound (size : Bytes → Nat) (tr : C10.FsTree) (t : Tree9) (h : glueOK size tr t = true) :
    Represents size tr t ∧ (dirPaths t).Nodup ∧ (∀ d ∈ t, (d.files.map (·.1)).Nodup) ∧ (∀ d ∈ t, ∀ c ∈ d.path, NameOK c) := by
  simp only [glueOK, representsB, Bool.and_eq_true, List.all_eq_true, List.any_eq_true, decide_eq_true_eq,
    beq_iff_eq] at h
  obtain ⟨⟨⟨⟨r1, r2⟩, h2⟩, h3⟩, h4⟩ := h
  refine ⟨⟨?_, ?_⟩, h2, h3, fun d hd c hc => nameOKb_sound c (h4 d hd c hc)⟩
  · intro d hd f hf
    obtain ⟨e, he, hk, hs⟩ := r1 d hd f hf
    exact ⟨e, he, hk, segsMatch_sound size _ _ hs⟩
  · intro e he
    obtain ⟨d, hd, f, hf, hk⟩ := r2 e he
    exact ⟨d, hd, f, hf, hk⟩

theorem path_split : ∀ (k : List Bytes), k ≠ [] → k.dropLast ++ [k.getLastD []] = k
  | [], h => absurd rfl h
  | [a], _ => rfl
  | a :: b :: r, _ => by
    have := path_split (b :: r) (by simp)
    simp only [List.dropLast_cons_cons, List.getLastD_cons, List.cons_append] at this ⊢
    rw [this]

theorem shapeOK_sound (t : Tree9) (h : shapeOK t = true) :
    TreeClosed t ∧ (∀ d ∈ t, ∀ f ∈ d.files, d.path ++ [f.1] ∉ dirPaths t) ∧ (dirPaths t).Nodup ∧
    (∀ d ∈ t, (d.files.map (·.1)).Nodup) ∧ (∀ d ∈ t, ∀ c ∈ d.path, NameOK c) ∧ (∀ d ∈ t, ∀ f ∈ d.files, NameOK f.1) := by
  simp only [shapeOK, closedB, noClashB, Bool.and_eq_true, List.all_eq_true, List.any_eq_true, decide_eq_true_eq,
    Bool.or_eq_true, beq_iff_eq, List.contains_iff_mem, List.isEmpty_iff, Bool.not_eq_eq_eq_not,
    Bool.not_true, List.isEmpty_eq_false_iff] at h
  obtain ⟨⟨⟨⟨⟨⟨c1, c2⟩, c3⟩, c4⟩, c5⟩, c6⟩, c7⟩ := h
  refine ⟨⟨?_, ?_⟩, ?_, c4, c5, fun d hd c hc => nameOKb_sound c (c6 d hd c hc), fun d hd f hf => nameOKb_sound _ (c7 d hd f hf)⟩
  · intro d hd hne
    rcases c1 d hd with h' | h'
    · exact absurd h' hne
    · exact h'
  · intro d hd hsub
    rcases c2 d hd with h' | ⟨c, hc, hcne, hcd⟩
    · omega
    · exact ⟨c, hc, c.path.getLastD [], by rw [← hcd]; exact (path_split c.path hcne).symm⟩
  · intro d hd f hf hm
    have := c3 d hd f hf
    simp only [List.contains_eq_mem, decide_eq_false_iff_not] at this
    exact this hm

end ArvVerif.C09
