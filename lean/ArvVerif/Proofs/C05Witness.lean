/-
C05: concrete layouts used as non-vacuity examples. f1/f2/f12 are the literal layouts of
corpus/C05/witnesses.txt on which the code failed before the fix: commits (findings F1, F2, F12);
the check replays them on the real code in every run.
-/
import ArvVerif.Model.C05
namespace ArvVerif.C05

instance {α : Type} [DecidableEq α] (lt : α → α → Bool) (a b : List α) : Decidable (IsSorted lt a b) := by
  unfold IsSorted; infer_instance

def mkMount (id srv dev : Nat) (classes : List Class) : Mount :=
  { id := id, srv := srv, dev := dev, ro := false, repl := 1, classes := classes }

/-- a sort that satisfies `IsSorted` and reduces in the kernel -/
def wSorter (env : Env) : Class → List Slot → List Slot := fun c l => isort (fun a b => !less env c b a) l

/-- services ranked in index order, devices compared by number, TTL boundary at mtime 1000 -/
def wEnv (desired : List (Class × Nat)) : Env :=
  { rank := fun s => s, devLess := fun a b => decide (a < b), minMtime := 1000, desiredMap := desired }

/-! F1: five single-mount servers ranked: blank (empty), blank (empty), device 7, device 7 again,
device 8 holding an older replica; class 0 (`default`) desired 2. -/
def f1Env : Env := wEnv [(0, 2)]
def f1Mounts : List Mount :=
  [mkMount 0 0 0 [0], mkMount 1 1 0 [0], mkMount 2 2 7 [0], mkMount 3 3 7 [0], mkMount 4 4 8 [0]]
def f1Reps : List Replica := [⟨2, 2, 900⟩, ⟨3, 3, 900⟩, ⟨4, 4, 800⟩]
def f1Result : Result := balanceBlock f1Env [0] (wSorter f1Env) f1Mounts f1Reps

/-! F2: class 1 (`special`) desired 2; server 0 has two `special` mounts (devices 1, 2) holding the
block, server 1 a `default` mount (device 3) holding it. -/
def f2Env : Env := wEnv [(1, 2)]
def f2Mounts : List Mount := [mkMount 0 0 1 [1], mkMount 1 0 2 [1], mkMount 2 1 3 [0]]
def f2Reps : List Replica := [⟨0, 0, 900⟩, ⟨1, 0, 901⟩, ⟨2, 1, 902⟩]
def f2Result : Result := balanceBlock f2Env [0, 1] (wSorter f2Env) f2Mounts f2Reps

/-! F12: one read-only mount, no replica, class 0 desired 2. -/
def f12Env : Env := wEnv [(0, 2)]
def f12Mounts : List Mount := [{ mkMount 0 0 0 [0] with ro := true }]
def f12Result : Result := balanceBlock f12Env [0] (wSorter f12Env) f12Mounts []

/-! A layout in the proved quadrant with every kind of outcome: four single-mount servers, distinct
devices; ranks 0..3; replicas: server 1 (new), server 2 (old), server 3 (old); desired 2.
Server 0 is wanted and empty (pull), server 1 stays, server 2 is protected (kept), server 3 is
trashed. -/
def okEnv : Env := wEnv [(0, 2)]
def okMounts : List Mount := [mkMount 0 0 1 [0], mkMount 1 1 2 [0], mkMount 2 2 3 [0], mkMount 3 3 0 [0]]
def okReps : List Replica := [⟨1, 1, 1005⟩, ⟨2, 2, 900⟩, ⟨3, 3, 800⟩]
def okResult : Result := balanceBlock okEnv [0] (wSorter okEnv) okMounts okReps

/-- raw layout for the cleanup/setup examples: device 5 is mounted read-write on service 0 and
read-only on service 1 (dropped); service 2 is read-only with a writable mount reporting
replication 0 and class 3. -/
def rawLayout : List RawService :=
  [{ id := 0, ro := false, mounts := [{ id := 0, dev := 5, ro := false, repl := 2, classes := [] }] },
   { id := 1, ro := false, mounts := [{ id := 1, dev := 5, ro := true, repl := 2, classes := [] },
                                      { id := 2, dev := 0, ro := true, repl := 1, classes := [] }] },
   { id := 2, ro := true, mounts := [{ id := 3, dev := 6, ro := false, repl := 0, classes := [3] }] }]

/-! F05a: two class-0 (`default`) mounts holding old replicas; the block is wanted only in class 5,
which no mount offers (so it is not among `bal.classes` = [0]), with replication 2. -/
def f05aEnv : Env := wEnv [(5, 2)]
def f05aMounts : List Mount := [mkMount 0 0 0 [0], mkMount 1 1 0 [0]]
def f05aReps : List Replica := [⟨0, 0, 900⟩, ⟨1, 1, 901⟩]
def f05aResult : Result := balanceBlock f05aEnv [0] (wSorter f05aEnv) f05aMounts f05aReps

/-! Why device consistency is assumed: device 7 is reported in class 0 by server 0 and in class 1
by server 1; class 0 desired 1. -/
def ncEnv : Env := wEnv [(0, 1)]
def ncMounts : List Mount := [mkMount 0 0 7 [0], mkMount 1 1 7 [1], mkMount 2 2 8 [0]]
def ncReps : List Replica := [⟨0, 0, 900⟩, ⟨1, 1, 900⟩, ⟨2, 2, 800⟩]
def ncResult : Result := balanceBlock ncEnv [0, 1] (wSorter ncEnv) ncMounts ncReps

def roEnv : Env := wEnv [(1, 1)]
def roReps : List Replica := [⟨0, 0, 900⟩, ⟨2, 1, 800⟩, ⟨3, 2, 700⟩]

end ArvVerif.C05
