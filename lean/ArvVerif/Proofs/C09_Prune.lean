/-
C09 helper lemmas, part 12: `pruneMemSegments` with a Keep that can fail (`pruneSegsK`): whatever
Keep answers, no segment is replaced at this point, every segment keeps its bytes and length, the
list stays well-formed; a segment marked "pending" has its snapshot acknowledged by Keep (so the
goroutine may later swap in the stored segment — C08's `settle`), a failed one is only marked.
-/
import ArvVerif.Proofs.C09_Flush
namespace ArvVerif.C09

open ArvVerif.C08 (Seg FileNode Ptr Flush Store Ref StoreOK StoreExt SegWF)

variable {max : Nat} {hash : Bytes → C08.Loc}

theorem putB_spec (hinj : Function.Injective hash) {k : Keep} (hk : KeepOK hash k) (b : Bytes) :
    KeepOK hash (k.putB hash b).1 ∧ KeepStep hash k (k.putB hash b).1 ∧
    ((k.putB hash b).2 = true → (k.putB hash b).1.store (hash b) = some b) := by
  obtain ⟨hs1, hs2⟩ := next_store k
  have hk' : KeepOK hash k.next.2 := ⟨by rw [hs1]; exact hk.ok, by rw [hs1, hs2]; exact hk.acked⟩
  have hstep0 : KeepStep hash k k.next.2 :=
    ⟨by rw [hs1]; exact StoreExt.refl _, ⟨[], by rw [hs2]; simp⟩, fun l b h => Or.inl (by rw [hs1] at h; exact h)⟩
  unfold Keep.putB
  cases ho : k.next with
  | mk o k' =>
    have ek' : k' = k.next.2 := by rw [ho]
    subst ek'
    have hfail : KeepOK hash k.next.2.failed ∧ KeepStep hash k k.next.2.failed := by
      have hst : k.next.2.failed.store = k.store := by simp [Keep.failed, hs1]
      have hac : k.next.2.failed.acked = k.acked := by simp [Keep.failed, hs2]
      exact ⟨⟨by rw [hst]; exact hk.ok, by rw [hst, hac]; exact hk.acked⟩,
        ⟨by rw [hst]; exact StoreExt.refl _, ⟨[], by rw [hac]; simp⟩, fun l b h => Or.inl (by rw [hst] at h; exact h)⟩⟩
    cases o with
    | ok =>
      simp only []
      obtain ⟨r1, r2⟩ := record_step hinj hk' b
      exact ⟨r1, hstep0.trans r2, fun _ => C08.Store.put_get hash _ b⟩
    | fail => simp only []; exact ⟨hfail.1, hfail.2, fun h => (by cases h)⟩
    | skip => simp only []; exact ⟨hfail.1, hfail.2, fun h => (by cases h)⟩

/-- **pruneMemSegments under any answers of Keep** -/
theorem pruneSegsK_spec (hinj : Function.Injective hash) : ∀ (segs : List Seg) (idx : Nat) (k : Keep),
    KeepOK hash k → (∀ s ∈ segs, SegWF max hash k.store s) →
    KeepOK hash (pruneSegsK hash max segs idx k).2 ∧ KeepStep hash k (pruneSegsK hash max segs idx k).2 ∧
    (∀ s ∈ (pruneSegsK hash max segs idx k).1, SegWF max hash (pruneSegsK hash max segs idx k).2.store s) ∧
    (pruneSegsK hash max segs idx k).1.map (Seg.bytes (pruneSegsK hash max segs idx k).2.store) = segs.map (Seg.bytes k.store) ∧
    (pruneSegsK hash max segs idx k).1.map Seg.len = segs.map Seg.len ∧
    (pruneSegsK hash max segs idx k).1.map Seg.isMem = segs.map Seg.isMem
  | [], _, k, hk, _ => ⟨hk, KeepStep.refl k, fun s hs => (by cases hs), rfl, rfl, rfl⟩
  | s :: rest, idx, k, hk, hwf => by
    have hrest := fun (k1 : Keep) (hk1 : KeepOK hash k1) (he : StoreExt k.store k1.store) =>
      pruneSegsK_spec hinj rest (idx + 1) k1 hk1 (fun x hx => (hwf x (List.mem_cons_of_mem _ hx)).ext he)
    have hs := hwf s (by simp)
    -- the segment is kept as it is
    have keep_case : ∀ (k1 : Keep), KeepOK hash k1 → KeepStep hash k k1 → ∀ (s' : Seg), SegWF max hash k1.store s' →
        s'.bytes k1.store = s.bytes k.store → s'.len = s.len → s'.isMem = s.isMem →
        KeepOK hash (pruneSegsK hash max rest (idx + 1) k1).2 ∧ KeepStep hash k (pruneSegsK hash max rest (idx + 1) k1).2 ∧
        (∀ x ∈ s' :: (pruneSegsK hash max rest (idx + 1) k1).1, SegWF max hash (pruneSegsK hash max rest (idx + 1) k1).2.store x) ∧
        (s' :: (pruneSegsK hash max rest (idx + 1) k1).1).map (Seg.bytes (pruneSegsK hash max rest (idx + 1) k1).2.store) =
          (s :: rest).map (Seg.bytes k.store) ∧
        (s' :: (pruneSegsK hash max rest (idx + 1) k1).1).map Seg.len = (s :: rest).map Seg.len ∧
        (s' :: (pruneSegsK hash max rest (idx + 1) k1).1).map Seg.isMem = (s :: rest).map Seg.isMem := by
      intro k1 hk1 hstep s' hs' hb hl hm
      obtain ⟨r1, r2, r3, r4, r5, r6⟩ := hrest k1 hk1 hstep.ext
      refine ⟨r1, hstep.trans r2, ?_, ?_, ?_, ?_⟩
      · intro x hx
        rcases List.mem_cons.mp hx with rfl | hx
        · exact hs'.ext r2.ext
        · exact r3 x hx
      · simp only [List.map_cons]
        rw [r4, hs'.bytes_ext r2.ext, hb]
        congr 1
        exact List.map_congr_left (fun x hx => (hwf x (List.mem_cons_of_mem _ hx)).bytes_ext hstep.ext)
      · simp only [List.map_cons, r5, hl]
      · simp only [List.map_cons, r6, hm]
    unfold pruneSegsK
    cases s with
    | stored loc size off len =>
      simp only []
      exact keep_case k hk (KeepStep.refl k) _ hs rfl rfl rfl
    | mem buf fl =>
      cases fl with
      | pending i l => simp only []; exact keep_case k hk (KeepStep.refl k) _ hs rfl rfl rfl
      | stale => simp only []; exact keep_case k hk (KeepStep.refl k) _ hs rfl rfl rfl
      | none =>
        simp only []
        by_cases hlt : buf.length < max
        · rw [if_pos hlt]
          exact keep_case k hk (KeepStep.refl k) _ hs rfl rfl rfl
        · rw [if_neg hlt]
          obtain ⟨p1, p2, p3⟩ := putB_spec hinj hk buf
          simp only []
          by_cases hok : (k.putB hash buf).2 = true
          · rw [if_pos hok]
            exact keep_case _ p1 p2 (Seg.mem buf (Flush.pending idx buf.length))
              ⟨hs.1, hs.2.1, fun i l h => (by cases h; exact ⟨Nat.le_refl _, fun _ => p3 hok⟩)⟩ rfl rfl rfl
          · rw [if_neg hok]
            exact keep_case _ p1 p2 (Seg.mem buf Flush.stale) ⟨hs.1, hs.2.1, fun i l h => (by cases h)⟩ rfl rfl rfl

end ArvVerif.C09
