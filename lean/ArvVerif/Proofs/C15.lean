/-
Helper lemmas for the C15 response theorems (Props/C15.lean): `poolSync` against C14's `Pool.sync`,
`Pool.find` under `put`/`updateWorker`, what `probeApply` preserves, the `killRun` and `fslRun`
loops.
-/
import ArvVerif.Model.C15
import ArvVerif.Proofs.C14_L2
namespace ArvVerif.C15
open ArvVerif.C14

/-! ### Pool.find under put / updateWorker -/

theorem find_eq_some_id {p : Pool} {i : Nat} {w : Worker} (h : p.find i = some w) : w.id = i := by
  unfold Pool.find at h
  have := List.find?_some h
  simpa using this

theorem find_put_other (p : Pool) (w : Worker) (i : Nat) (h : w.id ≠ i) : (p.put w).find i = p.find i := by
  unfold Pool.put Pool.find
  dsimp only
  induction p.workers with
  | nil => rfl
  | cons x rest ih =>
    rw [List.map_cons, List.find?_cons, List.find?_cons, ih]
    by_cases hx : x.id = w.id
    · have h2 : (w.id == i) = false := by simpa using h
      simp [hx, h2]
    · simp [hx]

theorem find_put_self (p : Pool) (w w0 : Worker) (h : p.find w.id = some w0) : (p.put w).find w.id = some w := by
  obtain ⟨ws, ex⟩ := p
  unfold Pool.put Pool.find at *
  dsimp only at *
  induction ws with
  | nil => simp at h
  | cons x rest ih =>
    rw [List.map_cons, List.find?_cons]
    rw [List.find?_cons] at h
    by_cases hx : x.id = w.id
    · simp [hx]
    · have hx' : (x.id == w.id) = false := by simpa using hx
      simp only [hx'] at h
      simp only [hx', Bool.false_eq_true, if_false]
      exact ih h

theorem find_append_other (ws : List Worker) (nw : Worker) (i : Nat) (h : nw.id ≠ i) :
    (ws ++ [nw]).find? (fun w => w.id == i) = ws.find? (fun w => w.id == i) := by
  rw [List.find?_append]
  cases hf : ws.find? (fun w => w.id == i) with
  | some x => simp
  | none =>
    have : (nw.id == i) = false := by simpa using h
    simp [this]

theorem find_updateWorker_other (p : Pool) (l : Pool.Listed) (now i : Nat) (h : l.id ≠ i) :
    (p.updateWorker l now).find i = p.find i := by
  unfold Pool.updateWorker
  cases hf : p.find l.id with
  | some w =>
    dsimp only
    have hid := find_eq_some_id hf
    exact find_put_other p _ i (by simpa [hid] using h)
  | none =>
    dsimp only
    unfold Pool.find
    dsimp only
    exact find_append_other _ _ i h

theorem find_updateWorker_self (p : Pool) (l : Pool.Listed) (now : Nat) (w : Worker) (hf : p.find l.id = some w) :
    ∃ w', (p.updateWorker l now).find l.id = some w' ∧ w'.state = w.state ∧ w'.updated = now ∧ w'.id = l.id := by
  have hid := find_eq_some_id hf
  refine ⟨{ w with updated := now }, ?_, rfl, rfl, hid⟩
  unfold Pool.updateWorker
  rw [hf]
  dsimp only
  have := find_put_self p { w with updated := now } w (by show p.find w.id = some w; rw [hid]; exact hf)
  rw [← hid]
  exact this

/-! ### poolSync -/

theorem syncStep_fst (retry : Nat → Bool) (now : Nat) (acc : Pool × List Nat) (l : Pool.Listed) :
    (syncStep retry now acc l).1 =
    (match (acc.1.updateWorker l now).find l.id with
     | some w =>
       if (acc.1.find l.id).isSome && w.state == .shutdown && retry l.id then
         (acc.1.updateWorker l now).put (w.shutdown now)
       else acc.1.updateWorker l now
     | none => acc.1.updateWorker l now) := by
  unfold syncStep
  dsimp only
  cases (acc.1.updateWorker l now).find l.id with
  | none => rfl
  | some w => dsimp only; split <;> rfl

theorem fold_fst (retry : Nat → Bool) (now : Nat) : ∀ (listed : List Pool.Listed) (acc : Pool × List Nat),
    (listed.foldl (syncStep retry now) acc).1 =
    listed.foldl (fun p l =>
      let existed := (p.find l.id).isSome
      let p := p.updateWorker l now
      match p.find l.id with
      | some w => if existed && w.state == .shutdown && retry l.id then p.put (w.shutdown now) else p
      | none => p) acc.1 := by
  intro listed
  induction listed with
  | nil => intro acc; rfl
  | cons l rest ih =>
    intro acc
    rw [List.foldl_cons, List.foldl_cons, ih]
    congr 1
    exact syncStep_fst retry now acc l

/-- The pool component of `poolSync` is C14's `Pool.sync`. -/
theorem poolSync_fst (p : Pool) (threshold : Nat) (listed : List Pool.Listed) (retry : Nat → Bool) (now : Nat) :
    (poolSync p threshold listed retry now).1 = p.sync threshold listed retry now := by
  unfold poolSync Pool.sync
  dsimp only
  rw [fold_fst retry now listed (p, [])]
  rfl

theorem syncStep_mono (retry : Nat → Bool) (now : Nat) (acc : Pool × List Nat) (l : Pool.Listed) (x : Nat)
    (h : x ∈ acc.2) : x ∈ (syncStep retry now acc l).2 := by
  unfold syncStep
  dsimp only
  split
  · split
    · exact List.mem_append_left _ h
    · exact h
  · exact h

theorem fold_mono (retry : Nat → Bool) (now : Nat) (ls : List Pool.Listed) :
    ∀ (acc : Pool × List Nat) (x : Nat), x ∈ acc.2 → x ∈ (ls.foldl (syncStep retry now) acc).2 := by
  induction ls with
  | nil => intro acc x h; exact h
  | cons l rest ih =>
    intro acc x h
    simp only [List.foldl_cons]
    exact ih _ x (syncStep_mono retry now acc l x h)

theorem syncStep_other (retry : Nat → Bool) (now : Nat) (acc : Pool × List Nat) (l : Pool.Listed) (i : Nat)
    (h : l.id ≠ i) : (syncStep retry now acc l).1.find i = acc.1.find i := by
  unfold syncStep
  dsimp only
  split
  · rename_i w hw
    have hid := find_eq_some_id hw
    split
    · rw [find_put_other _ _ i (by show w.id ≠ i; rw [hid]; exact h)]
      exact find_updateWorker_other _ _ _ _ h
    · exact find_updateWorker_other _ _ _ _ h
  · exact find_updateWorker_other _ _ _ _ h

/-- One listed instance whose worker exists, is in StateShutdown and is due for a retry:
`Destroy` is re-issued and the worker stays (stamped `now`). -/
theorem syncStep_retry (retry : Nat → Bool) (now : Nat) (acc : Pool × List Nat) (l : Pool.Listed) (w : Worker)
    (hf : acc.1.find l.id = some w) (hs : w.state = .shutdown) (hr : retry l.id = true) :
    l.id ∈ (syncStep retry now acc l).2 ∧
    ∃ w', (syncStep retry now acc l).1.find l.id = some w' ∧ w'.state = .shutdown ∧ w'.updated = now := by
  obtain ⟨w1, hu, hst, _, hid1⟩ := find_updateWorker_self acc.1 l now w hf
  unfold syncStep
  dsimp only
  rw [hu, hf]
  have hs1 : w1.state = .shutdown := hst.trans hs
  simp only [Option.isSome_some, hs1, beq_self_eq_true, hr, Bool.and_self, if_true]
  refine ⟨by simp, w1.shutdown now, ?_, rfl, rfl⟩
  have e : (w1.shutdown now).id = l.id := hid1
  have := find_put_self (acc.1.updateWorker l now) (w1.shutdown now) w1 (by rw [e]; exact hu)
  rw [e] at this
  exact this

/-! ### what probeApply preserves -/

theorem updateRunning_idleB (w : Worker) (alive : List Uuid) (now : Nat) :
    (w.updateRunning alive now).1.idleB = w.idleB := by
  unfold Worker.updateRunning
  dsimp only
  obtain ⟨_, _, _, a4, _⟩ := Worker.adoptAlive_spec alive w
  obtain ⟨_, _, c3, _⟩ := Worker.closeDead_spec (w.adoptAlive alive).1 alive now
  rw [c3, a4]

theorem ite_idleB {c : Prop} [Decidable c] {a b : Worker} {x : IdleB} (ha : a.idleB = x) (hb : b.idleB = x) :
    (if c then a else b).idleB = x := by
  split <;> assumption

theorem applyFresh_idleB (w : Worker) (p : Probe) (now : Nat) : (w.applyFresh p now).1.idleB = w.idleB := by
  unfold Worker.applyFresh
  dsimp only
  have h0 : (if (!p.uuids.isEmpty || !w.running.isEmpty) = true then ({ w with busy := now } : Worker) else w).idleB
      = w.idleB := ite_idleB rfl rfl
  generalize (if (!p.uuids.isEmpty || !w.running.isEmpty) = true then ({ w with busy := now } : Worker) else w) = w0
    at h0 ⊢
  have h1 := (updateRunning_idleB w0 p.uuids now).trans h0
  generalize w0.updateRunning p.uuids now = r at h1 ⊢
  have h2 : ∀ (c : Prop) [Decidable c], (if c then ({ r.1 with state := .idle } : Worker) else r.1).idleB = w.idleB :=
    fun c _ => ite_idleB h1 h1
  split
  · exact h2 _
  · dsimp only
    have h3 := h2 ((p.booted && (r.1.state == .unknown || r.1.state == .booting)) = true)
    generalize (if (p.booted && (r.1.state == .unknown || r.1.state == .booting)) = true then
      ({ r.1 with state := .idle } : Worker) else r.1) = w2 at h3 ⊢
    exact ite_idleB h3 (ite_idleB h3 h3)

theorem applyFailed_idleB (w : Worker) (p : Probe) (now : Nat) : (w.applyFailed p now).idleB = w.idleB := by
  unfold Worker.applyFailed
  split
  · rfl
  · split <;> rfl

theorem drainStep_idleB (w : Worker) (p : Probe) (now : Nat) :
    (w.drainStep p now).idleB = if p.broken && w.idleB == .run then .drain else w.idleB := by
  unfold Worker.drainStep
  split
  · exact (Worker.setIdleBehavior_spec w .drain false p.allGivenUp now).2.2.1
  · rfl

theorem probeApply_idleB (w : Worker) (p : Probe) (now : Nat) :
    (w.probeApply p now).1.idleB = if p.broken && w.idleB == .run then .drain else w.idleB := by
  unfold Worker.probeApply
  dsimp only
  split
  · rw [applyFailed_idleB, drainStep_idleB]
  · split
    · exact drainStep_idleB w p now
    · rw [applyFresh_idleB]
      exact drainStep_idleB w p now

/-- A failed probe past its timeout shuts the worker down (unless held). -/
theorem probeApply_timeout (w : Worker) (p : Probe) (now : Nat) (hh : w.idleB ≠ .hold)
    (hf : (w.drainStep p now).probeFailed p = true) (ht : p.timedOut = true) :
    (w.probeApply p now).1.state = .shutdown := by
  unfold Worker.probeApply
  dsimp only
  rw [if_pos hf]
  unfold Worker.applyFailed
  split
  · rename_i h
    simp only [Bool.and_eq_true, beq_iff_eq] at h
    exact h.1
  · have hib : (w.drainStep p now).idleB ≠ .hold := by
      rw [drainStep_idleB]
      split
      · intro h; cases h
      · exact hh
    have : ((w.drainStep p now).idleB != .hold && p.timedOut) = true := by
      simp [ht, hib]
    rw [if_pos this]
    rfl

/-! ### killRun -/

theorem killRun_terminates (T : Timeouts) (u : Uuid) (now : Nat) :
    ∀ (script : List KTick) (s : KState), (∃ t ∈ script, T.term < t.elapsed) →
      (killRun T u now script s).2 ≠ .waiting := by
  intro script
  induction script with
  | nil => intro s ⟨t, ht, _⟩; cases ht
  | cons t rest ih =>
    intro s hex
    unfold killRun
    split
    · intro h; cases h
    · split
      · intro h; cases h
      · rename_i hnot
        have hrest : ∃ t' ∈ rest, T.term < t'.elapsed := by
          obtain ⟨t', ht', hlt⟩ := hex
          rcases List.mem_cons.mp ht' with e | e
          · subst e; exact absurd hlt (by simpa using hnot)
          · exact ⟨t', e, hlt⟩
        split
        · exact ih _ hrest
        · exact ih _ hrest

/-- While the script has not ended the worker's idle behaviour only changes by giving up. -/
theorem killRun_gaveUp (T : Timeouts) (u : Uuid) (now : Nat) :
    ∀ (script : List KTick) (s s' : KState), killRun T u now script s = (s', .gaveUp) →
      u ∈ s'.gu ∧ (s.w.idleB = .hold → s'.w.idleB = .hold) ∧ (s.w.idleB ≠ .hold → s'.w.idleB = .drain) := by
  intro script
  induction script with
  | nil => intro s s' h; simp [killRun] at h
  | cons t rest ih =>
    intro s s' h
    unfold killRun at h
    split at h
    · simp at h
    · split at h
      · simp only [Prod.mk.injEq, and_true] at h
        subst h
        refine ⟨List.mem_cons_self, ?_, ?_⟩
        · intro hh
          show (onUnkillable s.w (u :: s.gu) now).idleB = .hold
          unfold onUnkillable
          simp [hh]
        · intro hh
          show (onUnkillable s.w (u :: s.gu) now).idleB = .drain
          unfold onUnkillable
          have : (s.w.idleB == .hold) = false := by simpa using hh
          simp only [this, Bool.false_eq_true, if_false]
          exact (Worker.setIdleBehavior_spec s.w .drain false _ now).2.2.1
      · split at h
        · have := ih _ s' h
          have hib : (s.w.closeRunner u now).1.idleB = s.w.idleB := (Worker.closeRunner_spec s.w u now).2.2.1
          dsimp only at this
          rw [hib] at this
          exact this
        · exact ih _ s' h

/-- An unkillable process (no `crunch-run --kill` ever succeeds) that stays tracked: the loop gives up
as soon as a tick comes after the TERM deadline. -/
theorem killRun_unkillable (T : Timeouts) (u : Uuid) (now : Nat) :
    ∀ (script : List KTick) (s : KState), tracked s.w u = true → (∀ t ∈ script, t.sigOk = false) →
      (∃ t ∈ script, T.term < t.elapsed) → (killRun T u now script s).2 = .gaveUp := by
  intro script
  induction script with
  | nil => intro s _ _ ⟨t, ht, _⟩; cases ht
  | cons t rest ih =>
    intro s htr hall hex
    unfold killRun
    have : (!tracked s.w u) = false := by simp [htr]
    rw [if_neg (by simp [htr])]
    split
    · rfl
    · rename_i hnot
      have hrest : ∃ t' ∈ rest, T.term < t'.elapsed := by
        obtain ⟨t', ht', hlt⟩ := hex
        rcases List.mem_cons.mp ht' with e | e
        · subst e; exact absurd hlt (by simpa using hnot)
        · exact ⟨t', e, hlt⟩
      have hs : t.sigOk = false := hall t List.mem_cons_self
      simp only [hs, Bool.false_eq_true, if_false]
      exact ih s htr (fun t' ht' => hall t' (List.mem_cons_of_mem _ ht')) hrest

/-! ### fslRun -/

theorem fslRun_terminates :
    ∀ (script : List (FslSnap × Wake)) (stale : List Uuid),
      (∃ x ∈ script, x.1.anyUnknown = false ∨ x.2 = .timeout) → (fslRun script stale).isSome = true := by
  intro script
  induction script with
  | nil => intro _ ⟨x, hx, _⟩; cases hx
  | cons x rest ih =>
    intro stale hex
    obtain ⟨s, wk⟩ := x
    unfold fslRun
    split
    · rfl
    · rename_i hunk
      dsimp only
      split
      · rfl
      · cases wk with
        | timeout => rfl
        | notify =>
          dsimp only
          apply ih
          obtain ⟨y, hy, hy'⟩ := hex
          rcases List.mem_cons.mp hy with e | e
          · subst e
            rcases hy' with h | h
            · have h' : s.anyUnknown = false := h
              simp [h'] at hunk
            · cases h
          · exact ⟨y, e, hy'⟩

theorem fslRun_persistent (u : Uuid) :
    ∀ (script : List (FslSnap × Wake)) (stale us : List Uuid),
      (∀ x ∈ script, x.1.anyUnknown = true → u ∈ staleLocks x.1.entries x.1.running) →
      (u ∈ stale ∨ ∃ x, script.head? = some x ∧ x.1.anyUnknown = true) →
      fslRun script stale = some us → u ∈ us := by
  intro script
  induction script with
  | nil => intro stale us _ _ h; simp [fslRun] at h
  | cons x rest ih =>
    intro stale us hall hinit h
    obtain ⟨s, wk⟩ := x
    unfold fslRun at h
    split at h
    · rename_i hunk
      simp only [Option.some.injEq] at h
      subst h
      rcases hinit with h' | ⟨y, hy, hy'⟩
      · exact h'
      · simp only [List.head?_cons, Option.some.injEq] at hy
        subst hy
        have h' : s.anyUnknown = true := hy'
        simp [h'] at hunk
    · rename_i hunk
      have hunk' : s.anyUnknown = true := by simpa using hunk
      have hu : u ∈ staleLocks s.entries s.running := hall (s, wk) List.mem_cons_self hunk'
      dsimp only at h
      split at h
      · rename_i hemp
        rw [List.isEmpty_iff] at hemp
        rw [hemp] at hu
        cases hu
      · cases wk with
        | timeout =>
          simp only [Option.some.injEq] at h
          subst h
          exact hu
        | notify =>
          dsimp only at h
          exact ih _ us (fun y hy => hall y (List.mem_cons_of_mem _ hy)) (Or.inl hu) h

end ArvVerif.C15
