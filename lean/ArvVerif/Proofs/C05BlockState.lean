/-
C05 helper lemmas, part 8: gathering a block's state. Desired replication of a class is the
maximum over the collections that want the block in that class; the replicas are the index entries
in arrival order — whatever the interleaving of index entries and collections.
-/
import ArvVerif.Model.C05_BlockState
namespace ArvVerif.C05

theorem lookupD_append_single (m : List (Class × Nat)) (c c' : Class) (n : Nat) (h : lookupD m c' = none) :
    lookupD (m ++ [(c', n)]) c = if c = c' then some n else lookupD m c := by
  unfold lookupD at h ⊢
  rw [List.find?_append]
  cases hf : m.find? (fun p => p.1 == c) with
  | some p =>
    have hne : c ≠ c' := by
      intro e; subst e
      rw [hf] at h; cases h
    simp [hne]
  | none =>
    by_cases e : c = c'
    · subst e; simp
    · have : (c' == c) = false := by simpa using fun h => e h.symm
      simp [this, e]

theorem lookupD_map_set (m : List (Class × Nat)) (c c' : Class) (n : Nat) :
    lookupD (m.map (fun p => if p.1 == c' then (c', n) else p)) c =
      if c = c' then (lookupD m c).map (fun _ => n) else lookupD m c := by
  unfold lookupD
  induction m with
  | nil => simp
  | cons p m ih =>
    simp only [List.map_cons, List.find?_cons]
    by_cases hp : (p.1 == c') = true
    · have hpc : p.1 = c' := by simpa using hp
      simp only [hp, if_true]
      by_cases e : c = c'
      · subst e; simp [hpc]
      · have h1 : (c' == c) = false := by simpa using fun h => e h.symm
        have h2 : (p.1 == c) = false := by rw [hpc]; exact h1
        simp only [h1, h2, e, if_false] at ih ⊢
        exact ih
    · have hp' : (p.1 == c') = false := Bool.eq_false_iff.mpr hp
      simp only [hp', Bool.false_eq_true, if_false]
      cases hpc : (p.1 == c) with
      | true =>
        have : p.1 = c := by simpa using hpc
        have hne : c ≠ c' := by
          intro e
          have : (p.1 == c') = true := by rw [this, e]; simp
          rw [hp'] at this; cases this
        simp [hne]
      | false => simpa using ih

/-- one `raiseDesired` raises exactly that class to at least `n` -/
theorem raiseDesired_lookup (m : List (Class × Nat)) (c c' : Class) (n : Nat) :
    (lookupD (raiseDesired m c' n) c).getD 0 =
      if c = c' then max ((lookupD m c).getD 0) n else (lookupD m c).getD 0 := by
  unfold raiseDesired
  cases hl : lookupD m c' with
  | none =>
    simp only
    rw [lookupD_append_single m c c' n hl]
    by_cases e : c = c'
    · subst e; simp [hl]
    · simp [e]
  | some d =>
    simp only
    by_cases hd : d < n
    · simp only [hd, if_true]
      rw [lookupD_map_set]
      by_cases e : c = c'
      · subst e; simp [hl]; omega
      · simp [e]
    · simp only [hd, if_false]
      by_cases e : c = c'
      · subst e; simp [hl]; omega
      · simp [e]

theorem foldl_raise_lookup (n : Nat) (c : Class) : ∀ (cls : List Class) (m : List (Class × Nat)),
    (lookupD (cls.foldl (fun m c' => raiseDesired m c' n) m) c).getD 0 =
      if c ∈ cls then max ((lookupD m c).getD 0) n else (lookupD m c).getD 0 := by
  intro cls
  induction cls with
  | nil => intro m; simp
  | cons c' cls ih =>
    intro m
    simp only [List.foldl_cons]
    rw [ih, raiseDesired_lookup]
    by_cases e : c = c'
    · subst e
      by_cases hm : c ∈ cls
      · simp [hm]
      · simp [hm]
    · have : (c ∈ c' :: cls) ↔ c ∈ cls := by simp [e]
      by_cases hm : c ∈ cls
      · simp [hm, e]
      · simp [hm, e]

/-- the classes a collection wants the block in -/
def collClasses (dflt : Class) (classes : List Class) : List Class := if classes.isEmpty then [dflt] else classes

/-- what one more op does to the desired replication of class `c` -/
def wantStepOf (dflt : Class) (c : Class) (acc : Nat) : BlockOp → Nat
  | .rep _ => acc
  | .coll _ classes n => if c ∈ collClasses dflt classes then max acc n else acc

theorem applyOp_desired (dflt : Class) (bs : BlockSt) (op : BlockOp) (c : Class) :
    desiredOf (applyOp dflt bs op) c = wantStepOf dflt c (desiredOf bs c) op := by
  cases op with
  | rep r => rfl
  | coll pdh classes n =>
    unfold applyOp increaseDesired desiredOf wantStepOf collClasses
    simp only
    exact foldl_raise_lookup n c _ _

theorem foldl_applyOp_desired (dflt : Class) (c : Class) : ∀ (ops : List BlockOp) (bs : BlockSt),
    desiredOf (ops.foldl (applyOp dflt) bs) c = ops.foldl (wantStepOf dflt c) (desiredOf bs c) := by
  intro ops
  induction ops with
  | nil => intro bs; rfl
  | cons op ops ih => intro bs; simp only [List.foldl_cons]; rw [ih, applyOp_desired]

theorem applyOp_replicas (dflt : Class) (bs : BlockSt) (op : BlockOp) :
    (applyOp dflt bs op).replicas = bs.replicas ++ (match op with | .rep r => [r] | .coll _ _ _ => []) := by
  cases op with
  | rep r => rfl
  | coll pdh classes n => simp [applyOp, increaseDesired]

theorem foldl_applyOp_replicas (dflt : Class) : ∀ (ops : List BlockOp) (bs : BlockSt),
    (ops.foldl (applyOp dflt) bs).replicas =
      bs.replicas ++ ops.filterMap BlockOp.repOf := by
  intro ops
  induction ops with
  | nil => intro bs; simp
  | cons op ops ih =>
    intro bs
    simp only [List.foldl_cons]
    rw [ih, applyOp_replicas]
    cases op <;> simp [BlockOp.repOf, List.filterMap_cons]

end ArvVerif.C05
