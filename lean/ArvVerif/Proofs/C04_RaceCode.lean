/-
C04 interleaving layer: machinery for checking an inductive invariant given as an explicit table.

For each of the 144 configurations `Proofs/C04_RaceTable.lean` lists the (mixed-radix) codes of the
reachable states of `Model/C04_Race.lean`. Nothing about the table is trusted: `checkCfg` (evaluated
by the kernel in `Proofs/C04_RaceCheck*.lean`) verifies that the decoded table contains the initial
state and is closed under both threads' steps, and evaluates the safety predicates on every member.
`Proofs/C04_Race.lean` turns that into theorems about `run sched (init c)` for every `sched`.
The definitions are written so that kernel evaluation forces each state once (`withForced`).
-/
import ArvVerif.Model.C04_Race
namespace ArvVerif.C04.Race

def encB (b : Bool) : Nat := if b then 1 else 0
def decB (n : Nat) : Bool := n != 0
def encPre : Pre → Nat | .absent => 0 | .good => 1 | .corrupt => 2
def decPre : Nat → Pre | 0 => .absent | 1 => .good | _ => .corrupt
def encPOp : POp → Nat | .touch => 0 | .put => 1
def decPOp : Nat → POp | 0 => .touch | _ => .put
def encTOp : TOp → Nat | .del => 0 | .ti => 1 | .untrash => 2
def decTOp : Nat → TOp | 0 => .del | 1 => .ti | _ => .untrash
def encLoc : Loc → Nat | .none => 0 | .blk => 1 | .tmp => 2 | .trash => 3 | .gone => 4
def decLoc : Nat → Loc | 0 => .none | 1 => .blk | 2 => .tmp | 3 => .trash | _ => .gone
def encOI : Option Ino → Nat | none => 0 | some .a => 1 | some .b => 2 | some .x => 3
def decOI : Nat → Option Ino | 0 => none | 1 => some .a | 2 => some .b | _ => some .x
def encOT : Option Thr → Nat | none => 0 | some .p => 1 | some .t => 2
def decOT : Nat → Option Thr | 0 => none | 1 => some .p | _ => some .t
def encPPC : PPC → Nat
  | .cStat => 0 | .cLock => 1 | .cOpen => 2 | .cRead => 3 | .tOpen => 4 | .tLock => 5 | .tFlock => 6 | .tChtimes => 7
  | .wMkdir => 8 | .wTemp => 9 | .wLock => 10 | .wCopy => 11 | .wClose => 12 | .wChtimes => 13 | .wOpenOld => 14
  | .wFlockOld => 15 | .wRename => 16 | .done => 17
def decPPC : Nat → PPC
  | 0 => .cStat | 1 => .cLock | 2 => .cOpen | 3 => .cRead | 4 => .tOpen | 5 => .tLock | 6 => .tFlock | 7 => .tChtimes
  | 8 => .wMkdir | 9 => .wTemp | 10 => .wLock | 11 => .wCopy | 12 => .wClose | 13 => .wChtimes | 14 => .wOpenOld
  | 15 => .wFlockOld | 16 => .wRename | _ => .done
def encTPC : TPC → Nat
  | .iMtime => 0 | .dLock => 1 | .dOpen => 2 | .dFlock => 3 | .dStat => 4 | .dRemove => 5 | .dRename => 6
  | .uReadDir => 7 | .uRename => 8 | .uChtimes => 9 | .done => 10
def decTPC : Nat → TPC
  | 0 => .iMtime | 1 => .dLock | 2 => .dOpen | 3 => .dFlock | 4 => .dStat | 5 => .dRemove | 6 => .dRename
  | 7 => .uReadDir | 8 => .uRename | 9 => .uChtimes | _ => .done
def encPRes : PRes → Nat | .none => 0 | .okTouch => 1 | .okWrite => 2 | .notFound => 3
def decPRes : Nat → PRes | 0 => .none | 1 => .okTouch | 2 => .okWrite | _ => .notFound
def encTRes : TRes → Nat | .none => 0 | .skipped => 1 | .notFound => 2 | .kept => 3 | .trashed => 4 | .failed => 5 | .restored => 6
def decTRes : Nat → TRes
  | 0 => .none | 1 => .skipped | 2 => .notFound | 3 => .kept | 4 => .trashed | 5 => .failed | _ => .restored

/-- mixed-radix code of a state (least significant field first) -/
def code : St → Nat
  | ⟨⟨ser, l0, pre, old, pop, top⟩, pcP, pcT, locA, locB, locX, aT, xT, fdP, fdT, fA, fB, fX, mu, wP, wT, rP, rT⟩ =>
    encB ser + 2 * (encB l0 + 2 * (encPre pre + 3 * (encB old + 2 * (encPOp pop + 2 * (encTOp top + 3 * (
    encPPC pcP + 18 * (encTPC pcT + 11 * (encLoc locA + 5 * (encLoc locB + 5 * (encLoc locX + 5 * (encB aT + 2 * (
    encB xT + 2 * (encOI fdP + 4 * (encOI fdT + 4 * (encOT fA + 3 * (encOT fB + 3 * (encOT fX + 3 * (encOT mu + 3 * (
    encB wP + 2 * (encB wT + 2 * (encPRes rP + 4 * encTRes rT)))))))))))))))))))))

def decode (n : Nat) : St :=
  let n0 := n
  let n1 := n0 / 2; let n2 := n1 / 2; let n3 := n2 / 3; let n4 := n3 / 2; let n5 := n4 / 2; let n6 := n5 / 3
  let n7 := n6 / 18; let n8 := n7 / 11; let n9 := n8 / 5; let n10 := n9 / 5; let n11 := n10 / 5
  let n12 := n11 / 2; let n13 := n12 / 2; let n14 := n13 / 4; let n15 := n14 / 4; let n16 := n15 / 3
  let n17 := n16 / 3; let n18 := n17 / 3; let n19 := n18 / 3; let n20 := n19 / 2; let n21 := n20 / 2
  let n22 := n21 / 4
  { cfg := { serialize := decB (n0 % 2), life0 := decB (n1 % 2), pre := decPre (n2 % 3), ageOld := decB (n3 % 2),
             pop := decPOp (n4 % 2), top := decTOp (n5 % 3) }
    pcP := decPPC (n6 % 18), pcT := decTPC (n7 % 11), locA := decLoc (n8 % 5), locB := decLoc (n9 % 5)
    locX := decLoc (n10 % 5), aTouched := decB (n11 % 2), xTouched := decB (n12 % 2)
    fdP := decOI (n13 % 4), fdT := decOI (n14 % 4), flockA := decOT (n15 % 3), flockB := decOT (n16 % 3)
    flockX := decOT (n17 % 3), mutex := decOT (n18 % 3), waitP := decB (n19 % 2), waitT := decB (n20 % 2)
    resP := decPRes (n21 % 4), resT := decTRes (n22 % 7) }

/-- evaluate `n` to a numeral before using it -/
def forceNat {α : Type} (n : Nat) (k : Nat → α) : α := match n with | 0 => k 0 | m+1 => k (m+1)

theorem forceNat_eq {α : Type} (n : Nat) (k : Nat → α) : forceNat n k = k n := by cases n <;> rfl

/-- evaluate `s` to constructor form before using it -/
def withForced {α : Type} (s : St) (k : St → α) : α :=
  match s with
  | ⟨⟨ser, l0, pre, old, pop, top⟩, pcP, pcT, locA, locB, locX, aT, xT, fdP, fdT, fA, fB, fX, mu, wP, wT, rP, rT⟩ =>
    k ⟨⟨ser, l0, pre, old, pop, top⟩, pcP, pcT, locA, locB, locX, aT, xT, fdP, fdT, fA, fB, fX, mu, wP, wT, rP, rT⟩

theorem withForced_eq {α : Type} (s : St) (k : St → α) : withForced s k = k s := rfl

def memL : List Nat → Nat → Bool
  | [], _ => false
  | y :: ys, x => Nat.beq y x || memL ys x

theorem memL_mem {l : List Nat} {x : Nat} (h : memL l x = true) : x ∈ l := by
  induction l with
  | nil => simp [memL] at h
  | cons y ys ih =>
    simp only [memL, Bool.or_eq_true] at h
    cases h with
    | inl h => have : y = x := Nat.eq_of_beq_eq_true h; simp [this]
    | inr h => exact List.mem_cons_of_mem _ (ih h)

/-- the invariant given by a table: `s` is the decoding of one of its codes -/
def Inv (R : List Nat) (s : St) : Prop := ∃ n ∈ R, decode n = s

/-- `s` is represented in `R` (Bool, kernel-evaluable) -/
def okState (R : List Nat) (s : St) : Bool :=
  withForced s fun s => forceNat (code s) fun m => memL R m && withForced (decode m) fun s' => decide (s' = s)

theorem okState_inv {R : List Nat} {s : St} (h : okState R s = true) : Inv R s := by
  simp only [okState, withForced_eq, forceNat_eq, Bool.and_eq_true, decide_eq_true_eq] at h
  exact ⟨code s, memL_mem h.1, h.2⟩

/-! ### predicates evaluated on every reachable state -/

def St.acked (s : St) : Bool := s.resP = .okTouch || s.resP = .okWrite

/-- the block path holds a copy whose timestamp is younger than the TTL (and, for a PUT, intact) -/
def St.protected (s : St) : Bool :=
  match s.blk with
  | some i => s.fresh i && (s.cfg.pop != .put || s.good i)
  | none => false

/-- an acknowledged PUT/TOUCH leaves a protected copy at the block path -/
def ackSafe (s : St) : Bool := !s.acked || s.protected

/-- Volume contract (volume.go): not both "Touch succeeded" and "Trash trashed" -/
def contract (s : St) : Bool := !(s.resP = .okTouch && s.resT = .trashed)

def finished (s : St) : Bool := s.pcP = .done && s.pcT = .done

def rankP : PPC → Nat
  | .cStat => 17 | .cLock => 16 | .cOpen => 15 | .cRead => 14 | .tOpen => 13 | .tLock => 12 | .tFlock => 11
  | .tChtimes => 10 | .wMkdir => 9 | .wTemp => 8 | .wLock => 7 | .wCopy => 6 | .wClose => 5 | .wChtimes => 4
  | .wOpenOld => 3 | .wFlockOld => 2 | .wRename => 1 | .done => 0
def rankT : TPC → Nat
  | .iMtime => 7 | .dLock => 6 | .dOpen => 5 | .dFlock => 4 | .dStat => 3 | .dRemove => 2 | .dRename => 1
  | .uReadDir => 3 | .uRename => 2 | .uChtimes => 1 | .done => 0
def rank (s : St) : Nat := rankP s.pcP + rankT s.pcT

/-- per-state obligations. While an untrash is between its Rename and its Chtimes the block path holds
the restored copy with its OLD timestamp, so for `top = untrash` protection is demanded at quiescence
only (a Trash running in that window would be a third party: outside this two-thread system). -/
def okLocal (c : Cfg) (s : St) : Bool :=
  decide (s.cfg = c) && contract s && (if c.top = .untrash then (!finished s || ackSafe s) else ackSafe s)
    && (finished s || decide (rank (stepT (stepP s)) < rank s))

def checkCfg (c : Cfg) (R : List Nat) : Bool :=
  okState R (init c) &&
  R.all fun n => withForced (decode n) fun s =>
    okState R (stepP s) && okState R (stepT s) && okLocal c s

theorem checkCfg_init {c : Cfg} {R : List Nat} (h : checkCfg c R = true) : Inv R (init c) := by
  simp only [checkCfg, Bool.and_eq_true] at h
  exact okState_inv h.1

theorem checkCfg_step {c : Cfg} {R : List Nat} (h : checkCfg c R = true) {s : St} (hs : Inv R s) (x : Bool) :
    Inv R (step x s) := by
  simp only [checkCfg, Bool.and_eq_true, List.all_eq_true, withForced_eq] at h
  obtain ⟨n, hn, rfl⟩ := hs
  have := h.2 n hn
  cases x
  · exact okState_inv this.1.2
  · exact okState_inv this.1.1

theorem checkCfg_local {c : Cfg} {R : List Nat} (h : checkCfg c R = true) {s : St} (hs : Inv R s) :
    okLocal c s = true := by
  simp only [checkCfg, Bool.and_eq_true, List.all_eq_true, withForced_eq] at h
  obtain ⟨n, hn, rfl⟩ := hs
  exact (h.2 n hn).2

theorem checkCfg_run {c : Cfg} {R : List Nat} (h : checkCfg c R = true) :
    ∀ (sched : List Bool) (s : St), Inv R s → Inv R (run sched s) := by
  intro sched
  induction sched with
  | nil => intro s hs; exact hs
  | cons x xs ih => intro s hs; exact ih _ (checkCfg_step h hs x)

/-! ### configurations and their table rows -/

def cfgGroup (ser l0 : Bool) : List Cfg :=
  [Pre.absent, Pre.good, Pre.corrupt].flatMap fun pre => [false, true].flatMap fun old =>
  [POp.touch, POp.put].flatMap fun pop => [TOp.del, TOp.ti, TOp.untrash].map fun top =>
  { serialize := ser, life0 := l0, pre := pre, ageOld := old, pop := pop, top := top }

def allCfgs : List Cfg :=
  [false, true].flatMap fun ser => [false, true].flatMap fun l0 => cfgGroup ser l0

def cfgIdx (c : Cfg) : Nat :=
  ((((encB c.serialize * 2 + encB c.life0) * 3 + encPre c.pre) * 2 + encB c.ageOld) * 2 + encPOp c.pop) * 3 + encTOp c.top

theorem mem_cfgGroup (c : Cfg) : c ∈ cfgGroup c.serialize c.life0 := by
  cases c with
  | mk ser l0 pre old pop top =>
    cases ser <;> cases l0 <;> cases pre <;> cases old <;> cases pop <;> cases top <;> decide

end ArvVerif.C04.Race
