/-
C17 — shape of the plan a scan produces: directories come parent first, every planned file's
directory is planned (or is the root), and all destinations are distinct. Proved by showing that a
call for the destination `d` only adds destinations at or below `d`, and siblings have different
names.
-/
import ArvVerif.Proofs.C17_Complete
namespace ArvVerif.C17

/-- all destinations of a plan -/
def dests (st : Plan) : List Path := st.dirs ++ st.files.map (·.1)

/-- nothing planned yet at or below `d` -/
def Unused (st : Plan) (d : Path) : Prop := ∀ x ∈ dests st, d.isPrefixOf x = false

/-- directories in creation order (parent first) -/
def Ordered : List Path → List Path → Prop
  | _, [] => True
  | before, d :: ds => d ≠ [] ∧ (d.dropLast = [] ∨ d.dropLast ∈ before) ∧ Ordered (before ++ [d]) ds

theorem ordered_append (d : Path) : ∀ (ds before : List Path), Ordered before ds → d ≠ [] →
    (d.dropLast = [] ∨ d.dropLast ∈ before ++ ds) → Ordered before (ds ++ [d]) := by
  intro ds
  induction ds with
  | nil => intro before _ hne hp; exact ⟨hne, by simpa using hp, trivial⟩
  | cons x xs ih =>
    intro before ho hne hp
    obtain ⟨h1, h2, h3⟩ := ho
    exact ⟨h1, h2, ih (before ++ [x]) h3 hne (by simpa [List.append_assoc] using hp)⟩

structure Shape (st : Plan) : Prop where
  ordered : Ordered [] st.dirs
  parents : ∀ f ∈ st.files, f.1 ≠ [] ∧ (f.1.dropLast = [] ∨ f.1.dropLast ∈ st.dirs)
  nodupDirs : st.dirs.Nodup
  nodupFiles : (st.files.map (·.1)).Nodup
  disjoint : ∀ x ∈ st.dirs, x ∉ st.files.map (·.1)

theorem dests_addDir (st : Plan) (d : Path) (x : Path) (hx : x ∈ dests (st.addDir d)) : x ∈ dests st ∨ x = d := by
  unfold Plan.addDir at hx
  split at hx
  · exact Or.inl hx
  · simp only [dests, List.mem_append, List.mem_singleton] at hx ⊢
    rcases hx with (hx | hx) | hx
    · exact Or.inl (Or.inl hx)
    · exact Or.inr hx
    · exact Or.inl (Or.inr hx)

theorem dests_addKeep (st : Plan) (d : Path) (x : Path) (hx : x ∈ dests (st.addKeep d)) :
    x ∈ dests st ∨ x = d ++ [".keep"] := by
  unfold Plan.addKeep at hx
  split at hx
  · exact Or.inl hx
  · simp only [dests, List.mem_append, List.map_append, List.map_cons, List.map_nil, List.mem_singleton] at hx ⊢
    rcases hx with hx | hx | hx
    · exact Or.inl (Or.inl hx)
    · exact Or.inl (Or.inr hx)
    · exact Or.inr hx

theorem dests_addFile (st : Plan) (d p : Path) (x : Path) (hx : x ∈ dests (st.addFile d p)) :
    x ∈ dests st ∨ x = d := by
  simp only [dests, Plan.addFile, List.mem_append, List.map_append, List.map_cons, List.map_nil,
    List.mem_singleton] at hx ⊢
  rcases hx with hx | hx | hx
  · exact Or.inl (Or.inl hx)
  · exact Or.inl (Or.inr hx)
  · exact Or.inr hx

theorem isPrefixOf_self (d : Path) : d.isPrefixOf d = true := by simp [List.isPrefixOf_iff_prefix]

theorem isPrefixOf_append (d e : Path) : d.isPrefixOf (d ++ e) = true := by
  simp [List.isPrefixOf_iff_prefix]

theorem not_prefix_longer (d : Path) (c : Name) : (d ++ [c]).isPrefixOf d = false := by
  cases hp : (d ++ [c]).isPrefixOf d with
  | false => rfl
  | true => have := prefix_length_le _ _ hp; simp at this; omega

theorem prefix_trans' (a b c : Path) (h1 : a.isPrefixOf b = true) (h2 : b.isPrefixOf c = true) :
    a.isPrefixOf c = true :=
  List.isPrefixOf_iff_prefix.mpr ((List.isPrefixOf_iff_prefix.mp h1).trans (List.isPrefixOf_iff_prefix.mp h2))

theorem unused_child (st : Plan) (d : Path) (c : Name) (hu : Unused st d) : Unused st (d ++ [c]) := by
  intro x hx
  cases hp : (d ++ [c]).isPrefixOf x with
  | false => rfl
  | true =>
    have := prefix_trans' d (d ++ [c]) x (isPrefixOf_append d [c]) hp
    rw [hu x hx] at this; cases this

/-- two names under the same directory: a path cannot lie below both -/
theorem sibling_prefix (d : Path) (c1 c2 : Name) (x : Path) (h1 : (d ++ [c1]).isPrefixOf x = true)
    (h2 : (d ++ [c2]).isPrefixOf x = true) : c1 = c2 := by
  have := prefix_total (d ++ [c1]) (d ++ [c2]) x h1 h2 (by simp)
  have := isPrefixOf_eq_of_length _ _ this (by simp)
  simpa using this

/-- `P c x`: the destination `x` is one that the call `c` may add -/
def MayAdd : Call → Path → Prop
  | .mount d _ _ _, x => d.isPrefixOf x = true
  | .below _ _ _ _, _ => False
  | .host d _ _ _, x => d.isPrefixOf x = true
  | .children d _ _ names, x => ∃ c ∈ names, (d ++ [c]).isPrefixOf x = true

def HostPre (h : Host) (cfg : Cfg) (st : Plan) (d s : Path) : Prop :=
  Unused st d ∧ (d.dropLast = [] ∨ d.dropLast ∈ st.dirs) ∧
  (d = [] → ∃ p, namei h [] (hostPath cfg s) 0 = .found p .dir) ∧ cfg.ctrOut.isPrefixOf s = true

def ShapePre (h : Host) (cfg : Cfg) (st : Plan) : Call → Prop
  | .mount d s _ _ => InOut cfg s → HostPre h cfg st d s
  | .below _ s _ ms => ¬ ProperPrefix s cfg.ctrOut ∧ ∀ e ∈ ms, e ∈ cfg.mounts
  | .host d s _ _ => HostPre h cfg st d s
  | .children d s _ names =>
    names.Nodup ∧ (∀ c ∈ names, Unused st (d ++ [c])) ∧ (d = [] ∨ d ∈ st.dirs) ∧
    cfg.ctrOut.isPrefixOf s = true

theorem Shape.addFrags {st : Plan} (hs : Shape st) (fs : List Frag) : Shape (st.addFrags fs) :=
  ⟨hs.ordered, hs.parents, hs.nodupDirs, hs.nodupFiles, hs.disjoint⟩

theorem Shape.addDir {st : Plan} (hs : Shape st) (d : Path) (hu : Unused st d)
    (hp : d.dropLast = [] ∨ d.dropLast ∈ st.dirs) : Shape (st.addDir d) := by
  unfold Plan.addDir; split
  · exact hs
  · rename_i hne
    have hfresh : d ∉ dests st := fun hm => by have := hu d hm; rw [isPrefixOf_self] at this; cases this
    refine ⟨ordered_append d _ [] hs.ordered hne (by simpa using hp), ?_, ?_, hs.nodupFiles, ?_⟩
    · intro f hf
      obtain ⟨h1, h2⟩ := hs.parents f hf
      exact ⟨h1, h2.imp id (fun hm => List.mem_append_left _ hm)⟩
    · rw [List.nodup_append]
      refine ⟨hs.nodupDirs, by simp, ?_⟩
      intro a ha b hb
      simp only [List.mem_singleton] at hb
      subst hb
      intro heq; subst heq
      exact hfresh (List.mem_append_left _ ha)
    · intro x hx
      simp only [List.mem_append, List.mem_singleton] at hx
      rcases hx with hx | rfl
      · exact hs.disjoint x hx
      · intro hm; exact hfresh (List.mem_append_right _ hm)

theorem Shape.addFileGen {st : Plan} (hs : Shape st) (f : Path × Option Path) (hne : f.1 ≠ [])
    (hfresh : f.1 ∉ dests st) (hp : f.1.dropLast = [] ∨ f.1.dropLast ∈ st.dirs) :
    Shape { st with files := st.files ++ [f] } := by
  refine ⟨hs.ordered, ?_, hs.nodupDirs, ?_, ?_⟩
  · intro g hg
    simp only [List.mem_append, List.mem_singleton] at hg
    rcases hg with hg | rfl
    · exact hs.parents g hg
    · exact ⟨hne, hp⟩
  · simp only [List.map_append, List.map_cons, List.map_nil]
    rw [List.nodup_append]
    refine ⟨hs.nodupFiles, by simp, ?_⟩
    intro a ha b hb
    simp only [List.mem_singleton] at hb
    subst hb
    intro heq; subst heq
    exact hfresh (List.mem_append_right _ ha)
  · intro x hx
    simp only [List.map_append, List.map_cons, List.map_nil, List.mem_append, List.mem_singleton]
    rintro (hm | rfl)
    · exact hs.disjoint x hx hm
    · exact hfresh (List.mem_append_left _ hx)

theorem nodup_insertName (x : Name) (l : List Name) (hl : l.Nodup) (hx : x ∉ l) : (insertName x l).Nodup := by
  induction l with
  | nil => simp [insertName]
  | cons y ys ih =>
    simp only [insertName]
    split
    · exact List.nodup_cons.mpr ⟨hx, hl⟩
    · rw [List.nodup_cons] at hl ⊢
      refine ⟨?_, ih hl.2 (fun hm => hx (List.mem_cons_of_mem _ hm))⟩
      rw [mem_insertName]
      rintro (heq | hm)
      · exact hx (by rw [heq]; exact List.mem_cons_self ..)
      · exact hl.1 hm

theorem nodup_sortNames (l : List Name) (hl : l.Nodup) : (sortNames l).Nodup := by
  induction l with
  | nil => simp [sortNames]
  | cons y ys ih =>
    have : sortNames (y :: ys) = insertName y (sortNames ys) := rfl
    rw [this]
    rw [List.nodup_cons] at hl
    exact nodup_insertName y _ (ih hl.2) (by rw [mem_sortNames]; exact hl.1)

theorem nodup_children (h : Host) (wf : HostWF h) (p : Path) : (h.children p).Nodup := by
  have hnd := wf.nodup
  unfold Host.children
  induction h with
  | nil => simp
  | cons e es ih =>
    simp only [List.map_cons, List.nodup_cons] at hnd
    have ih' := ih ⟨fun x hx => wf.clean x (List.mem_cons_of_mem _ hx),
      fun x hx => wf.nonempty x (List.mem_cons_of_mem _ hx), hnd.2⟩ hnd.2
    simp only [List.filterMap_cons]
    split
    · exact ih'
    · rename_i c hc
      rw [List.nodup_cons]
      refine ⟨?_, ih'⟩
      intro hm
      simp only [List.mem_filterMap] at hm
      obtain ⟨e2, he2, hh⟩ := hm
      split at hc
      · rename_i hcond1
        split at hh
        · rename_i hcond2
          apply hnd.1
          have h1 : e.1 = e.1.dropLast ++ [c] := by
            obtain ⟨ys, hys⟩ := List.getLast?_eq_some_iff.mp hc
            rw [hys]; simp
          have h2 : e2.1 = e2.1.dropLast ++ [c] := by
            obtain ⟨ys, hys⟩ := List.getLast?_eq_some_iff.mp hh
            rw [hys]; simp
          have : e.1 = e2.1 := by rw [h1, h2, hcond1.1, hcond2.1]
          rw [this]; exact List.mem_map.mpr ⟨e2, he2, rfl⟩
        · cases hh
      · cases hc

theorem dropLast_concat' (d : Path) (c : Name) : (d ++ [c]).dropLast = d := by simp

theorem shape_walk (h : Host) (cfg : Cfg) (hwf : HostWF h) (hs : supported cfg = true) :
    ∀ (fuel : Nat) (c : Call) (st st' : Plan), walk h cfg fuel c st = .ok st' →
      ShapePre h cfg st c → Shape st →
      Shape st' ∧ ∀ x ∈ dests st', x ∈ dests st ∨ MayAdd c x := by
  intro fuel
  induction fuel with
  | zero => intro c st st' hw; rw [walk] at hw; cases hw
  | succ fuel ih =>
    intro c st st' hw hpre hsh
    cases c with
    | mount dest src n below =>
      rw [walk] at hw
      simp only at hw
      split at hw
      · cases hw; exact ⟨hsh, fun x hx => Or.inl hx⟩
      · rename_i hsec
        cases hsm : srcMount cfg src with
        | none => rw [hsm] at hw; cases hw
        | some b =>
          obtain ⟨root, m⟩ := b
          rw [hsm] at hw hsec
          obtain ⟨hmem, hpre', hlen⟩ := srcMount_mem cfg src (root, m) hsm
          simp only at hw
          have hcont : ∀ s1 : Plan, Shape s1 → dests s1 = dests st →
              (if below = true then walk h cfg fuel (.below dest src n cfg.mounts) s1 else .ok s1) = .ok st' →
              Shape st' ∧ ∀ x ∈ dests st', x ∈ dests st ∨ MayAdd (.mount dest src n below) x := by
            intro s1 hs1 hd1 hc
            split at hc
            · obtain ⟨h1, h2⟩ := ih _ _ _ hc ⟨by
                intro hpp
                exact supported_above cfg hs (root, m) hmem
                  ⟨prefix_trans' _ _ _ hpre' hpp.1, Nat.lt_of_le_of_lt (prefix_length_le _ _ hpre') hpp.2⟩,
                fun e he => he⟩ hs1
              refine ⟨h1, fun x hx => ?_⟩
              rcases h2 x hx with h3 | h3
              · rw [hd1] at h3; exact Or.inl h3
              · cases h3
            · cases hc; exact ⟨hs1, fun x hx => by rw [hd1] at hx; exact Or.inl hx⟩
          split at hw
          · exact hcont _ hsh rfl hw
          · rename_i hex
            split at hw
            · rename_i hk
              split at hw
              · rename_i hr
                have hin : InOut cfg src := by
                  refine ⟨?_, m, ?_, hk, by simpa using hex⟩
                  · rw [hsm]; simpa using hsec
                  · rw [hsm, hr]
                have r := ih _ _ _ hw (hpre hin) hsh
                exact ⟨r.1, fun x hx => r.2 x hx⟩
              · cases hw
            · split at hw
              · cases hw
              · split at hw
                · cases hc : m.coll with
                  | none => rw [hc] at hw; cases hw
                  | some c =>
                    rw [hc] at hw
                    exact hcont _ (hsh.addFrags _) rfl hw
                · cases hw
    | below dest src n ms =>
      cases ms with
      | nil => rw [walk] at hw; cases hw; exact ⟨hsh, fun x hx => Or.inl hx⟩
      | cons e ms =>
        obtain ⟨mnt, m⟩ := e
        obtain ⟨hpp, hsub⟩ := hpre
        rw [walk] at hw
        have hrest : ∀ s1, ShapePre h cfg s1 (.below dest src n ms) :=
          fun _ => ⟨hpp, fun e he => hsub e (List.mem_cons_of_mem _ he)⟩
        split at hw
        · rename_i hc
          obtain ⟨a, ha, hr⟩ := bind_eq_ok _ _ _ hw
          have hnotin : ¬ InOut cfg mnt := by
            intro hin
            obtain ⟨_, m', hsm', _, _⟩ := hin
            have hm : (mnt, m) ∈ cfg.mounts := hsub _ (List.mem_cons_self ..)
            obtain ⟨m'', hself⟩ := srcMount_self cfg (mnt, m) hm (by show 0 < mnt.length; have := hc.2.1; omega)
            have : mnt = cfg.ctrOut := by
              have h1 : srcMount cfg mnt = some (mnt, m'') := hself
              rw [h1] at hsm'
              simp at hsm'
              exact hsm'.1
            exact hpp ⟨by rw [← this]; exact hc.1, by rw [← this]; exact hc.2.1⟩
          -- the call on the mount below adds no destination at all
          have hmnt : Shape a ∧ ∀ x ∈ dests a, x ∈ dests st := by
            cases fuel with
            | zero => rw [walk] at ha; cases ha
            | succ f2 =>
              rw [walk] at ha
              simp only at ha
              split at ha
              · cases ha; exact ⟨hsh, fun x hx => hx⟩
              · rename_i hsec
                cases hsm : srcMount cfg mnt with
                | none => rw [hsm] at ha; cases ha
                | some b =>
                  obtain ⟨root, m2⟩ := b
                  rw [hsm] at ha hsec
                  simp only at ha
                  split at ha
                  · simp only [Bool.false_eq_true, if_false] at ha; cases ha; exact ⟨hsh, fun x hx => hx⟩
                  · rename_i hex
                    split at ha
                    · rename_i hk
                      split at ha
                      · rename_i hr
                        exfalso; apply hnotin
                        refine ⟨?_, m2, ?_, hk, by simpa using hex⟩
                        · rw [hsm]; simpa using hsec
                        · rw [hsm, hr]
                      · cases ha
                    · split at ha
                      · cases ha
                      · split at ha
                        · cases hc2 : m2.coll with
                          | none => rw [hc2] at ha; cases ha
                          | some c =>
                            rw [hc2] at ha
                            simp only [Bool.false_eq_true, if_false] at ha
                            cases ha
                            exact ⟨hsh.addFrags _, fun x hx => hx⟩
                        · cases ha
          obtain ⟨h1, h2⟩ := ih _ _ _ hr (hrest a) hmnt.1
          refine ⟨h1, fun x hx => ?_⟩
          rcases h2 x hx with h3 | h3
          · exact Or.inl (hmnt.2 x h3)
          · cases h3
        · have r := ih _ _ _ hw (hrest st) hsh
          exact ⟨r.1, fun x hx => r.2 x hx⟩
    | host dest src n inc =>
      obtain ⟨hun, hpar, hroot, hcpre⟩ := hpre
      rw [walk] at hw
      obtain ⟨a, ha, hr⟩ := bind_eq_ok _ _ _ hw
      -- the prelude adds no destination
      have hpl : Shape a ∧ ∀ x ∈ dests a, x ∈ dests st := by
        split at ha
        · have r := ih _ _ _ ha ⟨?_, fun e he => he⟩ hsh
          · exact ⟨r.1, fun x hx => (r.2 x hx).elim id (fun hf => hf.elim)⟩
          · -- `src` is not above the output path
            exact not_properPrefix_of_prefix _ _ hcpre
        · cases ha; exact ⟨hsh, fun x hx => hx⟩
      obtain ⟨hsa, hsub⟩ := hpl
      have hle : st.le a := by
        split at ha
        · exact walk_mono h cfg _ _ _ _ ha
        · cases ha; exact Plan.le_refl _
      have huna : Unused a dest := fun x hx => hun x (hsub x hx)
      have hpara : dest.dropLast = [] ∨ dest.dropLast ∈ a.dirs := hpar.imp id (fun hm => hle.dirs.subset hm)
      have hnm : namei h [] (cfg.hostOut ++ src.drop cfg.ctrOut.length) 0
          = namei h [] (hostPath cfg src) 0 := rfl
      rw [hnm] at hr
      cases hst : namei h [] (hostPath cfg src) 0 with
      | enoent => rw [hst] at hr; cases hr
      | enotdir => rw [hst] at hr; cases hr
      | eloop => rw [hst] at hr; cases hr
      | found p node =>
        rw [hst] at hr
        cases node with
        | special => cases hr
        | file content =>
          simp only at hr
          cases hr
          have hne : dest ≠ [] := by
            intro h0
            obtain ⟨p', hp'⟩ := hroot h0
            rw [hst] at hp'; cases hp'
          have hfresh : dest ∉ dests a := fun hm => by
            have := huna dest hm; rw [isPrefixOf_self] at this; cases this
          refine ⟨hsa.addFileGen (dest, some p) hne hfresh hpara, fun x hx => ?_⟩
          rcases dests_addFile a dest p x hx with h1 | h1
          · exact Or.inl (hsub x h1)
          · exact Or.inr (by rw [h1]; exact isPrefixOf_self dest)
        | link abs t =>
          simp only at hr
          split at hr
          · cases hr
          · have hne : dest ≠ [] := by
              intro h0
              obtain ⟨p', hp'⟩ := hroot h0
              rw [hst] at hp'; cases hp'
            have r := ih _ _ _ hr (fun hin => ⟨huna, hpara, fun h0 => absurd h0 hne, inOut_pre cfg _ hin⟩) hsa
            refine ⟨r.1, fun x hx => ?_⟩
            rcases r.2 x hx with h1 | h1
            · exact Or.inl (hsub x h1)
            · exact Or.inr h1
        | dir =>
          simp only at hr
          have hsd : Shape (a.addDir dest) := hsa.addDir dest huna hpara
          split at hr
          · cases hr
            by_cases hne : dest = []
            · subst hne
              refine ⟨by simpa [Plan.addDir, Plan.addKeep] using hsa, fun x hx => ?_⟩
              simp only [Plan.addDir, Plan.addKeep, if_true] at hx
              exact Or.inl (hsub x hx)
            · have hkeep : (a.addDir dest).addKeep dest =
                  { (a.addDir dest) with files := (a.addDir dest).files ++ [(dest ++ [".keep"], none)] } := by
                simp [Plan.addKeep, hne]
              rw [hkeep]
              refine ⟨hsd.addFileGen (dest ++ [".keep"], none) (by simp) ?_ ?_, fun x hx => ?_⟩
              · intro hm
                rcases dests_addDir a dest _ hm with h1 | h1
                · have := huna _ h1; rw [isPrefixOf_append] at this; cases this
                · have := congrArg List.length h1; simp at this
              · right; simp [Plan.addDir, hne]
              · have hx' : x ∈ dests ((a.addDir dest).addKeep dest) := by rw [hkeep]; exact hx
                rcases dests_addKeep _ dest x hx' with h1 | h1
                · rcases dests_addDir a dest x h1 with h2 | h2
                  · exact Or.inl (hsub x h2)
                  · exact Or.inr (by rw [h2]; exact isPrefixOf_self dest)
                · exact Or.inr (by rw [h1]; exact isPrefixOf_append dest _)
          · have r := ih _ _ _ hr ⟨nodup_sortNames _ (nodup_children h hwf p), ?_, ?_, hcpre⟩ hsd
            · refine ⟨r.1, fun x hx => ?_⟩
              rcases r.2 x hx with h1 | ⟨c, _, h1⟩
              · rcases dests_addDir a dest x h1 with h2 | h2
                · exact Or.inl (hsub x h2)
                · exact Or.inr (by rw [h2]; exact isPrefixOf_self dest)
              · exact Or.inr (prefix_trans' dest _ x (isPrefixOf_append dest [c]) h1)
            · intro c _ x hx
              rcases dests_addDir a dest x hx with h1 | h1
              · exact unused_child a dest c huna x h1
              · rw [h1]; exact not_prefix_longer dest c
            · by_cases hne : dest = []
              · exact Or.inl hne
              · right; simp [Plan.addDir, hne]
    | children dest src n names =>
      cases names with
      | nil => rw [walk] at hw; cases hw; exact ⟨hsh, fun x hx => Or.inl hx⟩
      | cons name names =>
        obtain ⟨hnd, hun, hdir, hcpre⟩ := hpre
        rw [List.nodup_cons] at hnd
        rw [walk] at hw
        have hskip : walk h cfg fuel (.children dest src n names) st = .ok st' →
            Shape st' ∧ ∀ x ∈ dests st', x ∈ dests st ∨ MayAdd (.children dest src n (name :: names)) x := by
          intro hw'
          have r := ih _ _ _ hw' ⟨hnd.2, fun c hc => hun c (List.mem_cons_of_mem _ hc), hdir, hcpre⟩ hsh
          refine ⟨r.1, fun x hx => ?_⟩
          rcases r.2 x hx with h1 | ⟨c, hc, h1⟩
          · exact Or.inl h1
          · exact Or.inr ⟨c, List.mem_cons_of_mem _ hc, h1⟩
        split at hw
        · exact hskip hw
        · split at hw
          · exact hskip hw
          · obtain ⟨a, ha, hr⟩ := bind_eq_ok _ _ _ hw
            have r1 := ih _ _ _ ha ⟨hun name (List.mem_cons_self ..), by
                rw [dropLast_concat']
                exact hdir.imp id id,
              fun h0 => by simp at h0, isPrefixOf_append_right _ _ _ hcpre⟩ hsh
            have hle : st.le a := walk_mono h cfg _ _ _ _ ha
            have r2 := ih _ _ _ hr ⟨hnd.2, ?_, hdir.imp id (fun hm => hle.dirs.subset hm), hcpre⟩ r1.1
            · refine ⟨r2.1, fun x hx => ?_⟩
              rcases r2.2 x hx with h1 | ⟨c, hc, h1⟩
              · rcases r1.2 x h1 with h2 | h2
                · exact Or.inl h2
                · exact Or.inr ⟨name, List.mem_cons_self .., h2⟩
              · exact Or.inr ⟨c, List.mem_cons_of_mem _ hc, h1⟩
            · intro c hc x hx
              rcases r1.2 x hx with h2 | h2
              · exact hun c (List.mem_cons_of_mem _ hc) x h2
              · cases hp : (dest ++ [c]).isPrefixOf x with
                | false => rfl
                | true =>
                  have := sibling_prefix dest name c x h2 hp
                  rw [this] at hnd
                  exact absurd hc hnd.1

end ArvVerif.C17
