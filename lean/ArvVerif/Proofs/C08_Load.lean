/-
C08 helper lemmas, part 17: the state built by `loadManifest` satisfies the invariant `Inv`
(every file well-formed: stored segments inside blocks that are in Keep, no zero-length segment,
size = Σ lengths; Keep consistent; directory entries valid; no handles).
-/
import ArvVerif.Proofs.C08_Hist7
namespace ArvVerif.C08

variable {max : Nat} {hash : Bytes → Loc}

/-- Loader invariant: `Inv`, no handles. -/
def LInv (max : Nat) (hash : Bytes → Loc) (s : CFS) : Prop := Inv max hash s ∧ s.handles = []

/-- every block of the stream is in Keep under its locator -/
def BlocksIn (hash : Bytes → Loc) (st : Store) (segs : List LoadSeg) : Prop :=
  ∀ sg ∈ segs, ∃ b, st sg.loc = some b ∧ b.length = sg.size

theorem puts_spec (hinj : Function.Injective hash) : ∀ (blocks : List Bytes) (st : Store), StoreOK hash st →
    StoreExt st (blocks.foldl (fun st b => Store.put hash st b) st) ∧
    StoreOK hash (blocks.foldl (fun st b => Store.put hash st b) st) ∧
    ∀ b ∈ blocks, (blocks.foldl (fun st b => Store.put hash st b) st) (hash b) = some b := by
  intro blocks
  induction blocks with
  | nil => intro st hok; exact ⟨StoreExt.refl _, hok, fun _ h => by cases h⟩
  | cons b rest ih =>
    intro st hok
    simp only [List.foldl_cons]
    obtain ⟨h1, h2, h3⟩ := ih (st.put hash b) (Store.put_ok hok b)
    refine ⟨(Store.put_ext hinj hok b).trans h1, h2, ?_⟩
    intro x hx
    rcases List.mem_cons.mp hx with h | h
    · rw [h]; exact h1 _ _ (Store.put_get hash st b)
    · exact h3 x h

/-- every segment `loadToken` appends is a well-formed stored segment of one of the stream's blocks -/
theorem loadToken_wf {st : Store} {segs : List LoadSeg} (hb : BlocksIn hash st segs) (offset length : Nat) :
    ∀ (fuel segIdx pos : Nat) (acc : List Seg), (∀ s ∈ acc, SegWF max hash st s) →
      ∀ s ∈ (loadToken segs offset length fuel segIdx pos acc).1, SegWF max hash st s := by
  intro fuel
  induction fuel with
  | zero => intro segIdx pos acc hacc; simpa [loadToken] using hacc
  | succ fuel ih =>
    intro segIdx pos acc hacc
    unfold loadToken
    cases hsg : segs[segIdx]? with
    | none => simpa using hacc
    | some sg =>
      simp only []
      obtain ⟨b, hb1, hb2⟩ := hb sg (List.mem_of_getElem? hsg)
      by_cases h1 : (decide (pos + sg.size ≤ offset) || sg.size == 0) = true
      · rw [if_pos h1]; exact ih _ _ _ hacc
      · rw [if_neg h1]
        by_cases h2 : pos ≥ offset + length
        · rw [if_pos h2]; exact hacc
        · rw [if_neg h2]
          simp only [Bool.or_eq_true, decide_eq_true_eq, beq_iff_eq, not_or] at h1
          obtain ⟨h1a, h1b⟩ := h1
          obtain ⟨blkOff, hbo⟩ : ∃ x, x = (if pos < offset then offset - pos else 0) := ⟨_, rfl⟩
          rw [← hbo]
          obtain ⟨blkLen, hbl⟩ : ∃ x, x = (if pos + blkOff + (sg.size - blkOff) > offset + length
              then offset + length - pos - blkOff else sg.size - blkOff) := ⟨_, rfl⟩
          rw [← hbl]
          have hroom : blkOff + blkLen ≤ sg.size := by
            rw [hbl, hbo]; split <;> split <;> omega
          have hacc' : ∀ s ∈ (if blkLen > 0 then acc ++ [Seg.stored sg.loc sg.size blkOff blkLen] else acc),
              SegWF max hash st s := by
            intro s hs
            by_cases hpos : blkLen > 0
            · rw [if_pos hpos] at hs
              rcases List.mem_append.mp hs with h | h
              · exact hacc s h
              · simp only [List.mem_cons, List.not_mem_nil, or_false] at h
                rw [h]
                exact ⟨hpos, hroom, b, hb1, hb2⟩
            · rw [if_neg hpos] at hs; exact hacc s hs
          by_cases h3 : pos + sg.size > offset + length
          · rw [if_pos h3]; exact hacc'
          · rw [if_neg h3]; exact ih _ _ _ hacc'

theorem Inv.addDir {s : CFS} (hinv : Inv max hash s) (impl : FileImpl FileNode Ptr Store) (d : Nat) (name : String) :
    Inv max hash (ArvVerif.C08.addNode impl s d name true).1 :=
  hinv.same_contents rfl rfl rfl (hinv.ents.set d name (Node.dir s.dirs.length) (fun f h => by cases h))

theorem loadDirs_inv : ∀ (comps : List String) (s : CFS) (d : Nat) (s' : CFS) (d' : Nat),
    LInv max hash s → loadDirs s d comps = some (s', d') → LInv max hash s' ∧ s'.world = s.world := by
  intro comps
  induction comps with
  | nil => intro s d s' d' h1 h2; simp only [loadDirs, Option.some.injEq, Prod.mk.injEq] at h2; rw [← h2.1]; exact ⟨h1, rfl⟩
  | cons name rest ih =>
    intro s d s' d' h1 h2
    unfold loadDirs at h2
    split at h2
    · exact ih _ _ _ _ h1 h2
    · split at h2
      · split at h2
        · cases h2
        · exact ih _ _ _ _ h1 h2
      · cases hc : child s.ents d name with
        | none =>
          have e : addNode (concImpl (fun _ => []) 1) s d name true =
              ({ s with dirs := s.dirs ++ [(name, d)], ents := setEnt s.ents d name (Node.dir s.dirs.length) },
               Node.dir s.dirs.length) := rfl
          rw [hc, e] at h2
          simp only [] at h2
          have hinv' : LInv max hash
              ({ s with dirs := s.dirs ++ [(name, d)], ents := setEnt s.ents d name (Node.dir s.dirs.length) } : CFS) := by
            have := h1.1.addDir (concImpl (fun _ => []) 1) d name
            rw [e] at this
            exact ⟨this, h1.2⟩
          have hres := ih _ _ _ _ hinv' h2
          exact ⟨hres.1, hres.2⟩
        | some n =>
          rw [hc] at h2
          cases n with
          | dir k => exact ih _ _ _ _ h1 h2
          | file f => cases h2

theorem addNode_false_eq (h : Bytes → Loc) (m : Nat) (s : CFS) (d : Nat) (name : String) :
    addNode (concImpl h m) s d name false =
      ({ s with files := s.files ++ [(name, FileNode.empty)], ents := setEnt s.ents d name (Node.file s.files.length) },
       Node.file s.files.length) := by
  simp [addNode, concImpl]

theorem loadFile_inv {s s' : CFS} {d f : Nat} {base : String} (h1 : LInv max hash s)
    (h2 : loadFile hash s d base = some (s', f)) :
    LInv max hash s' ∧ s'.world = s.world ∧ f < s'.files.length := by
  unfold loadFile at h2
  cases hc : child s.ents d base with
  | none =>
    rw [hc, addNode_false_eq] at h2
    simp only [Option.some.injEq, Prod.mk.injEq] at h2
    have hi := h1.1.addNode (max := max) d base false
    rw [addNode_false_eq] at hi
    rw [← h2.1, ← h2.2]
    exact ⟨⟨hi, h1.2⟩, rfl, by simp⟩
  | some n =>
    rw [hc] at h2
    cases n with
    | dir k => cases h2
    | file f' =>
      simp only [Option.some.injEq, Prod.mk.injEq] at h2
      rw [← h2.1, ← h2.2]
      obtain ⟨e, he1, he2⟩ := child_mem hc
      exact ⟨h1, rfl, h1.1.ents e he1 f' he2⟩

theorem ite_none_elim {α : Type} {c : Prop} [Decidable c] {X : Option α} {r : α}
    (h : (if c then none else X) = some r) : X = some r := by
  by_cases hc : c
  · rw [if_pos hc] at h; cases h
  · rw [if_neg hc] at h; exact h

/-- appending well-formed segments to a file of a handle-free state -/
theorem LInv.appendSegs {s : CFS} (h1 : LInv max hash s) {f : Nat} {nf : String × FileNode}
    (hf : s.files[f]? = some nf) (newSegs : List Seg) (hnew : ∀ sg ∈ newSegs, SegWF max hash s.world sg) :
    LInv max hash (setFile s f { nf.2 with segs := nf.2.segs ++ newSegs, size := nf.2.size + sumLen newSegs }) := by
  obtain ⟨hwf, hrep⟩ := h1.1.files nf (List.mem_of_getElem? hf)
  have hlt : f < s.files.length := by
    apply Classical.byContradiction; intro hn
    rw [List.getElem?_eq_none (by omega)] at hf; cases hf
  unfold setFile
  rw [hf]
  refine ⟨⟨h1.1.ok, ?_, ?_, by simp only [List.length_set]; exact h1.1.ents⟩, h1.2⟩
  · intro x hx
    rcases List.mem_or_eq_of_mem_set hx with h | h
    · exact h1.1.files x h
    · rw [h]
      refine ⟨⟨?_, ?_⟩, hrep⟩
      · show nf.2.size + sumLen newSegs = sumLen (nf.2.segs ++ newSegs)
        rw [sumLen_append, hwf.size_eq]
      · intro sg hsg
        rcases List.mem_append.mp hsg with h' | h'
        · exact hwf.segs sg h'
        · exact hnew sg h'
  · intro e he
    have : s.handles = [] := h1.2
    rw [this] at he; cases he

theorem loadTok_inv {dirname : String} {segs : List LoadSeg} {st : Store}
    (acc : Option (CFS × Nat × Nat)) (tok : Nat × Nat × String) (r : CFS × Nat × Nat)
    (hacc : ∀ a, acc = some a → LInv max hash a.1 ∧ a.1.world = st) (hb : BlocksIn hash st segs)
    (hr : loadTok hash dirname segs acc tok = some r) : LInv max hash r.1 ∧ r.1.world = st := by
  unfold loadTok at hr
  cases acc with
  | none => cases hr
  | some a =>
    obtain ⟨s, segIdx, pos⟩ := a
    obtain ⟨hs1, hs2⟩ := hacc _ rfl
    simp only [] at hr hs1 hs2
    cases hd : loadDirs s 0 (splitPath (dirname ++ "/" ++ tok.2.2)).dropLast with
    | none => rw [hd] at hr; cases hr
    | some sd =>
      obtain ⟨s1, d⟩ := sd
      rw [hd] at hr
      simp only [] at hr
      obtain ⟨hi1, hw1⟩ := loadDirs_inv _ _ _ _ _ hs1 hd
      split at hr
      · split at hr
        · simp only [Option.some.injEq] at hr; rw [← hr]; exact ⟨hi1, by rw [hw1]; exact hs2⟩
        · cases hr
      · split at hr
        · cases hr
        · cases hlf : loadFile hash s1 d ((splitPath (dirname ++ "/" ++ tok.2.2)).getLast?.getD "") with
          | none => rw [hlf] at hr; cases hr
          | some sf =>
            obtain ⟨s2, f⟩ := sf
            rw [hlf] at hr
            simp only [] at hr
            obtain ⟨hi2, hw2, hf2⟩ := loadFile_inv hi1 hlf
            have hr := ite_none_elim hr
            · have hfile : s2.files[f]? = some s2.files[f] := by simp [hf2]
              rw [hfile] at hr
              simp only [Option.some.injEq] at hr
              rw [← hr]
              have hw : s2.world = st := by rw [hw2, hw1]; exact hs2
              refine ⟨?_, ?_⟩
              · apply hi2.appendSegs hfile
                rw [hw]
                exact loadToken_wf hb _ _ _ _ _ [] (fun _ h => by cases h)
              · show (setFile s2 f _).world = st
                unfold setFile; rw [hfile]; exact hw

theorem foldl_loadTok_inv {dirname : String} {segs : List LoadSeg} {st : Store} (hb : BlocksIn hash st segs) :
    ∀ (toks : List (Nat × Nat × String)) (acc : Option (CFS × Nat × Nat)) (r : CFS × Nat × Nat),
      (∀ a, acc = some a → LInv max hash a.1 ∧ a.1.world = st) →
      toks.foldl (loadTok hash dirname segs) acc = some r → LInv max hash r.1 ∧ r.1.world = st := by
  intro toks
  induction toks with
  | nil => intro acc r hacc hr; exact hacc r hr
  | cons tok rest ih =>
    intro acc r hacc hr
    simp only [List.foldl_cons] at hr
    exact ih _ r (fun a ha => loadTok_inv acc tok a hacc hb ha) hr

theorem loadStream_inv (hinj : Function.Injective hash) {s s' : CFS} {dirname : String} {blocks : List Bytes}
    {toks : List (Nat × Nat × String)} (h1 : LInv max hash s)
    (h2 : loadStream hash s dirname blocks toks = some s') : LInv max hash s' := by
  unfold loadStream at h2
  simp only [] at h2
  split at h2
  · cases h2
  · obtain ⟨p1, p2, p3⟩ := puts_spec hinj blocks s.world h1.1.ok
    cases hfold : toks.foldl (loadTok hash dirname (blocks.map (fun b => (⟨hash b, b.length⟩ : LoadSeg))))
        (some ({ s with world := blocks.foldl (fun st b => Store.put hash st b) s.world }, 0, 0)) with
    | none => rw [hfold] at h2; cases h2
    | some r =>
      rw [hfold] at h2
      simp only [Option.map_some, Option.some.injEq] at h2
      rw [← h2]
      have hB : BlocksIn hash (blocks.foldl (fun st b => Store.put hash st b) s.world)
          (blocks.map (fun b => (⟨hash b, b.length⟩ : LoadSeg))) := by
        intro sg hsg
        obtain ⟨b, hb, hsgeq⟩ := List.mem_map.mp hsg
        rw [← hsgeq]
        exact ⟨b, p3 b hb, rfl⟩
      have hA : ∀ a, (some (({ s with world := blocks.foldl (fun st b => Store.put hash st b) s.world } : CFS), 0, 0)
          : Option (CFS × Nat × Nat)) = some a →
          LInv max hash a.1 ∧ a.1.world = blocks.foldl (fun st b => Store.put hash st b) s.world := by
        intro a ha
        simp only [Option.some.injEq] at ha
        rw [← ha]
        exact ⟨⟨h1.1.ext_world p1 p2, h1.2⟩, rfl⟩
      exact (foldl_loadTok_inv (max := max) hB toks _ r hA hfold).1

theorem loadManifest_inv (hinj : Function.Injective hash)
    (streams : List (String × List Bytes × List (Nat × Nat × String))) (s : CFS)
    (h : loadManifest hash streams = some s) : Inv max hash s ∧ s.handles = [] := by
  unfold loadManifest at h
  have : ∀ (streams : List (String × List Bytes × List (Nat × Nat × String))) (acc : Option CFS) (s : CFS),
      (∀ a, acc = some a → LInv max hash a) →
      streams.foldl (fun acc (st : String × List Bytes × List (Nat × Nat × String)) =>
        match acc with
        | none => none
        | some s => loadStream hash s st.1 st.2.1 st.2.2) acc = some s → LInv max hash s := by
    intro streams
    induction streams with
    | nil => intro acc s hacc hs; exact hacc s hs
    | cons x rest ih =>
      intro acc s hacc hs
      simp only [List.foldl_cons] at hs
      refine ih _ s ?_ hs
      intro a ha
      cases acc with
      | none => cases ha
      | some s0 => exact loadStream_inv hinj (hacc s0 rfl) ha
  refine this streams _ s ?_ h
  intro a ha
  simp only [Option.some.injEq] at ha
  rw [← ha]
  exact ⟨⟨(fun _ _ h => by cases h), (fun _ h => by cases h), (fun _ h => by cases h), (fun _ h => by cases h)⟩, rfl⟩

end ArvVerif.C08
