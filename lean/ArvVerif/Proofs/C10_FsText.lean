/-
C10 — `dirnode.loadManifest` on manifest text inside the grammar: every token is read as the
grammar reads it, the carried cursor stays consistent, no error arises when no path is both file
and directory, and the loaded tree maps every path to `resolve`.
-/
import ArvVerif.Proofs.C10_FsTree
import ArvVerif.Proofs.C10_FsLoop
namespace ArvVerif.C10

def two31 : Nat := 2147483648

/-- sizes the loader's `ParseInt(…, 10, 32)` / int64 arithmetic can represent -/
def FitsFs (s : Stream) : Prop := (∀ b ∈ s.blocks, b.size < two31) ∧ streamLen s.blocks < two63

/-! ## names -/

/-- components of a combined path inside the grammar -/
theorem path_components (sn fn : Bytes) (h1 : specStreamNameOk sn = true) (h2 : specFileNameOk fn = true) :
    ∃ k, KeyOk k ∧ pathOf sn fn = pathOfKey k ∧ splitOn bSlash (pathOfKey k) = [bDot] :: k := by
  obtain ⟨cs1, ok1, hn1, ns1⟩ := streamName_shape sn h1
  obtain ⟨cs2, ne2, ok2, hn2, ns2⟩ := fileName_shape fn h2
  have hcs : componentsOk (cs1 ++ cs2) = true := by
    unfold componentsOk at *
    rw [List.all_append, ok1, ok2]; rfl
  have hns : ∀ c ∈ cs1 ++ cs2, bSlash ∉ c := by
    intro c hc
    rcases List.mem_append.mp hc with h | h
    · exact ns1 c h
    · exact ns2 c h
  have hp : pathOf sn fn = joinWith bSlash ([bDot] :: (cs1 ++ cs2)) := by
    unfold pathOf
    rw [hn1, hn2, ← List.cons_append, joinWith_append bSlash ([bDot] :: cs1) cs2 (by simp) ne2]
  refine ⟨cs1 ++ cs2, ⟨by simp [ne2], hcs, hns⟩, hp, ?_⟩
  unfold pathOfKey
  rw [splitOn_joinWith bSlash _ (by simp)]
  intro c hc
  rcases List.mem_cons.mp hc with rfl | hc
  · decide
  · exact hns c hc

/-! ## tokens -/

theorem plus_not_lowerHex : isLowerHex bPlus = false := by decide

theorem fsLocator_spec (t : Bytes) (b : Loc) (h : specLocator t = some b) (hsz : b.size < two31) :
    fsLocator t = some b ∧ bColon ∉ t := by
  unfold specLocator at h
  cases hd : locatorSizeDigits isLowerHex t with
  | none => rw [hd] at h; cases h
  | some ds =>
    rw [hd] at h
    simp only [Option.map_some, Option.some.injEq] at h
    refine ⟨?_, locator_no_colon isLowerHex (by decide) t ds hd⟩
    obtain ⟨hs, tl, ht, _, hall, hdne, hdig, htl⟩ := locatorSizeDigits_shape isLowerHex t ds hd
    have hnp1 : bPlus ∉ hs := not_mem_of_all hall plus_not_lowerHex
    have hnp2 : bPlus ∉ ds := not_mem_of_all hdig (by decide)
    have hsz' : natOfDigits ds < 2 ^ (32 - 1) := by
      have : b.size = natOfDigits ds := by rw [← h]
      rw [← this]; exact hsz
    have hsplit : ∃ r, splitN3 bPlus t = hs :: ds :: r := by
      rcases htl with rfl | ⟨_, tl', rfl⟩
      · refine ⟨[], ?_⟩
        unfold splitN3
        rw [ht, List.append_nil, splitOn_append_sep bPlus hs ds hnp1, splitOn_of_no_sep bPlus ds hnp2]
      · refine ⟨[tl'], ?_⟩
        rw [ht, splitN3_three bPlus hs ds tl' hnp1 hnp2]
    obtain ⟨r, hr⟩ := hsplit
    unfold fsLocator
    rw [hr]
    simp only []
    rw [parseIntBits_digits 32 ds hdne hdig hsz']
    simp only []
    rw [if_neg (by omega)]
    rw [← h]
    simp

/-- stream length of a longer prefix -/
theorem streamLen_take_add (bs : List Loc) (i k : Nat) :
    streamLen (bs.take (i + k)) = streamLen (bs.take i) + streamLen ((bs.drop i).take k) := by
  rw [List.take_add, streamLen_append]

/-- the cursor points at a block boundary -/
def Cursor (segs : List Loc) (idx : Nat) (pos : Int) : Prop :=
  idx ≤ segs.length ∧ pos = ((streamLen (segs.take idx) : Nat) : Int)

theorem addI64_eq (a b : Nat) (h : a + b < two63) : addI64 (a : Int) (b : Int) = ((a + b : Nat) : Int) := by
  unfold addI64
  have e : ((a : Int) + (b : Int) + (two64 : Int)).toNat = a + b + two64 := by omega
  rw [e]
  unfold toI64
  have h64 : (a + b + two64) % two64 = a + b := by
    rw [Nat.add_mod_right, Nat.mod_eq_of_lt (by unfold two63 at h; unfold two64; omega)]
  rw [h64, if_pos h]

/-- **one file token of a line** -/
theorem fsToken_file (done : Contrib) (t : FsTree) (hinv : FsInv done t) (st : FsLine) (tok : Bytes) (f : FTok)
    (htok : specFileTok tok = some f) (hseg : st.segments ≠ []) (hname : specStreamNameOk st.dirname = true)
    (hcur : Cursor st.segments st.segIdx st.pos)
    (hin : f.pos + f.len ≤ streamLen st.segments) (htot : streamLen st.segments < two63)
    (hnc : ∀ q ∈ done.map (·.1), isDirPrefix q (pathOf st.dirname f.name) = false ∧
      isDirPrefix (pathOf st.dirname f.name) q = false) :
    ∃ st' t', fsToken tok st t = some (st', t') ∧ st'.segments = st.segments ∧ st'.dirname = st.dirname ∧
      st'.anyFile = true ∧ Cursor st'.segments st'.segIdx st'.pos ∧
      FsInv (done ++ [(pathOf st.dirname f.name, resolveTok st.segments 0 f.pos f.len)]) t' := by
  obtain ⟨p, l, nm, ht, hp1, hp2, hl1, hl2, _, hu, hfn, epos, elen⟩ := specFileTok_shape tok f htok
  obtain ⟨k, hk, hpk, hsplit⟩ := path_components st.dirname f.name hname hfn
  rw [hpk] at hnc
  obtain ⟨t1, hcreate, hafter⟩ := fs_step done t hinv k hk hsplit hnc
  have hcolon : tok.contains bColon = true := by
    rw [List.contains_iff_mem, ht]; simp
  have hfun : fsUnescape nm = f.name :=
    goUnescape_of_spec isOctDigit (fun _ h => h) nm.length nm f.name (Nat.le_refl _) hu
  have hpp : parseIntBits 64 p = some (f.pos : Int) := by
    rw [epos]; exact parseIntBits_digits 64 p hp1 hp2 (by rw [← epos]; unfold two63 at htot; omega)
  have hpl : parseIntBits 64 l = some (f.len : Int) := by
    rw [elen]; exact parseIntBits_digits 64 l hl1 hl2 (by rw [← elen]; unfold two63 at htot; omega)
  have hpath : st.dirname ++ bSlash :: fsUnescape nm = pathOfKey k := by rw [hfun, ← hpk]; rfl
  obtain ⟨hcur1, hcur2⟩ := hcur
  -- the loop, from the (possibly rewound) cursor
  have hloop : ∀ (idx0 : Nat), idx0 ≤ st.segments.length → streamLen (st.segments.take idx0) ≤ f.pos →
      ∃ idx pos, fsLoop (f.pos : Int) ((f.pos + f.len : Nat) : Int) (st.segments.drop idx0) idx0
          ((streamLen (st.segments.take idx0) : Nat) : Int) [] = (idx, pos, resolveTok st.segments 0 f.pos f.len) ∧
        Cursor st.segments idx pos ∧ ¬ (idx = st.segments.length ∧ pos < ((f.pos + f.len : Nat) : Int)) := by
    intro idx0 hidx0 hle
    obtain ⟨h1, kk, hk1, hk2, hk3, hk4⟩ := fsLoop_spec f.pos f.len (st.segments.drop idx0) idx0
      (streamLen (st.segments.take idx0)) []
    generalize fsLoop (f.pos : Int) ((f.pos + f.len : Nat) : Int) (st.segments.drop idx0) idx0
      ((streamLen (st.segments.take idx0) : Nat) : Int) [] = r at h1 hk3 hk4
    obtain ⟨ridx, rpos, rsegs⟩ := r
    simp only [] at h1 hk3 hk4
    have hlen : (st.segments.drop idx0).length = st.segments.length - idx0 := by simp
    refine ⟨ridx, rpos, ?_, ⟨by omega, ?_⟩, ?_⟩
    · rw [h1, List.nil_append, resolveTok_drop st.segments 0 f.pos f.len idx0 (by omega)]
      simp
    · rw [hk4, hk3, streamLen_take_add]
    · rw [hk3, hk4]
      intro ⟨ha, hb⟩
      have hkk : kk = (st.segments.drop idx0).length := by omega
      have hfull : (st.segments.drop idx0).take kk = st.segments.drop idx0 := by
        rw [hkk]; exact List.take_length
      rw [hfull] at hb
      have := streamLen_take_drop st.segments idx0
      omega
  unfold fsToken
  rw [if_neg (fun hn => hn hcolon), if_neg hseg, ht,
    splitN3_three bColon p l nm (not_mem_of_all hp2 colon_not_digit) (not_mem_of_all hl2 colon_not_digit)]
  simp only [hpp, hpl]
  rw [addI64_eq f.pos f.len (by omega), if_neg (by omega), hpath, hcreate]
  simp only []
  by_cases hrew : st.pos > (f.pos : Int)
  · obtain ⟨idx, pos, hl, hc, hne⟩ := hloop 0 (Nat.zero_le _) (by simp)
    simp only [List.take_zero, streamLen_nil, List.drop_zero] at hl
    simp only [if_pos hrew, List.drop_zero]
    have hl' : fsLoop (f.pos : Int) ((f.pos + f.len : Nat) : Int) st.segments 0 0 [] =
        (idx, pos, resolveTok st.segments 0 f.pos f.len) := hl
    rw [hl']
    simp only []
    rw [if_neg hne]
    exact ⟨_, _, rfl, rfl, rfl, rfl, hc, by rw [hpk]; exact hafter _⟩
  · have hle : streamLen (st.segments.take st.segIdx) ≤ f.pos := by omega
    obtain ⟨idx, pos, hl, hc, hne⟩ := hloop st.segIdx hcur1 hle
    simp only [if_neg hrew]
    rw [hcur2, hl]
    simp only []
    rw [if_neg hne]
    exact ⟨_, _, rfl, rfl, rfl, rfl, hc, by rw [hpk]; exact hafter _⟩

/-- the contributions of a list of file tokens of one stream -/
def contribsOf (sname : Bytes) (blocks : List Loc) (files : List FTok) : Contrib :=
  files.map fun f => (pathOf sname f.name, resolveTok blocks 0 f.pos f.len)

/-- all paths of the manifest are pairwise no file/directory conflict -/
def NoConflictWith (paths : List Bytes) (p : Bytes) : Prop :=
  ∀ q ∈ paths, isDirPrefix q p = false ∧ isDirPrefix p q = false

theorem fsTokens_files : ∀ (ftoks : List Bytes) (files : List FTok) (done : Contrib) (t : FsTree) (st : FsLine)
    (allPaths : List Bytes),
    mapOpt specFileTok ftoks = some files → FsInv done t → st.segments ≠ [] →
    specStreamNameOk st.dirname = true → Cursor st.segments st.segIdx st.pos →
    (∀ f ∈ files, f.pos + f.len ≤ streamLen st.segments) → streamLen st.segments < two63 →
    (∀ q ∈ done.map (·.1), q ∈ allPaths) →
    (∀ f ∈ files, pathOf st.dirname f.name ∈ allPaths ∧ NoConflictWith allPaths (pathOf st.dirname f.name)) →
    ∃ st' t', fsTokens ftoks st t = some (st', t') ∧ st'.segments = st.segments ∧ st'.dirname = st.dirname ∧
      (ftoks ≠ [] → st'.anyFile = true) ∧
      FsInv (done ++ contribsOf st.dirname st.segments files) t'
  | [], files, done, t, st, _, hm, hinv, _, _, _, _, _, _, _ => by
    simp [mapOpt] at hm; subst hm
    exact ⟨st, t, rfl, rfl, rfl, by simp, by simpa [contribsOf] using hinv⟩
  | tok :: rest, files, done, t, st, allPaths, hm, hinv, hseg, hname, hcur, hin, htot, hdone, hpaths => by
    obtain ⟨f, fs, h1, h2, rfl⟩ := mapOpt_cons_some specFileTok tok rest files hm
    obtain ⟨hpf, hncf⟩ := hpaths f (by simp)
    obtain ⟨st1, t1, e1, e2, e3, e4, e5, e6⟩ := fsToken_file done t hinv st tok f h1 hseg hname hcur
      (hin f (by simp)) htot (fun q hq => hncf q (hdone q hq))
    obtain ⟨st2, t2, g1, g2, g3, g4, g5⟩ := fsTokens_files rest fs _ t1 st1 allPaths h2 e6 (by rw [e2]; exact hseg)
      (by rw [e3]; exact hname) e5 (by rw [e2]; exact fun x hx => hin x (List.mem_cons_of_mem _ hx))
      (by rw [e2]; exact htot)
      (by
        intro q hq
        simp only [List.map_append, List.map_cons, List.map_nil, List.mem_append, List.mem_singleton] at hq
        rcases hq with hq | hq
        · exact hdone q hq
        · rw [hq]; exact hpf)
      (by rw [e3]; exact fun x hx => hpaths x (List.mem_cons_of_mem _ hx))
    refine ⟨st2, t2, ?_, by rw [g2, e2], by rw [g3, e3], ?_, ?_⟩
    · unfold fsTokens; rw [e1]; exact g1
    · intro _
      by_cases hr : rest = []
      · subst hr
        unfold fsTokens at g1
        cases g1
        exact e4
      · exact g4 hr
    · rw [e2, e3] at g5
      simpa [contribsOf, List.append_assoc] using g5

theorem fsTokens_locators : ∀ (blocks : List Loc) (rest : List Bytes) (st : FsLine) (t : FsTree),
    (∀ b ∈ blocks, specLocator b.text = some b) → (∀ b ∈ blocks, b.size < two31) → st.anyFile = false →
    fsTokens (blocks.map (·.text) ++ rest) st t = fsTokens rest { st with segments := st.segments ++ blocks } t
  | [], rest, st, t, _, _, _ => by simp
  | b :: bs, rest, st, t, hl, hs, ha => by
    obtain ⟨e1, e2⟩ := fsLocator_spec b.text b (hl b (by simp)) (hs b (by simp))
    have hnc : b.text.contains bColon = false := by
      rw [Bool.eq_false_iff]; intro h; exact e2 (List.contains_iff_mem.mp h)
    simp only [List.map_cons, List.cons_append]
    have hthis : fsToken b.text st t = some ({ st with segments := st.segments ++ [b] }, t) := by
      unfold fsToken
      rw [if_pos (by rw [hnc]; exact Bool.false_ne_true), if_neg (by rw [ha]; exact Bool.false_ne_true), e1]
    conv => lhs; unfold fsTokens
    rw [hthis]
    simp only []
    rw [fsTokens_locators bs rest { st with segments := st.segments ++ [b] } t
      (fun x hx => hl x (List.mem_cons_of_mem _ hx)) (fun x hx => hs x (List.mem_cons_of_mem _ hx)) ha]
    simp [List.append_assoc]

/-- all contributions of a manifest, in order -/
def manifestContribs (M : Manifest) : Contrib := M.flatMap fun s => contribsOf s.name s.blocks s.files

/-- **one line** -/
theorem fsLine_spec (line : Bytes) (s : Stream) (h : specLine line = some s) (hfit : FitsFs s)
    (done : Contrib) (t : FsTree) (hinv : FsInv done t) (allPaths : List Bytes)
    (hdone : ∀ q ∈ done.map (·.1), q ∈ allPaths)
    (hpaths : ∀ f ∈ s.files, pathOf s.name f.name ∈ allPaths ∧ NoConflictWith allPaths (pathOf s.name f.name)) :
    ∃ t', fsLine line t = some t' ∧ FsInv (done ++ contribsOf s.name s.blocks s.files) t' := by
  unfold specLine at h
  simp only [] at h
  by_cases htok : (splitOn bSpace line).all tokenBytesOk = true
  · rw [if_pos htok] at h
    cases hs : splitOn bSpace line with
    | nil => exact absurd hs (splitOn_ne_nil _ _)
    | cons nm rest =>
      rw [hs] at h
      simp only [] at h
      cases hu : specUnescape nm with
      | none => rw [hu] at h; cases h
      | some name =>
        rw [hu] at h
        simp only [] at h
        by_cases hname : specStreamNameOk name = true
        · rw [if_pos hname] at h
          cases hloc : specLocators rest with
          | mk blocks ftoks =>
            rw [hloc] at h
            simp only [] at h
            cases hfiles : mapOpt specFileTok ftoks with
            | none => rw [hfiles] at h; cases h
            | some files =>
              rw [hfiles] at h
              simp only [] at h
              by_cases hok : blocks ≠ [] ∧ files ≠ [] ∧
                  (files.all fun f => decide (f.pos + f.len ≤ streamLen blocks)) = true
              · rw [if_pos hok] at h
                cases h
                obtain ⟨hb1, hb2⟩ := hfit
                simp only [] at hb1 hb2 hpaths
                obtain ⟨hr1, hr2, _⟩ := specLocators_spec rest blocks ftoks hloc
                have hinside : ∀ f ∈ files, f.pos + f.len ≤ streamLen blocks := by
                  intro f hf
                  have := List.all_eq_true.mp hok.2.2 f hf
                  simpa using this
                have hftne : ftoks ≠ [] := by
                  intro he; subst he; simp [mapOpt] at hfiles; exact hok.2.1 hfiles
                have hfname : fsUnescape nm = name :=
                  goUnescape_of_spec isOctDigit (fun _ h => h) nm.length nm name (Nat.le_refl _) hu
                unfold fsLine
                rw [hs]
                simp only [hfname]
                rw [hr1, fsTokens_locators blocks ftoks _ t hr2 hb1 rfl]
                simp only [List.nil_append]
                obtain ⟨st', t', g1, g2, g3, g4, g5⟩ := fsTokens_files ftoks files done t
                  ⟨name, blocks, false, 0, 0⟩ allPaths hfiles hinv hok.1 hname
                  ⟨Nat.zero_le _, by simp⟩ hinside hb2 hdone hpaths
                rw [g1]
                simp only []
                have hdn : name ≠ [] := by
                  rcases streamName_prefix name hname with h1 | h1
                  · rw [h1]; simp
                  · intro he; rw [he] at h1; simp [List.isPrefixOf] at h1
                rw [if_neg (by
                  simp only [g4 hftne, g2, g3]
                  intro hh
                  rcases hh with hh | hh | hh
                  · simp at hh
                  · exact hok.1 hh
                  · exact hdn hh)]
                exact ⟨t', rfl, g5⟩
              · rw [if_neg hok] at h; cases h
        · rw [if_neg hname] at h; cases h
  · rw [if_neg htok] at h; cases h

theorem fsLines_spec : ∀ (lines : List Bytes) (M : Manifest), mapOpt specLine lines = some M →
    (∀ s ∈ M, FitsFs s) → ∀ (done : Contrib) (t : FsTree), FsInv done t → ∀ (allPaths : List Bytes),
    (∀ q ∈ done.map (·.1), q ∈ allPaths) →
    (∀ s ∈ M, ∀ f ∈ s.files, pathOf s.name f.name ∈ allPaths ∧ NoConflictWith allPaths (pathOf s.name f.name)) →
    ∃ t', fsLines lines t = some t' ∧ FsInv (done ++ manifestContribs M) t'
  | [], M, h, _, done, t, hinv, _, _, _ => by
    simp [mapOpt] at h; subst h
    exact ⟨t, rfl, by simpa [manifestContribs] using hinv⟩
  | l :: ls, M, h, hfit, done, t, hinv, allPaths, hdone, hpaths => by
    obtain ⟨s, ss, h1, h2, rfl⟩ := mapOpt_cons_some specLine l ls M h
    obtain ⟨t1, e1, e2⟩ := fsLine_spec l s h1 (hfit s (by simp)) done t hinv allPaths hdone (hpaths s (by simp))
    obtain ⟨t2, g1, g2⟩ := fsLines_spec ls ss h2 (fun x hx => hfit x (List.mem_cons_of_mem _ hx)) _ t1 e2 allPaths
      (by
        intro q hq
        simp only [List.map_append, List.mem_append] at hq
        rcases hq with hq | hq
        · exact hdone q hq
        · simp only [contribsOf, List.map_map, List.mem_map, Function.comp] at hq
          obtain ⟨f, hf, rfl⟩ := hq
          exact (hpaths s (by simp) f hf).1)
      (fun x hx => hpaths x (List.mem_cons_of_mem _ hx))
    refine ⟨t2, ?_, ?_⟩
    · unfold fsLines; rw [e1]; exact g1
    · simpa [manifestContribs, List.append_assoc] using g2

theorem contribOf_manifest (M : Manifest) (p : Bytes) : contribOf (manifestContribs M) p = resolve M p := by
  unfold contribOf manifestContribs resolve
  induction M with
  | nil => rfl
  | cons s rest ih =>
    simp only [List.flatMap_cons, List.filter_append, List.flatMap_append, ih]
    congr 1
    unfold contribsOf resolveStream
    induction s.files with
    | nil => rfl
    | cons f fs ihf =>
      simp only [List.map_cons, List.filter_cons, List.flatMap_cons]
      by_cases hp : pathOf s.name f.name = p
      · simp [hp, ihf]
      · simp [hp, ihf]

end ArvVerif.C10
