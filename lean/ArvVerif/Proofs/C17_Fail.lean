/-
C17 — what makes the scan fail: special files, links that leave every mount, link cycles.
-/
import ArvVerif.Proofs.C17_Reach
namespace ArvVerif.C17

/-- the container path `x` lies in the output directory's own `tmp` mount (no deeper mount, no
secret mount at or above it, not excluded) -/
def InOut (cfg : Cfg) (x : Path) : Prop :=
  underSecret cfg x (rootLen (srcMount cfg x)) = false ∧
  ∃ m, srcMount cfg x = some (cfg.ctrOut, m) ∧ m.kind = "tmp" ∧ m.exclude = false

theorem mount_inout (h : Host) (cfg : Cfg) (x dest : Path) (n fuel : Nat) (b : Bool) (st : Plan)
    (hx : InOut cfg x) :
    walk h cfg (fuel + 1) (.mount dest x n b) st = walk h cfg fuel (.host dest x n b) st := by
  obtain ⟨hsec, m, hsm, hk, he⟩ := hx
  rw [walk]
  rw [hsm] at hsec
  simp only [hsec, hsm, he, hk, Bool.false_eq_true, if_false, if_true]

/-- the scan of `Copy` is the host walk of the output directory -/
theorem scan_eq (h : Host) (cfg : Cfg) (fuel : Nat) (hx : InOut cfg cfg.ctrOut) :
    scan h cfg (fuel + 1) = walk h cfg fuel (.host [] cfg.ctrOut (limitFollowSymlinks + 1) true) {} := by
  unfold scan; exact mount_inout h cfg _ _ _ _ _ _ hx

theorem hostPath_out (cfg : Cfg) : hostPath cfg cfg.ctrOut = cfg.hostOut := by
  unfold hostPath; simp

/-- the host output directory exists: every prefix of its path is a real directory -/
def OutDirReal (h : Host) (cfg : Cfg) : Prop :=
  namei h [] cfg.hostOut 0 = .found cfg.hostOut .dir

/-- `rel` leads from the resolved directory `p` (container path `src`) through real directories
that are neither secret mounts nor mount points to an entry `node` -/
structure Visible (h : Host) (cfg : Cfg) (src p rel : Path) (node : Node) : Prop where
  dirs : ∀ k, 0 < k → k < rel.length → h.get (p ++ rel.take k) = some .dir
  vis : ∀ k, 0 < k → k ≤ rel.length →
    (src ++ rel.take k) ∉ cfg.secrets ∧ skipMount cfg (src ++ rel.take k) = false
  node : h.get (p ++ rel) = some node

/-- a scan that succeeds has made a successful call on every visible entry -/
theorem scan_reach (h : Host) (cfg : Cfg) (wf : HostWF h) (hx : InOut cfg cfg.ctrOut) (hreal : OutDirReal h cfg)
    (rel : Path) (node : Node) (hne : rel ≠ [])
    (hv : Visible h cfg cfg.ctrOut cfg.hostOut rel node) (fuel : Nat) (plan : Plan)
    (hs : scan h cfg fuel = .ok plan) :
    ∃ fuel' inc' st1 st2,
      walk h cfg fuel' (.host rel (cfg.ctrOut ++ rel) (limitFollowSymlinks + 1) inc') st1 = .ok st2 ∧
      namei h [] (hostPath cfg (cfg.ctrOut ++ rel)) 0 = .found (cfg.hostOut ++ rel) node ∧ st2.le plan := by
  cases fuel with
  | zero => simp [scan, walk] at hs
  | succ fuel =>
    rw [scan_eq h cfg fuel hx] at hs
    have := reach h cfg wf rel [] cfg.ctrOut cfg.hostOut _ fuel true {} plan hs
      (by simp [List.isPrefixOf_iff_prefix]) (by rw [hostPath_out]; exact hreal) hv.dirs hv.vis node hne hv.node
    simpa using this

/-! ### special files -/

theorem host_special_fails (h : Host) (cfg : Cfg) (dest src p : Path) (n fuel : Nat) (inc : Bool) (st st' : Plan)
    (hd : namei h [] (hostPath cfg src) 0 = .found p .special) :
    walk h cfg fuel (.host dest src n inc) st ≠ .ok st' := by
  intro hw
  cases fuel with
  | zero => rw [walk] at hw; cases hw
  | succ fuel =>
    rw [walk] at hw
    obtain ⟨a, _, hrest⟩ := bind_eq_ok _ _ _ hw
    have hnm : namei h [] (cfg.hostOut ++ src.drop cfg.ctrOut.length) 0 = .found p .special := hd
    rw [hnm] at hrest
    cases hrest

theorem special_fails (h : Host) (cfg : Cfg) (wf : HostWF h) (hx : InOut cfg cfg.ctrOut) (hreal : OutDirReal h cfg)
    (rel : Path) (hne : rel ≠ []) (hv : Visible h cfg cfg.ctrOut cfg.hostOut rel .special)
    (fuel : Nat) (plan : Plan) : scan h cfg fuel ≠ .ok plan := by
  intro hs
  obtain ⟨f', i', s1, s2, hcall, hnm, _⟩ := scan_reach h cfg wf hx hreal rel .special hne hv fuel plan hs
  exact host_special_fails h cfg _ _ _ _ f' i' s1 s2 hnm hcall

/-! ### links that leave every mount -/

/-- the container path a link at `src` with target `(abs, t)` is taken to -/
def linkTarget (src : Path) (abs : Bool) (t : Path) : Path :=
  if abs then t else cleanAbs (src.dropLast ++ t)

/-- the target lies in no mount and under no secret mount -/
def Outside (cfg : Cfg) (x : Path) : Prop :=
  srcMount cfg x = none ∧ underSecret cfg x 0 = false

theorem host_link_outside_fails (h : Host) (cfg : Cfg) (dest src p : Path) (n fuel : Nat) (inc : Bool)
    (st st' : Plan) (abs : Bool) (t : Path)
    (hd : namei h [] (hostPath cfg src) 0 = .found p (.link abs t))
    (hout : Outside cfg (linkTarget src abs t)) :
    walk h cfg fuel (.host dest src n inc) st ≠ .ok st' := by
  intro hw
  cases fuel with
  | zero => rw [walk] at hw; cases hw
  | succ fuel =>
    rw [walk] at hw
    obtain ⟨a, _, hrest⟩ := bind_eq_ok _ _ _ hw
    have hnm : namei h [] (cfg.hostOut ++ src.drop cfg.ctrOut.length) 0 = .found p (.link abs t) := hd
    rw [hnm] at hrest
    simp only at hrest
    split at hrest
    · cases hrest
    · cases fuel with
      | zero => rw [walk] at hrest; cases hrest
      | succ fuel =>
        rw [walk] at hrest
        have h1 : srcMount cfg (if abs = true then t else cleanAbs (src.dropLast ++ t)) = none := hout.1
        have h2 : underSecret cfg (if abs = true then t else cleanAbs (src.dropLast ++ t)) 0 = false := hout.2
        simp only [h1, rootLen, h2, Bool.false_eq_true, if_false] at hrest
        cases hrest

theorem link_outside_fails (h : Host) (cfg : Cfg) (wf : HostWF h) (hx : InOut cfg cfg.ctrOut)
    (hreal : OutDirReal h cfg) (rel : Path) (hne : rel ≠ []) (abs : Bool) (t : Path)
    (hv : Visible h cfg cfg.ctrOut cfg.hostOut rel (.link abs t))
    (hout : Outside cfg (linkTarget (cfg.ctrOut ++ rel) abs t))
    (fuel : Nat) (plan : Plan) : scan h cfg fuel ≠ .ok plan := by
  intro hs
  obtain ⟨f', i', s1, s2, hcall, hnm, _⟩ := scan_reach h cfg wf hx hreal rel _ hne hv fuel plan hs
  exact host_link_outside_fails h cfg _ _ _ _ f' i' s1 s2 abs t hnm hout hcall

/-! ### cycles -/

/-- A link at `x ++ rel` (visible below the resolved location of `x`; `rel = []`: `x` is the link
itself) whose target is taken back to `x`: no call on `x` succeeds, whatever the budget. -/
theorem cycle_host_fails (h : Host) (cfg : Cfg) (wf : HostWF h) (x p rel : Path) (abs : Bool) (t : Path)
    (hxin : InOut cfg x) (hpre : cfg.ctrOut.isPrefixOf x = true)
    (hnode : if rel = [] then namei h [] (hostPath cfg x) 0 = .found p (.link abs t)
             else namei h [] (hostPath cfg x) 0 = .found p .dir ∧ Visible h cfg x p rel (.link abs t))
    (hback : linkTarget (x ++ rel) abs t = x) :
    ∀ (n fuel : Nat) (dest : Path) (inc : Bool) (st st' : Plan),
      walk h cfg fuel (.host dest x n inc) st ≠ .ok st' := by
  intro n
  induction n with
  | zero =>
    intro fuel dest inc st st' hw
    -- reach the link with budget 0
    have hlink : ∃ f' d' i' s1 s2 p', walk h cfg f' (.host d' (x ++ rel) 0 i') s1 = .ok s2 ∧
        namei h [] (hostPath cfg (x ++ rel)) 0 = .found p' (.link abs t) := by
      by_cases hr : rel = []
      · subst hr; simp only [if_true] at hnode
        exact ⟨fuel, dest, inc, st, st', p, by simpa using hw, by simpa using hnode⟩
      · simp only [hr, if_false] at hnode
        obtain ⟨f', i', s1, s2, hc, hn, _⟩ := reach h cfg wf rel dest x p 0 fuel inc st st' hw hpre hnode.1
          hnode.2.dirs hnode.2.vis _ hr hnode.2.node
        exact ⟨f', _, i', s1, s2, _, hc, hn⟩
    obtain ⟨f', d', i', s1, s2, p', hc, hn⟩ := hlink
    cases f' with
    | zero => rw [walk] at hc; cases hc
    | succ f' =>
      rw [walk] at hc
      obtain ⟨a, _, hrest⟩ := bind_eq_ok _ _ _ hc
      have hnm : namei h [] (cfg.hostOut ++ (x ++ rel).drop cfg.ctrOut.length) 0 = .found p' (.link abs t) := hn
      rw [hnm] at hrest
      simp at hrest
  | succ n ih =>
    intro fuel dest inc st st' hw
    have hlink : ∃ f' d' i' s1 s2 p', walk h cfg f' (.host d' (x ++ rel) (n + 1) i') s1 = .ok s2 ∧
        namei h [] (hostPath cfg (x ++ rel)) 0 = .found p' (.link abs t) := by
      by_cases hr : rel = []
      · subst hr; simp only [if_true] at hnode
        exact ⟨fuel, dest, inc, st, st', p, by simpa using hw, by simpa using hnode⟩
      · simp only [hr, if_false] at hnode
        obtain ⟨f', i', s1, s2, hc, hn, _⟩ := reach h cfg wf rel dest x p (n + 1) fuel inc st st' hw hpre hnode.1
          hnode.2.dirs hnode.2.vis _ hr hnode.2.node
        exact ⟨f', _, i', s1, s2, _, hc, hn⟩
    obtain ⟨f', d', i', s1, s2, p', hc, hn⟩ := hlink
    cases f' with
    | zero => rw [walk] at hc; cases hc
    | succ f' =>
      rw [walk] at hc
      obtain ⟨a, _, hrest⟩ := bind_eq_ok _ _ _ hc
      have hnm : namei h [] (cfg.hostOut ++ (x ++ rel).drop cfg.ctrOut.length) 0 = .found p' (.link abs t) := hn
      rw [hnm] at hrest
      simp only [Nat.add_one_ne_zero, if_false, Nat.add_sub_cancel] at hrest
      have hb : (if abs = true then t else cleanAbs ((x ++ rel).dropLast ++ t)) = x := hback
      rw [hb] at hrest
      cases f' with
      | zero => rw [walk] at hrest; cases hrest
      | succ f' =>
        rw [mount_inout h cfg x d' n f' true a hxin] at hrest
        exact ih f' d' true a s2 hrest

/-- a link below the output directory that leads back to itself or to a directory above it makes
the scan fail -/
theorem cycle_fails (h : Host) (cfg : Cfg) (wf : HostWF h) (hx : InOut cfg cfg.ctrOut) (hreal : OutDirReal h cfg)
    (rel0 rel : Path) (abs : Bool) (t : Path)
    (hxin : InOut cfg (cfg.ctrOut ++ rel0))
    (h0 : rel0 = [] ∨ Visible h cfg cfg.ctrOut cfg.hostOut rel0 (if rel = [] then .link abs t else .dir))
    (hrel : rel = [] ∨ Visible h cfg (cfg.ctrOut ++ rel0) (cfg.hostOut ++ rel0) rel (.link abs t))
    (hnot : ¬ (rel0 = [] ∧ rel = []))
    (hback : linkTarget (cfg.ctrOut ++ rel0 ++ rel) abs t = cfg.ctrOut ++ rel0)
    (fuel : Nat) (plan : Plan) : scan h cfg fuel ≠ .ok plan := by
  intro hs
  have hpre : cfg.ctrOut.isPrefixOf (cfg.ctrOut ++ rel0) = true := by simp [List.isPrefixOf_iff_prefix]
  -- the resolved location of the cycle's base
  have hbase : ∃ f' d' i' s1 s2 nd, walk h cfg f' (.host d' (cfg.ctrOut ++ rel0) (limitFollowSymlinks + 1) i') s1 = .ok s2 ∧
      namei h [] (hostPath cfg (cfg.ctrOut ++ rel0)) 0 = .found (cfg.hostOut ++ rel0) nd ∧
      nd = (if rel = [] then Node.link abs t else Node.dir) := by
    rcases h0 with h0 | h0
    · subst h0
      cases fuel with
      | zero => simp [scan, walk] at hs
      | succ fuel =>
        rw [scan_eq h cfg fuel hx] at hs
        have hr : rel ≠ [] := fun hr => hnot ⟨rfl, hr⟩
        refine ⟨fuel, [], true, {}, plan, .dir, by simpa using hs, ?_, by simp [hr]⟩
        have : namei h [] cfg.hostOut 0 = .found cfg.hostOut .dir := hreal
        simpa [hostPath_out] using this
    · by_cases hr0 : rel0 = []
      · subst hr0
        cases fuel with
        | zero => simp [scan, walk] at hs
        | succ fuel =>
          rw [scan_eq h cfg fuel hx] at hs
          have hr : rel ≠ [] := fun hr => hnot ⟨rfl, hr⟩
          refine ⟨fuel, [], true, {}, plan, .dir, by simpa using hs, ?_, by simp [hr]⟩
          have : namei h [] cfg.hostOut 0 = .found cfg.hostOut .dir := hreal
          simpa [hostPath_out] using this
      · obtain ⟨f', i', s1, s2, hc, hn, _⟩ := scan_reach h cfg wf hx hreal rel0 _ hr0 h0 fuel plan hs
        exact ⟨f', _, i', s1, s2, _, hc, hn, rfl⟩
  obtain ⟨f', d', i', s1, s2, nd, hc, hn, hnd⟩ := hbase
  refine cycle_host_fails h cfg wf (cfg.ctrOut ++ rel0) (cfg.hostOut ++ rel0) rel abs t hxin hpre ?_ hback
    _ f' d' i' s1 s2 hc
  by_cases hr : rel = []
  · simp only [hr, if_true] at hnd ⊢; rw [hn, hnd]
  · simp only [hr, if_false] at hnd ⊢
    rcases hrel with hrel | hrel
    · exact absurd hrel hr
    · exact ⟨by rw [hn, hnd], hrel⟩

end ArvVerif.C17
