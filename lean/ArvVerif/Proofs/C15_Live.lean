/-
The variant of the C15 liveness system: how each step moves it (`step_mu`), and the bookkeeping
lemmas about sums over the container and instance lists that this needs.
-/
import ArvVerif.Proofs.C15_Wf
namespace ArvVerif.C15
open ArvVerif.C14 (Uuid IType)

/-! ### sums over lists -/

@[simp] theorem sumBy_nil {α : Type} (f : α → Nat) : sumBy f [] = 0 := rfl
@[simp] theorem sumBy_cons {α : Type} (f : α → Nat) (x : α) (l : List α) : sumBy f (x :: l) = f x + sumBy f l := by
  simp [sumBy]
@[simp] theorem sumBy_append {α : Type} (f : α → Nat) (l₁ l₂ : List α) :
    sumBy f (l₁ ++ l₂) = sumBy f l₁ + sumBy f l₂ := by
  simp [sumBy]

theorem sumBy_le {α : Type} (f g : α → Nat) (l : List α) (h : ∀ x ∈ l, f x ≤ g x) : sumBy f l ≤ sumBy g l := by
  induction l with
  | nil => simp
  | cons x rest ih =>
    simp only [sumBy_cons]
    have := h x List.mem_cons_self
    have := ih (fun y hy => h y (List.mem_cons_of_mem _ hy))
    omega

theorem sumBy_lt {α : Type} (f g : α → Nat) (l : List α) (h : ∀ x ∈ l, f x ≤ g x) (x0 : α) (hx : x0 ∈ l)
    (hlt : f x0 < g x0) : sumBy f l < sumBy g l := by
  induction l with
  | nil => cases hx
  | cons x rest ih =>
    simp only [sumBy_cons]
    have hx' := h x List.mem_cons_self
    have hrest := sumBy_le f g rest (fun y hy => h y (List.mem_cons_of_mem _ hy))
    rcases List.mem_cons.mp hx with e | e
    · subst e; omega
    · have := ih (fun y hy => h y (List.mem_cons_of_mem _ hy)) e
      omega

theorem sumBy_eq_zero {α : Type} (f : α → Nat) (l : List α) : sumBy f l = 0 ↔ ∀ x ∈ l, f x = 0 := by
  induction l with
  | nil => simp
  | cons x rest ih =>
    simp only [sumBy_cons, List.mem_cons, forall_eq_or_imp]
    rw [← ih]
    omega

/-! ### counts -/

def b2n (b : Bool) : Nat := if b then 1 else 0

theorem unallocOk_mid (ipre ipost : List Inst) (i : Inst) (t : IType) :
    unallocOk (ipre ++ i :: ipost) t = unallocOk ipre t + b2n (i.unallocOk t) + unallocOk ipost t := by
  unfold unallocOk b2n
  rw [List.countP_append, List.countP_cons]
  split <;> omega

theorem unallocOk_snoc (is : List Inst) (i : Inst) (t : IType) :
    unallocOk (is ++ [i]) t = unallocOk is t + b2n (i.unallocOk t) := by
  unfold unallocOk b2n
  rw [List.countP_append, List.countP_cons]
  simp only [List.countP_nil]
  split <;> omega

theorem unallocOk_le_real (is : List Inst) (t : IType) : unallocOk is t ≤ unallocReal is t := by
  unfold unallocOk unallocReal
  apply List.countP_mono_left
  intro i _ h
  unfold Inst.unallocOk at h
  simp only [Bool.and_eq_true] at h
  exact h.1

/-- replacing one instance by one that is "at least as unallocated" cannot raise the deficit -/
theorem deficit_inst_le (types : List IType) (cs : List Ctr) (ipre ipost : List Inst) (i i' : Inst)
    (h : ∀ t, i.unallocOk t = true → i'.unallocOk t = true) :
    deficit types cs (ipre ++ i' :: ipost) ≤ deficit types cs (ipre ++ i :: ipost) := by
  unfold deficit
  apply sumBy_le
  intro t _
  rw [unallocOk_mid, unallocOk_mid]
  have : b2n (i.unallocOk t) ≤ b2n (i'.unallocOk t) := by
    unfold b2n
    cases h1 : i.unallocOk t
    · simp
    · simp [h t h1]
  omega

/-- … nor can removing a worker of a type for which nothing is waiting -/
theorem deficit_inst_idle (types : List IType) (cs : List Ctr) (ipre ipost : List Inst) (i i' : Inst)
    (hw : waiting cs i.ty = 0) (h' : ∀ t, i'.unallocOk t = false) :
    deficit types cs (ipre ++ i' :: ipost) ≤ deficit types cs (ipre ++ i :: ipost) := by
  unfold deficit
  apply sumBy_le
  intro t _
  rw [unallocOk_mid, unallocOk_mid]
  by_cases ht : i.ty = t
  · subst ht; rw [hw]; omega
  · have : i.unallocOk t = false := by
      unfold Inst.unallocOk Inst.unallocReal
      have : (i.ty == t) = false := by simpa using ht
      simp [this]
    rw [this, h' t]
    omega

/-- a new healthy instance of a type with unmet demand lowers the deficit -/
theorem deficit_create (types : List IType) (cs : List Ctr) (is : List Inst) (t : IType)
    (ht : t ∈ types) (h : unallocReal is t < waiting cs t) :
    deficit types cs (is ++ [⟨t, .ok, .creating⟩]) < deficit types cs is := by
  unfold deficit
  apply sumBy_lt _ _ _ _ t ht
  · rw [unallocOk_snoc]
    have h1 := unallocOk_le_real is t
    have : b2n (Inst.unallocOk ⟨t, .ok, .creating⟩ t) = 1 := by
      simp [b2n, Inst.unallocOk, Inst.unallocReal]
    omega
  · intro t' _
    rw [unallocOk_snoc]
    omega

/-! ### the container and job components -/

theorem csum_mid (q : Bool) (pre post : List Ctr) (c : Ctr) :
    sumBy (fun c => crank q c.ph) (pre ++ c :: post) =
    sumBy (fun c => crank q c.ph) pre + crank q c.ph + sumBy (fun c => crank q c.ph) post := by
  simp only [sumBy_append, sumBy_cons]; omega

theorem isum_mid (f : Inst → Nat) (ipre ipost : List Inst) (i : Inst) :
    sumBy f (ipre ++ i :: ipost) = sumBy f ipre + f i + sumBy f ipost := by
  simp only [sumBy_append, sumBy_cons]; omega

/-! ### generic "one entity changed" lemmas -/

theorem Mu.lt_of_c {a b : Mu} (hf : a.f = b.f) (hq : a.q = b.q) (hr : a.r = b.r) (hc : a.c < b.c) : a.lt b := by
  unfold Mu.lt; omega

theorem Mu.lt_of_d {a b : Mu} (hf : a.f = b.f) (hq : a.q = b.q) (hr : a.r = b.r) (hc : a.c = b.c)
    (hd : a.d < b.d) : a.lt b := by
  unfold Mu.lt; omega

theorem Mu.lt_of_i {a b : Mu} (hf : a.f = b.f) (hq : a.q = b.q) (hr : a.r = b.r) (hc : a.c = b.c)
    (hd : a.d ≤ b.d) (hi : a.i < b.i) : a.lt b := by
  unfold Mu.lt; omega

theorem Mu.lt_of_f {a b : Mu} (hf : a.f < b.f) : a.lt b := Or.inl hf

/-- only one free container changed, to a lower rank -/
theorem lt_ctr (s : LState) (pre post : List Ctr) (c c' : Ctr) (h1 : s.ctrs = pre ++ c :: post)
    (h : crank s.atQuota c'.ph < crank s.atQuota c.ph) :
    (mu { s with ctrs := pre ++ c' :: post }).lt (mu s) := by
  refine Mu.lt_of_c (by rfl) (by rfl) (by rfl) ?_
  show sumBy (fun c => crank s.atQuota c.ph) (pre ++ c' :: post) + sumBy Inst.crank s.insts <
    sumBy (fun c => crank s.atQuota c.ph) s.ctrs + sumBy Inst.crank s.insts
  rw [h1, csum_mid, csum_mid]
  omega

/-- at quota: only one free container changed, rank unchanged -/
theorem eq_ctr_q (s : LState) (pre post : List Ctr) (c c' : Ctr) (h1 : s.ctrs = pre ++ c :: post)
    (hq : s.atQuota = true) (h : crank true c'.ph = crank true c.ph) :
    mu { s with ctrs := pre ++ c' :: post } = mu s := by
  unfold mu
  simp only [h1, csum_mid, hq, h, Bool.true_or, if_true]

/-- only one instance changed: job rank not higher; and either lower, or the deficit not higher and
the instance rank lower -/
theorem lt_inst' (s : LState) (ipre ipost : List Inst) (i i' : Inst) (h1 : s.insts = ipre ++ i :: ipost)
    (hc : i'.crank ≤ i.crank)
    (h : i'.crank < i.crank ∨
         ((s.atQuota = false → s.recovering = false →
            deficit s.types s.ctrs (ipre ++ i' :: ipost) ≤ deficit s.types s.ctrs (ipre ++ i :: ipost)) ∧
          i'.irank < i.irank)) :
    (mu { s with insts := ipre ++ i' :: ipost }).lt (mu s) := by
  have hcs : (mu { s with insts := ipre ++ i' :: ipost }).c + i.crank = (mu s).c + i'.crank := by
    show sumBy (fun c => crank s.atQuota c.ph) s.ctrs + sumBy Inst.crank (ipre ++ i' :: ipost) + i.crank =
      sumBy (fun c => crank s.atQuota c.ph) s.ctrs + sumBy Inst.crank s.insts + i'.crank
    rw [h1, isum_mid, isum_mid]
    omega
  rcases h with h | ⟨hd, hi⟩
  · exact Mu.lt_of_c (by rfl) (by rfl) (by rfl) (by omega)
  · rcases Nat.lt_or_ge i'.crank i.crank with h | h
    · exact Mu.lt_of_c (by rfl) (by rfl) (by rfl) (by omega)
    · refine Mu.lt_of_i (by rfl) (by rfl) (by rfl) (by omega) ?_ ?_
      · show (if (s.atQuota || s.recovering) = true then 0 else deficit s.types s.ctrs (ipre ++ i' :: ipost)) ≤
          (if (s.atQuota || s.recovering) = true then 0 else deficit s.types s.ctrs s.insts)
        split
        · exact Nat.le_refl _
        · rename_i hn
          simp only [Bool.or_eq_true, not_or, Bool.not_eq_true] at hn
          rw [h1]
          exact hd hn.1 hn.2
      · show sumBy Inst.irank (ipre ++ i' :: ipost) < sumBy Inst.irank s.insts
        rw [h1, isum_mid, isum_mid]
        omega

theorem lt_inst (s : LState) (ipre ipost : List Inst) (i i' : Inst) (h1 : s.insts = ipre ++ i :: ipost)
    (hc : i'.crank ≤ i.crank)
    (h : i'.crank < i.crank ∨ ((∀ t, i.unallocOk t = true → i'.unallocOk t = true) ∧ i'.irank < i.irank)) :
    (mu { s with insts := ipre ++ i' :: ipost }).lt (mu s) := by
  apply lt_inst' s ipre ipost i i' h1 hc
  rcases h with h | ⟨hu, hi⟩
  · exact Or.inl h
  · exact Or.inr ⟨fun _ _ => deficit_inst_le _ _ _ _ _ _ hu, hi⟩

/-- the container component as a whole went down (nothing above it changed) -/
theorem lt_c (s t : LState) (hf : t.faults = s.faults) (hq : t.atQuota = s.atQuota) (hr : t.recovering = s.recovering)
    (h : (mu t).c < (mu s).c) : (mu t).lt (mu s) := by
  apply Mu.lt_of_c hf _ _ h
  · show (if t.atQuota = true then 1 else 0) = (if s.atQuota = true then 1 else 0)
    rw [hq]
  · show (if t.recovering = true then 1 else 0) = (if s.recovering = true then 1 else 0)
    rw [hr]

/-- a fault step: the budget went down -/
theorem lt_f (s t : LState) (h0 : 0 < s.faults) (hf : t.faults = s.faults - 1) : (mu t).lt (mu s) := by
  apply Mu.lt_of_f
  show t.faults < s.faults
  omega

end ArvVerif.C15
