/-
C09 helper lemmas, part 19: from the mixed fold to whole texts.
-/
import ArvVerif.Proofs.C09_Mixed
namespace ArvVerif.C09

open ArvVerif.C10 (bSpace bNL bSlash bColon bDot splitOn joinWith FsTree fsLine fsLines mapOpt)

theorem fsLoad_unlines (ls : List Bytes) (h : ∀ l ∈ ls, bNL ∉ l) : C10.fsLoad (unlines ls) = fsLines ls ⟨[], []⟩ := by
  unfold C10.fsLoad
  simp only [splitOn_unlines ls h]
  rw [if_neg (by simp)]
  simp

theorem parseSpec_unlines (ls : List Bytes) (h : ∀ l ∈ ls, bNL ∉ l) : C10.parseSpec (unlines ls) = mapOpt C10.specLine ls := by
  unfold C10.parseSpec
  by_cases he : unlines ls = []
  · rw [if_pos he]
    cases ls with
    | nil => rfl
    | cons l rest => simp [unlines] at he
  · rw [if_neg he]
    simp only [splitOn_unlines ls h]
    rw [if_pos (by simp)]
    simp

theorem markersOf_shape : ∀ (ls : List Bytes) (L : List Line9), mapOpt specLine9 ls = some L →
    ∀ n ∈ markersOf L, C10.specStreamNameOk n = true
  | [], L, h, n, hn => by simp [mapOpt] at h; subst h; cases hn
  | l :: ls, L, h, n, hn => by
    obtain ⟨x, xs, h1, h2, rfl⟩ := C10.mapOpt_cons_some specLine9 l ls L h
    unfold specLine9 at h1
    cases hs : C10.specLine l with
    | some s =>
      rw [hs] at h1
      simp only [Option.some.injEq] at h1
      subst h1
      simp only [markersOf] at hn
      exact markersOf_shape ls xs h2 n hn
    | none =>
      rw [hs] at h1
      simp only [Option.map_eq_some_iff] at h1
      obtain ⟨m, hm, rfl⟩ := h1
      simp only [markersOf, List.mem_cons] at hn
      rcases hn with rfl | hn
      · unfold markerLine? at hm
        split at hm
        · split at hm
          · split at hm
            · split at hm
              · next hok => simp only [Option.some.injEq] at hm; subst hm; exact hok.1
              · cases hm
            · cases hm
          · cases hm
        · cases hm
      · exact markersOf_shape ls xs h2 n hn

theorem mem_markerDirs : ∀ (L : List Line9) (k : List Bytes), k ∈ markerDirs L →
    ∃ n ∈ markersOf L, k ∈ dirPrefixes (compsOfName n)
  | [], k, h => by cases h
  | Line9.stream _ :: rest, k, h => by
    simp only [markerDirs] at h
    obtain ⟨n, hn, hk⟩ := mem_markerDirs rest k h
    exact ⟨n, by simpa [markersOf] using hn, hk⟩
  | Line9.marker m :: rest, k, h => by
    simp only [markerDirs, List.mem_append] at h
    rcases h with h | h
    · exact ⟨m, by simp [markersOf], h⟩
    · obtain ⟨n, hn, hk⟩ := mem_markerDirs rest k h
      exact ⟨n, by simp [markersOf, hn], hk⟩

/-- **`loadManifest` on any text of the C09 grammar** -/
theorem fsLoad_mixed (txt : Bytes) (L : List Line9) (hvalid : parse9 txt = some L)
    (hfit : ∀ s ∈ streamsOf L, C10.FitsFs s) (htree : C10.TreeConsistent (streamsOf L))
    (hmark : ∀ p ∈ C10.pathsOf (streamsOf L), ∀ n ∈ markersOf L, p ≠ n ∧ C10.isDirPrefix p n = false) :
    ∃ tr tr1, C10.fsLoad txt = some tr ∧ C10.FsInv (C10.manifestContribs (streamsOf L)) tr1 ∧
      tr.files = tr1.files ∧ ∀ d, d ∈ tr.dirs ↔ (d ∈ tr1.dirs ∨ d ∈ markerDirs L) := by
  -- the lines of the text
  obtain ⟨lines, hlines, hnl, hload⟩ : ∃ lines, mapOpt specLine9 lines = some L ∧ (∀ l ∈ lines, bNL ∉ l) ∧
      C10.fsLoad txt = fsLines lines ⟨[], []⟩ := by
    unfold parse9 at hvalid
    by_cases h0 : txt = []
    · rw [if_pos h0] at hvalid
      cases hvalid
      exact ⟨[], rfl, fun l hl => (by cases hl), (by subst h0; rfl)⟩
    · rw [if_neg h0] at hvalid
      simp only [] at hvalid
      split at hvalid
      · next hl =>
        refine ⟨(splitOn bNL txt).dropLast, hvalid, ?_, ?_⟩
        · intro l hl'
          exact C10.splitOn_no_sep bNL txt l ((List.dropLast_sublist _).subset hl')
        · unfold C10.fsLoad
          simp only [hl, ne_eq, not_true_eq_false, if_false]
      · cases hvalid
  have hnl1 : ∀ l ∈ lines.filter keepLine, bNL ∉ l := fun l hl => hnl l (List.mem_filter.mp hl).1
  have hspec : C10.parseSpec (unlines (lines.filter keepLine)) = some (streamsOf L) := by
    rw [parseSpec_unlines _ hnl1]; exact mapOpt_filter_streams lines L hlines
  obtain ⟨tr1, hload1, hinv⟩ := fsLoad_inv _ (streamsOf L) hspec hfit htree
  rw [fsLoad_unlines _ hnl1] at hload1
  -- no file key is a marker directory
  have hX : ∀ k ∈ keysOf tr1, k ∉ [] ++ markerDirs L := by
    intro k hk hx
    simp only [List.nil_append] at hx
    obtain ⟨e, he, rfl⟩ := List.mem_map.mp hk
    obtain ⟨hko, hin, _⟩ := hinv.files e he
    have hp : C10.pathOfKey e.1 ∈ C10.pathsOf (streamsOf L) := by
      simp only [C10.manifestContribs, C10.contribsOf, List.map_flatMap, List.map_map, List.mem_flatMap, List.mem_map,
        Function.comp] at hin
      obtain ⟨s, hs, ft, hft, hq⟩ := hin
      rw [← hq]
      unfold C10.pathsOf
      rw [List.mem_eraseDups, List.mem_flatMap]
      exact ⟨s, hs, List.mem_map.mpr ⟨ft, hft, rfl⟩⟩
    obtain ⟨n, hn, hkn⟩ := mem_markerDirs L e.1 hx
    obtain ⟨hne, hpre⟩ := mem_dirPrefixes.mp hkn
    obtain ⟨cs, _, hnj, hcns⟩ := C10.streamName_shape n (markersOf_shape lines L hlines n hn)
    have hcomps : compsOfName n = cs := by
      unfold compsOfName
      rw [hnj, C10.splitOn_joinWith bSlash _ (by simp) (by
        intro p hp'
        rcases List.mem_cons.mp hp' with rfl | hp'
        · decide
        · exact hcns p hp')]
      rfl
    rw [hcomps] at hpre
    obtain ⟨rest, hrest⟩ := hpre
    obtain ⟨h1, h2⟩ := hmark _ hp n hn
    cases rest with
    | nil =>
      apply h1
      rw [hnj, ← hrest]; simp [C10.pathOfKey]
    | cons x r =>
      have := C10.isDirPrefix_of_key e.1 x r
      rw [hrest] at this
      have hn' : C10.pathOfKey cs = n := by rw [hnj]; rfl
      rw [hn'] at this
      rw [this] at h2
      cases h2
  obtain ⟨tr, e1, e2⟩ := fsLines_mixed lines L [] ⟨[], []⟩ ⟨[], []⟩ tr1 hlines (Sim.refl _) hload1 hX
  refine ⟨tr, tr1, by rw [hload]; exact e1, hinv, e2.1, ?_⟩
  intro d
  have := e2.2 d
  simpa using this

end ArvVerif.C09
