/-
C08 treeness, part 4: every operation of `step` preserves `TreeInv`.
-/
import ArvVerif.Proofs.C08_Tree3
namespace ArvVerif.C08

section
variable {F P W : Type}

/-- the state has the same directory table and entries -/
def SameTree (a b : FS F P W) : Prop := a.ents = b.ents ∧ a.dirs = b.dirs

theorem SameTree.refl (s : FS F P W) : SameTree s s := ⟨rfl, rfl⟩
theorem SameTree.trans {a b c : FS F P W} (h1 : SameTree a b) (h2 : SameTree b c) : SameTree a c :=
  ⟨h1.1.trans h2.1, h1.2.trans h2.2⟩
theorem SameTree.tree {a b : FS F P W} (h : SameTree a b) (hb : TreeInv b) : TreeInv a := hb.of_same h.1 h.2

theorem setFile_same (s : FS F P W) (f : Nat) (c : F) : SameTree (setFile s f c) s := setFile_tree s f c
theorem setHandle_same (s : FS F P W) (h : Nat) (v : Handle P) : SameTree (setHandle s h v) s := ⟨rfl, rfl⟩

theorem handleRead_same (impl : FileImpl F P W) (s : FS F P W) (h : Nat) (hd : Handle P) (n : Nat) :
    SameTree (handleRead impl s h hd n).1 s := by
  unfold handleRead
  split
  · exact SameTree.refl s
  · cases hd.node with
    | dir d => exact setHandle_same ..
    | file f =>
      dsimp only
      cases s.files[f]? with
      | none => exact SameTree.refl s
      | some nc =>
        dsimp only
        cases impl.read s.world nc.2 hd.ptr n with
        | error e => exact SameTree.refl s
        | ok r => exact setHandle_same ..

theorem readLoop_same (impl : FileImpl F P W) : ∀ (fuel : Nat) (s : FS F P W) (h want : Nat) (acc : Bytes),
    SameTree (readLoop impl fuel s h want acc).1 s := by
  intro fuel
  induction fuel with
  | zero => intro s h want acc; exact SameTree.refl s
  | succ fuel ih =>
    intro s h want acc
    unfold readLoop
    split
    · exact SameTree.refl s
    · cases getHandle s h with
      | none => exact SameTree.refl s
      | some hd =>
        dsimp only
        have hr := handleRead_same impl s h hd (want - acc.length)
        generalize handleRead impl s h hd (want - acc.length) = r at hr
        obtain ⟨s', d, e⟩ := r
        dsimp only at hr ⊢
        split
        · exact (ih s' h want (acc ++ d)).trans hr
        · exact hr

theorem fold_setFile_same : ∀ (L : List (Nat × F)) (s : FS F P W),
    SameTree (L.foldl (fun s (fc : Nat × F) => setFile s fc.1 fc.2) s) s := by
  intro L
  induction L with
  | nil => intro s; exact SameTree.refl s
  | cons x rest ih => intro s; simp only [List.foldl_cons]; exact (ih _).trans (setFile_same ..)

theorem flushDir_same (impl : FileImpl F P W) (short : Bool) (s : FS F P W) (d : Nat) :
    SameTree (flushDir impl short s d) s := by
  unfold flushDir
  exact (fold_setFile_same _ _).trans ⟨rfl, rfl⟩

theorem fold_flushDir_same (impl : FileImpl F P W) (short : Bool) : ∀ (ds : List Nat) (s : FS F P W),
    SameTree (ds.foldl (flushDir impl short) s) s := by
  intro ds
  induction ds with
  | nil => intro s; exact SameTree.refl s
  | cons d rest ih => intro s; simp only [List.foldl_cons]; exact (ih _).trans (flushDir_same ..)

theorem doSync_same (impl : FileImpl F P W) (s : FS F P W) : SameTree (doSync impl s).1 s :=
  fold_flushDir_same impl true _ s

theorem doFlush_same (impl : FileImpl F P W) (s : FS F P W) (path : String) (short : Bool) :
    SameTree (doFlush impl s path short).1 s := by
  unfold doFlush
  cases walk s.ents s.dirs (Node.dir 0) (splitPath path) with
  | error e => exact SameTree.refl s
  | ok n =>
    cases n with
    | file f => exact SameTree.refl s
    | dir d => exact fold_flushDir_same impl short _ s

theorem doOpen_tree (impl : FileImpl F P W) {s : FS F P W} (h : TreeInv s) (hn : Nat) (path : String) (acc : Nat)
    (app cre excl trunc sync dirPerm : Bool) :
    TreeInv (doOpen impl s hn path acc app cre excl trunc sync dirPerm).1 := by
  unfold doOpen
  have ht := openFile_tree impl h path acc app cre excl trunc sync dirPerm
  generalize openFile impl s path acc app cre excl trunc sync dirPerm = r at ht
  obtain ⟨s', res⟩ := r
  cases res with
  | error e => exact ht
  | ok hd => exact (setHandle_same s' hn hd).tree ht

/-- **Treeness is an invariant of every operation.** -/
theorem step_tree (impl : FileImpl F P W) {s : FS F P W} (h : TreeInv s) (op : Op) : TreeInv (step impl s op).1 := by
  cases op with
  | openF hn path acc app cre excl trunc sync dirPerm => exact doOpen_tree impl h hn path acc app cre excl trunc sync dirPerm
  | create hn path => exact doOpen_tree impl h hn path 2 false true false true false false
  | mkdir path => exact doMkdir_tree impl h path
  | rename a b => exact doRename_tree h a b
  | remove path => exact doRemove_tree h path false
  | removeAll path => exact doRemove_tree h path true
  | flush path short => exact (doFlush_same impl s path short).tree h
  | sync => exact (doSync_same impl s).tree h
  | hsync hn =>
    simp only [step]
    cases getHandle s hn with
    | none => exact h
    | some _ => exact (doSync_same impl s).tree h
  | write hn data =>
    simp only [step]
    cases getHandle s hn with
    | none => exact h
    | some hd =>
      dsimp only
      split
      · exact h
      · cases hd.node with
        | dir d => exact (setHandle_same ..).tree h
        | file f =>
          dsimp only
          cases s.files[f]? with
          | none => exact h
          | some nc =>
            dsimp only
            cases impl.write s.world nc.2 hd.ptr hd.app data with
            | error e => exact h
            | ok r =>
              obtain ⟨w, c', p, n⟩ := r
              exact ((setHandle_same ..).trans ((setFile_same ..).trans
                (⟨rfl, rfl⟩ : SameTree ({ s with world := w } : FS F P W) s))).tree h
  | read hn n =>
    simp only [step]
    cases getHandle s hn with
    | none => exact h
    | some hd => exact (handleRead_same impl s hn hd n).tree h
  | readn hn n =>
    simp only [step]
    cases getHandle s hn with
    | none => exact h
    | some hd => exact (readLoop_same impl (n + 2) s hn n []).tree h
  | seek hn off whence =>
    simp only [step]
    cases getHandle s hn with
    | none => exact h
    | some hd =>
      dsimp only
      exact TreeInv.ite h ((setHandle_same ..).tree h)
  | trunc hn size =>
    simp only [step]
    cases getHandle s hn with
    | none => exact h
    | some hd =>
      dsimp only
      cases hd.node with
      | dir d => exact h
      | file f =>
        dsimp only
        cases s.files[f]? with
        | none => exact h
        | some nc =>
          dsimp only
          cases impl.trunc nc.2 size with
          | error e => exact h
          | ok c' => exact (setFile_same ..).tree h
  | close hn =>
    simp only [step]
    cases getHandle s hn with
    | none => exact h
    | some _ => exact h.of_same rfl rfl
  | hstat hn =>
    simp only [step]
    cases getHandle s hn <;> exact h
  | hreaddir hn =>
    simp only [step]
    cases getHandle s hn with
    | none => exact h
    | some hd => dsimp only; cases hd.node <;> exact h
  | stat path =>
    simp only [step]
    cases walk s.ents s.dirs (Node.dir 0) (splitPath path) <;> exact h
  | readdir path =>
    simp only [step]
    generalize openFile impl s path 0 false false false false false false = r
    obtain ⟨s', res⟩ := r
    cases res with
    | error e => exact h
    | ok hd => dsimp only; cases hd.node <;> exact h

theorem run_tree (impl : FileImpl F P W) : ∀ (ops : List Op) (s : FS F P W), TreeInv s → TreeInv (run impl s ops).1 := by
  intro ops
  induction ops with
  | nil => intro s h; exact h
  | cons op rest ih => intro s h; simp only [run]; exact ih _ (step_tree impl h op)

theorem TreeInv.init (w : W) : TreeInv (FS.init w : FS F P W) :=
  ⟨DirsOK.init, fun _ h => by cases h⟩

end
end ArvVerif.C08
