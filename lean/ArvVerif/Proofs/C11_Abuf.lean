/-
C11 proofs, part 6: the asyncbuf machine. Every reader, whenever it was made and however its reads
interleave with the writer, receives a prefix of what was written, and once it is given an error it
has received everything and the error is the one the buffer was closed with.
-/
import ArvVerif.Model.C11_Abuf
namespace ArvVerif.C11

theorem take_length_take (n : Nat) (X : List Nat) : X.take (X.take n).length = X.take n := by
  rw [List.length_take]
  by_cases h : n ≤ X.length
  · rw [Nat.min_eq_left h]
  · rw [Nat.min_eq_right (by omega), List.take_length, List.take_of_length_le (by omega)]

theorem take_add_chunk (l : List Nat) (a n : Nat) :
    l.take (a + ((l.drop a).take n).length) = l.take a ++ (l.drop a).take n := by
  rw [List.take_add, take_length_take]

/-- Holds after any sequence of calls: a reader has received exactly the first `off` bytes. -/
def RInv (b : ABuf) : Prop := ∀ r ∈ b.readers, r.off ≤ b.data.length ∧ r.got = b.data.take r.off

theorem mem_set_cases {α} (l : List α) (i : Nat) (a x : α) (h : x ∈ l.set i a) : x = a ∨ x ∈ l := by
  rcases List.mem_or_eq_of_mem_set h with h | h
  · exact Or.inr h
  · exact Or.inl h

theorem astep_rinv (b : ABuf) (op : AOp) (h : RInv b) : RInv (AStep b op).1 := by
  cases op with
  | write p =>
    simp only [AStep]
    split
    · exact h
    · intro r hr
      obtain ⟨h1, h2⟩ := h r hr
      simp only [List.length_append]
      refine ⟨by omega, ?_⟩
      rw [h2, List.take_append_of_le_length h1]
  | close e => exact h
  | newReader =>
    intro r hr
    simp only [AStep, List.mem_append, List.mem_singleton] at hr
    rcases hr with hr | hr
    · exact h r hr
    · subst hr; exact ⟨Nat.zero_le _, rfl⟩
  | read i n =>
    simp only [AStep]
    split
    · exact h
    · rename_i r0 hr0
      have hm : r0 ∈ b.readers := List.mem_of_getElem? hr0
      obtain ⟨h1, h2⟩ := h r0 hm
      split
      · intro r hr
        rcases mem_set_cases _ _ _ _ hr with hr | hr
        · subst hr
          simp only []
          refine ⟨?_, ?_⟩
          · rw [List.length_take, List.length_drop]; omega
          · rw [take_add_chunk, h2]
        · exact h r hr
      · split
        · intro r hr
          rcases mem_set_cases _ _ _ _ hr with hr | hr
          · subst hr; exact ⟨h1, h2⟩
          · exact h r hr
        · split <;> exact h

/-- The rest of the invariant, for a run whose writer writes `total` (in pieces) and then closes
with `fe`. -/
structure AInv (total : List Nat) (fe : AErr) (b : ABuf) : Prop where
  rinv : RInv b
  pre : b.data <+: total
  closedFull : ∀ e, b.err = some e → e = fe ∧ b.data = total
  ended : ∀ r ∈ b.readers, ∀ e, r.ended = some e → e = fe ∧ r.got = total ∧ b.err ≠ none

/-- reader-side calls keep the invariant -/
theorem ainv_newReader (total : List Nat) (fe : AErr) (b : ABuf) (h : AInv total fe b) :
    AInv total fe (AStep b .newReader).1 := by
  refine ⟨astep_rinv b .newReader h.rinv, h.pre, h.closedFull, ?_⟩
  intro r hr e he
  simp only [AStep, List.mem_append, List.mem_singleton] at hr
  rcases hr with hr | hr
  · exact h.ended r hr e he
  · subst hr; cases he

theorem ainv_read (total : List Nat) (fe : AErr) (b : ABuf) (i n : Nat) (h : AInv total fe b) :
    AInv total fe (AStep b (.read i n)).1 := by
  have hr' := astep_rinv b (.read i n) h.rinv
  simp only [AStep] at hr' ⊢
  split
  · exact h
  · rename_i r0 hr0
    have hm : r0 ∈ b.readers := List.mem_of_getElem? hr0
    obtain ⟨h1, h2⟩ := h.rinv r0 hm
    split
    · rename_i hlt
      simp only [hr0, hlt, if_true] at hr'
      refine ⟨hr', h.pre, h.closedFull, ?_⟩
      intro r hr e he
      rcases mem_set_cases _ _ _ _ hr with hr | hr
      · subst hr
        simp only [] at he
        -- a reader that was given an error has everything already: no more bytes to read
        obtain ⟨_, hg, _⟩ := h.ended r0 hm e he
        exfalso
        have hl1 : r0.got.length = total.length := by rw [hg]
        have hl2 : r0.got.length = min r0.off b.data.length := by rw [h2, List.length_take]
        have hl3 : b.data.length ≤ total.length := h.pre.length_le
        omega
      · exact h.ended r hr e he
    · rename_i hge
      split
      · rename_i e0 he0
        simp only [hr0, hge, if_false, he0] at hr'
        refine ⟨hr', h.pre, h.closedFull, ?_⟩
        obtain ⟨hfe, hdata⟩ := h.closedFull e0 he0
        intro r hr e he
        rcases mem_set_cases _ _ _ _ hr with hr | hr
        · subst hr
          simp only [Option.some.injEq] at he
          have hgot : r0.got = total := by
            rw [h2, List.take_of_length_le (by omega), hdata]
          refine ⟨?_, hgot, by rw [he0]; simp⟩
          cases hre : r0.ended with
          | none => rw [hre] at he; simp only [Option.getD_none] at he; rw [← he]; exact hfe
          | some e1 =>
            rw [hre] at he; simp only [Option.getD_some] at he
            rw [← he]; exact (h.ended r0 hm e1 hre).1
        · exact h.ended r hr e he
      · split <;> exact h

/-- the writer appends a piece that keeps the data inside `total` -/
theorem ainv_write (total : List Nat) (fe : AErr) (b : ABuf) (p : List Nat) (h : AInv total fe b)
    (hopen : b.err = none) (hp : b.data ++ p <+: total) :
    AInv total fe (AStep b (.write p)).1 := by
  have hr' := astep_rinv b (.write p) h.rinv
  simp only [AStep] at hr' ⊢
  simp only [hopen] at hr' ⊢
  refine ⟨hr', hp, ?_, ?_⟩
  · intro e he; cases he
  · intro r hr e he
    exact absurd hopen (h.ended r hr e he).2.2

/-- the writer closes after having written everything -/
theorem ainv_close (total : List Nat) (e : Option AErr) (b : ABuf) (h : AInv total (e.getD .eof) b)
    (hopen : b.err = none) (hfull : b.data = total) :
    AInv total (e.getD .eof) (AStep b (.close e)).1 := by
  refine ⟨h.rinv, h.pre, ?_, ?_⟩
  · intro e' he'
    simp only [AStep, Option.some.injEq] at he'
    exact ⟨he'.symm, hfull⟩
  · intro r hr e' he'
    exact absurd hopen (h.ended r hr e' he').2.2

/-- the state of the whole system: the writer has done the first `j` writes of its program, or all
of it including the close -/
def SysInv (init : List Nat) (chunks : List (List Nat)) (e : Option AErr) (b : ABuf) (prog : List AOp) :
    Prop :=
  AInv (init ++ chunks.flatten) (e.getD .eof) b ∧
  ((∃ j, j ≤ chunks.length ∧ prog = (chunks.drop j).map AOp.write ++ [AOp.close e] ∧
      b.data = init ++ (chunks.take j).flatten ∧ b.err = none) ∨
   (prog = [] ∧ b.err ≠ none))

theorem sysInv_init (init : List Nat) (chunks : List (List Nat)) (e : Option AErr) :
    SysInv init chunks e (ABuf.new init) (copyProg chunks e) := by
  refine ⟨⟨?_, ?_, ?_, ?_⟩, Or.inl ⟨0, Nat.zero_le _, rfl, by simp [ABuf.new], rfl⟩⟩
  · intro r hr; cases hr
  · exact List.prefix_append _ _
  · intro e' he'; cases he'
  · intro r hr; cases hr

theorem flatten_take_succ (chunks : List (List Nat)) (j : Nat) (hj : j < chunks.length) :
    (chunks.take (j + 1)).flatten = (chunks.take j).flatten ++ chunks[j] := by
  rw [← List.take_append_getElem hj, List.flatten_append]
  simp

theorem flatten_take_prefix (chunks : List (List Nat)) (j : Nat) :
    (chunks.take j).flatten <+: chunks.flatten := by
  have h := List.take_append_drop j chunks
  have : chunks.flatten = (chunks.take j).flatten ++ (chunks.drop j).flatten := by
    rw [← List.flatten_append, h]
  rw [this]
  exact List.prefix_append _ _

theorem runSys_inv (init : List Nat) (chunks : List (List Nat)) (e : Option AErr)
    (sched : List Sched) (b : ABuf) (prog : List AOp) (h : SysInv init chunks e b prog) :
    SysInv init chunks e (runSys b prog sched).1 (runSys b prog sched).2 := by
  induction sched generalizing b prog with
  | nil => exact h
  | cons s rest ih =>
    cases s with
    | newReader =>
      apply ih
      refine ⟨ainv_newReader _ _ b h.1, ?_⟩
      rcases h.2 with ⟨j, h1, h2, h3, h4⟩ | ⟨h1, h2⟩
      · exact Or.inl ⟨j, h1, h2, h3, h4⟩
      · exact Or.inr ⟨h1, h2⟩
    | read i n =>
      apply ih
      have hd : (AStep b (.read i n)).1.data = b.data ∧ (AStep b (.read i n)).1.err = b.err := by
        simp only [AStep]
        split
        · exact ⟨rfl, rfl⟩
        · split
          · exact ⟨rfl, rfl⟩
          · split
            · exact ⟨rfl, rfl⟩
            · split <;> exact ⟨rfl, rfl⟩
      refine ⟨ainv_read _ _ b i n h.1, ?_⟩
      rw [hd.1, hd.2]
      exact h.2
    | writer =>
      rcases h.2 with ⟨j, hj, hprog, hdata, herr⟩ | ⟨hprog, herr⟩
      · by_cases hlt : j < chunks.length
        · -- next call: Write(chunks[j])
          have hdrop : chunks.drop j = chunks[j] :: chunks.drop (j + 1) := List.drop_eq_getElem_cons hlt
          rw [hprog, hdrop]
          simp only [List.map_cons, List.cons_append, runSys]
          apply ih
          have hnew : b.data ++ chunks[j] = init ++ (chunks.take (j + 1)).flatten := by
            rw [hdata, flatten_take_succ chunks j hlt, List.append_assoc]
          refine ⟨ainv_write _ _ b _ h.1 herr ?_, Or.inl ⟨j + 1, hlt, rfl, ?_, ?_⟩⟩
          · rw [hnew]
            exact (List.prefix_append_right_inj init).mpr (flatten_take_prefix chunks (j + 1))
          · simp only [AStep, herr]; exact hnew
          · simp only [AStep, herr]
        · -- next call: CloseWithError(e)
          have hj' : j = chunks.length := by omega
          have hdrop : chunks.drop j = [] := by rw [hj']; exact List.drop_length
          rw [hprog, hdrop]
          simp only [List.map_nil, List.nil_append, runSys]
          apply ih
          have hfull : b.data = init ++ chunks.flatten := by
            rw [hdata, hj', List.take_length]
          refine ⟨ainv_close _ e b h.1 herr hfull, Or.inr ⟨rfl, ?_⟩⟩
          simp [AStep]
      · rw [hprog]
        simp only [runSys]
        apply ih
        exact ⟨h.1, Or.inr ⟨rfl, herr⟩⟩

end ArvVerif.C11
