/-
C17 — the output collection as a flat map: `get`/`set`, and what `mkdirs` / `copyFiles` produce for
a plan whose directories come parent first and whose file destinations are new and distinct.
-/
import ArvVerif.Model.C17
namespace ArvVerif.C17

theorem Tree.get_nil (t : Tree) : t.get [] = some .dir := by simp [Tree.get]

theorem find_map_replace (t : Tree) (p q : Path) (e : Ent) (hq : q ≠ p) :
    (t.map fun x => if x.1 = p then (p, e) else x).find? (·.1 = q) = t.find? (·.1 = q) := by
  induction t with
  | nil => rfl
  | cons x xs ih =>
    simp only [List.map_cons, List.find?_cons]
    by_cases hx : x.1 = p
    · simp only [hx, if_true]
      have h1 : ¬ p = q := fun hh => hq hh.symm
      simp only [h1, decide_false]
      exact ih
    · simp only [hx, if_false]
      split
      · rfl
      · exact ih

theorem find_map_replace_self (t : Tree) (p : Path) (e : Ent) (hany : t.any (·.1 = p) = true) :
    ((t.map fun x => if x.1 = p then (p, e) else x).find? (·.1 = p)).map (·.2) = some e := by
  induction t with
  | nil => simp at hany
  | cons x xs ih =>
    simp only [List.map_cons, List.find?_cons]
    by_cases hx : x.1 = p
    · simp [hx]
    · simp only [hx, if_false, decide_false]
      simp only [List.any_cons, hx, decide_false, Bool.false_or] at hany
      exact ih hany

theorem Tree.get_set (t : Tree) (p q : Path) (e : Ent) (hp : p ≠ []) :
    (t.set p e).get q = if q = p then some e else t.get q := by
  unfold Tree.get
  by_cases hq0 : q = []
  · subst hq0
    have : ¬ [] = p := fun hh => hp hh.symm
    simp [this]
  · simp only [hq0, if_false]
    unfold Tree.set
    by_cases hqp : q = p
    · subst hqp
      simp only [if_true]
      split
      · rename_i hany; exact find_map_replace_self t q e hany
      · rename_i hany
        have hnone : t.find? (·.1 = q) = none := by
          rw [List.find?_eq_none]
          intro x hx
          simp only [Bool.not_eq_true, List.any_eq_false] at hany
          simpa using hany x hx
        simp [List.find?_append, hnone]
    · simp only [hqp, if_false]
      split
      · rw [find_map_replace t p q e hqp]
      · rw [List.find?_append]
        cases hf : t.find? (·.1 = q) with
        | some x => simp
        | none =>
          have : ¬ p = q := fun hh => hqp hh.symm
          simp [this]

/-! ### mkdirs -/

theorem mkdir_spec (t : Tree) (d : Path) (hd : d ≠ []) (hpar : t.get d.dropLast = some .dir)
    (hfree : t.get d = none ∨ t.get d = some .dir) :
    ∃ t', mkdir t d = some t' ∧ ∀ x, t'.get x = if x = d then some .dir else t.get x := by
  unfold mkdir
  rw [hpar]
  simp only
  rcases hfree with hf | hf
  · rw [hf]; exact ⟨_, rfl, fun x => Tree.get_set t d x .dir hd⟩
  · rw [hf]
    refine ⟨t, rfl, fun x => ?_⟩
    split
    · rename_i hx; rw [hx, hf]
    · rfl

/-- directories in creation order: each one's parent is the root, an earlier one, or a directory
that exists already -/
def ParentFirst (t : Tree) : List Path → List Path → Prop
  | _, [] => True
  | before, d :: ds =>
    d ≠ [] ∧ (d.dropLast ∈ before ∨ t.get d.dropLast = some .dir) ∧
    (t.get d = none ∨ t.get d = some .dir) ∧ ParentFirst t (before ++ [d]) ds

theorem mkdirs_spec : ∀ (ds : List Path) (before : List Path) (t0 t : Tree),
    ParentFirst t0 before ds →
    (∀ x, t.get x = if x ∈ before then some .dir else t0.get x) →
    ∃ t', mkdirs t ds = some t' ∧ ∀ x, t'.get x = if x ∈ before ++ ds then some .dir else t0.get x := by
  intro ds
  induction ds with
  | nil => intro before t0 t _ ht; exact ⟨t, rfl, by simpa using ht⟩
  | cons d ds ih =>
    intro before t0 t hpf ht
    obtain ⟨hne, hpar, hfree, hrest⟩ := hpf
    have hpar' : t.get d.dropLast = some .dir := by
      rw [ht]
      rcases hpar with hp | hp
      · simp [hp]
      · split
        · rfl
        · exact hp
    have hfree' : t.get d = none ∨ t.get d = some .dir := by
      rw [ht]
      split
      · exact Or.inr rfl
      · exact hfree
    obtain ⟨t1, h1, hg1⟩ := mkdir_spec t d hne hpar' hfree'
    have ht1 : ∀ x, t1.get x = if x ∈ before ++ [d] then some .dir else t0.get x := by
      intro x
      rw [hg1, ht]
      by_cases hx : x = d
      · simp [hx]
      · simp [hx]
    obtain ⟨t', h2, hg2⟩ := ih (before ++ [d]) t0 t1 hrest ht1
    refine ⟨t', ?_, ?_⟩
    · simp only [mkdirs, h1, Option.bind]; exact h2
    · intro x; rw [hg2]; simp [List.append_assoc]

/-! ### copyFiles -/

theorem copyFile_spec (t : Tree) (dst : Path) (c : Bytes) (hd : dst ≠ [])
    (hpar : t.get dst.dropLast = some .dir) (hfree : t.get dst = none) :
    ∃ t', copyFile t dst c = some t' ∧ ∀ x, t'.get x = if x = dst then some (.file c) else t.get x := by
  unfold copyFile
  rw [hpar]
  simp only
  rw [hfree]
  exact ⟨_, rfl, fun x => Tree.get_set t dst x _ hd⟩

/-- the content planned for the output path `x`, if any -/
def planned (h : Host) (fs : List (Path × Option Path)) (x : Path) : Option Bytes :=
  (fs.find? (·.1 = x)).map fun f => srcContent h f.2

theorem copyFiles_spec (h : Host) : ∀ (fs : List (Path × Option Path)) (t : Tree),
    (fs.map (·.1)).Nodup →
    (∀ f ∈ fs, f.1 ≠ [] ∧ t.get f.1.dropLast = some .dir ∧ t.get f.1 = none) →
    ∃ t', copyFiles h t fs = some t' ∧
      ∀ x, t'.get x = match planned h fs x with
        | some c => some (.file c)
        | none => t.get x := by
  intro fs
  induction fs with
  | nil => intro t _ _; exact ⟨t, rfl, fun x => by simp [planned]⟩
  | cons f fs ih =>
    intro t hnd hall
    obtain ⟨hne, hpar, hfree⟩ := hall f (List.mem_cons_self ..)
    obtain ⟨t1, h1, hg1⟩ := copyFile_spec t f.1 (srcContent h f.2) hne hpar hfree
    simp only [List.map_cons, List.nodup_cons] at hnd
    have hall1 : ∀ g ∈ fs, g.1 ≠ [] ∧ t1.get g.1.dropLast = some .dir ∧ t1.get g.1 = none := by
      intro g hg
      obtain ⟨gne, gpar, gfree⟩ := hall g (List.mem_cons_of_mem _ hg)
      have hgf : g.1 ≠ f.1 := by
        intro heq; exact hnd.1 (by rw [← heq]; exact List.mem_map.mpr ⟨g, hg, rfl⟩)
      refine ⟨gne, ?_, ?_⟩
      · rw [hg1]
        split
        · rename_i hx; rw [hx, hfree] at gpar; cases gpar
        · exact gpar
      · rw [hg1]; simp [hgf, gfree]
    obtain ⟨t', h2, hg2⟩ := ih t1 hnd.2 hall1
    refine ⟨t', ?_, ?_⟩
    · simp only [copyFiles, h1, Option.bind]; exact h2
    · intro x
      rw [hg2]
      unfold planned
      simp only [List.find?_cons]
      by_cases hx : f.1 = x
      · have hnone : fs.find? (·.1 = x) = none := by
          rw [List.find?_eq_none]
          intro g hg
          have : g.1 ≠ x := by
            intro heq; exact hnd.1 (by rw [hx, ← heq]; exact List.mem_map.mpr ⟨g, hg, rfl⟩)
          simpa using this
        simp [hx, hnone, hg1]
      · simp only [hx, decide_false]
        cases hfind : fs.find? (·.1 = x) with
        | some g => simp
        | none =>
          have : ¬ x = f.1 := fun hh => hx hh.symm
          simp [hg1, this]

/-! ### without any assumption on what is there already: what a *successful* run leaves -/

/-- `Mkdir` on a path that exists (as a file or a directory) changes nothing -/
theorem mkdirs_ok_spec : ∀ (ds : List Path) (t t' : Tree), (∀ d ∈ ds, d ≠ []) → mkdirs t ds = some t' →
    ∀ x, t'.get x = if x ∈ ds ∧ t.get x = none then some .dir else t.get x := by
  intro ds
  induction ds with
  | nil => intro t t' _ h x; simp [mkdirs] at h; subst h; simp
  | cons d ds ih =>
    intro t t' hne h x
    simp only [mkdirs] at h
    cases h1 : mkdir t d with
    | none => rw [h1] at h; cases h
    | some t1 =>
      rw [h1] at h
      simp only [Option.bind] at h
      have hd : d ≠ [] := hne d (List.mem_cons_self ..)
      have hg1 : ∀ y, t1.get y = if y = d ∧ t.get y = none then some .dir else t.get y := by
        intro y
        unfold mkdir at h1
        split at h1
        · split at h1
          · rename_i hnone
            cases h1
            rw [Tree.get_set t d y .dir hd]
            by_cases hy : y = d
            · subst hy; simp [hnone]
            · simp [hy]
          · rename_i e he
            cases h1
            by_cases hy : y = d
            · subst hy; simp [he]
            · simp [hy]
        · cases h1
      rw [ih t1 t' (fun z hz => hne z (List.mem_cons_of_mem _ hz)) h x, hg1 x]
      by_cases hxd : x = d
      · subst hxd
        by_cases hn : t.get x = none
        · simp [hn]
        · simp [hn]
      · simp [hxd]

/-- what `copyFile` leaves at the destination: the new bytes, followed by the tail of a longer file
that was there (no truncation); an existing directory stays (possible only for an empty source) -/
def overlay (old : Option Ent) (c : Bytes) : Option Ent :=
  match old with
  | none => some (.file c)
  | some (.file o) => some (.file (c ++ o.drop c.length))
  | some .dir => some .dir

theorem copyFile_ok_spec (t t' : Tree) (dst : Path) (c : Bytes) (hd : dst ≠ []) (h : copyFile t dst c = some t') :
    (∀ x, t'.get x = if x = dst then overlay (t.get dst) c else t.get x) ∧ (t.get dst = some .dir → c = []) := by
  unfold copyFile at h
  split at h
  · split at h
    · rename_i hnone
      cases h
      refine ⟨fun x => ?_, fun hh => by rw [hnone] at hh; cases hh⟩
      rw [Tree.get_set t dst x _ hd, hnone]; rfl
    · rename_i old hold
      cases h
      refine ⟨fun x => ?_, fun hh => by rw [hold] at hh; cases hh⟩
      rw [Tree.get_set t dst x _ hd, hold]; rfl
    · rename_i hdir
      split at h
      · rename_i hc
        cases h
        refine ⟨fun x => ?_, fun _ => hc⟩
        split
        · rename_i hx; rw [hx, hdir]; rfl
        · rfl
      · cases h
  · cases h

theorem copyFiles_ok_spec (h : Host) : ∀ (fs : List (Path × Option Path)) (t t' : Tree),
    (fs.map (·.1)).Nodup → (∀ f ∈ fs, f.1 ≠ []) → copyFiles h t fs = some t' →
    ∀ x, (t'.get x = match planned h fs x with
        | some c => overlay (t.get x) c
        | none => t.get x) ∧
      (∀ c, planned h fs x = some c → t.get x = some .dir → c = []) := by
  intro fs
  induction fs with
  | nil => intro t t' _ _ hc x; simp [copyFiles] at hc; subst hc; simp [planned]
  | cons f fs ih =>
    intro t t' hnd hne hc x
    simp only [copyFiles] at hc
    cases h1 : copyFile t f.1 (srcContent h f.2) with
    | none => rw [h1] at hc; cases hc
    | some t1 =>
      rw [h1] at hc
      simp only [Option.bind] at hc
      simp only [List.map_cons, List.nodup_cons] at hnd
      obtain ⟨hg1, hdir1⟩ := copyFile_ok_spec t t1 f.1 _ (hne f (List.mem_cons_self ..)) h1
      obtain ⟨hg2, hdir2⟩ := ih t1 t' hnd.2 (fun g hg => hne g (List.mem_cons_of_mem _ hg)) hc x
      unfold planned at hg2 hdir2 ⊢
      simp only [List.find?_cons]
      by_cases hx : f.1 = x
      · have hnone : fs.find? (·.1 = x) = none := by
          rw [List.find?_eq_none]
          intro g hg
          have : g.1 ≠ x := by
            intro heq; exact hnd.1 (by rw [hx, ← heq]; exact List.mem_map.mpr ⟨g, hg, rfl⟩)
          simpa using this
        rw [hnone] at hg2
        simp only [Option.map_none] at hg2
        simp only [hx, decide_true, Option.map_some]
        refine ⟨by rw [hg2, hg1]; simp [hx], ?_⟩
        intro c hc' hdir
        simp only [Option.some.injEq] at hc'
        rw [← hc']; exact hdir1 (by rw [hx]; exact hdir)
      · simp only [hx, decide_false]
        have hxf : ¬ x = f.1 := fun hh => hx hh.symm
        have ht1 : t1.get x = t.get x := by rw [hg1]; simp [hxf]
        rw [ht1] at hg2 hdir2
        exact ⟨hg2, hdir2⟩

end ArvVerif.C17
