/-
Helper lemmas for C18, legacy path (rewriteSignatures / SignedLocatorRe).
-/
import ArvVerif.Proofs.C18
namespace ArvVerif.C18

def Signed.sizeParts (p : Signed) : List Str :=
  match p.size with
  | some d => [d]
  | none => []

/-- the `+`-separated parts of a token that SignedLocatorRe accepts -/
def Signed.parts (p : Signed) : List Str :=
  (p.hash :: p.sizeParts) ++ p.before ++ p.sig :: p.after

structure Signed.WF (p : Signed) : Prop where
  hash : p.hash.length = 32 ∧ p.hash.all isXDigit = true
  size : ∀ d, p.size = some d → d ≠ [] ∧ d.all isDigit = true
  before : ∀ h ∈ p.before, isHintPart h = true
  sig : isSigPart p.sig = true
  after : ∀ h ∈ p.after, isHintPart h = true

theorem splitSize_spec (ps : List Str) :
    ps = (match (splitSize ps).1 with | some d => [d] | none => []) ++ (splitSize ps).2 ∧
    (∀ d, (splitSize ps).1 = some d → d ≠ [] ∧ d.all isDigit = true) := by
  cases ps with
  | nil => simp [splitSize]
  | cons p0 r =>
    by_cases hd : p0 ≠ [] ∧ p0.all isDigit = true
    · have : splitSize (p0 :: r) = (some p0, r) := by simp only [splitSize, if_pos hd]
      rw [this]
      refine ⟨by simp, ?_⟩
      intro d hd'; simp only [Option.some.injEq] at hd'; subst hd'; exact hd
    · have : splitSize (p0 :: r) = (none, p0 :: r) := by simp only [splitSize, if_neg hd]
      rw [this]
      simp

theorem parseHints_some (h : Str) (size : Option Str) (hs : List Str) (p : Signed)
    (hp : parseHints h size hs = some p) :
    p.hash = h ∧ p.size = size ∧ hs = p.before ++ p.sig :: p.after ∧
    (∀ x ∈ p.before, isHintPart x = true) ∧ isSigPart p.sig = true ∧ (∀ x ∈ p.after, isHintPart x = true) := by
  unfold parseHints at hp
  cases hdw : hs.dropWhile isHintPart with
  | nil => rw [hdw] at hp; simp at hp
  | cons sg after =>
    rw [hdw] at hp
    simp only at hp
    split at hp
    · rename_i hsig
      simp only [Bool.and_eq_true] at hsig
      simp only [Option.some.injEq] at hp
      subst hp
      refine ⟨rfl, rfl, ?_, ?_, hsig.1, ?_⟩
      · simp only; rw [← hdw, List.takeWhile_append_dropWhile]
      · intro x hx; exact List.all_eq_true.mp List.all_takeWhile x hx
      · intro x hx; exact List.all_eq_true.mp hsig.2 x hx
    · simp at hp

theorem parseSigned_some (t : Str) (p : Signed) (h : parseSigned t = some p) :
    splitOn '+' t = p.parts ∧ p.WF := by
  unfold parseSigned at h
  cases hs : splitOn '+' t with
  | nil => rw [hs] at h; simp at h
  | cons hh ps =>
    rw [hs] at h
    simp only at h
    split at h
    · rename_i hhash
      simp only [Bool.and_eq_true, beq_iff_eq] at hhash
      obtain ⟨h1, h2, h3, h4, h5, h6⟩ := parseHints_some _ _ _ _ h
      obtain ⟨hps, hsz⟩ := splitSize_spec ps
      refine ⟨?_, ⟨by rw [h1]; exact hhash, by rw [h2]; exact hsz, h4, h5, h6⟩⟩
      simp only [Signed.parts, Signed.sizeParts, h1, h2]
      rw [h3] at hps
      cases hsz' : (splitSize ps).1 with
      | none => rw [hsz'] at hps; simp only [List.nil_append] at hps; simp [hps]
      | some d => rw [hsz'] at hps; simp [hps]
    · simp at h

theorem isHintPart_head_ne_A (h : Str) (hh : isHintPart h = true) : h.head? ≠ some 'A' := by
  cases h with
  | nil => simp
  | cons c r =>
    simp only [isHintPart, Bool.and_eq_true, decide_eq_true_eq] at hh
    simp only [List.head?_cons, ne_eq, Option.some.injEq]
    intro e; subst e
    have := hh.1.1
    revert this; decide

theorem digits_head_ne_A (d : Str) (hd : d.all isDigit = true) : d.head? ≠ some 'A' := by
  cases d with
  | nil => simp
  | cons c r =>
    simp only [List.all_cons, Bool.and_eq_true] at hd
    simp only [List.head?_cons, ne_eq, Option.some.injEq]
    exact isDigit_ne_A c hd.1

theorem isSigPart_cons (s : Str) (h : isSigPart s = true) : ∃ r, s = 'A' :: r := by
  cases s with
  | nil => simp [isSigPart] at h
  | cons c r =>
    simp only [isSigPart, Bool.and_eq_true, beq_iff_eq, List.head?_cons, Option.some.injEq] at h
    exact ⟨r, by rw [h.1.1.1.2]⟩

theorem map_specHint_id (id : Str) (l : List Str) (h : ∀ x ∈ l, x.head? ≠ some 'A') :
    l.map (specHint id) = l := by
  induction l with
  | nil => rfl
  | cons a l ih =>
    simp only [List.map_cons, List.cons.injEq]
    exact ⟨specHint_of_head_ne id a (h a (by simp)), ih (fun x hx => h x (List.mem_cons_of_mem _ hx))⟩

/-- On a token that SignedLocatorRe accepts, the legacy `Fprintf` rewrite and the new
`strings.Replace` rewrite produce the same bytes. -/
theorem legacyOutTok_signed (id t : Str) (p : Signed) (h : parseSigned t = some p) :
    legacyOutTok id t = replaceSig id t := by
  obtain ⟨hparts, wf⟩ := parseSigned_some t p h
  rw [replaceSig_eq_hints, hparts]
  simp only [legacyOutTok, h, Signed.rewritten, Signed.parts, Signed.sizeParts]
  obtain ⟨r, hr⟩ := isSigPart_cons p.sig wf.sig
  have hb : p.before.map (specHint id) = p.before :=
    map_specHint_id id _ (fun x hx => isHintPart_head_ne_A x (wf.before x hx))
  have ha : p.after.map (specHint id) = p.after :=
    map_specHint_id id _ (fun x hx => isHintPart_head_ne_A x (wf.after x hx))
  have hsg : specHint id p.sig = ('R' :: id) ++ '-' :: p.sig.drop 1 := by
    rw [hr]; simp [specHint]
  cases hsz : p.size with
  | none =>
    simp only [List.cons_append, List.nil_append, mapTail, List.map_append, List.map_cons, hb, ha, hsg]
    simp
  | some d =>
    have hd : specHint id d = d := specHint_of_head_ne id d (digits_head_ne_A d (wf.size d hsz).2)
    simp only [List.cons_append, List.nil_append, mapTail, List.map_append, List.map_cons, hb, ha, hsg, hd]
    simp

theorem legacyOutTok_unsigned (id t : Str) (h : parseSigned t = none) : legacyOutTok id t = t := by
  simp [legacyOutTok, h]

/-- the scan loop, declaratively -/
theorem legacyScan_some (id : Str) (ls : List Str) (o hsh : Str) (h : legacyScan id ls = some (o, hsh)) :
    (∀ l ∈ ls, 3 ≤ (splitOn ' ' l).length) ∧
    o = ls.flatMap (fun l => lineOf (legacyOutTok id) (splitOn ' ' l)) ∧
    hsh = ls.flatMap (fun l => lineOf legacyHashTok (splitOn ' ' l)) := by
  induction ls generalizing o hsh with
  | nil => simp [legacyScan] at h; simp [h]
  | cons l rest ih =>
    simp only [legacyScan] at h
    split at h
    · simp at h
    · rename_i hlen
      cases hr : legacyScan id rest with
      | none => rw [hr] at h; simp at h
      | some oh =>
        obtain ⟨o', h'⟩ := oh
        rw [hr] at h
        simp only [Option.some.injEq, Prod.mk.injEq] at h
        obtain ⟨ih1, ih2, ih3⟩ := ih o' h' hr
        refine ⟨?_, ?_, ?_⟩
        · intro x hx
          rcases List.mem_cons.mp hx with rfl | hx
          · omega
          · exact ih1 x hx
        · rw [← h.1, ih2]; simp
        · rw [← h.2, ih3]; simp

theorem legacyScan_none (id : Str) (ls : List Str) (h : legacyScan id ls = none) :
    ∃ l ∈ ls, (splitOn ' ' l).length < 3 := by
  induction ls with
  | nil => simp [legacyScan] at h
  | cons l rest ih =>
    simp only [legacyScan] at h
    split at h
    · rename_i hlen; exact ⟨l, by simp, hlen⟩
    · cases hr : legacyScan id rest with
      | none =>
        obtain ⟨x, hx, hl⟩ := ih hr
        exact ⟨x, List.mem_cons_of_mem _ hx, hl⟩
      | some oh => rw [hr] at h; simp at h

theorem legacyFirst_mem (outs : List LegacyOutcome) (m : Str) (h : legacyFirst outs = some m) :
    LegacyOutcome.success m ∈ outs := by
  induction outs with
  | nil => simp [legacyFirst] at h
  | cons o rest ih =>
    cases o with
    | success m' => simp [legacyFirst] at h; simp [h]
    | http c => simp only [legacyFirst] at h; exact List.mem_cons_of_mem _ (ih h)
    | other => simp only [legacyFirst] at h; exact List.mem_cons_of_mem _ (ih h)

theorem legacyFirst_isSome_of_mem (outs : List LegacyOutcome) (m : Str)
    (h : LegacyOutcome.success m ∈ outs) : ∃ m', legacyFirst outs = some m' := by
  induction outs with
  | nil => simp at h
  | cons o rest ih =>
    cases o with
    | success m' => exact ⟨m', rfl⟩
    | http c =>
      simp only [legacyFirst]
      rcases List.mem_cons.mp h with h | h
      · cases h
      · exact ih h
    | other =>
      simp only [legacyFirst]
      rcases List.mem_cons.mp h with h | h
      · cases h
      · exact ih h

end ArvVerif.C18
