/-
C13 helper lemmas, part 10: the hierarchical locking rule excludes wait-for cycles, and the lock
acquisition scripts of Rename and Flush follow the rule on every tree.
-/
import ArvVerif.Model.C13_Lock
namespace ArvVerif.C13.Lock

/-- The rule, as a property of what an operation holds and waits for: every held lock is the first
lock or the child of a held lock; a lock it waits for is not held by it and — unless the operation
holds nothing yet — is the child of a held lock. -/
structure OpOK (parent : Lk → Lk) (depth : Lk → Nat) (o : OpState) : Prop where
  held : ∀ n ∈ o.held, n = o.start ∨ (parent n ∈ o.held ∧ depth (parent n) < depth n)
  wants : ∀ w ∈ o.wants, w ∉ o.held ∧ (o.held ≠ [] → parent w ∈ o.held ∧ depth (parent w) < depth w)

/-- exclusive locks: no lock is held by two operations -/
def Exclusive (ops : List OpState) : Prop :=
  ∀ (i j : Nat) (oi oj : OpState), ops[i]? = some oi → ops[j]? = some oj → i ≠ j → ∀ l ∈ oi.held, l ∉ oj.held

/-- operation i is blocked on a lock that operation j holds -/
def Waits (ops : List OpState) (i j : Nat) : Prop :=
  ∃ oi oj, ops[i]? = some oi ∧ ops[j]? = some oj ∧ ∃ w ∈ oi.wants, w ∈ oj.held

inductive Path (ops : List OpState) : Nat → Nat → Prop
  | single {i j : Nat} : Waits ops i j → Path ops i j
  | cons {i j k : Nat} : Waits ops i j → Path ops j k → Path ops i k

variable {parent : Lk → Lk} {depth : Lk → Nat}

theorem held_depth_ge {o : OpState} (hok : OpOK parent depth o) :
    ∀ (d : Nat) (n : Lk), depth n = d → n ∈ o.held → depth o.start ≤ depth n := by
  intro d
  induction d using Nat.strongRecOn with
  | _ d ih =>
    intro n hd hn
    rcases hok.held n hn with h | ⟨h1, h2⟩
    · rw [h]; exact Nat.le_refl _
    · have := ih (depth (parent n)) (by omega) (parent n) rfl h1
      omega

/-- depth of the first lock of operation i -/
def startDepth (depth : Lk → Nat) (ops : List OpState) (i : Nat) : Nat :=
  match ops[i]? with
  | some o => depth o.start
  | none => 0

def Holding (ops : List OpState) (i : Nat) : Prop :=
  ∃ o, ops[i]? = some o ∧ o.held ≠ []

theorem Waits.holding {ops : List OpState} {i j : Nat} (hw : Waits ops i j) : Holding ops j := by
  obtain ⟨_, oj, _, hj, w, _, hwj⟩ := hw
  exact ⟨oj, hj, fun h => by rw [h] at hwj; cases hwj⟩

/-- If i (holding something) is blocked on a lock held by j, that lock is j's first lock, and j's
first lock lies strictly deeper than i's. -/
theorem waits_depth {ops : List OpState} (hok : ∀ o ∈ ops, OpOK parent depth o) (hex : Exclusive ops)
    {i j : Nat} (hw : Waits ops i j) (hh : Holding ops i) :
    startDepth depth ops i < startDepth depth ops j := by
  obtain ⟨oi, oj, hi, hj, w, hwi, hwj⟩ := hw
  obtain ⟨oi', hi', hne'⟩ := hh
  rw [hi] at hi'; cases hi'
  have hoi := hok oi (List.mem_of_getElem? hi)
  have hoj := hok oj (List.mem_of_getElem? hj)
  obtain ⟨hnot, hpar⟩ := hoi.wants w hwi
  obtain ⟨hp, hd⟩ := hpar hne'
  have hne : i ≠ j := by
    intro h; subst h
    rw [hi] at hj; cases hj
    exact hnot hwj
  have hws : w = oj.start := by
    rcases hoj.held w hwj with h | ⟨h1, _⟩
    · exact h
    · exact absurd h1 (hex i j oi oj hi hj hne (parent w) hp)
  have := held_depth_ge hoi _ (parent w) rfl hp
  unfold startDepth
  rw [hi, hj]
  simp only []
  rw [← hws]; omega

theorem Path.holding {ops : List OpState} {i k : Nat} (hp : Path ops i k) : Holding ops k := by
  induction hp with
  | single hw => exact hw.holding
  | cons _ _ ih => exact ih

theorem path_depth {ops : List OpState} (hok : ∀ o ∈ ops, OpOK parent depth o) (hex : Exclusive ops)
    {i k : Nat} (hp : Path ops i k) : Holding ops i → startDepth depth ops i < startDepth depth ops k := by
  induction hp with
  | single hw => exact waits_depth hok hex hw
  | cons hw _ ih =>
    intro hh
    have h1 := waits_depth hok hex hw hh
    have h2 := ih hw.holding
    omega

/-- No wait-for cycle. -/
theorem no_cycle {ops : List OpState} (hok : ∀ o ∈ ops, OpOK parent depth o) (hex : Exclusive ops) (i : Nat) :
    ¬ Path ops i i := by
  intro hp
  have := path_depth hok hex hp hp.holding
  omega

/-! ### scripts: the sequence of locks an operation takes -/

/-- every lock after the first is new and is the child of an earlier one -/
def ScriptOK (parent : Lk → Lk) (depth : Lk → Nat) (script : List Lk) : Prop :=
  ∀ k w, script[k]? = some w → w ∉ script.take k ∧
    (k ≠ 0 → parent w ∈ script.take k ∧ depth (parent w) < depth w)

/-- At every point of a script the operation's state obeys the rule: it holds the first k locks and
waits for the next one. -/
theorem script_opOK {script : List Lk} {s : Lk} (hs : script[0]? = some s) (h : ScriptOK parent depth script) (k : Nat) :
    OpOK parent depth ⟨s, script.take k, (script[k]?).toList⟩ := by
  refine ⟨?_, ?_⟩
  · intro n hn
    obtain ⟨j, hj⟩ := List.getElem?_of_mem hn
    rw [List.getElem?_take] at hj
    split at hj
    · next hjk =>
      by_cases h0 : j = 0
      · subst h0; rw [hs] at hj; cases hj; exact Or.inl rfl
      · obtain ⟨_, h2⟩ := h j n hj
        obtain ⟨h3, h4⟩ := h2 h0
        exact Or.inr ⟨List.take_subset_take_left _ (by omega) h3 |> fun x => x, h4⟩
    · cases hj
  · intro w hw
    cases hk : script[k]? with
    | none => rw [hk] at hw; cases hw
    | some w' =>
      rw [hk] at hw
      simp only [Option.toList_some, List.mem_singleton] at hw
      subst hw
      obtain ⟨h1, h2⟩ := h k w hk
      refine ⟨h1, fun hne => h2 ?_⟩
      intro h0; subst h0; exact hne (by simp)

theorem scriptOK_snoc {script : List Lk} {x : Lk} (h : ScriptOK parent depth script) (hx : x ∉ script)
    (hp : script ≠ [] → parent x ∈ script ∧ depth (parent x) < depth x) : ScriptOK parent depth (script ++ [x]) := by
  intro k w hk
  by_cases hlt : k < script.length
  · rw [List.getElem?_append_left hlt] at hk
    rw [List.take_append_of_le_length (by omega)]
    exact h k w hk
  · rw [List.getElem?_append_right (by omega)] at hk
    have hk0 : k - script.length = 0 := by
      apply Classical.byContradiction; intro hne
      rw [List.getElem?_eq_none (by simp; omega)] at hk; cases hk
    rw [hk0] at hk
    simp only [List.getElem?_cons_zero, Option.some.injEq] at hk
    subst hk
    have hkl : k = script.length := by omega
    subst hkl
    rw [List.take_left']
    · refine ⟨hx, fun h0 => hp ?_⟩
      intro hnil; rw [hnil] at h0; exact h0 rfl
    · rfl

theorem scriptOK_single (x : Lk) : ScriptOK parent depth [x] := by
  intro k w hk
  cases k with
  | zero => exact ⟨by simp, fun h => absurd rfl h⟩
  | succ k => simp at hk

/-! ### the inode tree and the lock hierarchy above it -/

structure TreeOK (par : Nat → Nat) (dep : Nat → Nat) : Prop where
  root : par 0 = 0
  up : ∀ n, n ≠ 0 → par n ≠ n ∧ dep (par n) + 1 = dep n

variable {par : Nat → Nat} {dep : Nat → Nat}

theorem ldepth_lt (ht : TreeOK par dep) {l : Lk} (hl : l ≠ 0) : ldepth dep (lparent par l) < ldepth dep l := by
  match l, hl with
  | 1, _ => simp [lparent, ldepth]
  | n + 2, _ =>
    simp only [lparent, ldepth]
    have := (ht.up (n + 1) (by omega)).2
    omega

/-- `seen` already holds the parent of every element when its turn comes -/
def OKfrom (par : Nat → Nat) : List Lk → List Lk → Prop
  | _, [] => True
  | seen, x :: rest => x ≠ 0 ∧ lparent par x ∈ seen ∧ OKfrom par (x :: seen) rest

theorem OKfrom.mono : ∀ (L : List Lk) {seen seen' : List Lk}, (∀ y ∈ seen, y ∈ seen') → OKfrom par seen L → OKfrom par seen' L := by
  intro L
  induction L with
  | nil => intro _ _ _ _; trivial
  | cons x rest ih =>
    intro seen seen' hsub h
    refine ⟨h.1, hsub _ h.2.1, ih ?_ h.2.2⟩
    intro y hy
    rcases List.mem_cons.mp hy with h1 | h1
    · rw [h1]; exact List.mem_cons_self ..
    · exact List.mem_cons_of_mem _ (hsub y h1)

theorem OKfrom.append : ∀ (A B : List Lk) {seen : List Lk}, OKfrom par seen A → OKfrom par (A.reverse ++ seen) B →
    OKfrom par seen (A ++ B) := by
  intro A
  induction A with
  | nil => intro B seen _ h; simpa using h
  | cons x rest ih =>
    intro B seen h hB
    refine ⟨h.1, h.2.1, ih B h.2.2 ?_⟩
    simp only [List.reverse_cons, List.append_assoc, List.singleton_append] at hB
    exact hB

/-- the locked-map loop of Rename -/
theorem foldl_addNew_ok (ht : TreeOK par dep) : ∀ (L : List Lk) (acc seen : List Lk), (∀ y ∈ seen, y ∈ acc) →
    OKfrom par seen L → acc ≠ [] → ScriptOK (lparent par) (ldepth dep) acc →
    ScriptOK (lparent par) (ldepth dep) (L.foldl addNew acc) ∧ (∀ y ∈ acc, y ∈ L.foldl addNew acc) ∧
    (∀ y ∈ L, y ∈ L.foldl addNew acc) ∧ (L.foldl addNew acc)[0]? = acc[0]? := by
  intro L
  induction L with
  | nil => intro acc seen _ _ _ h; exact ⟨h, fun _ h => h, (fun _ h => by cases h), rfl⟩
  | cons x rest ih =>
    intro acc seen hsub hL hne hacc
    simp only [List.foldl_cons]
    have hx : x ∈ addNew acc x := by
      unfold addNew; split
      · assumption
      · exact List.mem_append_right _ (List.mem_singleton.mpr rfl)
    have hsub' : ∀ y ∈ acc, y ∈ addNew acc x := by
      intro y hy; unfold addNew; split
      · exact hy
      · exact List.mem_append_left _ hy
    have hok' : ScriptOK (lparent par) (ldepth dep) (addNew acc x) := by
      unfold addNew; split
      · exact hacc
      · next hnot => exact scriptOK_snoc hacc hnot (fun _ => ⟨hsub _ hL.2.1, ldepth_lt ht hL.1⟩)
    have hne' : addNew acc x ≠ [] := by
      intro h; exact hne (List.eq_nil_of_subset_nil (fun y hy => by rw [← h]; exact hsub' y hy))
    have h0 : (addNew acc x)[0]? = acc[0]? := by
      unfold addNew; split
      · rfl
      · cases acc with
        | nil => exact absurd rfl hne
        | cons a t => rfl
    obtain ⟨i1, i2, i3, i4⟩ := ih (addNew acc x) (x :: seen)
      (by intro y hy; rcases List.mem_cons.mp hy with h | h
          · rw [h]; exact hx
          · exact hsub' y (hsub y h)) hL.2.2 hne' hok'
    refine ⟨i1, fun y hy => i2 y (hsub' y hy), ?_, by rw [i4, h0]⟩
    intro y hy
    rcases List.mem_cons.mp hy with h | h
    · rw [h]; exact i2 x hx
    · exact i3 y h

/-- an inode chain root-first (as locks): each one's parent lock has been seen -/
theorem chain_ok (ht : TreeOK par dep) : ∀ (fuel d : Nat) (seen : List Lk), dep d ≤ fuel → 0 ∈ seen →
    OKfrom par seen ((chainUp par fuel d).reverse.map (· + 1)) ∧ (chainUp par fuel d).head? = some d := by
  intro fuel
  induction fuel with
  | zero =>
    intro d seen hd h0
    have hd0 : d = 0 := by
      apply Classical.byContradiction; intro hne
      have := (ht.up d hne).2; omega
    subst hd0
    exact ⟨⟨by simp, by simpa [lparent] using h0, trivial⟩, rfl⟩
  | succ fuel ih =>
    intro d seen hd h0
    unfold chainUp
    split
    · next heq =>
      have hd0 : d = 0 := by
        apply Classical.byContradiction; intro hne
        exact (ht.up d hne).1 heq
      subst hd0
      exact ⟨⟨by simp, by simpa [lparent] using h0, trivial⟩, rfl⟩
    · next hne =>
      have hd0 : d ≠ 0 := by intro h; subst h; exact hne ht.root
      have hdp := (ht.up d hd0).2
      obtain ⟨i1, i2⟩ := ih (par d) seen (by omega) h0
      refine ⟨?_, rfl⟩
      simp only [List.reverse_cons, List.map_append, List.map_cons, List.map_nil]
      apply OKfrom.append _ _ i1
      refine ⟨Nat.succ_ne_zero _, ?_, trivial⟩
      -- the parent of d is the head of the chain of (par d)
      have hmem : par d ∈ chainUp par fuel (par d) := by
        cases hc : chainUp par fuel (par d) with
        | nil => rw [hc] at i2; cases i2
        | cons a t => rw [hc] at i2; simp only [List.head?_cons, Option.some.injEq] at i2; rw [i2]; exact List.mem_cons_self ..
      apply List.mem_append_left
      rw [List.mem_reverse]
      have : lparent par (d + 1) = par d + 1 := by
        cases d with
        | zero => exact absurd rfl hd0
        | succ n => rfl
      rw [this]
      exact List.mem_map.mpr ⟨par d, List.mem_reverse.mpr hmem, rfl⟩

/-- **Rename** follows the rule on every tree, for any olddir, newdir and moved inode (a child of
olddir that is not one of the locked ancestors — the `locked[oldinode]` check of the code). -/
theorem renameScript_ok (ht : TreeOK par dep) (fuel od nd moved : Nat) (hod : dep od ≤ fuel) (hnd : dep nd ≤ fuel)
    (hmoved : moved ≠ 0) (hpar : par moved = od)
    (hnot : moved + 1 ∉ ((chainUp par fuel od ++ chainUp par fuel nd).reverse.map (· + 1)).foldl addNew [0]) :
    ScriptOK (lparent par) (ldepth dep) (renameScript par fuel od nd moved) ∧
    (renameScript par fuel od nd moved)[0]? = some 0 := by
  unfold renameScript
  simp only []
  have hL : OKfrom par [0] ((chainUp par fuel od ++ chainUp par fuel nd).reverse.map (· + 1)) := by
    rw [List.reverse_append, List.map_append]
    apply OKfrom.append
    · exact (chain_ok ht fuel nd [0] hnd (List.mem_singleton.mpr rfl)).1
    · exact (chain_ok ht fuel od _ hod (List.mem_append_right _ (List.mem_singleton.mpr rfl))).1
  obtain ⟨h1, h2, h3, h4⟩ := foldl_addNew_ok ht _ [0] [0] (fun _ h => h) hL (by simp) (scriptOK_single 0)
  refine ⟨scriptOK_snoc h1 hnot (fun _ => ⟨?_, ldepth_lt ht (Nat.succ_ne_zero _)⟩), ?_⟩
  · -- the moved inode's parent lock is olddir's lock, taken as part of the chain
    have hodmem : od ∈ chainUp par fuel od := by
      have := (chain_ok ht fuel od [0] hod (List.mem_singleton.mpr rfl)).2
      cases hc : chainUp par fuel od with
      | nil => rw [hc] at this; cases this
      | cons a t => rw [hc] at this; simp only [List.head?_cons, Option.some.injEq] at this; rw [this]; exact List.mem_cons_self ..
    have : lparent par (moved + 1) = od + 1 := by
      cases moved with
      | zero => exact absurd rfl hmoved
      | succ n => simp only [lparent]; rw [hpar]
    rw [this]
    apply h3
    exact List.mem_map.mpr ⟨od, List.mem_reverse.mpr (List.mem_append_left _ hodmem), rfl⟩
  · have hne : (List.foldl addNew [0] (List.map (fun x => x + 1) (chainUp par fuel od ++ chainUp par fuel nd).reverse)) ≠ [] := by
      intro h; have := h2 0 (List.mem_singleton.mpr rfl); rw [h] at this; cases this
    rw [List.getElem?_append_left (by
      cases hc : (List.foldl addNew [0] (List.map (fun x => x + 1) (chainUp par fuel od ++ chainUp par fuel nd).reverse)) with
      | nil => exact absurd hc hne
      | cons a t => simp)]
    rw [h4]; rfl

/-! ### Flush: level by level -/

/-- every node of `level` has its parent lock in `seen`; then so has every node the walk visits -/
theorem bfs_ok (ht : TreeOK par dep) {kids : Nat → List Nat} (hk : ∀ d c, c ∈ kids d → par c = d ∧ c ≠ 0) :
    ∀ (fuel : Nat) (level : List Nat) (seen : List Lk), (∀ c ∈ level, c ≠ 0 ∧ par c + 1 ∈ seen) →
      OKfrom par seen ((bfs kids fuel level).map (· + 1)) := by
  have base : ∀ (level : List Nat) (seen : List Lk), (∀ c ∈ level, c ≠ 0 ∧ par c + 1 ∈ seen) →
      OKfrom par seen (level.map (· + 1)) := by
    intro level
    induction level with
    | nil => intro _ _; trivial
    | cons c rest ih =>
      intro seen h
      obtain ⟨hc0, hcp⟩ := h c (List.mem_cons_self ..)
      refine ⟨by simp, ?_, ih _ (fun x hx => ⟨(h x (List.mem_cons_of_mem _ hx)).1, List.mem_cons_of_mem _ (h x (List.mem_cons_of_mem _ hx)).2⟩)⟩
      have : lparent par (c + 1) = par c + 1 := by
        cases c with
        | zero => exact absurd rfl hc0
        | succ n => rfl
      simp only [List.map_cons]
      rw [this]; exact hcp
  intro fuel
  induction fuel with
  | zero => intro level seen h; exact base level seen h
  | succ fuel ih =>
    intro level seen h
    unfold bfs
    split
    · trivial
    · rw [List.map_append]
      apply OKfrom.append _ _ (base level seen h)
      apply ih
      intro c hc
      obtain ⟨d, hd, hcd⟩ := List.mem_flatMap.mp hc
      obtain ⟨h1, h2⟩ := hk d c hcd
      refine ⟨h2, ?_⟩
      rw [h1]
      apply List.mem_append_left
      rw [List.mem_reverse]
      exact List.mem_map.mpr ⟨d, hd, rfl⟩

/-- from `OKfrom` and distinctness to `ScriptOK` -/
theorem okfrom_script (ht : TreeOK par dep) : ∀ (L : List Lk) (acc : List Lk), acc ≠ [] → OKfrom par acc L →
    (acc ++ L).Nodup → ScriptOK (lparent par) (ldepth dep) acc → ScriptOK (lparent par) (ldepth dep) (acc ++ L) := by
  intro L
  induction L with
  | nil => intro acc _ _ _ h; simpa using h
  | cons x rest ih =>
    intro acc hne hL hnd hacc
    have hx : x ∉ acc := by
      intro hmem
      have := List.nodup_append.mp hnd
      exact this.2.2 x hmem x (List.mem_cons_self ..) rfl
    have h1 := scriptOK_snoc hacc hx (fun _ => ⟨hL.2.1, ldepth_lt ht hL.1⟩)
    have := ih (acc ++ [x]) (by simp) (hL.2.2.mono _ (fun y hy => by
      rcases List.mem_cons.mp hy with h | h
      · rw [h]; exact List.mem_append_right _ (List.mem_singleton.mpr rfl)
      · exact List.mem_append_left _ h)) (by simpa using hnd) h1
    simpa using this

/-- **Flush / MarshalManifest** (directory, then its descendants level by level, children in name
order) follows the rule on every tree (a tree: the enumeration has no repetitions). -/
theorem flushScript_ok (ht : TreeOK par dep) {kids : Nat → List Nat} (hk : ∀ d c, c ∈ kids d → par c = d ∧ c ≠ 0)
    (fuel d : Nat) (hnd : (flushScript kids fuel d).Nodup) :
    ScriptOK (lparent par) (ldepth dep) (flushScript kids fuel d) := by
  unfold flushScript at hnd ⊢
  simp only [List.map_cons] at hnd ⊢
  have h := bfs_ok ht hk fuel (kids d) [d + 1] (fun c hc => ⟨(hk d c hc).2, by rw [(hk d c hc).1]; exact List.mem_singleton.mpr rfl⟩)
  exact okfrom_script ht _ [d + 1] (by simp) h hnd (scriptOK_single _)

end ArvVerif.C13.Lock
