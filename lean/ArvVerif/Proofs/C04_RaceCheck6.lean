/- C04 interleaving layer: kernel evaluation of the table check for the 24 configurations with
patched (WriteBlock takes the flock, fixes/F4.patch) = true, Serialize = true, BlobTrashLifetime == 0 = false. -/
import ArvVerif.Proofs.C04_RaceTable
namespace ArvVerif.C04.Race

theorem checkGroup6 : ((cfgGroup true true false).all fun c => checkCfg c (tableOf c)) = true := by decide +kernel

end ArvVerif.C04.Race
