/-
C14 layer L3, continued: the probe step and the induction over reachable states.
-/
import ArvVerif.Proofs.C14_L3
namespace ArvVerif.C14

theorem Inv_probeDone {s : PState} (h : Inv s) (i : Nat) (w : Worker) (p : Probe) (smp : Option (List Uuid))
    (h1 : s.wk i = some w) (h2 : s.probe i = some (p.stamp, smp))
    (h3 : p.ok = true → smp = some p.uuids) :
    Inv { s with
      wk := upd s.wk i (some (w.probeApply p (s.clock + 1)).1),
      probe := upd s.probe i none,
      probed := upd s.probed i (s.probed i || Worker.probeFresh w p (s.clock + 1)),
      clock := s.clock + 1 } := by
  have hidle := h.idleEmpty i w h1
  have hlt : p.stamp < s.clock + 1 := Nat.lt_succ_of_le (h.clkP i _ _ h2)
  obtain ⟨sp1, sp2, sp3⟩ := Worker.probeApply_spec w p (s.clock + 1) hidle
  generalize (w.probeApply p (s.clock + 1)).1 = r at sp1 sp2 sp3
  by_cases hf : Worker.probeFresh w p (s.clock + 1) = true
  · obtain ⟨hst, hok⟩ := Worker.probeFresh_stamp hlt hf
    obtain ⟨f1, f2, f3⟩ := sp2 hf
    have hsmp := h3 hok
    subst hsmp
    have hJ := h.pJ i p.stamp p.uuids w h2 h1 hst
    have hJ2 := h.pJ2 i p.stamp p.uuids w h2 h1 hst
    simp only [hf, Bool.or_true]
    inv_auto
  · simp only [Bool.not_eq_true] at hf
    obtain ⟨n1, n2, _, n4⟩ := sp1 hf
    simp only [hf, Bool.or_false]
    inv_auto

theorem Inv_step {s t : PState} (h : Inv s) (st : Step s t) : Inv t := by
  cases st with
  | instCreate i h1 h2 h3 h4 => exact Inv_instCreate h i h1 h2 h3 h4
  | instDestroy i => exact Inv_instDestroy h i
  | procExit i c => exact Inv_procExit h i c
  | poolAdd i st ib it h1 h2 => exact Inv_poolAdd h i st ib it h1 h2
  | poolTouch i w h1 => exact Inv_poolTouch h i w h1
  | poolRemove i h1 => exact Inv_poolRemove h i h1
  | probeBegin i w h1 h2 h3 => exact Inv_probeBegin h i w h1 h2 h3
  | probeSample i st h1 h2 => exact Inv_probeSample h i st h1 h2
  | probeDone i w p smp h1 h2 h3 => exact Inv_probeDone h i w p smp h1 h2 h3
  | schedKillTrue c h1 h2 => exact Inv_schedKillTrue h c
  | schedKillFalse c h1 h2 => exact Inv_schedKillFalse h c h1 h2
  | schedStart i c w h1 h2 h3 h4 h5 => exact Inv_schedStart h i c w h1 h2 h3 h4 h5
  | schedOther => exact Inv_schedOther h
  | startExec i c b h1 => exact Inv_startExec h i c b h1
  | startDone i c w h1 h2 => exact Inv_startDone h i c w h1 h2
  | killed i c w h1 h2 => exact Inv_killed h i c w h1 h2
  | shutdown i w h1 => exact Inv_shutdown h i w h1
  | setIdle i w b t g h1 => exact Inv_setIdle h i w b t g h1
  | restart => exact Inv_restart h
  | recoveryDone h1 hA1 => exact Inv_recoveryDone h h1 hA1

theorem Inv_reach {s : PState} (h : Reach s) : Inv s := by
  induction h with
  | init => exact Inv_init
  | step _ st ih => exact Inv_step ih st

end ArvVerif.C14
