/-
C17 — completeness of the scan: if it succeeds, then for everything `Shows` derives there was a
successful call, and its file / directory / placeholder is in the plan.
-/
import ArvVerif.Proofs.C17_Secret
namespace ArvVerif.C17

theorem shows_canon (h : Host) (cfg : Cfg) (hwf : HostWF h) (wf : CfgWF h cfg) (hdirect : Direct h cfg)
    (d s : Path) (hsh : Shows h cfg d s) : Canon h cfg s := by
  induction hsh with
  | root => exact canon_out h cfg wf
  | child hsh hdir hex hsec hskip ih =>
    rename_i d' s' c
    obtain ⟨n, hn⟩ := hex
    have hmem : (hostPath cfg (s' ++ [c]), n) ∈ h := mem_of_get h _ _ (by
      rw [hostPath_child cfg s' c ih.pre]; simp) hn
    have hcl : CleanName c := hwf.clean _ hmem c (by rw [hostPath_child cfg s' c ih.pre]; simp)
    exact ih.child c hcl hdir
  | link hsh hnode hin ih =>
    rename_i d' s' a t
    have hpne : hostPath cfg s' ≠ [] := by
      intro hp0
      have : h.get (hostPath cfg s') = some (.link a t) := hnode
      rw [hp0] at this
      simp [Host.get] at this
    have hmem : (hostPath cfg s', Node.link a t) ∈ h := mem_of_get h _ _ hpne hnode
    have hrel : cfg.ctrOut ++ s'.drop cfg.ctrOut.length = s' := prefix_append_drop _ _ ih.pre
    have := hdirect (hostPath cfg s', .link a t) hmem a t rfl (s'.drop cfg.ctrOut.length) rfl
    rw [hrel] at this
    exact this (inOut_pre cfg _ hin)

theorem mem_of_le_files {a b : Plan} (hle : a.le b) (f : Path × Option Path) (hf : f ∈ a.files) : f ∈ b.files :=
  hle.files.subset hf

theorem mem_of_le_dirs {a b : Plan} (hle : a.le b) (d : Path) (hd : d ∈ a.dirs) : d ∈ b.dirs :=
  hle.dirs.subset hd

/-- for everything `Shows` derives, a successful scan made a successful call -/
theorem scan_complete_call (h : Host) (cfg : Cfg) (hwf : HostWF h) (wf : CfgWF h cfg)
    (hout : h.get cfg.hostOut = some .dir) (hdirect : Direct h cfg) (hx : InOut cfg cfg.ctrOut)
    (fuel : Nat) (plan : Plan) (hscan : scan h cfg fuel = .ok plan)
    (d s : Path) (hsh : Shows h cfg d s) :
    ∃ fuel' n inc st1 st2, walk h cfg fuel' (.host d s n inc) st1 = .ok st2 ∧ st2.le plan := by
  induction hsh with
  | root =>
    cases fuel with
    | zero => simp [scan, walk] at hscan
    | succ fuel =>
      rw [scan_eq h cfg fuel hx] at hscan
      exact ⟨fuel, _, true, {}, plan, hscan, Plan.le_refl _⟩
  | child hsh hdir hex hsec hskip ih =>
    rename_i d' s' c
    obtain ⟨f', n, inc, st1, st2, hcall, hle⟩ := ih
    have hcan := shows_canon h cfg hwf wf hdirect _ _ hsh
    -- the call did not fail, so the path resolved; being canonical, to its own node
    have hfound : ∃ p, namei h [] (hostPath cfg s') 0 = .found p .dir := by
      cases f' with
      | zero => rw [walk] at hcall; cases hcall
      | succ f' =>
        rw [walk] at hcall
        obtain ⟨a, _, hr⟩ := bind_eq_ok _ _ _ hcall
        have hnm : namei h [] (cfg.hostOut ++ s'.drop cfg.ctrOut.length) 0
            = namei h [] (hostPath cfg s') 0 := rfl
        rw [hnm] at hr
        cases hst : namei h [] (hostPath cfg s') 0 with
        | enoent => rw [hst] at hr; cases hr
        | enotdir => rw [hst] at hr; cases hr
        | eloop => rw [hst] at hr; cases hr
        | found p node =>
          obtain ⟨_, hnode⟩ := host_node h cfg wf hout s' hcan p node hst
          rw [hdir] at hnode
          cases hnode
          exact ⟨p, rfl⟩
    obtain ⟨p, hp⟩ := hfound
    obtain ⟨hpp, _⟩ := host_node h cfg wf hout s' hcan p .dir hp
    obtain ⟨nd, hnd⟩ := hex
    have hg : h.get (p ++ [c]) = some nd := by
      rw [hpp, ← hostPath_child cfg s' c hcan.pre]; exact hnd
    obtain ⟨f2, s1, s2, hc2, hle2⟩ := host_step h cfg hwf d' s' p n f' inc st1 st2 c nd hcall hp hg hsec hskip
    exact ⟨f2, n, false, s1, s2, hc2, Plan.le_trans hle2 hle⟩
  | link hsh hnode hin ih =>
    rename_i d' s' a t
    obtain ⟨f', n, inc, st1, st2, hcall, hle⟩ := ih
    have hcan := shows_canon h cfg hwf wf hdirect _ _ hsh
    cases f' with
    | zero => rw [walk] at hcall; cases hcall
    | succ f' =>
      rw [walk] at hcall
      obtain ⟨b, _, hr⟩ := bind_eq_ok _ _ _ hcall
      have hnm : namei h [] (cfg.hostOut ++ s'.drop cfg.ctrOut.length) 0
          = namei h [] (hostPath cfg s') 0 := rfl
      rw [hnm] at hr
      cases hst : namei h [] (hostPath cfg s') 0 with
      | enoent => rw [hst] at hr; cases hr
      | enotdir => rw [hst] at hr; cases hr
      | eloop => rw [hst] at hr; cases hr
      | found p node =>
        obtain ⟨_, hnode'⟩ := host_node h cfg wf hout s' hcan p node hst
        rw [hnode] at hnode'
        cases hnode'
        rw [hst] at hr
        simp only at hr
        split at hr
        · cases hr
        · cases f' with
          | zero => rw [walk] at hr; cases hr
          | succ f' =>
            have hT : (if a = true then t else cleanAbs (s'.dropLast ++ t)) = linkTarget s' a t := rfl
            rw [hT, mount_inout h cfg _ d' _ f' true b hin] at hr
            exact ⟨f', n - 1, true, b, st2, hr, hle⟩

/-- what a successful call on a canonical path has added to the plan -/
theorem host_call_adds (h : Host) (cfg : Cfg) (wf : CfgWF h cfg) (hout : h.get cfg.hostOut = some .dir)
    (d s : Path) (hcan : Canon h cfg s) (n fuel : Nat) (inc : Bool) (st1 st2 : Plan)
    (hcall : walk h cfg fuel (.host d s n inc) st1 = .ok st2) :
    (∀ c, nodeAt h cfg s = some (.file c) → (d, some (hostPath cfg s)) ∈ st2.files) ∧
    (nodeAt h cfg s = some .dir → d ≠ [] → d ∈ st2.dirs ∧
      (h.children (hostPath cfg s) = [] → (d ++ [".keep"], none) ∈ st2.files)) := by
  cases fuel with
  | zero => rw [walk] at hcall; cases hcall
  | succ fuel =>
    rw [walk] at hcall
    obtain ⟨b, _, hr⟩ := bind_eq_ok _ _ _ hcall
    have hnm : namei h [] (cfg.hostOut ++ s.drop cfg.ctrOut.length) 0
        = namei h [] (hostPath cfg s) 0 := rfl
    rw [hnm] at hr
    cases hst : namei h [] (hostPath cfg s) 0 with
    | enoent => rw [hst] at hr; cases hr
    | enotdir => rw [hst] at hr; cases hr
    | eloop => rw [hst] at hr; cases hr
    | found p node =>
      obtain ⟨hp, hnode⟩ := host_node h cfg wf hout s hcan p node hst
      rw [hst] at hr
      constructor
      · intro c hc
        rw [hc] at hnode; cases hnode
        simp only at hr
        cases hr
        simp [Plan.addFile, hp]
      · intro hdir hne
        rw [hdir] at hnode; cases hnode
        simp only at hr
        have hmemd : d ∈ (b.addDir d).dirs := by simp [Plan.addDir, hne]
        split at hr
        · rename_i hnil
          cases hr
          refine ⟨(Plan.le_addKeep _ _).dirs.subset hmemd, fun _ => ?_⟩
          simp [Plan.addKeep, hne]
        · rename_i hnil
          refine ⟨(walk_mono h cfg _ _ _ _ hr).dirs.subset hmemd, fun he => ?_⟩
          rw [← hp] at he; exact absurd he hnil

/-- **completeness**: a successful scan plans every regular file, directory and empty-directory
placeholder that `Shows` derives -/
theorem scan_complete (h : Host) (cfg : Cfg) (hwf : HostWF h) (wf : CfgWF h cfg)
    (hout : h.get cfg.hostOut = some .dir) (hdirect : Direct h cfg) (hx : InOut cfg cfg.ctrOut)
    (fuel : Nat) (plan : Plan) (hscan : scan h cfg fuel = .ok plan)
    (d s : Path) (hsh : Shows h cfg d s) :
    (∀ c, nodeAt h cfg s = some (.file c) → (d, some (hostPath cfg s)) ∈ plan.files) ∧
    (nodeAt h cfg s = some .dir → d ≠ [] → d ∈ plan.dirs ∧
      (h.children (hostPath cfg s) = [] → (d ++ [".keep"], none) ∈ plan.files)) := by
  obtain ⟨f', n, inc, st1, st2, hcall, hle⟩ :=
    scan_complete_call h cfg hwf wf hout hdirect hx fuel plan hscan d s hsh
  have hcan := shows_canon h cfg hwf wf hdirect _ _ hsh
  obtain ⟨h1, h2⟩ := host_call_adds h cfg wf hout d s hcan n f' inc st1 st2 hcall
  constructor
  · intro c hc; exact mem_of_le_files hle _ (h1 c hc)
  · intro hdir hne
    obtain ⟨h3, h4⟩ := h2 hdir hne
    exact ⟨mem_of_le_dirs hle _ h3, fun he => mem_of_le_files hle _ (h4 he)⟩

end ArvVerif.C17
