/-
C10 — `path.Clean` never lengthens a relative path and strictly shortens one with an empty or `.`
component. Consequences for `parseManifestStream` after fixes b1a09e4 / c203269: a token that
passed the canonical-path test lives in a stream without trailing slash, and the one exempt token
(the zero-length `.` directory marker) is looked up under a path no token of its stream has — so
`segment()` applies every manifest completely (no hypothesis on names).
-/
import ArvVerif.Proofs.C10_PkgTotal
namespace ArvVerif.C10

/-! ## lengths -/

/-- total length of the components, one separator counted per component -/
def total (xs : List Bytes) : Nat := (xs.map (·.length + 1)).sum

@[simp] theorem total_nil : total [] = 0 := rfl
@[simp] theorem total_cons (x : Bytes) (xs : List Bytes) : total (x :: xs) = x.length + 1 + total xs := by
  simp [total]
theorem total_append (a b : List Bytes) : total (a ++ b) = total a + total b := by
  simp [total, List.sum_append]
theorem total_reverse (a : List Bytes) : total a.reverse = total a := by
  induction a with
  | nil => rfl
  | cons x xs ih => rw [List.reverse_cons, total_append, ih]; simp; omega

theorem joinWith_length (sep : UInt8) : ∀ xs : List Bytes, xs ≠ [] → (joinWith sep xs).length + 1 = total xs
  | [], h => absurd rfl h
  | [x], _ => by simp [joinWith]
  | x :: y :: rest, _ => by
    have := joinWith_length sep (y :: rest) (by simp)
    rw [joinWith_cons_cons]
    simp only [List.length_append, List.length_cons, total_cons] at this ⊢
    omega

theorem total_splitOn (sep : UInt8) (s : Bytes) : total (splitOn sep s) = s.length + 1 := by
  have h := joinWith_length sep (splitOn sep s) (splitOn_ne_nil sep s)
  rw [joinWith_splitOn] at h
  omega

theorem splitOn_cons_sep (sep : UInt8) (r : Bytes) : splitOn sep (sep :: r) = [] :: splitOn sep r := by
  conv => lhs; unfold splitOn
  simp

theorem splitOn_cons_ne (sep x : UInt8) (r p : Bytes) (ps : List Bytes) (hx : x ≠ sep)
    (h : splitOn sep r = p :: ps) : splitOn sep (x :: r) = (x :: p) :: ps := by
  conv => lhs; unfold splitOn
  have : (x == sep) = false := by simpa using hx
  simp [this, h]

/-- splitting at a separator splits the pieces -/
theorem splitOn_append_sep_gen (sep : UInt8) : ∀ (a b : Bytes),
    splitOn sep (a ++ sep :: b) = splitOn sep a ++ splitOn sep b
  | [], b => by rw [List.nil_append, splitOn_cons_sep]; rfl
  | x :: a, b => by
    have ih := splitOn_append_sep_gen sep a b
    simp only [List.cons_append]
    by_cases hx : x = sep
    · subst hx
      rw [splitOn_cons_sep, splitOn_cons_sep, ih]; rfl
    · cases hs : splitOn sep a with
      | nil => exact absurd hs (splitOn_ne_nil _ _)
      | cons p ps =>
        rw [hs] at ih
        rw [splitOn_cons_ne sep x _ p (ps ++ splitOn sep b) hx (by rw [ih]; rfl),
          splitOn_cons_ne sep x a p ps hx hs]
        rfl

/-- `cleanComps` never makes the component list longer; a skipped empty (`.`) component makes it
shorter by 1 (by 2) -/
theorem cleanComps_total (r : Bool) : ∀ (cs st : List Bytes),
    total (cleanComps r cs st) ≤ total st + total cs ∧
    ([] ∈ cs → total (cleanComps r cs st) + 1 ≤ total st + total cs) ∧
    ([bDot] ∈ cs → total (cleanComps r cs st) + 2 ≤ total st + total cs)
  | [], st => by simp [cleanComps, total_reverse]
  | c :: cs, st => by
    unfold cleanComps
    by_cases h1 : c = [] ∨ c = [bDot]
    · rw [if_pos h1]
      obtain ⟨i1, i2, i3⟩ := cleanComps_total r cs st
      have hc : c.length ≤ 1 := by rcases h1 with rfl | rfl <;> simp
      refine ⟨by simp only [total_cons]; omega, ?_, ?_⟩
      · intro hm
        simp only [total_cons]
        rcases List.mem_cons.mp hm with h | h
        · omega
        · have := i2 h; omega
      · intro hm
        simp only [total_cons]
        rcases List.mem_cons.mp hm with h | h
        · have : c.length = 1 := by rw [← h]; rfl
          omega
        · have := i3 h; omega
    · rw [if_neg h1]
      have hne1 : [] ≠ c := fun h => h1 (Or.inl h.symm)
      have hne2 : [bDot] ≠ c := fun h => h1 (Or.inr h.symm)
      have mem1 : [] ∈ c :: cs → [] ∈ cs := fun hm => by
        rcases List.mem_cons.mp hm with h | h
        · exact absurd h hne1
        · exact h
      have mem2 : [bDot] ∈ c :: cs → [bDot] ∈ cs := fun hm => by
        rcases List.mem_cons.mp hm with h | h
        · exact absurd h hne2
        · exact h
      by_cases h2 : c = [bDot, bDot]
      · rw [if_pos h2]
        cases st with
        | nil =>
          by_cases hr : r = true
          · simp only [hr, if_true]
            obtain ⟨i1, i2, i3⟩ := cleanComps_total true cs []
            subst hr
            refine ⟨by simp only [total_cons]; omega, fun hm => ?_, fun hm => ?_⟩
            · have := i2 (mem1 hm); simp only [total_cons]; omega
            · have := i3 (mem2 hm); simp only [total_cons]; omega
          · have hrf : r = false := by simpa using hr
            subst hrf
            simp only [Bool.false_eq_true, if_false]
            obtain ⟨i1, i2, i3⟩ := cleanComps_total false cs [c]
            simp only [total_cons, total_nil] at i1 i2 i3 ⊢
            exact ⟨by omega, fun hm => by have := i2 (mem1 hm); omega, fun hm => by have := i3 (mem2 hm); omega⟩
        | cons top st' =>
          simp only []
          by_cases ht : top = [bDot, bDot]
          · rw [if_pos ht]
            obtain ⟨i1, i2, i3⟩ := cleanComps_total r cs (c :: top :: st')
            simp only [total_cons] at i1 i2 i3 ⊢
            exact ⟨by omega, fun hm => by have := i2 (mem1 hm); omega, fun hm => by have := i3 (mem2 hm); omega⟩
          · rw [if_neg ht]
            obtain ⟨i1, i2, i3⟩ := cleanComps_total r cs st'
            simp only [total_cons] at i1 i2 i3 ⊢
            exact ⟨by omega, fun hm => by have := i2 (mem1 hm); omega, fun hm => by have := i3 (mem2 hm); omega⟩
      · rw [if_neg h2]
        obtain ⟨i1, i2, i3⟩ := cleanComps_total r cs (c :: st)
        simp only [total_cons] at i1 i2 i3 ⊢
        exact ⟨by omega, fun hm => by have := i2 (mem1 hm); omega, fun hm => by have := i3 (mem2 hm); omega⟩

/-- a relative path whose first component is `.`: how long `fixStreamName` of it can be -/
theorem fixStreamName_length (p : Bytes) (tailc : List Bytes) (hsplit : splitOn bSlash p = [bDot] :: tailc) :
    (fixStreamName p).length ≤ p.length ∧
    ([] ∈ tailc → (fixStreamName p).length + 1 ≤ p.length) ∧
    ([bDot] ∈ tailc → (fixStreamName p).length + 2 ≤ p.length) := by
  have hp : p.length + 1 = 2 + total tailc := by
    have := total_splitOn bSlash p
    rw [hsplit] at this
    simp only [total_cons] at this
    have h1 : ([bDot] : Bytes).length = 1 := rfl
    omega
  have hpne : p ≠ [] := by intro h; subst h; simp [splitOn] at hsplit
  have hhead : p.head? = some bDot := by
    have hj := joinWith_splitOn bSlash p
    rw [hsplit] at hj
    rw [← hj]
    cases tailc with
    | nil => rfl
    | cons a b => rfl
  obtain ⟨i1, i2, i3⟩ := cleanComps_total false tailc []
  simp only [total_nil, Nat.zero_add] at i1 i2 i3
  have hclean : pathClean p = (if cleanComps false tailc [] = [] then [bDot]
      else joinWith bSlash (cleanComps false tailc [])) := by
    unfold pathClean
    rw [if_neg hpne]
    have hroot : (p.head? = some bSlash) = False := by rw [hhead]; simp; decide
    simp only [hroot, decide_false, hsplit]
    have hcc : cleanComps false ([bDot] :: tailc) [] = cleanComps false tailc [] := by
      conv => lhs; unfold cleanComps
      rw [if_pos (Or.inr rfl)]
    rw [hcc]
    simp
  have hlen : (fixStreamName p).length ≤ (if cleanComps false tailc [] = [] then 1
      else total (cleanComps false tailc []) + 1) := by
    unfold fixStreamName
    rw [hclean]
    by_cases hR : cleanComps false tailc [] = []
    · simp only [hR, if_true]
      have hne : bDot ≠ bSlash := by decide
      simp [hne]
    · simp only [hR, if_false]
      have hj := joinWith_length bSlash _ hR
      split
      · simp only [List.length_cons]; omega
      · split
        · simp only [List.length_cons]; omega
        · omega
  by_cases hR : cleanComps false tailc [] = []
  · simp only [hR, if_true] at hlen
    refine ⟨by omega, fun hm => ?_, fun hm => ?_⟩
    · have : 1 ≤ total tailc := by
        cases tailc with
        | nil => simp at hm
        | cons a b => simp only [total_cons]; omega
      omega
    · have := i3 hm
      omega
  · simp only [hR, if_false] at hlen
    exact ⟨by omega, fun hm => by have := i2 hm; omega, fun hm => by have := i3 hm; omega⟩

/-- the component list of a stream name the parser lets through (`.` or `./…`) -/
theorem streamShape_split (S : Bytes) (h : S = [bDot] ∨ [bDot, bSlash].isPrefixOf S = true) :
    ∃ cs, splitOn bSlash S = [bDot] :: cs := by
  rcases h with rfl | h
  · exact ⟨[], by decide⟩
  · rw [List.isPrefixOf_iff_prefix] at h
    obtain ⟨rest, rfl⟩ := h
    exact ⟨splitOn bSlash rest, by
      have := splitOn_append_sep bSlash [bDot] rest (by decide)
      simpa using this⟩

/-- a stream name of that shape with its trailing slash removed still has that shape -/
theorem streamShape_dropSlash (S sn : Bytes) (hS : S = [bDot] ∨ [bDot, bSlash].isPrefixOf S = true)
    (hsn : S = sn ++ [bSlash]) : ∃ cs, splitOn bSlash sn = [bDot] :: cs := by
  rcases hS with h | h
  · exfalso
    rw [h] at hsn
    have hl := congrArg List.getLast? hsn
    simp at hl
    exact absurd hl (by decide)
  · rw [List.isPrefixOf_iff_prefix] at h
    obtain ⟨rest, hr⟩ := h
    rw [hsn] at hr
    by_cases hrest : rest = []
    · subst hrest
      have : sn = [bDot] := by
        have := congrArg List.dropLast hr
        simpa using this.symm
      exact ⟨[], by rw [this]; decide⟩
    · have : sn = [bDot, bSlash] ++ rest.dropLast := by
        have := congrArg List.dropLast hr
        rw [List.dropLast_concat] at this
        rw [← this, List.dropLast_append_of_ne_nil hrest]
      rw [this]
      exact ⟨splitOn bSlash rest.dropLast, by
        have := splitOn_append_sep bSlash [bDot] rest.dropLast (by decide)
        simpa using this⟩

/-- (N) a token that passed the canonical-path test lives in a stream without trailing slash -/
theorem clean_no_trailing_slash (S name : Bytes) (hS : S = [bDot] ∨ [bDot, bSlash].isPrefixOf S = true)
    (hc : fixStreamName (pathOf S name) = pathOf S name) : S.getLast? ≠ some bSlash := by
  intro hl
  obtain ⟨sn, hsn⟩ := List.getLast?_eq_some_iff.mp hl
  have hsnS : ∃ cs, splitOn bSlash sn = [bDot] :: cs := streamShape_dropSlash S sn hS hsn
  obtain ⟨cs, hcs⟩ := hsnS
  have hP : pathOf S name = sn ++ bSlash :: (bSlash :: name) := by
    unfold pathOf; rw [hsn]; simp
  have hsplit : splitOn bSlash (pathOf S name) = [bDot] :: (cs ++ ([] :: splitOn bSlash name)) := by
    rw [hP, splitOn_append_sep_gen, hcs]
    have : splitOn bSlash (bSlash :: name) = [] :: splitOn bSlash name := by
      conv => lhs; unfold splitOn
      simp
    rw [this]; simp
  have := (fixStreamName_length _ _ hsplit).2.1 (by simp)
  rw [hc] at this
  omega

/-- (M) the marker of a stream is looked up under a path that no token of the stream has -/
theorem marker_target_ne (S name : Bytes) (hS : S = [bDot] ∨ [bDot, bSlash].isPrefixOf S = true) :
    fixStreamName ((if S.getLast? = some bSlash then S.dropLast else S) ++ bSlash :: [bDot]) ≠ pathOf S name := by
  have key : ∀ sn : Bytes, (∃ cs, splitOn bSlash sn = [bDot] :: cs) → sn.length ≤ S.length →
      fixStreamName (sn ++ bSlash :: [bDot]) ≠ pathOf S name := by
    intro sn ⟨cs, hcs⟩ hle heq
    have hsplit : splitOn bSlash (sn ++ bSlash :: [bDot]) = [bDot] :: (cs ++ [[bDot]]) := by
      rw [splitOn_append_sep_gen, hcs]
      have : splitOn bSlash [bDot] = [[bDot]] := by decide
      rw [this]; simp
    have := (fixStreamName_length _ _ hsplit).2.2 (by simp)
    rw [heq] at this
    simp only [pathOf, List.length_append, List.length_cons, List.length_nil] at this
    omega
  by_cases hl : S.getLast? = some bSlash
  · rw [if_pos hl]
    obtain ⟨sn, hsn⟩ := List.getLast?_eq_some_iff.mp hl
    have hdl : S.dropLast = sn := by rw [hsn, List.dropLast_concat]
    rw [hdl]
    exact key sn (streamShape_dropSlash S sn hS hsn) (by rw [hsn]; simp)
  · rw [if_neg hl]
    exact key S (streamShape_split S hS) (Nat.le_refl _)

/-! ## `segment()` with directory markers -/

/-- what `parseManifestStream` guarantees of every error-free stream (after all fixes) -/
structure StreamOk (s : Stream) : Prop where
  fit : PkgFit s
  shape : s.name = [bDot] ∨ [bDot, bSlash].isPrefixOf s.name = true
  toks : ∀ f ∈ s.files, IsMarker f ∨ fixStreamName (pathOf s.name f.name) = pathOf s.name f.name

/-- the token passed the canonical-path test -/
def isCleanTok (S : Bytes) (f : FTok) : Bool := decide (fixStreamName (pathOf S f.name) = pathOf S f.name)

def cleanPaths (S : Bytes) (fs : List FTok) : List Bytes :=
  (fs.filter (isCleanTok S)).map fun f => pathOf S f.name

theorem resolveStream_of_not_clean (s : Stream) (hok : StreamOk s) (p : Bytes)
    (h : p ∉ cleanPaths s.name s.files) : resolveStream s p = [] := by
  unfold resolveStream
  rw [List.flatMap_eq_nil_iff]
  intro f hf
  by_cases hp : pathOf s.name f.name = p
  · rw [if_pos hp]
    rcases hok.toks f hf with hm | hc
    · rw [hm.1, resolveTok_len0]
    · exfalso; apply h
      unfold cleanPaths
      rw [List.mem_map]
      exact ⟨f, List.mem_filter.mpr ⟨hf, by simp [isCleanTok, hc]⟩, hp⟩
  · rw [if_neg hp]

/-- the per-stream loop of `segment()` for any stream the parser lets through: clean tokens add
their `resolveStream`, markers add nothing -/
theorem segmentStream_spec' (s : Stream) (hok : StreamOk s) :
    ∀ (fs : List FTok) (seen : List Bytes) (m : SegMap), (∀ f ∈ fs, f ∈ s.files) →
      ∃ m', segmentStream firstBlock (toPStream s) fs seen m = .ok m' ∧
        ∀ (a b : Bytes), segLookup m' (splitPath (pathOf a b)) =
          segLookup m (splitPath (pathOf a b)) ++
            (if pathOf a b ∈ cleanPaths s.name fs ∧ pathOf a b ∉ seen
             then resolveStream s (pathOf a b) else []) := by
  intro fs
  induction fs with
  | nil => intro seen m _; exact ⟨m, rfl, by intro a b; simp [cleanPaths]⟩
  | cons f rest ih =>
    intro seen m hmem
    have hfmem : f ∈ s.files := hmem f (by simp)
    have hrestmem : ∀ x ∈ rest, x ∈ s.files := fun x hx => hmem x (List.mem_cons_of_mem _ hx)
    by_cases hclean : fixStreamName (pathOf s.name f.name) = pathOf s.name f.name
    · -- a token that passed the canonical-path test: as in `segmentStream_spec`
      have hnts := clean_no_trailing_slash s.name f.name hok.shape hclean
      have hsn : (if (toPStream s).name.getLast? = some bSlash then (toPStream s).name.dropLast
          else (toPStream s).name) = s.name := by
        rw [if_neg (by simpa [toPStream] using hnts)]; rfl
      have hcp : cleanPaths s.name (f :: rest) = pathOf s.name f.name :: cleanPaths s.name rest := by
        simp [cleanPaths, List.filter_cons, isCleanTok, hclean]
      unfold segmentStream
      simp only [hsn]
      have hpath : s.name ++ bSlash :: f.name = pathOf s.name f.name := rfl
      rw [hpath]
      by_cases hseen : seen.contains (pathOf s.name f.name) = true
      · rw [if_pos hseen]
        obtain ⟨m', h1, h2⟩ := ih seen m hrestmem
        refine ⟨m', h1, ?_⟩
        intro a b
        rw [h2 a b, hcp]
        congr 1
        have hin : pathOf s.name f.name ∈ seen := by simpa using hseen
        by_cases hp : pathOf a b = pathOf s.name f.name
        · rw [hp]; simp [hin]
        · simp [hp]
      · rw [if_neg hseen]
        obtain ⟨segs, hs1, hs2⟩ := sendByName_gen s hok.fit (pathOf s.name f.name)
        rw [hclean] at hs2
        rw [hs1]
        simp only [Res.bind]
        obtain ⟨m', h1, h2⟩ := ih (pathOf s.name f.name :: seen)
          (segSet m (splitPath (pathOf s.name f.name))
            (segLookup m (splitPath (pathOf s.name f.name)) ++ keepPositive segs)) hrestmem
        refine ⟨m', h1, ?_⟩
        intro a b
        rw [h2 a b, segLookup_segSet, hs2, hcp]
        have hnin : pathOf s.name f.name ∉ seen := by simpa using hseen
        by_cases hp : pathOf a b = pathOf s.name f.name
        · rw [hp]; simp [hnin]
        · have hk : splitPath (pathOf a b) ≠ splitPath (pathOf s.name f.name) :=
            fun h => hp (splitPath_inj_pathOf _ _ _ _ h)
          rw [if_neg hk]
          congr 1
          simp [hp]
    · -- the directory marker: looked up under a path no token has, adds nothing
      have hmark : IsMarker f := by
        rcases hok.toks f hfmem with h | h
        · exact h
        · exact absurd h hclean
      have hcp : cleanPaths s.name (f :: rest) = cleanPaths s.name rest := by
        simp [cleanPaths, List.filter_cons, isCleanTok, hclean]
      unfold segmentStream
      simp only []
      have hname : (toPStream s).name = s.name := rfl
      rw [hname, hmark.2]
      generalize hQ : (if s.name.getLast? = some bSlash then s.name.dropLast else s.name) ++ bSlash :: [bDot] = Q
      have hQne : ∀ name, fixStreamName Q ≠ pathOf s.name name := by
        intro name; rw [← hQ]; exact marker_target_ne s.name name hok.shape
      have hQclean : Q ∉ cleanPaths s.name rest := by
        intro hin
        unfold cleanPaths at hin
        obtain ⟨f', hf', hpf'⟩ := List.mem_map.mp hin
        obtain ⟨hf'mem, hf'c⟩ := List.mem_filter.mp hf'
        have hc' : fixStreamName (pathOf s.name f'.name) = pathOf s.name f'.name := by
          simpa [isCleanTok] using hf'c
        rw [hpf'] at hc'
        exact hQne f'.name (by rw [hc', hpf'])
      by_cases hseen : seen.contains Q = true
      · rw [if_pos hseen]
        obtain ⟨m', h1, h2⟩ := ih seen m hrestmem
        exact ⟨m', h1, fun a b => by rw [h2 a b, hcp]⟩
      · rw [if_neg hseen]
        obtain ⟨segs, hs1, hs2⟩ := sendByName_gen s hok.fit Q
        have hnil : keepPositive segs = [] := by
          rw [hs2]
          apply resolveStream_nil_of_not_mem
          intro hin
          obtain ⟨f', _, hpf'⟩ := List.mem_map.mp hin
          exact hQne f'.name hpf'.symm
        rw [hs1]
        simp only [Res.bind]
        obtain ⟨m', h1, h2⟩ := ih (Q :: seen)
          (segSet m (splitPath Q) (segLookup m (splitPath Q) ++ keepPositive segs)) hrestmem
        refine ⟨m', h1, ?_⟩
        intro a b
        rw [h2 a b, segLookup_segSet, hnil, List.append_nil, hcp]
        have e1 : (if splitPath (pathOf a b) = splitPath Q then segLookup m (splitPath Q)
            else segLookup m (splitPath (pathOf a b))) = segLookup m (splitPath (pathOf a b)) := by
          split
          · rename_i h; rw [h]
          · rfl
        rw [e1]
        congr 1
        by_cases hin : pathOf a b ∈ cleanPaths s.name rest
        · have : pathOf a b ≠ Q := fun h => hQclean (h ▸ hin)
          simp [hin, this]
        · simp [hin]

/-- **`segment()` never applies a manifest partially** — for any list of streams as the parser
produces them: either some stream has an error and the result is the error, or every path's
segment list is its `resolve` over all parsed streams. -/
theorem segmentStreams_total' : ∀ (L : List PStream) (m : SegMap),
    (∀ ps ∈ L, ps.err = false → ps = toPStream (ofPStream ps) ∧ StreamOk (ofPStream ps)) →
    (segmentStreams firstBlock L m = .err ∧ ∃ ps ∈ L, ps.err = true) ∨
    (∃ m', segmentStreams firstBlock L m = .ok m' ∧ (∀ ps ∈ L, ps.err = false) ∧
      ∀ a b : Bytes, segLookup m' (splitPath (pathOf a b)) =
        segLookup m (splitPath (pathOf a b)) ++ resolve (L.map ofPStream) (pathOf a b))
  | [], m, _ => Or.inr ⟨m, rfl, by simp, by intro a b; simp [resolve]⟩
  | ps :: rest, m, h => by
    unfold segmentStreams
    by_cases he : ps.err = true
    · rw [if_pos he]; exact Or.inl ⟨rfl, ps, by simp, he⟩
    · rw [if_neg he]
      have he' : ps.err = false := by simpa using he
      obtain ⟨e1, e2⟩ := h ps (by simp) he'
      obtain ⟨m1, h1, h2⟩ := segmentStream_spec' (ofPStream ps) e2 (ofPStream ps).files [] m (fun _ hx => hx)
      have hgoal : segmentStream firstBlock ps ps.files [] m = .ok m1 := by
        have e := e1
        rw [e]; exact h1
      rw [hgoal]
      simp only [Res.bind]
      rcases segmentStreams_total' rest m1 (fun x hx => h x (List.mem_cons_of_mem _ hx)) with
        ⟨r1, x, hx, hxe⟩ | ⟨m2, r1, r2, r3⟩
      · exact Or.inl ⟨r1, x, List.mem_cons_of_mem _ hx, hxe⟩
      · refine Or.inr ⟨m2, r1, ?_, ?_⟩
        · intro x hx
          rcases List.mem_cons.mp hx with rfl | hx
          · exact he'
          · exact r2 x hx
        · intro a b
          rw [r3 a b, h2 a b]
          simp only [resolve, List.map_cons, List.flatMap_cons, List.append_assoc]
          congr 2
          by_cases hin : pathOf a b ∈ cleanPaths (ofPStream ps).name (ofPStream ps).files
          · simp [hin]
          · rw [resolveStream_of_not_clean _ e2 _ hin]; simp [hin]

/-- every error-free stream `parseManifestStream` returns is `StreamOk` -/
theorem pstream_ok (line : Bytes) (h : (pkgParseStream line).err = false) :
    pkgParseStream line = toPStream (ofPStream (pkgParseStream line)) ∧ StreamOk (ofPStream (pkgParseStream line)) := by
  obtain ⟨e1, e2⟩ := pstream_fit line h
  obtain ⟨s, hs, _, _, hshape, h2⟩ := pkgParseStream_shape line h
  refine ⟨e1, e2, ?_, ?_⟩
  · rw [hs]; exact hshape
  · rw [hs]
    intro f hf
    by_cases hm : IsMarker f
    · exact Or.inl hm
    · exact Or.inr ((h2 f hf).2 hm)

end ArvVerif.C10
