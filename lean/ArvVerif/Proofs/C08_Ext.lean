/-
C08 — helper lemmas for the extension layer (`Model/C08_Ext.lean`): paged Readdir, Size(),
MemorySize(), memSegment capacity.
-/
import ArvVerif.Proofs.C08_Hist1
import ArvVerif.Model.C08_Ext
namespace ArvVerif.C08

variable {max : Nat} {hash : Bytes → Loc}

/-! ### paging -/

theorem take_append_drop_min {α : Type} (L : List α) (c S : Nat) :
    L.take c ++ (L.drop (min c L.length)).take S = L.take (c + S) := by
  by_cases h : c ≤ L.length
  · rw [Nat.min_eq_left h, List.take_add]
  · have h' : L.length ≤ c := by omega
    rw [Nat.min_eq_right h', List.drop_length, List.take_nil, List.append_nil,
      List.take_of_length_le h', List.take_of_length_le (by omega)]

theorem pageStep_eof (u : Unread) (count : Nat) (h : u.pos ≥ u.snap.length) :
    pageStep u count = ([], u, Err.eof) := by
  simp [pageStep, h]

theorem pageStep_ok (u : Unread) (count : Nat) (h : u.pos < u.snap.length) :
    pageStep u count = ((u.snap.drop u.pos).take count,
      { u with pos := u.pos + ((u.snap.drop u.pos).take count).length }, Err.ok) := by
  have : ¬ u.pos ≥ u.snap.length := by omega
  simp [pageStep, this]

theorem pageStep_snap (u : Unread) (count : Nat) : (pageStep u count).2.1.snap = u.snap := by
  unfold pageStep
  split <;> rfl

theorem pageStep_pos (u : Unread) (count : Nat) :
    (pageStep u count).2.1.pos = u.pos + (pageStep u count).1.length := by
  unfold pageStep
  split <;> simp

theorem pageStep_page (u : Unread) (count : Nat) :
    (pageStep u count).1 = (u.snap.drop u.pos).take count := by
  unfold pageStep
  split
  · rename_i h
    rw [List.drop_eq_nil_of_le h, List.take_nil]
  · rfl

/-- Whatever the counts: the pages, concatenated, are the next `Σ counts` entries of the snapshot —
every entry once, in order, nothing else. -/
theorem pageRun_flatten : ∀ (cs : List Nat) (u : Unread),
    (pageRun u cs).flatten = (u.snap.drop u.pos).take cs.sum := by
  intro cs
  induction cs with
  | nil => intro u; simp [pageRun]
  | cons c cs ih =>
    intro u
    simp only [pageRun, List.flatten_cons, List.sum_cons]
    rw [ih, pageStep_snap, pageStep_pos, pageStep_page, List.length_take, List.length_drop,
      ← List.drop_drop, ← take_append_drop_min (u.snap.drop u.pos) c cs.sum, List.length_drop]

/-! ### slots -/

theorem getUnread_setUnread (us : List (Nat × Unread)) (h : Nat) (u : Unread) :
    getUnread (setUnread us h u) h = some u := by
  unfold getUnread setUnread eraseUnread
  rw [List.find?_append]
  have : (us.filter (fun e => !(e.1 == h))).find? (fun e => e.1 == h) = none := by
    rw [List.find?_eq_none]
    intro e he
    have := (List.mem_filter.1 he).2
    simpa using this
  simp [this]

theorem find_filter_ne (us : List (Nat × Unread)) (h h' : Nat) (hne : h' ≠ h) :
    (us.filter (fun e => !(e.1 == h))).find? (fun e => e.1 == h') = us.find? (fun e => e.1 == h') := by
  rw [List.find?_filter]
  congr 1
  funext e
  by_cases h2 : e.1 = h'
  · simp [h2, hne]
  · simp [h2]

theorem getUnread_setUnread_ne (us : List (Nat × Unread)) (h h' : Nat) (u : Unread) (hne : h' ≠ h) :
    getUnread (setUnread us h u) h' = getUnread us h' := by
  unfold getUnread setUnread eraseUnread
  rw [List.find?_append, find_filter_ne us h h' hne]
  have hb : ((h == h') = false) := by simpa using (fun e => hne e.symm)
  cases us.find? (fun e => e.1 == h') with
  | some v => simp
  | none => simp [hb]

theorem getUnread_eraseUnread_ne (us : List (Nat × Unread)) (h h' : Nat) (hne : h' ≠ h) :
    getUnread (eraseUnread us h) h' = getUnread us h' := by
  unfold getUnread eraseUnread
  rw [find_filter_ne us h h' hne]

/-! ### pages of one handle slot in a history -/

/-- the pages handed out through slot `h` in a run (ops and their results) -/
def pagesOf (h : Nat) : List XOp → List XRes → List (List Entry)
  | XOp.hreaddirN h' _ :: ops, XRes.page p _ :: rs =>
    if h' = h then p :: pagesOf h ops rs else pagesOf h ops rs
  | _ :: ops, _ :: rs => pagesOf h ops rs
  | _, _ => []

/-- the operation does not give slot `h` a new filehandle and does not drop it -/
def keepsSlot (h : Nat) : XOp → Bool
  | XOp.base (Op.openF h' ..) => h' != h
  | XOp.base (Op.create h' _) => h' != h
  | XOp.base (Op.close h') => h' != h
  | _ => true

theorem slotReset_ne {h k : Nat} {o : Op} {r : Res} (hk : keepsSlot h (XOp.base o) = true)
    (hs : slotReset o r = some k) : h ≠ k := by
  unfold slotReset at hs
  split at hs <;> simp_all [keepsSlot] <;> omega

/-- One step seen from slot `h` with snapshot `u` pending: either it is a paged call on `h` that
returns `pageStep u count`, or it hands out nothing for `h` and leaves the snapshot alone. -/
theorem stepX_slot {F P W : Type} (impl : FileImpl F P W) (mem : F → Nat) (x : XFS F P W) (h : Nat) (u : Unread)
    (hu : getUnread x.unread h = some u) (op : XOp) (hk : keepsSlot h op = true) :
    (∃ count, pagesOf h [op] [(stepX impl mem x op).2] = [(pageStep u count).1] ∧
       getUnread (stepX impl mem x op).1.unread h = some (pageStep u count).2.1) ∨
    (pagesOf h [op] [(stepX impl mem x op).2] = [] ∧ getUnread (stepX impl mem x op).1.unread h = some u) := by
  cases op with
  | base o =>
    right
    refine ⟨rfl, ?_⟩
    simp only [stepX]
    cases hs : slotReset o (step impl x.fs o).2 with
    | none => exact hu
    | some k =>
      simp only []
      rw [getUnread_eraseUnread_ne _ _ _ (slotReset_ne hk hs)]
      exact hu
  | fsSize => right; exact ⟨rfl, hu⟩
  | memSize => right; exact ⟨rfl, hu⟩
  | hreaddirN h' count =>
    cases hg : getHandle x.fs h' with
    | none =>
      right
      simp only [stepX, hg]
      exact ⟨rfl, hu⟩
    | some hd =>
      cases hn : hd.node with
      | file f =>
        right
        simp only [stepX, hg, hn]
        exact ⟨rfl, hu⟩
      | dir d =>
        by_cases hc : count = 0
        · right
          simp only [stepX, hg, hn, hc, if_true]
          exact ⟨rfl, hu⟩
        · by_cases hh : h' = h
          · left
            subst hh
            refine ⟨count, ?_, ?_⟩
            · simp only [stepX, hg, hn, hc, if_false, hu, Option.getD_some]
              simp [pagesOf]
            · simp only [stepX, hg, hn, hc, if_false, hu, Option.getD_some]
              exact getUnread_setUnread _ _ _
          · right
            simp only [stepX, hg, hn, hc, if_false]
            refine ⟨by simp [pagesOf, hh], ?_⟩
            rw [getUnread_setUnread_ne _ _ _ _ (fun e => hh e.symm)]
            exact hu

theorem pagesOf_cons (h : Nat) (op : XOp) (r : XRes) (ops : List XOp) (rs : List XRes) :
    pagesOf h (op :: ops) (r :: rs) = pagesOf h [op] [r] ++ pagesOf h ops rs := by
  cases op <;> cases r <;> simp [pagesOf]
  split <;> simp

theorem take_take_len {α : Type} (M : List α) (c L : Nat) :
    M.take c ++ (M.drop (M.take c).length).take L = M.take ((M.take c).length + L) := by
  rw [List.take_add]
  congr 1
  rw [List.length_take]
  by_cases h : c ≤ M.length
  · rw [Nat.min_eq_left h]
  · rw [Nat.min_eq_right (by omega), List.take_length, List.take_of_length_le (by omega)]

/-- **Pages of one handle in a history.** While slot `h` keeps its filehandle, whatever else happens
in between (other handles paging, entries created / removed / renamed, writes, flushes): the pages
handed out through `h`, concatenated, are a prefix of the rest of its snapshot — in order, each entry
once, nothing that was not in the snapshot — and the slot has advanced by exactly that many entries. -/
theorem pages_history {F P W : Type} (impl : FileImpl F P W) (mem : F → Nat) (h : Nat) :
    ∀ (ops : List XOp) (x : XFS F P W) (u : Unread), getUnread x.unread h = some u →
      (∀ op ∈ ops, keepsSlot h op = true) →
      (pagesOf h ops (runX impl mem x ops).2).flatten =
        (u.snap.drop u.pos).take (pagesOf h ops (runX impl mem x ops).2).flatten.length ∧
      getUnread (runX impl mem x ops).1.unread h =
        some ⟨u.snap, u.pos + (pagesOf h ops (runX impl mem x ops).2).flatten.length⟩ := by
  intro ops
  induction ops with
  | nil =>
    intro x u hu _
    simp [runX, pagesOf, hu]
  | cons op rest ih =>
    intro x u hu hk
    have hk1 := hk op (List.mem_cons_self ..)
    have hk2 : ∀ o ∈ rest, keepsSlot h o = true := fun o ho => hk o (List.mem_cons_of_mem _ ho)
    simp only [runX]
    rw [pagesOf_cons]
    rcases stepX_slot impl mem x h u hu op hk1 with ⟨c, hp, hu'⟩ | ⟨hp, hu'⟩
    · obtain ⟨i1, i2⟩ := ih _ _ hu' hk2
      rw [hp]
      rw [pageStep_snap, pageStep_pos, pageStep_page] at i1 i2
      rw [pageStep_page]
      simp only [List.cons_append, List.nil_append, List.flatten_cons, List.length_append]
      rw [← List.drop_drop] at i1
      refine ⟨?_, ?_⟩
      · rw [← take_take_len]
        congr 1
      · rw [i2, Nat.add_assoc]
    · obtain ⟨i1, i2⟩ := ih _ _ hu' hk2
      rw [hp]
      exact ⟨i1, i2⟩

/-! ### Size() / MemorySize() -/

theorem entriesList_abs {s : CFS} (hinv : Inv max hash s) (d : Nat) :
    entriesList specImpl (absFS s) d = entriesList (concImpl hash max) s d := by
  simp only [entriesList, absFS_ents, nodeName_abs, nodeSize_abs hinv]

theorem treeSum_congr {F P W F' P' W' : Type} (s : FS F P W) (s' : FS F' P' W') (he : s'.ents = s.ents)
    (v v' : Nat → Nat) (hv : ∀ f, v' f = v f) : ∀ (fuel d : Nat), treeSum s' v' fuel d = treeSum s v fuel d := by
  intro fuel
  induction fuel with
  | zero => intro d; rfl
  | succ k ih =>
    intro d
    simp only [treeSum, he]
    congr 1
    apply List.map_congr_left
    intro e _
    cases e.2 with
    | file f => exact hv f
    | dir c => exact ih c

theorem fsSize_abs {s : CFS} (hinv : Inv max hash s) :
    fsSize specImpl (absFS s) = fsSize (concImpl hash max) s := by
  unfold fsSize
  exact treeSum_congr s (absFS s) rfl _ _ (fun f => nodeSize_abs hinv (Node.file f)) _ _

theorem sum_map_le {α : Type} (l : List α) (f g : α → Nat) (h : ∀ a ∈ l, f a ≤ g a) :
    (l.map f).sum ≤ (l.map g).sum := by
  induction l with
  | nil => simp
  | cons a l ih =>
    simp only [List.map_cons, List.sum_cons]
    have h1 := h a (List.mem_cons_self ..)
    have h2 := ih (fun b hb => h b (List.mem_cons_of_mem _ hb))
    omega

theorem treeSum_le {F P W : Type} (s : FS F P W) (v v' : Nat → Nat) (hv : ∀ f, v f ≤ v' f) :
    ∀ (fuel d : Nat), treeSum s v fuel d ≤ treeSum s v' fuel d := by
  intro fuel
  induction fuel with
  | zero => intro d; exact Nat.le_refl _
  | succ k ih =>
    intro d
    simp only [treeSum]
    apply sum_map_le
    intro e _
    cases e.2 with
    | file f => exact hv f
    | dir c => exact ih c

theorem memOf_le_sumLen (segs : List Seg) :
    (segs.map (fun s => match s with
      | Seg.mem buf _ => buf.length
      | Seg.stored .. => 0)).sum ≤ sumLen segs := by
  unfold sumLen
  apply sum_map_le
  intro s _
  cases s <;> simp [Seg.len]

theorem memSize_le_fsSize {s : CFS} (hinv : Inv max hash s) :
    memSize memOf s ≤ fsSize (concImpl hash max) s := by
  unfold memSize fsSize
  apply treeSum_le
  intro f
  simp only [nodeSize]
  cases hf : s.files[f]? with
  | none => exact Nat.le_refl _
  | some nf =>
    have hwf := (hinv.files nf (List.mem_of_getElem? hf)).1
    show memOf nf.2 ≤ (concImpl hash max).size nf.2
    show memOf nf.2 ≤ nf.2.size
    rw [hwf.size_eq]
    exact memOf_le_sumLen _

/-! ### memSegment capacity is invisible -/

theorem capTruncate_seg (c : CapSeg) (n : Nat) :
    (capTruncate true c n).seg = memTruncate c.buf c.fl n := by
  unfold capTruncate memTruncate CapSeg.seg
  split
  · rename_i h
    have : (if c.fl ≠ Flush.none ∧ n > c.buf.length then Flush.none else c.fl) = Flush.none := by
      split
      · rfl
      · rename_i h2
        rcases h with h | h
        · by_cases hf : c.fl = Flush.none
          · exact hf
          · exact absurd ⟨hf, by omega⟩ h2
        · exact absurd h h2
    simp [this]
  · rename_i h
    split
    · rename_i h2
      have h3 : ¬ (c.fl ≠ Flush.none ∧ n > c.buf.length) := by omega
      simp [h3, show n - c.buf.length = 0 by omega, zeros]
    · rename_i h2
      have h3 : ¬ (c.fl ≠ Flush.none ∧ n > c.buf.length) := fun h4 => h (Or.inr h4)
      simp [h3, List.take_of_length_le (show c.buf.length ≤ n by omega)]

theorem capWriteAt_seg (c : CapSeg) (p : Bytes) (off : Nat) :
    (capWriteAt c p off).map CapSeg.seg = memWriteAt c.buf p off := by
  unfold capWriteAt memWriteAt
  split
  · rfl
  · split <;> rfl

theorem capSlice_seg (c : CapSeg) (n : Nat) (l : Option Nat) :
    (capSlice c n l).seg = c.seg.slice n l := by
  cases l <;> rfl

end ArvVerif.C08
