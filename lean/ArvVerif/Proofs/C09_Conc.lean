/-
C09 — proofs about the goroutine protocol of a synchronous flush (Model/C09_Conc.lean):
throttle balance, the progress measure, deadlock freedom.
-/
import ArvVerif.Model.C09_Conc
namespace ArvVerif.C09.Conc

open ArvVerif.C09 (Outcome)

/-! ## lists -/

theorem sumF_set (f : PC → Nat) : ∀ (l : List PC) (i : Nat) (p x : PC), l[i]? = some p →
    sumF f (l.set i x) + f p = sumF f l + f x
  | [], i, p, x, h => by simp at h
  | a :: l, 0, p, x, h => by
    simp only [List.getElem?_cons_zero, Option.some.injEq] at h
    subst h
    simp only [sumF, List.set_cons_zero, List.map_cons, List.sum_cons]; omega
  | a :: l, i + 1, p, x, h => by
    simp only [List.getElem?_cons_succ] at h
    have := sumF_set f l i p x h
    simp only [sumF, List.set_cons_succ, List.map_cons, List.sum_cons] at this ⊢; omega

theorem getElem?_set' {l : List PC} {i : Nat} {p : PC} (h : l[i]? = some p) (x : PC) (j : Nat) :
    (l.set i x)[j]? = if j = i then some x else l[j]? := by
  have hlt : i < l.length := by
    rcases Nat.lt_or_ge i l.length with h' | h'
    · exact h'
    · rw [List.getElem?_eq_none h'] at h; cases h
  by_cases hj : j = i
  · subst hj; simp [hlt]
  · have hji : i ≠ j := fun e => hj e.symm
    simp [hj, List.getElem?_set_ne hji]

theorem exists_holding_of_pos : ∀ (l : List PC), 0 < nHold l → ∃ (i : Nat) (p : PC), l[i]? = some p ∧ p.holding = true
  | [], h => by simp [nHold, sumF] at h
  | a :: l, h => by
    by_cases ha : a.holding = true
    · exact ⟨0, a, rfl, ha⟩
    · have : 0 < nHold l := by
        simp only [nHold, sumF, List.map_cons, List.sum_cons] at h ⊢
        simp only [ha] at h
        simpa using h
      obtain ⟨i, p, h1, h2⟩ := exists_holding_of_pos l this
      exact ⟨i + 1, p, by simp only [List.getElem?_cons_succ]; exact h1, h2⟩

theorem exists_not_quiet : ∀ (l : List PC), l.all PC.quiet = false → ∃ (i : Nat) (p : PC), l[i]? = some p ∧ p.quiet = false
  | [], h => by simp at h
  | a :: l, h => by
    by_cases ha : a.quiet = true
    · have : l.all PC.quiet = false := by
        simp only [List.all_cons, ha, Bool.true_and] at h; exact h
      obtain ⟨i, p, h1, h2⟩ := exists_not_quiet l this
      exact ⟨i + 1, p, by simp only [List.getElem?_cons_succ]; exact h1, h2⟩
    · exact ⟨0, a, rfl, by simpa using ha⟩

/-! ## the throttle -/

/-- slots in use = background writers + tasks between `Acquire` and `Release`; never above capacity -/
structure TInv (cap : Nat) (s : CS) : Prop where
  use : s.inUse = s.bg + nHold s.pcs
  le : s.inUse ≤ cap

theorem nHold_set {l : List PC} {i : Nat} {p : PC} (h : l[i]? = some p) (x : PC) :
    nHold (l.set i x) + (if p.holding then 1 else 0) = nHold l + (if x.holding then 1 else 0) :=
  sumF_set _ l i p x h

theorem TInv.init (n bg : Nat) (script : List Bool) (dflt : Bool) (h : bg ≤ cap) : TInv cap (init n bg script dflt) := by
  refine ⟨?_, h⟩
  have : ∀ n, nHold (List.replicate n PC.idle) = 0 := by
    intro n; induction n with
    | zero => rfl
    | succ n ih => simp [nHold, sumF, List.replicate_succ, PC.holding]
  simp [Conc.init, this]

theorem step_tinv {cap : Nat} {s u : CS} {a : Act} (hs : TInv cap s) (h : step cap s a = some u) : TInv cap u := by
  obtain ⟨h1, h2⟩ := hs
  cases a with
  | spawn i =>
    simp only [step] at h
    split at h
    · next hp =>
      cases h
      have := nHold_set hp (if s.cgErr.isSome then PC.dropped else PC.spawned)
      have hx : (if s.cgErr.isSome then PC.dropped else PC.spawned).holding = false := by split <;> rfl
      rw [hx] at this
      simp [PC.holding] at this
      exact ⟨by simp only [CS.setPc]; omega, h2⟩
    · cases h
  | check i =>
    simp only [step] at h
    split at h
    · next hp =>
      cases h
      have := nHold_set hp (if s.cancelled then PC.returned .skip true else PC.waiting)
      have hx : (if s.cancelled then PC.returned .skip true else PC.waiting).holding = false := by split <;> rfl
      rw [hx] at this
      simp [PC.holding] at this
      exact ⟨by simp only [CS.setPc]; omega, h2⟩
    · cases h
  | acquire i =>
    simp only [step] at h
    split at h
    · next hp =>
      split at h
      · next hlt =>
        cases h
        have := nHold_set hp PC.writing
        simp [PC.holding] at this
        exact ⟨by simp only [CS.setPc]; omega, by simp only [CS.setPc]; omega⟩
      · cases h
    · cases h
  | putb i =>
    simp only [step] at h
    split at h
    · next hp =>
      cases h
      have : nHold (s.pcs.set i (PC.answered (s.script.headD s.dflt))) + 1 = nHold s.pcs + 1 :=
        nHold_set hp (PC.answered (s.script.headD s.dflt))
      exact ⟨by simp only [CS.setPc]; omega, h2⟩
    · cases h
  | release i =>
    simp only [step] at h
    split at h
    · next b hp =>
      cases h
      have := nHold_set hp (PC.released b)
      simp [PC.holding] at this
      exact ⟨by simp only [CS.setPc]; omega, by simp only [CS.setPc]; omega⟩
    · cases h
  | ret i =>
    simp only [step] at h
    split at h
    · next b hp =>
      cases h
      have := nHold_set hp (PC.returned (outcomeOf b) false)
      simp [PC.holding] at this
      exact ⟨by simp only [CS.setPc]; omega, h2⟩
    · cases h
  | closeDone i =>
    simp only [step] at h
    split at h
    · next o hp =>
      cases h
      have := nHold_set hp (PC.returned o true)
      simp [PC.holding] at this
      exact ⟨by simp only [CS.setPc]; omega, h2⟩
    · next o hp =>
      cases h
      have := nHold_set hp (PC.finished o true)
      simp [PC.holding] at this
      exact ⟨by simp only [CS.setPc]; omega, h2⟩
    · cases h
  | finish i =>
    simp only [step] at h
    split at h
    · next o c hp =>
      have := nHold_set hp (PC.finished o c)
      simp [PC.holding] at this
      split at h <;> cases h <;> exact ⟨by simp only [CS.setPc]; omega, h2⟩
    · cases h
  | bgRelease =>
    simp only [step] at h
    split at h
    · cases h; exact ⟨by simp only; omega, by simp only; omega⟩
    · cases h
  | extCancel =>
    simp only [step] at h
    split at h
    · cases h
    · cases h; exact ⟨h1, h2⟩

theorem reach_tinv {cap : Nat} {s u : CS} (hs : TInv cap s) (h : Reach cap s u) : TInv cap u := by
  induction h with
  | refl => exact hs
  | tail a _ hst ih => exact step_tinv ih hst

/-! ## the measure -/

theorem rank_set {l : List PC} {i : Nat} {p : PC} (h : l[i]? = some p) (x : PC) :
    sumF PC.rank (l.set i x) + p.rank = sumF PC.rank l + x.rank :=
  sumF_set _ l i p x h

/-- every micro-step lowers `mu`: no schedule runs for ever -/
theorem step_mu {cap : Nat} {s u : CS} {a : Act} (h : step cap s a = some u) : mu u < mu s := by
  cases a with
  | spawn i =>
    simp only [step] at h
    split at h
    · next hp =>
      cases h
      have := rank_set hp (if s.cgErr.isSome then PC.dropped else PC.spawned)
      have hx : (if s.cgErr.isSome then PC.dropped else PC.spawned).rank ≤ 8 := by split <;> simp [PC.rank]
      have h9 : PC.idle.rank = 9 := rfl
      rw [h9] at this
      simp only [mu, CS.setPc]; omega
    · cases h
  | check i =>
    simp only [step] at h
    split at h
    · next hp =>
      cases h
      have := rank_set hp (if s.cancelled then PC.returned .skip true else PC.waiting)
      have hx : (if s.cancelled then PC.returned .skip true else PC.waiting).rank ≤ 7 := by split <;> simp [PC.rank]
      have h9 : PC.spawned.rank = 8 := rfl
      rw [h9] at this
      simp only [mu, CS.setPc]; omega
    · cases h
  | acquire i =>
    simp only [step] at h
    split at h
    · next hp =>
      split at h
      · cases h
        have := rank_set hp PC.writing
        simp [PC.rank] at this
        simp only [mu, CS.setPc]; omega
      · cases h
    · cases h
  | putb i =>
    simp only [step] at h
    split at h
    · next hp =>
      cases h
      have : sumF PC.rank (s.pcs.set i (PC.answered (s.script.headD s.dflt))) + 6 = sumF PC.rank s.pcs + 5 :=
        rank_set hp (PC.answered (s.script.headD s.dflt))
      simp only [mu, CS.setPc]; omega
    · cases h
  | release i =>
    simp only [step] at h
    split at h
    · next b hp =>
      cases h
      have := rank_set hp (PC.released b)
      simp [PC.rank] at this
      simp only [mu, CS.setPc]; omega
    · cases h
  | ret i =>
    simp only [step] at h
    split at h
    · next b hp =>
      cases h
      have := rank_set hp (PC.returned (outcomeOf b) false)
      simp [PC.rank] at this
      simp only [mu, CS.setPc]; omega
    · cases h
  | closeDone i =>
    simp only [step] at h
    split at h
    · next o hp =>
      cases h
      have := rank_set hp (PC.returned o true)
      simp [PC.rank] at this
      simp only [mu, CS.setPc]; omega
    · next o hp =>
      cases h
      have := rank_set hp (PC.finished o true)
      simp [PC.rank] at this
      simp only [mu, CS.setPc]; omega
    · cases h
  | finish i =>
    simp only [step] at h
    split at h
    · next o c hp =>
      have := rank_set hp (PC.finished o c)
      simp only [PC.rank] at this
      split at h <;> cases h <;> simp only [mu, CS.setPc] <;> (cases c <;> simp at this ⊢ <;> (try split) <;> omega)
    · cases h
  | bgRelease =>
    simp only [step] at h
    split at h
    · cases h; simp only [mu]; omega
    · cases h
  | extCancel =>
    simp only [step] at h
    split at h
    · cases h
    · next hc => cases h; simp only [mu]; simp at hc; simp [hc]

/-- a schedule of enabled actions -/
def runAll (cap : Nat) : CS → List Act → Option CS
  | s, [] => some s
  | s, a :: rest => match step cap s a with
    | some t => runAll cap t rest
    | none => none

theorem runAll_mu {cap : Nat} : ∀ (acts : List Act) (s u : CS), runAll cap s acts = some u → acts.length + mu u ≤ mu s
  | [], s, u, h => by simp only [runAll, Option.some.injEq] at h; subst h; simp
  | a :: rest, s, u, h => by
    simp only [runAll] at h
    split at h
    · next t ht =>
      have := runAll_mu rest t u h
      have := step_mu ht
      simp only [List.length_cons]; omega
    · cases h

theorem runAll_reach {cap : Nat} : ∀ (acts : List Act) (s u : CS), runAll cap s acts = some u → Reach cap s u
  | [], s, u, h => by simp only [runAll, Option.some.injEq] at h; subst h; exact Reach.refl s
  | a :: rest, s, u, h => by
    simp only [runAll] at h
    split at h
    · next t ht =>
      have h2 := runAll_reach rest t u h
      clear h
      induction h2 with
      | refl => exact Reach.tail a (Reach.refl s) ht
      | tail b _ hst ih => exact Reach.tail b ih hst
    · cases h

theorem Reach.trans {cap : Nat} {s t u : CS} (h1 : Reach cap s t) (h2 : Reach cap t u) : Reach cap s u := by
  induction h2 with
  | refl => exact h1
  | tail a _ hst ih => exact Reach.tail a ih hst

/-! ## deadlock freedom -/

/-- an action of the flush's own goroutines or of a background writer (not the environment's cancel) -/
def Act.own : Act → Bool
  | .extCancel => false
  | _ => true

/-- **No deadlock.** With at least one slot, whenever some task is not yet quiet (still counted by
the WaitGroup, or its `done` channel still open) some goroutine can move: the task itself, or — when
it waits in `Acquire` with every slot taken — a holder of a slot, which needs nothing to answer and
release (a background writer releases BEFORE taking a file lock; a task of the flush releases right
after PutB). -/
theorem progress {cap : Nat} {s : CS} (hcap : 1 ≤ cap) (hs : TInv cap s) (hq : s.pcs.all PC.quiet = false) :
    ∃ a, a.own = true ∧ (step cap s a).isSome = true := by
  obtain ⟨i, p, hp, hnq⟩ := exists_not_quiet s.pcs hq
  cases p with
  | idle => exact ⟨.spawn i, rfl, by simp only [step, hp, Option.isSome_some]⟩
  | dropped => simp [PC.quiet] at hnq
  | spawned => exact ⟨.check i, rfl, by simp only [step, hp, Option.isSome_some]⟩
  | waiting =>
    by_cases hfree : s.inUse < cap
    · exact ⟨.acquire i, rfl, by simp only [step, hp, hfree, if_true, Option.isSome_some]⟩
    · by_cases hbg : 0 < s.bg
      · exact ⟨.bgRelease, rfl, by simp only [step, hbg, if_true, Option.isSome_some]⟩
      · have : 0 < nHold s.pcs := by have := hs.use; omega
        obtain ⟨j, q, hq1, hq2⟩ := exists_holding_of_pos s.pcs this
        cases q with
        | writing => exact ⟨.putb j, rfl, by simp only [step, hq1, Option.isSome_some]⟩
        | answered b => exact ⟨.release j, rfl, by simp only [step, hq1, Option.isSome_some]⟩
        | _ => simp [PC.holding] at hq2
  | writing => exact ⟨.putb i, rfl, by simp only [step, hp, Option.isSome_some]⟩
  | answered b => exact ⟨.release i, rfl, by simp only [step, hp, Option.isSome_some]⟩
  | released b => exact ⟨.ret i, rfl, by simp only [step, hp, Option.isSome_some]⟩
  | returned o c => exact ⟨.finish i, rfl, by simp only [step, hp]; split <;> rfl⟩
  | finished o c =>
    cases c with
    | true => simp [PC.quiet] at hnq
    | false => exact ⟨.closeDone i, rfl, by simp only [step, hp, Option.isSome_some]⟩

/-- from every state the flush can be driven to quiescence by its own goroutines alone -/
theorem reach_quiet {cap : Nat} (hcap : 1 ≤ cap) : ∀ (m : Nat) (s : CS), mu s ≤ m → TInv cap s →
    ∃ u, Reach cap s u ∧ u.pcs.all PC.quiet = true
  | 0, s, hm, hs => by
    cases hq : s.pcs.all PC.quiet with
    | true => exact ⟨s, Reach.refl s, hq⟩
    | false =>
      obtain ⟨a, _, hu⟩ := progress hcap hs hq
      obtain ⟨u, hu⟩ := Option.isSome_iff_exists.mp hu
      have := step_mu hu; omega
  | m + 1, s, hm, hs => by
    cases hq : s.pcs.all PC.quiet with
    | true => exact ⟨s, Reach.refl s, hq⟩
    | false =>
      obtain ⟨a, _, hu⟩ := progress hcap hs hq
      obtain ⟨u, hu⟩ := Option.isSome_iff_exists.mp hu
      have hlt := step_mu hu
      obtain ⟨v, hv, hvq⟩ := reach_quiet hcap m u (by omega) (step_tinv hs hu)
      exact ⟨v, Reach.trans (Reach.tail a (Reach.refl s) hu) hv, hvq⟩

end ArvVerif.C09.Conc
