/-
C05 helper lemmas, part 4: when `lost` is reported. A slot without replica is wanted only through
`wantStep` on a writable mount in an iteration with desired > 0; conversely, with no replica
anywhere, the second pass of the first active iteration reaches every slot and wants a writable one.
-/
import ArvVerif.Proofs.C05Phys
namespace ArvVerif.C05

/-- generic invariant of the class loop -/
theorem runClasses_inv (env : Env) (sorter : Class → List Slot → List Slot) (I : BState → Prop)
    (hstep : ∀ c b, env.desired c ≠ 0 → IsSorted (less env c) b.slots (sorter c b.slots) → I b →
      I (classIter env c (sorter c b.slots) b)) :
    ∀ (cs : List Class) (b : BState), RunOK env sorter cs b → I b → I (runClasses env sorter cs b) := by
  intro cs
  induction cs with
  | nil => intro b _ h; exact h
  | cons c cs ih =>
    intro b hok h
    unfold runClasses
    unfold RunOK at hok
    by_cases hd : env.desired c = 0
    · simp only [hd, if_true] at hok ⊢; exact ih b hok h
    · simp only [hd, if_false] at hok ⊢
      exact ih _ hok.2 (hstep c b hd hok.1 h)

theorem runClasses_all_zero (env : Env) (sorter : Class → List Slot → List Slot) :
    ∀ (cs : List Class) (b : BState), (∀ c ∈ cs, env.desired c = 0) → runClasses env sorter cs b = b := by
  intro cs
  induction cs with
  | nil => intro b _; rfl
  | cons c cs ih =>
    intro b h
    unfold runClasses
    simp only [h c (List.mem_cons_self ..), if_true]
    exact ih b (fun c' hc' => h c' (List.mem_cons_of_mem _ hc'))

/-! ### where `wantMnt` entries come from -/

def WantFrom (l : List Slot) (st : PassSt) : Prop :=
  ∀ id, st.wantMnt.contains id = true →
    ∃ s ∈ l, s.mnt.id = id ∧ (s.repl.isSome = true ∨ s.mnt.ro = false)

theorem wantStep_new (d : Nat) (s : Slot) (st : PassSt) (x : Nat)
    (h : (wantStep d s st).wantMnt.contains x = true) :
    st.wantMnt.contains x = true ∨ (x = s.mnt.id ∧ (s.repl.isSome = true ∨ s.mnt.ro = false)) := by
  unfold wantStep at h
  split at h
  · rename_i hc
    simp only [List.contains_cons, Bool.or_eq_true, beq_iff_eq] at h
    rcases h with h | h
    · right
      refine ⟨h, ?_⟩
      simp only [Bool.and_eq_true, Bool.or_eq_true, Bool.not_eq_true'] at hc
      exact hc.2
    · left; exact h
  · left; exact h

theorem trySlot_wantFrom (d : Nat) (l : List Slot) (s : Slot) (hs : s ∈ l) (st : PassSt)
    (h : WantFrom l st) : WantFrom l (trySlot d s st) := by
  intro id hid
  unfold trySlot at hid
  split at hid
  · exact h id hid
  · simp only at hid
    rcases wantStep_new d s _ id hid with h' | ⟨rfl, h'⟩
    · simp only [protectStep_wantMnt] at h'; exact h id h'
    · exact ⟨s, hs, rfl, h'⟩

theorem pass1_wantFrom (d : Nat) (l : List Slot) : ∀ (l' : List Slot), (∀ s ∈ l', s ∈ l) → ∀ st : PassSt,
    WantFrom l st → WantFrom l (pass1 d l' st) := by
  intro l'
  induction l' with
  | nil => intro _ st h; exact h
  | cons s l' ih =>
    intro hsub st h
    show WantFrom l (pass1 d l' (pass1Step d st s))
    apply ih (fun x hx => hsub x (List.mem_cons_of_mem _ hx))
    unfold pass1Step
    split
    · exact h
    · split
      · exact h
      · exact trySlot_wantFrom d l s (hsub s (List.mem_cons_self ..)) st h

theorem pass2_wantFrom (d : Nat) (l : List Slot) : ∀ (l' : List Slot), (∀ s ∈ l', s ∈ l) → ∀ st : PassSt,
    WantFrom l st → WantFrom l (pass2 d l' st) := by
  intro l'
  induction l' with
  | nil => intro _ st h; exact h
  | cons s l' ih =>
    intro hsub st h
    show WantFrom l (pass2 d l' (pass2Step d st s))
    apply ih (fun x hx => hsub x (List.mem_cons_of_mem _ hx))
    unfold pass2Step
    split
    · exact h
    · exact trySlot_wantFrom d l s (hsub s (List.mem_cons_self ..)) st h

theorem classIter_wantFrom (d : Nat) (S : List Slot) (u : List Int) :
    WantFrom S (pass2 d S (pass1 d S (passInit u))) := by
  apply pass2_wantFrom d S S (fun _ h => h)
  apply pass1_wantFrom d S S (fun _ h => h)
  intro id hid
  simp [passInit] at hid

/-! ### `lost` is only reported for a block without replica that a writable mount is wanted for -/

def DistinctIds (l : List Mount) : Prop := l.Pairwise (fun a b => a.id ≠ b.id)

theorem distinctIds_of_perm {l₁ l₂ : List Mount} (h : l₁.Perm l₂) (hp : DistinctIds l₂) : DistinctIds l₁ :=
  (h.pairwise_iff (fun {_ _} hab => fun e => hab e.symm)).2 hp

/-- an empty slot is wanted only if its mount is writable -/
def EmptyWantWritable (b : BState) : Prop :=
  DistinctIds (b.slots.map (·.mnt)) ∧ ∀ s ∈ b.slots, s.repl = none → s.want = true → s.mnt.ro = false

theorem classIter_emptyWantWritable (env : Env) (c : Class) (S : List Slot) (b : BState)
    (hS : S.Perm b.slots) (h : EmptyWantWritable b) : EmptyWantWritable (classIter env c S b) := by
  have hidS : DistinctIds (S.map (·.mnt)) := distinctIds_of_perm (hS.map _) h.1
  constructor
  · exact distinctIds_of_perm (coreRel_mnt_perm (classIter_coreRel env c hS)) h.1
  · intro s' hs' hr hw
    rw [classIter_slots] at hs'
    obtain ⟨s0, hs0, rfl⟩ := List.mem_map.1 hs'
    simp only [markWant_repl, markWant_mnt] at hr ⊢
    rcases (markWant_want_iff _ s0).1 hw with hw0 | hw0
    · exact h.2 s0 (hS.mem_iff.1 hs0) hr hw0
    · obtain ⟨s1, hs1, hid, hcond⟩ := classIter_wantFrom (env.desired c) S b.utd _ hw0
      have : s1 = s0 := eq_of_pairwise_map (fun (x : Slot) => x.mnt) (fun (a b : Mount) => a.id ≠ b.id) S hidS s1 hs1 s0 hs0
        (fun hne => hne hid) (fun hne => hne hid.symm)
      subst this
      rcases hcond with hc | hc
      · rw [hr] at hc; cases hc
      · exact hc

theorem initSlots_emptyWantWritable (mounts : List Mount) (reps : List Replica) (hid : DistinctIds mounts) :
    EmptyWantWritable { slots := initSlots mounts reps, utd := [], underrep := false } := by
  constructor
  · show DistinctIds ((initSlots mounts reps).map (·.mnt))
    rw [initSlots_mnt]; exact hid
  · intro s hs hr hw
    have := (mem_initSlots hs).2.2
    rw [hr] at this
    rw [this] at hw
    cases hw

/-! ### with no replica anywhere, an active iteration wants a writable mount -/

/-- pass-state facts that hold while no visited slot has a replica -/
def NoReplInv (st : PassSt) : Prop :=
  st.replProt = 0 ∧ st.done = false ∧ (st.wantDev ≠ [] → st.wantMnt ≠ []) ∧ (0 < st.replWant → st.wantMnt ≠ [])

theorem protectStep_none (d : Nat) (s : Slot) (st : PassSt) (h : s.repl = none) : protectStep d s st = st := by
  unfold protectStep; rw [h]

theorem contains_ne_nil {α : Type} [BEq α] {l : List α} {x : α} (h : l.contains x = true) : l ≠ [] := by
  intro e; rw [e] at h; simp at h

theorem trySlot_noRepl (d : Nat) (hd : d ≠ 0) (s : Slot) (hs : s.repl = none) (st : PassSt) (h : NoReplInv st) :
    NoReplInv (trySlot d s st) ∧ (st.wantMnt ≠ [] → (trySlot d s st).wantMnt ≠ []) ∧
    (s.mnt.ro = false → (trySlot d s st).wantMnt ≠ []) := by
  obtain ⟨h1, h2, h3, h4⟩ := h
  by_cases hc : (st.wantMnt.contains s.mnt.id || st.wantDev.contains s.mnt.dev) = true
  · have e : trySlot d s st = { st with done := false } := by unfold trySlot; rw [if_pos hc]
    rw [e]
    refine ⟨⟨h1, rfl, h3, h4⟩, fun h => h, fun _ => ?_⟩
    simp only [Bool.or_eq_true] at hc
    rcases hc with hc | hc
    · exact contains_ne_nil hc
    · exact h3 (contains_ne_nil hc)
  · have hc' := Bool.eq_false_iff.mpr hc
    rw [Bool.or_eq_false_iff] at hc'
    rw [trySlot_fresh d s st hc'.1 hc'.2, protectStep_none d s st hs]
    have hdz : decide (d ≤ 0) = false := decide_eq_false (by omega)
    have hdone : (decide (d ≤ (wantStep d s st).replProt) && decide (d ≤ (wantStep d s st).replWant)) = false := by
      rw [wantStep_replProt, h1, hdz]; rfl
    have key : ((wantStep d s st).wantDev ≠ [] → (wantStep d s st).wantMnt ≠ []) ∧
        (0 < (wantStep d s st).replWant → (wantStep d s st).wantMnt ≠ []) ∧
        (st.wantMnt ≠ [] → (wantStep d s st).wantMnt ≠ []) ∧
        (s.mnt.ro = false → (wantStep d s st).wantMnt ≠ []) := by
      unfold wantStep
      by_cases hw : (decide (st.replWant < d) && (s.repl.isSome || !s.mnt.ro)) = true
      · rw [if_pos hw]
        exact ⟨fun _ => List.cons_ne_nil _ _, fun _ => List.cons_ne_nil _ _, fun _ => List.cons_ne_nil _ _,
          fun _ => List.cons_ne_nil _ _⟩
      · rw [if_neg hw]
        refine ⟨h3, h4, fun h => h, fun hro => h4 ?_⟩
        rw [hs, hro] at hw
        simp at hw
        omega
    refine ⟨⟨?_, hdone, key.1, key.2.1⟩, key.2.2.1, key.2.2.2⟩
    show (wantStep d s st).replProt = 0
    rw [wantStep_replProt]; exact h1

theorem pass1_noRepl (d : Nat) (hd : d ≠ 0) : ∀ (l : List Slot), (∀ s ∈ l, s.repl = none) → ∀ st : PassSt,
    NoReplInv st → NoReplInv (pass1 d l st) := by
  intro l
  induction l with
  | nil => intro _ st h; exact h
  | cons s l ih =>
    intro hl st h
    show NoReplInv (pass1 d l (pass1Step d st s))
    apply ih (fun x hx => hl x (List.mem_cons_of_mem _ hx))
    unfold pass1Step
    split
    · exact h
    · split
      · exact h
      · exact (trySlot_noRepl d hd s (hl s (List.mem_cons_self ..)) st h).1

theorem pass2_nonempty (d : Nat) (hd : d ≠ 0) : ∀ (l : List Slot), (∀ s ∈ l, s.repl = none) → ∀ st : PassSt,
    NoReplInv st → st.wantMnt ≠ [] → (pass2 d l st).wantMnt ≠ [] := by
  intro l
  induction l with
  | nil => intro _ st _ h; exact h
  | cons s l ih =>
    intro hl st h hne
    show (pass2 d l (pass2Step d st s)).wantMnt ≠ []
    have hstep : pass2Step d st s = trySlot d s st := by unfold pass2Step; rw [h.2.1]; simp
    rw [hstep]
    have := trySlot_noRepl d hd s (hl s (List.mem_cons_self ..)) st h
    exact ih (fun x hx => hl x (List.mem_cons_of_mem _ hx)) _ this.1 (this.2.1 hne)

theorem pass2_wants (d : Nat) (hd : d ≠ 0) : ∀ (l : List Slot), (∀ s ∈ l, s.repl = none) →
    (∃ w ∈ l, w.mnt.ro = false) → ∀ st : PassSt, NoReplInv st → (pass2 d l st).wantMnt ≠ [] := by
  intro l
  induction l with
  | nil => intro _ ⟨w, hw, _⟩; cases hw
  | cons s l ih =>
    intro hl ⟨w, hw, hro⟩ st h
    show (pass2 d l (pass2Step d st s)).wantMnt ≠ []
    have hstep : pass2Step d st s = trySlot d s st := by unfold pass2Step; rw [h.2.1]; simp
    rw [hstep]
    have hl' : ∀ x ∈ l, x.repl = none := fun x hx => hl x (List.mem_cons_of_mem _ hx)
    have := trySlot_noRepl d hd s (hl s (List.mem_cons_self ..)) st h
    rcases List.mem_cons.1 hw with rfl | hw'
    · exact pass2_nonempty d hd l hl' _ this.1 (this.2.2 hro)
    · exact ih hl' ⟨w, hw', hro⟩ _ this.1

theorem noReplInv_init (u : List Int) : NoReplInv (passInit u) := by
  refine ⟨rfl, rfl, fun h => absurd rfl h, fun h => ?_⟩
  simp [passInit] at h

/-- one active iteration on a block without replicas wants some slot -/
theorem classIter_wants (env : Env) (c : Class) (S : List Slot) (b : BState) (hd : env.desired c ≠ 0)
    (hnone : ∀ s ∈ S, s.repl = none) (hw : ∃ w ∈ S, w.mnt.ro = false) :
    ∃ s ∈ (classIter env c S b).slots, s.want = true := by
  have h1 := pass1_noRepl (env.desired c) hd S hnone _ (noReplInv_init b.utd)
  have h2 := pass2_wants (env.desired c) hd S hnone hw _ h1
  generalize hst : pass2 (env.desired c) S (pass1 (env.desired c) S (passInit b.utd)) = st at h2
  have hfrom : WantFrom S st := by rw [← hst]; exact classIter_wantFrom _ S b.utd
  cases hwm : st.wantMnt with
  | nil => exact absurd hwm h2
  | cons id rest =>
    have hc : st.wantMnt.contains id = true := by rw [hwm]; simp
    obtain ⟨s, hs, hid, _⟩ := hfrom id hc
    refine ⟨markWant st.wantMnt s, ?_, ?_⟩
    · rw [classIter_slots, hst]; exact List.mem_map.2 ⟨s, hs, rfl⟩
    · rw [markWant_want_iff]; right; rw [hid]; exact hc

theorem runClasses_want_mono (env : Env) (sorter : Class → List Slot → List Slot) :
    ∀ (cs : List Class) (b : BState), RunOK env sorter cs b → (∃ s ∈ b.slots, s.want = true) →
      ∃ s ∈ (runClasses env sorter cs b).slots, s.want = true := by
  apply runClasses_inv env sorter (fun b => ∃ s ∈ b.slots, s.want = true)
  intro c b _ hS ⟨s, hs, hw⟩
  show ∃ s ∈ (classIter env c (sorter c b.slots) b).slots, s.want = true
  rw [classIter_slots]
  exact ⟨markWant _ s, List.mem_map.2 ⟨s, hS.1.mem_iff.2 hs, rfl⟩, markWant_want_of _ s hw⟩

theorem runClasses_wants (env : Env) (sorter : Class → List Slot → List Slot) :
    ∀ (cs : List Class) (b : BState), RunOK env sorter cs b → (∀ s ∈ b.slots, s.repl = none) →
      (∃ w ∈ b.slots, w.mnt.ro = false) → (∃ c ∈ cs, env.desired c ≠ 0) →
      ∃ s ∈ (runClasses env sorter cs b).slots, s.want = true := by
  intro cs
  induction cs with
  | nil => intro b _ _ _ ⟨c, hc, _⟩; cases hc
  | cons c0 cs ih =>
    intro b hok hnone hw ⟨c, hc, hd⟩
    have hok' := hok
    unfold RunOK at hok
    by_cases hd0 : env.desired c0 = 0
    · have hrun : runClasses env sorter (c0 :: cs) b = runClasses env sorter cs b := by
        conv => lhs; unfold runClasses
        simp [hd0]
      simp only [hd0, if_true] at hok
      rw [hrun]
      rcases List.mem_cons.1 hc with rfl | hc'
      · exact absurd hd0 hd
      · exact ih b hok hnone hw ⟨c, hc', hd⟩
    · have hrun : runClasses env sorter (c0 :: cs) b =
          runClasses env sorter cs (classIter env c0 (sorter c0 b.slots) b) := by
        conv => lhs; unfold runClasses
        simp [hd0]
      simp only [hd0, if_false] at hok
      rw [hrun]
      apply runClasses_want_mono env sorter cs _ hok.2
      apply classIter_wants env c0 _ b hd0
      · intro s hs; exact hnone s (hok.1.1.mem_iff.1 hs)
      · obtain ⟨w, hw1, hw2⟩ := hw
        exact ⟨w, hok.1.1.mem_iff.2 hw1, hw2⟩

end ArvVerif.C05
