/-
C05 helper lemmas, part 5: generic invariant of the class loop; a loop without active class changes
nothing (used for `lost`).
-/
import ArvVerif.Proofs.C05Phys
namespace ArvVerif.C05

/-- generic invariant of the class loop -/
theorem runClasses_inv (env : Env) (sorter : Class → List Slot → List Slot) (I : BState → Prop)
    (hstep : ∀ c b, env.desired c ≠ 0 → (sorter c b.slots).Perm b.slots → I b →
      I (classIter env c (sorter c b.slots) b)) :
    ∀ (cs : List Class) (b : BState), RunPerm env sorter cs b → I b → I (runClasses env sorter cs b) := by
  intro cs
  induction cs with
  | nil => intro b _ h; exact h
  | cons c cs ih =>
    intro b hok h
    unfold runClasses
    unfold RunPerm at hok
    by_cases hd : env.desired c = 0
    · simp only [hd, if_true] at hok ⊢; exact ih b hok h
    · simp only [hd, if_false] at hok ⊢
      exact ih _ hok.2 (hstep c b hd hok.1 h)

theorem runClasses_all_zero (env : Env) (sorter : Class → List Slot → List Slot) :
    ∀ (cs : List Class) (b : BState), (∀ c ∈ cs, env.desired c = 0) → runClasses env sorter cs b = b := by
  intro cs
  induction cs with
  | nil => intro b _; rfl
  | cons c cs ih =>
    intro b h
    unfold runClasses
    simp only [h c (List.mem_cons_self ..), if_true]
    exact ih b (fun c' hc' => h c' (List.mem_cons_of_mem _ hc'))

theorem classes_any_iff (env : Env) (classes : List Class) :
    classes.any (fun c => env.desired c != 0) = true ↔ ∃ c ∈ classes, env.desired c ≠ 0 := by
  rw [List.any_eq_true]
  constructor
  · rintro ⟨c, hc, h⟩; exact ⟨c, hc, by simpa using h⟩
  · rintro ⟨c, hc, h⟩; exact ⟨c, hc, by simpa using h⟩

end ArvVerif.C05
