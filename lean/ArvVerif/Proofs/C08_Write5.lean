/-
C08 helper lemmas, part 8: the loop of filenode.Write, `write`, and the handle-level write
(O_APPEND repositioning + background settle).
-/
import ArvVerif.Proofs.C08_Write4
namespace ArvVerif.C08

variable {max : Nat} {hash : Bytes → Loc} {st : Store}

theorem step_spec (hinj : Function.Injective hash) (hmax : 1 ≤ max) {w : WState} {p : Bytes} (hp : p ≠ [])
    (hok : StoreOK hash w.st) (hwf : WF max hash w.st w.fn) (hpos : WPos w.fn w.ptr) :
    ∃ w' k, writeStep hash max w p = some (w', k) ∧ StepOK max hash w p w' k := by
  obtain ⟨r, hr, hrok⟩ := restructure_spec (p := p) hmax hp hwf hpos
  obtain ⟨w', h1, h2⟩ := overwrite_spec hinj hok hpos hrok
  refine ⟨w', r.cando.length, ?_, h2⟩
  unfold writeStep
  rw [hr]
  exact h1

theorem Pos.off_le {segs : List Seg} {o i off : Nat} (h : Pos segs o i off) : o ≤ sumLen segs := by
  rcases h with ⟨_, _, h⟩ | ⟨s, hs, hlt, hsum⟩
  · omega
  · have h1 := sumLen_take_succ hs
    have h2 := sumLen_take_le segs (i + 1)
    omega

/-- Contract of the whole loop / of `write`. -/
structure LoopOK (max : Nat) (hash : Bytes → Loc) (w : WState) (p : Bytes) (w' : WState) : Prop where
  ext : StoreExt w.st w'.st
  ok : StoreOK hash w'.st
  wf : WF max hash w'.st w'.fn
  pos : WPos w'.fn w'.ptr
  off : w'.ptr.off = w.ptr.off + p.length
  abs_eq : abs w'.st w'.fn = specWrite (abs w.st w.fn) w.ptr.off p
  rep_ge : w.fn.repacked ≤ w'.fn.repacked
  rep_same : w'.fn.repacked = w.fn.repacked → SameLens w'.fn.segs w.fn.segs ∧ w'.fn.size = w.fn.size

theorem specWrite_nil (f : Bytes) (off : Nat) (h : off ≤ f.length) : specWrite f off [] = f := by
  unfold specWrite
  rw [show off - f.length = 0 by omega]
  simp

/-- Every fuel `≥ p.length` suffices: each iteration consumes at least one byte. -/
theorem loop_spec (hinj : Function.Injective hash) (hmax : 1 ≤ max) :
    ∀ (fuel : Nat) (w : WState) (p : Bytes) (n : Nat), p.length ≤ fuel →
      StoreOK hash w.st → WF max hash w.st w.fn → WPos w.fn w.ptr →
      ∃ w', writeLoop hash max fuel w p n = WriteRes.done w' (n + p.length) ∧ LoopOK max hash w p w' := by
  intro fuel
  induction fuel with
  | zero =>
    intro w p n hlen hok hwf hpos
    have : p = [] := List.eq_nil_of_length_eq_zero (by omega)
    subst this
    refine ⟨w, by simp [writeLoop], StoreExt.refl _, hok, hwf, hpos, rfl, ?_, Int.le_refl _, fun _ => ⟨SameLens.refl _, rfl⟩⟩
    rw [specWrite_nil _ _ (by rw [hwf.abs_length, hwf.size_eq]; exact hpos.2.off_le)]
  | succ fuel ih =>
    intro w p n hlen hok hwf hpos
    cases p with
    | nil =>
      refine ⟨w, by simp [writeLoop], StoreExt.refl _, hok, hwf, hpos, rfl, ?_, Int.le_refl _, fun _ => ⟨SameLens.refl _, rfl⟩⟩
      rw [specWrite_nil _ _ (by rw [hwf.abs_length, hwf.size_eq]; exact hpos.2.off_le)]
    | cons b p' =>
      obtain ⟨w1, k, hstep, hs⟩ := step_spec hinj hmax (p := b :: p') (by simp) hok hwf hpos
      have hk1 := hs.k_pos
      have hk2 := hs.k_le
      have hrem : ((b :: p').drop k).length ≤ fuel := by
        rw [List.length_drop]; simp only [List.length_cons] at hlen hk2 ⊢; omega
      obtain ⟨w2, hloop, hl⟩ := ih w1 ((b :: p').drop k) (n + k) hrem hs.ok hs.wf hs.pos
      refine ⟨w2, ?_, hs.ext.trans hl.ext, hl.ok, hl.wf, hl.pos, ?_, ?_, Int.le_trans hs.rep_ge hl.rep_ge, ?_⟩
      · simp only [writeLoop, hstep]
        rw [hloop]
        congr 1
        rw [List.length_drop]; omega
      · rw [hl.off, hs.off, List.length_drop]; omega
      · rw [hl.abs_eq, hs.abs_eq, hs.off]
        have hoffle : w.ptr.off ≤ (abs w.st w.fn).length := by
          rw [hwf.abs_length, hwf.size_eq]; exact hpos.2.off_le
        have htk : ((b :: p').take k).length = k := by rw [List.length_take]; omega
        have := specWrite_specWrite (abs w.st w.fn) w.ptr.off ((b :: p').take k) ((b :: p').drop k) hoffle
        rw [htk, List.take_append_drop] at this
        exact this
      · intro hrep
        have h1 : w1.fn.repacked = w.fn.repacked := by
          have a := hs.rep_ge; have b' := hl.rep_ge; omega
        have h2 : w2.fn.repacked = w1.fn.repacked := by omega
        obtain ⟨a1, a2⟩ := hs.rep_same h1
        obtain ⟨b1, b2⟩ := hl.rep_same h2
        exact ⟨b1.trans a1, by omega⟩

theorem specWrite_pad (f : Bytes) (off : Nat) (p : Bytes) (h : f.length ≤ off) :
    specWrite (f ++ zeros (off - f.length)) off p = specWrite f off p := by
  unfold specWrite
  have hl : (f ++ zeros (off - f.length)).length = off := by simp; omega
  rw [hl, Nat.sub_self]
  simp only [zeros_zero, List.append_nil]
  rw [List.drop_of_length_le (by omega), List.drop_of_length_le (by omega)]

/-- `PtrOK` survives any change that either bumps `repacked` or keeps all lengths. -/
theorem PtrOK.preserved {fn fn' : FileNode} {q : Ptr} (hq : PtrOK fn q)
    (hge : fn.repacked ≤ fn'.repacked)
    (hsame : fn'.repacked = fn.repacked → SameLens fn'.segs fn.segs ∧ fn'.size = fn.size) :
    PtrOK fn' q := by
  refine ⟨Int.le_trans hq.1 hge, fun heq => ?_⟩
  have h1 : fn'.repacked = fn.repacked := by have := hq.1; omega
  obtain ⟨hl, hsz⟩ := hsame h1
  rcases hq.2 (by omega) with h | h
  · exact Or.inl (by omega)
  · exact Or.inr ((SameLens.symm hl).located h)

theorem WPos.ptrOK {fn : FileNode} {p : Ptr} (hwf : WF max hash st fn) (h : WPos fn p) : PtrOK fn p := by
  refine ⟨by rw [h.1]; exact Int.le_refl _, fun _ => ?_⟩
  rcases h.2 with ⟨_, _, h3⟩ | ⟨s, h1, h2, h3⟩
  · exact Or.inl (by rw [hwf.size_eq]; omega)
  · exact Or.inr ⟨s, h1, Nat.le_of_lt h2, h3⟩

/-- Contract of `filenode.Write`. -/
structure WriteOK (max : Nat) (hash : Bytes → Loc) (st : Store) (fn : FileNode) (ptr : Ptr) (p : Bytes)
    (w : WState) : Prop where
  ext : StoreExt st w.st
  ok : StoreOK hash w.st
  wf : WF max hash w.st w.fn
  rep : 0 ≤ w.fn.repacked
  ptr_ok : PtrOK w.fn w.ptr
  off : w.ptr.off = ptr.off + p.length
  abs_eq : abs w.st w.fn = specWrite (abs st fn) ptr.off p
  others : ∀ q, PtrOK fn q → PtrOK w.fn q

theorem write_spec (hinj : Function.Injective hash) (hmax : 1 ≤ max) {fn : FileNode} {ptr : Ptr}
    (hok : StoreOK hash st) (hwf : WF max hash st fn) (hrep : 0 ≤ fn.repacked) (hptr : PtrOK fn ptr) (p : Bytes) :
    ∃ w, write hash max st fn ptr p = WriteRes.done w p.length ∧ WriteOK max hash st fn ptr p w := by
  unfold write
  by_cases hgt : ptr.off > fn.size
  · rw [if_pos hgt]
    obtain ⟨fn1, ht, htok⟩ := truncate_spec (hash := hash) (st := st) hmax hwf hrep ptr.off
    rw [ht]
    simp only []
    have hbump := htok.bump (by omega)
    have hp1 : PtrOK fn1 ptr := ⟨by rw [hbump]; have := hptr.1; omega, fun h => by rw [hbump] at h; have := hptr.1; omega⟩
    obtain ⟨q, hq, hqoff, hqrep, hcase⟩ := seek_spec htok.wf hp1
    rw [hq]
    simp only []
    have hpos : WPos fn1 q := by
      refine ⟨hqrep, ?_⟩
      rcases hcase with ⟨_, h2, h3⟩ | ⟨h1, _⟩
      · exact Or.inl ⟨h2, h3, by rw [hqoff, ← htok.wf.size_eq, htok.size_eq]⟩
      · rw [htok.size_eq] at h1; omega
    obtain ⟨w, hloop, hl⟩ := loop_spec hinj hmax p.length ⟨fn1, q, st⟩ p 0 (Nat.le_refl _) hok htok.wf hpos
    rw [Nat.zero_add] at hloop
    refine ⟨w, hloop, hl.ext, hl.ok, hl.wf, by have := hl.rep_ge; simp only [] at this; omega,
      hl.pos.ptrOK hl.wf, by rw [hl.off]; simp only []; rw [hqoff], ?_, ?_⟩
    · rw [hl.abs_eq]
      simp only []
      rw [htok.abs_eq, hqoff]
      unfold specTruncate
      have hlen := hwf.abs_length
      rw [List.take_of_length_le (by omega)]
      exact specWrite_pad _ _ _ (by omega)
    · intro q' hq'
      have hge := hl.rep_ge
      simp only [] at hge
      exact ⟨by have := hq'.1; omega, fun h => by have := hq'.1; omega⟩
  · rw [if_neg hgt]
    simp only []
    obtain ⟨q, hq, hqoff, hqrep, hcase⟩ := seek_spec hwf hptr
    rw [hq]
    simp only []
    have hpos : WPos fn q := by
      refine ⟨hqrep, ?_⟩
      rcases hcase with ⟨h1, h2, h3⟩ | ⟨h1, s, h2, h3, h4⟩
      · exact Or.inl ⟨h2, h3, by rw [hqoff, ← hwf.size_eq]; omega⟩
      · exact Or.inr ⟨s, h2, h3, by rw [hqoff]; exact h4⟩
    obtain ⟨w, hloop, hl⟩ := loop_spec hinj hmax p.length ⟨fn, q, st⟩ p 0 (Nat.le_refl _) hok hwf hpos
    rw [Nat.zero_add] at hloop
    refine ⟨w, hloop, hl.ext, hl.ok, hl.wf, by have := hl.rep_ge; simp only [] at this; omega,
      hl.pos.ptrOK hl.wf, by rw [hl.off]; simp only []; rw [hqoff], ?_, ?_⟩
    · rw [hl.abs_eq]; simp only []; rw [hqoff]
    · intro q' hq'
      exact hq'.preserved hl.rep_ge hl.rep_same

/-! ### handle level: O_APPEND and settle -/

theorem appendPtr_ok (fn : FileNode) : PtrOK fn (appendPtr fn) :=
  ⟨Int.le_refl _, fun _ => Or.inl (Nat.le_refl _)⟩

theorem settle_spec {fn : FileNode} (hwf : WF max hash st fn) :
    WF max hash st (settle hash fn) ∧ abs st (settle hash fn) = abs st fn ∧
    (settle hash fn).size = fn.size ∧ (settle hash fn).repacked = fn.repacked ∧
    ∀ q, PtrOK fn q → PtrOK (settle hash fn) q := by
  obtain ⟨h1, h2, h3⟩ := settleSegs_spec (st := st) fn.segs 0 hwf.segs
  refine ⟨⟨?_, h2⟩, h3, rfl, rfl, ?_⟩
  · show fn.size = sumLen (settleSegs hash fn.segs 0)
    rw [h1.sumLen]; exact hwf.size_eq
  · intro q hq
    exact hq.preserved (Int.le_refl _) (fun _ => ⟨h1, rfl⟩)

end ArvVerif.C08
