/-
C12 helper lemmas, Python SDK side: the Python weight is the Go weight on 27-character (and on
≤ 15-character) uuids; a probe order of records is a probe order of their uuids; the Python hint
loop and Go's hint loop render the same targets.
-/
import ArvVerif.Proofs.C12
import ArvVerif.Model.C12_Py
namespace ArvVerif.C12
variable {α β : Type}

theorem pyWeight_eq_weight (md5 : List Char → Nat) (hash uuid : List Char)
    (h : uuid.length = 27 ∨ uuid.length ≤ 15) : pyWeight md5 hash uuid = weight md5 hash uuid := by
  unfold pyWeight weight pyUuidSuffix uuidSuffix
  rcases h with h | h
  · simp [h]
  · have h27 : ¬ uuid.length = 27 := by omega
    have h0 : uuid.length - 15 = 0 := by omega
    simp [h27, h0]

/-- Two weight functions that agree on the services have the same probe orders. -/
theorem isProbeOrder_congr (w w' : α → Nat) (svcs out : List α) (hw : ∀ a ∈ svcs, w a = w' a)
    (h : IsProbeOrder w svcs out) : IsProbeOrder w' svcs out := by
  refine ⟨h.perm, ?_⟩
  refine h.sorted.imp_of_mem ?_
  intro a b ha hb hab
  rw [← hw a (h.perm.mem_iff.mp ha), ← hw b (h.perm.mem_iff.mp hb)]
  exact hab

/-- A probe order of records by the weight of a key is a probe order of the keys. -/
theorem isProbeOrder_map (key : β → α) (w : α → Nat) (svcs out : List β)
    (h : IsProbeOrder (fun s => w (key s)) svcs out) : IsProbeOrder w (svcs.map key) (out.map key) :=
  ⟨h.perm.map key, List.pairwise_map.mpr h.sorted⟩

theorem hintRoots_eq_targets (gw : List Char → Option (List Char)) (fs : List (List Char)) :
    hintRoots gw fs = (hintTargets gw fs).map renderGo := by
  induction fs with
  | nil => rfl
  | cons h rest ih =>
    simp only [hintRoots, hintTargets]
    cases hc : classifyHint h with
    | proxy c => simp [renderGo, ih]
    | gateway u => cases hg : gw u <;> simp [renderGo, ih, hg]
    | other => simp [ih]

theorem pyHintRoots_eq_targets (gw : List Char → Option (List Char)) (fs : List (List Char)) :
    pyHintRoots gw fs = (hintTargets gw fs).map renderPy := by
  induction fs with
  | nil => rfl
  | cons h rest ih =>
    simp only [pyHintRoots, hintTargets, classifyHint]
    by_cases hk : h.take 2 = ['K', '@']
    · by_cases h7 : h.length = 7
      · simp [hk, h7, renderPy, ih]
      · by_cases h29 : h.length = 29
        · have : ¬ h.length < 7 := by omega
          simp only [hk, h7, h29, this]
          simp only [if_true, if_false, not_true, or_self, ne_eq, not_false_eq_true]
          cases hg : gw (List.drop 2 h) <;> simp [renderPy, ih, hg]
        · by_cases hlt : h.length < 7
          · simp [hk, h7, h29, hlt, ih]
          · simp [hk, h7, h29, hlt, ih]
    · simp [hk, ih]

end ArvVerif.C12
