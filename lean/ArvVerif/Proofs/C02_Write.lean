/-
C02 helper lemmas, part 2: one `WriteBlock` run — the temp file accumulates the chunks, nothing but
the final rename touches the block path.
-/
import ArvVerif.Proofs.C02
namespace ArvVerif.C02

theorem get_run_appends {p : Path} (cs : List Bytes) :
    ∀ (fs : FS) (d : Bytes) (t : Nat), fs.get p = some ⟨d, t⟩ →
      (run fs (appends p cs)).get p = some ⟨d ++ cs.flatten, t⟩ := by
  induction cs with
  | nil => intro fs d t h; simpa [appends] using h
  | cons c rest ih =>
    intro fs d t h
    have : (run fs (appends p (c :: rest))) = run ((Step.append p c).apply fs) (appends p rest) := rfl
    rw [this]
    have h1 : ((Step.append p c).apply fs).get p = some ⟨d ++ c, t⟩ := by
      simp [Step.apply, h]
    rw [ih _ _ _ h1]
    simp [List.append_assoc]

/-- all events avoid `p`: every crash prefix leaves `p` as it was -/
theorem get_prefix_of_avoids {p : Path} {evs : List Ev} (h : ∀ e ∈ evs, e.eff.avoids p) (fs : FS) (k : Nat) :
    (run fs (evs.take k)).get p = fs.get p :=
  get_run_of_avoids (avoids_take h k) fs

/-- events that avoid `p`, then one rename onto `p`: every crash prefix shows the old content, the
complete run shows the renamed file -/
theorem get_prefix_rename {p src : Path} {A : List Ev} (pt : Option Point)
    (h : ∀ e ∈ A, e.eff.avoids p) (fs : FS) {f : File} (hsrc : (run fs A).get src = some f) (k : Nat) :
    (run fs ((A ++ [Ev.mk pt (.rename src p)]).take k)).get p = fs.get p ∨
    ((run fs ((A ++ [Ev.mk pt (.rename src p)]).take k)).get p = some f ∧ (A ++ [Ev.mk pt (.rename src p)]).length ≤ k) := by
  by_cases hk : k ≤ A.length
  · left
    rw [List.take_append_of_le_length hk]
    exact get_prefix_of_avoids h fs k
  · right
    have hk' : (A ++ [Ev.mk pt (.rename src p)]).length ≤ k := by simp; omega
    refine ⟨?_, hk'⟩
    rw [List.take_of_length_le hk', run_append]
    simp [Step.apply, hsrc]

/-! ### the shape of a WriteBlock run -/

theorem appends_local (p : Path) (cs : List Bytes) : ∀ e ∈ appends p cs, LocalAt p e.eff := by
  intro e he
  obtain ⟨c, _, rfl⟩ := List.mem_map.1 he
  rfl

theorem wbPre_local (w : WBIn) : ∀ e ∈ wbPre w, LocalAt (tmpPath w.h w.sfx) e.eff := by
  intro e he
  simp only [wbPre, List.mem_cons, List.not_mem_nil, or_false] at he
  rcases he with rfl | rfl | rfl
  · trivial
  · rfl
  · trivial

theorem wbTail_local (w : WBIn) : ∀ e ∈ wbTail w, LocalAt (tmpPath w.h w.sfx) e.eff := by
  intro e he
  unfold wbTail at he
  split at he <;> simp at he
  · rcases he with rfl | rfl | rfl | rfl | rfl
    · trivial
    · rfl
    · trivial
    · trivial
    · trivial
  · rcases he with rfl | rfl | rfl
    · trivial
    · rfl
    · trivial

/-- everything before the rename of a successful run -/
def wbBody (w : WBIn) : List Ev := wbPre w ++ appends (tmpPath w.h w.sfx) w.chunks ++ wbTail w

theorem wbBody_local (w : WBIn) : ∀ e ∈ wbBody w, LocalAt (tmpPath w.h w.sfx) e.eff := by
  intro e he
  simp only [wbBody, List.mem_append] at he
  rcases he with (he | he) | he
  · exact wbPre_local w e he
  · exact appends_local _ _ e he
  · exact wbTail_local w e he

/-- A `WriteBlock` run either fails, and then every event is local to its temp file, or returns nil,
and then it is: local events, then the rename onto the block path. -/
theorem wb_shape (w : WBIn) :
    ((writeBlockEvs w).2 = false ∧ ∀ e ∈ (writeBlockEvs w).1, LocalAt (tmpPath w.h w.sfx) e.eff) ∨
    ((writeBlockEvs w).2 = true ∧ w.rend = .eof ∧ w.fail = .none ∧
      (writeBlockEvs w).1 = wbBody w ++ [⟨wbPt 13, .rename (tmpPath w.h w.sfx) (blockPath w.h)⟩]) := by
  have hpre := wbPre_local w
  have happ := appends_local (tmpPath w.h w.sfx)
  have htail := wbTail_local w
  cases hf : w.fail <;> cases hr : w.rend <;> simp only [writeBlockEvs, hf, hr]
  case none.eof => right; exact ⟨by first | rfl | trivial, by first | rfl | trivial, by first | rfl | trivial, by simp [wbBody]⟩
  all_goals
    left
    refine ⟨by first | rfl | trivial, ?_⟩
    intro e he
    simp only [List.mem_append, List.mem_cons, List.not_mem_nil, or_false] at he
    first
      | (rcases he with rfl; trivial)
      | (rcases he with rfl | rfl <;> trivial)
      | (rcases he with (he | he) | rfl | rfl
         · exact hpre e he
         · exact happ _ e he
         · trivial
         · rfl)
      | (rcases he with (he | he) | rfl | rfl | rfl
         · exact hpre e he
         · exact happ _ e he
         · trivial
         · trivial
         · rfl)
      | (rcases he with (he | he) | rfl | rfl | rfl
         · exact hpre e he
         · exact happ _ e he
         · rfl
         · trivial
         · rfl)
      | (rcases he with (he | he) | rfl | rfl | rfl | rfl | rfl
         · exact hpre e he
         · exact happ _ e he
         · trivial
         · rfl
         · trivial
         · trivial
         · rfl)
      | (rcases he with ((he | he) | he) | rfl | rfl
         · exact hpre e he
         · exact happ _ e he
         · exact htail e he
         · trivial
         · rfl)

/-- The temp file after mkdirAll, createTemp, the copy of all chunks, close, chtimes (and the flock
of the old copy). -/
theorem get_tmp_after_body (fs : FS) (w : WBIn) :
    (run fs (wbBody w)).get (tmpPath w.h w.sfx) = some ⟨w.chunks.flatten, w.now⟩ := by
  unfold wbBody
  rw [run_append, run_append]
  have h0 : (run fs (wbPre w)).get (tmpPath w.h w.sfx) = some ⟨[], w.now⟩ := by
    simp [wbPre, Step.apply]
  have h1 := get_run_appends w.chunks _ _ _ h0
  unfold wbTail
  split <;> simp [Step.apply, h1]

theorem wb_crash_atomic (fs : FS) (w : WBIn) (k : Nat) :
    (run fs ((writeBlockEvs w).1.take k)).get (blockPath w.h) = fs.get (blockPath w.h) ∨
    ((run fs ((writeBlockEvs w).1.take k)).get (blockPath w.h) = some ⟨w.chunks.flatten, w.now⟩ ∧
      w.rend = .eof ∧ w.fail = .none ∧ (writeBlockEvs w).2 = true ∧ (writeBlockEvs w).1.length ≤ k) := by
  have hne := tmpPath_ne_blockPath w.h w.sfx
  rcases wb_shape w with ⟨_, hl⟩ | ⟨h2, hr, hf, he⟩
  · left
    exact get_prefix_of_avoids (fun e he => local_avoids hne (hl e he)) fs k
  · rw [he]
    rcases get_prefix_rename (wbPt 13) (fun e he => local_avoids hne (wbBody_local w e he)) fs
        (get_tmp_after_body fs w) k with h | ⟨h1, h3⟩
    · exact Or.inl h
    · exact Or.inr ⟨h1, hr, hf, h2, h3⟩

end ArvVerif.C02
