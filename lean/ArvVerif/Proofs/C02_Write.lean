/-
C02 helper lemmas, part 2: one `WriteBlock` run — the temp file accumulates the chunks, nothing but
the final rename touches the block path.
-/
import ArvVerif.Proofs.C02
namespace ArvVerif.C02

theorem get_run_appends {p : Path} (cs : List Bytes) :
    ∀ (fs : FS) (d : Bytes) (t : Nat), fs.get p = some ⟨d, t⟩ →
      (run fs (appends p cs)).get p = some ⟨d ++ cs.flatten, t⟩ := by
  induction cs with
  | nil => intro fs d t h; simpa [appends] using h
  | cons c rest ih =>
    intro fs d t h
    have : (run fs (appends p (c :: rest))) = run ((Step.append p c).apply fs) (appends p rest) := rfl
    rw [this]
    have h1 : ((Step.append p c).apply fs).get p = some ⟨d ++ c, t⟩ := by
      simp [Step.apply, h]
    rw [ih _ _ _ h1]
    simp [List.append_assoc]

theorem appends_avoid {p q : Path} (h : p ≠ q) (cs : List Bytes) :
    ∀ e ∈ appends p cs, e.eff.avoids q := by
  intro e he
  obtain ⟨c, _, rfl⟩ := List.mem_map.1 he
  exact h

theorem wbPre_avoid (w : WBIn) : ∀ e ∈ wbPre w, e.eff.avoids (blockPath w.h) := by
  intro e he
  simp only [wbPre, List.mem_cons, List.not_mem_nil, or_false] at he
  rcases he with rfl | rfl | rfl
  · trivial
  · exact tmpPath_ne_blockPath _ _
  · trivial

/-- all events avoid `p`: every crash prefix leaves `p` as it was -/
theorem get_prefix_of_avoids {p : Path} {evs : List Ev} (h : ∀ e ∈ evs, e.eff.avoids p) (fs : FS) (k : Nat) :
    (run fs (evs.take k)).get p = fs.get p :=
  get_run_of_avoids (avoids_take h k) fs

/-- events that avoid `p`, then one rename onto `p`: every crash prefix shows the old content, the
complete run shows the renamed file -/
theorem get_prefix_rename {p src : Path} {A : List Ev} (pt : Option Point)
    (h : ∀ e ∈ A, e.eff.avoids p) (fs : FS) {f : File} (hsrc : (run fs A).get src = some f) (k : Nat) :
    (run fs ((A ++ [Ev.mk pt (.rename src p)]).take k)).get p = fs.get p ∨
    ((run fs ((A ++ [Ev.mk pt (.rename src p)]).take k)).get p = some f ∧ (A ++ [Ev.mk pt (.rename src p)]).length ≤ k) := by
  by_cases hk : k ≤ A.length
  · left
    rw [List.take_append_of_le_length hk]
    exact get_prefix_of_avoids h fs k
  · right
    have hk' : (A ++ [Ev.mk pt (.rename src p)]).length ≤ k := by simp; omega
    refine ⟨?_, hk'⟩
    rw [List.take_of_length_le hk', run_append]
    simp [Step.apply, hsrc]

/-- The temp file after mkdirAll, createTemp, the copy of all chunks, close and chtimes. -/
theorem get_tmp_after_copy (fs : FS) (w : WBIn) :
    (run fs (wbPre w ++ appends (tmpPath w.h w.sfx) w.chunks ++
      [⟨wbPt 5, .nop⟩, ⟨wbPt 7, .chtimes (tmpPath w.h w.sfx) w.now⟩])).get (tmpPath w.h w.sfx)
    = some ⟨w.chunks.flatten, w.now⟩ := by
  rw [run_append, run_append]
  have h0 : (run fs (wbPre w)).get (tmpPath w.h w.sfx) = some ⟨[], w.now⟩ := by
    simp [wbPre, Step.apply]
  have h1 := get_run_appends w.chunks _ _ _ h0
  simp [Step.apply, h1]

theorem wb_crash_atomic (fs : FS) (w : WBIn) (k : Nat) :
    (run fs ((writeBlockEvs w).1.take k)).get (blockPath w.h) = fs.get (blockPath w.h) ∨
    ((run fs ((writeBlockEvs w).1.take k)).get (blockPath w.h) = some ⟨w.chunks.flatten, w.now⟩ ∧
      w.rend = .eof ∧ w.fail = .none ∧ (writeBlockEvs w).2 = true ∧ (writeBlockEvs w).1.length ≤ k) := by
  have hne := tmpPath_ne_blockPath w.h w.sfx
  have hpre := wbPre_avoid w
  have happ : ∀ cs, ∀ e ∈ appends (tmpPath w.h w.sfx) cs, e.eff.avoids (blockPath w.h) :=
    fun cs => appends_avoid hne cs
  -- all events of a failing run avoid the block path
  have fail_case : ∀ evs : List Ev, (∀ e ∈ evs, e.eff.avoids (blockPath w.h)) →
      (run fs (evs.take k)).get (blockPath w.h) = fs.get (blockPath w.h) :=
    fun evs h => get_prefix_of_avoids h fs k
  cases hf : w.fail <;> cases hr : w.rend <;> simp only [writeBlockEvs, hf, hr]
  case none.eof =>
    have := get_prefix_rename (p := blockPath w.h) (src := tmpPath w.h w.sfx)
      (A := wbPre w ++ appends (tmpPath w.h w.sfx) w.chunks ++
        [⟨wbPt 5, .nop⟩, ⟨wbPt 7, .chtimes (tmpPath w.h w.sfx) w.now⟩]) (wbPt 9)
      (by
        intro e he
        simp only [List.mem_append, List.mem_cons, List.not_mem_nil, or_false] at he
        rcases he with (he | he) | rfl | rfl
        · exact hpre e he
        · exact happ _ e he
        · trivial
        · exact hne)
      fs (get_tmp_after_copy fs w) k
    simp only [List.append_assoc, List.cons_append, List.nil_append] at this ⊢
    rcases this with h | ⟨h1, h2⟩
    · exact Or.inl h
    · exact Or.inr ⟨h1, trivial, trivial, trivial, h2⟩
  all_goals
    left
    apply fail_case
    intro e he
    simp only [List.mem_append, List.mem_cons, List.not_mem_nil, or_false] at he
    first
      | (rcases he with rfl; trivial)
      | (rcases he with rfl | rfl <;> trivial)
      | (rcases he with (he | he) | rfl | rfl
         · exact hpre e he
         · exact happ _ e he
         · trivial
         · exact hne)
      | (rcases he with (he | he) | rfl | rfl | rfl
         · exact hpre e he
         · exact happ _ e he
         · trivial
         · trivial
         · exact hne)
      | (rcases he with (he | he) | rfl | rfl | rfl | rfl
         · exact hpre e he
         · exact happ _ e he
         · trivial
         · exact hne
         · trivial
         · exact hne)
      | (rcases he with (he | he) | rfl | rfl | rfl
         · exact hpre e he
         · exact happ _ e he
         · exact hne
         · trivial
         · exact hne)

end ArvVerif.C02
