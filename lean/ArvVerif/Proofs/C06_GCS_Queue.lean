/-
C06(c') proofs, collection pipeline: in every interleaving, when GetCurrentState ends with a nil
error every collection the scanner delivered to `collQ` was added by `addCollection` (none was
dropped, none is left in the queue).
-/
import ArvVerif.Proofs.C06_GCS
namespace ArvVerif.C06.GCS

def held (p : Loc) : Nat := if p.pc = 3 then 1 else 0

structure QInv (sh : Sh) (p s : Loc) : Prop where
  count : sh.delivered = sh.added + sh.q + held p + sh.dropped
  drop : 0 < sh.dropped → sh.errs.isSome = true ∨ (p.flag = true ∧ (p.pc = 4 ∨ p.pc = 5))
  exit : p.pc = 0 → sh.errs.isSome = true ∨ (sh.closed = true ∧ sh.q = 0)
  closed : sh.closed = true → s.pc = 9 ∨ s.pc = 10 ∨ s.pc = 11 ∨ s.pc = 0

theorem wStep_q {sh sh' : Sh} {l l' : Loc} (h : (sh', l') ∈ wStep sh l) :
    sh'.q = sh.q ∧ sh'.closed = sh.closed ∧ sh'.delivered = sh.delivered ∧ sh'.added = sh.added ∧
    sh'.dropped = sh.dropped := by
  unfold wStep at h
  split at h
  all_goals (try split at h)
  all_goals simp only [List.mem_cons, List.not_mem_nil, Prod.mk.injEq, or_false] at h
  all_goals (try rcases h with h | h)
  all_goals (try (obtain ⟨rfl, rfl⟩ := h))
  all_goals (try (exact absurd h id))
  all_goals (try simp)
  all_goals (unfold trySend; split <;> simp)

theorem qinv_worker {sh sh' : Sh} {l l' p s : Loc} (hq : QInv sh p s) (hw : WInv sh l)
    (h : (sh', l') ∈ wStep sh l) : QInv sh' p s := by
  obtain ⟨e1, e2, e3, e4, e5⟩ := wStep_q h
  have m := (wStep_ok hw h).2.mono
  refine ⟨by rw [e1, e3, e4, e5]; exact hq.count, ?_, ?_, by rw [e2]; exact hq.closed⟩
  · intro hd
    rw [e5] at hd
    exact (hq.drop hd).imp m id
  · intro hp
    rw [e1, e2]
    exact (hq.exit hp).imp m id

theorem qinv_proc {sh sh' : Sh} {l l' s : Loc} (hq : QInv sh l s) (hp : PInv sh l)
    (h : (sh', l') ∈ pStep sh l) : QInv sh' l' s := by
  obtain ⟨c1, c2, c3, c4⟩ := hq
  obtain ⟨a, b, c, d⟩ := hp
  unfold held at c1
  unfold pStep pRecv at h
  split at h
  all_goals (try split at h)
  all_goals (try split at h)
  all_goals simp only [List.mem_cons, List.not_mem_nil, Prod.mk.injEq, or_false] at h
  all_goals (try rcases h with h | h)
  all_goals (try (obtain ⟨rfl, rfl⟩ := h))
  all_goals (try (exact absurd h id))
  all_goals refine ⟨?_, ?_, ?_, ?_⟩
  all_goals (try unfold held)
  all_goals (try simp_all [trySend_isSome])
  all_goals (try omega)
  all_goals (try (unfold trySend; split <;> simp_all <;> omega))

theorem qinv_scan {sh sh' : Sh} {l l' p : Loc} (hq : QInv sh p l) (hs : SInv sh l)
    (h : (sh', l') ∈ sStep sh l) : QInv sh' p l' := by
  obtain ⟨c1, c2, c3, c4⟩ := hq
  obtain ⟨a, b, c, d⟩ := hs
  unfold sStep sInside at h
  split at h
  all_goals (try split at h)
  all_goals simp only [List.mem_cons, List.not_mem_nil, Prod.mk.injEq, or_false] at h
  all_goals (try rcases h with h | h | h | h)
  all_goals (try rcases h with h | h)
  all_goals (try (obtain ⟨rfl, rfl⟩ := h))
  all_goals (try (exact absurd h id))
  all_goals refine ⟨?_, ?_, ?_, ?_⟩
  all_goals (try simp_all [trySend_isSome])
  all_goals (try omega)
  all_goals (try (unfold trySend; split <;> simp_all <;> omega))

theorem reach_qinv {n cap : Nat} {g : G} (r : Reach n cap g) : QInv g.sh g.p g.s := by
  induction r with
  | start => exact ⟨by simp [init, initSh, held, initLoc], by simp [init, initSh], by simp [init, initLoc],
      by simp [init, initSh]⟩
  | @step g g' r' hs ih =>
    have hi := reach_inv r'
    cases hs with
    | worker pre post l sh' l' hws hm =>
      exact qinv_worker ih (hi.ws l (by rw [hws]; simp)) hm
    | proc sh' l' hm => exact qinv_proc ih hi.p hm
    | scan sh' l' hm => exact qinv_scan ih hi.s hm

/-- Nil result ⇒ every delivered collection was added. -/
theorem nil_result_all_added {n cap : Nat} {g : G} (r : Reach n cap g) (ht : Terminal g)
    (hnil : g.sh.errs = none) :
    g.sh.added = g.sh.delivered ∧ g.sh.dropped = 0 ∧ g.sh.q = 0 ∧ g.sh.closed = true := by
  have hq := reach_qinv r
  have hx := hq.exit ht.2.1
  have hcl : g.sh.closed = true ∧ g.sh.q = 0 := by
    rcases hx with h | h
    · rw [hnil] at h; cases h
    · exact h
  have hd : g.sh.dropped = 0 := by
    cases hdz : g.sh.dropped with
    | zero => rfl
    | succ k =>
      rcases hq.drop (by omega) with h | ⟨_, h⟩
      · rw [hnil] at h; cases h
      · have := ht.2.1; omega
  have hc := hq.count
  unfold held at hc
  have : g.p.pc = 0 := ht.2.1
  simp only [this, show ¬ (0 = 3) by omega, if_false] at hc
  refine ⟨by omega, hd, hcl.2, hcl.1⟩

end ArvVerif.C06.GCS
