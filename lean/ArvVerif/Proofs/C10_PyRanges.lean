/-
C10 — the Python range mapper (`first_block` + `locators_and_ranges`) agrees with the reference
interpreter `resolveTok` on every range that lies inside the stream and raises nothing there.
-/
import ArvVerif.Proofs.C10_Resolve
namespace ArvVerif.C10

/-- what is left of `locators_and_ranges`' output after dropping zero-length entries -/
def pyKeep (ps : List PyLR) : List Seg :=
  ps.filterMap fun p => if p.len > 0 then some ⟨p.loc, p.off.toNat, p.len.toNat⟩ else none

theorem pyKeep_cons (p : PyLR) (ps : List PyLR) :
    pyKeep (p :: ps) = (if p.len > 0 then [⟨p.loc, p.off.toNat, p.len.toNat⟩] else []) ++ pyKeep ps := by
  unfold pyKeep
  rw [List.filterMap_cons]
  split <;> rename_i h <;> split at h <;> simp_all

theorem pyRangesFrom_contiguous : ∀ (bs : List Loc) (base : Nat), Contiguous (pyRangesFrom base bs)
  | [], _ => trivial
  | [_], _ => trivial
  | b :: b' :: rest, base => by
    have := pyRangesFrom_contiguous (b' :: rest) (base + b.size)
    simp only [pyRangesFrom, Contiguous] at this ⊢
    exact ⟨trivial, this⟩

theorem pyOffsets_ranges : ∀ (bs : List Loc) (base : Nat), bs ≠ [] →
    pyOffsets (pyRangesFrom base bs) = plainOffsets base bs
  | [], _, h => absurd rfl h
  | [b], base, _ => by simp [pyRangesFrom, pyOffsets, plainOffsets]
  | b :: b' :: rest, base, _ => by
    have := pyOffsets_ranges (b' :: rest) (base + b.size) (by simp)
    simp only [pyRangesFrom, pyOffsets, plainOffsets] at this ⊢
    rw [this]

theorem pyRangesFrom_drop : ∀ (bs : List Loc) (base i : Nat),
    (pyRangesFrom base bs).drop i = pyRangesFrom (base + streamLen (bs.take i)) (bs.drop i)
  | [], base, i => by simp [pyRangesFrom]
  | b :: rest, base, 0 => by simp
  | b :: rest, base, i + 1 => by
    simp only [pyRangesFrom, List.drop_succ_cons, List.take_succ_cons, streamLen_cons]
    rw [pyRangesFrom_drop rest (base + b.size) i]
    congr 1; omega

theorem pyRangesFrom_ne_nil (bs : List Loc) (base : Nat) (h : bs ≠ []) : pyRangesFrom base bs ≠ [] := by
  cases bs with
  | nil => exact absurd rfl h
  | cons b rest => simp [pyRangesFrom]

/-- the `while` loop of `locators_and_ranges` from a block that contains `start` (or any later one) -/
theorem pyLrLoop_spec (start size : Nat) (hsize : 0 < size) :
    ∀ (bs : List Loc) (base : Nat),
      (start < base ∨ ∃ b rest, bs = b :: rest ∧ base ≤ start ∧ start < base + b.size) →
      pyKeep (pyLrLoop start size (pyRangesFrom base bs)) = resolveTok bs base start size := by
  intro bs
  induction bs with
  | nil => intro base _; rfl
  | cons b rest ih =>
    intro base hpre
    have hlt : start < base + b.size := by
      rcases hpre with h | ⟨b', r', he, h1, h2⟩
      · omega
      · cases he; omega
    have ih' := ih (base + b.size) (Or.inl hlt)
    simp only [pyRangesFrom, pyLrLoop]
    conv => rhs; unfold resolveTok
    simp only []
    by_cases hbrk : start + size ≤ base
    · rw [if_pos hbrk, if_neg (by omega), resolveTok_nil_of_ge _ _ _ _ (by omega)]; rfl
    · rw [if_neg hbrk]
      by_cases hge : start ≥ base
      · by_cases hend : start + size ≤ base + b.size
        · rw [if_pos ⟨hge, hend⟩, pyKeep_cons, ih']
          dsimp only
          have hmax : max start base = start := by omega
          have hmin : min (start + size) (base + b.size) = start + size := by omega
          rw [hmax, hmin, if_pos (by omega), if_pos (by omega)]
          simp only [List.cons_append, List.nil_append, List.cons.injEq, and_true]
          congr 1 <;> omega
        · rw [if_neg (by omega), if_pos ⟨hge, by omega⟩, pyKeep_cons, ih']
          dsimp only
          have hmax : max start base = start := by omega
          have hmin : min (start + size) (base + b.size) = base + b.size := by omega
          rw [hmax, hmin, if_pos (by omega), if_pos (by omega)]
          simp only [List.cons_append, List.nil_append, List.cons.injEq, and_true]
          congr 1 <;> omega
      · by_cases hend : start + size > base + b.size
        · rw [if_neg (by omega), if_neg (by omega), if_pos ⟨by omega, hend⟩, pyKeep_cons, ih']
          dsimp only
          have hmax : max start base = base := by omega
          have hmin : min (start + size) (base + b.size) = base + b.size := by omega
          rw [hmax, hmin]
          by_cases hz : b.size = 0
          · rw [if_neg (by omega), if_neg (by omega)]; rfl
          · rw [if_pos (by omega), if_pos (by omega)]
            simp only [List.cons_append, List.nil_append, List.cons.injEq, and_true]
            congr 1 <;> omega
        · rw [if_neg (by omega), if_neg (by omega), if_neg (by omega), pyKeep_cons, ih']
          dsimp only
          have hmax : max start base = base := by omega
          have hmin : min (start + size) (base + b.size) = start + size := by omega
          rw [hmax, hmin, if_pos (by omega), if_pos (by omega)]
          simp only [List.cons_append, List.nil_append, List.cons.injEq, and_true]
          congr 1 <;> omega

/-- One range inside the stream: `locators_and_ranges` raises nothing and, zero-length entries
dropped, returns `resolveTok`. This is the statement that failed before fix 9f993b5 (where
`first_block` returned `None` and the result was silently `[]`). -/
theorem pyLocatorsAndRanges_spec (bs : List Loc) (pos len : Nat) (hin : pos + len ≤ streamLen bs) :
    ∃ segs, pyLocatorsAndRanges pyFirstBlock (pyRangesFrom 0 bs) pos len = .ok segs ∧
      pyKeep segs = resolveTok bs 0 pos len := by
  unfold pyLocatorsAndRanges
  by_cases h0 : len = 0
  · rw [if_pos h0, h0, resolveTok_len0]; exact ⟨_, rfl, rfl⟩
  · rw [if_neg h0]
    have hne : bs ≠ [] := by
      intro h; subst h; simp at hin; omega
    have hrs := pyRangesFrom_ne_nil bs 0 hne
    have hc := pyRangesFrom_contiguous bs 0
    obtain ⟨i, hi⟩ := exists_inBlock bs 0 pos (Nat.zero_le _) (by omega)
    have hpi : PyInBlock (pyRangesFrom 0 bs) pos i := by
      rw [← pyInBlock_iff _ _ _ hrs hc, pyOffsets_ranges bs 0 hne]; exact hi
    have hfound : pyFirstBlock (pyRangesFrom 0 bs) pos = .found i := by
      rcases pyFirstBlock_spec _ pos hrs hc with ⟨k, hk, hin'⟩ | ⟨_, hno⟩
      · rw [hk]
        have e1 : InBlock (plainOffsets 0 bs) pos k := by
          rw [← pyOffsets_ranges bs 0 hne, pyInBlock_iff _ _ _ hrs hc]; exact hin'
        rw [inBlock_unique (plainOffsets_sorted bs 0) e1 hi]
      · exact absurd hpi (hno i)
    rw [hfound]
    simp only []
    refine ⟨_, rfl, ?_⟩
    obtain ⟨a, c, ha, hc', h1, h2⟩ := hi
    have hil : i < bs.length := by
      have := (List.getElem?_eq_some_iff.mp hc').1
      rw [plainOffsets_length] at this; omega
    rw [plainOffsets_get bs 0 i (by omega)] at ha
    rw [plainOffsets_get bs 0 (i + 1) (by omega)] at hc'
    cases ha; cases hc'
    have hdrop : bs.drop i = bs[i] :: bs.drop (i + 1) := List.drop_eq_getElem_cons hil
    have htake := streamLen_take_succ bs i hil
    rw [pyRangesFrom_drop,
      pyLrLoop_spec pos len (by omega) (bs.drop i) (0 + streamLen (bs.take i))
        (Or.inr ⟨bs[i], bs.drop (i + 1), hdrop, by omega, by omega⟩),
      resolveTok_drop bs 0 pos len i (by omega)]

end ArvVerif.C10
