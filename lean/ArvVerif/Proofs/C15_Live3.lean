/-
C15 liveness system: satisfiable types are preserved; while the goal is not reached some fair action is
enabled (`progress`); the enabled action chosen survives stuttering steps.
-/
import ArvVerif.Proofs.C15_Live2
namespace ArvVerif.C15
open ArvVerif.C14 (Uuid IType)

/-- every container's and every instance's type is one of the cluster's instance types
("satisfiable instance type") -/
def TypesOK (s : LState) : Prop := (∀ c ∈ s.ctrs, c.ty ∈ s.types) ∧ (∀ i ∈ s.insts, i.ty ∈ s.types)

theorem restartCtr_ty (c : Ctr) : (restartCtr c).ty = c.ty := by
  unfold restartCtr; split <;> rfl

theorem restartInst_ty (i : Inst) : (restartInst i).ty = i.ty := by
  unfold restartInst; split <;> rfl

theorem released_ty (ty : IType) (j : Option Job) : ∀ c ∈ released ty j, c.ty = ty := by
  intro c hc
  unfold released at hc
  split at hc
  · cases hc
  · split at hc <;> simp at hc <;> (try (subst hc; rfl))

/-- replacing the element in the middle of a list by one with the same type -/
theorem forall_mid {α : Type} (p : α → Prop) (pre post : List α) (x y : α)
    (h : ∀ z ∈ pre ++ x :: post, p z) (hy : p y) : ∀ z ∈ pre ++ y :: post, p z := by
  intro z hz
  simp only [List.mem_append, List.mem_cons] at hz h
  rcases hz with hz | hz | hz
  · exact h z (Or.inl hz)
  · exact hz ▸ hy
  · exact h z (Or.inr (Or.inr hz))

theorem forall_mid_x {α : Type} (p : α → Prop) (pre post : List α) (x : α)
    (h : ∀ z ∈ pre ++ x :: post, p z) : p x :=
  h x (by simp)

theorem typesOK_step {s t : LState} {a : Act} (h : Step s a t) (hT : TypesOK s) : TypesOK t := by
  obtain ⟨hc, hi⟩ := hT
  have snoc : ∀ (c : Ctr), c.ty ∈ s.types → ∀ z ∈ s.ctrs ++ [c], z.ty ∈ s.types := by
    intro c hc' z hz
    simp only [List.mem_append, List.mem_cons, List.not_mem_nil, or_false] at hz
    rcases hz with hz | hz
    · exact hc z hz
    · exact hz ▸ hc'
  cases h with
  | lock pre post c h1 _ _ _ =>
    exact ⟨forall_mid _ pre post c _ (h1 ▸ hc) (forall_mid_x _ pre post c (h1 ▸ hc)), hi⟩
  | lockQ pre post c h1 _ _ _ =>
    exact ⟨forall_mid _ pre post c _ (h1 ▸ hc) (forall_mid_x _ pre post c (h1 ▸ hc)), hi⟩
  | unlockQ pre post c h1 _ _ _ =>
    exact ⟨forall_mid _ pre post c _ (h1 ▸ hc) (forall_mid_x _ pre post c (h1 ▸ hc)), hi⟩
  | requeue pre post c h1 _ _ =>
    exact ⟨forall_mid _ pre post c _ (h1 ▸ hc) (forall_mid_x _ pre post c (h1 ▸ hc)), hi⟩
  | cancel pre post c h1 _ _ _ =>
    exact ⟨forall_mid _ pre post c _ (h1 ▸ hc) (forall_mid_x _ pre post c (h1 ▸ hc)), hi⟩
  | staleResolve pre post c u h1 _ _ =>
    exact ⟨forall_mid _ pre post c _ (h1 ▸ hc) (forall_mid_x _ pre post c (h1 ▸ hc)), hi⟩
  | start pre post c ipre ipost i h1 _ _ h4 _ _ _ =>
    refine ⟨?_, forall_mid _ ipre ipost i _ (h4 ▸ hi) (forall_mid_x _ ipre ipost i (h4 ▸ hi))⟩
    intro z hz
    rw [h1] at hc
    simp only [List.mem_append, List.mem_cons] at hz hc
    rcases hz with hz | hz
    · exact hc z (Or.inl hz)
    · exact hc z (Or.inr (Or.inr hz))
  | create t _ _ h3 _ =>
    refine ⟨hc, ?_⟩
    intro z hz
    simp only [List.mem_append, List.mem_cons, List.not_mem_nil, or_false] at hz
    rcases hz with hz | hz
    · exact hi z hz
    · rw [hz]; exact h3
  | recoveryDone _ _ => exact ⟨hc, hi⟩
  | quotaExpire _ => exact ⟨hc, hi⟩
  | idle => exact ⟨hc, hi⟩
  | hiccup _ => exact ⟨hc, hi⟩
  | boot ipre ipost i h1 _ _ =>
    exact ⟨hc, forall_mid _ ipre ipost i _ (h1 ▸ hi) (forall_mid_x _ ipre ipost i (h1 ▸ hi))⟩
  | probeUnknown ipre ipost i j h1 _ _ =>
    exact ⟨hc, forall_mid _ ipre ipost i _ (h1 ▸ hi) (forall_mid_x _ ipre ipost i (h1 ▸ hi))⟩
  | jobGone ipre ipost i j g h1 _ _ _ =>
    exact ⟨hc, forall_mid _ ipre ipost i _ (h1 ▸ hi) (forall_mid_x _ ipre ipost i (h1 ▸ hi))⟩
  | idleTimeout ipre ipost i h1 _ _ _ =>
    exact ⟨hc, forall_mid _ ipre ipost i _ (h1 ▸ hi) (forall_mid_x _ ipre ipost i (h1 ▸ hi))⟩
  | drainShutdown ipre ipost i h1 _ _ =>
    exact ⟨hc, forall_mid _ ipre ipost i _ (h1 ▸ hi) (forall_mid_x _ ipre ipost i (h1 ▸ hi))⟩
  | brokenTimeout ipre ipost i j h1 _ _ =>
    exact ⟨hc, forall_mid _ ipre ipost i _ (h1 ▸ hi) (forall_mid_x _ ipre ipost i (h1 ▸ hi))⟩
  | destroyRetry ipre ipost i j h1 _ =>
    exact ⟨hc, forall_mid _ ipre ipost i _ (h1 ▸ hi) (forall_mid_x _ ipre ipost i (h1 ▸ hi))⟩
  | quotaShutdown ipre ipost i h1 _ _ =>
    exact ⟨hc, forall_mid _ ipre ipost i _ (h1 ▸ hi) (forall_mid_x _ ipre ipost i (h1 ▸ hi))⟩
  | createDone ipre ipost i h1 _ =>
    exact ⟨hc, forall_mid _ ipre ipost i _ (h1 ▸ hi) (forall_mid_x _ ipre ipost i (h1 ▸ hi))⟩
  | exec ipre ipost i j h1 _ _ _ =>
    exact ⟨hc, forall_mid _ ipre ipost i _ (h1 ▸ hi) (forall_mid_x _ ipre ipost i (h1 ▸ hi))⟩
  | apiRun ipre ipost i j h1 _ _ =>
    exact ⟨hc, forall_mid _ ipre ipost i _ (h1 ▸ hi) (forall_mid_x _ ipre ipost i (h1 ▸ hi))⟩
  | crashL ipre ipost i j _ h1 _ _ =>
    exact ⟨hc, forall_mid _ ipre ipost i _ (h1 ▸ hi) (forall_mid_x _ ipre ipost i (h1 ▸ hi))⟩
  | crashR ipre ipost i j _ h1 _ _ =>
    exact ⟨hc, forall_mid _ ipre ipost i _ (h1 ▸ hi) (forall_mid_x _ ipre ipost i (h1 ▸ hi))⟩
  | breakInst ipre ipost i _ h1 =>
    exact ⟨hc, forall_mid _ ipre ipost i _ (h1 ▸ hi) (forall_mid_x _ ipre ipost i (h1 ▸ hi))⟩
  | drainInst ipre ipost i _ h1 _ =>
    exact ⟨hc, forall_mid _ ipre ipost i _ (h1 ▸ hi) (forall_mid_x _ ipre ipost i (h1 ▸ hi))⟩
  | destroyFail ipre ipost i j _ h1 _ =>
    exact ⟨hc, forall_mid _ ipre ipost i _ (h1 ▸ hi) (forall_mid_x _ ipre ipost i (h1 ▸ hi))⟩
  | createFail ipre ipost i q _ h1 _ =>
    exact ⟨hc, forall_mid _ ipre ipost i _ (h1 ▸ hi) (forall_mid_x _ ipre ipost i (h1 ▸ hi))⟩
  | noticeDead ipre ipost i j h1 _ _ _ =>
    have hity := forall_mid_x _ ipre ipost i (h1 ▸ hi)
    exact ⟨snoc _ hity, forall_mid _ ipre ipost i _ (h1 ▸ hi) hity⟩
  | complete ipre ipost i j h1 _ _ =>
    have hity := forall_mid_x _ ipre ipost i (h1 ▸ hi)
    exact ⟨snoc _ hity, forall_mid _ ipre ipost i _ (h1 ▸ hi) hity⟩
  | destroyOk ipre ipost i j h1 _ =>
    have hity := forall_mid_x _ ipre ipost i (h1 ▸ hi)
    refine ⟨?_, forall_mid _ ipre ipost i _ (h1 ▸ hi) hity⟩
    intro z hz
    simp only [List.mem_append] at hz
    rcases hz with hz | hz
    · exact hc z hz
    · rw [released_ty i.ty j z hz]; exact hity
  | restart _ =>
    refine ⟨?_, ?_⟩
    · intro z hz
      obtain ⟨c, hc', rfl⟩ := List.mem_map.mp hz
      rw [restartCtr_ty]; exact hc c hc'
    · intro z hz
      obtain ⟨i, hi', rfl⟩ := List.mem_map.mp hz
      rw [restartInst_ty]; exact hi i hi'

theorem typesOK_types {s t : LState} {a : Act} (h : Step s a t) : t.types = s.types := by
  cases h <;> rfl

/-! ### progress -/

/-- the fair action `k` is enabled in a way that survives stuttering steps -/
def Stable (k : Kind) (s : LState) : Prop := Enabled k s ∧ (k = .quotaExpire ∨ s.atQuota = false)

theorem stable_keep {s t : LState} {a : Act} {k : Kind} (h : Step s a t) (he : mu t = mu s) (hs : Stable k s) :
    Stable k t := by
  rcases step_stutter h he with ⟨hq, hq'⟩ | e
  · rcases hs.2 with hk | hk
    · subst hk; exact ⟨hq', Or.inl rfl⟩
    · rw [hq] at hk; cases hk
  · rw [e]; exact hs

/-- something in an instance can move -/
theorem progress_inst (s : LState) (i : Inst) (hi : i ∈ s.insts) (hg : i.ph ≠ .gone) :
    ∃ k, Enabled k s := by
  cases hp : i.ph with
  | gone => exact absurd hp hg
  | creating => exact ⟨.createDone, i, hi, hp⟩
  | booting =>
    cases hh : i.health with
    | ok => exact ⟨.boot, i, hi, hp, by simp [hh]⟩
    | drain => exact ⟨.drainShutdown, i, hi, Or.inl hp, hh⟩
    | broken => exact ⟨.brokenTimeout, i, hi, hh, Or.inl hp⟩
  | unknown j =>
    by_cases hh : i.health = .broken
    · exact ⟨.brokenTimeout, i, hi, hh, Or.inr (Or.inl ⟨j, hp⟩)⟩
    · exact ⟨.probeUnknown, i, hi, j, hp, hh⟩
  | shutP j => exact ⟨.destroyOk, i, hi, j, hp⟩
  | shutF j => exact ⟨.destroyRetry, i, hi, j, hp⟩
  | up j =>
    by_cases hh : i.health = .broken
    · exact ⟨.brokenTimeout, i, hi, hh, Or.inr (Or.inr ⟨j, hp⟩)⟩
    · cases j with
      | some j =>
        cases hj : j.ph with
        | starting => exact ⟨.exec, i, hi, j, Or.inr hp, hh, hj⟩
        | runL => exact ⟨.apiRun, i, hi, j, by simp [hp, IPh.job], hj⟩
        | runR => exact ⟨.complete, i, hi, j, by simp [hp, IPh.job], hj⟩
        | deadL => exact ⟨.noticeDead, i, hi, j, hp, hh, Or.inl hj⟩
        | deadR => exact ⟨.noticeDead, i, hi, j, hp, hh, Or.inr hj⟩
        | done => exact ⟨.jobGone, i, hi, j, hp, hh, hj⟩
      | none =>
        cases hh' : i.health with
        | broken => exact absurd hh' hh
        | drain => exact ⟨.drainShutdown, i, hi, Or.inr hp, hh'⟩
        | ok =>
          by_cases hr : s.recovering = true
          · exact ⟨.idleTimeout, i, hi, hp, hh', Or.inl hr⟩
          · by_cases hw : waiting s.ctrs i.ty = 0
            · exact ⟨.idleTimeout, i, hi, hp, hh', Or.inr hw⟩
            · have hr' : s.recovering = false := by simpa using hr
              have hpos : 0 < waiting s.ctrs i.ty := Nat.pos_of_ne_zero hw
              unfold waiting at hpos
              obtain ⟨c, hc, hcp⟩ := List.countP_pos_iff.mp hpos
              simp only [Bool.and_eq_true, beq_iff_eq] at hcp
              exact ⟨.start, hr', c, hc, i, hi, hcp.1, hp, hh', hcp.2.symm⟩

/-- **Progress.** While some container is not final or some instance still exists, a fair action
is (stably) enabled. -/
theorem progress (s : LState) (hT : TypesOK s) (hg : ¬ (AllFinal s ∧ NoInstances s)) : ∃ k, Stable k s := by
  by_cases hq : s.atQuota = true
  · exact ⟨.quotaExpire, hq, Or.inl rfl⟩
  · have hq' : s.atQuota = false := by simpa using hq
    suffices h : ∃ k, Enabled k s by
      obtain ⟨k, hk⟩ := h
      exact ⟨k, hk, Or.inr hq'⟩
    by_cases hex : ∃ i ∈ s.insts, i.ph ≠ .gone
    · obtain ⟨i, hi, hgone⟩ := hex
      exact progress_inst s i hi hgone
    · have hno : NoInstances s := by
        intro i hi
        apply Classical.byContradiction
        intro h
        exact hex ⟨i, hi, h⟩
      have hjobs : ∀ i ∈ s.insts, ∀ j, i.ph.job = some j → j.ph = .done := by
        intro i hi j hj
        rw [hno i hi] at hj
        simp [IPh.job] at hj
      have hc : ∃ c ∈ s.ctrs, c.ph ≠ .fin := by
        apply Classical.byContradiction
        intro h
        apply hg
        refine ⟨⟨?_, hjobs⟩, hno⟩
        intro c hc
        apply Classical.byContradiction
        intro h'
        exact h ⟨c, hc, h'⟩
      obtain ⟨c, hcm, hcf⟩ := hc
      by_cases hr : s.recovering = true
      · refine ⟨.recoveryDone, hr, ?_⟩
        intro i hi j hj
        rw [hno i hi] at hj
        cases hj
      · have hr' : s.recovering = false := by simpa using hr
        cases hp : c.ph with
        | fin => exact absurd hp hcf
        | queued => exact ⟨.lock, hr', hq', c, hcm, hp⟩
        | exitedL => exact ⟨.requeue, hr', c, hcm, hp⟩
        | lockedStale => exact ⟨.staleResolve, hr', c, hcm, hp⟩
        | lostR =>
          refine ⟨.cancel, hr', ?_, c, hcm, hp⟩
          intro i hi j hj
          rw [hno i hi] at hj
          cases hj
        | locked =>
          refine ⟨.create, hr', hq', c.ty, hT.1 c hcm, ?_⟩
          have h0 : unallocReal s.insts c.ty = 0 := by
            unfold unallocReal
            rw [List.countP_eq_zero]
            intro i hi
            simp [Inst.unallocReal, hno i hi]
          have h1 : 0 < waiting s.ctrs c.ty := by
            unfold waiting
            exact List.countP_pos_iff.mpr ⟨c, hcm, by simp [hp]⟩
          omega

end ArvVerif.C15
