/-
C09 helper lemmas, part 16: a saved text without marker lines is a text of `C10.parseSpec`; no path of
it is both file and directory when no file of the tree has the path of a directory.
-/
import ArvVerif.Proofs.C09_Dirs
import ArvVerif.Proofs.C09_Load
namespace ArvVerif.C09

open ArvVerif.C10 (bSpace bNL bSlash bColon bDot splitOn joinWith)

/-- without markers, `parse9` is `C10.parseSpec` -/
theorem mapOpt_specLine_of_no_markers : ∀ (lines : List Bytes) (L : List Line9),
    C10.mapOpt specLine9 lines = some L → markersOf L = [] → C10.mapOpt C10.specLine lines = some (streamsOf L)
  | [], L, h, _ => by simp [C10.mapOpt] at h; subst h; rfl
  | l :: ls, L, h, hm => by
    obtain ⟨x, xs, h1, h2, rfl⟩ := C10.mapOpt_cons_some specLine9 l ls L h
    unfold specLine9 at h1
    cases hs : C10.specLine l with
    | none =>
      rw [hs] at h1
      simp only [Option.map_eq_some_iff] at h1
      obtain ⟨n, _, rfl⟩ := h1
      simp [markersOf] at hm
    | some s =>
      rw [hs] at h1
      simp only [Option.some.injEq] at h1
      subst h1
      simp only [markersOf] at hm
      unfold C10.mapOpt
      rw [hs, mapOpt_specLine_of_no_markers ls xs h2 hm]
      rfl

theorem parseSpec_of_parse9 (txt : Bytes) (L : List Line9) (h : parse9 txt = some L) (hm : markersOf L = []) :
    C10.parseSpec txt = some (streamsOf L) := by
  unfold parse9 at h
  unfold C10.parseSpec
  by_cases h0 : txt = []
  · rw [if_pos h0] at h ⊢
    cases h; rfl
  · rw [if_neg h0] at h ⊢
    simp only [] at h ⊢
    split at h
    · next hl => rw [if_pos hl]; exact mapOpt_specLine_of_no_markers _ L h hm
    · cases h

theorem splitOn_cons_eq (sep c : UInt8) (rest : Bytes) (h : (c == sep) = true) :
    splitOn sep (c :: rest) = [] :: splitOn sep rest := by
  conv => lhs; unfold splitOn
  simp [h]

theorem splitOn_cons_ne (sep c : UInt8) (rest : Bytes) (h : ¬ (c == sep) = true) (p : Bytes) (ps : List Bytes)
    (hr : splitOn sep rest = p :: ps) : splitOn sep (c :: rest) = (c :: p) :: ps := by
  conv => lhs; unfold splitOn
  simp [h, hr]

/-- splitting at a separator splits the list of pieces -/
theorem splitOn_sep_general (sep : UInt8) : ∀ (X Y : Bytes), ∃ init last,
    splitOn sep X = init ++ [last] ∧ splitOn sep (X ++ sep :: Y) = init ++ [last] ++ splitOn sep Y
  | [], Y => ⟨[], [], rfl, by simp [splitOn_cons_eq]⟩
  | c :: X, Y => by
    obtain ⟨init, last, h1, h2⟩ := splitOn_sep_general sep X Y
    by_cases hc : (c == sep) = true
    · refine ⟨[] :: init, last, ?_, ?_⟩
      · rw [splitOn_cons_eq sep c X hc, h1]; rfl
      · rw [List.cons_append, splitOn_cons_eq sep c _ hc, h2]; rfl
    · cases init with
      | nil =>
        refine ⟨[], c :: last, ?_, ?_⟩
        · exact splitOn_cons_ne sep c X hc last [] (by simpa using h1)
        · rw [List.cons_append]
          exact splitOn_cons_ne sep c _ hc last (splitOn sep Y) (by simpa using h2)
      | cons p ps =>
        refine ⟨(c :: p) :: ps, last, ?_, ?_⟩
        · exact splitOn_cons_ne sep c X hc p (ps ++ [last]) (by simpa using h1)
        · rw [List.cons_append]
          have := splitOn_cons_ne sep c _ hc p (ps ++ [last] ++ splitOn sep Y) (by simpa using h2)
          simpa using this

/-- a directory prefix at the byte level is a proper prefix at the component level -/
theorem isDirPrefix_comps {a b : List Bytes} (ha : ∀ c ∈ a, bSlash ∉ c) (hb : ∀ c ∈ b, bSlash ∉ c)
    (h : C10.isDirPrefix (prefixOf a) (prefixOf b) = true) : ∃ x rest, b = a ++ x :: rest := by
  unfold C10.isDirPrefix at h
  rw [List.isPrefixOf_iff_prefix] at h
  obtain ⟨r, hr⟩ := h
  have e1 := splitOn_prefixOf a ha
  have e2 := splitOn_prefixOf b hb
  obtain ⟨init, last, h1, h2⟩ := splitOn_sep_general bSlash (prefixOf a) r
  have : prefixOf a ++ bSlash :: r = prefixOf b := by rw [← hr]; simp
  rw [this, e2] at h2
  rw [e1] at h1
  rw [← h1] at h2
  have hne := C10.splitOn_ne_nil bSlash r
  cases hsr : splitOn bSlash r with
  | nil => exact absurd hsr hne
  | cons x rest =>
    rw [hsr] at h2
    simp only [List.cons_append, List.cons.injEq, true_and] at h2
    exact ⟨x, rest, h2⟩

theorem stream_mem_streamsOf : ∀ (L : List Line9) (s : C10.Stream), Line9.stream s ∈ L → s ∈ streamsOf L
  | [], _, h => by cases h
  | x :: rest, s, h => by
    rcases List.mem_cons.mp h with rfl | h'
    · simp [streamsOf]
    · cases x with
      | stream s' => simp only [streamsOf]; exact List.mem_cons_of_mem _ (stream_mem_streamsOf rest s h')
      | marker n => simp only [streamsOf]; exact stream_mem_streamsOf rest s h'

/-- every directory of a tree whose lines exist has its own lines among them -/
theorem treeLines_dir : ∀ (t : Tree9) (L : List Line9), treeLines t = some L → ∀ d ∈ t,
    ∃ Ld, dirLines d = some Ld ∧ ∀ x ∈ Ld, x ∈ L
  | [], _, _, d, hd => by cases hd
  | d0 :: rest, L, h, d, hd => by
    unfold treeLines at h
    cases h1 : dirLines d0 with
    | none => rw [h1] at h; cases h
    | some a =>
      cases h2 : treeLines rest with
      | none => rw [h1, h2] at h; cases h
      | some b =>
        rw [h1, h2] at h
        simp only [Option.some.injEq] at h
        subst h
        rcases List.mem_cons.mp hd with rfl | hd
        · exact ⟨a, h1, fun x hx => List.mem_append_left _ hx⟩
        · obtain ⟨Ld, e1, e2⟩ := treeLines_dir rest b h2 d hd
          exact ⟨Ld, e1, fun x hx => List.mem_append_right _ (e2 x hx)⟩

/-- a file of a directory has a token in that directory's stream, and the stream is a line -/
theorem file_has_token {t : Tree9} {L : List Line9} (hL : treeLines t = some L) {d : Dir9} (hd : d ∈ t)
    {f : Bytes × C08.FileNode} (hf : f ∈ d.files) :
    ∃ e, emitFiles ⟨[], 0, []⟩ d.files = some e ∧ streamOfEmit d.path e ∈ streamsOf L ∧
      ∃ p ∈ e.partsRev, p.name = f.1 := by
  obtain ⟨Ld, hLd, hsub⟩ := treeLines_dir t L hL d hd
  unfold dirLines at hLd
  have hne : ¬ d.isEmpty = true := by
    intro h
    unfold Dir9.isEmpty at h
    simp only [Bool.and_eq_true] at h
    rw [List.isEmpty_iff.mp h.1] at hf; cases hf
  rw [if_neg hne] at hLd
  cases hem : emitFiles ⟨[], 0, []⟩ d.files with
  | none => rw [hem] at hLd; cases hLd
  | some e =>
    rw [hem] at hLd
    simp only [Option.some.injEq] at hLd
    obtain ⟨p, hp, hn⟩ := emitFiles_keeps f.1 d.files _ e hem (Or.inr ⟨f, hf, rfl⟩)
    have hpe : ¬ e.partsRev.isEmpty = true := by
      intro h; rw [List.isEmpty_iff.mp h] at hp; cases hp
    rw [if_neg hpe] at hLd
    subst hLd
    exact ⟨e, rfl, stream_mem_streamsOf L _ (hsub _ (by simp)), p, hp, hn⟩

end ArvVerif.C09
