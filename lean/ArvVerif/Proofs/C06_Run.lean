/-
C06(c) proofs: for every guard list that satisfies the decidable predicate `wellGuarded`, under
every choice of which steps are reached and which calls fail, no commit call is made after a failed
call and the function returns an error.
-/
import ArvVerif.Model.C06_Run
namespace ArvVerif.C06

theorem exec_calls_from (runs fails : Nat → Bool) : ∀ (steps : List Step) (i : Nat) (err : Bool),
    ∀ c ∈ (exec runs fails steps i err).calls, ∃ st ∈ steps, st.name = c.1 := by
  intro steps
  induction steps with
  | nil => intro i err c hc; simp [exec] at hc
  | cons st rest ih =>
    intro i err c hc
    unfold exec at hc
    split at hc
    · obtain ⟨s, hs, hn⟩ := ih _ _ c hc
      exact ⟨s, by simp [hs], hn⟩
    · simp only at hc
      split at hc
      · simp only [List.mem_singleton] at hc
        exact ⟨st, by simp, by rw [hc]⟩
      · simp only [List.mem_cons] at hc
        rcases hc with rfl | hc
        · exact ⟨st, by simp, rfl⟩
        · obtain ⟨s, hs, hn⟩ := ih _ _ c hc
          exact ⟨s, by simp [hs], hn⟩

theorem exec_err_of_noFail (runs fails : Nat → Bool) : ∀ (steps : List Step) (i : Nat) (err : Bool),
    (∀ st ∈ steps, st.canFail = false) → (exec runs fails steps i err).err = err := by
  intro steps
  induction steps with
  | nil => intro i err _; simp [exec]
  | cons st rest ih =>
    intro i err h
    have hst := h st (by simp)
    have hrest : ∀ s ∈ rest, s.canFail = false := fun s hs => h s (by simp [hs])
    unfold exec
    split
    · exact ih _ _ hrest
    · simp only [hst, Bool.false_and, Bool.false_eq_true, if_false]
      exact ih _ _ hrest

/-- No commit call after a failed call. -/
theorem no_commit_after_failure (runs fails : Nat → Bool) : ∀ (steps : List Step),
    wellGuarded steps = true → ∀ (i : Nat) (err : Bool) (pre : List (Str × Bool)) (n : Str)
      (post : List (Str × Bool)),
      (exec runs fails steps i err).calls = pre ++ (n, true) :: post →
      ∀ c ∈ post, isCommit c.1 = false := by
  intro steps
  induction steps with
  | nil => intro _ i err pre n post h; simp [exec] at h
  | cons st rest ih =>
    intro hw i err pre n post h
    simp only [wellGuarded, Bool.and_eq_true] at hw
    obtain ⟨hst, hwrest⟩ := hw
    unfold exec at h
    split at h
    · exact ih hwrest _ _ pre n post h
    · simp only at h
      split at h
      · -- guarded failure: nothing follows
        cases pre with
        | nil => simp at h; intro c hc; rw [h.2] at hc; simp at hc
        | cons x pre' => simp at h
      · rename_i hng
        cases pre with
        | nil =>
          simp only [List.nil_append, List.cons.injEq, Prod.mk.injEq] at h
          obtain ⟨⟨_, hfailed⟩, hpost⟩ := h
          -- failed and not guarded: the rest has no commit call
          have hcf : st.canFail = true := by
            cases hc : st.canFail <;> simp [hc] at hfailed ⊢
          have hg : st.guarded = false := by
            cases hgd : st.guarded
            · rfl
            · simp [hfailed, hgd] at hng
          simp only [hcf, hg, Bool.not_true, Bool.false_or, List.all_eq_true, Bool.and_eq_true,
            Bool.not_eq_true'] at hst
          intro c hc
          rw [← hpost] at hc
          obtain ⟨s, hs, hn⟩ := exec_calls_from runs fails rest _ _ c hc
          rw [← hn]
          exact (hst s hs).1
        | cons x pre' =>
          simp only [List.cons_append, List.cons.injEq] at h
          exact ih hwrest _ _ pre' n post h.2

/-- A failed call makes the function return an error. -/
theorem error_returned (runs fails : Nat → Bool) : ∀ (steps : List Step),
    wellGuarded steps = true → ∀ (i : Nat) (err : Bool) (n : Str),
      (n, true) ∈ (exec runs fails steps i err).calls → (exec runs fails steps i err).err = true := by
  intro steps
  induction steps with
  | nil => intro _ i err n h; simp [exec] at h
  | cons st rest ih =>
    intro hw i err n h
    simp only [wellGuarded, Bool.and_eq_true] at hw
    obtain ⟨hst, hwrest⟩ := hw
    by_cases hr : (!runs i) = true
    · simp only [exec, hr, if_true] at h ⊢
      exact ih hwrest _ _ n h
    · by_cases hng : (st.canFail && fails i && st.guarded) = true
      · simp only [exec, hr, hng, if_true]
        simp
      · simp only [exec, hr, hng, if_false, Bool.false_eq_true, List.mem_cons, Prod.mk.injEq] at h ⊢
        rcases h with ⟨_, hfailed⟩ | h
        · have hcf : st.canFail = true := by
            cases hc : st.canFail <;> simp [hc] at hfailed ⊢
          have hg : st.guarded = false := by
            cases hgd : st.guarded
            · rfl
            · simp [← hfailed, hgd] at hng
          simp only [hcf, hg, Bool.not_true, Bool.false_or, List.all_eq_true, Bool.and_eq_true,
            Bool.not_eq_true'] at hst
          rw [exec_err_of_noFail runs fails rest _ _ (fun s hs => (hst s hs).2)]
          rw [hcf] at hfailed
          simpa [hcf] using hfailed.symm
        · exact ih hwrest _ _ n h

/-- The calls are made in the order of the guard list. -/
theorem exec_calls_sublist (runs fails : Nat → Bool) : ∀ (steps : List Step) (i : Nat) (err : Bool),
    ((exec runs fails steps i err).calls.map (·.1)).Sublist (steps.map (·.name)) := by
  intro steps
  induction steps with
  | nil => intro i err; simp [exec]
  | cons st rest ih =>
    intro i err
    unfold exec
    split
    · exact (ih _ _).cons _
    · simp only
      split
      · simp only [List.map_cons, List.map_nil]
        exact (List.nil_sublist _).cons_cons _
      · simp only [List.map_cons]
        exact (ih _ _).cons_cons _

end ArvVerif.C06
