/-
C08 helper lemmas, part 14: read-until-n (`Op.readn`): the concrete loop of short reads delivers
exactly what the plain model's single `pread` delivers.
-/
import ArvVerif.Proofs.C08_Hist4
namespace ArvVerif.C08

variable {max : Nat} {hash : Bytes → Loc}

section Handles
variable {F P W : Type}

theorem getHandle_setHandle (s : FS F P W) (h : Nat) (v : Handle P) : getHandle (setHandle s h v) h = some v := by
  simp only [getHandle, setHandle, List.find?_append]
  have : (s.handles.filter (fun e => !(e.1 == h))).find? (fun e => e.1 == h) = none := by
    rw [List.find?_eq_none]
    intro x hx
    have := (List.mem_filter.mp hx).2
    simpa using this
  rw [this]
  simp

theorem setHandle_setHandle (s : FS F P W) (h : Nat) (a b : Handle P) :
    setHandle (setHandle s h a) h b = setHandle s h b := by
  simp only [setHandle, List.filter_append, List.filter_filter]
  congr 2
  simp

end Handles

theorem specRead_split (A : Bytes) (off a b : Nat) :
    specRead A off a ++ specRead A (off + a) b = specRead A off (a + b) := by
  unfold specRead
  rw [List.take_add, List.drop_drop]

theorem specRead_length (A : Bytes) (off n : Nat) : (specRead A off n).length = min n (A.length - off) := by
  simp [specRead]

/-- The concrete read-until-`want` loop on a readable file handle. -/
theorem readLoop_conc {s : CFS} (hinv : Inv max hash s) :
    ∀ (fuel : Nat) (s1 : CFS) (acc : Bytes) (hd : Handle Ptr) (h want f : Nat) (nf : String × FileNode),
      Inv max hash s1 → getHandle s1 h = some hd → hd.node = Node.file f → hd.rd = true →
      s1.files[f]? = some nf → acc.length < want → want - acc.length + 1 ≤ fuel →
      ∃ s', readLoop (concImpl hash max) fuel s1 h want acc =
          (s', acc ++ specRead (abs s1.world nf.2) hd.ptr.off (want - acc.length),
           if (acc ++ specRead (abs s1.world nf.2) hd.ptr.off (want - acc.length)).length < want then Err.eof else Err.ok) ∧
        Inv max hash s' ∧
        absFS s' = setHandle (absFS s1) h
          { absH hd with ptr := hd.ptr.off + (specRead (abs s1.world nf.2) hd.ptr.off (want - acc.length)).length } := by
  intro fuel
  induction fuel with
  | zero => intro s1 acc hd h want f nf _ _ _ _ _ _ hfuel; omega
  | succ fuel ih =>
    intro s1 acc hd h want f nf hinv1 hg hnode hrd hf hlt hfuel
    obtain ⟨node, ptr, app, rd, wr⟩ := hd
    simp only [] at hnode hrd
    subst hnode; subst hrd
    obtain ⟨hwf, hrep⟩ := hinv1.files nf (List.mem_of_getElem? hf)
    obtain ⟨e, he, heq⟩ := getHandle_mem hg
    obtain ⟨nf', hnf', hp⟩ := hinv1.handles e he f (by rw [heq])
    rw [hf] at hnf'; cases hnf'
    rw [heq] at hp
    simp only [] at hp
    obtain ⟨r, hr1, hr2⟩ := readAt_spec hwf hp (want - acc.length)
    -- one handleRead
    have hhr : handleRead (concImpl hash max) s1 h ⟨Node.file f, ptr, app, true, wr⟩ (want - acc.length) =
        (setHandle s1 h ⟨Node.file f, r.ptr, app, true, wr⟩, r.data, ioErr r.err) := by
      have hcr : (concImpl hash max).read s1.world nf.2 ptr (want - acc.length) =
          Except.ok (r.data, r.ptr, ioErr r.err) := by
        show (match readAt s1.world nf.2 ptr (want - acc.length) with
          | some r => (pure (r.data, r.ptr, ioErr r.err) : Except Err _)
          | none => throw Err.panic) = _
        rw [hr1]; rfl
      unfold handleRead
      simp only [Bool.not_true, Bool.false_eq_true, if_false, hf, hcr]
    have hinv2 : Inv max hash (setHandle s1 h ⟨Node.file f, r.ptr, app, true, wr⟩) := by
      apply hinv1.setHandle
      intro f' hf'
      have : Node.file f = Node.file f' := hf'
      cases this
      exact ⟨nf, hf, hr2.ptr_ok⟩
    obtain ⟨A, hA⟩ : ∃ A, A = abs s1.world nf.2 := ⟨_, rfl⟩
    have hdata : r.data = specRead A ptr.off r.data.length := by rw [hA]; exact hr2.data_eq
    have hoffeq : r.ptr.off = ptr.off + r.data.length := hr2.off_eq
    rw [← hA]
    simp only []
    have hdlen : (specRead A ptr.off r.data.length).length = r.data.length := by
      have := congrArg List.length hdata; omega
    have hAlen : A.length = nf.2.size := by rw [hA]; exact hwf.abs_length
    unfold readLoop
    rw [if_neg (by omega)]
    simp only [hg, hhr]
    cases herr : r.err with
    | io => exact absurd herr hr2.not_io
    | ok =>
      -- progress, then recurse
      have hprog := hr2.progress herr (by omega)
      simp only [ioErr, beq_self_eq_true, if_true]
      by_cases hdone : (acc ++ r.data).length < want
      · -- more to read
        have hg2 : getHandle (setHandle s1 h ⟨Node.file f, r.ptr, app, true, wr⟩) h = some ⟨Node.file f, r.ptr, app, true, wr⟩ :=
          getHandle_setHandle _ _ _
        obtain ⟨s', hl, hi, ha⟩ := ih (setHandle s1 h ⟨Node.file f, r.ptr, app, true, wr⟩) (acc ++ r.data) ⟨Node.file f, r.ptr, app, true, wr⟩
          h want f nf hinv2 hg2 rfl rfl hf hdone (by simp only [List.length_append] at hdone ⊢; omega)
        have hw : (setHandle s1 h ⟨Node.file f, r.ptr, app, true, wr⟩).world = s1.world := rfl
        rw [hw, ← hA] at hl ha
        simp only [] at hl ha
        rw [hoffeq] at hl ha
        have hsplit : r.data ++ specRead A (ptr.off + r.data.length) (want - (acc ++ r.data).length)
            = specRead A ptr.off (want - acc.length) := by
          conv => lhs; arg 1; rw [hdata]
          rw [specRead_split A ptr.off r.data.length _]
          congr 1
          simp only [List.length_append] at hdone ⊢; omega
        refine ⟨s', ?_, hi, ?_⟩
        · rw [hl, List.append_assoc, hsplit]
        · rw [ha, setHandle_abs, setHandle_setHandle]
          congr 1
          simp only [absH]
          congr 1
          rw [← hsplit]; simp only [List.length_append]; omega
      · -- got everything
        have hfull : r.data.length = want - acc.length := by
          have := hr2.len_le; simp only [List.length_append] at hdone; omega
        have hT : specRead A ptr.off (want - acc.length) = r.data := by
          rw [← hfull]; exact hdata.symm
        unfold readLoop
        cases fuel with
        | zero => omega
        | succ fuel' =>
          simp only []
          rw [if_pos (by omega)]
          rw [hT]
          refine ⟨_, ?_, hinv2, ?_⟩
          · rw [if_neg hdone]
          · rw [setHandle_abs]
            congr 1
            simp only [absH, hoffeq]
    | eof =>
      simp only [ioErr]
      have hne : (Err.eof == Err.ok) = false := by decide
      simp only [hne, Bool.false_eq_true, if_false]
      have hcase := hr2.eof_iff.mp herr
      have hT : specRead A ptr.off (want - acc.length) = r.data := by
        have h1 := specRead_length A ptr.off (want - acc.length)
        have h2 := specRead_length A ptr.off r.data.length
        rw [hdata]
        unfold specRead
        rw [List.take_eq_take_iff]
        rw [hdlen] at h2
        simp only [List.length_drop]
        rcases hcase with hc | ⟨hc1, hc2⟩
        · omega
        · omega
      rw [hT]
      refine ⟨_, ?_, hinv2, ?_⟩
      · have : (acc ++ r.data).length < want := by
          simp only [List.length_append]
          rcases hcase with hc | ⟨hc1, hc2⟩
          · have := specRead_length A ptr.off r.data.length
            rw [hdlen] at this; omega
          · omega
        rw [if_pos this]
      · rw [setHandle_abs]
        congr 1
        simp only [absH, hoffeq]

end ArvVerif.C08
