/-
C11 proofs, part 4: the order of the requests in time. The request log is sorted by round, and with
distinct services it has no duplicates; together with the contiguity of the attempts this gives:
the k-th request sent to a service (k = 0, 1, …, in the order they are sent) is its round-k request.
(The scripted services of the correspondence check answer "the k-th request they receive"; the
model answers "the round-k request".)
-/
import ArvVerif.Proofs.C11_Trace
namespace ArvVerif.C11

/-- `reqLog` is newest first: rounds never increase towards the tail; a request of the current round
went to a service already started in this round; no (service, round) pair occurs twice. -/
structure Ordered (s : St) : Prop where
  le : ∀ e ∈ s.reqLog, e.2 ≤ s.round
  now : ∀ e ∈ s.reqLog, e.2 = s.round → e.1 ∈ s.sv.take s.next
  sorted : s.reqLog.Pairwise (fun a b => b.2 ≤ a.2)
  nodup : s.reqLog.Nodup

/-- `Ordered` needs "no service twice in the probe list of a round", which `Once` maintains -/
def OrderedOnce (s : St) : Prop := Once s ∧ Ordered s

theorem orderedOnce_init (c : Cfg) (sv : List Srv) (h : sv.Nodup) : OrderedOnce (init c sv) := by
  refine ⟨once_init c sv h, ?_, ?_, ?_, ?_⟩ <;> simp [init]

theorem orderedOnce_preserved (c : Cfg) : Preserved c OrderedOnce where
  start := by
    intro s h ⟨hon, ho⟩
    have hnot := getElem_not_mem_take hon.svNodup h
    refine ⟨(once_preserved c).start s h hon, ?_, ?_, ?_, ?_⟩
    · intro e he
      simp only [startOne, List.mem_cons] at he ⊢
      rcases he with he | he
      · rw [he]; exact Nat.le_refl _
      · exact ho.le e he
    · intro e he hr
      simp only [startOne, List.mem_cons] at he hr ⊢
      rw [mem_take_succ h]
      rcases he with he | he
      · rw [he]; exact Or.inr rfl
      · exact Or.inl (ho.now e he hr)
    · simp only [startOne, List.pairwise_cons]
      exact ⟨fun e he => ho.le e he, ho.sorted⟩
    · simp only [startOne, List.nodup_cons]
      refine ⟨?_, ho.nodup⟩
      intro hm
      exact hnot (ho.now _ hm rfl)
  recv := by
    intro s srv hm ⟨hon, ho⟩
    refine ⟨(once_preserved c).recv s srv hm hon, ?_, ?_, ?_, ?_⟩
    · rw [receive_reqLog, receive_round]; exact ho.le
    · rw [receive_reqLog, receive_round, receive_sv, receive_next]; exact ho.now
    · rw [receive_reqLog]; exact ho.sorted
    · rw [receive_reqLog]; exact ho.nodup
  round := by
    intro s h1 h2 h3 h4 ⟨hon, ho⟩
    refine ⟨(once_preserved c).round s h1 h2 h3 h4 hon, ?_, ?_, ?_, ?_⟩
    · intro e he
      have := ho.le e he
      simp only [nextRound]; omega
    · intro e he hr
      have := ho.le e he
      simp only [nextRound] at hr
      omega
    · exact ho.sorted
    · exact ho.nodup

/-! ### A strictly increasing, downward closed list of naturals is 0, 1, …, n-1 -/

theorem range'_of_increasing_closed (L : List Nat) (b : Nat) (hinc : L.Pairwise (· < ·))
    (hge : ∀ k ∈ L, b ≤ k) (hclosed : ∀ k ∈ L, ∀ j, b ≤ j → j ≤ k → j ∈ L) :
    L = List.range' b L.length := by
  induction L generalizing b with
  | nil => rfl
  | cons a t ih =>
    rw [List.pairwise_cons] at hinc
    have hab : a = b := by
      have hb : b ∈ a :: t := hclosed a List.mem_cons_self b (Nat.le_refl _) (hge a List.mem_cons_self)
      rcases List.mem_cons.mp hb with hb | hb
      · exact hb.symm
      · have h1 := hinc.1 b hb
        have h2 := hge a List.mem_cons_self
        omega
    subst hab
    have ht := ih (a + 1) hinc.2
      (fun k hk => hinc.1 k hk)
      (fun k hk j hj hjk => by
        have hm := hclosed k (List.mem_cons_of_mem _ hk) j (by omega) hjk
        rcases List.mem_cons.mp hm with hm | hm
        · omega
        · exact hm)
    simp only [List.length_cons, List.range'_succ]
    rw [← ht]

/-- the rounds of the requests sent to `x`, in the order they were sent -/
def roundsOf (l : List (Srv × Nat)) (x : Srv) : List Nat :=
  (l.reverse.filter (fun e => e.1 == x)).map (·.2)

theorem mem_roundsOf (l : List (Srv × Nat)) (x : Srv) (k : Nat) : k ∈ roundsOf l x ↔ (x, k) ∈ l := by
  unfold roundsOf
  simp only [List.mem_map, List.mem_filter, List.mem_reverse, beq_iff_eq]
  constructor
  · rintro ⟨e, ⟨he, hx⟩, hk⟩
    have : e = (x, k) := by cases e; simp_all
    rw [← this]; exact he
  · intro h; exact ⟨(x, k), ⟨h, rfl⟩, rfl⟩

theorem roundsOf_increasing (l : List (Srv × Nat)) (x : Srv)
    (hs : l.Pairwise (fun a b => b.2 ≤ a.2)) (hn : l.Nodup) :
    (roundsOf l x).Pairwise (· < ·) := by
  unfold roundsOf
  have h1 : l.Pairwise (fun a b => b.2 ≤ a.2 ∧ a ≠ b) := hs.and hn
  have h2 : l.reverse.Pairwise (fun a b => a.2 ≤ b.2 ∧ b ≠ a) := List.pairwise_reverse.mpr h1
  have h3 := h2.filter (fun e => e.1 == x)
  rw [List.pairwise_map]
  refine List.Pairwise.imp_of_mem ?_ h3
  intro a b ha hb hr
  rw [List.mem_filter, beq_iff_eq] at ha hb
  have hne : a.2 ≠ b.2 := by
    intro he
    apply hr.2
    cases a; cases b; simp_all
  omega

theorem length_roundsOf (l : List (Srv × Nat)) (x : Srv) : (roundsOf l x).length = reqCount l x := by
  unfold roundsOf reqCount
  rw [List.length_map, List.filter_reverse, List.length_reverse]

/-- sorted by round + no duplicates + attempts without gaps ⇒ the requests to `x`, in the order they
were sent, are its rounds 0, 1, …, n-1 -/
theorem roundsOf_eq_range (l : List (Srv × Nat)) (x : Srv)
    (hs : l.Pairwise (fun a b => b.2 ≤ a.2)) (hn : l.Nodup)
    (hc : ∀ k, (x, k) ∈ l → ∀ j, j ≤ k → (x, j) ∈ l) :
    roundsOf l x = List.range (reqCount l x) := by
  have h := range'_of_increasing_closed (roundsOf l x) 0 (roundsOf_increasing l x hs hn)
    (fun _ _ => Nat.zero_le _)
    (fun k hk j _ hjk => (mem_roundsOf l x j).mpr (hc k ((mem_roundsOf l x k).mp hk) j hjk))
  rw [length_roundsOf] at h
  rw [h, List.range_eq_range']

end ArvVerif.C11
