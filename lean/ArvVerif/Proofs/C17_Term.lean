/-
C17 — termination of the scan: with enough fuel the walk never runs out of it (under the supported
configurations: the only `tmp` mount is the output directory, no mount above the output path).
The measure: (symlink budget `n`, depth left below the physical position, entries left in the
current directory), lexicographic, written as one natural number.
-/
import ArvVerif.Proofs.C17_Mount
namespace ArvVerif.C17

/-- the host path `walkHostFS` stats for the container path `src` -/
def hostPath (cfg : Cfg) (src : Path) : Path := cfg.hostOut ++ src.drop cfg.ctrOut.length

/-- depth of the physical node `src` resolves to (the tree's depth if it does not resolve) -/
def physDepth (h : Host) (cfg : Cfg) (src : Path) : Nat :=
  match namei h [] (hostPath cfg src) 0 with
  | .found p _ => p.length
  | _ => depthBound h


/-- fuel that suffices for a call -/
def need (h : Host) (cfg : Cfg) : Call → Nat
  | .mount _ src n below =>
    if below = true ∨ (srcMount cfg src).map (·.1) = some cfg.ctrOut then big h cfg n else 1
  | .below _ _ ms => ms.length + 2
  | .host _ src n _ => n * cL h + (depthBound h - physDepth h cfg src + 1) * cS h + cB cfg
  | .children _ src n names =>
    names.length + 1 + (n * cL h + (depthBound h - physDepth h cfg src) * cS h + cB cfg)

/-- what holds of every call the scan makes -/
def Inv (h : Host) (cfg : Cfg) : Call → Prop
  | .mount .. => True
  | .below _ src ms => ¬ ProperPrefix src cfg.ctrOut ∧ ∀ e ∈ ms, e ∈ cfg.mounts
  | .host _ src _ _ => cfg.ctrOut.isPrefixOf src = true
  | .children _ src _ names =>
    cfg.ctrOut.isPrefixOf src = true ∧
    ∃ p, namei h [] (hostPath cfg src) 0 = .found p .dir ∧
      ∀ c ∈ names, CleanName c ∧ ∃ n, h.get (p ++ [c]) = some n

theorem bind_ne_fuel {α β : Type} (r : Res α) (f : α → Res β) (h1 : r ≠ .fuel)
    (h2 : ∀ a, r = .ok a → f a ≠ .fuel) : r.bind f ≠ .fuel := by
  cases r with
  | ok a => exact h2 a rfl
  | err e => simp [Res.bind]
  | unmodelled => simp [Res.bind]
  | fuel => exact absurd rfl h1

theorem bind_eq_ok {α β : Type} (r : Res α) (f : α → Res β) (b : β) (hb : r.bind f = .ok b) :
    ∃ a, r = .ok a ∧ f a = .ok b := by
  cases r with
  | ok a => exact ⟨a, rfl, hb⟩
  | err e => simp [Res.bind] at hb
  | unmodelled => simp [Res.bind] at hb
  | fuel => simp [Res.bind] at hb

theorem need_pos (h : Host) (cfg : Cfg) (c : Call) : 1 ≤ need h cfg c := by
  cases c with
  | mount dest src n below => simp only [need]; split <;> simp [big]
  | below dest src ms => simp [need]
  | host dest src n inc =>
    simp only [need, cS, cB]
    have : 1 * (h.length + 2) ≤ (depthBound h - physDepth h cfg src + 1) * (h.length + 2) :=
      Nat.mul_le_mul_right _ (by omega)
    omega
  | children dest src n names => simp only [need]; omega

theorem isPrefixOf_append_right (a b c : Path) (h : a.isPrefixOf b = true) : a.isPrefixOf (b ++ c) = true := by
  rw [List.isPrefixOf_iff_prefix] at *
  exact List.IsPrefix.trans h (List.prefix_append b c)

theorem prefix_length_le (a b : Path) (h : a.isPrefixOf b = true) : a.length ≤ b.length := by
  rw [List.isPrefixOf_iff_prefix] at h; exact h.length_le

theorem hostPath_child (cfg : Cfg) (src : Path) (c : Name) (hp : cfg.ctrOut.isPrefixOf src = true) :
    hostPath cfg (src ++ [c]) = hostPath cfg src ++ [c] := by
  unfold hostPath
  rw [List.drop_append_of_le_length (prefix_length_le _ _ hp), List.append_assoc]

theorem not_properPrefix_of_prefix (a b : Path) (h : a.isPrefixOf b = true) : ¬ ProperPrefix b a := by
  intro ⟨h1, h2⟩
  have := prefix_length_le _ _ h
  omega

/-- the child of a resolved directory resolves one level deeper -/
theorem physDepth_child (h : Host) (cfg : Cfg) (src p : Path) (c : Name) (n : Node)
    (hp : cfg.ctrOut.isPrefixOf src = true)
    (hd : namei h [] (hostPath cfg src) 0 = .found p .dir) (hc : CleanName c)
    (hg : h.get (p ++ [c]) = some n) :
    physDepth h cfg (src ++ [c]) = p.length + 1 ∧ p.length + 1 ≤ depthBound h := by
  obtain ⟨cnt', hcnt⟩ := namei_append h (hostPath cfg src) [] 0 [c] p hd
  have h2 := namei_single h p c cnt' n hc hg
  constructor
  · unfold physDepth
    rw [hostPath_child cfg src c hp, hcnt, h2]; simp
  · have := get_len h _ _ hg; simpa using this

theorem walk_ne_fuel (h : Host) (cfg : Cfg) (wf : HostWF h) (hs : supported cfg = true) :
    ∀ (fuel : Nat) (c : Call) (st : Plan), Inv h cfg c → need h cfg c ≤ fuel →
      walk h cfg fuel c st ≠ .fuel := by
  intro fuel
  induction fuel with
  | zero => intro c st _ hn; have := need_pos h cfg c; omega
  | succ fuel ih =>
    intro c st hinv hn
    cases c with
    | mount dest src n below =>
      rw [walk]
      simp only
      split
      · simp
      · cases hsm : srcMount cfg src with
        | none => simp
        | some b =>
          obtain ⟨root, m⟩ := b
          obtain ⟨hmem, hpre, hlen⟩ := srcMount_mem cfg src (root, m) hsm
          simp only
          have hcont : ∀ st' : Plan,
              (if below = true then walk h cfg fuel (.below dest src cfg.mounts) st' else .ok st') ≠ .fuel := by
            intro st'
            split
            · rename_i hb
              apply ih
              · refine ⟨?_, fun e he => he⟩
                intro hpp
                exact supported_above cfg hs (root, m) hmem
                  ⟨List.isPrefixOf_iff_prefix.mpr
                    ((List.isPrefixOf_iff_prefix.mp hpre).trans (List.isPrefixOf_iff_prefix.mp hpp.1)),
                   Nat.lt_of_le_of_lt (prefix_length_le _ _ hpre) hpp.2⟩
              · simp only [need, hb, true_or, if_true, big, cB] at hn ⊢
                omega
            · simp
          split
          · exact hcont st
          · split
            · split
              · rename_i hk hr
                apply ih
                · show cfg.ctrOut.isPrefixOf src = true
                  rw [← hr]; exact hpre
                · have hneed : need h cfg (.mount dest src n below) = big h cfg n := by
                    simp only [need, hsm, Option.map_some, hr, or_true, if_true]
                  rw [hneed] at hn
                  simp only [need, big] at hn ⊢
                  have : (depthBound h - physDepth h cfg src + 1) * cS h ≤ (depthBound h + 1) * cS h :=
                    Nat.mul_le_mul_right _ (by omega)
                  omega
              · simp
            · split
              · simp
              · split
                · cases m.coll with
                  | none => simp
                  | some c => exact hcont _
                · simp
    | below dest src ms =>
      cases ms with
      | nil => rw [walk]; simp
      | cons e ms =>
        obtain ⟨mnt, m⟩ := e
        obtain ⟨hpp, hsub⟩ := hinv
        rw [walk]
        have hrest : ∀ st', walk h cfg fuel (.below dest src ms) st' ≠ .fuel := by
          intro st'
          apply ih
          · exact ⟨hpp, fun e he => hsub e (List.mem_cons_of_mem _ he)⟩
          · simp only [need, List.length_cons] at hn ⊢; omega
        split
        · rename_i hc
          apply bind_ne_fuel
          · apply ih
            · trivial
            · have hm : (mnt, m) ∈ cfg.mounts := hsub _ (List.mem_cons_self ..)
              obtain ⟨m', hself⟩ := srcMount_self cfg (mnt, m) hm (by show 0 < mnt.length; have := hc.2.1; omega)
              have hne : mnt ≠ cfg.ctrOut := by
                intro heq
                exact hpp ⟨by rw [← heq]; exact hc.1, by rw [← heq]; exact hc.2.1⟩
              simp only [need, hself, Option.map_some, Option.some.injEq, hne, or_false,
                Bool.false_eq_true, if_false] at hn ⊢
              simp only [List.length_cons] at hn
              omega
          · intro a _; exact hrest a
        · exact hrest st
    | host dest src n inc =>
      have hpre : cfg.ctrOut.isPrefixOf src = true := hinv
      rw [walk]
      have hB : cB cfg + 2 ≤ need h cfg (.host dest src n inc) := by
        simp only [need, cS]
        have : 1 * (h.length + 2) ≤ (depthBound h - physDepth h cfg src + 1) * (h.length + 2) :=
          Nat.mul_le_mul_right _ (by omega)
        omega
      apply bind_ne_fuel
      · split
        · apply ih
          · exact ⟨not_properPrefix_of_prefix _ _ hpre, fun e he => he⟩
          · simp only [need]; simp only [cB] at hB; omega
        · simp
      · intro st' _
        have hnm : namei h [] (cfg.hostOut ++ src.drop cfg.ctrOut.length) 0
            = namei h [] (hostPath cfg src) 0 := rfl
        rw [hnm]
        cases hst : namei h [] (hostPath cfg src) 0 with
        | enoent => simp
        | enotdir => simp
        | eloop => simp
        | found p node =>
          have hpd : physDepth h cfg src = p.length := by unfold physDepth; rw [hst]
          cases node with
          | special => simp
          | file c => simp
          | link abs t =>
            simp only
            split
            · simp
            · rename_i hn0
              apply ih
              · trivial
              · simp only [need, true_or, if_true, big]
                simp only [need] at hn
                obtain ⟨k, rfl⟩ : ∃ k, n = k + 1 := ⟨n - 1, by omega⟩
                have h1 : (k + 1) * cL h = k * cL h + cL h := Nat.succ_mul k (cL h)
                have h2 : 1 * cS h ≤ (depthBound h - physDepth h cfg src + 1) * cS h :=
                  Nat.mul_le_mul_right _ (by omega)
                simp only [Nat.add_sub_cancel]
                have h3 : cL h = (depthBound h + 1) * cS h + 2 := rfl
                have h4 : 2 ≤ cS h := by simp [cS]
                omega
          | dir =>
            simp only
            split
            · simp
            · apply ih
              · refine ⟨hpre, p, hst, ?_⟩
                intro c hc
                rw [mem_sortNames] at hc
                obtain ⟨nd, hmem⟩ := mem_children h p c hc
                exact ⟨wf.clean _ hmem c (by simp), nd, get_of_mem h wf _ _ hmem⟩
              · simp only [need, length_sortNames, hpd] at hn ⊢
                have hk := length_children h p
                have hlen : p.length ≤ depthBound h := namei_len h [] _ 0 p _ hst (by simp)
                have h1 : (depthBound h - p.length + 1) * cS h = (depthBound h - p.length) * cS h + cS h :=
                  Nat.succ_mul _ _
                simp only [cS] at h1 hn ⊢
                omega
    | children dest src n names =>
      cases names with
      | nil => rw [walk]; simp
      | cons name names =>
        obtain ⟨hpre, p, hd, hall⟩ := hinv
        rw [walk]
        have hrest : ∀ st', walk h cfg fuel (.children dest src n names) st' ≠ .fuel := by
          intro st'
          apply ih
          · exact ⟨hpre, p, hd, fun c hc => hall c (List.mem_cons_of_mem _ hc)⟩
          · simp only [need, List.length_cons] at hn ⊢; omega
        split
        · exact hrest st
        · split
          · exact hrest st
          · apply bind_ne_fuel
            · apply ih
              · exact isPrefixOf_append_right _ _ _ hpre
              · obtain ⟨hcl, nd, hg⟩ := hall name (List.mem_cons_self ..)
                obtain ⟨hpc, hle⟩ := physDepth_child h cfg src p name nd hpre hd hcl hg
                have hpd : physDepth h cfg src = p.length := by unfold physDepth; rw [hd]
                simp only [need, List.length_cons, hpd, hpc] at hn ⊢
                have : depthBound h - (p.length + 1) + 1 = depthBound h - p.length := by omega
                rw [this]
                omega
            · intro a _; exact hrest a


theorem scan_ne_fuel (h : Host) (cfg : Cfg) (wf : HostWF h) (hs : supported cfg = true)
    (fuel : Nat) (hf : fuelBound h cfg ≤ fuel) : scan h cfg fuel ≠ .fuel := by
  unfold scan
  apply walk_ne_fuel h cfg wf hs
  · trivial
  · simp only [need, true_or, if_true]; exact hf

theorem bind_ne_unmodelled {α β : Type} (r : Res α) (f : α → Res β) (h1 : r ≠ .unmodelled)
    (h2 : ∀ a, f a ≠ .unmodelled) : r.bind f ≠ .unmodelled := by
  cases r with
  | ok a => exact h2 a
  | err e => simp [Res.bind]
  | unmodelled => exact absurd rfl h1
  | fuel => simp [Res.bind]

/-- in a supported configuration the walk never leaves the modelled part of the code -/
theorem walk_ne_unmodelled (h : Host) (cfg : Cfg) (hs : supported cfg = true) :
    ∀ (fuel : Nat) (c : Call) (st : Plan), walk h cfg fuel c st ≠ .unmodelled := by
  intro fuel
  induction fuel with
  | zero => intro c st; rw [walk]; simp
  | succ fuel ih =>
    intro c st
    cases c with
    | mount dest src n below =>
      rw [walk]
      simp only
      split
      · simp
      · cases hsm : srcMount cfg src with
        | none => simp
        | some b =>
          obtain ⟨root, m⟩ := b
          obtain ⟨hmem, _, _⟩ := srcMount_mem cfg src (root, m) hsm
          simp only
          have hcont : ∀ st' : Plan,
              (if below = true then walk h cfg fuel (.below dest src cfg.mounts) st' else .ok st') ≠ .unmodelled := by
            intro st'; split
            · exact ih _ _
            · simp
          split
          · exact hcont st
          · split
            · rename_i hk
              have : root = cfg.ctrOut := supported_tmp cfg hs (root, m) hmem hk
              simp only [this, if_true]
              exact ih _ _
            · split
              · simp
              · split
                · cases m.coll with
                  | none => simp
                  | some c => exact hcont _
                · rename_i hk hw
                  exact absurd ⟨by simpa using hk, by simpa using hw⟩ (supported_writable cfg hs (root, m) hmem)
    | below dest src ms =>
      cases ms with
      | nil => rw [walk]; simp
      | cons e ms =>
        obtain ⟨mnt, m⟩ := e
        rw [walk]
        split
        · exact bind_ne_unmodelled _ _ (ih _ _) (fun a => ih _ _)
        · exact ih _ _
    | host dest src n inc =>
      rw [walk]
      apply bind_ne_unmodelled
      · split
        · exact ih _ _
        · simp
      · intro st'
        split
        · split
          · simp
          · exact ih _ _
        · split
          · simp
          · exact ih _ _
        · simp
        · simp
        · simp
    | children dest src n names =>
      cases names with
      | nil => rw [walk]; simp
      | cons name names =>
        rw [walk]
        split
        · exact ih _ _
        · split
          · exact ih _ _
          · exact bind_ne_unmodelled _ _ (ih _ _) (fun a => ih _ _)

end ArvVerif.C17
