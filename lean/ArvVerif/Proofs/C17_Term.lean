/-
C17 — termination of the scan: with enough fuel the walk never runs out of it, for every host tree
and every configuration. The measure: (symlink budget `n`, depth left below the physical position,
entries left in the current directory), lexicographic, written as one natural number. Since fix
f009595 `walkMountsBelow` hands its caller's budget (capped) to the mounts below, so re-entering the
output directory from a collection mounted above it costs a follow like any other jump.
-/
import ArvVerif.Proofs.C17_Mount
namespace ArvVerif.C17

/-- the host path `walkHostFS` stats for the container path `src` -/
def hostPath (cfg : Cfg) (src : Path) : Path := cfg.hostOut ++ src.drop cfg.ctrOut.length

/-- depth of the physical node `src` resolves to (the tree's depth if it does not resolve) -/
def physDepth (h : Host) (cfg : Cfg) (src : Path) : Nat :=
  match namei h [] (hostPath cfg src) 0 with
  | .found p _ => p.length
  | _ => depthBound h


/-- fuel that suffices for a host call with budget `n` at physical depth `D - r` -/
def needHost (h : Host) (cfg : Cfg) (n r : Nat) : Nat := n * cL h cfg + (r + 1) * cS h + cB cfg

/-- fuel that suffices for a call -/
def need (h : Host) (cfg : Cfg) : Call → Nat
  | .mount _ src n below =>
    if below = true then big h cfg n
    else if (srcMount cfg src).map (·.1) = some cfg.ctrOut then needHost h cfg n (depthBound h) + 1
    else 1
  | .below _ src n ms =>
    if ProperPrefix src cfg.ctrOut then ms.length + 3 + needHost h cfg (min n 1) (depthBound h)
    else ms.length + 2
  | .host _ src n _ => needHost h cfg n (depthBound h - physDepth h cfg src)
  | .children _ src n names =>
    names.length + 1 + (n * cL h cfg + (depthBound h - physDepth h cfg src) * cS h + cB cfg)

/-- what holds of every call the scan makes -/
def Inv (h : Host) (cfg : Cfg) : Call → Prop
  | .mount .. => True
  | .below _ _ _ ms => ∀ e ∈ ms, e ∈ cfg.mounts
  | .host _ src _ _ => cfg.ctrOut.isPrefixOf src = true
  | .children _ src _ names =>
    cfg.ctrOut.isPrefixOf src = true ∧
    ∃ p, namei h [] (hostPath cfg src) 0 = .found p .dir ∧
      ∀ c ∈ names, CleanName c ∧ ∃ n, h.get (p ++ [c]) = some n

theorem bind_ne_fuel {α β : Type} (r : Res α) (f : α → Res β) (h1 : r ≠ .fuel)
    (h2 : ∀ a, r = .ok a → f a ≠ .fuel) : r.bind f ≠ .fuel := by
  cases r with
  | ok a => exact h2 a rfl
  | err e => simp [Res.bind]
  | unmodelled => simp [Res.bind]
  | fuel => exact absurd rfl h1

theorem bind_eq_ok {α β : Type} (r : Res α) (f : α → Res β) (b : β) (hb : r.bind f = .ok b) :
    ∃ a, r = .ok a ∧ f a = .ok b := by
  cases r with
  | ok a => exact ⟨a, rfl, hb⟩
  | err e => simp [Res.bind] at hb
  | unmodelled => simp [Res.bind] at hb
  | fuel => simp [Res.bind] at hb

theorem needHost_ge (h : Host) (cfg : Cfg) (n r : Nat) : cS h + cB cfg ≤ needHost h cfg n r := by
  unfold needHost
  have : 1 * cS h ≤ (r + 1) * cS h := Nat.mul_le_mul_right _ (by omega)
  omega

theorem needHost_mono (h : Host) (cfg : Cfg) (n r r' : Nat) (hr : r ≤ r') :
    needHost h cfg n r ≤ needHost h cfg n r' := by
  unfold needHost
  have : (r + 1) * cS h ≤ (r' + 1) * cS h := Nat.mul_le_mul_right _ (by omega)
  omega

theorem needHost_min (h : Host) (cfg : Cfg) (n r : Nat) : needHost h cfg (min n 1) r ≤ needHost h cfg n r := by
  unfold needHost
  have : min n 1 * cL h cfg ≤ n * cL h cfg := Nat.mul_le_mul_right _ (Nat.min_le_left _ _)
  omega

theorem need_pos (h : Host) (cfg : Cfg) (c : Call) : 1 ≤ need h cfg c := by
  cases c with
  | mount dest src n below =>
    simp only [need]
    split
    · simp [big]
    · split <;> omega
  | below dest src n ms => simp only [need]; split <;> omega
  | host dest src n inc =>
    simp only [need]
    have := needHost_ge h cfg n (depthBound h - physDepth h cfg src)
    simp only [cS] at this; omega
  | children dest src n names => simp only [need]; omega

theorem isPrefixOf_append_right (a b c : Path) (h : a.isPrefixOf b = true) : a.isPrefixOf (b ++ c) = true := by
  rw [List.isPrefixOf_iff_prefix] at *
  exact List.IsPrefix.trans h (List.prefix_append b c)

theorem prefix_length_le (a b : Path) (h : a.isPrefixOf b = true) : a.length ≤ b.length := by
  rw [List.isPrefixOf_iff_prefix] at h; exact h.length_le

theorem hostPath_child (cfg : Cfg) (src : Path) (c : Name) (hp : cfg.ctrOut.isPrefixOf src = true) :
    hostPath cfg (src ++ [c]) = hostPath cfg src ++ [c] := by
  unfold hostPath
  rw [List.drop_append_of_le_length (prefix_length_le _ _ hp), List.append_assoc]

theorem not_properPrefix_of_prefix (a b : Path) (h : a.isPrefixOf b = true) : ¬ ProperPrefix b a := by
  intro ⟨h1, h2⟩
  have := prefix_length_le _ _ h
  omega

/-- the child of a resolved directory resolves one level deeper -/
theorem physDepth_child (h : Host) (cfg : Cfg) (src p : Path) (c : Name) (n : Node)
    (hp : cfg.ctrOut.isPrefixOf src = true)
    (hd : namei h [] (hostPath cfg src) 0 = .found p .dir) (hc : CleanName c)
    (hg : h.get (p ++ [c]) = some n) :
    physDepth h cfg (src ++ [c]) = p.length + 1 ∧ p.length + 1 ≤ depthBound h := by
  obtain ⟨cnt', hcnt⟩ := namei_append h (hostPath cfg src) [] 0 [c] p hd
  have h2 := namei_single h p c cnt' n hc hg
  constructor
  · unfold physDepth
    rw [hostPath_child cfg src c hp, hcnt, h2]; simp
  · have := get_len h _ _ hg; simpa using this

theorem walk_ne_fuel (h : Host) (cfg : Cfg) (wf : HostWF h) :
    ∀ (fuel : Nat) (c : Call) (st : Plan), Inv h cfg c → need h cfg c ≤ fuel →
      walk h cfg fuel c st ≠ .fuel := by
  intro fuel
  induction fuel with
  | zero => intro c st _ hn; have := need_pos h cfg c; omega
  | succ fuel ih =>
    intro c st hinv hn
    cases c with
    | mount dest src n below =>
      rw [walk]
      simp only
      split
      · simp
      · cases hsm : srcMount cfg src with
        | none => simp
        | some b =>
          obtain ⟨root, m⟩ := b
          obtain ⟨hmem, hpre, hlen⟩ := srcMount_mem cfg src (root, m) hsm
          simp only
          have hcont : ∀ st' : Plan,
              (if below = true then walk h cfg fuel (.below dest src n cfg.mounts) st' else .ok st') ≠ .fuel := by
            intro st'
            split
            · rename_i hb
              apply ih
              · exact fun e he => he
              · simp only [need, hb, if_true, big] at hn
                have h1 := needHost_min h cfg n (depthBound h)
                simp only [need]
                unfold needHost at h1 ⊢
                simp only [cB] at hn h1 ⊢
                split <;> omega
            · simp
          split
          · exact hcont st
          · split
            · split
              · rename_i hk hr
                apply ih
                · show cfg.ctrOut.isPrefixOf src = true
                  rw [← hr]; exact hpre
                · have h1 := needHost_mono h cfg n (depthBound h - physDepth h cfg src) (depthBound h) (by omega)
                  simp only [need] at hn ⊢
                  split at hn
                  · simp only [big] at hn; unfold needHost at h1 ⊢; omega
                  · simp only [hsm, Option.map_some, hr, if_true] at hn
                    omega
              · simp
            · split
              · simp
              · split
                · cases m.coll with
                  | none => simp
                  | some c => exact hcont _
                · simp
    | below dest src n ms =>
      cases ms with
      | nil => rw [walk]; simp
      | cons e ms =>
        obtain ⟨mnt, m⟩ := e
        have hsub : ∀ e ∈ (mnt, m) :: ms, e ∈ cfg.mounts := hinv
        rw [walk]
        have hrest : ∀ st', walk h cfg fuel (.below dest src n ms) st' ≠ .fuel := by
          intro st'
          apply ih
          · exact fun e he => hsub e (List.mem_cons_of_mem _ he)
          · simp only [need, List.length_cons] at hn ⊢
            split at hn <;> simp_all <;> omega
        split
        · rename_i hc
          apply bind_ne_fuel
          · apply ih
            · trivial
            · have hm : (mnt, m) ∈ cfg.mounts := hsub _ (List.mem_cons_self ..)
              obtain ⟨m', hself⟩ := srcMount_self cfg (mnt, m) hm (by show 0 < mnt.length; have := hc.2.1; omega)
              have hself' : srcMount cfg mnt = some (mnt, m') := hself
              simp only [need, hself', Option.map_some, Option.some.injEq, Bool.false_eq_true, if_false,
                List.length_cons, belowMaxSymlinks, Nat.zero_add] at hn ⊢
              by_cases hpp : ProperPrefix src cfg.ctrOut
              · simp only [hpp, if_true] at hn
                split <;> omega
              · simp only [hpp, if_false] at hn
                have hne : mnt ≠ cfg.ctrOut := by
                  intro heq
                  exact hpp ⟨by rw [← heq]; exact hc.1, by rw [← heq]; exact hc.2.1⟩
                simp only [hne, if_false]
                omega
          · intro a _; exact hrest a
        · exact hrest st
    | host dest src n inc =>
      have hpre : cfg.ctrOut.isPrefixOf src = true := hinv
      rw [walk]
      have hB : cB cfg + 2 ≤ need h cfg (.host dest src n inc) := by
        simp only [need]
        have := needHost_ge h cfg n (depthBound h - physDepth h cfg src)
        simp only [cS] at this; omega
      apply bind_ne_fuel
      · split
        · apply ih
          · exact fun e he => he
          · simp only [need, not_properPrefix_of_prefix _ _ hpre, if_false]; simp only [cB] at hB; omega
        · simp
      · intro st' _
        have hnm : namei h [] (cfg.hostOut ++ src.drop cfg.ctrOut.length) 0
            = namei h [] (hostPath cfg src) 0 := rfl
        rw [hnm]
        cases hst : namei h [] (hostPath cfg src) 0 with
        | enoent => simp
        | enotdir => simp
        | eloop => simp
        | found p node =>
          have hpd : physDepth h cfg src = p.length := by unfold physDepth; rw [hst]
          cases node with
          | special => simp
          | file c => simp
          | link abs t =>
            simp only
            split
            · simp
            · rename_i hn0
              apply ih
              · trivial
              · simp only [need, if_true, big]
                simp only [need, needHost] at hn
                obtain ⟨k, rfl⟩ : ∃ k, n = k + 1 := ⟨n - 1, by omega⟩
                have h1 : (k + 1) * cL h cfg = k * cL h cfg + cL h cfg := Nat.succ_mul k (cL h cfg)
                have h2 : 1 * cS h ≤ (depthBound h - physDepth h cfg src + 1) * cS h :=
                  Nat.mul_le_mul_right _ (by omega)
                simp only [Nat.add_sub_cancel]
                have h3 : cL h cfg = (depthBound h + 1) * cS h + cB cfg + 2 := rfl
                have h4 : 2 ≤ cS h := by simp [cS]
                omega
          | dir =>
            simp only
            split
            · simp
            · apply ih
              · refine ⟨hpre, p, hst, ?_⟩
                intro c hc
                rw [mem_sortNames] at hc
                obtain ⟨nd, hmem⟩ := mem_children h p c hc
                exact ⟨wf.clean _ hmem c (by simp), nd, get_of_mem h wf _ _ hmem⟩
              · simp only [need, needHost, length_sortNames, hpd] at hn ⊢
                have hk := length_children h p
                have hlen : p.length ≤ depthBound h := namei_len h [] _ 0 p _ hst (by simp)
                have h1 : (depthBound h - p.length + 1) * cS h = (depthBound h - p.length) * cS h + cS h :=
                  Nat.succ_mul _ _
                simp only [cS] at h1 hn ⊢
                omega
    | children dest src n names =>
      cases names with
      | nil => rw [walk]; simp
      | cons name names =>
        obtain ⟨hpre, p, hd, hall⟩ := hinv
        rw [walk]
        have hrest : ∀ st', walk h cfg fuel (.children dest src n names) st' ≠ .fuel := by
          intro st'
          apply ih
          · exact ⟨hpre, p, hd, fun c hc => hall c (List.mem_cons_of_mem _ hc)⟩
          · simp only [need, List.length_cons] at hn ⊢; omega
        split
        · exact hrest st
        · split
          · exact hrest st
          · apply bind_ne_fuel
            · apply ih
              · exact isPrefixOf_append_right _ _ _ hpre
              · obtain ⟨hcl, nd, hg⟩ := hall name (List.mem_cons_self ..)
                obtain ⟨hpc, hle⟩ := physDepth_child h cfg src p name nd hpre hd hcl hg
                have hpd : physDepth h cfg src = p.length := by unfold physDepth; rw [hd]
                simp only [need, needHost, List.length_cons, hpd, hpc] at hn ⊢
                have : depthBound h - (p.length + 1) + 1 = depthBound h - p.length := by omega
                rw [this]
                omega
            · intro a _; exact hrest a


theorem scan_ne_fuel (h : Host) (cfg : Cfg) (wf : HostWF h)
    (fuel : Nat) (hf : fuelBound h cfg ≤ fuel) : scan h cfg fuel ≠ .fuel := by
  unfold scan
  apply walk_ne_fuel h cfg wf
  · trivial
  · simp only [need, if_true]; exact hf

theorem bind_ne_unmodelled {α β : Type} (r : Res α) (f : α → Res β) (h1 : r ≠ .unmodelled)
    (h2 : ∀ a, f a ≠ .unmodelled) : r.bind f ≠ .unmodelled := by
  cases r with
  | ok a => exact h2 a
  | err e => simp [Res.bind]
  | unmodelled => exact absurd rfl h1
  | fuel => simp [Res.bind]

/-- in a runnable configuration the walk never leaves the modelled part of the code -/
theorem walk_ne_unmodelled (h : Host) (cfg : Cfg) (hs : runnable cfg = true) :
    ∀ (fuel : Nat) (c : Call) (st : Plan), walk h cfg fuel c st ≠ .unmodelled := by
  intro fuel
  induction fuel with
  | zero => intro c st; rw [walk]; simp
  | succ fuel ih =>
    intro c st
    cases c with
    | mount dest src n below =>
      rw [walk]
      simp only
      split
      · simp
      · cases hsm : srcMount cfg src with
        | none => simp
        | some b =>
          obtain ⟨root, m⟩ := b
          obtain ⟨hmem, _, _⟩ := srcMount_mem cfg src (root, m) hsm
          simp only
          have hcont : ∀ st' : Plan,
              (if below = true then walk h cfg fuel (.below dest src n cfg.mounts) st' else .ok st') ≠ .unmodelled := by
            intro st'; split
            · exact ih _ _
            · simp
          split
          · exact hcont st
          · split
            · rename_i hk
              have : root = cfg.ctrOut := runnable_tmp cfg hs (root, m) hmem hk
              simp only [this, if_true]
              exact ih _ _
            · split
              · simp
              · split
                · cases m.coll with
                  | none => simp
                  | some c => exact hcont _
                · rename_i hk hw
                  exact absurd ⟨by simpa using hk, by simpa using hw⟩ (runnable_writable cfg hs (root, m) hmem)
    | below dest src n ms =>
      cases ms with
      | nil => rw [walk]; simp
      | cons e ms =>
        obtain ⟨mnt, m⟩ := e
        rw [walk]
        split
        · exact bind_ne_unmodelled _ _ (ih _ _) (fun a => ih _ _)
        · exact ih _ _
    | host dest src n inc =>
      rw [walk]
      apply bind_ne_unmodelled
      · split
        · exact ih _ _
        · simp
      · intro st'
        split
        · split
          · simp
          · exact ih _ _
        · split
          · simp
          · exact ih _ _
        · simp
        · simp
        · simp
    | children dest src n names =>
      cases names with
      | nil => rw [walk]; simp
      | cons name names =>
        rw [walk]
        split
        · exact ih _ _
        · split
          · exact ih _ _
          · exact bind_ne_unmodelled _ _ (ih _ _) (fun a => ih _ _)

end ArvVerif.C17
