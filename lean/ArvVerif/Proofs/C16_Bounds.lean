/-
C16: explicit bounds under which the int64 arithmetic of node_size.go cannot wrap (`InRange` of
Props/C16.lean follows from them), and how far they are from the top of the int64 range.
-/
import ArvVerif.Model.C16
namespace ArvVerif.C16

/-- largest |ram + keep_cache + reserve| whose product with 100 fits in int64: ⌊(2⁶³ − 1)/100⌋ ≈ 81.9 PiB -/
def ramSumBound : Int := 92233720368547758

/-- largest manifest length in a PDH for which twice the image estimate stays below 2⁶²: 42·2³⁶ + 79 -/
def imageLenBound : Nat := 2886218022991

/-- bound on the sum of the tmp mount capacities: 2⁶² (4 EiB) -/
def tmpSumBound : Int := 4611686018427387904

theorem ramProduct_inRange (x : Int) (h1 : -ramSumBound ≤ x) (h2 : x ≤ ramSumBound) : inInt64 (x * 100) := by
  unfold inInt64 two63
  unfold ramSumBound at h1 h2
  omega

/-- one more byte and the product wraps: the bound is tight -/
theorem ramProduct_tight : ¬ inInt64 ((ramSumBound + 1) * 100) := by decide

theorem imageSizeOfLen_bounds (n : Nat) (h : n ≤ imageLenBound) :
    0 ≤ imageSizeOfLen n ∧ imageSizeOfLen n ≤ 4611686018360279040 := by
  unfold imageSizeOfLen mib64
  unfold imageLenBound at h
  by_cases hn : n < 122
  · rw [if_pos hn]; omega
  · rw [if_neg hn]
    have h1 : 0 ≤ ((n : Int) - 80) / 42 := by omega
    have h2 : ((n : Int) - 80) / 42 ≤ 68719476735 := by omega
    omega

theorem imageSizeSpec_bounds (pdh : List UInt8) (h : ∀ n, pdhSize? pdh = some n → n ≤ imageLenBound) :
    0 ≤ imageSizeSpec pdh ∧ imageSizeSpec pdh ≤ 4611686018360279040 := by
  unfold imageSizeSpec
  cases hp : pdhSize? pdh with
  | none => dsimp only; exact ⟨by omega, by omega⟩
  | some n =>
    dsimp only
    by_cases hb : two63 ≤ (n : Int)
    · rw [if_pos hb]; exact ⟨by omega, by omega⟩
    · rw [if_neg hb]; exact imageSizeOfLen_bounds n (h n hp)

theorem scratchSpec_inRange (caps : List Int) (img : Int)
    (h1 : -tmpSumBound ≤ caps.foldl (· + ·) 0) (h2 : caps.foldl (· + ·) 0 ≤ tmpSumBound)
    (h3 : 0 ≤ img) (h4 : img ≤ 4611686018360279040) : inInt64 (scratchSpec caps img) := by
  unfold scratchSpec inInt64 two63
  unfold tmpSumBound at h1 h2
  dsimp only
  by_cases hlt : caps.foldl (· + ·) 0 < img
  · rw [if_pos hlt]; omega
  · rw [if_neg hlt]; omega

end ArvVerif.C16
