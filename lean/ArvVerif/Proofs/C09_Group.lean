/-
C09 helper lemmas, part 23: the canonical directory list of a loaded tree (root and the loader's
directories, each with the loader's files that lie directly in it) satisfies every hypothesis
`C09_load_marshal_preserves` puts on a directory list — for the tree of ANY accepted text.
-/
import ArvVerif.Proofs.C09_Wf
import ArvVerif.Proofs.C09_Glue
import ArvVerif.Proofs.C09_Dirs
namespace ArvVerif.C09

open ArvVerif.C08 (Seg FileNode)
open ArvVerif.C10 (bSlash bDot FsTree)

/-- the loader's files directly in directory `p` -/
def filesIn (tr : FsTree) (p : List Bytes) : List (Bytes × FileNode) :=
  (tr.files.filter (fun e => e.1.dropLast = p)).map fun e =>
    (e.1.getLastD [], ⟨e.2.map segOfC10, C08.sumLen (e.2.map segOfC10), 0⟩)

/-- root and the loader's directories, each with its files and the number of its sub-directories -/
def groupTree (tr : FsTree) : Tree9 :=
  ([] :: tr.dirs).map fun p => ⟨p, filesIn tr p, (tr.dirs.filter (fun d => d.dropLast = p)).length⟩

theorem dirPaths_groupTree (tr : FsTree) : dirPaths (groupTree tr) = [] :: tr.dirs := by
  unfold dirPaths groupTree
  rw [List.map_map]
  have : ((fun x : Dir9 => x.path) ∘ fun p => (⟨p, filesIn tr p, (tr.dirs.filter (fun d => d.dropLast = p)).length⟩ : Dir9)) = id := by
    funext p; rfl
  rw [this, List.map_id]

theorem groupTree_ok (tr : FsTree) (hw : FsWf tr) (hc : Cover tr) :
    Represents sizeOfLoc tr (groupTree tr) ∧ (dirPaths (groupTree tr)).Nodup ∧
    (∀ d ∈ groupTree tr, (d.files.map (·.1)).Nodup) ∧ (∀ d ∈ groupTree tr, ∀ c ∈ d.path, NameOK c) := by
  refine ⟨⟨?_, ?_⟩, ?_, ?_, ?_⟩
  · intro d hd f hf
    obtain ⟨p, _, rfl⟩ := List.mem_map.mp hd
    obtain ⟨e, he, rfl⟩ := List.mem_map.mp hf
    obtain ⟨he1, he2⟩ := List.mem_filter.mp he
    have hne := (hw.keyComps e.1 (List.mem_map.mpr ⟨e, he1, rfl⟩)).1
    refine ⟨e, he1, ?_, rfl⟩
    show e.1 = p ++ [e.1.getLastD []]
    rw [← of_decide_eq_true he2]
    exact (path_split e.1 hne).symm
  · intro e he
    have hk : e.1 ∈ keysOf tr := List.mem_map.mpr ⟨e, he, rfl⟩
    have hne := (hw.keyComps e.1 hk).1
    have hp : e.1.dropLast ∈ ([] : List Bytes) :: tr.dirs := by
      by_cases h0 : e.1.dropLast = []
      · rw [h0]; simp
      · exact List.mem_cons_of_mem _ (hc e.1 hk e.1.dropLast h0 (List.prefix_refl _))
    refine ⟨_, List.mem_map.mpr ⟨e.1.dropLast, hp, rfl⟩, _,
      List.mem_map.mpr ⟨e, List.mem_filter.mpr ⟨he, by simp⟩, rfl⟩, ?_⟩
    exact (path_split e.1 hne).symm
  · rw [dirPaths_groupTree, List.nodup_cons]
    exact ⟨fun h => (hw.dirComps [] h).1 rfl, hw.dirsNodup⟩
  · intro d hd
    obtain ⟨p, _, rfl⟩ := List.mem_map.mp hd
    show ((filesIn tr p).map (·.1)).Nodup
    unfold filesIn
    rw [List.map_map]
    have hpw : tr.files.Pairwise (fun a b => a.1 ≠ b.1) := by
      have := hw.keysNodup
      unfold keysOf at this
      exact List.pairwise_map.mp this
    have hpw2 := hpw.filter (fun e => decide (e.1.dropLast = p))
    unfold List.Nodup
    rw [List.pairwise_map]
    apply hpw2.imp_of_mem
    intro a b ha hb hab heq
    simp only [Function.comp] at heq
    have ha' := of_decide_eq_true (List.mem_filter.mp ha).2
    have hb' := of_decide_eq_true (List.mem_filter.mp hb).2
    have hna := (hw.keyComps a.1 (List.mem_map.mpr ⟨a, (List.mem_filter.mp ha).1, rfl⟩)).1
    have hnb := (hw.keyComps b.1 (List.mem_map.mpr ⟨b, (List.mem_filter.mp hb).1, rfl⟩)).1
    apply hab
    rw [← path_split a.1 hna, ← path_split b.1 hnb, ha', hb', heq]
  · intro d hd c hcm
    obtain ⟨p, hp, rfl⟩ := List.mem_map.mp hd
    rcases List.mem_cons.mp hp with rfl | hp
    · cases hcm
    · exact (hw.dirComps p hp).2 c hcm

theorem ParentFirst.parent {ds : List (List Bytes)} (h : ParentFirst ds) : ∀ d ∈ ds, d.dropLast = [] ∨ d.dropLast ∈ ds := by
  induction h with
  | nil => intro d hd; cases hd
  | snoc ds d _ hd ih =>
    intro x hx
    rcases List.mem_append.mp hx with hx | hx
    · rcases ih x hx with h' | h'
      · exact Or.inl h'
      · exact Or.inr (List.mem_append_left _ h')
    · rw [List.mem_singleton.mp hx]
      rcases hd with h' | h'
      · exact Or.inl h'
      · exact Or.inr (List.mem_append_left _ h')

/-- the canonical list is closed and no file of it has the path of a directory -/
theorem groupTree_closed (tr : FsTree) (hw : FsWf tr) :
    TreeClosed (groupTree tr) ∧ ∀ d ∈ groupTree tr, ∀ f ∈ d.files, d.path ++ [f.1] ∉ dirPaths (groupTree tr) := by
  refine ⟨⟨?_, ?_⟩, ?_⟩
  · intro d hd hne
    obtain ⟨p, hp, rfl⟩ := List.mem_map.mp hd
    rw [dirPaths_groupTree]
    rcases List.mem_cons.mp hp with rfl | hp
    · exact absurd rfl hne
    · show p.dropLast ∈ ([] : List Bytes) :: tr.dirs
      rcases hw.parentFirst.parent p hp with h' | h'
      · rw [h']; simp
      · exact List.mem_cons_of_mem _ h'
  · intro d hd hsub
    obtain ⟨p, hp, rfl⟩ := List.mem_map.mp hd
    have hsub' : 0 < (tr.dirs.filter (fun d => d.dropLast = p)).length := hsub
    obtain ⟨c, hc⟩ := List.exists_mem_of_length_pos hsub'
    obtain ⟨hc1, hc2⟩ := List.mem_filter.mp hc
    have hcne := (hw.dirComps c hc1).1
    refine ⟨_, List.mem_map.mpr ⟨c, List.mem_cons_of_mem _ hc1, rfl⟩, c.getLastD [], ?_⟩
    show c = p ++ [c.getLastD []]
    rw [← of_decide_eq_true hc2]
    exact (path_split c hcne).symm
  · intro d hd f hf hm
    obtain ⟨p, _, rfl⟩ := List.mem_map.mp hd
    obtain ⟨e, he, rfl⟩ := List.mem_map.mp hf
    obtain ⟨he1, he2⟩ := List.mem_filter.mp he
    have hk : e.1 ∈ keysOf tr := List.mem_map.mpr ⟨e, he1, rfl⟩
    have hne := (hw.keyComps e.1 hk).1
    have hkey : p ++ [e.1.getLastD []] = e.1 := by
      rw [← of_decide_eq_true he2]; exact path_split e.1 hne
    rw [dirPaths_groupTree] at hm
    have hm' : e.1 ∈ ([] : List Bytes) :: tr.dirs := by rw [← hkey]; exact hm
    rcases List.mem_cons.mp hm' with h' | h'
    · exact hne h'
    · exact hw.disjoint e.1 hk h'

end ArvVerif.C09
