/-
C10 — `Manifest.segment()` of the Go manifest package at the level of parsed streams: for a
well-formed structured manifest every file's accumulated segment list is `resolve`, and no stream
makes the iterator panic.
-/
import ArvVerif.Proofs.C10_Pkg
namespace ArvVerif.C10

/-- the `ManifestStream` that `parseManifestStream` builds for a stream inside the grammar -/
def toPStream (s : Stream) : PStream := ⟨s.name, s.blocks, offsetsFrom 0 s.blocks, s.files, false⟩

/-- side conditions under which the Go package handles a structured stream like the grammar does:
machine-integer bounds, file tokens inside the stream, names in canonical (clean) form -/
structure PkgWf (s : Stream) : Prop where
  sizes : ∀ b ∈ s.blocks, b.size < two63
  total : streamLen s.blocks < two64
  inside : ∀ f ∈ s.files, f.pos + f.len ≤ streamLen s.blocks
  noTrailingSlash : s.name.getLast? ≠ some bSlash
  clean : ∀ f ∈ s.files, fixStreamName (pathOf s.name f.name) = pathOf s.name f.name

theorem keepPositive_append (a b : List PSeg) : keepPositive (a ++ b) = keepPositive a ++ keepPositive b := by
  simp [keepPositive, List.filterMap_append]

/-- the integer-range part of `PkgWf` -/
structure PkgFit (s : Stream) : Prop where
  sizes : ∀ b ∈ s.blocks, b.size < two63
  total : streamLen s.blocks < two64
  inside : ∀ f ∈ s.files, f.pos + f.len ≤ streamLen s.blocks

theorem PkgWf.fit {s : Stream} (h : PkgWf s) : PkgFit s := ⟨h.sizes, h.total, h.inside⟩

/-- `sendFileSegmentIterByName(path)` for any path: no panic; kept segments = `resolveStream` of
the path `fixStreamName` makes of it -/
theorem sendByName_gen (s : Stream) (hw : PkgFit s) (p : Bytes) :
    ∃ segs, sendByName firstBlock (toPStream s) p = .ok segs ∧
      keepPositive segs = resolveStream s (fixStreamName p) := by
  unfold sendByName resolveStream
  have key : ∀ (tg : Bytes) (fs : List FTok), (∀ f ∈ fs, f ∈ s.files) →
      ∃ segs, sendByName.go firstBlock (toPStream s) tg fs = .ok segs ∧
        keepPositive segs = fs.flatMap fun f =>
          if pathOf s.name f.name = tg then resolveTok s.blocks 0 f.pos f.len else [] := by
    intro tg fs
    induction fs with
    | nil => intro _; exact ⟨[], rfl, rfl⟩
    | cons f rest ih =>
      intro hmem
      obtain ⟨segs', h1, h2⟩ := ih (fun x hx => hmem x (List.mem_cons_of_mem _ hx))
      unfold sendByName.go
      by_cases hm : pathOf s.name f.name = tg
      · have : ¬ ((toPStream s).name ++ bSlash :: f.name ≠ tg) := by
          simpa [toPStream, pathOf] using hm
        rw [if_neg this]
        obtain ⟨a, ha1, ha2⟩ := sendTok_spec s.name s.blocks s.files f hw.sizes hw.total
          (hw.inside f (hmem f (by simp)))
        have ha1' : sendTok firstBlock (toPStream s) f = .ok a := ha1
        rw [ha1', h1]
        refine ⟨a ++ segs', rfl, ?_⟩
        rw [keepPositive_append, ha2, h2, List.flatMap_cons, if_pos hm]
      · have : (toPStream s).name ++ bSlash :: f.name ≠ tg := by
          simpa [toPStream, pathOf] using hm
        rw [if_pos this, List.flatMap_cons, if_neg hm, List.nil_append]
        exact ⟨segs', h1, h2⟩
  exact key (fixStreamName p) s.files (fun _ h => h)

/-- `sendFileSegmentIterByName(path)` for a clean path: no panic; kept segments = `resolveStream` -/
theorem sendByName_spec (s : Stream) (hw : PkgWf s) (p : Bytes) (hp : fixStreamName p = p) :
    ∃ segs, sendByName firstBlock (toPStream s) p = .ok segs ∧ keepPositive segs = resolveStream s p := by
  have := sendByName_gen s hw.fit p
  rw [hp] at this; exact this

/-! ### the association list -/

theorem segLookup_map_update (m : SegMap) (k k' : Bytes × Bytes) (v : List Seg) :
    segLookup (m.map fun e => if e.1 = k then (k, v) else e) k' =
      if k' = k then (if m.any (·.1 = k) then v else []) else segLookup m k' := by
  induction m with
  | nil => simp [segLookup]
  | cons e rest ih =>
    unfold segLookup at ih ⊢
    rw [List.map_cons, List.find?_cons, List.find?_cons, List.any_cons]
    by_cases he : e.1 = k
    · rw [if_pos he]
      by_cases hk : k' = k
      · subst hk; simp [he]
      · have hkk : ¬ k = k' := fun h => hk h.symm
        have e1 : decide ((k, v).1 = k') = false := by simpa using hkk
        have e2 : decide (e.1 = k') = false := by rw [he]; simpa using hkk
        rw [e1, e2, if_neg hk]
        rw [if_neg hk] at ih
        exact ih
    · rw [if_neg he]
      by_cases hk' : e.1 = k'
      · have hne : k' ≠ k := by rw [← hk']; exact he
        have e1 : decide (e.1 = k') = true := by simpa using hk'
        rw [e1, if_neg hne]
      · have e1 : decide (e.1 = k') = false := by simpa using hk'
        have e2 : decide (e.1 = k) = false := by simpa using he
        rw [e1, e2, Bool.false_or]
        exact ih

theorem segLookup_segSet (m : SegMap) (k k' : Bytes × Bytes) (v : List Seg) :
    segLookup (segSet m k v) k' = if k' = k then v else segLookup m k' := by
  unfold segSet
  by_cases hany : m.any (·.1 = k) = true
  · rw [if_pos hany, segLookup_map_update, hany]; rfl
  · rw [if_neg hany]
    have hnone : ∀ e ∈ m, e.1 ≠ k := by
      intro e he hk
      apply hany
      simp only [List.any_eq_true, decide_eq_true_eq]
      exact ⟨e, he, hk⟩
    unfold segLookup
    rw [List.find?_append]
    by_cases hk : k' = k
    · subst hk
      have : m.find? (fun e => decide (e.1 = k')) = none := by
        rw [List.find?_eq_none]; intro e he; simpa using hnone e he
      simp [this]
    · have hkk : ¬ (k = k') := fun h => hk h.symm
      cases hf : m.find? (fun e => decide (e.1 = k')) with
      | some e => simp [hk]
      | none => simp [hk, hkk]

theorem lastSlash_go_spec : ∀ (l : Bytes) (i : Nat) (acc : Option Nat) (pre : Bytes), pre.length = i →
    (∀ j, acc = some j → (pre ++ l)[j]? = some bSlash) → (bSlash ∈ l ∨ acc.isSome = true) →
    ∃ j, lastSlash.go l i acc = some j ∧ (pre ++ l)[j]? = some bSlash
  | [], i, acc, pre, _, hacc, hsl => by
    cases acc with
    | none => simp at hsl
    | some j => exact ⟨j, rfl, hacc j rfl⟩
  | x :: xs, i, acc, pre, hpre, hacc, hsl => by
    unfold lastSlash.go
    have happ : pre ++ [x] ++ xs = pre ++ x :: xs := by simp
    by_cases hx : (x == bSlash) = true
    · rw [if_pos hx]
      have hxe : x = bSlash := by simpa using hx
      have := lastSlash_go_spec xs (i + 1) (some i) (pre ++ [x]) (by simp [hpre])
        (by intro j hj; cases hj; rw [happ]; simp [← hpre, hxe]) (Or.inr rfl)
      rw [happ] at this; exact this
    · rw [if_neg hx]
      have := lastSlash_go_spec xs (i + 1) acc (pre ++ [x]) (by simp [hpre])
        (by intro j hj; rw [happ]; exact hacc j hj)
        (by
          rcases hsl with h | h
          · rcases List.mem_cons.mp h with h | h
            · exact absurd (by simp [h]) hx
            · exact Or.inl h
          · exact Or.inr h)
      rw [happ] at this; exact this

/-- a path with a slash is put together again from its `splitPath` halves -/
theorem splitPath_join (p : Bytes) (hp : bSlash ∈ p) : (splitPath p).1 ++ bSlash :: (splitPath p).2 = p := by
  obtain ⟨j, hj, hget⟩ := lastSlash_go_spec p 0 none [] rfl (by simp) (Or.inl hp)
  have hls : lastSlash p = some j := hj
  unfold splitPath
  rw [hls]
  simp only [List.nil_append] at hget ⊢
  obtain ⟨hjl, hje⟩ := List.getElem?_eq_some_iff.mp hget
  have : p = p.take j ++ p[j] :: p.drop (j + 1) := by
    rw [← List.drop_eq_getElem_cons hjl, List.take_append_drop]
  rw [hje] at this
  exact this.symm

/-- `splitPath` is injective on paths that contain a slash -/
theorem splitPath_inj_pathOf (a b c d : Bytes) (h : splitPath (pathOf a b) = splitPath (pathOf c d)) :
    pathOf a b = pathOf c d := by
  have h1 := splitPath_join (pathOf a b) (by simp [pathOf])
  have h2 := splitPath_join (pathOf c d) (by simp [pathOf])
  rw [← h1, ← h2, h]

/-- the per-stream loop of `segment()`: every path's list grows by that stream's `resolveStream`,
once, for the paths not yet seen -/
theorem segmentStream_spec (s : Stream) (hw : PkgWf s) :
    ∀ (fs : List FTok) (seen : List Bytes) (m : SegMap), (∀ f ∈ fs, f ∈ s.files) →
      ∃ m', segmentStream firstBlock (toPStream s) fs seen m = .ok m' ∧
        ∀ (a b : Bytes), segLookup m' (splitPath (pathOf a b)) =
          segLookup m (splitPath (pathOf a b)) ++
            (if pathOf a b ∈ fs.map (fun f => pathOf s.name f.name) ∧ pathOf a b ∉ seen
             then resolveStream s (pathOf a b) else []) := by
  intro fs
  induction fs with
  | nil => intro seen m _; exact ⟨m, rfl, by intro a b; simp⟩
  | cons f rest ih =>
    intro seen m hmem
    have hsn : (if (toPStream s).name.getLast? = some bSlash then (toPStream s).name.dropLast
        else (toPStream s).name) = s.name := by
      rw [if_neg (by simpa [toPStream] using hw.noTrailingSlash)]; rfl
    unfold segmentStream
    simp only [hsn]
    have hpath : s.name ++ bSlash :: f.name = pathOf s.name f.name := rfl
    rw [hpath]
    by_cases hseen : seen.contains (pathOf s.name f.name) = true
    · rw [if_pos hseen]
      obtain ⟨m', h1, h2⟩ := ih seen m (fun x hx => hmem x (List.mem_cons_of_mem _ hx))
      refine ⟨m', h1, ?_⟩
      intro a b
      rw [h2 a b]
      congr 1
      have hin : pathOf s.name f.name ∈ seen := by simpa using hseen
      by_cases hp : pathOf a b = pathOf s.name f.name
      · rw [hp]; simp [hin]
      · simp [hp]
    · rw [if_neg hseen]
      obtain ⟨segs, hs1, hs2⟩ := sendByName_spec s hw (pathOf s.name f.name) (hw.clean f (hmem f (by simp)))
      rw [hs1]
      simp only [Res.bind]
      obtain ⟨m', h1, h2⟩ := ih (pathOf s.name f.name :: seen)
        (segSet m (splitPath (pathOf s.name f.name))
          (segLookup m (splitPath (pathOf s.name f.name)) ++ keepPositive segs))
        (fun x hx => hmem x (List.mem_cons_of_mem _ hx))
      refine ⟨m', h1, ?_⟩
      intro a b
      rw [h2 a b, segLookup_segSet, hs2]
      have hnin : pathOf s.name f.name ∉ seen := by simpa using hseen
      by_cases hp : pathOf a b = pathOf s.name f.name
      · rw [hp]; simp [hnin]
      · have hk : splitPath (pathOf a b) ≠ splitPath (pathOf s.name f.name) :=
          fun h => hp (splitPath_inj_pathOf _ _ _ _ h)
        rw [if_neg hk]
        congr 1
        simp [hp]

theorem resolveStream_nil_of_not_mem (s : Stream) (p : Bytes)
    (h : p ∉ s.files.map (fun f => pathOf s.name f.name)) : resolveStream s p = [] := by
  unfold resolveStream
  rw [List.flatMap_eq_nil_iff]
  intro f hf
  rw [if_neg]
  intro he
  exact h (List.mem_map.mpr ⟨f, hf, he⟩)

/-- **`segment()` on parsed streams**: no error, no panic, and every path's list is `resolve`. -/
theorem segmentStreams_spec : ∀ (M : Manifest) (m : SegMap), (∀ s ∈ M, PkgWf s) →
    ∃ m', segmentStreams firstBlock (M.map toPStream) m = .ok m' ∧
      ∀ (a b : Bytes), segLookup m' (splitPath (pathOf a b)) =
        segLookup m (splitPath (pathOf a b)) ++ resolve M (pathOf a b)
  | [], m, _ => ⟨m, rfl, by intro a b; simp [resolve]⟩
  | s :: rest, m, hw => by
    obtain ⟨m1, h1, h2⟩ := segmentStream_spec s (hw s (by simp)) s.files [] m (fun _ h => h)
    obtain ⟨m2, h3, h4⟩ := segmentStreams_spec rest m1 (fun x hx => hw x (List.mem_cons_of_mem _ hx))
    refine ⟨m2, ?_, ?_⟩
    · simp only [List.map_cons, segmentStreams]
      have : (toPStream s).err = false := rfl
      rw [this]
      simp only [Bool.false_eq_true, if_false]
      have h1' : segmentStream firstBlock (toPStream s) (toPStream s).files [] m = .ok m1 := h1
      rw [h1']
      exact h3
    · intro a b
      rw [h4 a b, h2 a b]
      simp only [resolve, List.flatMap_cons, List.append_assoc]
      congr 2
      by_cases hin : pathOf a b ∈ s.files.map (fun f => pathOf s.name f.name)
      · simp [hin]
      · rw [resolveStream_nil_of_not_mem s _ hin]; simp [hin]

end ArvVerif.C10
