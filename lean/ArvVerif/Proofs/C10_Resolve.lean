/-
C10 — facts about the reference interpreter `resolveTok` and about block offset arrays, shared by
the three codec agreement proofs.
-/
import ArvVerif.Proofs.C10_FirstBlock
namespace ArvVerif.C10

@[simp] theorem streamLen_nil : streamLen [] = 0 := rfl
@[simp] theorem streamLen_cons (b : Loc) (bs : List Loc) : streamLen (b :: bs) = b.size + streamLen bs := by
  simp [streamLen]

theorem streamLen_append (a b : List Loc) : streamLen (a ++ b) = streamLen a + streamLen b := by
  simp [streamLen, List.sum_append]

theorem streamLen_take_drop (bs : List Loc) (i : Nat) :
    streamLen bs = streamLen (bs.take i) + streamLen (bs.drop i) := by
  rw [← streamLen_append, List.take_append_drop]

theorem streamLen_take_succ (bs : List Loc) (i : Nat) (h : i < bs.length) :
    streamLen (bs.take (i + 1)) = streamLen (bs.take i) + bs[i].size := by
  rw [List.take_succ_eq_append_getElem h, streamLen_append]; simp

/-- block offsets without wrap-around: `[base, base+s0, base+s0+s1, ...]` -/
def plainOffsets : Nat → List Loc → List Nat
  | base, [] => [base]
  | base, b :: rest => base :: plainOffsets (base + b.size) rest

theorem offsetsFrom_eq_plain : ∀ (bs : List Loc) (base : Nat), base + streamLen bs < two64 →
    offsetsFrom base bs = plainOffsets base bs
  | [], _, _ => rfl
  | b :: rest, base, h => by
    simp only [streamLen_cons] at h
    simp only [offsetsFrom, plainOffsets]
    rw [Nat.mod_eq_of_lt (by omega), offsetsFrom_eq_plain rest (base + b.size) (by omega)]

theorem plainOffsets_length : ∀ (bs : List Loc) (base : Nat), (plainOffsets base bs).length = bs.length + 1
  | [], _ => rfl
  | _ :: rest, base => by simp [plainOffsets, plainOffsets_length rest]

theorem plainOffsets_ge : ∀ (bs : List Loc) (base : Nat), ∀ x ∈ plainOffsets base bs, base ≤ x
  | [], base, x, hx => by simp [plainOffsets] at hx; omega
  | b :: rest, base, x, hx => by
    simp only [plainOffsets, List.mem_cons] at hx
    rcases hx with hx | hx
    · omega
    · have := plainOffsets_ge rest (base + b.size) x hx; omega

theorem plainOffsets_sorted : ∀ (bs : List Loc) (base : Nat), (plainOffsets base bs).Pairwise (· ≤ ·)
  | [], _ => by simp [plainOffsets]
  | b :: rest, base => by
    simp only [plainOffsets, List.pairwise_cons]
    refine ⟨?_, plainOffsets_sorted rest _⟩
    intro x hx
    have := plainOffsets_ge rest (base + b.size) x hx; omega

theorem plainOffsets_get : ∀ (bs : List Loc) (base i : Nat), i ≤ bs.length →
    (plainOffsets base bs)[i]? = some (base + streamLen (bs.take i))
  | [], base, i, h => by
    have : i = 0 := by simpa using h
    subst this; simp [plainOffsets]
  | b :: rest, base, 0, _ => by simp [plainOffsets]
  | b :: rest, base, i + 1, h => by
    have h' : i ≤ rest.length := by simpa using h
    simp only [plainOffsets, List.getElem?_cons_succ, List.take_succ_cons, streamLen_cons]
    rw [plainOffsets_get rest (base + b.size) i h']
    congr 1; omega

theorem plainOffsets_last (bs : List Loc) (base : Nat) :
    (plainOffsets base bs).getLastD 0 = base + streamLen bs := by
  induction bs generalizing base with
  | nil => simp [plainOffsets]
  | cons b rest ih =>
    have : plainOffsets (base + b.size) rest ≠ [] := by
      intro h; have := plainOffsets_length rest (base + b.size); rw [h] at this; simp at this
    simp only [plainOffsets, streamLen_cons]
    cases hp : plainOffsets (base + b.size) rest with
    | nil => exact absurd hp this
    | cons x xs =>
      have := ih (base + b.size)
      rw [hp] at this
      simp only [List.getLastD_cons] at this ⊢
      rw [this]; omega

/-- a position inside the stream lies in exactly one block -/
theorem exists_inBlock : ∀ (bs : List Loc) (base pos : Nat), base ≤ pos → pos < base + streamLen bs →
    ∃ i, InBlock (plainOffsets base bs) pos i
  | [], base, pos, h1, h2 => by simp at h2; omega
  | b :: rest, base, pos, h1, h2 => by
    by_cases h : pos < base + b.size
    · refine ⟨0, base, base + b.size, ?_, ?_, h1, h⟩
      · simp [plainOffsets]
      · cases rest <;> simp [plainOffsets]
    · simp only [streamLen_cons] at h2
      obtain ⟨i, a, c, ha, hc, h3, h4⟩ := exists_inBlock rest (base + b.size) pos (by omega) (by omega)
      exact ⟨i + 1, a, c, by simpa [plainOffsets] using ha, by simpa [plainOffsets] using hc, h3, h4⟩

/-! ## resolveTok -/

theorem resolveTok_nil_of_ge : ∀ (bs : List Loc) (base pos len : Nat), pos + len ≤ base →
    resolveTok bs base pos len = []
  | [], _, _, _, _ => rfl
  | b :: rest, base, pos, len, h => by
    unfold resolveTok
    simp only []
    rw [if_neg (by omega)]
    exact resolveTok_nil_of_ge rest _ pos len (by omega)

theorem resolveTok_len0 (bs : List Loc) (base pos : Nat) : resolveTok bs base pos 0 = [] := by
  induction bs generalizing base with
  | nil => rfl
  | cons b rest ih =>
    unfold resolveTok
    simp only []
    rw [if_neg (by omega)]
    exact ih _

/-- blocks that end at or before `pos` contribute nothing -/
theorem resolveTok_drop : ∀ (bs : List Loc) (base pos len i : Nat), base + streamLen (bs.take i) ≤ pos →
    resolveTok bs base pos len = resolveTok (bs.drop i) (base + streamLen (bs.take i)) pos len
  | [], base, pos, len, i, _ => by simp
  | b :: rest, base, pos, len, 0, _ => by simp
  | b :: rest, base, pos, len, i + 1, h => by
    simp only [List.take_succ_cons, streamLen_cons, List.drop_succ_cons] at h ⊢
    conv => lhs; unfold resolveTok
    simp only []
    rw [if_neg (by omega), resolveTok_drop rest (base + b.size) pos len i (by omega)]
    congr 1; omega

/-- every piece lies inside its block -/
theorem resolveTok_inside : ∀ (bs : List Loc) (base pos len : Nat), ∀ s ∈ resolveTok bs base pos len,
    ∃ b ∈ bs, s.loc = b.text ∧ s.off + s.len ≤ b.size ∧ 0 < s.len
  | [], _, _, _, s, hs => by simp [resolveTok] at hs
  | b :: rest, base, pos, len, s, hs => by
    unfold resolveTok at hs
    simp only [] at hs
    split at hs
    · rcases List.mem_cons.mp hs with rfl | hs
      · exact ⟨b, by simp, rfl, by simp only []; omega, by simp only []; omega⟩
      · obtain ⟨b', hb', h⟩ := resolveTok_inside rest _ pos len s hs
        exact ⟨b', List.mem_cons_of_mem _ hb', h⟩
    · obtain ⟨b', hb', h⟩ := resolveTok_inside rest _ pos len s hs
      exact ⟨b', List.mem_cons_of_mem _ hb', h⟩

end ArvVerif.C10
