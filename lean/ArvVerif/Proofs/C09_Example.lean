/-
C09 helper lemmas, part 10: a locator function that satisfies `HashOK` (non-vacuity of the
hypothesis). A 32-digit digest cannot be collision-free on all byte strings, so the example carries
the block in a hint: `0…0+<size>+Z<hex of the block>` — a locator of the published grammar, injective.
-/
import ArvVerif.Proofs.C09_Save
namespace ArvVerif.C09

open ArvVerif.C10 (isDigit isLowerHex natToDec natOfDigits bPlus)

def hexNib (n : UInt8) : UInt8 := if n < 10 then 48 + n else 87 + n

def hexPairs : Bytes → Bytes
  | [] => []
  | c :: rest => hexNib (c / 16) :: hexNib (c % 16) :: hexPairs rest

def exHash (b : Bytes) : Bytes :=
  List.replicate 32 48 ++ bPlus :: (natToDec b.length ++ bPlus :: 90 :: hexPairs b)

def nibOk (c : UInt8) : Bool :=
  C10.isHintChar (hexNib (c / 16)) && C10.isHintChar (hexNib (c % 16)) &&
  (hexNib (c / 16) != bPlus) && (hexNib (c % 16) != bPlus)

set_option maxRecDepth 100000 in
theorem nibOk_all : ∀ n : Fin 256, nibOk (UInt8.ofNat n.val) = true := by decide

theorem nibOk_ok (c : UInt8) : nibOk c = true := by
  have := nibOk_all ⟨c.toNat, c.toNat_lt⟩
  simpa using this

def unNib (x : UInt8) : UInt8 := if x < 58 then x - 48 else x - 87

def nibBack (c : UInt8) : Bool := unNib (hexNib (c / 16)) * 16 + unNib (hexNib (c % 16)) == c

set_option maxRecDepth 100000 in
theorem nibBack_all : ∀ n : Fin 256, nibBack (UInt8.ofNat n.val) = true := by decide

theorem nibBack_ok (c : UInt8) : unNib (hexNib (c / 16)) * 16 + unNib (hexNib (c % 16)) = c := by
  have := nibBack_all ⟨c.toNat, c.toNat_lt⟩
  simpa [nibBack] using this

theorem hexPairs_inj : ∀ (a b : Bytes), hexPairs a = hexPairs b → a = b
  | [], [], _ => rfl
  | [], _ :: _, h => by simp [hexPairs] at h
  | _ :: _, [], h => by simp [hexPairs] at h
  | x :: xs, y :: ys, h => by
    simp only [hexPairs, List.cons.injEq] at h
    obtain ⟨h1, h2, h3⟩ := h
    have hxy : x = y := by rw [← nibBack_ok x, ← nibBack_ok y, h1, h2]
    rw [hxy, hexPairs_inj xs ys h3]

theorem hintsOk_hexPairs : ∀ (b : Bytes), C10.hintsOk (hexPairs b) false true = true
  | [] => rfl
  | c :: rest => by
    have h := nibOk_ok c
    unfold nibOk at h
    simp only [Bool.and_eq_true, bne_iff_ne, ne_eq] at h
    obtain ⟨⟨⟨h1, h2⟩, h3⟩, h4⟩ := h
    have e3 : (hexNib (c / 16) == bPlus) = false := by simpa using h3
    have e4 : (hexNib (c % 16) == bPlus) = false := by simpa using h4
    simp only [hexPairs]
    unfold C10.hintsOk
    simp only [Bool.false_eq_true, if_false, e3, h1, Bool.true_and]
    unfold C10.hintsOk
    simp only [Bool.false_eq_true, if_false, e4, h2, Bool.true_and]
    exact hintsOk_hexPairs rest

theorem plus_not_digit : isDigit bPlus = false := by decide

theorem exHash_ok : HashOK exHash := by
  constructor
  · intro a b h
    unfold exHash at h
    have h1 := List.append_cancel_left h
    simp only [List.cons.injEq, true_and] at h1
    have ta := takeWhile_stop isDigit (natToDec a.length) bPlus (90 :: hexPairs a) (natToDec_digits _) plus_not_digit
    have tb := takeWhile_stop isDigit (natToDec b.length) bPlus (90 :: hexPairs b) (natToDec_digits _) plus_not_digit
    have hd : (90 : UInt8) :: hexPairs a = 90 :: hexPairs b := by
      have := congrArg (List.dropWhile isDigit) h1
      rw [ta.2, tb.2] at this
      exact (List.cons.inj this).2
    exact hexPairs_inj a b (List.cons.inj hd).2
  · intro b
    unfold C10.specLocator C10.locatorSizeDigits exHash
    have e1 : (List.replicate 32 (48 : UInt8) ++ bPlus :: (natToDec b.length ++ bPlus :: 90 :: hexPairs b)).take 32 =
        List.replicate 32 48 := by
      rw [List.take_left' (by simp)]
    have e2 : (List.replicate 32 (48 : UInt8) ++ bPlus :: (natToDec b.length ++ bPlus :: 90 :: hexPairs b)).drop 32 =
        bPlus :: (natToDec b.length ++ bPlus :: 90 :: hexPairs b) := by
      rw [List.drop_left' (by simp)]
    simp only [e1, e2]
    rw [if_pos ⟨by simp, by decide⟩]
    simp only [beq_self_eq_true, if_true]
    obtain ⟨t1, t2⟩ := takeWhile_stop isDigit (natToDec b.length) bPlus (90 :: hexPairs b) (natToDec_digits _) plus_not_digit
    simp only [t1, t2]
    rw [if_pos ⟨natToDec_ne_nil _, Or.inr (by
      unfold C10.hintsOk
      simp only [Bool.false_eq_true, if_false, beq_self_eq_true, if_true]
      unfold C10.hintsOk
      simp only [if_true]
      rw [hintsOk_hexPairs]
      decide)⟩]
    simp [natOfDigits_natToDec]

end ArvVerif.C09
