/-
C08 helper lemmas, part 7: the "pointer at the start of a non-writable segment or at EOF" case of a
loop iteration (`curFate`, `restrShift`), and `restructure_spec` putting the cases together.
-/
import ArvVerif.Proofs.C08_Write3
namespace ArvVerif.C08

variable {max : Nat} {hash : Bytes → Loc} {st : Store}

theorem take_succ_of_get {segs : List Seg} {i : Nat} {s : Seg} (h : segs[i]? = some s) :
    segs.take (i + 1) = segs.take i ++ [s] := by
  rw [List.take_succ, h]; rfl

theorem drop_of_get {segs : List Seg} {i : Nat} {s : Seg} (h : segs[i]? = some s) :
    segs.drop i = s :: segs.drop (i + 1) := by
  have h1 := segs_split h
  have h2 : segs.drop i = (segs.take i ++ s :: segs.drop (i + 1)).drop i := by rw [← h1]
  rw [h2]
  have hlen : (segs.take i).length = i := by
    rw [List.length_take]
    have : i < segs.length := by
      apply Classical.byContradiction; intro hn
      rw [List.getElem?_eq_none (by omega)] at h; cases h
    omega
  conv => lhs; arg 1; rw [← hlen]
  exact List.drop_left' rfl

/-- Contract of `curFate`. -/
theorem curFate_spec {fn : FileNode} {idx : Nat} {p c : Bytes} (hwf : WF max hash st fn)
    (hc0 : 0 < c.length) (hcp : c = p.take c.length)
    (hcase : (idx = fn.segs.length ∧ fn.segs[idx]? = none) ∨
             (∃ loc size off l, fn.segs[idx]? = some (Seg.stored loc size off l))) :
    0 < (curFate fn idx fn.segs[idx]? c).1.length ∧
    (curFate fn idx fn.segs[idx]? c).1 = p.take (curFate fn idx fn.segs[idx]? c).1.length ∧
    (curFate fn idx fn.segs[idx]? c).1.length ≤ c.length ∧
    (∀ s ∈ (curFate fn idx fn.segs[idx]? c).2.2, SegWF max hash st s) ∧
    (curFate fn idx fn.segs[idx]? c).2.1 =
      sumLen (fn.segs.take idx) + (curFate fn idx fn.segs[idx]? c).1.length + sumLen (curFate fn idx fn.segs[idx]? c).2.2 ∧
    ∃ M, absSegs st (fn.segs.drop idx) = M ++ absSegs st (curFate fn idx fn.segs[idx]? c).2.2 ∧
      (M.length = (curFate fn idx fn.segs[idx]? c).1.length ∨ (M = [] ∧ (curFate fn idx fn.segs[idx]? c).2.2 = [])) := by
  rcases hcase with ⟨hlen, hnone⟩ | ⟨loc, size, off, l, hs⟩
  · rw [hnone]
    simp only [curFate]
    refine ⟨hc0, hcp, Nat.le_refl _, by simp, ?_, [], ?_, Or.inr (by simp)⟩
    · rw [hlen, List.take_length, hwf.size_eq]; simp
    · rw [hlen, List.drop_length]; rfl
  · rw [hs]
    have hswf := hwf.segs _ (mem_of_getElem? hs)
    have hl : (Seg.stored loc size off l).len = l := rfl
    have hblen : ((Seg.stored loc size off l).bytes st).length = l := hswf.bytes_length
    have hpostwf : ∀ x ∈ fn.segs.drop (idx + 1), SegWF max hash st x :=
      fun x hx => hwf.segs x (List.mem_of_mem_drop hx)
    have hsz : fn.size = sumLen (fn.segs.take idx) + l + sumLen (fn.segs.drop (idx + 1)) := by
      rw [hwf.size_eq]; conv => lhs; rw [segs_split hs]
      simp; omega
    have hl0 : 0 < l := hswf.1
    simp only [curFate]
    by_cases hle : (Seg.stored loc size off l).len ≤ c.length
    · rw [if_pos hle]
      dsimp only
      have hcl : (c.take (Seg.stored loc size off l).len).length = l := by rw [List.length_take]; omega
      refine ⟨by rw [hcl]; exact hl0, pfx_take hcp _, by rw [hcl]; omega, hpostwf, by rw [hcl]; exact hsz,
        (Seg.stored loc size off l).bytes st, ?_, Or.inl (by rw [hcl, hblen])⟩
      rw [drop_of_get hs]; simp
    · rw [if_neg hle]
      dsimp only
      have hlt : c.length < l := by omega
      refine ⟨hc0, hcp, Nat.le_refl _, ?_, ?_, ((Seg.stored loc size off l).bytes st).take c.length, ?_,
        Or.inl (by rw [List.length_take, hblen]; omega)⟩
      · intro x hx
        rcases List.mem_cons.mp hx with h | h
        · rw [h]; exact stored_tail_wf hswf hlt
        · exact hpostwf x h
      · simp only [sumLen_cons, stored_tail_len]; omega
      · rw [drop_of_get hs]
        simp only [absSegs_cons, stored_tail_bytes hswf (Nat.le_of_lt hlt)]
        rw [← List.append_assoc, List.take_append_drop]

theorem restr_shift {fn : FileNode} {ptr : Ptr} {p : Bytes}
    (hmax : 1 ≤ max) (hp : p ≠ []) (hwf : WF max hash st fn)
    (hcase : (ptr.segIdx = fn.segs.length ∧ fn.segs[ptr.segIdx]? = none) ∨
             (∃ loc size off l, fn.segs[ptr.segIdx]? = some (Seg.stored loc size off l)))
    (hsum : sumLen (fn.segs.take ptr.segIdx) = ptr.off) :
    RestrOK max hash st fn ptr p (restrShift max fn ptr.segIdx fn.segs[ptr.segIdx]? (p.take max)) := by
  have hplen : 0 < p.length := List.length_pos_iff.mpr hp
  have hc0len : (p.take max).length = min max p.length := by simp
  have habs0 : abs st fn = absSegs st (fn.segs.take ptr.segIdx) ++ absSegs st (fn.segs.drop ptr.segIdx) := by
    unfold abs; rw [← absSegs_append, List.take_append_drop]
  unfold restrShift
  cases hpa : prevApp max fn.segs ptr.segIdx with
  | some pr =>
    obtain ⟨pb, pfl⟩ := pr
    obtain ⟨hge, hprev, hpblt⟩ := prevApp_some hpa
    simp only []
    obtain ⟨c, hc⟩ : ∃ c, c = (p.take max).take (max - pb.length) := ⟨_, rfl⟩
    rw [← hc]
    have hclen : c.length = min (max - pb.length) (min max p.length) := by rw [hc]; simp
    have hcp : c = p.take c.length := by rw [hc]; exact pfx_take (pfx_base p max) _
    obtain ⟨f1, f2, f3, f4, f5, M, f6, f7⟩ := curFate_spec (p := p) hwf (by omega) hcp hcase
    obtain ⟨f, hf⟩ : ∃ f, f = curFate fn ptr.segIdx fn.segs[ptr.segIdx]? c := ⟨_, rfl⟩
    rw [← hf] at f1 f2 f3 f4 f5 f6 f7 ⊢
    have hpbwf : SegWF max hash st (Seg.mem pb pfl) := hwf.segs _ (mem_of_getElem? hprev)
    have htake : fn.segs.take ptr.segIdx = fn.segs.take (ptr.segIdx - 1) ++ [Seg.mem pb pfl] := by
      have := take_succ_of_get hprev
      rwa [Nat.sub_add_cancel hge] at this
    have hpre'wf : ∀ x ∈ fn.segs.take (ptr.segIdx - 1), SegWF max hash st x :=
      fun x hx => hwf.segs x (List.mem_of_mem_take hx)
    have hidxlen : (fn.segs.take (ptr.segIdx - 1)).length = ptr.segIdx - 1 := by
      rw [List.length_take]
      have : ptr.segIdx - 1 < fn.segs.length := by
        apply Classical.byContradiction; intro hn
        rw [List.getElem?_eq_none (by omega)] at hprev; cases hprev
      omega
    have hbuf : (memTruncate pb pfl (pb.length + f.1.length)) =
        Seg.mem (pb ++ zeros f.1.length) (if pfl ≠ Flush.none ∧ pb.length + f.1.length > pb.length then Flush.none else pfl) := by
      unfold memTruncate
      rw [List.take_of_length_le (by omega), Nat.add_sub_cancel_left]
    refine ⟨f1, f2, ?_, ?_, (fun h => by cases h), ?_⟩
    · intro x hx
      simp only [List.mem_append, List.mem_cons, List.not_mem_nil, or_false] at hx
      rcases hx with (h | h) | h
      · exact hpre'wf x h
      · rw [h]; exact memTruncate_wf_grow hpbwf (by omega) (by omega)
      · exact f4 x h
    · show f.2.1 = _
      rw [f5, htake]
      simp only [sumLen_append, sumLen_cons, sumLen_nil, memTruncate_len, Seg.len_mem]; omega
    · refine ⟨fn.segs.take (ptr.segIdx - 1), pb ++ zeros f.1.length,
        (if pfl ≠ Flush.none ∧ pb.length + f.1.length > pb.length then Flush.none else pfl), f.2.2, M, ?_, ?_, ?_, ?_, ?_, ?_⟩
      · show _ ++ [memTruncate pb pfl (pb.length + f.1.length)] ++ _ = _
        rw [hbuf]; simp
      · show ptr.segIdx - 1 = _; rw [hidxlen]
      · show pb.length + f.1.length ≤ (pb ++ zeros f.1.length).length; simp
      · show abs st fn = absSegs st _ ++ (pb ++ zeros f.1.length).take pb.length ++ M
            ++ ((pb ++ zeros f.1.length).drop (pb.length + f.1.length) ++ absSegs st f.2.2)
        rw [habs0, htake, f6, List.take_left' rfl, List.drop_of_length_le (by simp)]
        simp
      · show M.length = f.1.length ∨ (M = [] ∧ (pb ++ zeros f.1.length).drop (pb.length + f.1.length) ++ absSegs st f.2.2 = [])
        rcases f7 with h | ⟨h1, h2⟩
        · exact Or.inl h
        · right; refine ⟨h1, ?_⟩
          rw [h2, List.drop_of_length_le (by simp)]; rfl
      · show (absSegs st (fn.segs.take (ptr.segIdx - 1))).length + pb.length = ptr.off
        rw [absSegs_length hpre'wf, ← hsum, htake]; simp
  | none =>
    simp only []
    obtain ⟨c, hc⟩ : ∃ c, c = p.take max := ⟨_, rfl⟩
    rw [← hc]
    have hclen : c.length = min max p.length := by rw [hc]; simp
    have hcp : c = p.take c.length := by rw [hc]; exact pfx_base p max
    obtain ⟨f1, f2, f3, f4, f5, M, f6, f7⟩ := curFate_spec (p := p) hwf (by omega) hcp hcase
    obtain ⟨f, hf⟩ : ∃ f, f = curFate fn ptr.segIdx fn.segs[ptr.segIdx]? c := ⟨_, rfl⟩
    rw [← hf] at f1 f2 f3 f4 f5 f6 f7 ⊢
    have hprewf : ∀ x ∈ fn.segs.take ptr.segIdx, SegWF max hash st x :=
      fun x hx => hwf.segs x (List.mem_of_mem_take hx)
    have hidxle : ptr.segIdx ≤ fn.segs.length := by
      rcases hcase with ⟨h, _⟩ | ⟨_, _, _, _, hs⟩
      · omega
      · apply Classical.byContradiction; intro hn
        rw [List.getElem?_eq_none (by omega)] at hs; cases hs
    refine ⟨f1, f2, ?_, ?_, (fun h => by cases h), ?_⟩
    · intro x hx
      simp only [List.mem_append, List.mem_cons, List.not_mem_nil, or_false] at hx
      rcases hx with (h | h) | h
      · exact hprewf x h
      · rw [h]; exact memTruncate_wf_new f1 (by omega)
      · exact f4 x h
    · show f.2.1 = _
      rw [f5]
      simp only [sumLen_append, sumLen_cons, sumLen_nil, memTruncate_len]; omega
    · refine ⟨fn.segs.take ptr.segIdx, zeros f.1.length, Flush.none, f.2.2, M, ?_, ?_, ?_, ?_, ?_, ?_⟩
      · show _ ++ [memTruncate [] Flush.none f.1.length] ++ _ = _
        simp [memTruncate]
      · show ptr.segIdx = _; rw [List.length_take]; omega
      · show 0 + f.1.length ≤ (zeros f.1.length).length; simp
      · show abs st fn = absSegs st _ ++ (zeros f.1.length).take 0 ++ M
            ++ ((zeros f.1.length).drop (0 + f.1.length) ++ absSegs st f.2.2)
        rw [habs0, f6, List.drop_of_length_le (by simp)]
        simp
      · show M.length = f.1.length ∨ (M = [] ∧ (zeros f.1.length).drop (0 + f.1.length) ++ absSegs st f.2.2 = [])
        rcases f7 with h | ⟨h1, h2⟩
        · exact Or.inl h
        · right; refine ⟨h1, ?_⟩
          rw [h2, List.drop_of_length_le (by simp)]; rfl
      · show (absSegs st (fn.segs.take ptr.segIdx)).length + 0 = ptr.off
        rw [absSegs_length hprewf, ← hsum]; rfl

/-- `restructure` meets its contract from every well-formed file and `seek`-normal pointer. -/
theorem restructure_spec {fn : FileNode} {ptr : Ptr} {p : Bytes}
    (hmax : 1 ≤ max) (hp : p ≠ []) (hwf : WF max hash st fn) (hpos : WPos fn ptr) :
    ∃ r, restructure max fn ptr p = some r ∧ RestrOK max hash st fn ptr p r := by
  unfold restructure
  simp only []
  rcases hpos.2 with ⟨hidx, hso, hoff⟩ | ⟨s, hs, hso, hsum⟩
  · -- at EOF
    rw [if_neg (by omega)]
    have hnone : fn.segs[ptr.segIdx]? = none := by rw [hidx]; simp
    have hr := restr_shift (p := p) hmax hp hwf (Or.inl ⟨hidx, hnone⟩)
      (by rw [hidx, List.take_length]; exact hoff.symm)
    rw [hnone] at hr ⊢
    simp only []
    rw [if_neg (by omega)]
    exact ⟨_, rfl, hr⟩
  · have hidxlt : ptr.segIdx < fn.segs.length := by
      apply Classical.byContradiction; intro hn
      rw [List.getElem?_eq_none (by omega)] at hs; cases hs
    rw [if_neg (by omega)]
    cases s with
    | mem buf fl =>
      rw [hs]
      simp only []
      have hso' : ptr.segOff < buf.length := hso
      rw [if_neg (by omega)]
      exact ⟨_, rfl, restr_writable hmax hp hwf hs hso' hsum⟩
    | stored loc size off l =>
      have hso' : ptr.segOff < l := hso
      by_cases h0 : ptr.segOff > 0
      · obtain ⟨r, h1, h2⟩ := restr_split hmax hp hwf hs h0 hso' hsum
        rw [hs]
        simp only []
        rw [if_pos h0]
        exact ⟨r, h1, h2⟩
      · have hr := restr_shift (p := p) hmax hp hwf (Or.inr ⟨loc, size, off, l, hs⟩) (by omega)
        rw [hs] at hr ⊢
        simp only []
        rw [if_neg h0]
        exact ⟨_, rfl, hr⟩

end ArvVerif.C08
