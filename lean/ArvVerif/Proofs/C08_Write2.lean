/-
C08 helper lemmas, part 5: one loop iteration of filenode.Write = `overwrite ∘ restructure`.
This file: the contracts (`WPos`, `RestrOK`, `StepOK`) and `overwrite_spec`.
-/
import ArvVerif.Proofs.C08_Write1
namespace ArvVerif.C08

variable {max : Nat} {hash : Bytes → Loc} {st : Store}

/-- The writer's pointer inside the loop: stamp current, coordinates in `seek` normal form. -/
def WPos (fn : FileNode) (ptr : Ptr) : Prop :=
  ptr.repacked = fn.repacked ∧ Pos fn.segs ptr.off ptr.segIdx ptr.segOff

/-- Contract of `restructure`: afterwards `segs[idx]` is a mem segment with room for `cando` at
`off`; the content is unchanged outside the `cando.length` bytes at the write offset (or the file
ended exactly at the write offset and was extended). -/
structure RestrOK (max : Nat) (hash : Bytes → Loc) (st : Store) (fn : FileNode) (ptr : Ptr) (p : Bytes)
    (r : Restr) : Prop where
  k_pos : 0 < r.cando.length
  pfx : r.cando = p.take r.cando.length
  wf : ∀ s ∈ r.segs, SegWF max hash st s
  size : r.size = sumLen r.segs
  nobump : r.bump = false → r.segs = fn.segs ∧ r.size = fn.size
  shape : ∃ pre buf fl post M, r.segs = pre ++ Seg.mem buf fl :: post ∧ r.idx = pre.length ∧
     r.off + r.cando.length ≤ buf.length ∧
     abs st fn = (absSegs st pre ++ buf.take r.off) ++ M ++ (buf.drop (r.off + r.cando.length) ++ absSegs st post) ∧
     (M.length = r.cando.length ∨ (M = [] ∧ buf.drop (r.off + r.cando.length) ++ absSegs st post = [])) ∧
     (absSegs st pre).length + r.off = ptr.off

/-- Contract of one loop iteration. -/
structure StepOK (max : Nat) (hash : Bytes → Loc) (w : WState) (p : Bytes) (w' : WState) (k : Nat) : Prop where
  k_pos : 0 < k
  k_le : k ≤ p.length
  ext : StoreExt w.st w'.st
  ok : StoreOK hash w'.st
  wf : WF max hash w'.st w'.fn
  pos : WPos w'.fn w'.ptr
  off : w'.ptr.off = w.ptr.off + k
  abs_eq : abs w'.st w'.fn = specWrite (abs w.st w.fn) w.ptr.off (p.take k)
  rep_ge : w.fn.repacked ≤ w'.fn.repacked
  rep_same : w'.fn.repacked = w.fn.repacked → SameLens w'.fn.segs w.fn.segs ∧ w'.fn.size = w.fn.size

theorem overwrite_spec (hinj : Function.Injective hash) {fn : FileNode} {ptr : Ptr} {p : Bytes} {r : Restr}
    (hok : StoreOK hash st) (hpos : WPos fn ptr) (hr : RestrOK max hash st fn ptr p r) :
    ∃ w', overwrite hash max ⟨fn, ptr, st⟩ r = some (w', r.cando.length) ∧
      StepOK max hash ⟨fn, ptr, st⟩ p w' r.cando.length := by
  obtain ⟨pre, buf, fl, post, M, hsegs, hidx, hroom, habs, hM, hoff⟩ := hr.shape
  have hk := hr.k_pos
  -- the new buffer
  obtain ⟨nb, hnb⟩ : ∃ nb, nb = buf.take r.off ++ r.cando ++ buf.drop (r.off + r.cando.length) := ⟨_, rfl⟩
  have hnblen : nb.length = buf.length := by
    rw [hnb]; simp only [List.length_append, List.length_take, List.length_drop]; omega
  have hget : r.segs[r.idx]? = some (Seg.mem buf fl) := by rw [hsegs, hidx]; exact get_mid ..
  have hwa : memWriteAt buf r.cando r.off = some (Seg.mem nb Flush.none) := by
    unfold memWriteAt; rw [if_neg (by omega), hnb]
  have hset : r.segs.set r.idx (Seg.mem nb Flush.none) = pre ++ Seg.mem nb Flush.none :: post := by
    rw [hsegs, hidx]; exact set_mid ..
  have hbufwf : SegWF max hash st (Seg.mem buf fl) := hr.wf _ (by rw [hsegs]; simp)
  have hprewf : ∀ s ∈ pre, SegWF max hash st s := fun s hs => hr.wf s (by rw [hsegs]; simp [hs])
  have hpostwf : ∀ s ∈ post, SegWF max hash st s := fun s hs => hr.wf s (by rw [hsegs]; simp [hs])
  -- the segment list after WriteAt
  have hwf1 : ∀ s ∈ pre ++ Seg.mem nb Flush.none :: post, SegWF max hash st s := by
    intro s hs
    rcases List.mem_append.mp hs with h | h
    · exact hprewf s h
    · rcases List.mem_cons.mp h with h | h
      · rw [h]; exact ⟨by rw [hnblen]; exact hbufwf.1, by rw [hnblen]; exact hbufwf.2.1, fun i l h => by cases h⟩
      · exact hpostwf s h
  have hsum1 : sumLen (pre ++ Seg.mem nb Flush.none :: post) = sumLen r.segs := by
    rw [hsegs]; simp [hnblen]
  have habs1 : absSegs st (pre ++ Seg.mem nb Flush.none :: post) = specWrite (abs st fn) ptr.off r.cando := by
    have hX : (absSegs st pre ++ buf.take r.off).length = ptr.off := by
      simp only [List.length_append, List.length_take]; omega
    rw [habs, ← hX, specWrite_mid _ _ _ _ hM, hnb]
    simp
  -- position of the advanced pointer in that list
  have hpos1 : Pos (pre ++ Seg.mem nb Flush.none :: post) (ptr.off + r.cando.length)
      (if nb.length = r.off + r.cando.length then r.idx + 1 else r.idx)
      (if nb.length = r.off + r.cando.length then 0 else r.off + r.cando.length) := by
    have hpl : (absSegs st pre).length = sumLen pre := absSegs_length hprewf
    by_cases hend : nb.length = r.off + r.cando.length
    · rw [if_pos hend, if_pos hend, hidx]
      cases post with
      | nil =>
        left
        refine ⟨by simp, rfl, ?_⟩
        simp only [sumLen_append, sumLen_cons, sumLen_nil, Seg.len_mem]; omega
      | cons s2 post' =>
        right
        refine ⟨s2, by rw [get_mid_succ]; rfl, (hpostwf s2 (List.mem_cons_self ..)).len_pos, ?_⟩
        rw [take_mid_succ]
        simp only [sumLen_append, sumLen_cons, sumLen_nil, Seg.len_mem]; omega
    · rw [if_neg hend, if_neg hend, hidx]
      right
      refine ⟨_, get_mid .., by simp only [Seg.len_mem]; omega, ?_⟩
      rw [take_mid]; omega
  -- now run `overwrite`
  unfold overwrite
  simp only [hget, hwa, hset, Seg.len_mem]
  by_cases hprune : r.off + r.cando.length ≥ max
  · rw [if_pos hprune]
    obtain ⟨h1, h2, h3, h4, h5⟩ := pruneSegs_spec (max := max) hinj (pre ++ Seg.mem nb Flush.none :: post) 0 st hok hwf1
    refine ⟨_, rfl, ⟨hk, ?_, h1, h2, ⟨?_, h4⟩, ⟨?_, (SameLens.symm h3).pos hpos1⟩, rfl, ?_, ?_, ?_⟩⟩
    · have := congrArg List.length hr.pfx; simp at this; omega
    · show r.size = _; rw [hr.size, h3.sumLen, hsum1]
    · show ptr.repacked + _ = fn.repacked + _; rw [hpos.1]
    · show absSegs _ _ = specWrite (abs st fn) ptr.off (p.take r.cando.length)
      rw [h5, habs1, ← hr.pfx]
    · show fn.repacked ≤ fn.repacked + _; split <;> omega
    · intro hrep
      have hb : r.bump = false := by
        cases hbv : r.bump with
        | false => rfl
        | true => simp only [hbv, if_true] at hrep; omega
      obtain ⟨e1, e2⟩ := hr.nobump hb
      refine ⟨?_, e2⟩
      show SameLens _ fn.segs
      rw [← e1]
      refine h3.trans ?_
      rw [hsegs]; unfold SameLens; simp [hnblen]
  · rw [if_neg hprune]
    refine ⟨_, rfl, ⟨hk, ?_, StoreExt.refl _, hok, ⟨?_, hwf1⟩, ⟨?_, hpos1⟩, rfl, ?_, ?_, ?_⟩⟩
    · have := congrArg List.length hr.pfx; simp at this; omega
    · show r.size = _; rw [hr.size, hsum1]
    · show ptr.repacked + _ = fn.repacked + _; rw [hpos.1]
    · show absSegs _ _ = specWrite (abs st fn) ptr.off (p.take r.cando.length)
      rw [habs1, ← hr.pfx]
    · show fn.repacked ≤ fn.repacked + _; split <;> omega
    · intro hrep
      have hb : r.bump = false := by
        cases hbv : r.bump with
        | false => rfl
        | true => simp only [hbv, if_true] at hrep; omega
      obtain ⟨e1, e2⟩ := hr.nobump hb
      refine ⟨?_, e2⟩
      show SameLens _ fn.segs
      rw [← e1, hsegs]; unfold SameLens; simp [hnblen]

end ArvVerif.C08
