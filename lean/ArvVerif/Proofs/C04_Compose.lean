/-
C04, link between the interleaving layer and the history layer.

  lin_run           every schedule of the interleaving model that lets both requests finish ends, for an
                    observer (`Compose.obsR`: both responses, the file at the block path with intact? /
                    younger-than-TTL?, the trashed copies), like one of its two SEQUENTIAL schedules
                    (kernel-checked over the reachable-state tables: `linCheck`);
  serial_PT / _TP   a sequential schedule of the interleaving model ends like the corresponding two-request
                    history of the HISTORY model (`Compose.seqPT/seqTP`), for all times that fit the
                    configuration (symbolic evaluation: `Proofs/C04_ComposePT/TP.lean`).
-/
import ArvVerif.Proofs.C04_Race
import ArvVerif.Proofs.C04_ComposeCheck
import ArvVerif.Proofs.C04_ComposePT
import ArvVerif.Proofs.C04_ComposeTP
namespace ArvVerif.C04.Race
open ArvVerif.C04 ArvVerif.C04.Compose

theorem mem_allCfgs (c : Cfg) : c ∈ allCfgs := by
  unfold allCfgs
  simp only [List.mem_flatMap]
  exact ⟨c.serialize, by cases c.serialize <;> simp, c.life0, by cases c.life0 <;> simp, mem_cfgGroup c⟩

theorem lin_of (c : Cfg) : linCfg c (tableOf c) (linOf c) = true :=
  (List.all_eq_true.mp linCheck) c (mem_allCfgs c)

theorem serial_PT_lit (c : Cfg) : obsR (run schedPT (init c)) = (linOf c).1 := by
  have h := lin_of c
  simp only [linCfg, Bool.and_eq_true, decide_eq_true_eq] at h
  exact h.1.1.1.1

theorem serial_TP_lit (c : Cfg) : obsR (run schedTP (init c)) = (linOf c).2 := by
  have h := lin_of c
  simp only [linCfg, Bool.and_eq_true, decide_eq_true_eq] at h
  exact h.1.1.1.2

theorem serial_finished (c : Cfg) :
    finished (run schedPT (init c)) = true ∧ finished (run schedTP (init c)) = true := by
  have h := lin_of c
  simp only [linCfg, Bool.and_eq_true] at h
  exact ⟨h.1.1.2, h.1.2⟩

/-- every interleaving ends like one of the two sequential schedules -/
theorem lin_run (c : Cfg) (sched : List Bool) (hfin : finished (run sched (init c)) = true) :
    obsR (run sched (init c)) = (linOf c).1 ∨ obsR (run sched (init c)) = (linOf c).2 := by
  obtain ⟨n, hn, hdec⟩ := run_inv c sched
  have h := lin_of c
  simp only [linCfg, Bool.and_eq_true, List.all_eq_true, withForced_eq] at h
  have hl := h.2 n hn
  rw [hdec] at hl
  simp only [linLocal, hfin, Bool.not_true, Bool.false_or, Bool.or_eq_true, decide_eq_true_eq] at hl
  exact hl

/-- the two layers agree on sequential executions, for all times that fit the configuration -/
theorem serial_PT (c : Cfg) (τ : Times) (h : τ.fits c) : obsR (run schedPT (init c)) = seqPT c τ := by
  rw [serial_PT_lit, seqPT_lit c τ h]

theorem serial_TP (c : Cfg) (τ : Times) (h : τ.fits c) : obsR (run schedTP (init c)) = seqTP c τ := by
  rw [serial_TP_lit, seqTP_lit c τ h]

/-- the times the correspondence check uses fit every configuration -/
theorem drvTimes_fits (c : Cfg) : (drvTimes c).fits c := by
  obtain ⟨ser, l0, pre, old, pop, top⟩ := c
  cases old <;> simp [Times.fits, drvTimes]

end ArvVerif.C04.Race
