/-
C09 helper lemmas, part 21: `loadManifest` makes every ancestor directory of every file it creates
(for ANY text it accepts): in the tree `C10.fsLoad` returns, every non-empty prefix of a file key's
directory part is a directory.
-/
import ArvVerif.Proofs.C09_Mixed2
import ArvVerif.Proofs.C09_Dirs
namespace ArvVerif.C09

open ArvVerif.C10 (bSpace bNL bSlash bColon bDot splitOn joinWith FsTree FsLine walkParents createFileAndParents
  appendSegs fsToken fsTokens fsLine fsLines Created)

/-- every directory on the way to `cur` exists -/
def PrefCover (cur : List Bytes) (t : FsTree) : Prop := ∀ pre, pre ≠ [] → pre <+: cur → pre ∈ t.dirs

/-- every file lies in an existing directory chain -/
def Cover (t : FsTree) : Prop := ∀ k ∈ keysOf t, PrefCover k.dropLast t

theorem PrefCover.mono {cur : List Bytes} {a b : FsTree} (h : PrefCover cur a) (hm : ∀ d ∈ a.dirs, d ∈ b.dirs) : PrefCover cur b :=
  fun pre h1 h2 => hm pre (h pre h1 h2)

theorem walkParents_cover : ∀ (cs cur : List Bytes) (t t' : FsTree) (r : List Bytes),
    walkParents cs cur t = some (r, t') → PrefCover cur t → PrefCover r t'
  | [], cur, t, t', r, h, hc => by
    simp only [walkParents, Option.some.injEq, Prod.mk.injEq] at h
    obtain ⟨rfl, rfl⟩ := h
    exact hc
  | n :: rest, cur, t, t', r, h, hc => by
    unfold walkParents at h
    by_cases h1 : n = [] ∨ n = [bDot]
    · rw [if_pos h1] at h
      exact walkParents_cover rest cur t t' r h hc
    · rw [if_neg h1] at h
      by_cases h2 : n = [bDot, bDot]
      · rw [if_pos h2] at h
        by_cases h3 : cur = []
        · rw [if_pos h3] at h; cases h
        · rw [if_neg h3] at h
          exact walkParents_cover rest cur.dropLast t t' r h
            (fun pre p1 p2 => hc pre p1 (p2.trans (List.dropLast_prefix cur)))
      · rw [if_neg h2] at h
        simp only [] at h
        by_cases h3 : t.files.any (·.1 = cur ++ [n]) = true
        · rw [if_pos h3] at h; cases h
        · rw [if_neg h3] at h
          by_cases hc1 : t.dirs.contains (cur ++ [n]) = true
          · rw [if_pos hc1] at h
            apply walkParents_cover rest _ t t' r h
            intro pre p1 p2
            rcases List.prefix_concat_iff.mp p2 with rfl | p2
            · exact List.contains_iff_mem.mp hc1
            · exact hc pre p1 p2
          · rw [if_neg hc1] at h
            apply walkParents_cover rest _ _ t' r h
            intro pre p1 p2
            show pre ∈ t.dirs ++ [cur ++ [n]]
            rcases List.prefix_concat_iff.mp p2 with rfl | p2
            · simp
            · exact List.mem_append_left _ (hc pre p1 p2)

theorem createFile_cover (path : Bytes) (t t' : FsTree) (res : Created) (h : createFileAndParents path t = (res, t'))
    (hc : Cover t) : Cover t' ∧ ∀ d ∈ t.dirs, d ∈ t'.dirs := by
  unfold createFileAndParents at h
  simp only [] at h
  cases hw : walkParents (splitOn bSlash path).dropLast [] t with
  | none =>
    rw [hw] at h; simp only [Prod.mk.injEq] at h
    obtain ⟨rfl, rfl⟩ := h
    exact ⟨hc, fun d hd => hd⟩
  | some rt =>
    obtain ⟨cur, ta⟩ := rt
    rw [hw] at h
    simp only [] at h
    have hfa := walkParents_files hw
    have hmono := walkParents_mono _ _ t ta cur hw
    have hcur : PrefCover cur ta := walkParents_cover _ _ t ta cur hw
      (fun pre p1 p2 => absurd (List.prefix_nil.mp p2) p1)
    have hca : Cover ta := by
      intro k hk
      unfold keysOf at hk
      rw [hfa] at hk
      exact (hc k hk).mono hmono
    split at h
    · simp only [Prod.mk.injEq] at h; obtain ⟨rfl, rfl⟩ := h
      exact ⟨hca, hmono⟩
    · split at h
      · simp only [Prod.mk.injEq] at h; obtain ⟨rfl, rfl⟩ := h
        exact ⟨hca, hmono⟩
      · split at h
        · simp only [Prod.mk.injEq] at h; obtain ⟨rfl, rfl⟩ := h
          exact ⟨hca, hmono⟩
        · split at h
          · simp only [Prod.mk.injEq] at h; obtain ⟨rfl, rfl⟩ := h
            exact ⟨hca, hmono⟩
          · simp only [Prod.mk.injEq] at h; obtain ⟨rfl, rfl⟩ := h
            refine ⟨?_, hmono⟩
            intro k hk
            unfold keysOf at hk
            simp only [List.map_append, List.map_cons, List.map_nil, List.mem_append, List.mem_singleton] at hk
            rcases hk with hk | rfl
            · exact hca k hk
            · rw [List.dropLast_concat]; exact hcur

theorem appendSegs_cover (t : FsTree) (p : List Bytes) (segs : List C10.Seg) (hc : Cover t) : Cover (appendSegs t p segs) := by
  intro k hk
  rw [appendSegs_keys] at hk
  exact hc k hk

/-- one token -/
theorem fsToken_cover (tok : Bytes) (st st' : FsLine) (t t' : FsTree) (h : fsToken tok st t = some (st', t'))
    (hc : Cover t) : Cover t' ∧ ∀ d ∈ t.dirs, d ∈ t'.dirs := by
  unfold fsToken at h
  by_cases hcol : ¬ tok.contains bColon = true
  · rw [if_pos hcol] at h
    split at h
    · cases h
    · split at h
      · simp only [Option.some.injEq, Prod.mk.injEq] at h
        obtain ⟨_, rfl⟩ := h
        exact ⟨hc, fun d hd => hd⟩
      · cases h
  · rw [if_neg hcol] at h
    split at h
    · cases h
    · split at h
      · next o l nm hsplit =>
        simp only [] at h
        cases ho : C10.parseIntBits 64 o with
        | none => rw [ho] at h; cases h
        | some offset =>
          cases hl : C10.parseIntBits 64 l with
          | none => rw [ho, hl] at h; cases h
          | some length =>
            rw [ho, hl] at h
            simp only [] at h
            split at h
            · cases h
            · cases hcf : createFileAndParents (st.dirname ++ bSlash :: C10.fsUnescape nm) t with
              | mk res ta =>
                rw [hcf] at h
                obtain ⟨c1, c2⟩ := createFile_cover _ t ta res hcf hc
                cases res with
                | error => simp only [] at h; cases h
                | marker =>
                  simp only [] at h
                  split at h
                  · simp only [Option.some.injEq, Prod.mk.injEq] at h
                    obtain ⟨_, rfl⟩ := h
                    exact ⟨c1, c2⟩
                  · cases h
                | file p =>
                  simp only [] at h
                  have key : ∀ (t' : FsTree),
                      (match (if st.pos > offset then ((0 : Nat), (0 : Int)) else (st.segIdx, st.pos)) with
                       | (idx0, pos0) =>
                         match C10.fsLoop offset (C10.addI64 offset length) (st.segments.drop idx0) idx0 pos0 [] with
                         | (idx, pos, segs) =>
                           if idx = st.segments.length ∧ pos < C10.addI64 offset length then none
                           else some (({ st with anyFile := true, segIdx := idx, pos := pos } : FsLine), appendSegs t' p segs)) =
                      (fileStep { st with anyFile := true } offset length).map (fun r => (r.1, appendSegs t' p r.2)) := by
                    intro t'
                    unfold fileStep
                    simp only []
                    split <;> (split <;> simp_all)
                  have k1 := key ta
                  simp only [] at k1
                  rw [k1] at h
                  cases hfs : fileStep { st with anyFile := true } offset length with
                  | none => rw [hfs] at h; cases h
                  | some r =>
                    rw [hfs] at h
                    simp only [Option.map_some, Option.some.injEq, Prod.mk.injEq] at h
                    obtain ⟨_, rfl⟩ := h
                    exact ⟨appendSegs_cover _ _ _ c1, c2⟩
      · cases h

theorem fsTokens_cover : ∀ (toks : List Bytes) (st st' : FsLine) (t t' : FsTree), fsTokens toks st t = some (st', t') →
    Cover t → Cover t' ∧ ∀ d ∈ t.dirs, d ∈ t'.dirs
  | [], st, st', t, t', h, hc => by
    simp only [fsTokens, Option.some.injEq, Prod.mk.injEq] at h
    obtain ⟨_, rfl⟩ := h
    exact ⟨hc, fun d hd => hd⟩
  | tok :: rest, st, st', t, t', h, hc => by
    unfold fsTokens at h
    cases h1 : fsToken tok st t with
    | none => rw [h1] at h; cases h
    | some r =>
      obtain ⟨sta, ta⟩ := r
      rw [h1] at h
      simp only [] at h
      obtain ⟨a1, a2⟩ := fsToken_cover tok st sta t ta h1 hc
      obtain ⟨b1, b2⟩ := fsTokens_cover rest sta st' ta t' h a1
      exact ⟨b1, fun d hd => b2 d (a2 d hd)⟩

theorem fsLine_cover (line : Bytes) (t t' : FsTree) (h : fsLine line t = some t') (hc : Cover t) :
    Cover t' ∧ ∀ d ∈ t.dirs, d ∈ t'.dirs := by
  unfold fsLine at h
  split at h
  · cases h
  · next nm toks hsplit =>
    cases h1 : fsTokens toks ⟨C10.fsUnescape nm, [], false, 0, 0⟩ t with
    | none => rw [h1] at h; cases h
    | some r =>
      obtain ⟨st', ta⟩ := r
      rw [h1] at h
      simp only [] at h
      split at h
      · cases h
      · simp only [Option.some.injEq] at h
        subst h
        exact fsTokens_cover toks _ st' t ta h1 hc

theorem fsLines_cover : ∀ (ls : List Bytes) (t t' : FsTree), fsLines ls t = some t' → Cover t → Cover t'
  | [], t, t', h, hc => by simp only [fsLines, Option.some.injEq] at h; rw [← h]; exact hc
  | l :: ls, t, t', h, hc => by
    unfold fsLines at h
    cases h1 : fsLine l t with
    | none => rw [h1] at h; cases h
    | some ta =>
      rw [h1] at h
      simp only [] at h
      exact fsLines_cover ls ta t' h (fsLine_cover l t ta h1 hc).1

/-- **every ancestor of every loaded file is a directory**, for any text `loadManifest` accepts -/
theorem fsLoad_cover (txt : Bytes) (tr : FsTree) (h : C10.fsLoad txt = some tr) : Cover tr := by
  unfold C10.fsLoad at h
  simp only [] at h
  split at h
  · cases h
  · exact fsLines_cover _ _ tr h (fun k hk => by cases hk)

/-! ## which directories have a line -/

theorem mem_markerDirs_of : ∀ (L : List Line9) (n : Bytes), n ∈ markersOf L → ∀ k ∈ dirPrefixes (compsOfName n), k ∈ markerDirs L
  | [], n, hn, k, hk => by cases hn
  | Line9.stream _ :: rest, n, hn, k, hk => by
    simp only [markersOf] at hn
    simp only [markerDirs]
    exact mem_markerDirs_of rest n hn k hk
  | Line9.marker m :: rest, n, hn, k, hk => by
    simp only [markersOf, List.mem_cons] at hn
    simp only [markerDirs, List.mem_append]
    rcases hn with rfl | hn
    · exact Or.inl hk
    · exact Or.inr (mem_markerDirs_of rest n hn k hk)

/-- a line of one directory exists only when the directory holds a file or is empty below the root -/
theorem dirLines_names_kind {d : Dir9} {L : List Line9} (hL : dirLines d = some L) :
    ∀ n ∈ lineNames L, n = prefixOf d.path ∧ (d.files ≠ [] ∨ (d.isEmpty = true ∧ d.path ≠ [])) := by
  intro n hn
  refine ⟨(dirLines_names hL).1 n hn, ?_⟩
  unfold dirLines at hL
  by_cases he : d.isEmpty = true
  · rw [if_pos he] at hL
    simp only [Option.some.injEq] at hL
    subst hL
    right
    refine ⟨he, ?_⟩
    intro hp
    rw [hp] at hn
    simp [lineNames] at hn
  · rw [if_neg he] at hL
    left
    intro hf
    rw [hf] at hL
    simp only [emitFiles, Option.some.injEq] at hL
    subst hL
    simp [lineNames] at hn

theorem treeLines_names_kind : ∀ (t : Tree9) (L : List Line9), treeLines t = some L →
    ∀ n ∈ lineNames L, ∃ d ∈ t, n = prefixOf d.path ∧ (d.files ≠ [] ∨ (d.isEmpty = true ∧ d.path ≠ []))
  | [], L, h, n, hn => by
    simp only [treeLines, Option.some.injEq] at h; subst h; cases hn
  | d0 :: rest, L, h, n, hn => by
    unfold treeLines at h
    cases h1 : dirLines d0 with
    | none => rw [h1] at h; cases h
    | some a =>
      cases h2 : treeLines rest with
      | none => rw [h1, h2] at h; cases h
      | some b =>
        rw [h1, h2] at h
        simp only [Option.some.injEq] at h
        subst h
        rw [lineNames_append] at hn
        rcases List.mem_append.mp hn with hn | hn
        · obtain ⟨e1, e2⟩ := dirLines_names_kind h1 n hn
          exact ⟨d0, by simp, e1, e2⟩
        · obtain ⟨d, hd, e⟩ := treeLines_names_kind rest b h2 n hn
          exact ⟨d, List.mem_cons_of_mem _ hd, e⟩

end ArvVerif.C09
