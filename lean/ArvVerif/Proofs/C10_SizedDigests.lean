/-
C10 — `Collection.SizedDigests`: on every text inside the grammar it returns, in manifest order,
the hash+size part of every block locator.
-/
import ArvVerif.Proofs.C10_PkgText
namespace ArvVerif.C10

/-- hash+size of every locator of the manifest, in order -/
def specSizedDigests (M : Manifest) : List Bytes := M.flatMap fun s => s.blocks.map fun b => stripLoc b.text

theorem sizedDigestsLine_spec : ∀ (blocks : List Loc) (ftoks : List Bytes),
    (∀ b ∈ blocks, specLocator b.text = some b) → (∀ t r, ftoks = t :: r → isGoLocator t = false) →
    sizedDigestsLine (blocks.map (·.text) ++ ftoks) = blocks.map fun b => stripLoc b.text
  | [], ftoks, _, h2 => by
    cases ftoks with
    | nil => rfl
    | cons t r =>
      have := h2 t r rfl
      unfold isGoLocator at this
      simp only [List.map_nil, List.nil_append, sizedDigestsLine]
      cases hd : goLocatorDigits t with
      | none => rfl
      | some ds => rw [hd] at this; cases this
  | b :: bs, ftoks, h1, h2 => by
    have hb := h1 b (by simp)
    unfold specLocator at hb
    cases hd : locatorSizeDigits isLowerHex b.text with
    | none => rw [hd] at hb; cases hb
    | some ds =>
      have hgo : goLocatorDigits b.text = some ds := locatorSizeDigits_mono _ _ isLowerHex_isAnyHex _ _ hd
      simp only [List.map_cons, List.cons_append, sizedDigestsLine, hgo]
      rw [sizedDigestsLine_spec bs ftoks (fun x hx => h1 x (List.mem_cons_of_mem _ hx)) h2]
      congr 1
      unfold stripLoc
      rw [hd]

theorem tokenOk_last_not_cr (t : Bytes) (h : tokenBytesOk t = true) : t.getLast? ≠ some 13 := by
  unfold tokenBytesOk at h
  simp only [Bool.and_eq_true, ne_eq, decide_eq_true_eq] at h
  intro hl
  have hm : (13 : UInt8) ∈ t := List.mem_of_getLast? hl
  have := List.all_eq_true.mp h.2 13 hm
  revert this; decide

/-- one line inside the grammar: not changed by the CR stripping, at least three tokens, and its
sized digests are those of its locators -/
theorem sizedDigests_line (line : Bytes) (s : Stream) (h : specLine line = some s) :
    line.getLast? ≠ some 13 ∧
    ∃ nm a b rest, splitOn bSpace line = nm :: a :: b :: rest ∧
      sizedDigestsLine (a :: b :: rest) = s.blocks.map fun x => stripLoc x.text := by
  have hjoin := joinWith_splitOn bSpace line
  unfold specLine at h
  simp only [] at h
  by_cases htok : (splitOn bSpace line).all tokenBytesOk = true
  · rw [if_pos htok] at h
    cases hs : splitOn bSpace line with
    | nil => exact absurd hs (splitOn_ne_nil _ _)
    | cons nm rest =>
      rw [hs] at h htok hjoin
      simp only [] at h
      cases hu : specUnescape nm with
      | none => rw [hu] at h; cases h
      | some name =>
        rw [hu] at h
        simp only [] at h
        by_cases hname : specStreamNameOk name = true
        · rw [if_pos hname] at h
          cases hloc : specLocators rest with
          | mk blocks ftoks =>
            rw [hloc] at h
            simp only [] at h
            cases hfiles : mapOpt specFileTok ftoks with
            | none => rw [hfiles] at h; cases h
            | some files =>
              rw [hfiles] at h
              simp only [] at h
              by_cases hok : blocks ≠ [] ∧ files ≠ [] ∧
                  (files.all fun f => decide (f.pos + f.len ≤ streamLen blocks)) = true
              · rw [if_pos hok] at h
                cases h
                obtain ⟨hr1, hr2, _⟩ := specLocators_spec rest blocks ftoks hloc
                have hnot : ∀ t r, ftoks = t :: r → isGoLocator t = false := by
                  intro t r he
                  subst he
                  obtain ⟨f, fs, hf, _, _⟩ := mapOpt_cons_some specFileTok t r files hfiles
                  exact fileTok_not_goLocator t f hf
                have hftne : ftoks ≠ [] := by
                  intro he; subst he; simp [mapOpt] at hfiles; exact hok.2.1 hfiles
                constructor
                · -- the last byte of the line is the last byte of its last token
                  obtain ⟨q, hq⟩ : ∃ q, (nm :: rest).getLast? = some q := by
                    cases hl : (nm :: rest).getLast? with
                    | none => simp at hl
                    | some q => exact ⟨q, rfl⟩
                  have hqm : q ∈ nm :: rest := List.mem_of_getLast? hq
                  have hqok := List.all_eq_true.mp htok q hqm
                  have hqne : q ≠ [] := by
                    intro he; subst he; revert hqok; decide
                  rw [← hjoin, joinWith_getLast bSpace _ q hq hqne]
                  exact tokenOk_last_not_cr q hqok
                · -- at least one locator and one file token
                  obtain ⟨b0, bs0, hb0⟩ : ∃ b0 bs0, blocks = b0 :: bs0 := by
                    cases blocks with
                    | nil => exact absurd rfl hok.1
                    | cons x y => exact ⟨x, y, rfl⟩
                  obtain ⟨t0, ts0, ht0⟩ : ∃ t0 ts0, ftoks = t0 :: ts0 := by
                    cases ftoks with
                    | nil => exact absurd rfl hftne
                    | cons x y => exact ⟨x, y, rfl⟩
                  have hrest : ∃ a b r, rest = a :: b :: r := by
                    rw [hr1, hb0, ht0]
                    cases bs0 with
                    | nil => exact ⟨_, _, _, rfl⟩
                    | cons x y => exact ⟨_, _, _, rfl⟩
                  obtain ⟨a, b, r, hab⟩ := hrest
                  refine ⟨nm, a, b, r, by rw [hab], ?_⟩
                  rw [← hab, hr1]
                  exact sizedDigestsLine_spec blocks ftoks hr2 hnot
              · rw [if_neg hok] at h; cases h
        · rw [if_neg hname] at h; cases h
  · rw [if_neg htok] at h; cases h

theorem sizedDigests_fold : ∀ (lines : List Bytes) (M : Manifest) (acc : List Bytes),
    mapOpt specLine lines = some M →
    (lines.map fun l => if l.getLast? = some 13 then l.dropLast else l).foldl (fun acc line =>
      match acc with
      | none => none
      | some sds =>
        match splitOn bSpace line with
        | _ :: a :: b :: rest => some (sds ++ sizedDigestsLine (a :: b :: rest))
        | _ => none) (some acc) = some (acc ++ specSizedDigests M)
  | [], M, acc, h => by simp [mapOpt] at h; subst h; simp [specSizedDigests]
  | l :: ls, M, acc, h => by
    obtain ⟨s, ss, h1, h2, rfl⟩ := mapOpt_cons_some specLine l ls M h
    obtain ⟨hcr, nm, a, b, rest, hsplit, hsd⟩ := sizedDigests_line l s h1
    simp only [List.map_cons, List.foldl_cons, if_neg hcr, hsplit, hsd]
    rw [sizedDigests_fold ls ss _ h2]
    simp [specSizedDigests, List.append_assoc]

/-- **C10_sized_digests core** -/
theorem sizedDigests_valid (txt : Bytes) (M : Manifest) (h : parseSpec txt = some M) :
    sizedDigests txt = some (specSizedDigests M) := by
  unfold parseSpec at h
  by_cases h0 : txt = []
  · rw [if_pos h0] at h; cases h; subst h0
    simp [sizedDigests, scanLines, splitOn, specSizedDigests]
  · rw [if_neg h0] at h
    simp only [] at h
    by_cases hl : (splitOn bNL txt).getLast? = some []
    · rw [if_pos hl] at h
      unfold sizedDigests scanLines
      simp only [hl, if_true]
      have := sizedDigests_fold _ M [] h
      rw [List.nil_append] at this
      exact this
    · rw [if_neg hl] at h; cases h

end ArvVerif.C10
