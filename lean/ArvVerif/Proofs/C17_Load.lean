/-
C17 — when the manifest text collected by the scan loads (`loadManifest` / `createFileAndParents`).

`loadFrags [] fs` fails exactly when two items contradict each other: a *file* item whose path is a
proper prefix of another item's path (the file would have to be a directory), or a file item and a
directory marker at the same path. The same file named twice is not a contradiction: its segments
are appended. `FragsCompat` is that pairwise condition; `loadFrags_ok` shows it is sufficient,
`loadFrags_compat` that it is necessary.
-/
import ArvVerif.Proofs.C17_NoCollide
set_option linter.unusedSimpArgs false
namespace ArvVerif.C17

/-- the file item `f` does not stand in the way of the item `g`: its path is not empty and is a
prefix of `g`'s path only if `g` is the same file named again -/
def Compat (f g : Frag) : Prop :=
  f.2.isSome = true → f.1 ≠ [] ∧ (f.1.isPrefixOf g.1 = true → f.1 = g.1 ∧ g.2.isSome = true)

/-- no two items of the manifest text contradict each other -/
def FragsCompat (fs : List Frag) : Prop := ∀ f ∈ fs, ∀ g ∈ fs, Compat f g

theorem FragsCompat.mono {fs gs : List Frag} (hc : FragsCompat gs) (hs : ∀ f ∈ fs, f ∈ gs) : FragsCompat fs :=
  fun f hf g hg => hc f (hs f hf) g (hs g hg)

/-- every directory of `t` lies properly above an item of `S`, or at a directory marker -/
def DirInv (S : List Frag) (t : Tree) : Prop :=
  ∀ p, t.get p = some .dir → p ≠ [] → ∃ f ∈ S, p.isPrefixOf f.1 = true ∧ (p ≠ f.1 ∨ f.2 = none)

/-- `mkParents` succeeds when no path strictly between `pre` and `pre ++ cs` (inclusive) is a file -/
theorem mkParents_ok : ∀ (cs : List Name) (t : Tree) (pre : Path),
    (∀ q c, q.isPrefixOf (pre ++ cs) = true → pre.length < q.length → t.get q ≠ some (.file c)) →
    ∃ t', mkParents t pre cs = some t' := by
  intro cs
  induction cs with
  | nil => intro t pre _; exact ⟨t, rfl⟩
  | cons c rest ih =>
    intro t pre hno
    simp only [mkParents]
    have hpc : (pre ++ [c]).isPrefixOf (pre ++ c :: rest) = true := by
      rw [List.isPrefixOf_iff_prefix]; exact ⟨rest, by simp⟩
    cases hg : t.get (pre ++ [c]) with
    | none =>
      simp only
      apply ih
      intro q c' hq hl
      rw [Tree.get_set t (pre ++ [c]) q .dir (by simp)]
      split
      · simp
      · exact hno q c' (by simpa [List.append_assoc] using hq) (by simp at hl; omega)
    | some ent =>
      cases ent with
      | dir =>
        simp only
        apply ih
        intro q c' hq hl
        exact hno q c' (by simpa [List.append_assoc] using hq) (by simp at hl; omega)
      | file c' => exact absurd hg (hno _ c' hpc (by simp))

/-- with compatible items, adding the next one succeeds -/
theorem addFrag_ok (S : List Frag) (t : Tree) (f : Frag) (hc : Covered S t) (hd : DirInv S t)
    (hcomp : FragsCompat (S ++ [f])) : ∃ t', addFrag t f = some t' := by
  have hfile_block : ∀ q c, q.isPrefixOf f.1 = true → q ≠ [] → t.get q = some (.file c) →
      q = f.1 ∧ f.2.isSome = true := by
    intro q c hq hne hg
    obtain ⟨g, hgS, _, h2⟩ := hc q (.file c) hg hne
    obtain ⟨h3, h4⟩ := h2 c rfl
    have := (hcomp g (List.mem_append_left _ hgS) f (by simp) h4).2 (by rw [← h3]; exact hq)
    exact ⟨by rw [h3]; exact this.1, this.2⟩
  unfold addFrag
  cases hf2 : f.2 with
  | none =>
    simp only
    apply mkParents_ok
    intro q c hq hl hg
    have hq' : q.isPrefixOf f.1 = true := by simpa using hq
    have hne : q ≠ [] := by intro h0; rw [h0] at hl; simp at hl
    have := (hfile_block q c hq' hne hg).2
    rw [hf2] at this; cases this
  | some content =>
    simp only
    have hself := hcomp f (by simp) f (by simp) (by rw [hf2]; rfl)
    have hne : f.1 ≠ [] := hself.1
    have hlen : f.1.dropLast.length < f.1.length := by
      rw [List.length_dropLast]
      have : 0 < f.1.length := List.length_pos_iff.mpr hne
      omega
    obtain ⟨t1, ht1⟩ := mkParents_ok f.1.dropLast t [] (by
      intro q c hq hl hg
      have hq1 : q.isPrefixOf f.1.dropLast = true := by simpa using hq
      have hq' : q.isPrefixOf f.1 = true :=
        prefix_trans' _ _ _ hq1 (List.isPrefixOf_iff_prefix.mpr (List.dropLast_prefix f.1))
      have hne' : q ≠ [] := by intro h0; rw [h0] at hl; simp at hl
      have h1 := (hfile_block q c hq' hne' hg).1
      have := prefix_length_le _ _ hq1
      rw [h1] at this; omega)
    rw [ht1]
    simp only [Option.bind]
    cases hg : t1.get f.1 with
    | none => exact ⟨_, rfl⟩
    | some ent =>
      cases ent with
      | file old => exact ⟨_, rfl⟩
      | dir =>
        exfalso
        rcases mkParents_get f.1.dropLast t t1 [] ht1 f.1 .dir hg with h1 | ⟨_, h2⟩
        · obtain ⟨g, hgS, h3, h4⟩ := hd f.1 h1 hne
          have := (hcomp f (by simp) g (List.mem_append_left _ hgS) (by rw [hf2]; rfl)).2 h3
          rcases h4 with h4 | h4
          · exact h4 this.1
          · rw [h4] at this; exact absurd this.2 (by simp)
        · have h2' : f.1.isPrefixOf f.1.dropLast = true := by simpa using h2
          have := prefix_length_le _ _ h2'
          omega

theorem addFrag_dirInv (S : List Frag) (t t' : Tree) (f : Frag) (hd : DirInv S t) (ha : addFrag t f = some t') :
    DirInv (S ++ [f]) t' := by
  intro p hg hp
  unfold addFrag at ha
  cases hf2 : f.2 with
  | none =>
    rw [hf2] at ha
    simp only at ha
    rcases mkParents_get f.1 t t' [] ha p .dir hg with h1 | ⟨_, h2⟩
    · obtain ⟨g, hgm, h3, h4⟩ := hd p h1 hp
      exact ⟨g, List.mem_append_left _ hgm, h3, h4⟩
    · exact ⟨f, by simp, by simpa using h2, Or.inr hf2⟩
  | some content =>
    rw [hf2] at ha
    simp only at ha
    cases hm : mkParents t [] f.1.dropLast with
    | none => rw [hm] at ha; simp at ha
    | some t1 =>
      rw [hm] at ha
      simp only [Option.bind] at ha
      have ht1 : ∀ q, t1.get q = some .dir → q ≠ [] →
          ∃ g ∈ S ++ [f], q.isPrefixOf g.1 = true ∧ (q ≠ g.1 ∨ g.2 = none) := by
        intro q hq hqne
        rcases mkParents_get f.1.dropLast t t1 [] hm q .dir hq with h1 | ⟨_, h2⟩
        · obtain ⟨g, hgm, h3, h4⟩ := hd q h1 hqne
          exact ⟨g, List.mem_append_left _ hgm, h3, h4⟩
        · have h2' : q.isPrefixOf f.1.dropLast = true := by simpa using h2
          refine ⟨f, by simp, prefix_trans' _ _ _ h2' (List.isPrefixOf_iff_prefix.mpr (List.dropLast_prefix f.1)), ?_⟩
          left
          intro heq
          have := prefix_length_le _ _ h2'
          rw [heq, List.length_dropLast] at this
          have : 0 < f.1.length := by rw [← heq]; exact List.length_pos_iff.mpr hqne
          omega
      by_cases hne : f.1 = []
      · rw [hne] at ha; simp [Tree.get] at ha
      · have hset : ∀ c, t' = t1.set f.1 (.file c) →
            ∃ g ∈ S ++ [f], p.isPrefixOf g.1 = true ∧ (p ≠ g.1 ∨ g.2 = none) := by
          intro c ht'
          rw [ht', Tree.get_set t1 f.1 p _ hne] at hg
          split at hg
          · cases hg
          · exact ht1 p hg hp
        cases hgf : t1.get f.1 with
        | none =>
          rw [hgf] at ha
          simp only [Option.some.injEq] at ha
          exact hset _ ha.symm
        | some ent =>
          rw [hgf] at ha
          cases ent with
          | file old =>
            simp only [Option.some.injEq] at ha
            exact hset _ ha.symm
          | dir => simp at ha

theorem loadFrags_ok_aux : ∀ (fs : List Frag) (S : List Frag) (t : Tree), Covered S t → DirInv S t →
    FragsCompat (S ++ fs) → ∃ t', loadFrags t fs = some t' := by
  intro fs
  induction fs with
  | nil => intro S t _ _ _; exact ⟨t, rfl⟩
  | cons f fs ih =>
    intro S t hc hd hcomp
    obtain ⟨t1, h1⟩ := addFrag_ok S t f hc hd (hcomp.mono (by
      intro g hg
      rcases List.mem_append.mp hg with h | h
      · exact List.mem_append_left _ h
      · simp only [List.mem_singleton] at h; rw [h]; simp))
    simp only [loadFrags, h1, Option.bind]
    exact ih (S ++ [f]) t1 (addFrag_cover S t t1 f hc h1) (addFrag_dirInv S t t1 f hd h1)
      (by simpa [List.append_assoc] using hcomp)

/-- **the manifest text loads** whenever its items are pairwise compatible -/
theorem loadFrags_ok (fs : List Frag) (hc : FragsCompat fs) : ∃ t0, loadFrags [] fs = some t0 :=
  loadFrags_ok_aux fs [] [] (by intro p e hg hp; simp [Tree.get, hp] at hg)
    (by intro p hg hp; simp [Tree.get, hp] at hg) (by simpa using hc)

/-! ### the condition is necessary -/

/-- directories stay directories and files stay files (their content may grow) -/
def KindLe (t t' : Tree) : Prop :=
  (∀ p, t.get p = some .dir → t'.get p = some .dir) ∧ (∀ p c, t.get p = some (.file c) → ∃ c', t'.get p = some (.file c'))

theorem KindLe.refl (t : Tree) : KindLe t t := ⟨fun _ h => h, fun _ c h => ⟨c, h⟩⟩

theorem KindLe.trans {a b c : Tree} (h1 : KindLe a b) (h2 : KindLe b c) : KindLe a c :=
  ⟨fun p h => h2.1 p (h1.1 p h), fun p x h => by obtain ⟨y, hy⟩ := h1.2 p x h; exact h2.2 p y hy⟩

theorem mkParents_keep : ∀ (cs : List Name) (t t' : Tree) (pre : Path), mkParents t pre cs = some t' →
    (∀ p e, t.get p = some e → t'.get p = some e) ∧
    (∀ q, q.isPrefixOf (pre ++ cs) = true → pre.length < q.length → t'.get q = some .dir) := by
  intro cs
  induction cs with
  | nil =>
    intro t t' pre hm
    simp [mkParents] at hm; subst hm
    refine ⟨fun _ _ h => h, ?_⟩
    intro q hq hl
    have := prefix_length_le _ _ hq
    simp at this; omega
  | cons c rest ih =>
    intro t t' pre hm
    simp only [mkParents] at hm
    have hstep : ∀ t1 : Tree, (∀ p e, t.get p = some e → t1.get p = some e) → t1.get (pre ++ [c]) = some .dir →
        mkParents t1 (pre ++ [c]) rest = some t' →
        (∀ p e, t.get p = some e → t'.get p = some e) ∧
        (∀ q, q.isPrefixOf (pre ++ c :: rest) = true → pre.length < q.length → t'.get q = some .dir) := by
      intro t1 hk hd hm1
      obtain ⟨i1, i2⟩ := ih t1 t' (pre ++ [c]) hm1
      refine ⟨fun p e h => i1 p e (hk p e h), ?_⟩
      intro q hq hl
      by_cases hlen : (pre ++ [c]).length < q.length
      · exact i2 q (by simpa [List.append_assoc] using hq) hlen
      · have hpc : (pre ++ [c]).isPrefixOf (pre ++ c :: rest) = true := by
          rw [List.isPrefixOf_iff_prefix]; exact ⟨rest, by simp⟩
        have hqp : q.isPrefixOf (pre ++ [c]) = true := prefix_total q (pre ++ [c]) _ hq hpc (by omega)
        have : q = pre ++ [c] := (eq_of_prefix_of_length q (pre ++ [c]) hqp (by simp at hlen ⊢; omega)).symm
        rw [this]; exact i1 _ _ hd
    cases hg : t.get (pre ++ [c]) with
    | none =>
      rw [hg] at hm
      refine hstep _ ?_ ?_ hm
      · intro p e h
        rw [Tree.get_set t (pre ++ [c]) p .dir (by simp)]
        split
        · rename_i hp; rw [hp, hg] at h; cases h
        · exact h
      · rw [Tree.get_set t (pre ++ [c]) _ .dir (by simp)]; simp
    | some ent =>
      rw [hg] at hm
      cases ent with
      | dir => exact hstep t (fun _ _ h => h) hg hm
      | file _ => simp at hm

/-- where an item is after loading: the directories above it exist (a marker's own path too), a
file item's path is a file -/
def Placed (t : Tree) (f : Frag) : Prop :=
  (∀ q, q.isPrefixOf f.1 = true → q ≠ [] → (q ≠ f.1 ∨ f.2 = none) → t.get q = some .dir) ∧
  (f.2.isSome = true → f.1 ≠ [] ∧ ∃ c, t.get f.1 = some (.file c))

theorem Placed.mono {t t' : Tree} {f : Frag} (hp : Placed t f) (hk : KindLe t t') : Placed t' f :=
  ⟨fun q h1 h2 h3 => hk.1 q (hp.1 q h1 h2 h3),
   fun h => ⟨(hp.2 h).1, by obtain ⟨c, hc⟩ := (hp.2 h).2; exact hk.2 _ c hc⟩⟩

theorem addFrag_placed (t t' : Tree) (f : Frag) (ha : addFrag t f = some t') : KindLe t t' ∧ Placed t' f := by
  unfold addFrag at ha
  cases hf2 : f.2 with
  | none =>
    rw [hf2] at ha
    simp only at ha
    obtain ⟨h1, h2⟩ := mkParents_keep f.1 t t' [] ha
    refine ⟨⟨fun p h => h1 p _ h, fun p c h => ⟨c, h1 p _ h⟩⟩, ?_, ?_⟩
    · intro q hq hne _
      exact h2 q (by simpa using hq) (by simpa using List.length_pos_iff.mpr hne)
    · intro h; rw [hf2] at h; simp at h
  | some content =>
    rw [hf2] at ha
    simp only at ha
    cases hm : mkParents t [] f.1.dropLast with
    | none => rw [hm] at ha; simp at ha
    | some t1 =>
      rw [hm] at ha
      simp only [Option.bind] at ha
      obtain ⟨h1, h2⟩ := mkParents_keep f.1.dropLast t t1 [] hm
      by_cases hne : f.1 = []
      · rw [hne] at ha; simp [Tree.get] at ha
      · have hset : ∀ c, t1.get f.1 ≠ some .dir → t' = t1.set f.1 (.file c) → KindLe t t' ∧ Placed t' f := by
          intro c hnd ht'
          have hget : ∀ p, t'.get p = if p = f.1 then some (.file c) else t1.get p := by
            intro p; rw [ht']; exact Tree.get_set t1 f.1 p _ hne
          refine ⟨⟨?_, ?_⟩, ?_, ?_⟩
          · intro p hp
            rw [hget]
            split
            · rename_i hpf; rw [hpf] at hp; exact absurd (h1 _ _ hp) hnd
            · exact h1 _ _ hp
          · intro p x hp
            rw [hget]
            split
            · exact ⟨c, rfl⟩
            · exact ⟨x, h1 _ _ hp⟩
          · intro q hq hqne hor
            have hqf : q ≠ f.1 := by
              rcases hor with h | h
              · exact h
              · rw [hf2] at h; cases h
            rw [hget, if_neg hqf]
            apply h2 q _ (by simpa using List.length_pos_iff.mpr hqne)
            -- a proper prefix of f.1 is a prefix of f.1.dropLast
            have hdl : f.1.dropLast.isPrefixOf f.1 = true := List.isPrefixOf_iff_prefix.mpr (List.dropLast_prefix f.1)
            have hlt : q.length < f.1.length := by
              have := prefix_length_le _ _ hq
              by_cases he : q.length = f.1.length
              · exact absurd (eq_of_prefix_of_length q f.1 hq he.symm).symm hqf
              · omega
            simpa using prefix_total q f.1.dropLast f.1 hq hdl (by rw [List.length_dropLast]; omega)
          · intro _
            exact ⟨hne, c, by rw [hget, if_pos rfl]⟩
        cases hgf : t1.get f.1 with
        | none =>
          rw [hgf] at ha
          simp only [Option.some.injEq] at ha
          exact hset _ (by intro h; rw [hgf] at h; cases h) ha.symm
        | some ent =>
          rw [hgf] at ha
          cases ent with
          | file old =>
            simp only [Option.some.injEq] at ha
            exact hset _ (by intro h; rw [hgf] at h; cases h) ha.symm
          | dir => simp at ha

theorem loadFrags_placed : ∀ (fs : List Frag) (t t' : Tree), loadFrags t fs = some t' →
    KindLe t t' ∧ ∀ f ∈ fs, Placed t' f := by
  intro fs
  induction fs with
  | nil => intro t t' hl; simp [loadFrags] at hl; subst hl; exact ⟨KindLe.refl t, by simp⟩
  | cons f fs ih =>
    intro t t' hl
    simp only [loadFrags] at hl
    cases ha : addFrag t f with
    | none => rw [ha] at hl; simp at hl
    | some t1 =>
      rw [ha] at hl
      simp only [Option.bind] at hl
      obtain ⟨k1, p1⟩ := addFrag_placed t t1 f ha
      obtain ⟨k2, p2⟩ := ih t1 t' hl
      refine ⟨k1.trans k2, ?_⟩
      intro g hg
      rcases List.mem_cons.mp hg with h | h
      · rw [h]; exact p1.mono k2
      · exact p2 g h

/-- … and only then: manifest text that loads has pairwise compatible items -/
theorem loadFrags_compat (fs : List Frag) (t t0 : Tree) (hl : loadFrags t fs = some t0) : FragsCompat fs := by
  obtain ⟨_, hp⟩ := loadFrags_placed fs t t0 hl
  intro f hf g hg hfile
  obtain ⟨hne, c, hc⟩ := (hp f hf).2 hfile
  refine ⟨hne, ?_⟩
  intro hpre
  by_cases hgood : f.1 = g.1 ∧ g.2.isSome = true
  · exact hgood
  · exfalso
    have hor : f.1 ≠ g.1 ∨ g.2 = none := by
      by_cases h1 : f.1 = g.1
      · right
        cases h2 : g.2 with
        | none => rfl
        | some _ => exact absurd ⟨h1, by rw [h2]; rfl⟩ hgood
      · exact Or.inl h1
    have := (hp g hg).1 f.1 hpre hne hor
    rw [hc] at this; cases this

/-- **characterisation**: the manifest text loads into an empty collection exactly when no two of
its items contradict each other -/
theorem loadFrags_iff (fs : List Frag) : (∃ t0, loadFrags [] fs = some t0) ↔ FragsCompat fs :=
  ⟨fun ⟨t0, h⟩ => loadFrags_compat fs [] t0 h, loadFrags_ok fs⟩

end ArvVerif.C17
