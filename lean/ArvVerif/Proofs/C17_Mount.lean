/-
C17 — lemmas about `srcMount` (innermost mount) and the supported configurations.
-/
import ArvVerif.Proofs.C17_Path
namespace ArvVerif.C17

theorem srcMount_fold (src : Path) (ms : List (Path × Mount)) (acc : Option (Path × Mount)) (all : List (Path × Mount))
    (hacc : ∀ b, acc = some b → b ∈ all ∧ b.1.isPrefixOf src = true ∧ 0 < b.1.length)
    (hsub : ∀ e ∈ ms, e ∈ all) :
    ∀ b, ms.foldl (fun best e =>
        if e.1.isPrefixOf src ∧ rootLen best < e.1.length then some e else best) acc = some b →
      b ∈ all ∧ b.1.isPrefixOf src = true ∧ 0 < b.1.length := by
  induction ms generalizing acc with
  | nil => simpa using hacc
  | cons x xs ih =>
    intro b hb
    simp only [List.foldl_cons] at hb
    refine ih _ ?_ (fun e he => hsub e (List.mem_cons_of_mem _ he)) b hb
    intro b' hb'
    split at hb'
    · rename_i hc
      simp at hb'; subst hb'
      refine ⟨hsub _ (List.mem_cons_self ..), hc.1, ?_⟩
      have := hc.2; omega
    · exact hacc b' hb'

theorem srcMount_mem (cfg : Cfg) (src : Path) (b : Path × Mount) (hb : srcMount cfg src = some b) :
    b ∈ cfg.mounts ∧ b.1.isPrefixOf src = true ∧ 0 < b.1.length :=
  srcMount_fold src cfg.mounts none cfg.mounts (by simp) (fun _ h => h) b hb

/-- the loop body of `srcMount` -/
def pick (src : Path) (best : Option (Path × Mount)) (e : Path × Mount) : Option (Path × Mount) :=
  if e.1.isPrefixOf src ∧ rootLen best < e.1.length then some e else best

theorem srcMount_eq (cfg : Cfg) (src : Path) : srcMount cfg src = cfg.mounts.foldl (pick src) none := rfl

theorem pick_mono (src : Path) (acc : Option (Path × Mount)) (x : Path × Mount) :
    rootLen acc ≤ rootLen (pick src acc x) := by
  unfold pick; split
  · rename_i hc; have := hc.2; show rootLen acc ≤ x.1.length; omega
  · exact Nat.le_refl _

theorem fold_pick_mono (src : Path) (ms : List (Path × Mount)) (acc : Option (Path × Mount)) :
    rootLen acc ≤ rootLen (ms.foldl (pick src) acc) := by
  induction ms generalizing acc with
  | nil => simp
  | cons x xs ih => simp only [List.foldl_cons]; exact Nat.le_trans (pick_mono src acc x) (ih _)

theorem srcMount_fold_max (src : Path) (ms : List (Path × Mount)) (acc : Option (Path × Mount)) :
    ∀ e ∈ ms, e.1.isPrefixOf src = true → e.1.length ≤ rootLen (ms.foldl (pick src) acc) := by
  induction ms generalizing acc with
  | nil => intro e he; cases he
  | cons x xs ih =>
    intro e he hp
    simp only [List.foldl_cons]
    rcases List.mem_cons.mp he with rfl | hm
    · have : e.1.length ≤ rootLen (pick src acc e) := by
        unfold pick; split
        · simp [rootLen]
        · rename_i hc; simp only [hp, true_and, Nat.not_lt] at hc; exact hc
      exact Nat.le_trans this (fold_pick_mono src xs _)
    · exact ih _ e hm hp

/-- the chosen mount is the longest one containing `src` -/
theorem srcMount_max (cfg : Cfg) (src : Path) (e : Path × Mount) (he : e ∈ cfg.mounts)
    (hp : e.1.isPrefixOf src = true) : e.1.length ≤ rootLen (srcMount cfg src) :=
  srcMount_fold_max src cfg.mounts none e he hp

theorem isPrefixOf_eq_of_length {α : Type} [DecidableEq α] (a b : List α) (h : a.isPrefixOf b = true)
    (hl : b.length ≤ a.length) : a = b := by
  rw [List.isPrefixOf_iff_prefix] at h
  exact List.IsPrefix.eq_of_length_le h hl

/-- a mount point is its own innermost mount -/
theorem srcMount_self (cfg : Cfg) (e : Path × Mount) (he : e ∈ cfg.mounts) (hne : 0 < e.1.length) :
    ∃ m, srcMount cfg e.1 = some (e.1, m) := by
  have hmax := srcMount_max cfg e.1 e he (by simp [List.isPrefixOf_iff_prefix])
  cases hs : srcMount cfg e.1 with
  | none => rw [hs] at hmax; simp only [rootLen] at hmax; omega
  | some b =>
    rw [hs] at hmax
    obtain ⟨_, hp, _⟩ := srcMount_mem cfg e.1 b hs
    have : b.1 = e.1 := isPrefixOf_eq_of_length _ _ hp (by simpa [rootLen] using hmax)
    exact ⟨b.2, by rw [← this]⟩

/-- `a` is a proper prefix of `b` -/
def ProperPrefix (a b : Path) : Prop := a.isPrefixOf b = true ∧ a.length < b.length

instance (a b : Path) : Decidable (ProperPrefix a b) := by unfold ProperPrefix; infer_instance

theorem runnable_tmp (cfg : Cfg) (hs : runnable cfg = true) (e : Path × Mount) (he : e ∈ cfg.mounts)
    (hk : e.2.kind = "tmp") : e.1 = cfg.ctrOut := by
  unfold runnable at hs
  rw [List.all_eq_true] at hs
  have := hs e he
  simp only [Bool.and_eq_true, Bool.or_eq_true, decide_eq_true_eq, Bool.not_eq_true', ne_eq] at this
  rcases this.1 with h | h
  · exact absurd hk h
  · exact h

theorem runnable_writable (cfg : Cfg) (hs : runnable cfg = true) (e : Path × Mount) (he : e ∈ cfg.mounts) :
    ¬ (e.2.kind = "collection" ∧ e.2.writable = true) := by
  unfold runnable at hs
  rw [List.all_eq_true] at hs
  have := hs e he
  simp only [Bool.and_eq_true, Bool.not_eq_true', Bool.and_eq_false_iff, decide_eq_false_iff_not] at this
  intro ⟨h1, h2⟩
  rcases this.2 with h | h
  · exact h h1
  · rw [h2] at h; cases h

theorem runnable_of_supported (cfg : Cfg) (hs : supported cfg = true) : runnable cfg = true := by
  unfold supported at hs
  unfold runnable
  rw [List.all_eq_true] at hs ⊢
  intro e he
  have := hs e he
  simp only [Bool.and_eq_true] at this ⊢
  exact this.1

theorem supported_tmp (cfg : Cfg) (hs : supported cfg = true) (e : Path × Mount) (he : e ∈ cfg.mounts)
    (hk : e.2.kind = "tmp") : e.1 = cfg.ctrOut := by
  unfold supported at hs
  rw [List.all_eq_true] at hs
  have := hs e he
  simp only [Bool.and_eq_true, Bool.or_eq_true, decide_eq_true_eq, Bool.not_eq_true', ne_eq] at this
  rcases this.1.1 with h | h
  · exact absurd hk h
  · exact h

theorem supported_above (cfg : Cfg) (hs : supported cfg = true) (e : Path × Mount) (he : e ∈ cfg.mounts) :
    ¬ ProperPrefix e.1 cfg.ctrOut := by
  unfold supported at hs
  rw [List.all_eq_true] at hs
  have := hs e he
  simp only [Bool.and_eq_true, Bool.not_eq_true', Bool.and_eq_false_iff, decide_eq_false_iff_not] at this
  intro ⟨h1, h2⟩
  rcases this.2 with h | h
  · simp [h1] at h
  · exact h h2

theorem supported_writable (cfg : Cfg) (hs : supported cfg = true) (e : Path × Mount) (he : e ∈ cfg.mounts) :
    ¬ (e.2.kind = "collection" ∧ e.2.writable = true) := by
  unfold supported at hs
  rw [List.all_eq_true] at hs
  have := hs e he
  simp only [Bool.and_eq_true, Bool.not_eq_true', Bool.and_eq_false_iff, decide_eq_false_iff_not] at this
  intro ⟨h1, h2⟩
  rcases this.1.2 with h | h
  · exact h h1
  · rw [h2] at h; cases h

end ArvVerif.C17
