/-
C08 treeness, part 3: `TreeInv` (directory table is a tree, entries name existing directories) is an
invariant of every operation of `step`, for every file implementation.
-/
import ArvVerif.Proofs.C08_Tree2
import ArvVerif.Proofs.C08_Hist1
namespace ArvVerif.C08

section
variable {F P W : Type}

/-- entries that name a directory name an existing one -/
def EntsDirOK (ents : List ((Nat × String) × Node)) (n : Nat) : Prop :=
  ∀ e ∈ ents, ∀ k, e.2 = Node.dir k → k < n

structure TreeInv (s : FS F P W) : Prop where
  dirs : DirsOK s.dirs
  ents : EntsDirOK s.ents s.dirs.length

theorem TreeInv.of_same {s s' : FS F P W} (h : TreeInv s) (he : s'.ents = s.ents) (hd : s'.dirs = s.dirs) :
    TreeInv s' := ⟨by rw [hd]; exact h.dirs, by rw [he, hd]; exact h.ents⟩

theorem TreeInv.ite {c : Prop} [Decidable c] {a b : FS F P W × Res} (ha : TreeInv a.1) (hb : TreeInv b.1) :
    TreeInv (if c then a else b).1 := by
  split
  · exact ha
  · exact hb

theorem EntsDirOK.erase {ents : List ((Nat × String) × Node)} {n : Nat} (h : EntsDirOK ents n) (d : Nat) (name : String) :
    EntsDirOK (eraseEnt ents d name) n :=
  fun e he => h e (List.mem_filter.mp he).1

theorem EntsDirOK.set {ents : List ((Nat × String) × Node)} {n : Nat} (h : EntsDirOK ents n) (d : Nat) (name : String)
    (nd : Node) (hn : ∀ k, nd = Node.dir k → k < n) : EntsDirOK (setEnt ents d name nd) n := by
  intro e he
  rcases List.mem_append.mp he with h1 | h1
  · exact h.erase d name e h1
  · simp only [List.mem_cons, List.not_mem_nil, or_false] at h1
    rw [h1]; exact hn

theorem EntsDirOK.mono {ents : List ((Nat × String) × Node)} {n m : Nat} (h : EntsDirOK ents n) (hle : n ≤ m) :
    EntsDirOK ents m := fun e he k hk => Nat.lt_of_lt_of_le (h e he k hk) hle

/-- `rlookup` from a valid node ends in a valid node -/
theorem walk_valid {s : FS F P W} (h : TreeInv s) : ∀ (comps : List String) (n n' : Node),
    (∀ k, n = Node.dir k → k < s.dirs.length) → walk s.ents s.dirs n comps = Except.ok n' →
    ∀ k, n' = Node.dir k → k < s.dirs.length := by
  intro comps
  induction comps with
  | nil => intro n n' hn hw; simp [walk, pure, Except.pure] at hw; rw [← hw]; exact hn
  | cons name rest ih =>
    intro n n' hn hw
    cases n with
    | file f => simp [walk, throw, throwThe, MonadExceptOf.throw] at hw
    | dir d =>
      simp only [walk] at hw
      split at hw
      · exact ih _ _ hn hw
      · split at hw
        · exact ih _ _ (fun k hk => by cases hk; exact h.dirs.closed d (hn d rfl)) hw
        · split at hw
          · simp [throw, throwThe, MonadExceptOf.throw] at hw
          · next nn hc =>
            obtain ⟨e, he1, he2⟩ := child_mem hc
            exact ih _ _ (fun k hk => h.ents e he1 k (by rw [he2, hk])) hw

theorem lookupDir_valid {s : FS F P W} (h : TreeInv s) {comps : List String} {d : Nat}
    (hl : lookupDir s comps = Except.ok d) : d < s.dirs.length := by
  unfold lookupDir at hl
  cases hw : walk s.ents s.dirs (Node.dir 0) comps with
  | error e => rw [hw] at hl; simp [throw, throwThe, MonadExceptOf.throw] at hl
  | ok n =>
    rw [hw] at hl
    cases n with
    | file f => simp [throw, throwThe, MonadExceptOf.throw] at hl
    | dir k =>
      simp [pure, Except.pure] at hl
      rw [← hl]
      exact walk_valid h comps _ _ (fun k hk => by cases hk; exact h.dirs.nonempty) hw k rfl

theorem TreeInv.addNode {s : FS F P W} (h : TreeInv s) (impl : FileImpl F P W) {d : Nat} (hd : d < s.dirs.length)
    (name : String) (isDir : Bool) : TreeInv (ArvVerif.C08.addNode impl s d name isDir).1 := by
  cases isDir with
  | true =>
    simp only [ArvVerif.C08.addNode, if_true]
    refine ⟨h.dirs.append name hd, ?_⟩
    show EntsDirOK (setEnt s.ents d name (Node.dir s.dirs.length)) (s.dirs ++ [(name, d)]).length
    refine (h.ents.mono (by simp)).set d name _ ?_
    intro k hk; cases hk; simp
  | false =>
    simp only [ArvVerif.C08.addNode, Bool.false_eq_true, if_false]
    exact ⟨h.dirs, h.ents.set d name _ (fun k hk => by cases hk)⟩

theorem setFile_tree (s : FS F P W) (f : Nat) (c : F) : (setFile s f c).ents = s.ents ∧ (setFile s f c).dirs = s.dirs := by
  unfold setFile; cases s.files[f]? <;> exact ⟨rfl, rfl⟩

theorem setNameParent_ents (s : FS F P W) (n : Node) (name : String) (d : Nat) :
    (setNameParent s n name d).ents = s.ents := by
  cases n with
  | dir k => rfl
  | file f => simp only [setNameParent]; cases s.files[f]? <;> rfl

theorem openFile_tree (impl : FileImpl F P W) {s : FS F P W} (h : TreeInv s) (path : String) (acc : Nat)
    (app cre excl trunc sync dirPerm : Bool) :
    TreeInv (openFile impl s path acc app cre excl trunc sync dirPerm).1 := by
  unfold openFile
  generalize splitDirBase path = sp
  obtain ⟨dcomps, name⟩ := sp
  dsimp only
  split
  · exact h
  · cases hl : lookupDir s dcomps with
    | error e => exact h
    | ok d =>
      have hd := lookupDir_valid h hl
      dsimp only
      split
      · exact h
      · split
        · exact h
        · split
          · exact h
          · split
            · exact h
            · cases hc : child s.ents d name with
              | none =>
                dsimp only
                split
                · exact h
                · exact h.addNode impl hd name dirPerm
              | some n =>
                dsimp only
                split
                · exact h
                · split
                  · split
                    · exact h
                    · cases n with
                      | dir k => exact h
                      | file f =>
                        dsimp only
                        cases s.files[f]? with
                        | none => exact h
                        | some nc =>
                          dsimp only
                          cases impl.trunc nc.2 0 with
                          | error e => exact h
                          | ok c' => exact h.of_same (setFile_tree s f c').1 (setFile_tree s f c').2
                  · exact h

theorem doMkdir_tree (impl : FileImpl F P W) {s : FS F P W} (h : TreeInv s) (path : String) :
    TreeInv (doMkdir impl s path).1 := by
  unfold doMkdir
  generalize splitDirBase path = sp
  obtain ⟨dcomps, name⟩ := sp
  dsimp only
  cases hl : lookupDir s dcomps with
  | error e => exact h
  | ok d =>
    dsimp only
    split
    · exact h
    · cases child s.ents d name with
      | some n => exact h
      | none => exact h.addNode impl (lookupDir_valid h hl) name true

theorem doRemove_tree {s : FS F P W} (h : TreeInv s) (path : String) (rec : Bool) :
    TreeInv (doRemove s path rec).1 := by
  unfold doRemove
  generalize splitDirBase (trimSlashes path) = sp
  obtain ⟨dcomps, name⟩ := sp
  dsimp only
  split
  · exact h
  · cases lookupDir s dcomps with
    | error e => exact h
    | ok d =>
      dsimp only
      cases child s.ents d name with
      | none => exact h
      | some n =>
        dsimp only
        exact TreeInv.ite h ⟨h.dirs, h.ents.erase d name⟩

/-- **Rename preserves treeness**: the `locked` test (complete, by `mem_ancestors`) excludes exactly
the re-parentings that would close a cycle. -/
theorem doRename_tree {s : FS F P W} (h : TreeInv s) (old new : String) : TreeInv (doRename s old new).1 := by
  unfold doRename
  generalize splitDirBase old = sp
  obtain ⟨ocomps, oldname⟩ := sp
  generalize splitDirBase new = sp2
  obtain ⟨ncomps, newname0⟩ := sp2
  dsimp only
  split
  · exact h
  · cases hod : lookupDir s ocomps with
    | error e => exact h
    | ok od =>
      dsimp only
      split
      · exact h
      · cases hnd : lookupDir s ncomps with
        | error e => exact h
        | ok nd =>
          have hndv := lookupDir_valid h hnd
          dsimp only
          cases hch : child s.ents od oldname with
          | none => exact h
          | some n =>
            dsimp only
            obtain ⟨e, he1, he2⟩ := child_mem hch
            have hnv : ∀ k, n = Node.dir k → k < s.dirs.length := fun k hk => h.ents e he1 k (by rw [he2, hk])
            obtain ⟨newname, hnn⟩ : ∃ nn, nn = (if (newname0 == "") = true then oldname else newname0) := ⟨_, rfl⟩
            rw [← hnn]
            -- the final state, given that the node may be re-parented
            have hfin : DirsOK (setNameParent { s with ents := setEnt s.ents nd newname n } n newname nd).dirs →
                TreeInv ({ (setNameParent { s with ents := setEnt s.ents nd newname n } n newname nd) with
                  ents := if od = nd ∧ oldname = newname then
                      (setNameParent { s with ents := setEnt s.ents nd newname n } n newname nd).ents
                    else eraseEnt (setNameParent { s with ents := setEnt s.ents nd newname n } n newname nd).ents od oldname }
                  : FS F P W) := by
              intro hdirs
              have hlen : (setNameParent { s with ents := setEnt s.ents nd newname n } n newname nd).dirs.length
                  = s.dirs.length := by
                cases n with
                | dir k => simp [setNameParent]
                | file f => simp only [setNameParent]; cases s.files[f]? <;> rfl
              refine ⟨hdirs, ?_⟩
              show EntsDirOK (if od = nd ∧ oldname = newname then _ else _) _
              rw [setNameParent_ents, hlen]
              have hset := h.ents.set nd newname n hnv
              split
              · exact hset
              · exact hset.erase od oldname
            cases n with
            | file f =>
              dsimp only
              rw [if_neg (by simp)]
              have hd : DirsOK (setNameParent { s with ents := setEnt s.ents nd newname (Node.file f) } (Node.file f) newname nd).dirs := by
                simp only [setNameParent]; cases s.files[f]? <;> exact h.dirs
              cases child s.ents nd newname with
              | none => exact hfin hd
              | some x =>
                cases x with
                | dir k' => exact h
                | file f' => exact hfin hd
            | dir k =>
              dsimp only
              by_cases hk : (ancestors s.dirs s.dirs.length od ++ ancestors s.dirs s.dirs.length nd).contains k = true
              · rw [if_pos hk]; exact h
              · rw [if_neg hk]
                have hkv := hnv k rfl
                have hav : ∀ i, up s.dirs nd i ≠ k := by
                  intro i hi
                  apply hk
                  rw [List.contains_iff_mem, List.mem_append]
                  right
                  exact (mem_ancestors h.dirs.root s.dirs.length nd k (h.dirs.reach nd hndv)).mpr ⟨i, hi⟩
                have hd : DirsOK (setNameParent { s with ents := setEnt s.ents nd newname (Node.dir k) } (Node.dir k) newname nd).dirs :=
                  h.dirs.reparent newname hkv hndv hav
                cases child s.ents nd newname with
                | none => exact hfin hd
                | some x =>
                  cases x with
                  | dir k' => exact h
                  | file f' => exact hfin hd

end
end ArvVerif.C08
