/-
C08 helper lemmas, part 10: the abstraction from the concrete filesystem state to the plain one
(`absFS`), the invariant (`Inv`), and how the tree/handle primitives commute with `absFS`.
-/
import ArvVerif.Proofs.C08_Flush
import ArvVerif.Model.C08_FS
namespace ArvVerif.C08

abbrev CFS := FS FileNode Ptr Store
abbrev SFS := FS Bytes Nat Unit

def absH (hd : Handle Ptr) : Handle Nat := ⟨hd.node, hd.ptr.off, hd.app, hd.rd, hd.wr⟩

def absFiles (st : Store) (files : List (String × FileNode)) : List (String × Bytes) :=
  files.map (fun nf => (nf.1, abs st nf.2))

def absHandles (hs : List (Nat × Handle Ptr)) : List (Nat × Handle Nat) :=
  hs.map (fun e => (e.1, absH e.2))

/-- The plain filesystem a concrete state stands for: same tree, every file replaced by its
content, every handle pointer by its offset. -/
def absFS (s : CFS) : SFS := ⟨(), s.ents, s.dirs, absFiles s.world s.files, absHandles s.handles⟩

/-- every directory entry that names a file names an existing one -/
def EntsOK (ents : List ((Nat × String) × Node)) (n : Nat) : Prop :=
  ∀ e ∈ ents, ∀ f, e.2 = Node.file f → f < n

/-- Invariant of the concrete state: Keep consistent, every file well-formed, every handle's
pointer refers to an existing file and is valid for it. -/
structure Inv (max : Nat) (hash : Bytes → Loc) (s : CFS) : Prop where
  ok : StoreOK hash s.world
  files : ∀ nf ∈ s.files, WF max hash s.world nf.2 ∧ 0 ≤ nf.2.repacked
  handles : ∀ e ∈ s.handles, ∀ f, e.2.node = Node.file f → ∃ nf, s.files[f]? = some nf ∧ PtrOK nf.2 e.2.ptr
  ents : EntsOK s.ents s.files.length

variable {max : Nat} {hash : Bytes → Loc}

@[simp] theorem absFS_ents (s : CFS) : (absFS s).ents = s.ents := rfl
@[simp] theorem absFS_dirs (s : CFS) : (absFS s).dirs = s.dirs := rfl
@[simp] theorem absFS_files (s : CFS) : (absFS s).files = absFiles s.world s.files := rfl
@[simp] theorem absFS_handles (s : CFS) : (absFS s).handles = absHandles s.handles := rfl

theorem absFiles_get (st : Store) (files : List (String × FileNode)) (f : Nat) :
    (absFiles st files)[f]? = (files[f]?).map (fun nf => (nf.1, abs st nf.2)) := by
  simp [absFiles]

theorem absFiles_length (st : Store) (files : List (String × FileNode)) :
    (absFiles st files).length = files.length := by simp [absFiles]

theorem lookupDir_abs (s : CFS) (c : List String) : lookupDir (absFS s) c = lookupDir s c := rfl

theorem nodeName_abs (s : CFS) (n : Node) : nodeName (absFS s) n = nodeName s n := by
  cases n with
  | dir d => rfl
  | file f =>
    simp only [nodeName, absFS_files, absFiles_get]
    cases s.files[f]? <;> rfl

theorem dirSize_abs (s : CFS) (d : Nat) : dirSize (absFS s) d = dirSize s d := rfl

theorem nodeSize_abs (hinv : Inv max hash s) (n : Node) :
    nodeSize specImpl (absFS s) n = nodeSize (concImpl hash max) s n := by
  cases n with
  | dir d => rfl
  | file f =>
    simp only [nodeSize, absFS_files, absFiles_get]
    cases hf : s.files[f]? with
    | none => rfl
    | some nf =>
      simp only [Option.map_some]
      exact (hinv.files nf (List.mem_of_getElem? hf)).1.abs_length

theorem infoOf_abs (hinv : Inv max hash s) (n : Node) :
    infoOf specImpl (absFS s) n = infoOf (concImpl hash max) s n := by
  simp only [infoOf, nodeName_abs, nodeSize_abs hinv]

theorem listingOf_abs (hinv : Inv max hash s) (d : Nat) :
    listingOf specImpl (absFS s) d = listingOf (concImpl hash max) s d := by
  simp only [listingOf, absFS_ents, nodeName_abs, nodeSize_abs hinv]

theorem getHandle_abs (s : CFS) (h : Nat) : getHandle (absFS s) h = (getHandle s h).map absH := by
  simp only [getHandle, absFS_handles, absHandles, List.find?_map, Option.map_map]
  rfl

theorem setHandle_abs (s : CFS) (h : Nat) (hd : Handle Ptr) :
    absFS (setHandle s h hd) = setHandle (absFS s) h (absH hd) := by
  simp only [setHandle, absFS, absHandles, List.map_append, List.map_cons, List.map_nil, List.filter_map]
  rfl

theorem setFile_abs (s : CFS) (f : Nat) (c : FileNode) :
    absFS (setFile s f c) = setFile (absFS s) f (abs s.world c) := by
  simp only [setFile, absFS_files, absFiles_get]
  cases hf : s.files[f]? with
  | none => rfl
  | some nf =>
    simp only [Option.map_some]
    simp only [absFS, absFiles, List.map_set]

theorem addNode_abs (s : CFS) (d : Nat) (name : String) (isDir : Bool) :
    absFS (addNode (concImpl hash max) s d name isDir).1 = (addNode specImpl (absFS s) d name isDir).1 ∧
    (addNode (concImpl hash max) s d name isDir).2 = (addNode specImpl (absFS s) d name isDir).2 := by
  cases isDir with
  | true => exact ⟨rfl, rfl⟩
  | false =>
    refine ⟨?_, ?_⟩
    · simp [addNode, absFS, absFiles, concImpl, specImpl, abs, absSegs, FileNode.empty]
    · simp [addNode, absFS, absFiles]

/-! ### invariant preservation for the primitives -/

theorem EntsOK.erase {ents : List ((Nat × String) × Node)} {n : Nat} (h : EntsOK ents n) (d : Nat) (name : String) :
    EntsOK (eraseEnt ents d name) n :=
  fun e he => h e (List.mem_filter.mp he).1

theorem EntsOK.set {ents : List ((Nat × String) × Node)} {n : Nat} (h : EntsOK ents n) (d : Nat) (name : String)
    (nd : Node) (hn : ∀ f, nd = Node.file f → f < n) : EntsOK (setEnt ents d name nd) n := by
  intro e he
  rcases List.mem_append.mp he with h1 | h1
  · exact h.erase d name e h1
  · simp only [List.mem_cons, List.not_mem_nil, or_false] at h1
    rw [h1]; exact hn

theorem EntsOK.mono {ents : List ((Nat × String) × Node)} {n m : Nat} (h : EntsOK ents n) (hle : n ≤ m) :
    EntsOK ents m := fun e he f hf => Nat.lt_of_lt_of_le (h e he f hf) hle

theorem child_mem {ents : List ((Nat × String) × Node)} {d : Nat} {name : String} {n : Node}
    (h : child ents d name = some n) : ∃ e ∈ ents, e.2 = n := by
  unfold child at h
  cases hf : ents.find? (fun e => e.1 == (d, name)) with
  | none => rw [hf] at h; cases h
  | some e =>
    rw [hf] at h
    simp only [Option.map_some, Option.some.injEq] at h
    exact ⟨e, List.mem_of_find?_eq_some hf, h⟩

theorem Inv.setHandle {s : CFS} (hinv : Inv max hash s) (h : Nat) (hd : Handle Ptr)
    (hp : ∀ f, hd.node = Node.file f → ∃ nf, s.files[f]? = some nf ∧ PtrOK nf.2 hd.ptr) :
    Inv max hash (setHandle s h hd) := by
  refine ⟨hinv.ok, hinv.files, ?_, hinv.ents⟩
  intro e he
  simp only [ArvVerif.C08.setHandle, List.mem_append, List.mem_filter, List.mem_cons, List.not_mem_nil, or_false] at he
  rcases he with ⟨he, _⟩ | he
  · exact hinv.handles e he
  · rw [he]; exact hp

theorem Inv.closeHandle {s : CFS} (hinv : Inv max hash s) (h : Nat) :
    Inv max hash { s with handles := s.handles.filter (fun e => !(e.1 == h)) } := by
  refine ⟨hinv.ok, hinv.files, ?_, hinv.ents⟩
  intro e he
  exact hinv.handles e (List.mem_filter.mp he).1

theorem ptr0_ok (fn : FileNode) (hwf : WF max hash st fn) (hrep : 0 ≤ fn.repacked) : PtrOK fn Ptr.zero := by
  refine ⟨hrep, fun h => ?_⟩
  by_cases hsz : fn.size = 0
  · exact Or.inl (by show 0 ≥ fn.size; omega)
  · right
    cases hsegs : fn.segs with
    | nil => have := hwf.size_eq; rw [hsegs] at this; simp at this; omega
    | cons s rest => exact ⟨s, rfl, Nat.zero_le _, rfl⟩

/-- Replacing file `f`'s content by one that is well-formed and for which every pointer valid for
the old content is still valid. -/
theorem Inv.setFile {s : CFS} (hinv : Inv max hash s) (f : Nat) (c : FileNode)
    (hwf : WF max hash s.world c) (hrep : 0 ≤ c.repacked)
    (hptr : ∀ nf, s.files[f]? = some nf → ∀ q, PtrOK nf.2 q → PtrOK c q) :
    Inv max hash (setFile s f c) := by
  unfold ArvVerif.C08.setFile
  cases hf : s.files[f]? with
  | none => exact hinv
  | some nf0 =>
    simp only []
    refine ⟨hinv.ok, ?_, ?_, by simp only [List.length_set]; exact hinv.ents⟩
    · intro nf hnf
      rcases List.mem_or_eq_of_mem_set hnf with h | h
      · exact hinv.files nf h
      · rw [h]; exact ⟨hwf, hrep⟩
    · intro e he f' hnode
      obtain ⟨nf, hnf, hp⟩ := hinv.handles e he f' hnode
      by_cases hff : f = f'
      · subst hff
        have hlt : f < s.files.length := by
          apply Classical.byContradiction; intro hn
          rw [List.getElem?_eq_none (by omega)] at hf; cases hf
        refine ⟨(nf0.1, c), by rw [List.getElem?_set_self hlt], ?_⟩
        rw [hf] at hnf; cases hnf
        exact hptr nf0 hf _ hp
      · exact ⟨nf, by rw [List.getElem?_set_ne hff]; exact hnf, hp⟩

end ArvVerif.C08
