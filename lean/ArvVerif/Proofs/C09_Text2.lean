/-
C09 helper lemmas, part 6: lines and texts. The stream line `marshalManifest` writes for a directory
parses (under the published grammar) to exactly the stream the builder computed; the marker line of an
empty directory parses to its marker; the whole text parses to the lines of the tree.
-/
import ArvVerif.Proofs.C09_Text1
import ArvVerif.Proofs.C09_Emit
namespace ArvVerif.C09

open ArvVerif.C08 (Seg FileNode Store SegWF)
open ArvVerif.C10 (bSpace bNL bSlash bColon bPlus bBackslash bDot isDigit natToDec natOfDigits
  splitOn joinWith fsEscape specUnescape tokenBytesOk specLocator specLocators specFileTok mapOpt)

variable {max : Nat} {hash : Bytes → C08.Loc}

/-! ### locator tokens -/

def okChar (c : UInt8) : Bool :=
  !(C10.isLowerHex c || C10.isHintChar c || c == bPlus) || (decide (33 ≤ c) && c != 127)

set_option maxRecDepth 100000 in
theorem okChar_all : ∀ n : Fin 256, okChar (UInt8.ofNat n.val) = true := by decide

theorem okChar_ok (c : UInt8) : okChar c = true := by
  have := okChar_all ⟨c.toNat, c.toNat_lt⟩
  simpa using this

theorem locator_token (t : Bytes) (l : C10.Loc) (h : specLocator t = some l) :
    tokenBytesOk t = true ∧ bSpace ∉ t ∧ bNL ∉ t := by
  unfold specLocator at h
  cases hd : C10.locatorSizeDigits C10.isLowerHex t with
  | none => rw [hd] at h; cases h
  | some ds =>
    obtain ⟨hs, tl, ht, hlen, hall, hdne, hdig, htl⟩ := C10.locatorSizeDigits_shape C10.isLowerHex t ds hd
    have hcls : ∀ c ∈ t, (C10.isLowerHex c || C10.isHintChar c || c == bPlus) = true := by
      intro c hc
      rw [ht] at hc
      simp only [List.mem_append, List.mem_cons] at hc
      rcases hc with hc | rfl | hc | hc
      · simp [List.all_eq_true.mp hall c hc]
      · simp
      · have := List.all_eq_true.mp hdig c hc
        simp [C10.isLowerHex, this]
      · rcases htl with rfl | ⟨hh, _⟩
        · cases hc
        · rcases C10.hintsOk_chars tl false false hh c hc with rfl | h'
          · simp
          · simp [h']
    have hok : ∀ c ∈ t, 33 ≤ c ∧ c ≠ 127 := by
      intro c hc
      have := okChar_ok c
      unfold okChar at this
      rw [hcls c hc] at this
      simpa using this
    refine ⟨?_, fun hc => ?_, fun hc => ?_⟩
    · unfold tokenBytesOk
      simp only [Bool.and_eq_true, bne_iff_ne, ne_eq, List.all_eq_true, decide_eq_true_eq]
      refine ⟨?_, fun c hc => hok c hc⟩
      rw [ht]; intro he
      have := congrArg List.length he
      simp at this
    · have := (hok _ hc).1; revert this; decide
    · have := (hok _ hc).1; revert this; decide

theorem emptyLoc_ok : specLocator emptyLoc = some ⟨emptyLoc, 0⟩ := by decide +kernel

theorem markerTok_not_file : specFileTok markerTok = none := by decide +kernel
theorem markerTok_not_loc : specLocator markerTok = none := by decide +kernel
theorem markerTok_token : tokenBytesOk markerTok = true ∧ bSpace ∉ markerTok ∧ bNL ∉ markerTok := by decide +kernel

/-! ### the token list of a line -/

theorem specLocators_blocks : ∀ (blocks : List C10.Loc) (ftoks : List Bytes),
    (∀ b ∈ blocks, specLocator b.text = some b) → (∀ t rest, ftoks = t :: rest → specLocator t = none) →
    specLocators (blocks.map (·.text) ++ ftoks) = (blocks, ftoks)
  | [], [], _, _ => rfl
  | [], t :: rest, _, h => by
    simp only [List.map_nil, List.nil_append]
    unfold specLocators
    rw [h t rest rfl]
  | b :: bs, ftoks, h1, h2 => by
    simp only [List.map_cons, List.cons_append]
    unfold specLocators
    rw [h1 b (by simp), specLocators_blocks bs ftoks (fun x hx => h1 x (List.mem_cons_of_mem _ hx)) h2]

theorem fileTok_not_locator (t : Bytes) (f : C10.FTok) (h : specFileTok t = some f) : specLocator t = none := by
  cases hl : specLocator t with
  | none => rfl
  | some l =>
    obtain ⟨ds, hg, _⟩ := C10.specLocator_go t l hl
    have := C10.fileTok_not_goLocator t f h
    unfold C10.isGoLocator at this
    rw [hg] at this
    cases this

theorem mapOpt_tokText : ∀ (parts : List Part), (∀ p ∈ parts, NameOK p.name) →
    mapOpt specFileTok (parts.map tokText) = some (parts.map fun p => ⟨p.off, p.len, p.name⟩)
  | [], _ => rfl
  | p :: ps, h => by
    simp only [List.map_cons]
    unfold mapOpt
    rw [specFileTok_tokText p (h p (by simp)), mapOpt_tokText ps (fun x hx => h x (List.mem_cons_of_mem _ hx))]

/-- a directory path made of proper names -/
def PathOK (path : List Bytes) : Prop := ∀ c ∈ path, NameOK c ∧ (127 : UInt8) ∉ c

theorem prefixOf_spec (path : List Bytes) (h : PathOK path) :
    C10.specStreamNameOk (prefixOf path) = true ∧ prefixOf path ≠ [] ∧ (127 : UInt8) ∉ prefixOf path ∧
    splitOn bSlash (prefixOf path) = [bDot] :: path := by
  have hsplit : splitOn bSlash (prefixOf path) = [bDot] :: path := by
    unfold prefixOf
    apply C10.splitOn_joinWith bSlash _ (by simp)
    intro p hp
    rcases List.mem_cons.mp hp with rfl | hp
    · decide
    · exact (h p hp).1.2.2.2
  refine ⟨?_, ?_, ?_, hsplit⟩
  · unfold C10.specStreamNameOk
    rw [hsplit]
    simp only [beq_self_eq_true, Bool.true_and]
    unfold C10.componentsOk
    rw [List.all_eq_true]
    intro c hc
    obtain ⟨⟨h1, h2, h3, _⟩, _⟩ := h c hc
    simp [h1, h2, h3]
  · intro he
    have := congrArg (splitOn bSlash) he
    rw [hsplit] at this
    simp [splitOn] at this
  · intro hmem
    -- a byte of the joined path is '/', '.' or a byte of a component
    have hj : ∀ (ps : List Bytes) (x : UInt8), x ∈ joinWith bSlash ps → x = bSlash ∨ ∃ p ∈ ps, x ∈ p := by
      intro ps
      induction ps with
      | nil => intro x hx; simp [joinWith] at hx
      | cons p rest ih =>
        intro x hx
        cases rest with
        | nil => simp only [joinWith] at hx; exact Or.inr ⟨p, by simp, hx⟩
        | cons q r =>
          simp only [joinWith, List.mem_append, List.mem_cons] at hx
          rcases hx with hx | rfl | hx
          · exact Or.inr ⟨p, by simp, hx⟩
          · exact Or.inl rfl
          · rcases ih x hx with h' | ⟨p', hp', hx'⟩
            · exact Or.inl h'
            · exact Or.inr ⟨p', by simp [hp'], hx'⟩
    rcases hj _ _ hmem with h' | ⟨p, hp, hx⟩
    · revert h'; decide
    · rcases List.mem_cons.mp hp with rfl | hp
      · revert hx; decide
      · exact (h p hp).2 hx

/-- **the stream line**: tokens as written parse back to the stream -/
theorem specLine_stream (path : List Bytes) (blocks : List C10.Loc) (parts : List Part)
    (hpath : PathOK path) (hb : ∀ b ∈ blocks, specLocator b.text = some b) (hbne : blocks ≠ [])
    (hp : ∀ p ∈ parts, NameOK p.name ∧ (127 : UInt8) ∉ p.name) (hpne : parts ≠ [])
    (hin : ∀ p ∈ parts, p.off + p.len ≤ C10.streamLen blocks) :
    C10.specLine (joinWith bSpace (fsEscape (prefixOf path) :: (blocks.map (·.text) ++ parts.map tokText))) =
      some ⟨prefixOf path, blocks, parts.map fun p => ⟨p.off, p.len, p.name⟩⟩ ∧
    bNL ∉ joinWith bSpace (fsEscape (prefixOf path) :: (blocks.map (·.text) ++ parts.map tokText)) := by
  obtain ⟨hname, hpne', hpdel, _⟩ := prefixOf_spec path hpath
  obtain ⟨n1, _, n3, n4⟩ := fsEscape_token (prefixOf path) hpne' hpdel
  -- every token is legal and free of delimiters
  have htoks : ∀ t ∈ fsEscape (prefixOf path) :: (blocks.map (·.text) ++ parts.map tokText),
      tokenBytesOk t = true ∧ bSpace ∉ t ∧ bNL ∉ t := by
    intro t ht
    rcases List.mem_cons.mp ht with rfl | ht
    · exact ⟨n1, n3, n4⟩
    · rcases List.mem_append.mp ht with ht | ht
      · obtain ⟨b, hb', rfl⟩ := List.mem_map.mp ht
        exact locator_token _ _ (hb b hb')
      · obtain ⟨p, hp', rfl⟩ := List.mem_map.mp ht
        exact tokText_token p (hp p hp').1 (hp p hp').2
  have hsplit : splitOn bSpace (joinWith bSpace (fsEscape (prefixOf path) :: (blocks.map (·.text) ++ parts.map tokText))) =
      fsEscape (prefixOf path) :: (blocks.map (·.text) ++ parts.map tokText) :=
    C10.splitOn_joinWith bSpace _ (by simp) (fun t ht => (htoks t ht).2.1)
  constructor
  · unfold C10.specLine
    simp only [hsplit]
    rw [if_pos (List.all_eq_true.mpr fun t ht => (htoks t ht).1)]
    have hu : specUnescape (fsEscape (prefixOf path)) = some (prefixOf path) :=
      C10.specUnescape_escapeWith C10.fsEscapePred (by decide) (prefixOf path)
    simp only [hu]
    rw [if_pos hname]
    have hfirst : ∀ t rest, parts.map tokText = t :: rest → specLocator t = none := by
      intro t rest hh
      cases parts with
      | nil => cases hh
      | cons p ps =>
        simp only [List.map_cons, List.cons.injEq] at hh
        rw [← hh.1]
        exact fileTok_not_locator _ _ (specFileTok_tokText p (hp p (by simp)).1)
    rw [specLocators_blocks blocks (parts.map tokText) hb hfirst]
    simp only []
    rw [mapOpt_tokText parts (fun p hp' => (hp p hp').1)]
    simp only []
    rw [if_pos ⟨hbne, by simpa using hpne, by
      rw [List.all_eq_true]
      intro f hf
      obtain ⟨p, hp', rfl⟩ := List.mem_map.mp hf
      simpa using hin p hp'⟩]
  · intro hnl
    -- a byte of the joined line is ' ' or a byte of a token
    have hj : ∀ (ps : List Bytes) (x : UInt8), x ∈ joinWith bSpace ps → x = bSpace ∨ ∃ p ∈ ps, x ∈ p := by
      intro ps
      induction ps with
      | nil => intro x hx; simp [joinWith] at hx
      | cons p rest ih =>
        intro x hx
        cases rest with
        | nil => simp only [joinWith] at hx; exact Or.inr ⟨p, by simp, hx⟩
        | cons q r =>
          simp only [joinWith, List.mem_append, List.mem_cons] at hx
          rcases hx with hx | rfl | hx
          · exact Or.inr ⟨p, by simp, hx⟩
          · exact Or.inl rfl
          · rcases ih x hx with h' | ⟨p', hp', hx'⟩
            · exact Or.inl h'
            · exact Or.inr ⟨p', by simp [hp'], hx'⟩
    rcases hj _ _ hnl with h' | ⟨t, ht, hx⟩
    · revert h'; decide
    · exact (htoks t ht).2.2 hx

/-- **the marker line** is outside `C10.specLine` (a file named ".") and is the marker of its directory -/
theorem specLine9_marker (path : List Bytes) (hpath : PathOK path) (hne : path ≠ []) :
    specLine9 (joinWith bSpace [fsEscape (prefixOf path), emptyLoc, markerTok]) = some (Line9.marker (prefixOf path)) ∧
    bNL ∉ joinWith bSpace [fsEscape (prefixOf path), emptyLoc, markerTok] := by
  obtain ⟨hname, hpne', hpdel, hsp⟩ := prefixOf_spec path hpath
  obtain ⟨n1, _, n3, n4⟩ := fsEscape_token (prefixOf path) hpne' hpdel
  obtain ⟨e1, e2, e3⟩ := locator_token _ _ emptyLoc_ok
  obtain ⟨m1, m2, m3⟩ := markerTok_token
  have hsplit : splitOn bSpace (joinWith bSpace [fsEscape (prefixOf path), emptyLoc, markerTok]) =
      [fsEscape (prefixOf path), emptyLoc, markerTok] :=
    C10.splitOn_joinWith bSpace _ (by simp) (by
      intro t ht
      simp only [List.mem_cons, List.not_mem_nil, or_false] at ht
      rcases ht with rfl | rfl | rfl
      · exact n3
      · exact e2
      · exact m2)
  have hu : specUnescape (fsEscape (prefixOf path)) = some (prefixOf path) :=
    C10.specUnescape_escapeWith C10.fsEscapePred (by decide) (prefixOf path)
  constructor
  · unfold specLine9
    have hspec : C10.specLine (joinWith bSpace [fsEscape (prefixOf path), emptyLoc, markerTok]) = none := by
      unfold C10.specLine
      simp only [hsplit]
      rw [if_pos (by simp [n1, e1, m1])]
      simp only [hu]
      rw [if_pos hname]
      have : specLocators [emptyLoc, markerTok] = ([⟨emptyLoc, 0⟩], [markerTok]) := by
        have := specLocators_blocks [⟨emptyLoc, 0⟩] [markerTok] (by simp [emptyLoc_ok])
          (by intro t rest h; simp at h; rw [← h.1]; exact markerTok_not_loc)
        simpa using this
      rw [this]
      simp only [mapOpt, markerTok_not_file]
    rw [hspec]
    simp only []
    unfold markerLine?
    simp only [hsplit, n1, and_self, if_true, hu]
    rw [if_pos ⟨hname, by
      intro he
      have := congrArg (splitOn bSlash) he
      rw [hsp] at this
      cases path with
      | nil => exact hne rfl
      | cons a b =>
        have h2 : splitOn bSlash [bDot] = [[bDot]] := by decide
        rw [h2] at this
        simp at this⟩]
    rfl
  · intro hnl
    simp only [joinWith, List.mem_append, List.mem_cons] at hnl
    rcases hnl with h | h | h | h | h
    · exact n4 h
    · revert h; decide
    · exact e3 h
    · revert h; decide
    · exact m3 h

/-! ### texts -/

/-- the text made of the given lines, each terminated by a newline -/
def unlines (ls : List Bytes) : Bytes := ls.flatMap (· ++ [bNL])

theorem splitOn_unlines : ∀ (ls : List Bytes), (∀ l ∈ ls, bNL ∉ l) → splitOn bNL (unlines ls) = ls ++ [[]]
  | [], _ => rfl
  | l :: rest, h => by
    simp only [unlines, List.flatMap_cons, List.append_assoc, List.singleton_append]
    rw [C10.splitOn_append_sep bNL l _ (h l (by simp))]
    have := splitOn_unlines rest (fun x hx => h x (List.mem_cons_of_mem _ hx))
    unfold unlines at this
    rw [this]; rfl

theorem parse9_unlines (ls : List Bytes) (h : ∀ l ∈ ls, bNL ∉ l) : parse9 (unlines ls) = mapOpt specLine9 ls := by
  unfold parse9
  by_cases he : unlines ls = []
  · rw [if_pos he]
    cases ls with
    | nil => rfl
    | cons l rest => simp [unlines] at he
  · rw [if_neg he]
    simp only [splitOn_unlines ls h]
    rw [if_pos (by simp)]
    simp

theorem mapOpt_append {α β : Type} (f : α → Option β) : ∀ (a b : List α) (ra rb : List β),
    mapOpt f a = some ra → mapOpt f b = some rb → mapOpt f (a ++ b) = some (ra ++ rb)
  | [], b, ra, rb, h1, h2 => by simp [mapOpt] at h1; subst h1; simpa using h2
  | x :: a, b, ra, rb, h1, h2 => by
    obtain ⟨y, ys, e1, e2, rfl⟩ := C10.mapOpt_cons_some f x a ra h1
    simp only [List.cons_append]
    unfold mapOpt
    rw [e1, mapOpt_append f a b ys rb e2 h2]

end ArvVerif.C09
