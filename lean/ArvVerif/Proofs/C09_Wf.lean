/-
C09 helper lemmas, part 22: a generic induction principle for `loadManifest` (`C10.fsLoad`) — a property of
the tree that `createFileAndParents` and `appendSegs` preserve holds for the tree of every accepted text —
and, with it, well-formedness of the loaded tree: file keys pairwise distinct, directories pairwise
distinct, no path both file and directory, proper components, every directory listed after its parent.
-/
import ArvVerif.Proofs.C09_Cover
namespace ArvVerif.C09

open ArvVerif.C10 (bSpace bNL bSlash bColon bDot splitOn joinWith FsTree FsLine walkParents createFileAndParents
  appendSegs fsToken fsTokens fsLine fsLines Created)

section Generic
variable (P : FsTree → Prop)
  (hcreate : ∀ path t res t', createFileAndParents path t = (res, t') → P t → P t')
  (happ : ∀ t p segs, P t → P (appendSegs t p segs))
include hcreate happ

theorem fsToken_gen (tok : Bytes) (st st' : FsLine) (t t' : FsTree) (h : fsToken tok st t = some (st', t'))
    (hp : P t) : P t' := by
  unfold fsToken at h
  by_cases hcol : ¬ tok.contains bColon = true
  · rw [if_pos hcol] at h
    split at h
    · cases h
    · split at h
      · simp only [Option.some.injEq, Prod.mk.injEq] at h
        obtain ⟨_, rfl⟩ := h
        exact hp
      · cases h
  · rw [if_neg hcol] at h
    split at h
    · cases h
    · split at h
      · next o l nm hsplit =>
        simp only [] at h
        cases ho : C10.parseIntBits 64 o with
        | none => rw [ho] at h; cases h
        | some offset =>
          cases hl : C10.parseIntBits 64 l with
          | none => rw [ho, hl] at h; cases h
          | some length =>
            rw [ho, hl] at h
            simp only [] at h
            split at h
            · cases h
            · cases hcf : createFileAndParents (st.dirname ++ bSlash :: C10.fsUnescape nm) t with
              | mk res ta =>
                rw [hcf] at h
                have c1 := hcreate _ t res ta hcf hp
                cases res with
                | error => simp only [] at h; cases h
                | marker =>
                  simp only [] at h
                  split at h
                  · simp only [Option.some.injEq, Prod.mk.injEq] at h
                    obtain ⟨_, rfl⟩ := h
                    exact c1
                  · cases h
                | file p =>
                  simp only [] at h
                  have key : ∀ (t' : FsTree),
                      (match (if st.pos > offset then ((0 : Nat), (0 : Int)) else (st.segIdx, st.pos)) with
                       | (idx0, pos0) =>
                         match C10.fsLoop offset (C10.addI64 offset length) (st.segments.drop idx0) idx0 pos0 [] with
                         | (idx, pos, segs) =>
                           if idx = st.segments.length ∧ pos < C10.addI64 offset length then none
                           else some (({ st with anyFile := true, segIdx := idx, pos := pos } : FsLine), appendSegs t' p segs)) =
                      (fileStep { st with anyFile := true } offset length).map (fun r => (r.1, appendSegs t' p r.2)) := by
                    intro t'
                    unfold fileStep
                    simp only []
                    split <;> (split <;> simp_all)
                  have k1 := key ta
                  simp only [] at k1
                  rw [k1] at h
                  cases hfs : fileStep { st with anyFile := true } offset length with
                  | none => rw [hfs] at h; cases h
                  | some r =>
                    rw [hfs] at h
                    simp only [Option.map_some, Option.some.injEq, Prod.mk.injEq] at h
                    obtain ⟨_, rfl⟩ := h
                    exact happ _ _ _ c1
      · cases h

theorem fsTokens_gen : ∀ (toks : List Bytes) (st st' : FsLine) (t t' : FsTree), fsTokens toks st t = some (st', t') →
    P t → P t'
  | [], st, st', t, t', h, hp => by
    simp only [fsTokens, Option.some.injEq, Prod.mk.injEq] at h
    obtain ⟨_, rfl⟩ := h
    exact hp
  | tok :: rest, st, st', t, t', h, hp => by
    unfold fsTokens at h
    cases h1 : fsToken tok st t with
    | none => rw [h1] at h; cases h
    | some r =>
      obtain ⟨sta, ta⟩ := r
      rw [h1] at h
      simp only [] at h
      exact fsTokens_gen rest sta st' ta t' h (fsToken_gen P hcreate happ tok st sta t ta h1 hp)

theorem fsLine_gen (line : Bytes) (t t' : FsTree) (h : fsLine line t = some t') (hp : P t) : P t' := by
  unfold fsLine at h
  split at h
  · cases h
  · next nm toks hsplit =>
    cases h1 : fsTokens toks ⟨C10.fsUnescape nm, [], false, 0, 0⟩ t with
    | none => rw [h1] at h; cases h
    | some r =>
      obtain ⟨st', ta⟩ := r
      rw [h1] at h
      simp only [] at h
      split at h
      · cases h
      · simp only [Option.some.injEq] at h
        subst h
        exact fsTokens_gen P hcreate happ toks _ st' t ta h1 hp

theorem fsLines_gen : ∀ (ls : List Bytes) (t t' : FsTree), fsLines ls t = some t' → P t → P t'
  | [], t, t', h, hp => by simp only [fsLines, Option.some.injEq] at h; rw [← h]; exact hp
  | l :: ls, t, t', h, hp => by
    unfold fsLines at h
    cases h1 : fsLine l t with
    | none => rw [h1] at h; cases h
    | some ta =>
      rw [h1] at h
      simp only [] at h
      exact fsLines_gen ls ta t' h (fsLine_gen P hcreate happ l t ta h1 hp)

/-- **induction principle for `loadManifest`** -/
theorem fsLoad_gen (h0 : P ⟨[], []⟩) (txt : Bytes) (tr : FsTree) (h : C10.fsLoad txt = some tr) : P tr := by
  unfold C10.fsLoad at h
  simp only [] at h
  split at h
  · cases h
  · exact fsLines_gen P hcreate happ _ _ tr h h0

end Generic

/-! ## well-formedness of the loaded tree -/

/-- every directory is listed after its parent (the root is not listed) -/
inductive ParentFirst : List (List Bytes) → Prop
  | nil : ParentFirst []
  | snoc (ds : List (List Bytes)) (d : List Bytes) : ParentFirst ds → (d.dropLast = [] ∨ d.dropLast ∈ ds) →
      ParentFirst (ds ++ [d])

structure FsWf (t : FsTree) : Prop where
  keysNodup : (keysOf t).Nodup
  dirsNodup : t.dirs.Nodup
  disjoint : ∀ k ∈ keysOf t, k ∉ t.dirs
  dirComps : ∀ d ∈ t.dirs, d ≠ [] ∧ ∀ c ∈ d, NameOK c
  keyComps : ∀ k ∈ keysOf t, k ≠ [] ∧ ∀ c ∈ k, NameOK c
  parentFirst : ParentFirst t.dirs

theorem walkParents_wf : ∀ (cs cur : List Bytes) (t t' : FsTree) (r : List Bytes),
    walkParents cs cur t = some (r, t') → (∀ c ∈ cs, bSlash ∉ c) → FsWf t → PrefCover cur t → (∀ c ∈ cur, NameOK c) →
    FsWf t' ∧ (∀ c ∈ r, NameOK c)
  | [], cur, t, t', r, h, _, hw, _, hcur => by
    simp only [walkParents, Option.some.injEq, Prod.mk.injEq] at h
    obtain ⟨rfl, rfl⟩ := h
    exact ⟨hw, hcur⟩
  | n :: rest, cur, t, t', r, h, hns, hw, hc, hcur => by
    have hns' : ∀ c ∈ rest, bSlash ∉ c := fun c hc' => hns c (List.mem_cons_of_mem _ hc')
    unfold walkParents at h
    by_cases h1 : n = [] ∨ n = [bDot]
    · rw [if_pos h1] at h
      exact walkParents_wf rest cur t t' r h hns' hw hc hcur
    · rw [if_neg h1] at h
      by_cases h2 : n = [bDot, bDot]
      · rw [if_pos h2] at h
        by_cases h3 : cur = []
        · rw [if_pos h3] at h; cases h
        · rw [if_neg h3] at h
          exact walkParents_wf rest cur.dropLast t t' r h hns' hw
            (fun pre p1 p2 => hc pre p1 (p2.trans (List.dropLast_prefix cur)))
            (fun c hc' => hcur c ((List.dropLast_sublist cur).subset hc'))
      · rw [if_neg h2] at h
        simp only [] at h
        have hn : NameOK n := ⟨fun e => h1 (Or.inl e), fun e => h1 (Or.inr e), h2, hns n (by simp)⟩
        have hchild : ∀ c ∈ cur ++ [n], NameOK c := by
          intro c hc'
          rcases List.mem_append.mp hc' with hc' | hc'
          · exact hcur c hc'
          · simp at hc'; subst hc'; exact hn
        by_cases h3 : t.files.any (·.1 = cur ++ [n]) = true
        · rw [if_pos h3] at h; cases h
        · rw [if_neg h3] at h
          have hnokey : ∀ k ∈ keysOf t, k ≠ cur ++ [n] := by
            intro k hk
            obtain ⟨e, he, rfl⟩ := List.mem_map.mp hk
            exact (C10.any_key_false_iff t.files _).mp (Bool.eq_false_iff.mpr h3) e he
          by_cases hc1 : t.dirs.contains (cur ++ [n]) = true
          · rw [if_pos hc1] at h
            apply walkParents_wf rest _ t t' r h hns' hw _ hchild
            intro pre p1 p2
            rcases List.prefix_concat_iff.mp p2 with rfl | p2
            · exact List.contains_iff_mem.mp hc1
            · exact hc pre p1 p2
          · rw [if_neg hc1] at h
            have hnotdir : cur ++ [n] ∉ t.dirs := fun hm => hc1 (List.contains_iff_mem.mpr hm)
            apply walkParents_wf rest _ _ t' r h hns' _ _ hchild
            · refine ⟨hw.keysNodup, ?_, ?_, ?_, hw.keyComps, ?_⟩
              · show (t.dirs ++ [cur ++ [n]]).Nodup
                rw [List.nodup_append]
                refine ⟨hw.dirsNodup, by simp, ?_⟩
                intro a ha b hb
                simp only [List.mem_singleton] at hb
                subst hb
                intro e; subst e; exact hnotdir ha
              · intro k hk hm
                have hm' : k ∈ t.dirs ++ [cur ++ [n]] := hm
                rcases List.mem_append.mp hm' with hm' | hm'
                · exact hw.disjoint k hk hm'
                · simp at hm'; exact hnokey k hk hm'
              · intro d hd
                have hd' : d ∈ t.dirs ++ [cur ++ [n]] := hd
                rcases List.mem_append.mp hd' with hd' | hd'
                · exact hw.dirComps d hd'
                · simp at hd'; subst hd'; exact ⟨by simp, hchild⟩
              · show ParentFirst (t.dirs ++ [cur ++ [n]])
                apply ParentFirst.snoc _ _ hw.parentFirst
                rw [List.dropLast_concat]
                by_cases he : cur = []
                · exact Or.inl he
                · exact Or.inr (hc cur he (List.prefix_refl _))
            · intro pre p1 p2
              show pre ∈ t.dirs ++ [cur ++ [n]]
              rcases List.prefix_concat_iff.mp p2 with rfl | p2
              · simp
              · exact List.mem_append_left _ (hc pre p1 p2)

theorem getLastD_mem {α : Type} : ∀ (l : List α) (d : α), l ≠ [] → l.getLastD d ∈ l
  | [], _, h => absurd rfl h
  | [a], _, _ => by simp [List.getLastD]
  | a :: b :: rest, d, _ => by
    have := getLastD_mem (b :: rest) d (by simp)
    simp only [List.getLastD_cons] at this ⊢
    exact List.mem_cons_of_mem _ this

theorem createFile_wf (path : Bytes) (t t' : FsTree) (res : Created) (h : createFileAndParents path t = (res, t'))
    (hw : FsWf t) : FsWf t' := by
  unfold createFileAndParents at h
  simp only [] at h
  cases hwk : walkParents (splitOn bSlash path).dropLast [] t with
  | none =>
    rw [hwk] at h; simp only [Prod.mk.injEq] at h
    obtain ⟨_, rfl⟩ := h
    exact hw
  | some rt =>
    obtain ⟨cur, ta⟩ := rt
    rw [hwk] at h
    simp only [] at h
    have hfa := walkParents_files hwk
    have hns : ∀ c ∈ (splitOn bSlash path).dropLast, bSlash ∉ c := fun c hc =>
      C10.splitOn_no_sep bSlash path c ((List.dropLast_sublist _).subset hc)
    obtain ⟨hwa, hcur⟩ := walkParents_wf _ _ t ta cur hwk hns hw
      (fun pre p1 p2 => absurd (List.prefix_nil.mp p2) p1) (fun c hc => by cases hc)
    split at h
    · simp only [Prod.mk.injEq] at h; obtain ⟨_, rfl⟩ := h; exact hwa
    · next hb1 =>
      split at h
      · simp only [Prod.mk.injEq] at h; obtain ⟨_, rfl⟩ := h; exact hwa
      · next hb2 =>
        split at h
        · simp only [Prod.mk.injEq] at h; obtain ⟨_, rfl⟩ := h; exact hwa
        · next hnd =>
          split at h
          · simp only [Prod.mk.injEq] at h; obtain ⟨_, rfl⟩ := h; exact hwa
          · next hnf =>
            simp only [Prod.mk.injEq] at h; obtain ⟨_, rfl⟩ := h
            have hne : splitOn bSlash path ≠ [] := C10.splitOn_ne_nil bSlash path
            have hbase : NameOK ((splitOn bSlash path).getLastD []) :=
              ⟨fun e => hb2 (Or.inl e), hb1, fun e => hb2 (Or.inr e),
               C10.splitOn_no_sep bSlash path _ (getLastD_mem _ _ hne)⟩
            have hnotdir : cur ++ [(splitOn bSlash path).getLastD []] ∉ ta.dirs :=
              fun hm => hnd (List.contains_iff_mem.mpr hm)
            have hnokey : ∀ k ∈ keysOf ta, k ≠ cur ++ [(splitOn bSlash path).getLastD []] := by
              intro k hk
              obtain ⟨e, he, rfl⟩ := List.mem_map.mp hk
              exact (C10.any_key_false_iff ta.files _).mp (Bool.eq_false_iff.mpr hnf) e he
            have hkeys : keysOf { ta with files := ta.files ++ [(cur ++ [(splitOn bSlash path).getLastD []], [])] } =
                keysOf ta ++ [cur ++ [(splitOn bSlash path).getLastD []]] := by
              simp [keysOf]
            refine ⟨?_, hwa.dirsNodup, ?_, hwa.dirComps, ?_, hwa.parentFirst⟩
            · rw [hkeys, List.nodup_append]
              refine ⟨hwa.keysNodup, by simp, ?_⟩
              intro a ha b hb
              simp only [List.mem_singleton] at hb
              subst hb
              exact hnokey a ha
            · intro k hk
              rw [hkeys] at hk
              rcases List.mem_append.mp hk with hk | hk
              · exact hwa.disjoint k hk
              · rw [List.mem_singleton.mp hk]; exact hnotdir
            · intro k hk
              rw [hkeys] at hk
              rcases List.mem_append.mp hk with hk | hk
              · exact hwa.keyComps k hk
              · rw [List.mem_singleton.mp hk]
                refine ⟨by simp, ?_⟩
                intro c hc
                rcases List.mem_append.mp hc with hc | hc
                · exact hcur c hc
                · rw [List.mem_singleton.mp hc]; exact hbase

theorem appendSegs_wf (t : FsTree) (p : List Bytes) (segs : List C10.Seg) (hw : FsWf t) : FsWf (appendSegs t p segs) :=
  ⟨by rw [appendSegs_keys]; exact hw.keysNodup, hw.dirsNodup,
   fun k hk => hw.disjoint k (by rw [appendSegs_keys] at hk; exact hk), hw.dirComps,
   fun k hk => hw.keyComps k (by rw [appendSegs_keys] at hk; exact hk), hw.parentFirst⟩

/-- **the tree of every accepted text is well-formed** -/
theorem fsLoad_wf (txt : Bytes) (tr : FsTree) (h : C10.fsLoad txt = some tr) : FsWf tr :=
  fsLoad_gen FsWf (fun path t res t' hc hw => createFile_wf path t t' res hc hw) appendSegs_wf
    ⟨List.nodup_nil, List.nodup_nil, fun k hk => (by cases hk), fun d hd => (by cases hd), fun k hk => (by cases hk),
     ParentFirst.nil⟩ txt tr h

end ArvVerif.C09
