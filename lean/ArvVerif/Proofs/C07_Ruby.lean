/-
C07 helper lemmas, part 9: blob.rb `verify_signature!` (transcription in Model/C07_Ruby.lean) on
the strings it can parse: Ruby's nested `split`s recover hash, signature and timestamp of every
string of shape `RbShape` (of which Go's `IsSignedLocator` grammar is a special case), and the
verdict is a function of those three.
-/
import ArvVerif.Proofs.C07_Verify
import ArvVerif.Model.C07_Ruby
namespace ArvVerif.C07
open Ref

theorem dropTrailingEmpty_snoc (l : List Str) {x : Str} (hx : x ≠ []) :
    dropTrailingEmpty (l ++ [x]) = l ++ [x] := by
  cases x with
  | nil => exact absurd rfl hx
  | cons c cs => simp [dropTrailingEmpty, List.dropWhile]

theorem dropTrailingEmpty_cons_ne {x : Str} (l : List Str) (hx : x ≠ []) :
    (dropTrailingEmpty (x :: l)).head? = some x := by
  unfold dropTrailingEmpty
  have key : ∀ (r : List Str), ∃ m, (r ++ [x]).dropWhile List.isEmpty = m ++ [x] := by
    intro r
    induction r with
    | nil => cases x with
      | nil => exact absurd rfl hx
      | cons c cs => exact ⟨[], by simp [List.dropWhile]⟩
    | cons y r ih =>
      cases y with
      | nil => simpa [List.dropWhile] using ih
      | cons c cs => exact ⟨(c :: cs) :: r, by simp [List.dropWhile]⟩
  obtain ⟨m, hm⟩ := key l.reverse
  rw [List.reverse_cons, hm]
  simp

/-- no occurrence of `+A` -/
def noPA : Str → Bool
  | c :: d :: r => !(c == '+' && d == 'A') && noPA (d :: r)
  | _ => true

theorem splitOn2_ne_nil (s : Str) : splitOn2 '+' 'A' s ≠ [] := by
  fun_induction splitOn2 '+' 'A' s <;> simp_all

theorem splitOn2_noPA {s : Str} (h : noPA s = true) : splitOn2 '+' 'A' s = [s] := by
  fun_induction splitOn2 '+' 'A' s with
  | case1 => rfl
  | case2 => rfl
  | case3 c d r hm ih =>
    obtain ⟨rfl, rfl⟩ := hm
    simp [noPA] at h
  | case4 c d r hm f fs e ih =>
    simp only [noPA, Bool.and_eq_true] at h
    have := ih h.2
    rw [e] at this
    simp at this
    simp [this]
  | case5 c d r hm e ih => exact absurd e (splitOn2_ne_nil _)

theorem splitOn2_append {a : Str} (b : Str) (h : noPA a = true) (hl : a.getLast? ≠ some '+' ∨ True) :
    splitOn2 '+' 'A' (a ++ '+' :: 'A' :: b) = a :: splitOn2 '+' 'A' b := by
  induction a with
  | nil => simp [splitOn2]
  | cons c cs ih =>
    cases cs with
    | nil =>
      by_cases hc : c = '+'
      · subst hc; simp [splitOn2]
      · simp [splitOn2, hc]
    | cons d ds =>
      simp only [noPA, Bool.and_eq_true] at h
      have ih' := ih h.2 (Or.inr trivial)
      have hm : ¬ (c = '+' ∧ d = 'A') := by
        intro ⟨h1, h2⟩; subst h1; subst h2; simp at h
      simp only [List.cons_append] at ih' ⊢
      rw [splitOn2, if_neg hm, ih']

theorem noPA_free_append {h : Str} (t : Str) (hf : Free '+' h) : noPA (h ++ t) = noPA t := by
  induction h with
  | nil => rfl
  | cons c cs ih =>
    have hc : c ≠ '+' := hf c (List.mem_cons_self ..)
    have ih' := ih (fun d hd => hf d (List.mem_cons_of_mem _ hd))
    cases hct : cs ++ t with
    | nil =>
      have : t = [] := by cases cs <;> simp_all
      subst this
      simp [List.append_eq_nil_iff] at hct
      subst hct
      simp [noPA]
    | cons d r =>
      rw [List.cons_append, hct, noPA, ← hct, ih']
      simp [hc]

theorem noPA_hints {fs : List Str} (hfs : ∀ f ∈ fs, Free '+' f ∧ f.head? ≠ some 'A') :
    noPA (hints fs) = true := by
  induction fs with
  | nil => rfl
  | cons f fs ih =>
    have ih' := ih (fun g hg => hfs g (List.mem_cons_of_mem _ hg))
    obtain ⟨hf, hA⟩ := hfs f (List.mem_cons_self ..)
    rw [hints_cons]
    cases f with
    | nil =>
      simp only [List.append_nil, List.cons_append, List.nil_append]
      cases hh : hints fs with
      | nil => rfl
      | cons d r =>
        rw [noPA, ← hh, ih']
        -- hints start with '+'
        have : d = '+' := by
          cases fs with
          | nil => simp at hh
          | cons g gs => rw [hints_cons] at hh; simp at hh; exact hh.1.symm
        subst this; rfl
    | cons c cs =>
      have hcA : c ≠ 'A' := by simpa using hA
      simp only [List.cons_append]
      rw [noPA, ← List.cons_append, noPA_free_append _ hf, ih']
      simp [hcA]

/-- What `Blob.verify_signature!` actually relies on — much less than Go's grammar: a non-empty
first field, exactly one field starting with `A` (so exactly one `+A`), which has the form
`A<sig>@<ts>` with `sig`, `ts` free of `@` and `ts` non-empty. Nothing is required of the hash
(length, alphabet), of the other fields, or of the lengths of `sig` and `ts`. -/
def RbShape (s hash sig e : Str) : Prop :=
  ∃ (fs1 hs2 : List Str),
    s = hash ++ hints (fs1 ++ sigField sig e :: hs2) ∧
    hash ≠ [] ∧ Free '+' hash ∧
    (∀ f ∈ fs1, Free '+' f ∧ f.head? ≠ some 'A') ∧
    (∀ f ∈ hs2, Free '+' f ∧ f.head? ≠ some 'A') ∧
    Free '+' sig ∧ Free '@' sig ∧ Free '+' e ∧ Free '@' e ∧ e ≠ []

theorem head_ne_A_of_isOtherHint {f : Str} (h : isOtherHint f = true) : f.head? ≠ some 'A' := by
  cases f with
  | nil => simp
  | cons c cs =>
    simp only [isOtherHint, Bool.and_eq_true] at h
    intro hA; simp at hA; subst hA
    have := h.1; revert this; decide

theorem head_ne_A_of_isSizeField {f : Str} (h : isSizeField f = true) : f.head? ≠ some 'A' := by
  cases f with
  | nil => simp
  | cons c cs =>
    simp only [isSizeField, List.all_cons, Bool.and_eq_true] at h
    intro hA; simp at hA; subst hA
    have := h.2.1; revert this; decide

/-- Go's grammar is a special case of it. -/
theorem rbShape_of_isSignedLocator {s hash sig e : Str} (h : IsSignedLocator s hash sig e) :
    RbShape s hash sig e := by
  obtain ⟨size, hs1, hs2, rfl, hl, hx, hsize, hh1, sl, sx, el, ex, hh2⟩ := h
  refine ⟨size ++ hs1, hs2, rfl, ?_, free_of_all (fun _ h => ne_plus_of_isXDigit h) hx, ?_, ?_,
    free_of_all (fun _ h => ne_plus_of_isXDigit h) sx,
    fun c hc => ne_at_of_isXDigit (List.all_eq_true.mp sx c hc),
    free_of_all (fun _ h => ne_plus_of_isXDigit h) ex,
    fun c hc => ne_at_of_isXDigit (List.all_eq_true.mp ex c hc), ?_⟩
  · intro h0; rw [h0] at hl; simp at hl
  · intro f hf
    rcases List.mem_append.mp hf with hf | hf
    · rcases hsize with rfl | ⟨d, rfl, hd⟩
      · simp at hf
      · simp at hf; subst hf
        exact ⟨free_of_isSizeField hd, head_ne_A_of_isSizeField hd⟩
    · exact ⟨free_of_isOtherHint (hh1 f hf), head_ne_A_of_isOtherHint (hh1 f hf)⟩
  · intro f hf
    exact ⟨free_of_isOtherHint (hh2 f hf), head_ne_A_of_isOtherHint (hh2 f hf)⟩
  · intro h0; rw [h0] at el; simp at el

/-- The two-level split, as Ruby performs it. -/
theorem rb_parts_of_shape {s hash sig e : Str} (h : RbShape s hash sig e) :
    (rsplit1 '+' s).head? = some hash ∧
    ∃ hs2 : List Str, (rsplitPlusA s).getLast? = some (sig ++ '@' :: e ++ hints hs2) ∧
      (rsplit1 '+' (sig ++ '@' :: e ++ hints hs2)).head? = some (sig ++ '@' :: e) ∧
      rsplit1 '@' (sig ++ '@' :: e) = [sig, e] := by
  obtain ⟨fs1, hs2, rfl, hne_hash, hfree_hash, hfields, hfields2, sp, sa, ep, ea, hene⟩ := h
  have hfree_se : Free '+' (sig ++ '@' :: e) := by
    intro c hc
    rcases List.mem_append.mp hc with hc | hc
    · exact sp c hc
    · rcases List.mem_cons.mp hc with rfl | hc
      · decide
      · exact ep c hc
  have hne_se : sig ++ '@' :: e ≠ [] := by simp
  refine ⟨?_, hs2, ?_, ?_, ?_⟩
  · -- blob_hash
    have hall : ∀ f ∈ fs1 ++ sigField sig e :: hs2, Free '+' f := by
      intro f hf
      rcases List.mem_append.mp hf with hf | hf
      · exact (hfields f hf).1
      · rcases List.mem_cons.mp hf with rfl | hf
        · intro c hc
          rcases List.mem_cons.mp hc with rfl | hc
          · decide
          · exact hfree_se c hc
        · exact (hfields2 f hf).1
    unfold rsplit1
    rw [splitOn_hints hfree_hash hall]
    exact dropTrailingEmpty_cons_ne _ hne_hash
  · -- text after the last +A
    have hstr : hash ++ hints (fs1 ++ sigField sig e :: hs2) =
        (hash ++ hints fs1) ++ '+' :: 'A' :: (sig ++ '@' :: e ++ hints hs2) := by
      rw [hints_append, hints_cons]; simp [sigField, List.append_assoc]
    have hpre : noPA (hash ++ hints fs1) = true := by
      rw [noPA_free_append _ hfree_hash]; exact noPA_hints hfields
    have hpost : noPA (sig ++ '@' :: e ++ hints hs2) = true := by
      rw [noPA_free_append _ hfree_se]; exact noPA_hints hfields2
    unfold rsplitPlusA
    rw [hstr, splitOn2_append _ hpre (Or.inr trivial), splitOn2_noPA hpost]
    have hne : sig ++ '@' :: e ++ hints hs2 ≠ [] := by simp
    have := dropTrailingEmpty_snoc [hash ++ hints fs1] hne
    simp only [List.cons_append, List.nil_append] at this
    rw [this]; rfl
  · unfold rsplit1
    rw [splitOn_hints hfree_se (fun f hf => (hfields2 f hf).1)]
    exact dropTrailingEmpty_cons_ne _ hne_se
  · unfold rsplit1
    rw [splitOn_append_sep _ sa, splitOn_free ea]
    exact dropTrailingEmpty_snoc [sig] hene

theorem hexNat?_eq_toIDigits (s : Str) (acc : Nat) (h : ∀ c ∈ s, isXDigit c = true) :
    hexNat? s acc = some (toIDigits s acc) := by
  induction s generalizing acc with
  | nil => rfl
  | cons c cs ih =>
    have hc := h c (List.mem_cons_self ..)
    have : ∃ v, hexVal? c = some v := by
      cases hv : hexVal? c with
      | some v => exact ⟨v, rfl⟩
      | none =>
        exfalso
        simp only [hexVal?] at hv
        simp only [isXDigit, isLowerHex, Bool.or_eq_true, Bool.and_eq_true, decide_eq_true_eq] at hc
        split at hv
        · simp at hv
        · split at hv
          · simp at hv
          · split at hv
            · simp at hv
            · rename_i h1 h2 h3
              rcases hc with (hc | hc) | hc
              · exact h1 hc
              · exact h2 hc
              · exact h3 hc
    obtain ⟨v, hv⟩ := this
    have e1 : hexNat? (c :: cs) acc = hexNat? cs (acc * 16 + v) := by simp [hexNat?, hv]
    have e2 : toIDigits (c :: cs) acc = toIDigits cs (acc * 16 + v) := by
      conv => lhs; unfold toIDigits
      simp [hv]
    rw [e1, e2]
    exact ih _ (fun d hd => h d (List.mem_cons_of_mem _ hd))

theorem not_isRbSpace_of_isXDigit : ∀ c : Char, isXDigit c = true → isRbSpace c = false := by
  intro c h
  simp only [isXDigit, isLowerHex, isDigit, Bool.or_eq_true, Bool.and_eq_true, decide_eq_true_eq] at h
  simp only [isRbSpace, isSpace, Bool.or_eq_false_iff, beq_eq_false_iff_ne]
  have hn : 48 ≤ c.toNat := by
    rcases h with ((⟨h1, _⟩ | ⟨h1, _⟩) | ⟨h1, _⟩) <;>
      · have := Char.le_def.mp h1; simp [UInt32.le_iff_toNat_le] at this; omega
  refine ⟨⟨⟨⟨⟨?_, ?_⟩, ?_⟩, ?_⟩, ?_⟩, ?_⟩ <;> (intro e; subst e; revert hn; decide)

/-- `to_i(16)` on a non-empty run of hex digits is its value -/
theorem toI16_xdigits {e : Str} {t : Nat} (hne : e ≠ []) (hx : e.all isXDigit = true)
    (hv : hexNat? e 0 = some t) : toI16 e = (t : Int) := by
  have hall : ∀ c ∈ e, isXDigit c = true := List.all_eq_true.mp hx
  cases e with
  | nil => exact absurd rfl hne
  | cons c cs =>
    have hc := hall c (List.mem_cons_self ..)
    have hsp : (c :: cs).dropWhile isRbSpace = c :: cs := by
      simp [List.dropWhile, not_isRbSpace_of_isXDigit c hc]
    have hplus : c ≠ '+' := ne_plus_of_isXDigit hc
    have hminus : c ≠ '-' := ne_minus_of_isXDigit hc
    have hsign : splitSign (c :: cs) = (false, c :: cs) := by
      unfold splitSign
      split
      · rename_i h; simp at h; exact absurd h.1 hplus
      · rename_i h; simp at h; exact absurd h.1 hminus
      · rfl
    have hdig : (hexVal? c).isSome = true := by
      have := hexNat?_eq_toIDigits [c] 0 (by simpa using hc)
      simp only [hexNat?] at this
      cases h : hexVal? c with
      | some v => rfl
      | none => rw [h] at this; simp at this
    have hval := hexNat?_eq_toIDigits (c :: cs) 0 hall
    rw [hv] at hval
    have ht : toIDigits (c :: cs) 0 = t := (Option.some.inj hval).symm
    -- no 0x prefix: the second character is a hex digit
    have hpre : strip0x (c :: cs) = c :: cs := by
      unfold strip0x
      split
      · rename_i x r heq
        have hxm : isXDigit x = true := by
          have : x ∈ c :: cs := by rw [heq]; simp
          exact hall x this
        have : ¬ (x = 'x' ∨ x = 'X') := by
          rintro (rfl | rfl) <;> revert hxm <;> decide
        simp [this]
      · rfl
    unfold toI16
    simp only [hsp, hsign, Bool.false_eq_true, if_false]
    rw [hpre]
    simp [toINat, hdig, ht]

theorem matchesHexLine_xdigits {e : Str} (hne : e ≠ []) (hx : e.all isXDigit = true) :
    matchesHexLine e = e.all isLowerHex := by
  have hfree : Free '\n' e := by
    intro c hc e'; subst e'
    have := List.all_eq_true.mp hx _ hc
    revert this; decide
  unfold matchesHexLine
  rw [splitOn_free hfree]
  cases e with
  | nil => exact absurd rfl hne
  | cons c cs => simp

variable (mac : Str → Str → List UInt8)

/-- `Blob.verify_signature!` on any string of the shape it relies on, with a timestamp field of
hex digits (any number of them, either case). -/
theorem rb_verify_of_shape {s hash sig e : Str} (h : RbShape s hash sig e) (ex : e.all isXDigit = true)
    (tok key : Str) (ttlSecs : Nat) (nowSec : Int) :
    ∃ t : Nat, hexNat? e 0 = some t ∧
      Ref.verifySignature mac s tok key ttlSecs nowSec =
        if e.all isLowerHex = false then .notBase16
        else if (t : Int) < nowSec then .expired
        else if sig ≠ Ref.generateSignature mac key hash tok e (natHex ttlSecs) then .invalid
        else .ok := by
  obtain ⟨hh, hs2, h1, h2, h3⟩ := rb_parts_of_shape h
  have hene : e ≠ [] := h.choose_spec.choose_spec.2.2.2.2.2.2.2.2.2
  obtain ⟨t, hv⟩ : ∃ t, hexNat? e 0 = some t := ⟨_, hexNat?_eq_toIDigits e 0 (List.all_eq_true.mp ex)⟩
  refine ⟨t, hv, ?_⟩
  unfold Ref.verifySignature
  simp only [hh, h1, h2, h3, List.getElem?_cons_zero, List.getElem?_cons_succ, Option.getD_some]
  rw [matchesHexLine_xdigits hene ex, toI16_xdigits hene ex hv]
  cases hl : e.all isLowerHex with
  | false => simp
  | true =>
    simp only [Bool.not_true, Bool.false_eq_true, if_false]
    split
    · rfl
    · by_cases hsig : sig = Ref.generateSignature mac key hash tok e (natHex ttlSecs)
      · simp [hsig]
      · have : some (Ref.generateSignature mac key hash tok e (natHex ttlSecs)) ≠ some sig := by
          intro h'; exact hsig (Option.some.inj h').symm
        simp [hsig, this]

end ArvVerif.C07
