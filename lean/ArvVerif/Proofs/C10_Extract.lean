/-
C10 — `manifestTextForPath` / `Extract` at the level of streams: which streams and files are
selected, under which names they are relocated (the `/` boundary of the stream test), and what
`normalizedText` renders for each of them (block list of pass 1, span tokens of pass 2, whose bytes
are the file's bytes).
-/
import ArvVerif.Proofs.C10_Normalize
import ArvVerif.Proofs.C10_Marker
namespace ArvVerif.C10

/-! ## sorting keeps the elements -/

theorem mem_insertSorted (x a : Bytes) : ∀ l : List Bytes, x ∈ insertSorted a l ↔ x = a ∨ x ∈ l
  | [] => by simp [insertSorted]
  | y :: ys => by
    unfold insertSorted
    split
    · simp only [List.mem_cons, mem_insertSorted x a ys]
      constructor
      · rintro (h | h | h)
        · exact Or.inr (Or.inl h)
        · exact Or.inl h
        · exact Or.inr (Or.inr h)
      · rintro (h | h | h)
        · exact Or.inr (Or.inl h)
        · exact Or.inl h
        · exact Or.inr (Or.inr h)
    · simp only [List.mem_cons]

theorem mem_sortBytes (x : Bytes) : ∀ l : List Bytes, x ∈ sortBytes l ↔ x ∈ l
  | [] => by simp [sortBytes]
  | a :: l => by
    have ih := mem_sortBytes x l
    unfold sortBytes at ih ⊢
    rw [List.foldr_cons, mem_insertSorted, ih]
    simp

/-! ## the stream test: "is `src` or lies below it" -/

/-- `k == srcpath || strings.HasPrefix(k, srcpath+"/")` says exactly: the path components of
`srcpath` are a prefix of the path components of `k`. (The seeded change C10-c replaced it by a
plain string prefix, for which this fails: `./a` vs `./ab`.) -/
theorem selected_iff_components (src k : Bytes) :
    (k = src ∨ (src ++ [bSlash]).isPrefixOf k = true) ↔ splitOn bSlash src <+: splitOn bSlash k := by
  constructor
  · rintro (rfl | h)
    · exact List.prefix_refl _
    · rw [List.isPrefixOf_iff_prefix] at h
      obtain ⟨rest, rfl⟩ := h
      have : src ++ [bSlash] ++ rest = src ++ bSlash :: rest := by simp
      rw [this, splitOn_append_sep_gen]
      exact List.prefix_append _ _
  · rintro ⟨more, hm⟩
    have hk := joinWith_splitOn bSlash k
    have hs := joinWith_splitOn bSlash src
    by_cases he : more = []
    · subst he
      left
      rw [← hk, ← hm, List.append_nil, hs]
    · right
      rw [List.isPrefixOf_iff_prefix, ← hk, ← hm,
        joinWith_append bSlash _ more (splitOn_ne_nil _ _) he, hs]
      exact ⟨joinWith bSlash more, by simp⟩

/-! ## what `manifestTextForPath` selects -/

/-- the streams `manifestTextForPath` hands to `normalizedText`: (output stream name, its files) -/
def extractS (m : SegMap) (srcpath relocate : Bytes) : List (Bytes × List (Bytes × List Seg)) :=
  let src := fixStreamName srcpath
  let suffix : Bytes := if relocate.getLast? = some bSlash then [bSlash] else []
  let rel := fixStreamName relocate ++ suffix
  match m.find? (·.1 = ((splitPath src).1, (splitPath src).2)) with
  | some e =>
    let rf := if (splitPath rel).2 = [] then (splitPath src).2 else (splitPath rel).2
    [((splitPath rel).1, [(rf, e.2)])]
  | none =>
    let pre := src ++ [bSlash]
    let rel' := if rel.getLast? = some bSlash then rel.dropLast else rel
    (sortBytes (streamNames m)).filterMap fun k =>
      if pre.isPrefixOf k ∨ k = src then some (rel' ++ k.drop src.length, streamFiles m k) else none

theorem flatMap_filterMap_norm (l : List Bytes) (c : Bytes → Prop) [DecidablePred c]
    (f : Bytes → Bytes × List (Bytes × List Seg)) :
    (l.flatMap fun k => if c k then normalizedText (f k).1 (f k).2 else []) =
      (l.filterMap fun k => if c k then some (f k) else none).flatMap fun x => normalizedText x.1 x.2 := by
  induction l with
  | nil => rfl
  | cons k rest ih =>
    rw [List.flatMap_cons, List.filterMap_cons]
    by_cases hc : c k
    · simp only [hc, if_true]; rw [List.flatMap_cons, ih]
    · simp only [hc, if_false]; rw [ih]; rfl

/-- `manifestTextForPath` = `normalizedText` of every selected stream, in order -/
theorem manifestTextForPath_eq (m : SegMap) (srcpath relocate : Bytes) :
    manifestTextForPath m srcpath relocate =
      (extractS m srcpath relocate).flatMap fun x => normalizedText x.1 x.2 := by
  unfold manifestTextForPath extractS
  simp only []
  cases hsp : splitPath (fixStreamName srcpath) with
  | mk sn fnm =>
    simp only []
    cases hf : m.find? (fun e => decide (e.1 = (sn, fnm))) with
    | some e =>
      simp only []
      cases hrp : splitPath (fixStreamName relocate ++ if relocate.getLast? = some bSlash then [bSlash] else []) with
      | mk rs rf => simp
    | none =>
      simp only []
      exact flatMap_filterMap_norm _
        (fun k => (fixStreamName srcpath ++ [bSlash]).isPrefixOf k = true ∨ k = fixStreamName srcpath)
        (fun k => ((if (fixStreamName relocate ++ if relocate.getLast? = some bSlash then [bSlash] else []).getLast? = some bSlash
            then (fixStreamName relocate ++ if relocate.getLast? = some bSlash then [bSlash] else []).dropLast
            else fixStreamName relocate ++ if relocate.getLast? = some bSlash then [bSlash] else []) ++
              k.drop (fixStreamName srcpath).length, streamFiles m k))

/-- **Directory branch** (`srcpath` is not a file of the manifest): a stream is in the result exactly
if it is `srcpath` or lies below it (component-wise), it comes out under the name
`relocate ++ (its name minus srcpath)`, with all its files and their segment lists untouched. -/
theorem extractS_dir (m : SegMap) (srcpath relocate : Bytes)
    (hnofile : m.find? (·.1 = ((splitPath (fixStreamName srcpath)).1, (splitPath (fixStreamName srcpath)).2)) = none)
    (out : Bytes × List (Bytes × List Seg)) :
    out ∈ extractS m srcpath relocate ↔
      ∃ k ∈ streamNames m, splitOn bSlash (fixStreamName srcpath) <+: splitOn bSlash k ∧
        out = ((let rel := fixStreamName relocate ++ (if relocate.getLast? = some bSlash then [bSlash] else [])
                if rel.getLast? = some bSlash then rel.dropLast else rel) ++ k.drop (fixStreamName srcpath).length,
               streamFiles m k) := by
  unfold extractS
  simp only [hnofile, List.mem_filterMap]
  constructor
  · rintro ⟨k, hk, hsel⟩
    by_cases hc : (fixStreamName srcpath ++ [bSlash]).isPrefixOf k = true ∨ k = fixStreamName srcpath
    · rw [if_pos hc] at hsel
      refine ⟨k, (mem_sortBytes k _).mp hk, ?_, (Option.some.inj hsel).symm⟩
      apply (selected_iff_components _ _).mp
      rcases hc with h | h
      · exact Or.inr h
      · exact Or.inl h
    · rw [if_neg hc] at hsel; cases hsel
  · rintro ⟨k, hk, hpre, rfl⟩
    refine ⟨k, (mem_sortBytes k _).mpr hk, ?_⟩
    have := (selected_iff_components _ _).mpr hpre
    rw [if_pos (by rcases this with h | h; exact Or.inr h; exact Or.inl h)]

/-- **File branch** (`srcpath` names a file): the result is that one file, with its segment list,
in the stream given by `relocate`, renamed to `relocate`'s last component unless that is empty
(`relocate` = `.` or ends in `/`), in which case it keeps its name. -/
theorem extractS_file (m : SegMap) (srcpath relocate : Bytes) (e : (Bytes × Bytes) × List Seg)
    (hfile : m.find? (·.1 = ((splitPath (fixStreamName srcpath)).1, (splitPath (fixStreamName srcpath)).2)) = some e) :
    extractS m srcpath relocate =
      (let rel := fixStreamName relocate ++ (if relocate.getLast? = some bSlash then [bSlash] else [])
       [((splitPath rel).1,
         [(if (splitPath rel).2 = [] then (splitPath (fixStreamName srcpath)).2 else (splitPath rel).2, e.2)])]) := by
  unfold extractS
  simp only [hfile]

/-! ## what `normalizedText` renders for one stream -/

/-- the file tokens `normalizedText` writes for one file -/
def normFileToks (tbl : List (Bytes × Nat)) (fn : Bytes) (segs : List Seg) : List Bytes :=
  (normSpansS tbl segs none).map (spanTok (pkgEscape fn)) ++
    (if segs.isEmpty then [fileTokText 0 0 (pkgEscape fn)] else [])

/-- **`normalizedText`, spelled out**: escaped stream name, the blocks of pass 1 (or the empty-block
locator), then for every file in sorted order the rendering of its pass-2 spans (or `0:0:name`),
joined by spaces and newline-terminated. -/
theorem normalizedText_eq (name : Bytes) (files : List (Bytes × List Seg)) :
    normalizedText name files =
      (let sorted := sortBytes (files.map (·.1))
       let segsOf := fun fn => match files.find? (·.1 = fn) with | some e => e.2 | none => []
       let r := normBlocks (sorted.flatMap segsOf) [] [] 0
       let btoks := if r.2.1 = [] then [emptyBlockLocator] else r.2.1
       joinWith bSpace (pkgEscape name :: btoks ++ sorted.flatMap fun fn => normFileToks r.1 fn (segsOf fn)) ++ [bNL]) := by
  unfold normalizedText normFileToks
  simp only []
  congr 3
  have key : ∀ (l : List Bytes) (f g : Bytes → List Bytes), (∀ x, f x = g x) → l.flatMap f = l.flatMap g := by
    intro l f g h
    induction l with
    | nil => rfl
    | cons a r ih => rw [List.flatMap_cons, List.flatMap_cons, h a, ih]
  apply key
  intro fn
  rw [normSpans_eq _ _ _ none (by intro a b h; cases h)]
  rfl

/-- **…and the spans are the file's bytes**: for contents and sizes that are a function of the
digest and segments inside their blocks, the spans `normalizedText` writes for a file, cut out of
the concatenation of the blocks it lists, are that file's bytes — for every file of the stream. -/
theorem normalizedText_bytes (blk : Bytes → Bytes) (files : List (Bytes × List Seg))
    (hc : DigestConsistent blk ((sortBytes (files.map (·.1))).flatMap fun fn =>
      match files.find? (·.1 = fn) with | some e => e.2 | none => [])) :
    let sorted := sortBytes (files.map (·.1))
    let segsOf := fun fn => match files.find? (·.1 = fn) with | some e => e.2 | none => []
    let r := normBlocks (sorted.flatMap segsOf) [] [] 0
    let S := streamBytes blk (r.2.1.map fun t => ⟨t, locSize t⟩)
    ∀ fn ∈ sorted, (normSpansS r.1 (segsOf fn) none).flatMap (spanSlice S) = segBytes blk (segsOf fn) := by
  intro sorted segsOf r S fn hfn
  have hflat : (sorted.map segsOf).flatten = sorted.flatMap segsOf := by
    rw [List.flatMap_def]
  have := normalize_preserves_bytes blk (sorted.map segsOf) (by rw [hflat]; exact hc)
  simp only [hflat] at this
  exact this (segsOf fn) (List.mem_map.mpr ⟨fn, hfn, rfl⟩)

end ArvVerif.C10
