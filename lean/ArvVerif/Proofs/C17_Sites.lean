/-
C17 — the hypothesis "the manifest text collected by the scan loads" in terms of the specification.

`Site h cfg D y`: the places where the specification has manifest text extracted — a jump position
(`Jumps`), or a mount strictly below a jump position that no secret mount hides. The items
extracted there are `fragOf cfg D y`. `SpecCompat`: no two of these items contradict each other.
`scan_load_iff`: the text of a successful scan loads exactly when `SpecCompat` holds.
`specCompat_of_apart`: it holds when every mounted collection is a tree (`CollsWF`) and the output
paths of two sites that contribute something are never nested in each other (`SitesApart` — mounts
that do not overlap).
-/
import ArvVerif.Proofs.C17_Load
set_option linter.unusedSimpArgs false
namespace ArvVerif.C17

def Site (h : Host) (cfg : Cfg) (D y : Path) : Prop :=
  Jumps h cfg D y ∨ ∃ d x, Jumps h cfg d x ∧ notSecret cfg x ∧ BelowOf cfg d x D y

def SpecCompat (h : Host) (cfg : Cfg) : Prop :=
  ∀ D y D' y', Site h cfg D y → Site h cfg D' y' →
    ∀ f ∈ fragOf cfg D y, ∀ g ∈ fragOf cfg D' y', Compat f g

/-- every item of a justified plan is extracted at a site -/
theorem fragJust_site (h : Host) (cfg : Cfg) (plan : Plan) (hj : FragJust h cfg plan) (f : Frag) (hf : f ∈ plan.frags) :
    ∃ D y, Site h cfg D y ∧ f ∈ fragOf cfg D y := by
  obtain ⟨d, x, hjump, hor⟩ := hj f hf
  rcases hor with h1 | ⟨hns, h1⟩
  · exact ⟨d, x, Or.inl hjump, h1⟩
  · unfold belowFrags at h1
    rw [List.mem_flatMap] at h1
    obtain ⟨e, he, hfe⟩ := h1
    split at hfe
    · rename_i hc
      exact ⟨d ++ e.1.drop x.length, e.1,
        Or.inr ⟨d, x, hjump, hns, e.2, he, hc.1, hc.2.1, by simpa using hc.2.2, rfl⟩, hfe⟩
    · cases hfe

/-- **when the collected manifest text loads**: for a successful scan (under the hypotheses of
`C17_mount_content_partial`), exactly when the items the specification names do not contradict
each other -/
theorem scan_load_iff (h : Host) (cfg : Cfg) (hwf : HostWF h) (wf : CfgWF h cfg)
    (hout : h.get cfg.hostOut = some .dir) (hs : supported cfg = true) (hx : InOut cfg cfg.ctrOut)
    (hdirect : Direct h cfg) (fuel : Nat) (plan : Plan) (hscan : scan h cfg fuel = .ok plan) :
    (∃ t0, loadFrags [] plan.frags = some t0) ↔ SpecCompat h cfg := by
  have hsound := scan_frags_sound h cfg hwf wf hout hs hdirect fuel plan hscan
  have hcompl := scan_frags_complete h cfg hwf wf hout hs hdirect hx fuel plan hscan
  have hmem : ∀ D y, Site h cfg D y → ∀ f ∈ fragOf cfg D y, f ∈ plan.frags := by
    intro D y hsite f hf
    rcases hsite with hj | ⟨d, x, hj, hns, hb⟩
    · exact (hcompl D y hj).1 f hf
    · exact (hcompl d x hj).2 hns f (mem_belowFrags cfg d x D y hb f hf)
  constructor
  · intro ⟨t0, hl⟩ D y D' y' s1 s2 f hf g hg
    exact loadFrags_compat plan.frags [] t0 hl f (hmem D y s1 f hf) g (hmem D' y' s2 g hg)
  · intro hsc
    apply loadFrags_ok
    intro f hf g hg
    obtain ⟨D, y, s1, h1⟩ := fragJust_site h cfg plan hsound f hf
    obtain ⟨D', y', s2, h2⟩ := fragJust_site h cfg plan hsound g hg
    exact hsc D y D' y' s1 s2 f h1 g h2

/-! ### a sufficient condition: tree-shaped collections, sites that do not overlap -/

/-- path of a collection entry: the directory itself for an empty-directory marker -/
def entryPath (e : Path × Name × Bytes) : Path := if e.2.1 = "." then e.1 else e.1 ++ [e.2.1]

/-- the collection is a tree: no file's path is a prefix of another entry's path (no path is both a
file and a directory), the same file may be listed again -/
def CollWF (c : Coll) : Prop :=
  ∀ e ∈ c, e.2.1 ≠ "." → ∀ e' ∈ c, (e.1 ++ [e.2.1]).isPrefixOf (entryPath e') = true →
    e'.1 = e.1 ∧ e'.2.1 = e.2.1

def CollsWF (cfg : Cfg) : Prop := ∀ e ∈ cfg.mounts, ∀ c, e.2.coll = some c → CollWF c

/-- sites do not overlap: a site whose output path lies at or below the output path of a site that
contributes something contributes nothing else (in particular: two collections are not mounted one
inside the other, and no link into a collection sits where a collection is mounted) -/
def SitesApart (h : Host) (cfg : Cfg) : Prop :=
  ∀ D y D' y', Site h cfg D y → Site h cfg D' y' → fragOf cfg D y ≠ [] → D.isPrefixOf D' = true →
    ∀ g ∈ fragOf cfg D' y', g ∈ fragOf cfg D y

theorem isPrefixOf_append_cancel (a b c : Path) : (a ++ b).isPrefixOf (a ++ c) = b.isPrefixOf c := by
  induction a with
  | nil => rfl
  | cons x xs ih => simp [List.isPrefixOf, ih]

theorem extract_cases (c : Coll) (rel dest : Path) :
    extract c rel dest = [] ∨
    (∃ e : Path × Name × Bytes, extract c rel dest = [(if dest = [] then [e.2.1] else dest, some e.2.2)]) ∨
    extract c rel dest = (c.filter fun e => rel.isPrefixOf e.1).map fun e =>
      let d := dest ++ e.1.drop rel.length
      if e.2.1 = "." then (d, none) else (d ++ [e.2.1], some e.2.2) := by
  unfold extract
  split
  · exact Or.inl rfl
  · split
    · rename_i e _; exact Or.inr (Or.inl ⟨e, rfl⟩)
    · exact Or.inr (Or.inr rfl)

theorem extract_compat (c : Coll) (hc : CollWF c) (rel dest : Path) : FragsCompat (extract c rel dest) := by
  intro f hf g hg hfile
  rcases extract_cases c rel dest with h0 | ⟨e0, h1⟩ | h2
  · rw [h0] at hf; cases hf
  · -- the single-file case: one item
    rw [h1] at hf hg
    simp only [List.mem_singleton] at hf hg
    rw [hg, ← hf]
    refine ⟨?_, fun _ => ⟨rfl, hfile⟩⟩
    rw [hf]
    split
    · simp
    · rename_i hd; exact hd
  · rw [h2] at hf hg
    simp only [List.mem_map, List.mem_filter] at hf hg
    obtain ⟨e, ⟨hec, hepre⟩, hef⟩ := hf
    obtain ⟨e', ⟨hec', hepre'⟩, heg⟩ := hg
    have hepre1 : rel.isPrefixOf e.1 = true := by simpa using hepre
    have hepre1' : rel.isPrefixOf e'.1 = true := by simpa using hepre'
    by_cases hdot : e.2.1 = "."
    · -- a marker is not a file item
      rw [← hef] at hfile; simp [hdot] at hfile
    · have hf1 : f.1 = dest ++ (e.1.drop rel.length ++ [e.2.1]) := by rw [← hef]; simp [hdot]
      have hg1 : g.1 = dest ++ (entryPath e').drop rel.length := by
        rw [← heg]
        unfold entryPath
        split
        · rfl
        · have := prefix_length_le _ _ hepre1'
          simp [List.drop_append_of_le_length this]
      refine ⟨by rw [hf1]; simp, ?_⟩
      intro hpre
      rw [hf1, hg1, isPrefixOf_append_cancel] at hpre
      -- put `rel` back in front
      have hrel : (rel ++ (e.1.drop rel.length ++ [e.2.1])).isPrefixOf (rel ++ (entryPath e').drop rel.length) = true := by
        rw [isPrefixOf_append_cancel]; exact hpre
      have he1 : rel ++ (e.1.drop rel.length ++ [e.2.1]) = e.1 ++ [e.2.1] := by
        rw [← List.append_assoc, prefix_append_drop _ _ hepre1]
      have hep' : rel.isPrefixOf (entryPath e') = true := by
        unfold entryPath; split
        · exact hepre1'
        · exact isPrefixOf_append_right _ _ _ hepre1'
      rw [he1, prefix_append_drop _ _ hep'] at hrel
      obtain ⟨h1, h2⟩ := hc e hec hdot e' hec' hrel
      have hdot' : ¬ e'.2.1 = "." := by rw [h2]; exact hdot
      constructor
      · rw [hf1, ← heg]; simp [hdot', hdot, h1, h2]
      · rw [← heg]; simp [hdot']

theorem fragOf_compat (cfg : Cfg) (hc : CollsWF cfg) (D y : Path) : FragsCompat (fragOf cfg D y) := by
  have hnil : FragsCompat ([] : List Frag) := fun f hf => by cases hf
  unfold fragOf
  split
  · exact hnil
  · split
    · exact hnil
    · rename_i root m hsm
      split
      · exact hnil
      · split
        · exact hnil
        · split
          · exact hnil
          · split
            · split
              · exact hnil
              · rename_i c hcoll
                exact extract_compat c (hc (root, m) (srcMount_mem cfg y _ hsm).1 c hcoll) _ _
            · exact hnil

/-- collections that are trees, at sites that do not overlap, never contradict each other -/
theorem specCompat_of_apart (h : Host) (cfg : Cfg) (hc : CollsWF cfg) (ha : SitesApart h cfg) : SpecCompat h cfg := by
  intro D y D' y' s1 s2 f hf g hg hfile
  have hself := fragOf_compat cfg hc D y f hf f hf hfile
  refine ⟨hself.1, ?_⟩
  intro hpre
  have hD : D.isPrefixOf g.1 = true := prefix_trans' _ _ _ (fragOf_prefix cfg D y f hf) hpre
  have hD' : D'.isPrefixOf g.1 = true := fragOf_prefix cfg D' y' g hg
  have hne1 : fragOf cfg D y ≠ [] := by intro h0; rw [h0] at hf; cases hf
  have hne2 : fragOf cfg D' y' ≠ [] := by intro h0; rw [h0] at hg; cases hg
  by_cases hl : D.length ≤ D'.length
  · have hg' := ha D y D' y' s1 s2 hne1 (prefix_total D D' g.1 hD hD' hl) g hg
    exact (fragOf_compat cfg hc D y f hf g hg' hfile).2 hpre
  · have hf' := ha D' y' D y s2 s1 hne2 (prefix_total D' D g.1 hD' hD (by omega)) f hf
    exact (fragOf_compat cfg hc D' y' f hf' g hg hfile).2 hpre

end ArvVerif.C17
