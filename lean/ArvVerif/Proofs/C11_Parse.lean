/-
C11 proofs, part 5: what `uploadToKeepServer` reads out of a response — the replica count
(`rep := 1; fmt.Sscanf(header, "%d", &rep)`, model `parseRep`) and the locator
(`strings.TrimSpace` of the first 4096 body bytes, model `trimSpace`).
-/
import ArvVerif.Model.C11
namespace ArvVerif.C11

/-! ### decimal digits -/


theorem decVal_eq_ofDigitChars (cs : List Char) : decVal cs = Nat.ofDigitChars 10 cs 0 := by
  unfold decVal Nat.ofDigitChars
  congr 1
  funext a c
  show a * 10 + (c.toNat - 48) = 10 * a + (c.toNat - '0'.toNat)
  rw [Nat.mul_comm]; rfl

theorem isDecDigit_digitChar : ∀ n, n < 10 → isDecDigit n.digitChar = true := by decide

theorem toDigits_all_digits (n : Nat) : ∀ c ∈ Nat.toDigits 10 n, isDecDigit c = true := by
  induction n using Nat.strongRecOn with
  | _ n ih =>
    rw [Nat.toDigits_eq_if (by decide)]
    split
    · intro c hc; rw [List.mem_singleton] at hc; subst hc; exact isDecDigit_digitChar n ‹_›
    · intro c hc
      rw [List.mem_append, List.mem_singleton] at hc
      rcases hc with hc | hc
      · exact ih (n/10) (by omega) c hc
      · subst hc; exact isDecDigit_digitChar _ (Nat.mod_lt _ (by decide))

theorem parseRep_range (s : List Char) : -(2^63 : Int) ≤ parseRep s ∧ parseRep s < 2^63 := by
  unfold parseRep
  simp only []
  repeat' split
  all_goals omega

theorem decVal_toDigits (n : Nat) : decVal (Nat.toDigits 10 n) = n := by
  rw [decVal_eq_ofDigitChars, Nat.ofDigitChars_ten_toDigits]

theorem digit_not_blank_sign (c : Char) (h : isDecDigit c = true) :
    isScanSpace c = false ∧ c ≠ '-' ∧ c ≠ '+' := by
  refine ⟨?_, ?_, ?_⟩
  · cases hb : isScanSpace c with
    | false => rfl
    | true =>
      exfalso
      simp only [isScanSpace, Bool.or_eq_true, beq_iff_eq] at hb
      rcases hb with hb | hb <;> subst hb <;> revert h <;> decide
  · intro hc; subst hc; revert h; decide
  · intro hc; subst hc; revert h; decide

/-! ### parseRep -/

theorem parseRep_blank (ws s : List Char) (h : ∀ c ∈ ws, isScanSpace c = true) :
    parseRep (ws ++ s) = parseRep s := by
  unfold parseRep
  rw [List.dropWhile_append_of_pos h]

/-- the value of the digit run at the front of `s2`, with the int64 range check of `Sscanf` -/
def repOfRun (neg : Bool) (s2 : List Char) : Int :=
  let run := s2.takeWhile isDecDigit
  if run.isEmpty then 1
  else
    let v := decVal run
    if neg then (if v ≤ 2^63 then - (v : Int) else 1)
    else (if v < 2^63 then (v : Int) else 1)

theorem parseRep_unfold (s : List Char) : parseRep s =
    match s.dropWhile isScanSpace with
    | '-' :: r => repOfRun true r
    | '+' :: r => repOfRun false r
    | r => repOfRun false r := by
  unfold parseRep repOfRun
  simp only []
  generalize List.dropWhile isScanSpace s = s1
  split <;> simp

theorem parseRep_minus (s r : List Char) (h : s.dropWhile isScanSpace = '-' :: r) :
    parseRep s = repOfRun true r := by
  rw [parseRep_unfold, h]
  rfl

theorem parseRep_plus (s r : List Char) (h : s.dropWhile isScanSpace = '+' :: r) :
    parseRep s = repOfRun false r := by
  rw [parseRep_unfold, h]
  rfl

theorem parseRep_nosign (s : List Char) (h1 : (s.dropWhile isScanSpace).head? ≠ some '-')
    (h2 : (s.dropWhile isScanSpace).head? ≠ some '+') :
    parseRep s = repOfRun false (s.dropWhile isScanSpace) := by
  rw [parseRep_unfold]
  split
  · rename_i r hr; rw [hr] at h1; exact absurd rfl h1
  · rename_i r hr; rw [hr] at h2; exact absurd rfl h2
  · rfl

theorem takeWhile_nil_of_head (rest : List Char)
    (hrest : ∀ c, rest.head? = some c → isDecDigit c = false) : rest.takeWhile isDecDigit = [] := by
  cases rest with
  | nil => rfl
  | cons c t =>
    have := hrest c rfl
    rw [List.takeWhile_cons_of_neg (by simp [this])]

theorem repOfRun_digits (neg : Bool) (ds rest : List Char) (hne : ds ≠ [])
    (hall : ∀ c ∈ ds, isDecDigit c = true)
    (hrest : ∀ c, rest.head? = some c → isDecDigit c = false) :
    repOfRun neg (ds ++ rest) =
      if neg then (if decVal ds ≤ 2^63 then - (decVal ds : Int) else 1)
      else (if decVal ds < 2^63 then (decVal ds : Int) else 1) := by
  unfold repOfRun
  simp only []
  rw [List.takeWhile_append_of_pos hall, takeWhile_nil_of_head rest hrest, List.append_nil]
  have : ds.isEmpty = false := by cases ds with
    | nil => exact absurd rfl hne
    | cons _ _ => rfl
  rw [this]
  simp

theorem repOfRun_nodigit (neg : Bool) (s2 : List Char)
    (h : ∀ c, s2.head? = some c → isDecDigit c = false) : repOfRun neg s2 = 1 := by
  unfold repOfRun
  simp only []
  rw [takeWhile_nil_of_head s2 h]
  rfl

/-- whatever `repOfRun` yields other than the default 1 is ± the value of a non-empty digit run at
the front of its input -/
theorem repOfRun_backed (neg : Bool) (s2 : List Char) :
    repOfRun neg s2 = 1 ∨
    ∃ ds rest, s2 = ds ++ rest ∧ ds ≠ [] ∧ (∀ c ∈ ds, isDecDigit c = true) ∧
      repOfRun neg s2 = (if neg then - (decVal ds : Int) else (decVal ds : Int)) := by
  by_cases hrun : (s2.takeWhile isDecDigit).isEmpty = true
  · left; unfold repOfRun; simp only [hrun, if_true]
  · have hne : s2.takeWhile isDecDigit ≠ [] := by
      intro he; rw [he] at hrun; exact hrun rfl
    have hall : ∀ c ∈ s2.takeWhile isDecDigit, isDecDigit c = true := by
      have := @List.all_takeWhile _ isDecDigit s2
      rw [List.all_eq_true] at this
      exact this
    have hsplit := (List.takeWhile_append_dropWhile (p := isDecDigit) (l := s2)).symm
    have hdef : repOfRun neg s2 =
        if neg then (if decVal (s2.takeWhile isDecDigit) ≤ 2^63 then - (decVal (s2.takeWhile isDecDigit) : Int) else 1)
        else (if decVal (s2.takeWhile isDecDigit) < 2^63 then (decVal (s2.takeWhile isDecDigit) : Int) else 1) := by
      unfold repOfRun
      simp only [hrun]
      rfl
    rw [hdef]
    cases neg with
    | true =>
      by_cases hb : decVal (s2.takeWhile isDecDigit) ≤ 2^63
      · right
        refine ⟨_, _, hsplit, hne, hall, ?_⟩
        simp only [if_true, hb]
      · left; simp only [if_true, hb, if_false]
    | false =>
      by_cases hb : decVal (s2.takeWhile isDecDigit) < 2^63
      · right
        refine ⟨_, _, hsplit, hne, hall, ?_⟩
        simp only [Bool.false_eq_true, if_false, hb, if_true]
      · left; simp only [Bool.false_eq_true, if_false, hb]

theorem dropWhile_blank_digits (ds rest : List Char) (hne : ds ≠ [])
    (hall : ∀ c ∈ ds, isDecDigit c = true) :
    (ds ++ rest).dropWhile isScanSpace = ds ++ rest ∧
    ((ds ++ rest).dropWhile isScanSpace).head? ≠ some '-' ∧
    ((ds ++ rest).dropWhile isScanSpace).head? ≠ some '+' := by
  cases ds with
  | nil => exact absurd rfl hne
  | cons d t =>
    obtain ⟨h1, h2, h3⟩ := digit_not_blank_sign d (hall d List.mem_cons_self)
    have hd : (d :: t ++ rest).dropWhile isScanSpace = d :: t ++ rest := by
      rw [List.cons_append, List.dropWhile_cons_of_neg (by simp [h1])]
    rw [hd]
    refine ⟨rfl, ?_, ?_⟩
    · intro h; simp only [List.cons_append, List.head?_cons, Option.some.injEq] at h; exact h2 h
    · intro h; simp only [List.cons_append, List.head?_cons, Option.some.injEq] at h; exact h3 h

/-- A header that holds a decimal number — after optional blanks and an optional sign, followed by
anything that is not a digit — is read as that number if it fits int64, and as the default 1 if it
does not. -/
theorem parseRep_number (ws ds rest : List Char) (hws : ∀ c ∈ ws, isScanSpace c = true)
    (hne : ds ≠ []) (hall : ∀ c ∈ ds, isDecDigit c = true)
    (hrest : ∀ c, rest.head? = some c → isDecDigit c = false) :
    parseRep (ws ++ (ds ++ rest)) = (if decVal ds < 2^63 then (decVal ds : Int) else 1) ∧
    parseRep (ws ++ '+' :: (ds ++ rest)) = (if decVal ds < 2^63 then (decVal ds : Int) else 1) ∧
    parseRep (ws ++ '-' :: (ds ++ rest)) = (if decVal ds ≤ 2^63 then - (decVal ds : Int) else 1) := by
  refine ⟨?_, ?_, ?_⟩
  · rw [parseRep_blank ws _ hws]
    obtain ⟨h0, h1, h2⟩ := dropWhile_blank_digits ds rest hne hall
    rw [parseRep_nosign _ h1 h2, h0, repOfRun_digits false ds rest hne hall hrest]
    simp
  · rw [parseRep_blank ws _ hws]
    have hd : ('+' :: (ds ++ rest)).dropWhile isScanSpace = '+' :: (ds ++ rest) :=
      List.dropWhile_cons_of_neg (by decide)
    rw [parseRep_plus _ _ hd, repOfRun_digits false ds rest hne hall hrest]
    simp
  · rw [parseRep_blank ws _ hws]
    have hd : ('-' :: (ds ++ rest)).dropWhile isScanSpace = '-' :: (ds ++ rest) :=
      List.dropWhile_cons_of_neg (by decide)
    rw [parseRep_minus _ _ hd, repOfRun_digits true ds rest hne hall hrest]
    simp

/-- the number a service writes with `%d` / `strconv.Itoa` is read back exactly (int64 range) -/
theorem parseRep_toDigits (n : Nat) (hn : n < 2^63) (ws rest : List Char)
    (hws : ∀ c ∈ ws, isScanSpace c = true)
    (hrest : ∀ c, rest.head? = some c → isDecDigit c = false) :
    parseRep (ws ++ (Nat.toDigits 10 n ++ rest)) = n := by
  have h := (parseRep_number ws (Nat.toDigits 10 n) rest hws Nat.toDigits_ne_nil
    (toDigits_all_digits n) hrest).1
  rw [decVal_toDigits] at h
  rw [h, if_pos hn]

/-- a number that does not fit int64 is not believed: the default 1 stays -/
theorem parseRep_huge (n : Nat) (hn : 2^63 ≤ n) : parseRep (Nat.toDigits 10 n) = 1 := by
  have h := (parseRep_number [] (Nat.toDigits 10 n) [] (by simp) Nat.toDigits_ne_nil
    (toDigits_all_digits n) (by simp)).1
  rw [decVal_toDigits] at h
  simp only [List.nil_append, List.append_nil] at h
  rw [h, if_neg (by omega)]

/-- a header that does not start (after blanks and an optional sign) with a digit counts as 1 -/
theorem parseRep_malformed (ws rest : List Char) (hws : ∀ c ∈ ws, isScanSpace c = true)
    (hrest : ∀ c, rest.head? = some c → isDecDigit c = false) :
    parseRep (ws ++ '-' :: rest) = 1 ∧ parseRep (ws ++ '+' :: rest) = 1 ∧
    ((∀ c, rest.head? = some c → isScanSpace c = false ∧ c ≠ '-' ∧ c ≠ '+') →
      parseRep (ws ++ rest) = 1) := by
  refine ⟨?_, ?_, ?_⟩
  · rw [parseRep_blank ws _ hws,
      parseRep_minus _ rest (List.dropWhile_cons_of_neg (by decide)), repOfRun_nodigit _ _ hrest]
  · rw [parseRep_blank ws _ hws,
      parseRep_plus _ rest (List.dropWhile_cons_of_neg (by decide)), repOfRun_nodigit _ _ hrest]
  · intro hh
    rw [parseRep_blank ws _ hws]
    have hd : rest.dropWhile isScanSpace = rest := by
      cases rest with
      | nil => rfl
      | cons c t => exact List.dropWhile_cons_of_neg (by simp [(hh c rfl).1])
    have h1 : (rest.dropWhile isScanSpace).head? ≠ some '-' := by
      rw [hd]; intro h; exact (hh _ h).2.1 rfl
    have h2 : (rest.dropWhile isScanSpace).head? ≠ some '+' := by
      rw [hd]; intro h; exact (hh _ h).2.2 rfl
    rw [parseRep_nosign _ h1 h2, hd, repOfRun_nodigit _ _ hrest]

/-- **Whatever the header text is**, the count is the default 1 or ± the value of a non-empty run of
decimal digits that stands in the header after optional blanks and one optional sign: the client
never counts a number the service did not write. -/
theorem parseRep_backed (s : List Char) :
    parseRep s = 1 ∨
    ∃ ws sg ds rest, s = ws ++ (sg ++ (ds ++ rest)) ∧ (∀ c ∈ ws, isScanSpace c = true) ∧
      (sg = [] ∨ sg = ['-'] ∨ sg = ['+']) ∧ ds ≠ [] ∧ (∀ c ∈ ds, isDecDigit c = true) ∧
      parseRep s = (if sg = ['-'] then - (decVal ds : Int) else (decVal ds : Int)) := by
  have hsplit := (List.takeWhile_append_dropWhile (p := isScanSpace) (l := s)).symm
  have hws : ∀ c ∈ s.takeWhile isScanSpace, isScanSpace c = true := by
    have := @List.all_takeWhile _ isScanSpace s
    rw [List.all_eq_true] at this
    exact this
  cases hs1 : s.dropWhile isScanSpace with
  | nil =>
    left
    rw [parseRep_nosign s (by rw [hs1]; simp) (by rw [hs1]; simp), hs1]
    exact repOfRun_nodigit _ _ (by simp)
  | cons d t =>
    by_cases hm : d = '-'
    · subst hm
      rw [parseRep_minus s t hs1]
      rcases repOfRun_backed true t with h | ⟨ds, rest, h1, h2, h3, h4⟩
      · exact Or.inl h
      · right
        refine ⟨_, ['-'], ds, rest, ?_, hws, Or.inr (Or.inl rfl), h2, h3, ?_⟩
        · rw [← h1]; rw [hs1] at hsplit; exact hsplit
        · rw [h4]; simp
    · by_cases hp : d = '+'
      · subst hp
        rw [parseRep_plus s t hs1]
        rcases repOfRun_backed false t with h | ⟨ds, rest, h1, h2, h3, h4⟩
        · exact Or.inl h
        · right
          refine ⟨_, ['+'], ds, rest, ?_, hws, Or.inr (Or.inr rfl), h2, h3, ?_⟩
          · rw [← h1]; rw [hs1] at hsplit; exact hsplit
          · rw [h4]; simp
      · rw [parseRep_nosign s (by rw [hs1]; simpa using hm) (by rw [hs1]; simpa using hp), hs1]
        rcases repOfRun_backed false (d :: t) with h | ⟨ds, rest, h1, h2, h3, h4⟩
        · exact Or.inl h
        · right
          refine ⟨_, [], ds, rest, ?_, hws, Or.inl rfl, h2, h3, ?_⟩
          · rw [List.nil_append, ← h1]; rw [hs1] at hsplit; exact hsplit
          · rw [h4]; simp

/-! ### trimSpace -/

theorem dropWhile_all {α} (p : α → Bool) (l : List α) (h : ∀ a ∈ l, p a = true) :
    l.dropWhile p = [] := by
  have := List.dropWhile_append_of_pos (p := p) (l₁ := l) (l₂ := []) h
  simpa using this

/-- white space around a text that neither starts nor ends with white space is removed, nothing
else: a locator followed by a newline comes out exactly -/
theorem trimSpace_clean (pre mid post : List Nat) (hpre : ∀ b ∈ pre, isTrimSpace b = true)
    (hpost : ∀ b ∈ post, isTrimSpace b = true)
    (hh : ∀ b, mid.head? = some b → isTrimSpace b = false)
    (hl : ∀ b, mid.getLast? = some b → isTrimSpace b = false) :
    trimSpace (pre ++ (mid ++ post)) = mid := by
  unfold trimSpace
  rw [List.dropWhile_append_of_pos hpre]
  cases mid with
  | nil =>
    rw [List.nil_append, dropWhile_all _ _ hpost]; rfl
  | cons m t =>
    have hm := hh m rfl
    rw [List.cons_append, List.dropWhile_cons_of_neg (by simp [hm]), ← List.cons_append,
      List.reverse_append,
      List.dropWhile_append_of_pos (by intro b hb; exact hpost b (List.mem_reverse.mp hb))]
    cases hr : (m :: t).reverse with
    | nil => simp at hr
    | cons a u =>
      have ha : (m :: t).getLast? = some a := by
        rw [List.getLast?_eq_head?_reverse, hr]; rfl
      have := hl a ha
      rw [List.dropWhile_cons_of_neg (by simp [this]), ← hr, List.reverse_reverse]

/-- `trimSpace` removes a white-space prefix and a white-space suffix and nothing else, and what is
left neither starts nor ends with white space -/
theorem trimSpace_spec (bs : List Nat) :
    ∃ pre post, bs = pre ++ (trimSpace bs ++ post) ∧ (∀ b ∈ pre, isTrimSpace b = true) ∧
      (∀ b ∈ post, isTrimSpace b = true) ∧
      (∀ b, (trimSpace bs).head? = some b → isTrimSpace b = false) ∧
      (∀ b, (trimSpace bs).getLast? = some b → isTrimSpace b = false) := by
  have h1 := (List.takeWhile_append_dropWhile (p := isTrimSpace) (l := bs)).symm
  have h2 := (List.takeWhile_append_dropWhile (p := isTrimSpace)
    (l := (bs.dropWhile isTrimSpace).reverse)).symm
  have h3 : bs.dropWhile isTrimSpace =
      trimSpace bs ++ (((bs.dropWhile isTrimSpace).reverse).takeWhile isTrimSpace).reverse := by
    have := congrArg List.reverse h2
    rw [List.reverse_reverse, List.reverse_append] at this
    exact this
  have hall : ∀ (l : List Nat), ∀ b ∈ l.takeWhile isTrimSpace, isTrimSpace b = true := by
    intro l
    have := @List.all_takeWhile _ isTrimSpace l
    rw [List.all_eq_true] at this
    exact this
  have hlast : ∀ b, (trimSpace bs).getLast? = some b → isTrimSpace b = false := by
    intro b hb
    have hn := List.head?_dropWhile_not isTrimSpace (bs.dropWhile isTrimSpace).reverse
    have : (trimSpace bs).getLast? = (((bs.dropWhile isTrimSpace).reverse).dropWhile isTrimSpace).head? := by
      unfold trimSpace; rw [List.getLast?_reverse]
    rw [this] at hb
    rw [hb] at hn
    exact hn
  refine ⟨bs.takeWhile isTrimSpace,
    (((bs.dropWhile isTrimSpace).reverse).takeWhile isTrimSpace).reverse, ?_, hall bs, ?_, ?_, hlast⟩
  · rw [← h3]; exact h1
  · intro b hb; exact hall _ b (List.mem_reverse.mp hb)
  · intro b hb
    have hn := List.head?_dropWhile_not isTrimSpace bs
    have : (bs.dropWhile isTrimSpace).head? = some b := by
      rw [h3, List.head?_append, hb]; rfl
    rw [this] at hn
    exact hn

theorem trimSpace_idem (bs : List Nat) : trimSpace (trimSpace bs) = trimSpace bs := by
  obtain ⟨_, _, _, _, _, hh, hl⟩ := trimSpace_spec bs
  have := trimSpace_clean [] (trimSpace bs) [] (by simp) (by simp) hh hl
  simpa using this

end ArvVerif.C11
