/-
C10 — `PortableDataHash`: on every text inside the grammar the bytes fed to MD5 are the manifest
text with every locator reduced to hash+size (`stripHints`).
-/
import ArvVerif.Proofs.C10_Text
namespace ArvVerif.C10

/-! ## the scanner on pieces without spaces -/

theorem pdhScan_copy_nospace : ∀ (t rest : Bytes), bSpace ∉ t →
    pdhScan .copy (t ++ rest) = t ++ pdhScan .copy rest
  | [], _, _ => rfl
  | c :: t, rest, h => by
    have hc : (c == bSpace) = false := by
      simp only [beq_eq_false_iff_ne]; intro e; exact h (by simp [e])
    have ih := pdhScan_copy_nospace t rest (fun hm => h (List.mem_cons_of_mem _ hm))
    simp only [List.cons_append]
    conv => lhs; unfold pdhScan
    simp [hc, ih]

theorem pdhScan_drop_nospace : ∀ (t rest : Bytes), bSpace ∉ t →
    pdhScan .drop (t ++ rest) = pdhScan .drop rest
  | [], _, _ => rfl
  | c :: t, rest, h => by
    have hc : (c == bSpace) = false := by
      simp only [beq_eq_false_iff_ne]; intro e; exact h (by simp [e])
    have ih := pdhScan_drop_nospace t rest (fun hm => h (List.mem_cons_of_mem _ hm))
    simp only [List.cons_append]
    conv => lhs; unfold pdhScan
    simp [hc, ih]

/-- in `take` mode the next `n` bytes are copied, then the rest of the token is dropped -/
theorem pdhScan_take : ∀ (n : Nat) (a rest : Bytes), a.length = n + 1 →
    pdhScan (.take (n + 1)) (a ++ rest) = a ++ pdhScan .drop rest
  | 0, [c], rest, _ => by simp [pdhScan]
  | n + 1, c :: a, rest, h => by
    have hl : a.length = n + 1 := by simpa using h
    have ih := pdhScan_take n a rest hl
    simp only [List.cons_append]
    conv => lhs; unfold pdhScan
    simp [ih]
  | 0, [], _, h => by simp at h
  | 0, _ :: _ :: _, _, h => by simp at h
  | _ + 1, [], _, h => by simp at h

/-- at a space the mode does not matter (a `take` never ends on a space inside the grammar) -/
theorem pdhScan_space (m : PMode) (hm : ∀ k, m ≠ .take (k + 1)) (rest : Bytes) :
    pdhScan m (bSpace :: rest) =
      match blkPrefixLen rest with
      | some n => bSpace :: pdhScan (.take n) rest
      | none => bSpace :: pdhScan .copy rest := by
  cases m with
  | copy =>
    conv => lhs; unfold pdhScan
    simp only [beq_self_eq_true, if_true]
    cases blkPrefixLen rest <;> rfl
  | drop =>
    conv => lhs; unfold pdhScan
    simp only [beq_self_eq_true, if_true]
    cases blkPrefixLen rest <;> rfl
  | take k =>
    cases k with
    | zero =>
      conv => lhs; unfold pdhScan
      simp only [beq_self_eq_true, if_true]
      cases blkPrefixLen rest <;> rfl
    | succ k => exact absurd rfl (hm k)

/-! ## tokens -/

theorem space_not_digit : isDigit bSpace = false := by decide
theorem plus_not_digit : isDigit bPlus = false := by decide

theorem takeWhile_append_stop (p : UInt8 → Bool) : ∀ (ds rest : Bytes), ds.all p = true →
    (rest = [] ∨ ∃ c r, rest = c :: r ∧ p c = false) → (ds ++ rest).takeWhile p = ds
  | [], rest, _, h => by
    rcases h with rfl | ⟨c, r, rfl, hc⟩
    · rfl
    · simp [List.takeWhile, hc]
  | d :: ds, rest, ha, h => by
    simp only [List.all_cons, Bool.and_eq_true] at ha
    simp only [List.cons_append, List.takeWhile, ha.1]
    rw [takeWhile_append_stop p ds rest ha.2 h]

theorem locator_scan (t ds : Bytes) (h : locatorSizeDigits isLowerHex t = some ds) (hns : bSpace ∉ t)
    (m : PMode) (hm : ∀ k, m ≠ .take (k + 1)) (rest : Bytes) :
    pdhScan m (bSpace :: (t ++ bSpace :: rest)) = bSpace :: (stripLoc t ++ pdhScan .drop (bSpace :: rest)) := by
  obtain ⟨hs, tl, ht, hlen, hall, hdne, hd, htl⟩ := locatorSizeDigits_shape isLowerHex t ds h
  have hstrip : stripLoc t = hs ++ bPlus :: ds := by
    unfold stripLoc
    rw [h]
    simp only []
    rw [ht]
    have : (hs ++ bPlus :: (ds ++ tl)).take 33 = hs ++ [bPlus] := by
      rw [List.take_append, List.take_of_length_le (by omega)]
      simp [hlen]
    rw [this]; simp
  -- what follows the digits is not a digit
  have hstop : (tl ++ bSpace :: rest = [] ∨ ∃ c r, tl ++ bSpace :: rest = c :: r ∧ isDigit c = false) := by
    right
    rcases htl with rfl | ⟨_, tl', rfl⟩
    · exact ⟨bSpace, rest, rfl, space_not_digit⟩
    · exact ⟨bPlus, tl' ++ bSpace :: rest, rfl, plus_not_digit⟩
  have hblk : blkPrefixLen (t ++ bSpace :: rest) = some (33 + ds.length) := by
    unfold blkPrefixLen
    rw [ht]
    have e32 : (hs ++ bPlus :: (ds ++ tl) ++ bSpace :: rest).take 32 = hs := by
      rw [List.append_assoc, List.take_append, List.take_of_length_le (by omega)]; simp [hlen]
    have d32 : (hs ++ bPlus :: (ds ++ tl) ++ bSpace :: rest).drop 32 = bPlus :: (ds ++ (tl ++ bSpace :: rest)) := by
      rw [List.append_assoc, List.drop_append]; simp [hlen]
    have d33 : (hs ++ bPlus :: (ds ++ tl) ++ bSpace :: rest).drop 33 = ds ++ (tl ++ bSpace :: rest) := by
      have : 33 = 32 + 1 := rfl
      rw [this, ← List.drop_drop, d32]; rfl
    simp only [e32, d32, d33, List.head?_cons]
    rw [takeWhile_append_stop isDigit ds _ hd hstop]
    simp [hlen, hall, hdne]
  have hnt : bSpace ∉ tl := by
    intro hm'; apply hns; rw [ht]; simp [hm']
  rw [pdhScan_space m hm, hblk]
  simp only []
  have hsplit : t ++ bSpace :: rest = (hs ++ bPlus :: ds) ++ (tl ++ bSpace :: rest) := by
    rw [ht]; simp
  have hl : (hs ++ bPlus :: ds).length = (32 + ds.length) + 1 := by simp [hlen]; omega
  have e33 : 33 + ds.length = (32 + ds.length) + 1 := by omega
  rw [hsplit, e33, pdhScan_take (32 + ds.length) _ _ hl, pdhScan_drop_nospace tl _ hnt, hstrip]

/-- a file token: `blkRe` does not match, whatever follows -/
theorem blkPrefixLen_fileTok (t rest : Bytes) (f : FTok) (h : specFileTok t = some f) :
    blkPrefixLen (t ++ rest) = none := by
  obtain ⟨p, l, nm, ht, hp1, hp2, _⟩ := specFileTok_shape t f h
  unfold blkPrefixLen
  by_cases hc : ((t ++ rest).take 32).length = 32 ∧ ((t ++ rest).take 32).all isLowerHex = true ∧
      ((t ++ rest).drop 32).head? = some bPlus
  · exfalso
    obtain ⟨_, hall, hplus⟩ := hc
    rw [ht] at hall hplus
    by_cases hpl : p.length < 32
    · -- the colon after the position lies inside the 32-byte window
      have hmem : bColon ∈ (p ++ bColon :: (l ++ bColon :: nm) ++ rest).take 32 := by
        rw [List.append_assoc, List.take_append]
        apply List.mem_append_right
        have : 32 - p.length = (32 - p.length - 1) + 1 := by omega
        rw [this]; simp
      have := List.all_eq_true.mp hall bColon hmem
      revert this; decide
    · -- 32 or more digits: byte 32 is a digit or the colon, never '+'
      have hge : 32 ≤ p.length := by omega
      have : ((p ++ bColon :: (l ++ bColon :: nm) ++ rest).drop 32).head? = ((p.drop 32) ++ (bColon :: (l ++ bColon :: nm) ++ rest)).head? := by
        rw [List.append_assoc, List.drop_append]
        have : 32 - p.length = 0 := by omega
        rw [this]; simp
      rw [this] at hplus
      cases hd : p.drop 32 with
      | nil => rw [hd] at hplus; simp at hplus; revert hplus; decide
      | cons x xs =>
        rw [hd] at hplus
        simp at hplus
        have hx : x ∈ p := List.mem_of_mem_drop (by rw [hd]; simp)
        have := List.all_eq_true.mp hp2 x hx
        rw [hplus] at this
        revert this; decide
  · rw [if_neg hc]

theorem stripLoc_fileTok (t : Bytes) (f : FTok) (h : specFileTok t = some f) : stripLoc t = t := by
  unfold stripLoc
  cases hl : locatorSizeDigits isLowerHex t with
  | none => rfl
  | some ds =>
    exfalso
    have := locator_no_colon isLowerHex (by decide) t ds hl
    exact this (specFileTok_has_colon t f h)

/-! ## lines -/

/-- the tokens of a line after the stream name, each with its leading space -/
def spaced (toks : List Bytes) : Bytes := toks.flatMap (bSpace :: ·)

theorem joinWith_space (nm : Bytes) (toks : List Bytes) : joinWith bSpace (nm :: toks) = nm ++ spaced toks := by
  induction toks generalizing nm with
  | nil => simp [joinWith, spaced]
  | cons t rest ih => rw [show joinWith bSpace (nm :: t :: rest) = nm ++ bSpace :: joinWith bSpace (t :: rest) from rfl, ih]; simp [spaced]

theorem scan_fileToks : ∀ (ftoks : List Bytes) (files : List FTok) (m : PMode) (rest : Bytes),
    mapOpt specFileTok ftoks = some files → (∀ t ∈ ftoks, bSpace ∉ t) → (∀ k, m ≠ .take (k + 1)) → ftoks ≠ [] →
    pdhScan m (spaced ftoks ++ rest) = spaced (ftoks.map stripLoc) ++ pdhScan .copy rest
  | [], _, _, _, _, _, _, h => absurd rfl h
  | t :: ts, files, m, rest, hf, hns, hm, _ => by
    obtain ⟨f, fs, h1, h2, _⟩ := mapOpt_cons_some specFileTok t ts files hf
    simp only [spaced, List.flatMap_cons, List.map_cons, List.cons_append, List.append_assoc]
    rw [pdhScan_space m hm, blkPrefixLen_fileTok t _ f h1]
    simp only []
    rw [pdhScan_copy_nospace t _ (hns t (by simp)), stripLoc_fileTok t f h1]
    cases ts with
    | nil => simp
    | cons t' ts' =>
      have := scan_fileToks (t' :: ts') fs .copy rest h2 (fun x hx => hns x (List.mem_cons_of_mem _ hx))
        (by intro k; simp) (by simp)
      simp only [spaced] at this
      rw [this]

theorem scan_locators : ∀ (blocks : List Loc) (m : PMode) (rest : Bytes),
    (∀ b ∈ blocks, specLocator b.text = some b) → (∀ b ∈ blocks, bSpace ∉ b.text) → (∀ k, m ≠ .take (k + 1)) →
    ∃ m', (∀ k, m' ≠ .take (k + 1)) ∧
      pdhScan m (spaced (blocks.map (·.text)) ++ bSpace :: rest) =
        spaced ((blocks.map (·.text)).map stripLoc) ++ pdhScan m' (bSpace :: rest)
  | [], m, rest, _, _, hm => ⟨m, hm, by simp [spaced]⟩
  | b :: bs, m, rest, hl, hns, hm => by
    have hb := hl b (by simp)
    unfold specLocator at hb
    cases hd : locatorSizeDigits isLowerHex b.text with
    | none => rw [hd] at hb; cases hb
    | some ds =>
      obtain ⟨m', hm', ih⟩ := scan_locators bs .drop rest (fun x hx => hl x (List.mem_cons_of_mem _ hx))
        (fun x hx => hns x (List.mem_cons_of_mem _ hx)) (by intro k; simp)
      refine ⟨m', hm', ?_⟩
      simp only [spaced, List.map_cons, List.flatMap_cons, List.cons_append, List.append_assoc] at ih ⊢
      cases bs with
      | nil =>
        simp only [List.map_nil, List.flatMap_nil, List.nil_append] at ih ⊢
        rw [locator_scan b.text ds hd (hns b (by simp)) m hm rest, ih]
      | cons b' bs' =>
        simp only [List.map_cons, List.flatMap_cons, List.cons_append, List.append_assoc] at ih ⊢
        rw [locator_scan b.text ds hd (hns b (by simp)) m hm _, ih]

/-- **one line inside the grammar**, followed by its newline and anything -/
theorem scan_line (line : Bytes) (s : Stream) (h : specLine line = some s) (rest : Bytes) :
    pdhScan .copy (line ++ bNL :: rest) =
      (match splitOn bSpace line with
       | nm :: toks => joinWith bSpace (nm :: toks.map stripLoc)
       | [] => []) ++ bNL :: pdhScan .copy rest := by
  have hline := joinWith_splitOn bSpace line
  have hnosp := splitOn_no_sep bSpace line
  unfold specLine at h
  simp only [] at h
  by_cases htok : (splitOn bSpace line).all tokenBytesOk = true
  · rw [if_pos htok] at h
    cases hs : splitOn bSpace line with
    | nil => exact absurd hs (splitOn_ne_nil _ _)
    | cons nm toks =>
      rw [hs] at h hline hnosp
      simp only [] at h ⊢
      cases hu : specUnescape nm with
      | none => rw [hu] at h; cases h
      | some name =>
        rw [hu] at h
        simp only [] at h
        by_cases hname : specStreamNameOk name = true
        · rw [if_pos hname] at h
          cases hloc : specLocators toks with
          | mk blocks ftoks =>
            rw [hloc] at h
            simp only [] at h
            cases hfiles : mapOpt specFileTok ftoks with
            | none => rw [hfiles] at h; cases h
            | some files =>
              rw [hfiles] at h
              simp only [] at h
              by_cases hok : blocks ≠ [] ∧ files ≠ [] ∧
                  (files.all fun f => decide (f.pos + f.len ≤ streamLen blocks)) = true
              · obtain ⟨hr1, hr2, _⟩ := specLocators_spec toks blocks ftoks hloc
                have hftne : ftoks ≠ [] := by
                  intro he; subst he; simp [mapOpt] at hfiles; exact hok.2.1 hfiles
                have hnsb : ∀ b ∈ blocks, bSpace ∉ b.text := by
                  intro b hb
                  apply hnosp
                  rw [hr1]; simp
                  right; left; exact ⟨b, hb, rfl⟩
                have hnsf : ∀ t ∈ ftoks, bSpace ∉ t := by
                  intro t ht
                  apply hnosp
                  rw [hr1]; simp [ht]
                obtain ⟨t0, ts0, hft0⟩ : ∃ t0 ts0, ftoks = t0 :: ts0 := by
                  cases ftoks with
                  | nil => exact absurd rfl hftne
                  | cons a b => exact ⟨a, b, rfl⟩
                rw [← hline, joinWith_space, joinWith_space, List.append_assoc,
                  pdhScan_copy_nospace nm _ (hnosp nm (by simp)), List.append_assoc]
                congr 1
                rw [hr1, List.map_append]
                simp only [spaced, List.flatMap_append, List.append_assoc]
                have hsp : spaced ftoks ++ bNL :: rest = bSpace :: (t0 ++ spaced ts0 ++ bNL :: rest) := by
                  rw [hft0]; simp [spaced]
                obtain ⟨m', hm', e1⟩ := scan_locators blocks .copy (t0 ++ spaced ts0 ++ bNL :: rest) hr2 hnsb
                  (by intro k; simp)
                simp only [spaced] at e1 hsp
                rw [hsp, e1, ← hsp]
                have e2 := scan_fileToks ftoks files m' (bNL :: rest) hfiles hnsf hm' hftne
                simp only [spaced] at e2
                rw [e2]
                have : pdhScan .copy (bNL :: rest) = bNL :: pdhScan .copy rest := by
                  conv => lhs; unfold pdhScan
                  simp [bNL, bSpace]
                rw [this]
              · rw [if_neg hok] at h; cases h
        · rw [if_neg hname] at h; cases h
  · rw [if_neg htok] at h; cases h

/-! ## whole text -/

theorem joinWith_snoc_nil (sep : UInt8) : ∀ ps : List Bytes, joinWith sep (ps ++ [[]]) = ps.flatMap (· ++ [sep])
  | [] => rfl
  | [p] => by simp [joinWith]
  | p :: q :: rest => by
    have := joinWith_snoc_nil sep (q :: rest)
    simp only [List.cons_append] at this ⊢
    rw [show joinWith sep (p :: q :: (rest ++ [[]])) = p ++ sep :: joinWith sep (q :: (rest ++ [[]])) from rfl, this]
    simp

theorem scan_lines : ∀ (lines : List Bytes) (M : Manifest), mapOpt specLine lines = some M →
    pdhScan .copy (lines.flatMap (· ++ [bNL])) = (lines.map stripLine).flatMap (· ++ [bNL])
  | [], _, _ => rfl
  | l :: ls, M, h => by
    obtain ⟨s, ss, h1, h2, _⟩ := mapOpt_cons_some specLine l ls M h
    have := scan_line l s h1 (ls.flatMap (· ++ [bNL]))
    simp only [List.flatMap_cons, List.map_cons, List.append_assoc, List.singleton_append]
    rw [this, scan_lines ls ss h2]
    rfl

/-- **C10_pdh core**: inside the grammar `PortableDataHash` hashes exactly `stripHints txt`. -/
theorem pdhInput_valid (txt : Bytes) (M : Manifest) (h : parseSpec txt = some M) :
    pdhInput txt = stripHints txt := by
  unfold parseSpec at h
  by_cases h0 : txt = []
  · subst h0; rfl
  · rw [if_neg h0] at h
    simp only [] at h
    by_cases hl : (splitOn bNL txt).getLast? = some []
    · rw [if_pos hl] at h
      obtain ⟨ys, hys⟩ := List.getLast?_eq_some_iff.mp hl
      rw [hys, List.dropLast_concat] at h
      have htxt : txt = ys.flatMap (· ++ [bNL]) := by
        rw [← joinWith_splitOn bNL txt, hys, joinWith_snoc_nil]
      unfold pdhInput stripHints
      rw [hys, List.map_append, List.map_cons, List.map_nil]
      have hlast : stripLine [] = [] := by simp [stripLine, splitOn, joinWith]
      rw [hlast, joinWith_snoc_nil]
      conv => lhs; rw [htxt]
      exact scan_lines ys M h
    · rw [if_neg hl] at h; cases h

end ArvVerif.C10
