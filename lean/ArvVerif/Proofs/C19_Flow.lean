/-
Helper lemmas for C19, part 2: the three call sites (federation token provider, legacy
saltAuthToken, keepstore) and the specification-level notions used by Props/C19.lean.
-/
import ArvVerif.Proofs.C19
namespace ArvVerif.C19

/-! ### more about SaltToken -/

/-- inversion of the error outcomes -/
theorem saltToken_error_inv (mac : Str → Str → List UInt8) (t R : Str) (e : SaltErr)
    (h : saltToken mac t R = .error e) :
    (e = .salted ∧ ∃ u s more, splitSlash t = sV2 :: u :: s :: more ∧ s.length = saltLen ∧
        R.isPrefixOf u = false) ∨
    ((∀ u s more, splitSlash t ≠ sV2 :: u :: s :: more) ∧
      ((e = .obsolete ∧ isObsolete t = true) ∨ (e = .format ∧ isObsolete t = false))) := by
  by_cases hv : ∃ u s more, splitSlash t = sV2 :: u :: s :: more
  · obtain ⟨u, s, more, hsp⟩ := hv
    rw [saltToken_of_split mac t R u s more hsp] at h
    by_cases hl : s.length = saltLen
    · simp only [hl, ne_eq, not_true_eq_false, if_false] at h
      by_cases hp : R.isPrefixOf u = true
      · simp [hp] at h
      · simp only [hp, Bool.false_eq_true, if_false] at h
        cases h
        exact Or.inl ⟨rfl, u, s, more, hsp, hl, Bool.eq_false_iff.mpr hp⟩
    · simp [hl] at h
  · have hv' : ∀ u s more, splitSlash t ≠ sV2 :: u :: s :: more :=
      fun u s more hsp => hv ⟨u, s, more, hsp⟩
    rw [saltToken_not_v2 mac t R hv'] at h
    refine Or.inr ⟨hv', ?_⟩
    by_cases ho : isObsolete t = true
    · simp only [ho, if_true] at h; cases h; exact Or.inl ⟨rfl, ho⟩
    · simp only [ho, Bool.false_eq_true, if_false] at h; cases h
      exact Or.inr ⟨rfl, by simpa using ho⟩

/-! ### saltedTokenProvider -/

/-- How one incoming token `t` relates to the token `o` the provider hands to the RPC layer. -/
inductive Forwarded (mac : Str → Str → List UInt8) (R : Str) (lookup : Str → Lookup) (t o : Str) : Prop
  /-- unsalted v2 token: the salted form, uuid kept, extra segments dropped -/
  | salted (u s : Str) (more : List Str) (hsp : splitSlash t = sV2 :: u :: s :: more)
      (hl : s.length ≠ saltLen) (ho : o = saltedForm mac u s R)
  /-- v2 token with a 40-character secret: forwarded as it is (whether or not it belongs to R) -/
  | already (u s : Str) (more : List Str) (hsp : splitSlash t = sV2 :: u :: s :: more)
      (hl : s.length = saltLen) (ho : o = t)
  /-- neither v2 nor legacy format: unchanged -/
  | nonArvados (hv : ∀ u s more, splitSlash t ≠ sV2 :: u :: s :: more) (hob : isObsolete t = false)
      (ho : o = t)
  /-- legacy token unknown to the local cluster: unchanged -/
  | legacyUnknown (hv : ∀ u s more, splitSlash t ≠ sV2 :: u :: s :: more) (hob : isObsolete t = true)
      (hlk : lookup t = .error 401) (ho : o = t)
  /-- legacy token that belongs to the remote itself: unchanged -/
  | legacyRemote (hv : ∀ u s more, splitSlash t ≠ sV2 :: u :: s :: more) (hob : isObsolete t = true)
      (u a : Str) (hlk : lookup t = .found u a) (hpre : R.isPrefixOf u = true) (ho : o = t)
  /-- legacy token resolved locally: the salted form of its v2 rendering -/
  | legacyLocal (hv : ∀ u s more, splitSlash t ≠ sV2 :: u :: s :: more) (hob : isObsolete t = true)
      (u a : Str) (hlk : lookup t = .found u a) (hpre : R.isPrefixOf u = false)
      (ho : saltToken mac (tokenV2 u a) R = .ok o)

theorem provOne_ok (mac : Str → Str → List UInt8) (R : Str) (lookup : Str → Lookup) (t o : Str)
    (h : provOne mac R lookup t = .ok o) : Forwarded mac R lookup t o := by
  unfold provOne at h
  cases hst : saltToken mac t R with
  | ok x =>
    rw [hst] at h
    simp only [Except.ok.injEq] at h
    subst h
    obtain ⟨u, s, more, hsp, hx⟩ := saltToken_ok_inv mac t R x hst
    rcases hx with ⟨hl, rfl⟩ | ⟨hl, _, rfl⟩
    · exact .salted u s more hsp hl rfl
    · exact .already u s more hsp hl rfl
  | error e =>
    rw [hst] at h
    rcases saltToken_error_inv mac t R e hst with ⟨rfl, u, s, more, hsp, hl, _⟩ | ⟨hv, he⟩
    · simp only [Except.ok.injEq] at h
      exact .already u s more hsp hl h.symm
    · rcases he with ⟨rfl, hob⟩ | ⟨rfl, hob⟩
      · simp only at h
        cases hlk : lookup t with
        | error st =>
          rw [hlk] at h
          by_cases hst : st = 401
          · subst hst
            simp only [if_true, Except.ok.injEq] at h
            exact .legacyUnknown hv hob hlk h.symm
          · simp only [hst, if_false] at h
            cases h
        | found u a =>
          rw [hlk] at h
          simp only at h
          by_cases hpre : R.isPrefixOf u = true
          · simp only [hpre, if_true, Except.ok.injEq] at h
            exact .legacyRemote hv hob u a hlk hpre h.symm
          · simp only [hpre, Bool.false_eq_true, if_false] at h
            cases h2 : saltToken mac (tokenV2 u a) R with
            | ok s =>
              rw [h2] at h; simp only [Except.ok.injEq] at h; subst h
              exact .legacyLocal hv hob u a hlk (Bool.eq_false_iff.mpr hpre) h2
            | error e => rw [h2] at h; cases h
      · simp only [Except.ok.injEq] at h
        exact .nonArvados hv hob h.symm

/-- element-wise relation between two lists of equal length -/
inductive Zip {α β : Type} (P : α → β → Prop) : List α → List β → Prop
  | nil : Zip P [] []
  | cons {a b as bs} : P a b → Zip P as bs → Zip P (a :: as) (b :: bs)

theorem Zip.length_eq {α β : Type} {P : α → β → Prop} {as : List α} {bs : List β} (h : Zip P as bs) :
    as.length = bs.length := by
  induction h with
  | nil => rfl
  | cons _ _ ih => simp [ih]

theorem Zip.right {α β : Type} {P : α → β → Prop} {as : List α} {bs : List β} (h : Zip P as bs) :
    ∀ b ∈ bs, ∃ a ∈ as, P a b := by
  induction h with
  | nil => intro b hb; cases hb
  | cons hp _ ih =>
    intro b hb
    rcases List.mem_cons.mp hb with rfl | hb
    · exact ⟨_, by simp, hp⟩
    · obtain ⟨a, ha, hpa⟩ := ih b hb
      exact ⟨a, List.mem_cons_of_mem _ ha, hpa⟩

theorem Zip.left {α β : Type} {P : α → β → Prop} {as : List α} {bs : List β} (h : Zip P as bs) :
    ∀ a ∈ as, ∃ b ∈ bs, P a b := by
  induction h with
  | nil => intro a ha; cases ha
  | cons hp _ ih =>
    intro a ha
    rcases List.mem_cons.mp ha with rfl | ha
    · exact ⟨_, by simp, hp⟩
    · obtain ⟨b, hb, hpb⟩ := ih a ha
      exact ⟨b, List.mem_cons_of_mem _ hb, hpb⟩

theorem Zip.get {α β : Type} {P : α → β → Prop} {as : List α} {bs : List β} (h : Zip P as bs) :
    ∀ (i : Nat) (h1 : i < as.length) (h2 : i < bs.length), P as[i] bs[i] := by
  induction h with
  | nil => intro i h1; cases h1
  | cons hp _ ih =>
    intro i h1 h2
    cases i with
    | zero => exact hp
    | succ j => exact ih j (by simpa using h1) (by simpa using h2)

theorem provAll_ok (mac : Str → Str → List UInt8) (R : Str) (lookup : Str → Lookup) :
    ∀ (ts out : List Str), provAll mac R lookup ts = .ok out →
      Zip (Forwarded mac R lookup) ts out := by
  intro ts
  induction ts with
  | nil => intro out h; simp only [provAll, Except.ok.injEq] at h; subst h; exact .nil
  | cons t ts ih =>
    intro out h
    simp only [provAll] at h
    cases h1 : provOne mac R lookup t with
    | error e => rw [h1] at h; cases h
    | ok o =>
      rw [h1] at h
      simp only at h
      cases h2 : provAll mac R lookup ts with
      | error e => rw [h2] at h; cases h
      | ok os =>
        rw [h2] at h
        simp only [Except.ok.injEq] at h
        subst h
        exact .cons (provOne_ok mac R lookup t o h1) (ih os h2)

theorem Forwarded.not_mustSalt {mac : Str → Str → List UInt8} {R : Str} {lookup : Str → Lookup}
    {t o : Str} (hmac : ∀ k m, (mac k m).length = 20) (h : Forwarded mac R lookup t o) :
    ¬ MustSalt o := by
  cases h with
  | salted u s more hsp hl ho =>
    subst ho
    exact not_mustSalt_saltedForm mac hmac u s R (mem_splitSlash_noslash t u (by rw [hsp]; simp))
  | already u s more hsp hl ho =>
    subst ho
    rintro ⟨u', s', more', hsp', hl'⟩
    rw [hsp] at hsp'
    simp only [List.cons.injEq] at hsp'
    obtain ⟨_, _, rfl, _⟩ := hsp'
    exact hl' hl
  | nonArvados hv _ ho => subst ho; rintro ⟨u, s, more, hsp, _⟩; exact hv u s more hsp
  | legacyUnknown hv _ _ ho => subst ho; rintro ⟨u, s, more, hsp, _⟩; exact hv u s more hsp
  | legacyRemote hv _ _ _ _ _ ho => subst ho; rintro ⟨u, s, more, hsp, _⟩; exact hv u s more hsp
  | legacyLocal _ _ u a _ _ ho => exact not_mustSalt_of_saltToken_ok mac hmac _ R o ho

/-! ### legacy path: what the receiving cluster can find in the forwarded request -/

/-- the `api_token` values of a body as the receiver would read them: only a body declared as a
form (media type = text before the parameters) is searched -/
def bodyTokens (r : Req) : List Str :=
  if isFormType r.ctype then
    match r.body with
    | .form items => valuesOf apiTokenKey (goods items)
    | .raw => []
  else []

def authOutTokens (r : Req) : AuthOut → List Str
  | .same => headerTokens r.auth
  | .set v => headerTokens (.plain v)

def queryOutTokens (r : Req) : ItemsOut → List Str
  | .same => queryTokens r.query
  | .re items => valuesOf apiTokenKey items

def cookieOutTokens (r : Req) : CookieOut → List Str
  | .same => cookieTokens r.cookie
  | .stripped => []

def bodyOutTokens (r : Req) : ItemsOut → List Str
  | .same => bodyTokens r
  | .re items => valuesOf apiTokenKey items

/-- Every credential the receiving cluster can discover in the forwarded request, with the same
discovery rules the sending side uses: the Authorization header, `api_token` in the query string,
the token cookie, `api_token` in a body declared as a form. -/
def forwardedTokens (r : Req) (f : Fwd) : List Str :=
  authOutTokens r f.auth ++ queryOutTokens r f.query ++ cookieOutTokens r f.cookie ++
    bodyOutTokens r f.body

/-- all credentials `saltAuthToken` finds, in order: header, query string, cookie, then the form
body's first non-empty `api_token` -/
def discovered (r : Req) : List Str :=
  requestTokens r ++ (match bodyStage r with
    | .parsed ts _ => ts
    | _ => [])

theorem headerTokens_bearer (t : Str) : headerTokens (.plain (sBearer ++ t)) = [t] := by
  simp [headerTokens, sBearer, splitSpace2, sOAuth2, sBearerWord]

theorem headerTokens_oauth2 (t : Str) : headerTokens (.plain (sOAuth2 ++ ' ' :: t)) = [t] := by
  simp [headerTokens, splitSpace2, sOAuth2, sBearerWord]

theorem valuesOf_eq_nil_iff (k : Str) (kvs : List (Str × Str)) :
    valuesOf k kvs = [] ↔ ∀ kv ∈ kvs, kv.1 ≠ k := by
  induction kvs with
  | nil => simp [valuesOf]
  | cons p ps ih =>
    simp only [valuesOf, List.filterMap_cons, List.mem_cons, forall_eq_or_imp] at ih ⊢
    by_cases hp : p.1 = k
    · simp [hp]
    · simp [hp, ih]

theorem mem_valuesOf (k v : Str) (kvs : List (Str × Str)) : v ∈ valuesOf k kvs ↔ (k, v) ∈ kvs := by
  simp only [valuesOf, List.mem_filterMap]
  constructor
  · rintro ⟨⟨a, b⟩, hm, hk⟩
    by_cases ha : a = k
    · simp only [ha, if_true, Option.some.injEq] at hk; subst ha; subst hk; exact hm
    · simp [ha] at hk
  · intro hm; exact ⟨(k, v), hm, by simp⟩

theorem mem_encodeOrder (kv : Str × Str) (kvs : List (Str × Str)) :
    kv ∈ encodeOrder kvs ↔ kv ∈ kvs := by
  simp [encodeOrder, List.mem_mergeSort]

/-- re-encoding after deleting `api_token` leaves no `api_token` value -/
theorem valuesOf_encodeOrder_dropKey (kvs : List (Str × Str)) :
    valuesOf apiTokenKey (encodeOrder (dropKey apiTokenKey kvs)) = [] := by
  rw [valuesOf_eq_nil_iff]
  intro kv hkv
  rw [mem_encodeOrder] at hkv
  simp only [dropKey, List.mem_filter, decide_eq_true_eq] at hkv
  exact hkv.2

/-- … and every other parameter is still there, exactly those -/
theorem mem_encodeOrder_dropKey (kv : Str × Str) (kvs : List (Str × Str)) :
    kv ∈ encodeOrder (dropKey apiTokenKey kvs) ↔ kv ∈ kvs ∧ kv.1 ≠ apiTokenKey := by
  rw [mem_encodeOrder]
  simp [dropKey, List.mem_filter]

theorem queryOut_tokens (r : Req) : queryOutTokens r (queryOut r) = [] := by
  unfold queryOut
  by_cases h : (goods r.query).any (fun kv => kv.1 == apiTokenKey) = true
  · simp only [h, if_true, queryOutTokens]
    exact valuesOf_encodeOrder_dropKey _
  · simp only [h, Bool.false_eq_true, if_false, queryOutTokens, queryTokens]
    rw [valuesOf_eq_nil_iff]
    intro kv hkv hk
    exact h (List.any_eq_true.mpr ⟨kv, hkv, by simp [hk]⟩)

/-! ### legacy path: the token that goes into the header -/

theorem resolveLocal_ok (mac : Str → Str → List UInt8) (R : Str) (db : Str → Option (Str × Str))
    (t uuid secret t' : Str) (h : resolveLocal mac R db t uuid secret = .ok t') :
    t' = t ∨ ∃ aca user, db secret = some (aca, user) ∧ R.isPrefixOf user = false ∧
      saltToken mac (tokenV2 aca secret) R = .ok t' := by
  unfold resolveLocal at h
  cases hdb : db secret with
  | none => rw [hdb] at h; simp only [TokOut.ok.injEq] at h; exact Or.inl h.symm
  | some p =>
    obtain ⟨aca, user⟩ := p
    rw [hdb] at h
    dsimp only at h
    by_cases h1 : uuid ≠ [] ∧ aca ≠ uuid
    · rw [if_pos h1] at h; simp only [TokOut.ok.injEq] at h; exact Or.inl h.symm
    · rw [if_neg h1] at h
      by_cases h2 : R.isPrefixOf user = true
      · rw [if_pos h2] at h; simp only [TokOut.ok.injEq] at h; exact Or.inl h.symm
      · rw [if_neg h2] at h
        cases h3 : saltToken mac (tokenV2 aca secret) R with
        | ok s =>
          rw [h3] at h; simp only [TokOut.ok.injEq] at h; subst h
          exact Or.inr ⟨aca, user, rfl, Bool.eq_false_iff.mpr h2, h3⟩
        | error e => rw [h3] at h; cases e <;> cases h

/-- the rebuilt Authorization header never carries an unsalted v2 token -/
theorem legacyToken_ok_not_mustSalt (mac : Str → Str → List UInt8)
    (hmac : ∀ k m, (mac k m).length = 20) (R : Str) (db : Str → Option (Str × Str)) (t t' : Str)
    (h : legacyToken mac R db t = .ok t') : ¬ MustSalt t' := by
  unfold legacyToken at h
  cases hst : saltToken mac t R with
  | ok s =>
    rw [hst] at h; simp only [TokOut.ok.injEq] at h; subst h
    exact not_mustSalt_of_saltToken_ok mac hmac t R _ hst
  | error e =>
    have hnot : ¬ MustSalt t := not_mustSalt_of_saltToken_error mac t R e hst
    rw [hst] at h
    have key : ∀ uuid secret, resolveLocal mac R db t uuid secret = .ok t' → ¬ MustSalt t' := by
      intro uuid secret hr
      rcases resolveLocal_ok mac R db t uuid secret t' hr with rfl | ⟨aca, user, _, _, h3⟩
      · exact hnot
      · exact not_mustSalt_of_saltToken_ok mac hmac _ R _ h3
    cases e with
    | salted => cases h
    | obsolete =>
      simp only at h
      split at h
      · split at h
        · exact key _ _ h
        · cases h
      · exact key _ _ h
    | format =>
      simp only at h
      split at h
      · split at h
        · exact key _ _ h
        · cases h
      · exact key _ _ h

/-- for an unsalted v2 token the header token is its salted form, whatever the database says -/
theorem legacyToken_mustSalt (mac : Str → Str → List UInt8) (R : Str) (db : Str → Option (Str × Str))
    (t u s : Str) (more : List Str) (hsp : splitSlash t = sV2 :: u :: s :: more)
    (hl : s.length ≠ saltLen) : legacyToken mac R db t = .ok (saltedForm mac u s R) := by
  unfold legacyToken
  rw [saltToken_of_split mac t R u s more hsp]
  simp [hl]

/-! ### legacy path: inversion of the two halves -/

theorem finish_fwd (mac : Str → Str → List UInt8) (R : Str) (db : Str → Option (Str × Str))
    (r : Req) (toks : List Str) (b : ItemsOut) (f : Fwd) (h : finish mac R db r toks b = .fwd f) :
    (toks = [] ∧ f = ⟨.same, .same, b, .same⟩) ∨
    (∃ t rest t', toks = t :: rest ∧ legacyToken mac R db t = .ok t' ∧ hasBad r.query = false ∧
      f = ⟨.set (sBearer ++ t'), queryOut r, b, .stripped⟩) := by
  unfold finish at h
  cases toks with
  | nil => simp only [LegacyOut.fwd.injEq] at h; exact Or.inl ⟨rfl, h.symm⟩
  | cons t rest =>
    simp only at h
    cases hl : legacyToken mac R db t with
    | panic => rw [hl] at h; cases h
    | err e => rw [hl] at h; cases h
    | ok t' =>
      rw [hl] at h
      simp only at h
      by_cases hb : hasBad r.query = true
      · simp [hb] at h
      · simp only [hb, Bool.false_eq_true, if_false, LegacyOut.fwd.injEq] at h
        exact Or.inr ⟨t, rest, t', rfl, hl, Bool.eq_false_iff.mpr hb, h.symm⟩

theorem bodyStage_parsed (r : Req) (ts : List Str) (nb : List (Str × Str))
    (h : bodyStage r = .parsed ts nb) :
    isFormType r.ctype = true ∧ ∃ items, r.body = .form items ∧ hasBad items = false ∧
      ts = firstToken (goods items) ∧ nb = encodeOrder (dropKey apiTokenKey (goods items)) := by
  unfold bodyStage at h
  by_cases hc : isFormType r.ctype = true
  · simp only [hc, Bool.not_true, Bool.false_eq_true, if_false] at h
    refine ⟨hc, ?_⟩
    cases hb : r.body with
    | raw => rw [hb] at h; cases h
    | form items =>
      rw [hb] at h
      simp only at h
      by_cases hbad : hasBad items = true
      · simp [hbad] at h
      · simp only [hbad, Bool.false_eq_true, if_false, BodyStage.parsed.injEq] at h
        exact ⟨items, rfl, Bool.eq_false_iff.mpr hbad, h.1.symm, h.2.symm⟩
  · simp [hc] at h

theorem bodyStage_skipped (r : Req) (h : bodyStage r = .skipped) : isFormType r.ctype = false := by
  unfold bodyStage at h
  by_cases hc : isFormType r.ctype = true
  · simp only [hc, Bool.not_true, Bool.false_eq_true, if_false] at h
    cases hb : r.body with
    | raw => rw [hb] at h; cases h
    | form items =>
      rw [hb] at h
      simp only at h
      split at h <;> cases h
  · exact Bool.eq_false_iff.mpr hc

/-- the credential a form body contributes is one of its `api_token` values -/
theorem mem_firstToken (pf : List (Str × Str)) (t : Str) (h : t ∈ firstToken pf) :
    t ∈ valuesOf apiTokenKey pf ∧ t ≠ [] := by
  unfold firstToken at h
  split at h
  · next v rest hv =>
    by_cases he : v = []
    · simp [he] at h
    · simp only [he, if_false, List.mem_singleton] at h
      subst h
      exact ⟨by rw [hv]; simp, he⟩
  · cases h

/-- inversion of the whole function -/
theorem saltAuthToken_fwd (mac : Str → Str → List UInt8) (R : Str) (db : Str → Option (Str × Str))
    (r : Req) (f : Fwd) (h : saltAuthToken mac R db r = .fwd f) :
    ∃ toks b, finish mac R db r toks b = .fwd f ∧
      ((bodyStage r = .skipped ∧ toks = requestTokens r ∧ b = .same) ∨
       (∃ ts nb, bodyStage r = .parsed ts nb ∧ toks = requestTokens r ++ ts ∧ b = .re nb)) := by
  unfold saltAuthToken at h
  cases hs : bodyStage r with
  | failed => rw [hs] at h; cases h
  | unmodelled => rw [hs] at h; cases h
  | skipped => rw [hs] at h; exact ⟨_, _, h, Or.inl ⟨rfl, rfl, rfl⟩⟩
  | parsed ts nb => rw [hs] at h; exact ⟨_, _, h, Or.inr ⟨ts, nb, rfl, rfl, rfl⟩⟩

/-! ### opaque tokens, the panic path -/

/-- A token that is not in Arvados format at all: neither `v2/<uuid>/<secret>…` nor the legacy
`[0-9a-z]{41,}` (an OIDC access token, a JWT, any other string). -/
def Opaque (t : Str) : Prop :=
  (∀ u s more, splitSlash t ≠ sV2 :: u :: s :: more) ∧ isObsolete t = false

theorem saltToken_opaque (mac : Str → Str → List UInt8) (t R : Str) (h : Opaque t) :
    saltToken mac t R = .error .format := by
  rw [saltToken_not_v2 mac t R h.1]; simp [h.2]

theorem resolveLocal_ne_panic (mac : Str → Str → List UInt8) (R : Str) (db : Str → Option (Str × Str))
    (t uuid secret : Str) : resolveLocal mac R db t uuid secret ≠ .panic := by
  unfold resolveLocal
  cases db secret with
  | none => simp
  | some p =>
    obtain ⟨aca, user⟩ := p
    dsimp only
    split
    · simp
    · split
      · simp
      · cases saltToken mac (tokenV2 aca secret) R with
        | ok s => simp
        | error e => cases e <;> simp

theorem splitSlash_singleton_noslash (x p : Str) (h : splitSlash x = [p]) : '/' ∉ x := by
  have h1 := joinSlash_splitSlash x
  rw [h] at h1
  simp only [joinSlash] at h1
  subst h1
  exact mem_splitSlash_noslash _ _ (by rw [h]; simp)

theorem isObsolete_of_slash (t : Str) (h : '/' ∈ t) : isObsolete t = false := by
  simp only [isObsolete, Bool.and_eq_false_iff]
  right
  rw [Bool.eq_false_iff]
  intro hall
  have := List.all_eq_true.mp hall '/' h
  revert this; decide

/-- exactly the tokens `v2/<x>` with no further '/' make `validateAPItoken` index out of range -/
theorem legacyToken_panic_iff (mac : Str → Str → List UInt8) (R : Str) (db : Str → Option (Str × Str))
    (t : Str) : legacyToken mac R db t = .panic ↔ ∃ x, t = sV2Slash ++ x ∧ '/' ∉ x := by
  constructor
  · intro h
    unfold legacyToken at h
    have key : (if sV2Slash.isPrefixOf t then
        (match splitSlash t with
         | _ :: u :: s :: _ => resolveLocal mac R db t u s
         | _ => TokOut.panic)
        else resolveLocal mac R db t [] t) = .panic → ∃ x, t = sV2Slash ++ x ∧ '/' ∉ x := by
      intro hk
      by_cases hp : sV2Slash.isPrefixOf t = true
      · rw [if_pos hp] at hk
        obtain ⟨x, rfl⟩ := List.isPrefixOf_iff_prefix.mp hp
        refine ⟨x, rfl, ?_⟩
        have hsp : splitSlash (sV2Slash ++ x) = sV2 :: splitSlash x := by
          have : sV2Slash ++ x = sV2 ++ '/' :: x := by simp [sV2Slash, sV2]
          rw [this, splitSlash_append_slash _ _ slash_not_mem_sV2]
        rw [hsp] at hk
        cases hx : splitSlash x with
        | nil => exact absurd hx (splitSlash_ne_nil x)
        | cons p ps =>
          cases ps with
          | nil => exact splitSlash_singleton_noslash x p hx
          | cons q qs =>
            rw [hx] at hk
            exact absurd hk (resolveLocal_ne_panic mac R db _ _ _)
      · rw [if_neg hp] at hk
        exact absurd hk (resolveLocal_ne_panic mac R db _ _ _)
    cases hst : saltToken mac t R with
    | ok s => rw [hst] at h; cases h
    | error e =>
      rw [hst] at h
      cases e with
      | salted => cases h
      | obsolete => exact key h
      | format => exact key h
  · rintro ⟨x, rfl, hx⟩
    have hsp : splitSlash (sV2Slash ++ x) = [sV2, x] := by
      have : sV2Slash ++ x = sV2 ++ '/' :: x := by simp [sV2Slash, sV2]
      rw [this, splitSlash_append_slash _ _ slash_not_mem_sV2, splitSlash_noslash x hx]
    have hnot : ∀ u s more, splitSlash (sV2Slash ++ x) ≠ sV2 :: u :: s :: more := by
      intro u s more h; rw [hsp] at h; simp at h
    have hob : isObsolete (sV2Slash ++ x) = false := isObsolete_of_slash _ (by simp [sV2Slash])
    have hpre : sV2Slash.isPrefixOf (sV2Slash ++ x) = true :=
      List.isPrefixOf_iff_prefix.mpr (List.prefix_append _ _)
    unfold legacyToken
    rw [saltToken_not_v2 mac _ R hnot]
    simp only [hob, Bool.false_eq_true, if_false, hpre, if_true, hsp]

/-- the forwarding wrapper adds nothing to, and removes nothing from, the credential-bearing parts -/
theorem remoteClusterRequest_sent (mac : Str → Str → List UInt8) (configured : Bool) (R : Str)
    (db : Str → Option (Str × Str)) (scheme : Str) (r : Req) (others : List (Str × Str)) (w : Wire)
    (h : remoteClusterRequest mac configured R db scheme r others = .sent w) :
    configured = true ∧ saltAuthToken mac R db r = .fwd w.fwd ∧ w = proxyDo scheme others w.fwd := by
  unfold remoteClusterRequest at h
  by_cases hc : configured = true
  · simp only [hc, Bool.not_true, Bool.false_eq_true, if_false] at h
    cases hs : saltAuthToken mac R db r with
    | fwd f =>
      rw [hs] at h
      simp only [WireOut.sent.injEq] at h
      subst h
      exact ⟨hc, rfl, rfl⟩
    | err e => rw [hs] at h; cases h
    | panic => rw [hs] at h; cases h
    | unmodelled => rw [hs] at h; cases h
  · simp [hc] at h

end ArvVerif.C19
