/-
C19 proofs, keepstore part: what one keepstore process sends to other clusters on its remote GET
path (model in Model/C19_Keep.lean).
-/
import ArvVerif.Model.C19_Keep
import ArvVerif.Proofs.C19
namespace ArvVerif.C19

/-- the Authorization value of the requests that build a remote's keep client -/
def phAuth : Str := sOAuth2sp ++ placeholderToken

/-- `r` is configured and named by a well-formed `+R` hint among `H`; `t` is the caller's token
salted for `r` -/
def KeepGood (mac : Str → Str → List UInt8) (cfg : List Str) (tok : Str) (H : List Str) (r t : Str) : Prop :=
  r ∈ cfg ∧ (∃ p ∈ H, isRemoteHint p = true ∧ hintRemote p = r) ∧ saltToken mac tok r = .ok t

/-- an event of the hint loop: a client-construction request to the API endpoint of a configured
remote that the locator names and that had no client yet, with the placeholder token -/
def KeepApiOK (cfg H cached : List Str) : KeepEvent → Prop
  | .discovery r a => r ∈ cfg ∧ r ∉ cached ∧ a = phAuth ∧ ∃ p ∈ H, isRemoteHint p = true ∧ hintRemote p = r
  | .services r a => r ∈ cfg ∧ r ∉ cached ∧ a = phAuth ∧ ∃ p ∈ H, isRemoteHint p = true ∧ hintRemote p = r
  | .block _ _ _ => False

theorem KeepApiOK.mono {cfg H cached cached' : List Str} {ev : KeepEvent}
    (h : KeepApiOK cfg H cached' ev) (hsub : ∀ x ∈ cached, x ∈ cached') : KeepApiOK cfg H cached ev := by
  cases ev with
  | discovery r a => exact ⟨h.1, fun hx => h.2.1 (hsub r hx), h.2.2⟩
  | services r a => exact ⟨h.1, fun hx => h.2.1 (hsub r hx), h.2.2⟩
  | block d l a => exact h.elim

theorem keepClientFor_sub (cached : List Str) (r : Str) : ∀ x ∈ cached, x ∈ (keepClientFor cached r).1 := by
  intro x hx
  unfold keepClientFor
  split <;> simp [hx]

theorem keepClientFor_mem (cached : List Str) (r : Str) : r ∈ (keepClientFor cached r).1 := by
  unfold keepClientFor
  split
  · rename_i hc
    simpa using hc
  · simp

theorem keepClientFor_events (cfg H cached : List Str) (r : Str) (hr : r ∈ cfg)
    (hp : ∃ p ∈ H, isRemoteHint p = true ∧ hintRemote p = r) :
    ∀ ev ∈ (keepClientFor cached r).2, KeepApiOK cfg H cached ev := by
  intro ev hev
  unfold keepClientFor at hev
  split at hev
  · simp at hev
  · rename_i hc
    have hnc : r ∉ cached := by simpa using hc
    simp only [List.mem_cons, List.mem_nil_iff, or_false] at hev
    rcases hev with rfl | rfl <;> exact ⟨hr, hnc, rfl, hp⟩

theorem hintThen_done (evs0 : List KeepEvent) (part : Option Str) (res : List Str × List KeepEvent × HintOut)
    (cl' : Option (Str × Str)) (parts : List Str) (h : (hintThen evs0 part res).2.2 = .done cl' parts) :
    ∃ parts0, res.2.2 = .done cl' parts0 ∧
      parts = consOpt part parts0 := by
  unfold hintThen at h
  simp only at h
  cases hr : res.2.2 with
  | refused st => rw [hr] at h; simp at h
  | done cl0 parts0 =>
    rw [hr] at h
    simp only [HintOut.done.injEq] at h
    exact ⟨parts0, by rw [h.1], h.2.symm⟩

theorem isProxyHint_hintRewrite (p : Str) : isProxyHint (hintRewrite p) = false := by
  unfold isProxyHint hintRewrite sKAt
  cases p.drop 7 with
  | nil => simp
  | cons c r => cases r <;> simp

theorem isProxyHint_spec (q : Str) (h : isProxyHint q = true) : q = sKAt ++ q.drop 2 ∧ (q.drop 2).length = 5 := by
  unfold isProxyHint at h
  simp only [Bool.and_eq_true, beq_iff_eq] at h
  obtain ⟨hl, ht⟩ := h
  constructor
  · rw [← ht, List.take_append_drop]
  · simp [hl]

/-- the loop of `Get`: the client cache only grows; every request it causes builds the client of a
configured remote that the locator names and that had none, with the placeholder token; the client
it ends with carries the caller's token salted for the remote of a `+R` hint; the parts it keeps
have no `+K@` hint that the caller's locator did not have -/
theorem keepHints_spec (mac : Str → Str → List UInt8) (cfg : List Str) (tok : Str) (H : List Str) :
    ∀ (ps : List Str), (∀ p ∈ ps, p ∈ H) → ∀ (cached : List Str) (cl : Option (Str × Str)),
    (∀ r t, cl = some (r, t) → KeepGood mac cfg tok H r t) →
    (∀ x ∈ cached, x ∈ (keepHints mac cfg tok ps cached cl).1) ∧
    (∀ ev ∈ (keepHints mac cfg tok ps cached cl).2.1, KeepApiOK cfg H cached ev) ∧
    (∀ cl' parts, (keepHints mac cfg tok ps cached cl).2.2 = .done cl' parts →
      (∀ r t, cl' = some (r, t) → KeepGood mac cfg tok H r t) ∧
      (∀ q ∈ parts, isProxyHint q = true → q ∈ ps)) := by
  intro ps
  induction ps with
  | nil =>
    intro _ cached cl hcl
    simp only [keepHints]
    refine ⟨fun x hx => hx, by simp, ?_⟩
    intro cl' parts h
    simp only [HintOut.done.injEq] at h
    obtain ⟨rfl, rfl⟩ := h
    exact ⟨hcl, by simp⟩
  | cons p ps ih =>
    intro hsub cached cl hcl
    have hsub' : ∀ q ∈ ps, q ∈ H := fun q hq => hsub q (List.mem_cons_of_mem _ hq)
    simp only [keepHints]
    split
    · -- local hint: dropped
      obtain ⟨h1, h2, h3⟩ := ih hsub' cached cl hcl
      refine ⟨h1, by simpa [hintThen] using h2, ?_⟩
      intro cl' parts h
      obtain ⟨parts0, hd, hp0⟩ := hintThen_done _ _ _ _ _ h
      obtain ⟨g1, g2⟩ := h3 cl' parts0 hd
      refine ⟨g1, ?_⟩
      intro q hq hk
      rw [hp0] at hq
      simp only [consOpt] at hq
      exact List.mem_cons_of_mem _ (g2 q hq hk)
    · split
      · -- +R hint
        rename_i hR
        split
        · exact ⟨fun x hx => hx, by simp, by intro cl' parts h; simp at h⟩
        · rename_i hcfg
          have hr : hintRemote p ∈ cfg := by simpa using hcfg
          have hp : ∃ q ∈ H, isRemoteHint q = true ∧ hintRemote q = hintRemote p :=
            ⟨p, hsub p (List.mem_cons_self ..), hR, rfl⟩
          have hev := keepClientFor_events cfg H cached (hintRemote p) hr hp
          have hsubc := keepClientFor_sub cached (hintRemote p)
          split
          · exact ⟨hsubc, hev, by intro cl' parts h; simp at h⟩
          · exact ⟨hsubc, hev, by intro cl' parts h; simp at h⟩
          · rename_i t hok
            have hgood : ∀ r t', some (hintRemote p, t) = some (r, t') → KeepGood mac cfg tok H r t' := by
              intro r t' h
              simp only [Option.some.injEq, Prod.mk.injEq] at h
              obtain ⟨rfl, rfl⟩ := h
              exact ⟨hr, hp, hok⟩
            obtain ⟨h1, h2, h3⟩ := ih hsub' (keepClientFor cached (hintRemote p)).1 (some (hintRemote p, t)) hgood
            refine ⟨fun x hx => h1 x (hsubc x hx), ?_, ?_⟩
            · intro ev hmem
              simp only [hintThen, List.mem_append] at hmem
              rcases hmem with hmem | hmem
              · exact hev ev hmem
              · exact (h2 ev hmem).mono hsubc
            · intro cl' parts h
              obtain ⟨parts0, hd, hp0⟩ := hintThen_done _ _ _ _ _ h
              obtain ⟨g1, g2⟩ := h3 cl' parts0 hd
              refine ⟨g1, ?_⟩
              intro q hq hk
              rw [hp0] at hq
              simp only [consOpt, List.mem_cons] at hq
              rcases hq with rfl | hq
              · rw [isProxyHint_hintRewrite] at hk; cases hk
              · exact List.mem_cons_of_mem _ (g2 q hq hk)
      · -- any other part: kept
        obtain ⟨h1, h2, h3⟩ := ih hsub' cached cl hcl
        refine ⟨h1, by simpa [hintThen] using h2, ?_⟩
        intro cl' parts h
        obtain ⟨parts0, hd, hp0⟩ := hintThen_done _ _ _ _ _ h
        obtain ⟨g1, g2⟩ := h3 cl' parts0 hd
        refine ⟨g1, ?_⟩
        intro q hq hk
        rw [hp0] at hq
        simp only [consOpt, List.mem_cons] at hq
        rcases hq with rfl | hq
        · exact List.mem_cons_self ..
        · exact List.mem_cons_of_mem _ (g2 q hq hk)

/-- the cluster a block request goes to -/
def destCluster : KeepDest → Str
  | .svc r => r
  | .ext x => x

/-- What one `Get` may send, for caller's token `tok` and locator parts `H` (hash and hints), on a
process whose client cache is `cached`. -/
def KeepEventOK (mac : Str → Str → List UInt8) (cfg : List Str) (tok : Str) (H cached : List Str) :
    KeepEvent → Prop
  | .discovery r a => KeepApiOK cfg H cached (.discovery r a)
  | .services r a => KeepApiOK cfg H cached (.services r a)
  | .block d _ a =>
    ∃ r t, KeepGood mac cfg tok H r t ∧ a = sOAuth2sp ++ t ∧
      (d = .svc r ∨ ∃ x, d = .ext x ∧ (sKAt ++ x) ∈ H ∧ x.length = 5)

theorem mem_proxyHints (parts : List Str) (x : Str) (h : x ∈ proxyHints parts) :
    ∃ q ∈ parts, isProxyHint q = true ∧ x = q.drop 2 := by
  unfold proxyHints at h
  simp only [List.mem_filterMap] at h
  obtain ⟨q, hq, hx⟩ := h
  split at hx
  · rename_i hk
    simp only [Option.some.injEq] at hx
    exact ⟨q, hq, hk, hx.symm⟩
  · cases hx

theorem keepProxyGet_spec (mac : Str → Str → List UInt8) (cfg cached : List Str) (auths : List Str)
    (hash : Str) (hints : List Str) :
    (∀ x ∈ cached, x ∈ (keepProxyGet mac cfg cached auths hash hints).1) ∧
    ∀ ev ∈ (keepProxyGet mac cfg cached auths hash hints).2.events,
      KeepEventOK mac cfg (getAPIToken auths) (hash :: hints) cached ev := by
  have hsub : ∀ p ∈ hints, p ∈ hash :: hints := fun p hp => List.mem_cons_of_mem _ hp
  obtain ⟨h1, h2, h3⟩ := keepHints_spec mac cfg (getAPIToken auths) (hash :: hints) hints hsub cached none
    (by intro r t h; cases h)
  have hapi : ∀ ev, KeepApiOK cfg (hash :: hints) cached ev →
      KeepEventOK mac cfg (getAPIToken auths) (hash :: hints) cached ev := by
    intro ev h
    cases ev with
    | discovery r a => exact h
    | services r a => exact h
    | block d l a => exact h.elim
  unfold keepProxyGet
  simp only
  split
  · exact ⟨fun x hx => hx, by simp⟩
  · rcases hres : keepHints mac cfg (getAPIToken auths) hints cached none with ⟨c, evs, out⟩
    rw [hres] at h1 h2 h3
    simp only at h1 h2 h3
    cases out with
    | refused st => exact ⟨h1, fun ev hev => hapi ev (h2 ev hev)⟩
    | done cl ps =>
      cases cl with
      | none => exact ⟨h1, fun ev hev => hapi ev (h2 ev hev)⟩
      | some rt =>
        obtain ⟨r, t⟩ := rt
        obtain ⟨g1, g2⟩ := h3 (some (r, t)) ps rfl
        have hgood := g1 r t rfl
        simp only
        split
        · exact ⟨h1, fun ev hev => hapi ev (h2 ev hev)⟩
        · refine ⟨h1, ?_⟩
          intro ev hev
          simp only [List.mem_append, List.mem_map, List.mem_cons, List.mem_nil_iff, or_false] at hev
          rcases hev with (hev | ⟨x, hx, rfl⟩) | rfl
          · exact hapi ev (h2 ev hev)
          · refine ⟨r, t, hgood, rfl, Or.inr ⟨x, rfl, ?_⟩⟩
            obtain ⟨q, hq, hk, rfl⟩ := mem_proxyHints _ x hx
            obtain ⟨e1, e2⟩ := isProxyHint_spec q hk
            refine ⟨?_, e2⟩
            rw [← e1]
            simp only [List.mem_cons] at hq ⊢
            rcases hq with rfl | hq
            · exact Or.inl rfl
            · exact Or.inr (g2 q hq hk)
          · exact ⟨r, t, hgood, rfl, Or.inl rfl⟩

end ArvVerif.C19
