/-
C06(a) proofs: the executable list endpoint `serve` (filter, insertion sort by (modified_at, uuid), take
`limit`) returns a page in the sense of `PageOf`, provided uuids are unique and `limit ≥ 1`.
-/
import ArvVerif.Proofs.C06_Paging
namespace ArvVerif.C06

theorem pageOf_take (db l : List Coll) (f : Filt) (limit : Nat) (hl : 0 < limit)
    (hmem : ∀ c, c ∈ l ↔ (c ∈ db ∧ f.ok c))
    (hsorted : l.Pairwise (fun a b => klt a.key b.key)) :
    PageOf db f limit (l.take limit) := by
  refine ⟨?_, ?_, ?_⟩
  · intro c hc; exact (hmem c).1 (List.mem_of_mem_take hc)
  · exact hsorted.sublist (List.take_sublist _ _)
  · intro c hc hok hnot
    have hcl : c ∈ l := (hmem c).2 ⟨hc, hok⟩
    have hsplit : l = l.take limit ++ l.drop limit := (List.take_append_drop limit l).symm
    have hcd : c ∈ l.drop limit := by
      rw [hsplit] at hcl
      rcases List.mem_append.mp hcl with h | h
      · exact absurd h hnot
      · exact h
    constructor
    · intro hnil
      cases l with
      | nil => simp at hcl
      | cons a t =>
        cases limit with
        | zero => omega
        | succ n => simp at hnil
    · intro p hp
      rw [hsplit] at hsorted
      exact (List.pairwise_append.mp hsorted).2.2 p hp c hcd

theorem kleB_trans (a b c : Coll) : kleB a b = true → kleB b c = true → kleB a c = true := by
  unfold kleB; simp only [decide_eq_true_eq]; omega

theorem kleB_total (a b : Coll) : (kleB a b || kleB b a) = true := by
  unfold kleB; simp only [Bool.or_eq_true, decide_eq_true_eq]; omega

theorem insertBy_perm (le : Coll → Coll → Bool) (a : Coll) : ∀ l, (insertBy le a l).Perm (a :: l) := by
  intro l
  induction l with
  | nil => exact List.Perm.refl _
  | cons b t ih =>
    unfold insertBy
    split
    · exact List.Perm.refl _
    · exact (List.Perm.cons b ih).trans (List.Perm.swap a b t)

theorem isort_perm (le : Coll → Coll → Bool) : ∀ l, (isort le l).Perm l := by
  intro l
  induction l with
  | nil => exact List.Perm.refl _
  | cons a t ih => exact (insertBy_perm le a _).trans (List.Perm.cons a ih)

theorem insertBy_sorted (a : Coll) : ∀ l, l.Pairwise (fun x y => kleB x y = true) →
    (insertBy kleB a l).Pairwise (fun x y => kleB x y = true) := by
  intro l
  induction l with
  | nil => intro _; simp [insertBy]
  | cons b t ih =>
    intro h
    have hc := List.pairwise_cons.mp h
    unfold insertBy
    split
    · rename_i hab
      refine List.pairwise_cons.mpr ⟨?_, h⟩
      intro y hy
      rcases List.mem_cons.mp hy with rfl | hy'
      · exact hab
      · exact kleB_trans _ _ _ hab (hc.1 y hy')
    · rename_i hab
      have hba : kleB b a = true := by
        have := kleB_total a b
        simp only [Bool.or_eq_true] at this
        rcases this with h1 | h1
        · exact absurd h1 hab
        · exact h1
      refine List.pairwise_cons.mpr ⟨?_, ih hc.2⟩
      intro y hy
      rcases List.mem_cons.mp ((insertBy_perm kleB a t).mem_iff.mp hy) with rfl | hy'
      · exact hba
      · exact hc.1 y hy'

theorem isort_sorted : ∀ l, (isort kleB l).Pairwise (fun x y => kleB x y = true) := by
  intro l
  induction l with
  | nil => simp [isort]
  | cons a t ih => exact insertBy_sorted a _ ih

theorem serve_pageOf (db : List Coll) (f : Filt) (limit : Nat) (hl : 0 < limit)
    (hnd : (db.map Coll.uuid).Nodup) : PageOf db f limit (serve db f limit) := by
  unfold serve
  apply pageOf_take db _ f limit hl
  · intro c
    rw [(isort_perm _ _).mem_iff, List.mem_filter]
    simp
  · have hs : (isort kleB (db.filter (fun c => decide (f.ok c)))).Pairwise (fun a b => kleB a b = true) :=
      isort_sorted _
    have hsub : ((db.filter (fun c => decide (f.ok c))).map Coll.uuid).Nodup :=
      hnd.sublist (List.filter_sublist.map _)
    have hn : ((isort kleB (db.filter (fun c => decide (f.ok c)))).map Coll.uuid).Nodup :=
      ((isort_perm _ _).map _).nodup_iff.mpr hsub
    have hn' := List.pairwise_map.mp hn
    refine (hs.and hn').imp ?_
    intro a b ⟨h1, h2⟩
    unfold kleB at h1
    simp only [decide_eq_true_eq] at h1
    simp only [klt, Coll.key]
    omega

end ArvVerif.C06
