/-
C06(a) proofs: the executable list endpoint `serve` (filter, mergeSort by (modified_at, uuid), take
`limit`) returns a page in the sense of `PageOf`, provided uuids are unique and `limit ≥ 1`.
-/
import ArvVerif.Proofs.C06_Paging
namespace ArvVerif.C06

theorem pageOf_take (db l : List Coll) (f : Filt) (limit : Nat) (hl : 0 < limit)
    (hmem : ∀ c, c ∈ l ↔ (c ∈ db ∧ f.ok c))
    (hsorted : l.Pairwise (fun a b => klt a.key b.key)) :
    PageOf db f limit (l.take limit) := by
  refine ⟨?_, ?_, ?_⟩
  · intro c hc; exact (hmem c).1 (List.mem_of_mem_take hc)
  · exact hsorted.sublist (List.take_sublist _ _)
  · intro c hc hok hnot
    have hcl : c ∈ l := (hmem c).2 ⟨hc, hok⟩
    have hsplit : l = l.take limit ++ l.drop limit := (List.take_append_drop limit l).symm
    have hcd : c ∈ l.drop limit := by
      rw [hsplit] at hcl
      rcases List.mem_append.mp hcl with h | h
      · exact absurd h hnot
      · exact h
    constructor
    · intro hnil
      cases l with
      | nil => simp at hcl
      | cons a t =>
        cases limit with
        | zero => omega
        | succ n => simp at hnil
    · intro p hp
      rw [hsplit] at hsorted
      exact (List.pairwise_append.mp hsorted).2.2 p hp c hcd

theorem kleB_trans (a b c : Coll) : kleB a b = true → kleB b c = true → kleB a c = true := by
  unfold kleB; simp only [decide_eq_true_eq]; omega

theorem kleB_total (a b : Coll) : (kleB a b || kleB b a) = true := by
  unfold kleB; simp only [Bool.or_eq_true, decide_eq_true_eq]; omega

theorem serve_pageOf (db : List Coll) (f : Filt) (limit : Nat) (hl : 0 < limit)
    (hnd : (db.map Coll.uuid).Nodup) : PageOf db f limit (serve db f limit) := by
  unfold serve
  apply pageOf_take db _ f limit hl
  · intro c
    rw [(List.mergeSort_perm _ _).mem_iff, List.mem_filter]
    simp
  · have hs : ((db.filter (fun c => decide (f.ok c))).mergeSort kleB).Pairwise (fun a b => kleB a b = true) :=
      List.pairwise_mergeSort kleB_trans kleB_total _
    have hsub : ((db.filter (fun c => decide (f.ok c))).map Coll.uuid).Nodup :=
      hnd.sublist (List.filter_sublist.map _)
    have hn : (((db.filter (fun c => decide (f.ok c))).mergeSort kleB).map Coll.uuid).Nodup :=
      ((List.mergeSort_perm _ _).map _).nodup_iff.mpr hsub
    have hn' := List.pairwise_map.mp hn
    refine (hs.and hn').imp ?_
    intro a b ⟨h1, h2⟩
    unfold kleB at h1
    simp only [decide_eq_true_eq] at h1
    simp only [klt, Coll.key]
    omega

end ArvVerif.C06
