/-
C02 helper lemmas, part 4: putWithPipe's contract towards the writer.
-/
import ArvVerif.Model.C02
namespace ArvVerif.C02

/-- Inductive invariant of `PStep`. -/
structure PInv (s : Pipe) : Prop where
  pre : s.got.flatten <+: s.body
  copy : s.copyDone = true → s.got.flatten = s.body
  main : s.mainErr = some false → s.got.flatten = s.body ∨ s.writer = .returned true
  closed : ∀ e, s.closed = some e → s.mainErr = some e
  eof : s.writer = .sawEOF → s.closed = some false
  err : s.writer = .sawErr → s.closed = some true

theorem pinv_init (body : Bytes) : PInv (Pipe.init body) := by
  constructor <;> simp [Pipe.init]

theorem prefix_full_no_more {body c : Bytes} (h : (body ++ c) <+: body) : c = [] := by
  have := h.length_le
  simp at this
  exact List.eq_nil_of_length_eq_zero (by omega)

theorem pinv_step {s t : Pipe} (hi : PInv s) (hs : PStep s t) : PInv t := by
  cases hs with
  | read c hw hc hne hp =>
    refine ⟨by simpa using hp, ?_, ?_, hi.closed, ?_, ?_⟩
    · intro h
      have := hi.copy h
      rw [this] at hp
      exact absurd (prefix_full_no_more hp) hne
    · intro h
      rcases hi.main h with h1 | h1
      · rw [h1] at hp
        exact absurd (prefix_full_no_more hp) hne
      · simp [hw] at h1
    · intro h; simp [hw] at h
    · intro h; simp [hw] at h
  | copyFinish hm hg =>
    exact ⟨hi.pre, fun _ => hg, fun h => by simp [hm] at h, hi.closed, hi.eof, hi.err⟩
  | cancel => exact ⟨hi.pre, hi.copy, hi.main, hi.closed, hi.eof, hi.err⟩
  | selectCopy hm hc =>
    refine ⟨hi.pre, hi.copy, fun _ => Or.inl (hi.copy hc), ?_, hi.eof, hi.err⟩
    intro e he
    have := hi.closed e he
    simp [hm] at this
  | selectCtx hm hc =>
    refine ⟨hi.pre, hi.copy, fun h => by simp at h, ?_, hi.eof, hi.err⟩
    intro e he
    have := hi.closed e he
    simp [hm] at this
  | selectPut ok hm hw =>
    refine ⟨hi.pre, hi.copy, ?_, ?_, hi.eof, hi.err⟩
    · intro h
      cases ok
      · simp at h
      · exact Or.inr hw
    · intro e he
      have := hi.closed e he
      simp [hm] at this
  | close e hm hc =>
    refine ⟨hi.pre, hi.copy, hi.main, ?_, ?_, ?_⟩
    · intro e' he'
      simp at he'
      subst he'
      exact hm
    · intro h; have := hi.eof h; simp [hc] at this
    · intro h; have := hi.err h; simp [hc] at this
  | seeEOF hw hc =>
    refine ⟨hi.pre, hi.copy, ?_, hi.closed, fun _ => hc, fun h => by simp at h⟩
    intro h
    rcases hi.main h with h1 | h1
    · exact Or.inl h1
    · simp [hw] at h1
  | seeErr hw hc =>
    refine ⟨hi.pre, hi.copy, ?_, hi.closed, fun h => by simp at h, fun _ => hc⟩
    intro h
    rcases hi.main h with h1 | h1
    · exact Or.inl h1
    · simp [hw] at h1
  | giveUp hw =>
    refine ⟨hi.pre, hi.copy, ?_, hi.closed, fun h => by simp at h, fun h => by simp at h⟩
    intro h
    rcases hi.main h with h1 | h1
    · exact Or.inl h1
    · simp [hw] at h1

theorem pinv_reach {body : Bytes} {s : Pipe} (h : PReach body s) : PInv s ∧ s.body = body := by
  induction h with
  | init => exact ⟨pinv_init body, rfl⟩
  | step _ hs ih =>
    refine ⟨pinv_step ih.1 hs, ?_⟩
    rw [← ih.2]
    cases hs <;> rfl

end ArvVerif.C02
