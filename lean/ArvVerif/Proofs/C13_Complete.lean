/-
C13 helper lemmas, part 2: a completion step (the goroutine tail of pruneMemSegments / async
commitBlock after PutB returned) preserves the invariant and the abstract state, whatever it is
given: any segment reference, any token, success or failure, at any time.
-/
import ArvVerif.Proofs.C13_Sim
namespace ArvVerif.C13
open ArvVerif.C08

variable {max : Nat} {hash : Bytes → Loc}

theorem completeRef_spec {s : St} (hinv : Inv13 max hash s) (ok : Bool) (r : Nat × Nat × Nat) :
    Inv13 max hash { s with fs := completeRef hash max s.toks ok s.fs r } ∧
    absFS (completeRef hash max s.toks ok s.fs r) = absFS s.fs := by
  unfold completeRef
  cases ok with
  | false => exact ⟨hinv, rfl⟩
  | true =>
    simp only [Bool.not_true, Bool.false_eq_true, if_false]
    cases htk : s.toks[r.2.2]? with
    | none => exact ⟨hinv, rfl⟩
    | some tk =>
      cases hseg : segAt s.fs r.1 r.2.1 with
      | none => exact ⟨hinv, rfl⟩
      | some sg =>
        cases sg with
        | stored loc size off l => exact ⟨hinv, rfl⟩
        | mem buf fl =>
          cases fl with
          | none => exact ⟨hinv, rfl⟩
          | stale => exact ⟨hinv, rfl⟩
          | pending t l =>
            simp only []
            split
            · next hg =>
              obtain ⟨ht, hl, _⟩ := hg
              obtain ⟨nf, hf, hi⟩ := segAt_eq hseg
              have hm := hinv.marks nf (List.mem_of_getElem? hf) _ (List.mem_of_getElem? hi)
              obtain ⟨_, tk', h1, h2, h3⟩ := hm
              rw [ht, htk] at h1
              cases h1
              have hwf0 := (hinv.base.files nf (List.mem_of_getElem? hf)).1.segs _ (List.mem_of_getElem? hi)
              have hpos : 0 < buf.length := hwf0.1
              have hlen : buf.length ≤ tk.block.length - tk.off := by
                have := congrArg List.length h2
                simp only [List.length_take, List.length_drop] at this
                omega
              apply hinv.setSeg hf hi
              · rfl
              · rw [Seg.bytes_stored h3]; exact h2.symm
              · exact ⟨hpos, by omega, tk.block, h3, rfl⟩
              · trivial
            · exact ⟨hinv, rfl⟩

theorem completeRefs_spec (ok : Bool) : ∀ (refs : List (Nat × Nat × Nat)) {s : St}, Inv13 max hash s →
    Inv13 max hash { s with fs := completeRefs hash max s.toks ok s.fs refs } ∧
    absFS (completeRefs hash max s.toks ok s.fs refs) = absFS s.fs := by
  intro refs
  induction refs with
  | nil => intro s hinv; exact ⟨hinv, rfl⟩
  | cons r rest ih =>
    intro s hinv
    obtain ⟨h1, h2⟩ := completeRef_spec hinv ok r
    obtain ⟨h3, h4⟩ := ih h1
    exact ⟨h3, by rw [← h2]; exact h4⟩

theorem complete_spec {s : St} (hinv : Inv13 max hash s) (g : Nat) (ok : Bool) :
    Inv13 max hash (complete hash max s g ok).1 ∧ absFS (complete hash max s g ok).1.fs = absFS s.fs := by
  unfold complete
  cases hg : s.groups[g]? with
  | none => exact ⟨hinv, rfl⟩
  | some grp =>
    simp only []
    split
    · obtain ⟨h1, h2⟩ := completeRefs_spec ok grp.refs hinv
      exact ⟨⟨h1.base, h1.marks⟩, h2⟩
    · exact ⟨hinv, rfl⟩

theorem completeAll_spec (mask : Nat) : ∀ (fuel : Nat) {s : St} (g : Nat), Inv13 max hash s →
    Inv13 max hash (completeAll hash max mask fuel s g) ∧ absFS (completeAll hash max mask fuel s g).fs = absFS s.fs := by
  intro fuel
  induction fuel with
  | zero => intro s g hinv; exact ⟨hinv, rfl⟩
  | succ fuel ih =>
    intro s g hinv
    unfold completeAll
    split
    · exact ⟨hinv, rfl⟩
    · obtain ⟨h1, h2⟩ := complete_spec hinv g (mask.testBit (g % 30))
      obtain ⟨h3, h4⟩ := ih (g + 1) h1
      exact ⟨h3, by rw [← h2]; exact h4⟩

/-! ### what a completion does to the segments: exactly the guarded replacement -/

/-- A failed PutB leaves everything as it is. -/
theorem completeRef_failed (toks : List Tok) (fs : Conc) (r : Nat × Nat × Nat) :
    completeRef hash max toks false fs r = fs := by
  simp [completeRef]

/-- If the segment at the captured index is not a mem segment carrying this very token (it was
overwritten — copy-on-write gave it a new buffer and reset `flushing` —, dropped, moved, replaced by
another flush, or the index is past the end), the completion is a no-op: stale data is never put
back. -/
theorem completeRef_guard (toks : List Tok) (ok : Bool) (fs : Conc) (r : Nat × Nat × Nat)
    (h : ∀ buf, segAt fs r.1 r.2.1 ≠ some (Seg.mem buf (mark max r.2.2))) :
    completeRef hash max toks ok fs r = fs := by
  unfold completeRef
  split
  · rfl
  · split
    · next tk buf t l _ hseg =>
      split
      · next hg =>
        exfalso
        apply h buf
        rw [hseg, hg.1, hg.2.1]; rfl
      · rfl
    · rfl

/-- pruneMemSegments' extra guard: a segment that was resized since the hand-off is left alone. -/
theorem completeRef_resized (toks : List Tok) (ok : Bool) (fs : Conc) (r : Nat × Nat × Nat) {tk : Tok} {n : Nat}
    {buf : Bytes} {fl : Flush}
    (htk : toks[r.2.2]? = some tk) (hp : tk.plen = some n) (hseg : segAt fs r.1 r.2.1 = some (Seg.mem buf fl))
    (hne : buf.length ≠ n) : completeRef hash max toks ok fs r = fs := by
  unfold completeRef
  split
  · rfl
  · rw [htk, hseg]
    cases fl with
    | none => rfl
    | stale => rfl
    | pending t l =>
      simp only []
      split
      · next hg =>
        exfalso
        rcases hg.2.2 with h | h
        · rw [hp] at h; cases h
        · rw [hp] at h; cases h; exact hne rfl
      · rfl

/-- When all guards hold and PutB succeeded, the segment becomes a stored segment pointing at the
handed-off block, with the segment's current length. -/
theorem completeRef_replaces (toks : List Tok) (fs : Conc) (r : Nat × Nat × Nat) {tk : Tok} {buf : Bytes}
    (htk : toks[r.2.2]? = some tk) (hseg : segAt fs r.1 r.2.1 = some (Seg.mem buf (mark max r.2.2)))
    (hp : tk.plen = none ∨ tk.plen = some buf.length) :
    completeRef hash max toks true fs r =
      setSegAt fs r.1 r.2.1 (Seg.stored (hash tk.block) tk.block.length tk.off buf.length) := by
  unfold completeRef
  simp only [Bool.not_true, Bool.false_eq_true, if_false, htk, hseg, mark]
  rw [if_pos ⟨trivial, trivial, hp⟩]

end ArvVerif.C13
