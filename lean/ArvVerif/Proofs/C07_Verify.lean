/-
C07 helper lemmas, part 4: `verifySignature` in terms of the grammar; signing produces a string of
the grammar.
-/
import ArvVerif.Proofs.C07_Msg
namespace ArvVerif.C07
variable (mac : Str → Str → List UInt8)

/-- the verdict as a function of the (unique) parse -/
def verdictOf (sig expected : Str) (t : Nat) (nowNs : Int) : Verdict :=
  if (t : Int) * 1000000000 < nowNs then .expired
  else if sig ≠ expected then .invalid else .ok

theorem verify_of_matchSigned {s hash sig e : Str} (h : matchSigned s = some (hash, sig, e))
    (tok : Str) (ttlNs : Int) (key : Str) (nowNs : Int) :
    ∃ t : Nat, t < 2 ^ 32 ∧ hexNat? e 0 = some t ∧
      verifySignature mac s tok ttlNs key nowNs =
        verdictOf sig (makePermSignature mac hash tok e (ttlHex ttlNs) key) t nowNs := by
  obtain ⟨_, _, _, _, _, _, _, _, _, _, el, ex, _⟩ := isSignedLocator_of_matchSigned h
  obtain ⟨t, hlt, hv, hp⟩ := parseHexTimestamp_xdigits el ex
  refine ⟨t, hlt, hv, ?_⟩
  simp only [verifySignature, h, hp, verdictOf, expiredAt, decide_eq_true_eq]

theorem verify_of_isSignedLocator {s hash sig e : Str} (h : IsSignedLocator s hash sig e)
    (tok : Str) (ttlNs : Int) (key : Str) (nowNs : Int) :
    ∃ t : Nat, t < 2 ^ 32 ∧ hexNat? e 0 = some t ∧
      verifySignature mac s tok ttlNs key nowNs =
        verdictOf sig (makePermSignature mac hash tok e (ttlHex ttlNs) key) t nowNs :=
  verify_of_matchSigned mac (matchSigned_of_isSignedLocator h) tok ttlNs key nowNs

theorem verify_of_no_match {s : Str} (h : matchSigned s = none)
    (tok : Str) (ttlNs : Int) (key : Str) (nowNs : Int) :
    verifySignature mac s tok ttlNs key nowNs = .missing := by
  simp [verifySignature, h]

theorem verdictOf_ne_missing (sig expected : Str) (t : Nat) (nowNs : Int) :
    verdictOf sig expected t nowNs ≠ .missing := by
  unfold verdictOf; split
  · simp
  · split <;> simp

/-- a well-formed unsigned locator: hash, optional size, hints -/
def IsUnsignedLocator (loc hash : Str) : Prop :=
  ∃ (size hs : List Str),
    loc = hash ++ hints (size ++ hs) ∧ hash.length = 32 ∧ hash.all isXDigit = true ∧
    (size = [] ∨ ∃ d, size = [d] ∧ isSizeField d = true) ∧ (∀ f ∈ hs, isOtherHint f = true)

theorem hashPart_hints {hash : Str} (fs : List Str) (hfree : Free '+' hash) :
    hashPart (hash ++ hints fs) = hash := by
  unfold hashPart
  cases fs with
  | nil =>
    simp only [hints_nil, List.append_nil]
    exact takeWhile_eq_self (fun c hc => by simpa using hfree c hc)
  | cons f fs =>
    rw [hints_cons, List.cons_append]
    rw [List.takeWhile_append_of_pos (fun c hc => by simpa using hfree c hc)]
    simp

theorem makePermSignature_shape (hmac : ∀ k m, (mac k m).length = 20) (h t e l k : Str) :
    (makePermSignature mac h t e l k).length = 40 ∧
      (makePermSignature mac h t e l k).all isLowerHex = true := by
  unfold makePermSignature
  exact ⟨by rw [hexOfDigest_length, hmac], hexOfDigest_lowerHex _⟩

/-- `SignLocator` on a well-formed unsigned locator, followed by more hints, is a string of the
signed-locator grammar whose groups are the hash, the MAC text and the formatted expiry -/
theorem signed_isSignedLocator {loc hash tok key : Str} {exp ttlNs : Int} {hs2 : List Str}
    (hloc : IsUnsignedLocator loc hash) (hk : key ≠ []) (ht : tok ≠ [])
    (h0 : 0 ≤ exp) (h32 : exp < 2 ^ 32) (hmac : ∀ k m, (mac k m).length = 20)
    (hh2 : ∀ f ∈ hs2, isOtherHint f = true) :
    IsSignedLocator (signLocator mac loc tok exp ttlNs key ++ hints hs2) hash
      (makePermSignature mac hash tok (fmt08x exp) (ttlHex ttlNs) key) (fmt08x exp) := by
  obtain ⟨size, hs, rfl, hl, hx, hsize, hh⟩ := hloc
  obtain ⟨el, elx, _⟩ := fmt08x_nonneg h0 h32
  obtain ⟨sl, slx⟩ := makePermSignature_shape mac hmac hash tok (fmt08x exp) (ttlHex ttlNs) key
  refine ⟨size, hs, hs2, ?_, hl, hx, hsize, hh, sl, all_isXDigit_of_all_isLowerHex slx, el,
    all_isXDigit_of_all_isLowerHex elx, hh2⟩
  have hke : key.isEmpty = false := by cases key <;> simp_all
  have hte : tok.isEmpty = false := by cases tok <;> simp_all
  have hp := hashPart_hints (size ++ hs) (free_of_all (fun _ => ne_plus_of_isXDigit) hx)
  simp only [signLocator, hke, hte, Bool.or_self, Bool.false_eq_true, if_false, sigHint, hp]
  rw [hints_append (size ++ hs), hints_cons]
  simp [sigField, List.append_assoc]

end ArvVerif.C07
