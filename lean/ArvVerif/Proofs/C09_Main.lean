/-
C09 helper lemmas, part 8: from the stream builder to the manifest semantics. For the lines of a
(flushed) tree, the document's reading of the manifest (`C10.fileContent`: for every file token with
the combined path, in order, the bytes pos…pos+size of the concatenated blocks) gives every file of
the tree exactly its content; plus the bookkeeping that carries well-formedness over a save.
-/
import ArvVerif.Proofs.C09_Text3
namespace ArvVerif.C09

open ArvVerif.C08 (Seg FileNode Store SegWF AllWF)
open ArvVerif.C10 (bSpace bNL bSlash bColon bDot splitOn joinWith specLocator)

variable {max : Nat} {hash : Bytes → C08.Loc}

/-! ### paths -/

theorem splitOn_prefixOf (path : List Bytes) (h : ∀ c ∈ path, bSlash ∉ c) :
    splitOn bSlash (prefixOf path) = [bDot] :: path := by
  unfold prefixOf
  apply C10.splitOn_joinWith bSlash _ (by simp)
  intro p hp
  rcases List.mem_cons.mp hp with rfl | hp
  · decide
  · exact h p hp

theorem pathOf_prefixOf (path : List Bytes) (n : Bytes) :
    C10.pathOf (prefixOf path) n = prefixOf (path ++ [n]) := by
  unfold C10.pathOf prefixOf
  rw [← List.cons_append, C10.joinWith_append bSlash ([bDot] :: path) [n] (by simp) (by simp)]
  rfl

/-- combined paths of different (directory, name) pairs differ -/
theorem pathOf_inj {p1 p2 : List Bytes} {n1 n2 : Bytes} (h1 : ∀ c ∈ p1, bSlash ∉ c) (h2 : ∀ c ∈ p2, bSlash ∉ c)
    (hn1 : bSlash ∉ n1) (hn2 : bSlash ∉ n2)
    (h : C10.pathOf (prefixOf p1) n1 = C10.pathOf (prefixOf p2) n2) : p1 = p2 ∧ n1 = n2 := by
  rw [pathOf_prefixOf, pathOf_prefixOf] at h
  have e1 := splitOn_prefixOf (p1 ++ [n1]) (by
    intro c hc; rcases List.mem_append.mp hc with hc | hc
    · exact h1 c hc
    · simp at hc; subst hc; exact hn1)
  have e2 := splitOn_prefixOf (p2 ++ [n2]) (by
    intro c hc; rcases List.mem_append.mp hc with hc | hc
    · exact h2 c hc
    · simp at hc; subst hc; exact hn2)
  rw [h, e2] at e1
  have := (List.cons.inj e1).2
  have hh := List.append_inj' this.symm rfl
  exact ⟨hh.1, by simpa using hh.2⟩

/-! ### one stream -/

/-- the file tokens of a stream named `n`, read as the document says, are `contentRev` -/
theorem tokens_content (S : Bytes) (sname n : Bytes) : ∀ (parts : List Part),
    (parts.reverse.map fun p => (⟨p.off, p.len, p.name⟩ : C10.FTok)).flatMap (fun f =>
      if C10.pathOf sname f.name = C10.pathOf sname n then (S.drop f.pos).take f.len else []) =
    contentRev S n parts
  | [] => rfl
  | p :: ps => by
    simp only [List.reverse_cons, List.map_append, List.flatMap_append, List.map_cons, List.map_nil,
      List.flatMap_cons, List.flatMap_nil, List.append_nil, contentRev]
    rw [tokens_content S sname n ps]
    congr 1
    by_cases hn : p.name = n
    · simp [hn, partBytes, C10.slice]
    · have : ¬ C10.pathOf sname p.name = C10.pathOf sname n := by
        intro h; apply hn
        unfold C10.pathOf at h
        simpa using List.append_cancel_left h
      simp [hn, this]

/-- with no block at all every part is empty -/
theorem contentRev_nil_of_empty (S : Bytes) (n : Bytes) : ∀ (parts : List Part), (∀ p ∈ parts, p.len = 0) →
    contentRev S n parts = []
  | [], _ => rfl
  | p :: ps, h => by
    unfold contentRev
    rw [contentRev_nil_of_empty S n ps (fun q hq => h q (List.mem_cons_of_mem _ hq))]
    by_cases hn : p.name = n
    · simp [hn, partBytes, C10.slice, h p (by simp)]
    · simp [hn]

/-- **the stream of one directory, read as the document says** -/
theorem stream_content {st : Store} (path : List Bytes) (e : Emit) (hinv : EInv st e) (n : Bytes) :
    C10.fileContent (blkOf st) [streamOfEmit path e] (C10.pathOf (prefixOf path) n) =
      contentRev (streamOf st e) n e.partsRev := by
  unfold C10.fileContent streamOfEmit
  simp only [List.flatMap_cons, List.flatMap_nil, List.append_nil]
  rw [tokens_content]
  by_cases hb : e.blocksRev.isEmpty = true
  · rw [if_pos hb]
    have h0 : e.len = 0 := by rw [hinv.len, List.isEmpty_iff.mp hb]; rfl
    have hz : ∀ p ∈ e.partsRev, p.len = 0 := fun p hp => by have := hinv.parts p hp; omega
    rw [contentRev_nil_of_empty _ n _ hz, contentRev_nil_of_empty _ n _ hz]
  · rw [if_neg hb]; rfl

theorem flatMap_unique {α : Type} (l : List (Bytes × α)) (g : α → Bytes) (hnd : (l.map (·.1)).Nodup)
    (f : Bytes × α) (hf : f ∈ l) :
    (l.flatMap fun x => if x.1 = f.1 then g x.2 else []) = g f.2 := by
  induction l with
  | nil => cases hf
  | cons x rest ih =>
    simp only [List.map_cons, List.nodup_cons] at hnd
    simp only [List.flatMap_cons]
    rcases List.mem_cons.mp hf with rfl | hf
    · simp only [if_true]
      have : (rest.flatMap fun x => if x.1 = f.1 then g x.2 else []) = [] := by
        rw [List.flatMap_eq_nil_iff]
        intro y hy
        have : y.1 ≠ f.1 := fun h => hnd.1 (by rw [← h]; exact List.mem_map.mpr ⟨y, hy, rfl⟩)
        simp [this]
      rw [this, List.append_nil]
    · have : x.1 ≠ f.1 := fun h => hnd.1 (by rw [h]; exact List.mem_map.mpr ⟨f, hf, rfl⟩)
      simp only [this, if_false, List.nil_append]
      exact ih hnd.2 hf

/-- the lines of one directory give each of its files its content -/
theorem dirLines_content {st : Store} {d : Dir9} {L : List Line9} (hsegs : ∀ f ∈ d.files, ∀ s ∈ f.2.segs, SegWF max hash st s)
    (hnd : (d.files.map (·.1)).Nodup) (hL : dirLines d = some L) (f : Bytes × FileNode) (hf : f ∈ d.files) :
    C10.fileContent (blkOf st) (streamsOf L) (C10.pathOf (prefixOf d.path) f.1) = C08.abs st f.2 := by
  unfold dirLines at hL
  have hne : ¬ d.isEmpty = true := by
    intro h
    unfold Dir9.isEmpty at h
    simp only [Bool.and_eq_true] at h
    rw [List.isEmpty_iff.mp h.1] at hf; cases hf
  rw [if_neg hne] at hL
  cases hem : emitFiles ⟨[], 0, []⟩ d.files with
  | none => rw [hem] at hL; cases hL
  | some e =>
    rw [hem] at hL
    simp only [Option.some.injEq] at hL
    obtain ⟨hinv, hcontent, _, _⟩ := emitFiles_spec (max := max) (hash := hash) d.files _ e (einv_init st) hsegs hem
    have hpart := emitFiles_keeps f.1 d.files _ e hem (Or.inr ⟨f, hf, rfl⟩)
    have hpe : ¬ e.partsRev.isEmpty = true := by
      intro h
      obtain ⟨p, hp, _⟩ := hpart
      rw [List.isEmpty_iff.mp h] at hp; cases hp
    rw [if_neg hpe] at hL
    subst hL
    simp only [streamsOf]
    rw [stream_content d.path e hinv f.1, hcontent f.1]
    simp only [contentRev, List.nil_append]
    exact flatMap_unique d.files (C08.abs st) hnd f hf

theorem fileContent_append (blk : Bytes → Bytes) (a b : C10.Manifest) (p : Bytes) :
    C10.fileContent blk (a ++ b) p = C10.fileContent blk a p ++ C10.fileContent blk b p := by
  simp [C10.fileContent]

theorem streamsOf_append (a b : List Line9) : streamsOf (a ++ b) = streamsOf a ++ streamsOf b := by
  induction a with
  | nil => rfl
  | cons x rest ih => cases x <;> simp [streamsOf, ih]

/-- the lines of a directory hold no token for a path of another directory -/
theorem dirLines_other {st : Store} {d : Dir9} {L : List Line9} (hL : dirLines d = some L)
    (hparts : ∀ e, emitFiles ⟨[], 0, []⟩ d.files = some e → ∀ p ∈ e.partsRev, ∃ f ∈ d.files, p.name = f.1)
    (hd : ∀ c ∈ d.path, bSlash ∉ c) (hdn : ∀ f ∈ d.files, bSlash ∉ f.1)
    (path : List Bytes) (n : Bytes) (hp : ∀ c ∈ path, bSlash ∉ c) (hn : bSlash ∉ n) (hne : path ≠ d.path) :
    C10.fileContent (blkOf st) (streamsOf L) (C10.pathOf (prefixOf path) n) = [] := by
  unfold dirLines at hL
  by_cases he : d.isEmpty = true
  · rw [if_pos he] at hL
    simp only [Option.some.injEq] at hL
    subst hL
    split <;> rfl
  · rw [if_neg he] at hL
    cases hem : emitFiles ⟨[], 0, []⟩ d.files with
    | none => rw [hem] at hL; cases hL
    | some e =>
      rw [hem] at hL
      simp only [Option.some.injEq] at hL
      subst hL
      split
      · rfl
      · simp only [streamsOf, C10.fileContent, List.flatMap_cons, List.flatMap_nil, List.append_nil]
        rw [List.flatMap_eq_nil_iff]
        intro ft hft
        have hno : ¬ C10.pathOf (streamOfEmit d.path e).name ft.name = C10.pathOf (prefixOf path) n := by
          intro h
          simp only [streamOfEmit, List.mem_map, List.mem_reverse] at hft
          obtain ⟨p, hp', rfl⟩ := hft
          obtain ⟨f, hf, hpn⟩ := hparts e hem p hp'
          simp only [streamOfEmit] at h
          have := pathOf_inj hd hp (by rw [hpn]; exact hdn f hf) hn h
          exact hne this.1.symm
        simp [hno]

/-- shape of the directory list: distinct directories, distinct names inside each, no '/' inside a name -/
structure TreeShape (t : Tree9) : Prop where
  paths_nodup : (dirPaths t).Nodup
  names_nodup : ∀ d ∈ t, (d.files.map (·.1)).Nodup
  noslash : ∀ d ∈ t, (∀ c ∈ d.path, bSlash ∉ c) ∧ ∀ f ∈ d.files, bSlash ∉ f.1

/-- **the manifest of a tree, read as the document says, gives every file its content** -/
theorem treeLines_content {st : Store} : ∀ (t : Tree9) (L : List Line9), TreeShape t →
    (∀ d ∈ t, ∀ f ∈ d.files, ∀ s ∈ f.2.segs, SegWF max hash st s) → treeLines t = some L →
    ∀ d ∈ t, ∀ f ∈ d.files,
      C10.fileContent (blkOf st) (streamsOf L) (C10.pathOf (prefixOf d.path) f.1) = C08.abs st f.2
  | [], _, _, _, _, d, hd, _, _ => by cases hd
  | d0 :: rest, L, hshape, hsegs, hL, d, hd, f, hf => by
    unfold treeLines at hL
    cases h1 : dirLines d0 with
    | none => rw [h1] at hL; cases hL
    | some a =>
      cases h2 : treeLines rest with
      | none => rw [h1, h2] at hL; cases hL
      | some b =>
        rw [h1, h2] at hL
        simp only [Option.some.injEq] at hL
        subst hL
        rw [streamsOf_append, fileContent_append]
        have hshape' : TreeShape rest :=
          ⟨(List.nodup_cons.mp hshape.paths_nodup).2, fun x hx => hshape.names_nodup x (List.mem_cons_of_mem _ hx),
           fun x hx => hshape.noslash x (List.mem_cons_of_mem _ hx)⟩
        have hparts0 : ∀ (dd : Dir9), dd ∈ d0 :: rest → ∀ e, emitFiles ⟨[], 0, []⟩ dd.files = some e →
            ∀ p ∈ e.partsRev, ∃ f ∈ dd.files, p.name = f.1 := by
          intro dd hdd e hem p hp
          obtain ⟨_, _, _, h4⟩ := emitFiles_spec (max := max) (hash := hash) dd.files _ e (einv_init st) (hsegs dd hdd) hem
          rcases h4 p hp with h' | h'
          · exact h'
          · cases h'
        rcases List.mem_cons.mp hd with rfl | hd'
        · -- the file's own directory comes first; the rest of the tree has no token for it
          rw [dirLines_content (max := max) (hash := hash) (hsegs d (by simp)) (hshape.names_nodup d (by simp)) h1 f hf]
          have hrest : C10.fileContent (blkOf st) (streamsOf b) (C10.pathOf (prefixOf d.path) f.1) = [] := by
            -- by induction over the rest
            have : ∀ (r : Tree9) (Lr : List Line9), treeLines r = some Lr → (∀ x ∈ r, x ∈ d :: rest) → (∀ x ∈ r, x.path ≠ d.path) →
                C10.fileContent (blkOf st) (streamsOf Lr) (C10.pathOf (prefixOf d.path) f.1) = [] := by
              intro r
              induction r with
              | nil => intro Lr h _ _; simp only [treeLines, Option.some.injEq] at h; subst h; rfl
              | cons x xs ih =>
                intro Lr h hsub hne
                unfold treeLines at h
                cases g1 : dirLines x with
                | none => rw [g1] at h; cases h
                | some a' =>
                  cases g2 : treeLines xs with
                  | none => rw [g1, g2] at h; cases h
                  | some b' =>
                    rw [g1, g2] at h
                    simp only [Option.some.injEq] at h
                    subst h
                    rw [streamsOf_append, fileContent_append,
                      dirLines_other g1 (hparts0 x (hsub x (by simp))) (hshape.noslash x (hsub x (by simp))).1
                        (hshape.noslash x (hsub x (by simp))).2 d.path f.1 (hshape.noslash d (by simp)).1
                        ((hshape.noslash d (by simp)).2 f hf) (fun hh => hne x (by simp) hh.symm),
                      ih b' g2 (fun y hy => hsub y (List.mem_cons_of_mem _ hy)) (fun y hy => hne y (List.mem_cons_of_mem _ hy))]
                    rfl
            apply this rest b h2 (fun x hx => List.mem_cons_of_mem _ hx)
            intro x hx hh
            have := (List.nodup_cons.mp hshape.paths_nodup).1
            apply this
            show d.path ∈ rest.map (·.path)
            rw [← hh]
            exact List.mem_map.mpr ⟨x, hx, rfl⟩
          rw [hrest, List.append_nil]
        · have hne : d.path ≠ d0.path := by
            intro hh
            have := (List.nodup_cons.mp hshape.paths_nodup).1
            apply this
            show d0.path ∈ rest.map (·.path)
            rw [← hh]
            exact List.mem_map.mpr ⟨d, hd', rfl⟩
          rw [dirLines_other h1 (hparts0 d0 (by simp)) (hshape.noslash d0 (by simp)).1 (hshape.noslash d0 (by simp)).2
            d.path f.1 (hshape.noslash d (by simp [hd'])).1 ((hshape.noslash d (by simp [hd'])).2 f hf) hne, List.nil_append]
          exact treeLines_content rest b hshape' (fun x hx => hsegs x (List.mem_cons_of_mem _ hx)) h2 d hd' f hf

end ArvVerif.C09
