/-
C05 helper lemmas, part 3: what the two passes of one class iteration guarantee (code after the
F1/F2 fixes). `replProt` is the replication of a family of protected in-class replicas on pairwise
different physical devices (`FInv.counted`); the second pass tries every slot unless `done`, so at
the end either `replProt ≥ desired` or every replica is covered: wanted, on a wanted device, or
protected. Uses only that mount identities are distinct — no assumption on servers, devices or the
sort order.
-/
import ArvVerif.Proofs.C05Sum
namespace ArvVerif.C05

/-- everything only grows during an iteration -/
structure Grow (st st' : PassSt) : Prop where
  wantMnt : ∀ x, st.wantMnt.contains x = true → st'.wantMnt.contains x = true
  wantDev : ∀ x, st.wantDev.contains x = true → st'.wantDev.contains x = true
  protMnt : ∀ x, st.protMnt.contains x = true → st'.protMnt.contains x = true
  protDev : ∀ x, st.protDev.contains x = true → st'.protDev.contains x = true
  utd : ∀ t ∈ st.utd, t ∈ st'.utd
  replProt : st.replProt ≤ st'.replProt

theorem Grow.refl (st : PassSt) : Grow st st :=
  ⟨fun _ h => h, fun _ h => h, fun _ h => h, fun _ h => h, fun _ h => h, Nat.le_refl _⟩

theorem Grow.trans {a b c : PassSt} (h₁ : Grow a b) (h₂ : Grow b c) : Grow a c :=
  ⟨fun x h => h₂.wantMnt x (h₁.wantMnt x h), fun x h => h₂.wantDev x (h₁.wantDev x h),
   fun x h => h₂.protMnt x (h₁.protMnt x h), fun x h => h₂.protDev x (h₁.protDev x h),
   fun t h => h₂.utd t (h₁.utd t h), Nat.le_trans h₁.replProt h₂.replProt⟩

theorem contains_cons_of {α : Type} [BEq α] {l : List α} {x : α} (a : α) (h : l.contains x = true) :
    (a :: l).contains x = true := by
  rw [List.contains_cons, h, Bool.or_true]

theorem contains_cons_self' {α : Type} [BEq α] [LawfulBEq α] (a : α) (l : List α) : (a :: l).contains a = true := by
  rw [List.contains_cons]; simp

/-- the two shapes of protectStep -/
theorem protectStep_cases (c : Class) (d : Nat) (s : Slot) (st : PassSt) :
    (∃ t, s.repl = some t ∧ st.protMnt.contains s.mnt.id = false ∧
      protectStep c d s st =
        { st with utd := t :: st.utd, protMnt := s.mnt.id :: st.protMnt,
                  replProt := if inClass c s.mnt && !st.protDev.contains s.mnt.dev
                              then st.replProt + s.mnt.repl else st.replProt,
                  protDev := if s.mnt.dev != 0 then s.mnt.dev :: st.protDev else st.protDev }) ∨
    (protectStep c d s st = st ∧
      ∀ t, s.repl = some t → (d ≤ st.replProt ∨ st.protMnt.contains s.mnt.id = true)) := by
  unfold protectStep
  cases hr : s.repl with
  | none => right; exact ⟨rfl, fun t h => by cases h⟩
  | some t =>
    simp only
    by_cases hc : (decide (st.replProt < d) && !st.protMnt.contains s.mnt.id) = true
    · left
      have hc2 := hc
      simp only [Bool.and_eq_true, decide_eq_true_eq, Bool.not_eq_true'] at hc2
      exact ⟨t, rfl, hc2.2, by rw [if_pos hc]⟩
    · right
      refine ⟨by rw [if_neg hc], fun t' _ => ?_⟩
      by_cases h1 : st.replProt < d
      · right
        cases h2 : st.protMnt.contains s.mnt.id with
        | true => rfl
        | false =>
          have : (decide (st.replProt < d) && !st.protMnt.contains s.mnt.id) = true := by
            rw [h2, decide_eq_true h1]; rfl
          exact absurd this hc
      · left; omega

/-- the two shapes of wantStep -/
theorem wantStep_cases (d : Nat) (s : Slot) (st : PassSt) :
    ((st.replWant < d ∧ (s.repl.isSome = true ∨ s.mnt.ro = false)) ∧
     wantStep d s st = { st with wantSrv := s.mnt.srv :: st.wantSrv, wantMnt := s.mnt.id :: st.wantMnt,
                                 wantDev := if s.mnt.dev != 0 then s.mnt.dev :: st.wantDev else st.wantDev,
                                 replWant := st.replWant + s.mnt.repl }) ∨
    wantStep d s st = st := by
  unfold wantStep
  split
  · rename_i hc
    left
    simp only [Bool.and_eq_true, decide_eq_true_eq, Bool.or_eq_true, Bool.not_eq_true'] at hc
    exact ⟨hc, rfl⟩
  · right; rfl

theorem protectStep_grow (c : Class) (d : Nat) (s : Slot) (st : PassSt) : Grow st (protectStep c d s st) := by
  rcases protectStep_cases c d s st with ⟨t, _, _, e⟩ | ⟨e, _⟩
  · rw [e]
    refine ⟨fun _ h => h, fun _ h => h, fun x h => contains_cons_of _ h, ?_, fun t' h => List.mem_cons_of_mem _ h, ?_⟩
    · intro x h
      show (if s.mnt.dev != 0 then s.mnt.dev :: st.protDev else st.protDev).contains x = true
      split
      · exact contains_cons_of _ h
      · exact h
    · show st.replProt ≤ if inClass c s.mnt && !st.protDev.contains s.mnt.dev then st.replProt + s.mnt.repl else st.replProt
      split <;> omega
  · rw [e]; exact Grow.refl st

theorem wantStep_grow (d : Nat) (s : Slot) (st : PassSt) : Grow st (wantStep d s st) := by
  rcases wantStep_cases d s st with ⟨_, e⟩ | e
  · rw [e]
    refine ⟨fun x h => contains_cons_of _ h, ?_, fun _ h => h, fun _ h => h, fun _ h => h, Nat.le_refl _⟩
    intro x h
    show (if s.mnt.dev != 0 then s.mnt.dev :: st.wantDev else st.wantDev).contains x = true
    split
    · exact contains_cons_of _ h
    · exact h
  · rw [e]; exact Grow.refl st

theorem setDone_grow (st : PassSt) (b : Bool) : Grow st { st with done := b } :=
  ⟨fun _ h => h, fun _ h => h, fun _ h => h, fun _ h => h, fun _ h => h, Nat.le_refl _⟩

/-- trySlot on a slot that is not yet wanted -/
theorem trySlot_else (c : Class) (d : Nat) (s : Slot) (st : PassSt)
    (hc : (st.wantMnt.contains s.mnt.id || st.wantDev.contains s.mnt.dev) = false) :
    trySlot c d s st =
      { wantStep d s (protectStep c d s st) with
        done := decide (d ≤ (wantStep d s (protectStep c d s st)).replProt) &&
                decide (d ≤ (wantStep d s (protectStep c d s st)).replWant) } := by
  unfold trySlot
  rw [hc]
  simp only [Bool.false_eq_true, if_false]

theorem trySlot_grow (c : Class) (d : Nat) (s : Slot) (st : PassSt) : Grow st (trySlot c d s st) := by
  cases hc : (st.wantMnt.contains s.mnt.id || st.wantDev.contains s.mnt.dev) with
  | true =>
    have e : trySlot c d s st = { st with done := false } := by unfold trySlot; rw [hc]; simp
    rw [e]; exact setDone_grow st false
  | false =>
    rw [trySlot_else c d s st hc]
    exact ((protectStep_grow c d s st).trans (wantStep_grow d s _)).trans (setDone_grow _ _)

theorem pass1Step_grow (c : Class) (d : Nat) (st : PassSt) (s : Slot) : Grow st (pass1Step c d st s) := by
  unfold pass1Step
  split
  · exact Grow.refl st
  · split
    · exact Grow.refl st
    · exact trySlot_grow c d s st

theorem pass2Step_grow (c : Class) (d : Nat) (st : PassSt) (s : Slot) : Grow st (pass2Step c d st s) := by
  unfold pass2Step
  split
  · exact Grow.refl st
  · exact trySlot_grow c d s st

theorem pass1_grow (c : Class) (d : Nat) (l : List Slot) : ∀ st : PassSt, Grow st (pass1 c d l st) := by
  induction l with
  | nil => intro st; exact Grow.refl st
  | cons s l ih => intro st; exact (pass1Step_grow c d st s).trans (ih _)

theorem pass2_grow (c : Class) (d : Nat) (l : List Slot) : ∀ st : PassSt, Grow st (pass2 c d l st) := by
  induction l with
  | nil => intro st; exact Grow.refl st
  | cons s l ih => intro st; exact (pass2Step_grow c d st s).trans (ih _)

/-- the slot's replica cannot be trashed because of this iteration: the slot is wanted, its device
is wanted through another mount, or the replica is protected -/
def Covered (st : PassSt) (s : Slot) : Prop :=
  st.wantMnt.contains s.mnt.id = true ∨ st.wantDev.contains s.mnt.dev = true ∨ st.protMnt.contains s.mnt.id = true

theorem Covered.mono {st st' : PassSt} (g : Grow st st') {s : Slot} (h : Covered st s) : Covered st' s := by
  rcases h with h | h | h
  · exact Or.inl (g.wantMnt _ h)
  · exact Or.inr (Or.inl (g.wantDev _ h))
  · exact Or.inr (Or.inr (g.protMnt _ h))

/-- what both passes maintain, relative to the whole slot list `S` of the iteration -/
structure FInv (c : Class) (d : Nat) (S : List Slot) (st : PassSt) : Prop where
  prot : ∀ s ∈ S, st.protMnt.contains s.mnt.id = true → ∃ t, s.repl = some t ∧ t ∈ st.utd
  counted : ∃ C : List Slot,
    (∀ s ∈ C, s ∈ S ∧ inClass c s.mnt = true ∧ s.repl.isSome = true ∧ st.protMnt.contains s.mnt.id = true ∧
      (s.mnt.dev ≠ 0 → st.protDev.contains s.mnt.dev = true)) ∧
    (C.map (fun s => devKey s.mnt)).Nodup ∧ st.replProt = ssum (fun s => s.mnt.repl) C
  done : st.done = true → d ≤ st.replProt

theorem finv_init (c : Class) (d : Nat) (S : List Slot) (u : List Int) : FInv c d S (passInit u) where
  prot := by intro s _ h; simp [passInit] at h
  counted := by
    refine ⟨[], ?_, ?_, rfl⟩
    · intro s hs; cases hs
    · exact List.nodup_nil
  done := by intro h; cases h

theorem finv_setDone {c : Class} {d : Nat} {S : List Slot} {st : PassSt} (h : FInv c d S st) (b : Bool)
    (hb : b = true → d ≤ st.replProt) : FInv c d S { st with done := b } where
  prot := h.prot
  counted := h.counted
  done := hb

theorem finv_protect {c : Class} {d : Nat} {S : List Slot} {st : PassSt} (hid : IdsDistinct S) (h : FInv c d S st)
    {s0 : Slot} (hs0 : s0 ∈ S) {t : Int} (hr : s0.repl = some t) (hn : st.protMnt.contains s0.mnt.id = false) :
    FInv c d S
      { st with utd := t :: st.utd, protMnt := s0.mnt.id :: st.protMnt,
                replProt := if inClass c s0.mnt && !st.protDev.contains s0.mnt.dev
                            then st.replProt + s0.mnt.repl else st.replProt,
                protDev := if s0.mnt.dev != 0 then s0.mnt.dev :: st.protDev else st.protDev } where
  prot := by
    intro s hs hc
    simp only [List.contains_cons, Bool.or_eq_true, beq_iff_eq] at hc
    rcases hc with hc | hc
    · have : s = s0 := eq_of_same_id hid hs hs0 hc
      subst this
      exact ⟨t, hr, List.mem_cons_self ..⟩
    · obtain ⟨t', h1, h2⟩ := h.prot s hs hc
      exact ⟨t', h1, List.mem_cons_of_mem _ h2⟩
  counted := by
    obtain ⟨C, hC, hnd, hsum⟩ := h.counted
    have hpd : ∀ x, st.protDev.contains x = true →
        (if s0.mnt.dev != 0 then s0.mnt.dev :: st.protDev else st.protDev).contains x = true := by
      intro x hx
      split
      · exact contains_cons_of _ hx
      · exact hx
    have hold : ∀ s ∈ C, s ∈ S ∧ inClass c s.mnt = true ∧ s.repl.isSome = true ∧
        (s0.mnt.id :: st.protMnt).contains s.mnt.id = true ∧
        (s.mnt.dev ≠ 0 → (if s0.mnt.dev != 0 then s0.mnt.dev :: st.protDev else st.protDev).contains s.mnt.dev = true) := by
      intro s hs
      obtain ⟨a1, a2, a3, a4, a5⟩ := hC s hs
      exact ⟨a1, a2, a3, contains_cons_of _ a4, fun h0 => hpd _ (a5 h0)⟩
    by_cases hcnt : (inClass c s0.mnt && !st.protDev.contains s0.mnt.dev) = true
    · have hcnt2 := hcnt
      simp only [Bool.and_eq_true, Bool.not_eq_true'] at hcnt2
      refine ⟨s0 :: C, ?_, ?_, ?_⟩
      · intro s hs
        rcases List.mem_cons.1 hs with rfl | hs'
        · refine ⟨hs0, hcnt2.1, by rw [hr]; rfl, contains_cons_self' _ _, ?_⟩
          intro h0
          have : (s.mnt.dev != 0) = true := by simpa using h0
          rw [if_pos this]
          exact contains_cons_self' _ _
        · exact hold s hs'
      · simp only [List.map_cons]
        refine List.nodup_cons.2 ⟨?_, hnd⟩
        intro hmem
        obtain ⟨s1, hs1, hk⟩ := List.mem_map.1 hmem
        obtain ⟨_, _, _, b4, b5⟩ := hC s1 hs1
        rcases (devKey_eq_iff s1.mnt s0.mnt).1 hk with ⟨_, _, hidd⟩ | ⟨h0, hd⟩
        · rw [hidd, hn] at b4; cases b4
        · have := b5 h0
          rw [hd, hcnt2.2] at this; cases this
      · show (if (inClass c s0.mnt && !st.protDev.contains s0.mnt.dev) = true then st.replProt + s0.mnt.repl
              else st.replProt) = ssum (fun s => s.mnt.repl) (s0 :: C)
        rw [if_pos hcnt, ssum_cons, hsum]; omega
    · refine ⟨C, hold, hnd, ?_⟩
      show (if (inClass c s0.mnt && !st.protDev.contains s0.mnt.dev) = true then st.replProt + s0.mnt.repl
            else st.replProt) = ssum (fun s => s.mnt.repl) C
      rw [if_neg hcnt, hsum]
  done := by
    intro hd
    have := h.done hd
    show d ≤ if inClass c s0.mnt && !st.protDev.contains s0.mnt.dev then st.replProt + s0.mnt.repl else st.replProt
    split <;> omega

theorem finv_wantStep {c : Class} {d : Nat} {S : List Slot} {st : PassSt} (h : FInv c d S st) (s0 : Slot) :
    FInv c d S (wantStep d s0 st) := by
  rcases wantStep_cases d s0 st with ⟨_, e⟩ | e
  · rw [e]; exact ⟨h.prot, h.counted, h.done⟩
  · rw [e]; exact h

/-- trySlot keeps the invariant; afterwards the slot's replica is covered unless `replProt`
already reached `d` -/
theorem trySlot_finv {c : Class} {d : Nat} {S : List Slot} (hid : IdsDistinct S) {st : PassSt}
    (h : FInv c d S st) {s0 : Slot} (hs0 : s0 ∈ S) :
    FInv c d S (trySlot c d s0 st) ∧
    (s0.repl.isSome = true → Covered (trySlot c d s0 st) s0 ∨ d ≤ (trySlot c d s0 st).replProt) := by
  cases hc : (st.wantMnt.contains s0.mnt.id || st.wantDev.contains s0.mnt.dev) with
  | true =>
    have e : trySlot c d s0 st = { st with done := false } := by unfold trySlot; rw [hc]; simp
    rw [e]
    refine ⟨finv_setDone h false (fun hb => by cases hb), fun _ => Or.inl ?_⟩
    simp only [Bool.or_eq_true] at hc
    rcases hc with hc | hc
    · exact Or.inl hc
    · exact Or.inr (Or.inl hc)
  | false =>
    rw [trySlot_else c d s0 st hc]
    have hP : FInv c d S (protectStep c d s0 st) ∧
        (s0.repl.isSome = true → (protectStep c d s0 st).protMnt.contains s0.mnt.id = true ∨
          d ≤ (protectStep c d s0 st).replProt) := by
      rcases protectStep_cases c d s0 st with ⟨t, hr, hn, e⟩ | ⟨e, hg⟩
      · rw [e]
        exact ⟨finv_protect hid h hs0 hr hn, fun _ => Or.inl (contains_cons_self' _ _)⟩
      · rw [e]
        refine ⟨h, fun hsome => ?_⟩
        cases hr : s0.repl with
        | none => rw [hr] at hsome; cases hsome
        | some t =>
          rcases hg t hr with h1 | h1
          · exact Or.inr h1
          · exact Or.inl h1
    have hW := finv_wantStep hP.1 s0
    have gW := wantStep_grow d s0 (protectStep c d s0 st)
    refine ⟨finv_setDone hW _ ?_, ?_⟩
    · intro hb
      simp only [Bool.and_eq_true, decide_eq_true_eq] at hb
      exact hb.1
    · intro hsome
      rcases hP.2 hsome with h1 | h1
      · exact Or.inl (Or.inr (Or.inr (gW.protMnt _ h1)))
      · exact Or.inr (Nat.le_trans h1 gW.replProt)

theorem pass1_finv {c : Class} {d : Nat} {S : List Slot} (hid : IdsDistinct S) :
    ∀ (l : List Slot), (∀ s ∈ l, s ∈ S) → ∀ st : PassSt, FInv c d S st → FInv c d S (pass1 c d l st) := by
  intro l
  induction l with
  | nil => intro _ st h; exact h
  | cons s l ih =>
    intro hsub st h
    show FInv c d S (pass1 c d l (pass1Step c d st s))
    apply ih (fun x hx => hsub x (List.mem_cons_of_mem _ hx))
    unfold pass1Step
    split
    · exact h
    · split
      · exact h
      · exact (trySlot_finv hid h (hsub s (List.mem_cons_self ..))).1

theorem pass2_done (c : Class) (d : Nat) (l : List Slot) : ∀ st : PassSt, st.done = true → pass2 c d l st = st := by
  induction l with
  | nil => intro st _; rfl
  | cons s l ih =>
    intro st h
    show pass2 c d l (pass2Step c d st s) = st
    have : pass2Step c d st s = st := by unfold pass2Step; simp [h]
    rw [this]; exact ih st h

/-- the second pass tries every slot unless it finishes: at its end `replProt ≥ d` or every replica
of the slots it ran over is covered -/
theorem pass2_visits {c : Class} {d : Nat} {S : List Slot} (hid : IdsDistinct S) :
    ∀ (l : List Slot), (∀ s ∈ l, s ∈ S) → ∀ st : PassSt, FInv c d S st → st.done = false →
      FInv c d S (pass2 c d l st) ∧
      (d ≤ (pass2 c d l st).replProt ∨ ∀ s ∈ l, s.repl.isSome = true → Covered (pass2 c d l st) s) := by
  intro l
  induction l with
  | nil => intro _ st h _; exact ⟨h, Or.inr (fun s hs => by cases hs)⟩
  | cons s l ih =>
    intro hsub st h hdone
    have hstep : pass2Step c d st s = trySlot c d s st := by unfold pass2Step; rw [hdone]; simp
    have hunf : pass2 c d (s :: l) st = pass2 c d l (trySlot c d s st) := by
      show pass2 c d l (pass2Step c d st s) = _
      rw [hstep]
    rw [hunf]
    have hs := hsub s (List.mem_cons_self ..)
    have hsub' : ∀ x ∈ l, x ∈ S := fun x hx => hsub x (List.mem_cons_of_mem _ hx)
    obtain ⟨h1, g1⟩ := trySlot_finv hid h hs
    by_cases hd1 : (trySlot c d s st).done = true
    · rw [pass2_done c d l _ hd1]
      exact ⟨h1, Or.inl (h1.done hd1)⟩
    · have hd1' : (trySlot c d s st).done = false := Bool.eq_false_iff.mpr hd1
      obtain ⟨h2, g2⟩ := ih hsub' _ h1 hd1'
      have gr := pass2_grow c d l (trySlot c d s st)
      refine ⟨h2, ?_⟩
      rcases g2 with g2 | g2
      · left; exact g2
      · by_cases hsome : s.repl.isSome = true
        · rcases g1 hsome with g | g
          · right
            intro x hx hxs
            rcases List.mem_cons.1 hx with rfl | hx'
            · exact g.mono gr
            · exact g2 x hx' hxs
          · left; exact Nat.le_trans g gr.replProt
        · right
          intro x hx hxs
          rcases List.mem_cons.1 hx with rfl | hx'
          · exact absurd hxs hsome
          · exact g2 x hx' hxs

/-! ### what an iteration guarantees for the rest of the run -/

/-- a later slot list: same mounts and replicas, `want` only switched on -/
structure Evolves (l l' : List Slot) : Prop where
  back : ∀ s' ∈ l', ∃ s ∈ l, s'.mnt = s.mnt ∧ s'.repl = s.repl ∧ (s.want = true → s'.want = true)
  fwd : ∀ s ∈ l, ∃ s' ∈ l', s'.mnt = s.mnt ∧ s'.repl = s.repl

theorem Evolves.refl (l : List Slot) : Evolves l l :=
  ⟨fun s hs => ⟨s, hs, rfl, rfl, fun h => h⟩, fun s hs => ⟨s, hs, rfl, rfl⟩⟩

theorem Evolves.trans {a b c : List Slot} (h₁ : Evolves a b) (h₂ : Evolves b c) : Evolves a c := by
  constructor
  · intro s'' hs''
    obtain ⟨s', hs', e1, e2, e3⟩ := h₂.back s'' hs''
    obtain ⟨s, hs, f1, f2, f3⟩ := h₁.back s' hs'
    exact ⟨s, hs, e1.trans f1, e2.trans f2, fun h => e3 (f3 h)⟩
  · intro s hs
    obtain ⟨s', hs', e1, e2⟩ := h₁.fwd s hs
    obtain ⟨s'', hs'', f1, f2⟩ := h₂.fwd s' hs'
    exact ⟨s'', hs'', f1.trans e1, f2.trans e2⟩

theorem evolves_perm_markWant {l S : List Slot} (h : S.Perm l) (w : List Nat) : Evolves l (S.map (markWant w)) := by
  constructor
  · intro s' hs'
    obtain ⟨s, hs, rfl⟩ := List.mem_map.1 hs'
    exact ⟨s, h.mem_iff.1 hs, markWant_mnt w s, markWant_repl w s, markWant_want_of w s⟩
  · intro s hs
    exact ⟨markWant w s, List.mem_map.2 ⟨s, h.mem_iff.2 hs, rfl⟩, markWant_mnt w s, markWant_repl w s⟩

theorem evolves_classIter (env : Env) (c : Class) {S : List Slot} {b : BState} (h : S.Perm b.slots) :
    Evolves b.slots (classIter env c S b).slots := by
  rw [classIter_slots]; exact evolves_perm_markWant h _

theorem evolves_runClasses (env : Env) (sorter : Class → List Slot → List Slot) :
    ∀ (cs : List Class) (b : BState), RunPerm env sorter cs b → Evolves b.slots (runClasses env sorter cs b).slots := by
  intro cs
  induction cs with
  | nil => intro b _; exact Evolves.refl _
  | cons c cs ih =>
    intro b hok
    unfold runClasses
    unfold RunPerm at hok
    by_cases hd : env.desired c = 0
    · simp only [hd, if_true] at hok ⊢; exact ih b hok
    · simp only [hd, if_false] at hok ⊢
      exact (evolves_classIter env c hok.1).trans (ih _ hok.2)

theorem evolves_finalWant (b : BState) : Evolves b.slots (finalWant b) := by
  unfold finalWant
  constructor
  · intro s' hs'
    obtain ⟨s, hs, rfl⟩ := List.mem_map.1 hs'
    refine ⟨s, hs, finalSlot_mnt b s, finalSlot_repl b s, fun hw => ?_⟩
    rcases finalSlot_cases b s with e | e <;> rw [e]
    exact hw
  · intro s hs
    exact ⟨finalSlot b s, List.mem_map.2 ⟨s, hs, rfl⟩, finalSlot_mnt b s, finalSlot_repl b s⟩

/-- a replica that will not be trashed: its slot is wanted or its mtime is unsafe to delete -/
def Kept (U : List Int) (s : Slot) : Prop := ∀ t, s.repl = some t → s.want = true ∨ t ∈ U

/-- The guarantee class `c` (desired `d`) has after its iteration: either a family of in-class
mounts on pairwise different devices, holding the block, with replication ≥ `d`, none of whose
devices can lose its replica through any of its views; or no replica at all can be trashed. -/
def Guar (c : Class) (d : Nat) (U : List Int) (l : List Slot) : Prop :=
  (∃ Cm : List Mount, (Cm.map devKey).Nodup ∧ d ≤ (Cm.map (·.repl)).sum ∧
    ∀ m ∈ Cm, inClass c m = true ∧ (∃ s ∈ l, s.mnt = m ∧ s.repl.isSome = true) ∧
      ∀ s' ∈ l, devKey s'.mnt = devKey m → Kept U s') ∨
  (∀ s ∈ l, Kept U s)

theorem Kept.transport {U U' : List Int} {s s' : Slot} (h : Kept U s) (hu : ∀ t ∈ U, t ∈ U')
    (e2 : s'.repl = s.repl) (e3 : s.want = true → s'.want = true) : Kept U' s' := by
  intro t ht
  rcases h t (e2 ▸ ht) with h1 | h1
  · exact Or.inl (e3 h1)
  · exact Or.inr (hu t h1)

theorem Guar.transport {c : Class} {d : Nat} {U U' : List Int} {l l' : List Slot}
    (h : Guar c d U l) (hu : ∀ t ∈ U, t ∈ U') (he : Evolves l l') : Guar c d U' l' := by
  rcases h with ⟨Cm, hnd, hsum, hC⟩ | h
  · left
    refine ⟨Cm, hnd, hsum, fun m hm => ?_⟩
    obtain ⟨a1, ⟨s, hs, e1, e2⟩, a3⟩ := hC m hm
    refine ⟨a1, ?_, ?_⟩
    · obtain ⟨s', hs', f1, f2⟩ := he.fwd s hs
      exact ⟨s', hs', f1.trans e1, by rw [f2]; exact e2⟩
    · intro s' hs' hk
      obtain ⟨s0, hs0, f1, f2, f3⟩ := he.back s' hs'
      exact (a3 s0 hs0 (by rw [← f1]; exact hk)).transport hu f2 f3
  · right
    intro s' hs'
    obtain ⟨s0, hs0, _, f2, f3⟩ := he.back s' hs'
    exact (h s0 hs0).transport hu f2 f3

theorem mem_wantDevMtimes {devs : List Dev} {S : List Slot} {s : Slot} {t : Int} (hs : s ∈ S)
    (hr : s.repl = some t) (hd : devs.contains s.mnt.dev = true) : t ∈ wantDevMtimes devs S := by
  unfold wantDevMtimes
  rw [List.mem_filterMap]
  exact ⟨s, hs, by rw [hd]; exact hr⟩

/-- The guarantee one class iteration establishes (distinct mount identities only). -/
theorem classIter_guar (env : Env) (c : Class) (S : List Slot) (b : BState) (hid : IdsDistinct S) :
    Guar c (env.desired c) (classIter env c S b).utd (classIter env c S b).slots := by
  have hsub : ∀ s ∈ S, s ∈ S := fun _ h => h
  have h1 := pass1_finv (c := c) (d := env.desired c) hid S hsub _ (finv_init c (env.desired c) S b.utd)
  generalize hst1 : pass1 c (env.desired c) S (passInit b.utd) = st1 at h1
  have key : FInv c (env.desired c) S (pass2 c (env.desired c) S st1) ∧
      (env.desired c ≤ (pass2 c (env.desired c) S st1).replProt ∨
        ∀ s ∈ S, s.repl.isSome = true → Covered (pass2 c (env.desired c) S st1) s) := by
    by_cases hd : st1.done = true
    · rw [pass2_done _ _ S st1 hd]
      exact ⟨h1, Or.inl (h1.done hd)⟩
    · exact pass2_visits hid S hsub st1 h1 (Bool.eq_false_iff.mpr hd)
  generalize hst2 : pass2 c (env.desired c) S st1 = st2 at key
  obtain ⟨h2, g⟩ := key
  have hslots : (classIter env c S b).slots = S.map (markWant st2.wantMnt) := by
    rw [classIter_slots, hst1, hst2]
  have hutd : (classIter env c S b).utd = wantDevMtimes (st2.wantDev ++ st2.protDev) S ++ st2.utd := by
    unfold classIter; simp only; rw [hst1, hst2]
  have hU2 : ∀ t ∈ st2.utd, t ∈ (classIter env c S b).utd := by
    intro t ht; rw [hutd]; exact List.mem_append_right _ ht
  have hUdev : ∀ s ∈ S, ∀ t, s.repl = some t →
      (st2.wantDev.contains s.mnt.dev = true ∨ st2.protDev.contains s.mnt.dev = true) →
      t ∈ (classIter env c S b).utd := by
    intro s hs t hr hd
    rw [hutd]
    apply List.mem_append_left
    apply mem_wantDevMtimes hs hr
    rw [List.contains_append, Bool.or_eq_true]
    exact hd
  rcases g with g | g
  · left
    obtain ⟨C, hC, hnd, hsum⟩ := h2.counted
    refine ⟨C.map (·.mnt), ?_, ?_, ?_⟩
    · rw [List.map_map]; exact hnd
    · rw [List.map_map]
      have : ((fun (m : Mount) => m.repl) ∘ fun (s : Slot) => s.mnt) = fun s => s.mnt.repl := rfl
      rw [this]
      show env.desired c ≤ ssum (fun s => s.mnt.repl) C
      omega
    · intro m hm
      obtain ⟨s, hs, rfl⟩ := List.mem_map.1 hm
      obtain ⟨a1, a2, a3, a4, a5⟩ := hC s hs
      refine ⟨a2, ?_, ?_⟩
      · rw [hslots]
        exact ⟨markWant st2.wantMnt s, List.mem_map.2 ⟨s, a1, rfl⟩, markWant_mnt _ s, by rw [markWant_repl]; exact a3⟩
      · intro s' hs' hk t' ht'
        rw [hslots] at hs'
        obtain ⟨s1, hs1, rfl⟩ := List.mem_map.1 hs'
        rw [markWant_mnt] at hk
        rw [markWant_repl] at ht'
        right
        rcases (devKey_eq_iff s1.mnt s.mnt).1 hk with ⟨_, _, hidd⟩ | ⟨h0, hd⟩
        · have : s1 = s := eq_of_same_id hid hs1 a1 hidd
          subst this
          obtain ⟨t, hr, ht⟩ := h2.prot s1 hs1 a4
          rw [ht'] at hr; cases hr
          exact hU2 t' ht
        · exact hUdev s1 hs1 t' ht' (Or.inr (by rw [hd]; exact a5 (by rw [← hd]; exact h0)))
  · right
    intro s' hs' t' ht'
    rw [hslots] at hs'
    obtain ⟨s1, hs1, rfl⟩ := List.mem_map.1 hs'
    rw [markWant_repl] at ht'
    rcases g s1 hs1 (by rw [ht']; rfl) with hc | hc | hc
    · left; rw [markWant_want_iff]; exact Or.inr hc
    · right; exact hUdev s1 hs1 t' ht' (Or.inl hc)
    · right
      obtain ⟨t, hr, ht⟩ := h2.prot s1 hs1 hc
      rw [ht'] at hr; cases hr
      exact hU2 t' ht

/-- every class of the loop with desired > 0 carries its guarantee to the end of the loop -/
theorem runClasses_guar (env : Env) (sorter : Class → List Slot → List Slot) (c : Class) :
    ∀ (cs : List Class) (b : BState), RunPerm env sorter cs b → IdsDistinct b.slots →
      c ∈ cs → env.desired c ≠ 0 →
      Guar c (env.desired c) (runClasses env sorter cs b).utd (runClasses env sorter cs b).slots := by
  intro cs
  induction cs with
  | nil => intro b _ _ hm; cases hm
  | cons c0 cs ih =>
    intro b hok hid hm hd
    unfold RunPerm at hok
    by_cases hd0 : env.desired c0 = 0
    · have hrun : runClasses env sorter (c0 :: cs) b = runClasses env sorter cs b := by
        conv => lhs; unfold runClasses
        simp [hd0]
      simp only [hd0, if_true] at hok
      rw [hrun]
      rcases List.mem_cons.1 hm with rfl | hm'
      · exact absurd hd0 hd
      · exact ih b hok hid hm' hd
    · have hrun : runClasses env sorter (c0 :: cs) b =
          runClasses env sorter cs (classIter env c0 (sorter c0 b.slots) b) := by
        conv => lhs; unfold runClasses
        simp [hd0]
      simp only [hd0, if_false] at hok
      rw [hrun]
      have hS := hok.1
      have hidS : IdsDistinct (sorter c0 b.slots) := distinctIds_of_perm (hS.map _) hid
      have hid1 : IdsDistinct (classIter env c0 (sorter c0 b.slots) b).slots :=
        distinctIds_of_perm (coreRel_mnt_perm (classIter_coreRel env c0 hS)) hid
      rcases List.mem_cons.1 hm with rfl | hm'
      · have h0 := classIter_guar env c (sorter c b.slots) b hidS
        exact h0.transport (fun t ht => runClasses_utd_mono env sorter cs _ t ht)
          (evolves_runClasses env sorter cs _ hok.2)
      · exact ih _ hok.2 hid1 hm' hd

end ArvVerif.C05
