/-
C08 helper lemmas, part 11: per-operation refinement, directory operations and the handle
operations that do not touch file content.
-/
import ArvVerif.Proofs.C08_Hist1
namespace ArvVerif.C08

variable {max : Nat} {hash : Bytes → Loc}

/-- concrete outcome `a` refines spec outcome `b`: same result, abstraction commutes, invariant kept -/
def Ref3 (max : Nat) (hash : Bytes → Loc) (a : CFS × Res) (b : SFS × Res) : Prop :=
  a.2 = b.2 ∧ absFS a.1 = b.1 ∧ Inv max hash a.1

theorem Ref3.ite {c : Prop} [Decidable c] {a a' : CFS × Res} {b b' : SFS × Res}
    (h1 : Ref3 max hash a b) (h2 : Ref3 max hash a' b') :
    Ref3 max hash (if c then a else a') (if c then b else b') := by
  split
  · exact h1
  · exact h2

theorem Ref3.same {s : CFS} (hinv : Inv max hash s) (r : Res) : Ref3 max hash (s, r) (absFS s, r) :=
  ⟨rfl, rfl, hinv⟩

/-- a state with the same Keep, handles and file contents (names may differ) keeps the invariant -/
theorem Inv.same_contents {s s' : CFS} (hinv : Inv max hash s) (hw : s'.world = s.world)
    (hh : s'.handles = s.handles) (hf : s'.files.map (·.2) = s.files.map (·.2))
    (he : EntsOK s'.ents s.files.length) : Inv max hash s' := by
  have hget : ∀ (f : Nat) (nf : String × FileNode), s'.files[f]? = some nf →
      ∃ nf0 : String × FileNode, s.files[f]? = some nf0 ∧ nf0.2 = nf.2 := by
    intro f nf h
    have h1 : (s'.files.map (·.2))[f]? = some nf.2 := by simp [h]
    rw [hf] at h1
    simp only [List.getElem?_map, Option.map_eq_some_iff] at h1
    exact h1
  have hget' : ∀ (f : Nat) (nf0 : String × FileNode), s.files[f]? = some nf0 →
      ∃ nf : String × FileNode, s'.files[f]? = some nf ∧ nf.2 = nf0.2 := by
    intro f nf0 h
    have h1 : (s.files.map (·.2))[f]? = some nf0.2 := by simp [h]
    rw [← hf] at h1
    simp only [List.getElem?_map, Option.map_eq_some_iff] at h1
    exact h1
  have hlen : s'.files.length = s.files.length := by
    have := congrArg List.length hf; simpa using this
  refine ⟨by rw [hw]; exact hinv.ok, ?_, ?_, by rw [hlen]; exact he⟩
  · intro nf hnf
    obtain ⟨f, hf'⟩ := List.getElem?_of_mem hnf
    obtain ⟨nf0, h0, h1⟩ := hget f nf hf'
    rw [hw, ← h1]; exact hinv.files nf0 (List.mem_of_getElem? h0)
  · intro e he f hnode
    rw [hh] at he
    obtain ⟨nf0, h0, hp⟩ := hinv.handles e he f hnode
    obtain ⟨nf, h1, h2⟩ := hget' f nf0 h0
    exact ⟨nf, h1, by rw [h2]; exact hp⟩

theorem setNameParent_abs (s : CFS) (n : Node) (name : String) (d : Nat) :
    absFS (setNameParent s n name d) = setNameParent (absFS s) n name d := by
  cases n with
  | dir k => rfl
  | file f =>
    simp only [setNameParent, absFS_files, absFiles_get]
    cases hf : s.files[f]? with
    | none => rfl
    | some nf =>
      simp only [Option.map_some]
      simp only [absFS, absFiles, List.map_set]

theorem setNameParent_contents (s : CFS) (n : Node) (name : String) (d : Nat) :
    (setNameParent s n name d).world = s.world ∧ (setNameParent s n name d).handles = s.handles ∧
    (setNameParent s n name d).files.map (·.2) = s.files.map (·.2) ∧
    (setNameParent s n name d).ents = s.ents := by
  cases n with
  | dir k => exact ⟨rfl, rfl, rfl, rfl⟩
  | file f =>
    simp only [setNameParent]
    cases hf : s.files[f]? with
    | none => exact ⟨rfl, rfl, rfl, rfl⟩
    | some nf =>
      refine ⟨rfl, rfl, ?_, rfl⟩
      simp only [List.map_set]
      exact set_eq_self (by simp [hf])

theorem doMkdir_ref {s : CFS} (hinv : Inv max hash s) (path : String) :
    Ref3 max hash (doMkdir (concImpl hash max) s path) (doMkdir specImpl (absFS s) path) := by
  unfold doMkdir
  generalize splitDirBase path = sp
  obtain ⟨dcomps, name⟩ := sp
  simp only [lookupDir_abs, absFS_ents]
  cases lookupDir s dcomps with
  | error e => exact Ref3.same hinv _
  | ok d =>
    simp only []
    by_cases hsp : special name = true
    · simp only [hsp, if_true]; exact Ref3.same hinv _
    · simp only [hsp, Bool.false_eq_true, if_false]
      cases child s.ents d name with
      | some _ => exact Ref3.same hinv _
      | none =>
        simp only []
        refine ⟨rfl, (addNode_abs (max := max) (hash := hash) s d name true).1, ?_⟩
        exact hinv.same_contents rfl rfl rfl (hinv.ents.set d name _ (fun f h => by cases h))

theorem doRemove_ref {s : CFS} (hinv : Inv max hash s) (path : String) (rec : Bool) :
    Ref3 max hash (doRemove s path rec) (doRemove (absFS s) path rec) := by
  unfold doRemove
  generalize splitDirBase (trimSlashes path) = sp
  obtain ⟨dcomps, name⟩ := sp
  simp only [lookupDir_abs, absFS_ents, dirSize_abs]
  by_cases hsp : special name = true
  · simp only [hsp, if_true]; exact Ref3.same hinv _
  · simp only [hsp, Bool.false_eq_true, if_false]
    cases lookupDir s dcomps with
    | error e => exact Ref3.same hinv _
    | ok d =>
      simp only []
      cases child s.ents d name with
      | none => exact Ref3.same hinv _
      | some n =>
        simp only []
        refine Ref3.ite (Ref3.same hinv _) ?_
        exact ⟨rfl, rfl, hinv.same_contents rfl rfl rfl (hinv.ents.erase d name)⟩

theorem doRename_ref {s : CFS} (hinv : Inv max hash s) (old new : String) :
    Ref3 max hash (doRename s old new) (doRename (absFS s) old new) := by
  unfold doRename
  generalize splitDirBase old = sp
  obtain ⟨ocomps, oldname⟩ := sp
  generalize splitDirBase new = sp2
  obtain ⟨ncomps, newname0⟩ := sp2
  simp only [lookupDir_abs, absFS_ents, absFS_dirs]
  by_cases hsp : special oldname = true
  · simp only [hsp, if_true]; exact Ref3.same hinv _
  · simp only [hsp, Bool.false_eq_true, if_false]
    cases lookupDir s ocomps with
    | error e => exact Ref3.same hinv _
    | ok od =>
      simp only []
      refine Ref3.ite (Ref3.same hinv _) ?_
      cases lookupDir s ncomps with
      | error e => exact Ref3.same hinv _
      | ok nd =>
        simp only []
        cases hchild : child s.ents od oldname with
        | none => exact Ref3.same hinv _
        | some n =>
          simp only []
          refine Ref3.ite (Ref3.same hinv _) ?_
          have hnvalid : ∀ f, n = Node.file f → f < s.files.length := by
            intro f hf
            obtain ⟨e, he1, he2⟩ := child_mem hchild
            exact hinv.ents e he1 f (by rw [he2, hf])
          have hfin : ∀ (g : List ((Nat × String) × Node) → List ((Nat × String) × Node)),
              (∀ E, EntsOK E s.files.length → EntsOK (g E) s.files.length) →
              Ref3 max hash
              ({ (setNameParent { s with ents := setEnt s.ents nd (if (newname0 == "") = true then oldname else newname0) n }
                    n (if (newname0 == "") = true then oldname else newname0) nd) with
                  ents := g (setNameParent { s with ents := setEnt s.ents nd (if (newname0 == "") = true then oldname else newname0) n }
                    n (if (newname0 == "") = true then oldname else newname0) nd).ents }, Res.err Err.ok)
              ({ (setNameParent { (absFS s) with ents := setEnt s.ents nd (if (newname0 == "") = true then oldname else newname0) n }
                    n (if (newname0 == "") = true then oldname else newname0) nd) with
                  ents := g (setNameParent { (absFS s) with ents := setEnt s.ents nd (if (newname0 == "") = true then oldname else newname0) n }
                    n (if (newname0 == "") = true then oldname else newname0) nd).ents }, Res.err Err.ok) := by
            intro g hg
            obtain ⟨c1, c2, c3, c4⟩ := setNameParent_contents
              { s with ents := setEnt s.ents nd (if (newname0 == "") = true then oldname else newname0) n }
              n (if (newname0 == "") = true then oldname else newname0) nd
            refine ⟨rfl, ?_, hinv.same_contents c1 c2 c3 (by
              show EntsOK (g _) _
              rw [c4]
              exact hg _ (hinv.ents.set nd _ n hnvalid))⟩
            have := setNameParent_abs
              { s with ents := setEnt s.ents nd (if (newname0 == "") = true then oldname else newname0) n }
              n (if (newname0 == "") = true then oldname else newname0) nd
            have e : absFS { s with ents := setEnt s.ents nd (if (newname0 == "") = true then oldname else newname0) n }
                = { (absFS s) with ents := setEnt s.ents nd (if (newname0 == "") = true then oldname else newname0) n } := rfl
            rw [e] at this
            rw [← this]
            rfl
          have hg : ∀ E, EntsOK E s.files.length →
              EntsOK (if od = nd ∧ oldname = (if (newname0 == "") = true then oldname else newname0) then E
                else eraseEnt E od oldname) s.files.length := by
            intro E hE
            by_cases hc : od = nd ∧ oldname = (if (newname0 == "") = true then oldname else newname0)
            · rw [if_pos hc]; exact hE
            · rw [if_neg hc]; exact hE.erase od oldname
          cases child s.ents nd (if (newname0 == "") = true then oldname else newname0) with
          | none => exact hfin _ hg
          | some x =>
            cases x with
            | dir k => exact Ref3.same hinv _
            | file f => exact hfin _ hg

end ArvVerif.C08
